/-
C10 — event detection is sound, complete w.r.t. sampling, ordered and sharp.

Theorems about `Model/Listen.lean` (Speaker.listen / _bisect / Listener.check / clear and the
interleaving of `iter`), for an ARBITRARY watched quantity `f : Int → Int`, arbitrary guards and
labels, arbitrary listener lists and arbitrary sample sequences (dates are integer µs), and about
the listener classes of `Model/ListenKinds.lean`, whose watched quantity / guard / label are
re-translated from beyond/propagators/listeners.py on every run (`Generated/ListenSrc.lean`); about
`TopocentricFrame.visibility` (listeners with and without a frame of their own), `events_iterator` / `find_event`;
and, over ℝ, about `LightListener.__call__` as translated from the source by py2lean (`Generated/LightSrcR.lean`).
-/
import BeyondVerif.Lemmas.Listen
import BeyondVerif.Model.ListenKinds
import BeyondVerif.Generated.LightSrcR
import Mathlib.Analysis.InnerProductSpace.LinearMap
namespace BeyondVerif.C10
open BeyondVerif.Listen

/-! ## `_bisect` -/

/-- **bisect_terminates.**  `_bisect` is defined by well-founded recursion on `|end − begin|` (the
termination proof is part of `Model/Listen.lean`: every pass strictly shrinks the bracket, also with the
round-half-even halving of `timedelta / 2` and for negative steps); moreover the number of passes through
the loop is logarithmic: it is `0` or satisfies `2^passes + 2 ≤ 2·|end − begin|`. -/
theorem bisect_terminates (f : Int → Int) (b e : Int) :
    bisectSteps f b e = 0 ∨ 2 ^ bisectSteps f b e + 2 ≤ 2 * (e - b).natAbs :=
  bisectSteps_bound f b e

example : bisectSteps (fun t => t - 700) 0 1000 = 10 := by decide +kernel

/-- **event_between** (forward iteration): the state returned by `_bisect` is dated strictly after the older
sample and not after the newer one: `t_k < t_event ≤ t_{k+1}`. -/
theorem event_between (f : Int → Int) {b e : Int} (h : b < e) : b < bisect f b e ∧ bisect f b e ≤ e := by
  have := (bisect2_spec f b e).1 (le_of_lt h)
  unfold bisect; omega

/-- **event_between** (backward iteration, `t_{k+1} < t_k`): `t_{k+1} ≤ t_event < t_k`. -/
theorem event_between_backward (f : Int → Int) {b e : Int} (h : e < b) : e ≤ bisect f b e ∧ bisect f b e < b := by
  have := (bisect2_spec f b e).2.1 (le_of_lt h)
  unfold bisect; omega

example : bisect (fun t => t - 700) 0 1000 = 700 := by decide +kernel
example : ∃ b e : Int, e < b := ⟨1000, 0, by decide⟩

/-- **event_sharp.**  Whenever `check` fired (the signs of the watched quantity at the two samples differ),
there is a date `b'` at most 1 µs from the event date, on the older side of it, where the watched quantity still
has the sign it had at the older sample, and `f b' · f t_event ≤ 0`: the quantity changes sign (or vanishes) within
one microsecond of the reported state. -/
theorem event_sharp (f : Int → Int) (b e : Int) (h : Int.sign (f e) ≠ Int.sign (f b)) :
    ∃ b', (b' - bisect f b e).natAbs ≤ 1 ∧
      (b ≤ e → b ≤ b' ∧ b' ≤ bisect f b e) ∧ (e ≤ b → bisect f b e ≤ b' ∧ b' ≤ b) ∧
      Int.sign (f b') = Int.sign (f b) ∧ f b' * f (bisect f b e) ≤ 0 := by
  obtain ⟨h1, h2, h3, h4⟩ := bisect2_spec f b e
  refine ⟨(bisect2 f b e).1, ?_, ?_, ?_, h3, ?_⟩
  · unfold bisect
    rcases le_total b e with hbe | hbe
    · have := h1 hbe; omega
    · have := h2 hbe; omega
  · intro hbe; have := h1 hbe; unfold bisect; omega
  · intro hbe; have := h2 hbe; unfold bisect; omega
  · exact h4 (mul_nonpos_of_sign_ne (Ne.symm h))

/-- corollary of `event_sharp`: if the quantity is not exactly zero at the older sample, the event state is strictly
on the other side of zero or exactly zero — its sign differs from the sign at the older sample. -/
theorem event_other_side (f : Int → Int) (b e : Int) (h : Int.sign (f e) ≠ Int.sign (f b)) (hb : f b ≠ 0) :
    Int.sign (f (bisect f b e)) ≠ Int.sign (f b) := by
  obtain ⟨b', -, -, -, hs, hp⟩ := event_sharp f b e h
  have hb' : f b' ≠ 0 := by
    intro h0
    rw [h0] at hs
    rcases sign_cases (f b) with ⟨h1, h2⟩ | ⟨h1, h2⟩ | ⟨h1, h2⟩
    · simp at hs; omega
    · exact hb h1
    · simp at hs; omega
  rw [← hs]
  exact sign_ne_of_mul_nonpos hb' hp

example : Int.sign ((fun t : Int => t - 700) 1000) ≠ Int.sign ((fun t : Int => t - 700) 0) := by decide

/-! ## one call of `Speaker.listen` -/

theorem fire_some {l : Lst} {i : Nat} {p : Option Int} {t : Int} {e : Ev} :
    fire l i p t = some e ↔ ∃ q, p = some q ∧ l.guard q t = true ∧ Int.sign (l.f t) ≠ Int.sign (l.f q) ∧
      e = ⟨bisect l.f q t, i, l.label q (bisect l.f q t)⟩ := by
  cases p with
  | none => simp [fire]
  | some q =>
    constructor
    · intro h
      unfold fire at h
      simp only at h
      split at h
      · rename_i hc
        simp only [Bool.and_eq_true, bne_iff_ne, ne_eq] at hc
        exact ⟨q, rfl, hc.1, hc.2, (Option.some.inj h).symm⟩
      · cases h
    · rintro ⟨q', hq, hg, hs, rfl⟩
      cases hq
      have hc : (l.guard q t && (Int.sign (l.f t) != Int.sign (l.f q))) = true := by
        simp only [Bool.and_eq_true, bne_iff_ne, ne_eq]; exact ⟨hg, hs⟩
      unfold fire
      simp only
      rw [if_pos hc]

theorem mem_rawEventsU {ls : List Lst} {i : Nat} {p : Option Int} {t : Int} {e : Ev} :
    e ∈ rawEventsU ls i p t ↔ ∃ k l, ls[k]? = some l ∧ fire l (i + k) p t = some e := by
  induction ls generalizing i with
  | nil => simp [rawEventsU]
  | cons l ls ih =>
    have key : e ∈ rawEventsU (l :: ls) i p t ↔ fire l i p t = some e ∨ e ∈ rawEventsU ls (i + 1) p t := by
      rw [rawEventsU]
      split
      · rename_i e' he; simp [he, eq_comm]
      · rename_i he; simp [he]
    rw [key, ih]
    constructor
    · rintro (h | ⟨k, l', hk, hf⟩)
      · exact ⟨0, l, by simp, by simpa using h⟩
      · exact ⟨k + 1, l', by simpa using hk, by rw [show i + (k + 1) = i + 1 + k by omega]; exact hf⟩
    · rintro ⟨k, l', hk, hf⟩
      cases k with
      | zero => left; simp at hk; subst hk; simpa using hf
      | succ k => right; exact ⟨k, l', by simpa using hk, by rw [show i + 1 + k = i + (k + 1) by omega]; exact hf⟩

/-- shape of every result of `listen`: it was produced by the listener at its index, whose guard held at the new
sample and whose watched quantity has different signs at the two samples; its date is the `_bisect` date and its label
is that listener's `info` -/
theorem raw_event_spec {ls : List Lst} {p t : Int} {e : Ev} (h : e ∈ rawEventsU ls 0 (some p) t) :
    ∃ l, ls[e.idx]? = some l ∧ l.guard p t = true ∧ Int.sign (l.f t) ≠ Int.sign (l.f p) ∧
      e.t = bisect l.f p t ∧ e.label = l.label p e.t := by
  obtain ⟨k, l, hk, hf⟩ := mem_rawEventsU.1 h
  obtain ⟨q, hq, hg, hs, rfl⟩ := fire_some.1 hf
  cases hq
  exact ⟨l, by simpa using hk, hg, hs, rfl, rfl⟩

/-- **event_iff_sign_change.**  In the block between two consecutive samples `p`, `t`, listener number `k` contributes
an event **iff** it exists, its own visibility condition holds at the new sample and the (three-valued) sign of its
watched quantity differs between the two samples.  Soundness is `→`, completeness w.r.t. sampling is `←`. -/
theorem event_iff_sign_change (ls : List Lst) (p t : Int) (k : Nat) :
    (∃ e ∈ rawEventsU ls 0 (some p) t, e.idx = k) ↔
      ∃ l, ls[k]? = some l ∧ l.guard p t = true ∧ Int.sign (l.f t) ≠ Int.sign (l.f p) := by
  constructor
  · rintro ⟨e, he, rfl⟩
    obtain ⟨l, h1, h2, h3, -⟩ := raw_event_spec he
    exact ⟨l, h1, h2, h3⟩
  · rintro ⟨l, hk, hg, hs⟩
    refine ⟨⟨bisect l.f p t, k, l.label p (bisect l.f p t)⟩, ?_, rfl⟩
    exact mem_rawEventsU.2 ⟨k, l, hk, fire_some.2 ⟨p, rfl, hg, hs, by simp⟩⟩

theorem idx_ge {ls : List Lst} {i : Nat} {p : Option Int} {t : Int} {e : Ev} (h : e ∈ rawEventsU ls i p t) : i ≤ e.idx := by
  obtain ⟨k, l, -, hf⟩ := mem_rawEventsU.1 h
  obtain ⟨q, -, -, -, rfl⟩ := fire_some.1 hf
  simp

/-- **at most one event per listener and block**: the listener indices of the results are strictly increasing. -/
theorem event_unique (ls : List Lst) (i : Nat) (p : Option Int) (t : Int) :
    (rawEventsU ls i p t).Pairwise (fun a b => a.idx < b.idx) := by
  induction ls generalizing i with
  | nil => simp [rawEventsU]
  | cons l ls ih =>
    unfold rawEventsU
    split
    · rename_i e he
      obtain ⟨q, -, -, -, rfl⟩ := fire_some.1 he
      refine List.pairwise_cons.2 ⟨fun y hy => ?_, ih (i + 1)⟩
      have := idx_ge hy
      simp; omega
    · exact ih (i + 1)

example : ∃ e ∈ rawEventsU [⟨fun t => t - 700, fun _ _ => true, fun _ _ => "x"⟩] 0 (some 0) 1000, e.idx = 0 :=
  (event_iff_sign_change _ 0 1000 0).2 ⟨_, rfl, rfl, by decide⟩

/-- between-ness and sharpness for every result of one `listen` call (forward step) -/
theorem listen_event_between {ls : List Lst} {p t : Int} {e : Ev} (h : e ∈ rawEventsU ls 0 (some p) t) (hpt : p < t) :
    p < e.t ∧ e.t ≤ t := by
  obtain ⟨l, -, -, -, ht, -⟩ := raw_event_spec h
  rw [ht]; exact event_between l.f hpt

theorem listen_event_between_backward {ls : List Lst} {p t : Int} {e : Ev} (h : e ∈ rawEventsU ls 0 (some p) t) (hpt : t < p) :
    t ≤ e.t ∧ e.t < p := by
  obtain ⟨l, -, -, -, ht, -⟩ := raw_event_spec h
  rw [ht]; exact event_between_backward l.f hpt

theorem listen_event_sharp {ls : List Lst} {p t : Int} {e : Ev} (h : e ∈ rawEventsU ls 0 (some p) t) :
    ∃ l b', ls[e.idx]? = some l ∧ (b' - e.t).natAbs ≤ 1 ∧ Int.sign (l.f b') = Int.sign (l.f p) ∧ l.f b' * l.f e.t ≤ 0 := by
  obtain ⟨l, hl, -, hs, ht, -⟩ := raw_event_spec h
  obtain ⟨b', h1, -, -, h4, h5⟩ := event_sharp l.f p t hs
  exact ⟨l, b', hl, by rw [ht]; exact h1, h4, by rw [ht]; exact h5⟩

/-! ## what `listen` returns: the results, sorted by date (stable) -/

theorem lastAt_none {t : Int} {evs : List Ev} : lastAt t evs = none ↔ ∀ e ∈ evs, e.t ≠ t := by
  induction evs with
  | nil => simp [lastAt]
  | cons a l ih =>
    unfold lastAt
    cases h : lastAt t l with
    | some x =>
      simp only [reduceCtorEq, false_iff]
      intro hall
      have := ih.2 (fun e he => hall e (List.mem_cons_of_mem _ he))
      rw [h] at this; cases this
    | none =>
      have hl := ih.1 h
      by_cases hat : a.t = t
      · simp [hat]
      · simp only [hat, if_false, true_iff]
        intro e he
        rcases List.mem_cons.1 he with rfl | he
        · exact hat
        · exact hl e he

/-- the events keep their dates through the aliasing of the sample object -/
theorem alias_times (t : Int) (evs : List Ev) : (applyAlias t evs).1.map Ev.t = evs.map Ev.t := by
  unfold applyAlias
  split
  · rfl
  · simp only [List.map_map]
    apply List.map_congr_left
    intro e _
    simp only [Function.comp]
    split <;> rfl

/-- unless a result is the sample object itself (its date is the sample's date), nothing is aliased -/
theorem alias_id {t : Int} {evs : List Ev} (h : ∀ e ∈ evs, e.t ≠ t) : applyAlias t evs = (evs, none) := by
  unfold applyAlias; rw [lastAt_none.2 h]

/-- the dates of the event items of one block are the dates of the results, sorted in the direction of the iteration
(`sorted(results, key=date, reverse=backward)`): ascending for a forward step, descending for a backward one -/
theorem listenU_times (ls : List Lst) (p : Option Int) (t : Int) :
    ∃ evs : List Ev, (listenU ls p t).map Item.t = evs.map Ev.t ++ [t] ∧
      (backwardU p t = false → evs.Pairwise (fun a b => a.t ≤ b.t)) ∧
      (backwardU p t = true → evs.Pairwise (fun a b => b.t ≤ a.t)) ∧
      (evs.map Ev.t).Perm ((rawEventsU ls 0 p t).map Ev.t) := by
  refine ⟨sortDir (backwardU p t) (applyAlias t (rawEventsU ls 0 p t)).1, ?_, ?_, ?_, ?_⟩
  · simp [listenU, List.map_map, Function.comp_def]
  · intro h; rw [h]; exact sorted_sortEv _
  · intro h; rw [h]; exact sorted_sortEvDesc _
  · rw [← alias_times t (rawEventsU ls 0 p t)]
    exact (perm_sortDir _ _).map Ev.t

/-- **listen_exact**: when no result is the sample object itself, the event items of the block are exactly the results
(date, listener, label), stably sorted by date in the direction of the iteration, followed by the sample without event. -/
theorem listen_exact (ls : List Lst) (p : Option Int) (t : Int) (h : ∀ e ∈ rawEventsU ls 0 p t, e.t ≠ t) :
    listenU ls p t = (sortDir (backwardU p t) (rawEventsU ls 0 p t)).map (fun e => ⟨e.t, some (e.idx, e.label)⟩) ++ [⟨t, none⟩] := by
  simp [listenU, alias_id h]

/-- **simultaneous events keep the order of the `listeners` list.**  The results of one `listen` call are sorted by
date in the direction of the iteration, and results with the SAME date come in the order in which their listeners stand
in the `listeners` list — forward and backward alike (`sorted` is stable, also with `reverse=True`).  So the position of
every event item of a block is determined by (date, listener index) alone. -/
theorem simultaneous_events_in_listener_order (ls : List Lst) (p : Option Int) (t : Int) :
    (sortDir false (rawEventsU ls 0 p t)).Pairwise lexAsc ∧ (sortDir true (rawEventsU ls 0 p t)).Pairwise lexDesc :=
  ⟨stable_sortEv _ (event_unique ls 0 p t), stable_sortEvDesc _ (event_unique ls 0 p t)⟩

/-- the same on the block as `iter` yields it (no result being the sample object itself): the event items are the
results in (date, listener index) order — ascending dates forward, descending dates backward — then the sample. -/
theorem listen_block_order (ls : List Lst) (p : Option Int) (t : Int) (h : ∀ e ∈ rawEventsU ls 0 p t, e.t ≠ t) :
    ∃ evs : List Ev, listenU ls p t = evs.map (fun e => ⟨e.t, some (e.idx, e.label)⟩) ++ [⟨t, none⟩] ∧
      evs.Perm (rawEventsU ls 0 p t) ∧
      (backwardU p t = false → evs.Pairwise lexAsc) ∧ (backwardU p t = true → evs.Pairwise lexDesc) := by
  refine ⟨sortDir (backwardU p t) (rawEventsU ls 0 p t), listen_exact ls p t h, perm_sortDir _ _, ?_, ?_⟩
  · intro hb; rw [hb]; exact (simultaneous_events_in_listener_order ls p t).1
  · intro hb; rw [hb]; exact (simultaneous_events_in_listener_order ls p t).2

/-- two listeners with the same watched quantity fire at the same date: listener 0 first, forward and backward -/
example : listenU [⟨fun t => t - 500, fun _ _ => true, fun _ _ => "a"⟩, ⟨fun t => t - 500, fun _ _ => true, fun _ _ => "b"⟩] (some 0) 1000
    = [⟨500, some (0, "a")⟩, ⟨500, some (1, "b")⟩, ⟨1000, none⟩] ∧
  listenU [⟨fun t => t - 500, fun _ _ => true, fun _ _ => "a"⟩, ⟨fun t => t - 500, fun _ _ => true, fun _ _ => "b"⟩] (some 1000) 0
    = [⟨500, some (0, "a")⟩, ⟨500, some (1, "b")⟩, ⟨0, none⟩] := by constructor <;> decide +kernel

theorem rawEventsU_none (ls : List Lst) (i : Nat) (t : Int) : rawEventsU ls i none t = [] := by
  induction ls generalizing i with
  | nil => rfl
  | cons l ls ih => simp [rawEventsU, fire, ih]

/-- the first sample of an iteration comes without events -/
theorem listenU_none (ls : List Lst) (t : Int) : listenU ls none t = [⟨t, none⟩] := by
  simp [listenU, rawEventsU_none, applyAlias, lastAt, sortEv, sortDir, backwardU]

/-! ## the whole stream -/

/-- the stream after the first sample: one `listen` block per pair of consecutive samples -/
def blocks (ls : List Lst) : Int → List Int → List Item
  | _, [] => []
  | p, t :: rest => listenU ls (some p) t ++ blocks ls t rest

/-- **stream structure**: the stream is the first sample, then for every pair of consecutive samples the events found
between them (which depend on nothing but that pair) followed by the newer sample. -/
theorem stream_eq_blocks (ls : List Lst) (t0 : Int) (rest : List Int) :
    goU ls none (t0 :: rest) = ⟨t0, none⟩ :: blocks ls t0 rest := by
  have h : ∀ p rest, goU ls (some p) rest = blocks ls p rest := by
    intro p rest
    induction rest generalizing p with
    | nil => rfl
    | cons t rest ih => simp [goU, blocks, ih]
  simp [goU, listenU_none, h]

theorem rawEvents_uniform (ls : List Lst) (i : Nat) (p : Option Int) (t : Int) :
    rawEvents ls (List.replicate ls.length p) i t = rawEventsU ls i p t := by
  induction ls generalizing i with
  | nil => simp [rawEvents, rawEventsU]
  | cons l ls ih => simp [rawEvents, rawEventsU, List.replicate_succ, ih]

theorem go_uniform (ls : List Lst) (p : Option Int) (samples : List Int) :
    go ls (List.replicate ls.length p) samples = goU ls p samples := by
  induction samples generalizing p with
  | nil => rfl
  | cons t rest ih =>
    have : (List.replicate ls.length p).map (fun _ => some t) = List.replicate ls.length (some t) := by simp
    simp only [go, goU, this, ih]
    congr 1
    cases hls : ls with
    | nil => simp [listen, listenU, rawEvents, rawEventsU, applyAlias, lastAt, sortDir, sortEv, sortEvDesc]
    | cons l ls' =>
      have hb : isBackward (List.replicate (l :: ls').length p) t = backwardU p t := by
        cases p <;> simp [isBackward, backwardU, List.replicate_succ]
      rw [← hls] at hb ⊢
      simp [listen, listenU, rawEvents_uniform, hb]

/-- **reuse_clean.**  Whatever state (`prev`) the listener objects carry from earlier iterations, `iter` yields the
stream that fresh listeners yield: `clear_listeners` at the start of `iter` erases all history. -/
theorem reuse_clean (ls : List Lst) (st : List (Option Int)) (h : st.length = ls.length) (samples : List Int) :
    iter ls st samples = goU ls none samples := by
  have : clear st = List.replicate ls.length none := by
    rw [clear, ← h]; clear h
    induction st with
    | nil => rfl
    | cons a l ih => simp [List.replicate_succ, ih]
  rw [iter, this, go_uniform]

example : iter [⟨fun t => t - 700, fun _ _ => true, fun _ _ => "x"⟩] [some 5] [0, 1000] =
    [⟨0, none⟩, ⟨700, some (0, "x")⟩, ⟨1000, none⟩] := by decide +kernel

theorem stream_chrono_aux (ls : List Lst) : ∀ (samples : List Int) (p : Option Int),
    samples.Pairwise (· < ·) → (∀ q, p = some q → ∀ s ∈ samples, q < s) →
    ((goU ls p samples).map Item.t).Pairwise (· ≤ ·) ∧
      (∀ q, p = some q → ∀ x ∈ (goU ls p samples).map Item.t, q < x) := by
  intro samples
  induction samples with
  | nil => intro p _ _; simp [goU]
  | cons t rest ih =>
    intro p hs hp
    rw [List.pairwise_cons] at hs
    obtain ⟨ih1, ih2⟩ := ih (some t) hs.2 (fun q hq s hs' => by cases hq; exact hs.1 s hs')
    obtain ⟨evs, htimes, hsortedF, -, hperm⟩ := listenU_times ls p t
    have hfw : backwardU p t = false := by
      cases p with
      | none => rfl
      | some q => have := hp q rfl t (by simp); simp [backwardU]; omega
    have hsorted := hsortedF hfw
    -- every event date of this block is ≤ t, and > q when p = some q
    have hev : ∀ x ∈ evs.map Ev.t, x ≤ t ∧ ∀ q, p = some q → q < x := by
      intro x hx
      have hx' := hperm.mem_iff.1 hx
      obtain ⟨e, he, rfl⟩ := List.mem_map.1 hx'
      cases p with
      | none => simp [rawEventsU_none] at he
      | some q =>
        have hqt : q < t := hp q rfl t (by simp)
        have := listen_event_between he hqt
        exact ⟨this.2, fun q' hq' => by cases hq'; exact this.1⟩
    simp only [goU, List.map_append, htimes]
    refine ⟨?_, ?_⟩
    · refine List.pairwise_append.2 ⟨List.pairwise_append.2 ⟨?_, by simp, ?_⟩, ih1, ?_⟩
      · exact (List.pairwise_map).2 hsorted
      · intro a ha b hb; simp at hb; subst hb; exact (hev a ha).1
      · intro a ha b hb
        have hb' := ih2 t rfl b hb
        rcases List.mem_append.1 ha with ha | ha
        · have := (hev a ha).1; omega
        · simp at ha; omega
    · intro q hq x hx
      rcases List.mem_append.1 hx with hx | hx
      · rcases List.mem_append.1 hx with hx | hx
        · exact (hev x hx).2 q hq
        · simp at hx; rw [hx]; exact hp q hq t (by simp)
      · have := ih2 t rfl x hx
        have := hp q hq t (by simp)
        omega

/-- **stream_chronological** (forward).  For strictly increasing sample dates, any listener list and any prior listener
state, the dates of the whole output stream (events and samples interleaved) are in chronological (non-decreasing) order. -/
theorem stream_chronological (ls : List Lst) (st : List (Option Int)) (h : st.length = ls.length)
    (samples : List Int) (hs : samples.Pairwise (· < ·)) :
    ((iter ls st samples).map Item.t).Pairwise (· ≤ ·) := by
  rw [reuse_clean ls st h]
  exact (stream_chrono_aux ls samples none hs (by simp)).1

example : ([0, 1000, 2000] : List Int).Pairwise (· < ·) := by decide

theorem stream_chrono_back_aux (ls : List Lst) : ∀ (samples : List Int) (p : Option Int),
    samples.Pairwise (· > ·) → (∀ q, p = some q → ∀ s ∈ samples, s < q) →
    ((goU ls p samples).map Item.t).Pairwise (· ≥ ·) ∧
      (∀ q, p = some q → ∀ x ∈ (goU ls p samples).map Item.t, x < q) := by
  intro samples
  induction samples with
  | nil => intro p _ _; simp [goU]
  | cons t rest ih =>
    intro p hs hp
    rw [List.pairwise_cons] at hs
    obtain ⟨ih1, ih2⟩ := ih (some t) hs.2 (fun q hq s hs' => by cases hq; exact hs.1 s hs')
    obtain ⟨evs, htimes, hsortedF, hsortedB, hperm⟩ := listenU_times ls p t
    have hsorted : evs.Pairwise (fun a b => b.t ≤ a.t) := by
      cases p with
      | none =>
        have : evs = [] := by
          have h0 := hperm.length_eq
          simp [rawEventsU_none] at h0
          exact h0
        simp [this]
      | some q =>
        have := hp q rfl t (by simp)
        exact hsortedB (by simp [backwardU]; omega)
    -- every event date of this block is ≥ t, and < q when p = some q
    have hev : ∀ x ∈ evs.map Ev.t, t ≤ x ∧ ∀ q, p = some q → x < q := by
      intro x hx
      have hx' := hperm.mem_iff.1 hx
      obtain ⟨e, he, rfl⟩ := List.mem_map.1 hx'
      cases p with
      | none => simp [rawEventsU_none] at he
      | some q =>
        have hqt : t < q := hp q rfl t (by simp)
        have := listen_event_between_backward he hqt
        exact ⟨this.1, fun q' hq' => by cases hq'; exact this.2⟩
    simp only [goU, List.map_append, htimes]
    refine ⟨?_, ?_⟩
    · refine List.pairwise_append.2 ⟨List.pairwise_append.2 ⟨?_, by simp, ?_⟩, ih1, ?_⟩
      · exact (List.pairwise_map).2 hsorted
      · intro a ha b hb; simp at hb; subst hb; exact (hev a ha).1
      · intro a ha b hb
        have hb' := ih2 t rfl b hb
        rcases List.mem_append.1 ha with ha | ha
        · have := (hev a ha).1; omega
        · simp at ha; omega
    · intro q hq x hx
      rcases List.mem_append.1 hx with hx | hx
      · rcases List.mem_append.1 hx with hx | hx
        · exact (hev x hx).2 q hq
        · simp at hx; rw [hx]; exact hp q hq t (by simp)
      · have := ih2 t rfl x hx
        have := hp q hq t (by simp)
        omega

/-- **stream_chronological** (backward).  For strictly decreasing sample dates (a backward iteration) the dates of the
whole output stream are non-increasing: the stream is ordered in the direction of the iteration.
(False of the code before fix e2c987e, which sorted the events of a step in ascending order whatever the direction;
it was then listed as an open obligation with the counter-witness `C10W.backward_not_chronological`.) -/
theorem stream_chronological_backward (ls : List Lst) (st : List (Option Int)) (h : st.length = ls.length)
    (samples : List Int) (hs : samples.Pairwise (· > ·)) :
    ((iter ls st samples).map Item.t).Pairwise (· ≥ ·) := by
  rw [reuse_clean ls st h]
  exact (stream_chrono_back_aux ls samples none hs (by simp)).1

example : ([2000, 1000, 0] : List Int).Pairwise (· > ·) := by decide

/-! ## labels (listener classes translated from the source) -/

/-- the crossing goes from negative to positive IN THE DIRECTION OF TIME between the samples dated `p` (`listener.prev`)
and `t` (current sample): forward (`p < t`) the older value is negative, backward (`t < p`) the later value `f p` is positive -/
def upInTime (f : Int → Int) (p t : Int) : Prop := if p < t then f p < 0 else 0 < f p

/-- **label_matches_direction** for the listeners whose `info` compares with `listener.prev` (`ApsideListener`,
`StationMaskListener`), in BOTH directions of iteration: if the watched quantity is not exactly zero at `listener.prev`,
the label says "upward" (Periapsis / AOS) exactly when the quantity goes from negative to positive in the direction of
time.  (Before fix eddcf76 this held relative to the direction of the iteration only: a periapsis met while iterating
backward was labelled "Apoapsis".) -/
theorem label_prev_compare (c : Chan) (p t : Int) (hpt : p ≠ t) :
    let la := mkLst .apside c
    let lm := mkLst .mask c
    (Int.sign (la.f t) ≠ Int.sign (la.f p) → la.f p ≠ 0 →
      (la.label p (bisect la.f p t) = "Periapsis" ↔ upInTime la.f p t) ∧
      (la.label p (bisect la.f p t) = "Apoapsis" ↔ ¬ upInTime la.f p t)) ∧
    (Int.sign (lm.f t) ≠ Int.sign (lm.f p) → lm.f p ≠ 0 →
      (lm.label p (bisect lm.f p t) = "AOS" ↔ upInTime lm.f p t) ∧
      (lm.label p (bisect lm.f p t) = "LOS" ↔ ¬ upInTime lm.f p t)) := by
  intro la lm
  constructor
  · intro hs hp
    have ho := event_other_side la.f p t hs hp
    have hbw : bisect la.f p t < p ↔ t < p := by
      rcases lt_or_gt_of_ne hpt with h | h
      · have := event_between la.f h; omega
      · have := event_between_backward la.f h; omega
    generalize hte : bisect la.f p t = te at ho hbw
    have hl : la.label p te = if (decide (la.f te > la.f p) != decide (te < p)) then "Periapsis" else "Apoapsis" := by
      simp [la, mkLst, assemble, Generated.ListenSrc.apsideLabel]
    rw [hl]
    unfold upInTime
    rcases sign_cases (la.f p) with ⟨h1, h2⟩ | ⟨h1, h2⟩ | ⟨h1, h2⟩ <;>
    rcases sign_cases (la.f te) with ⟨h3, h4⟩ | ⟨h3, h4⟩ | ⟨h3, h4⟩ <;>
    first
      | (exfalso; exact hp h1)
      | (exfalso; apply ho; omega)
      | (have h5 : la.f te > la.f p := by omega
         by_cases h6 : t < p
         · have h7 : te < p := hbw.2 h6
           have h8 : ¬ p < t := by omega
           simp [h5, h7, h8]; omega
         · have h7 : ¬ te < p := fun h => h6 (hbw.1 h)
           have h8 : p < t := by omega
           simp [h5, h7, h8]; omega)
      | (have h5 : ¬ la.f te > la.f p := by omega
         by_cases h6 : t < p
         · have h7 : te < p := hbw.2 h6
           have h8 : ¬ p < t := by omega
           simp [h5, h7, h8]; omega
         · have h7 : ¬ te < p := fun h => h6 (hbw.1 h)
           have h8 : p < t := by omega
           simp [h5, h7, h8]; omega)
  · intro hs hp
    have ho := event_other_side lm.f p t hs hp
    have hbw : bisect lm.f p t < p ↔ t < p := by
      rcases lt_or_gt_of_ne hpt with h | h
      · have := event_between lm.f h; omega
      · have := event_between_backward lm.f h; omega
    generalize hte : bisect lm.f p t = te at ho hbw
    have hl : lm.label p te = if (decide (lm.f te > lm.f p) != decide (te < p)) then "AOS" else "LOS" := by
      simp [lm, mkLst, assemble, Generated.ListenSrc.maskLabel]
    rw [hl]
    unfold upInTime
    rcases sign_cases (lm.f p) with ⟨h1, h2⟩ | ⟨h1, h2⟩ | ⟨h1, h2⟩ <;>
    rcases sign_cases (lm.f te) with ⟨h3, h4⟩ | ⟨h3, h4⟩ | ⟨h3, h4⟩ <;>
    first
      | (exfalso; exact hp h1)
      | (exfalso; apply ho; omega)
      | (have h5 : lm.f te > lm.f p := by omega
         by_cases h6 : t < p
         · have h7 : te < p := hbw.2 h6
           have h8 : ¬ p < t := by omega
           simp [h5, h7, h8]; omega
         · have h7 : ¬ te < p := fun h => h6 (hbw.1 h)
           have h8 : p < t := by omega
           simp [h5, h7, h8]; omega)
      | (have h5 : ¬ lm.f te > lm.f p := by omega
         by_cases h6 : t < p
         · have h7 : te < p := hbw.2 h6
           have h8 : ¬ p < t := by omega
           simp [h5, h7, h8]; omega
         · have h7 : ¬ te < p := fun h => h6 (hbw.1 h)
           have h8 : p < t := by omega
           simp [h5, h7, h8]; omega)

example : upInTime (fun t => t - 500) 0 1000 ∧ upInTime (fun t => t - 500) 1000 0 := by
  constructor <;> (unfold upInTime; decide)

/-- **label_matches_direction** for `LightListener` (label read from the value at the event state), in both directions
of iteration: if the watched quantity vanishes neither at `listener.prev` nor at the event state, "exit" is reported
exactly for a crossing from negative (shadow) to positive (light) in the direction of time, "entry" for the opposite one.
(Before fix eddcf76: relative to the direction of the iteration.) -/
theorem label_light (c : Chan) (u : Bool) (p t : Int) (hpt : p ≠ t) :
    let l := mkLst (.light u) c
    Int.sign (l.f t) ≠ Int.sign (l.f p) → l.f p ≠ 0 → l.f (bisect l.f p t) ≠ 0 →
      (l.label p (bisect l.f p t) = (if u then "Umbra exit" else "Penumbra exit") ↔ upInTime l.f p t) ∧
      (l.label p (bisect l.f p t) = (if u then "Umbra entry" else "Penumbra entry") ↔ ¬ upInTime l.f p t) := by
  intro l hs hp hz
  have ho := event_other_side l.f p t hs hp
  have hbw : bisect l.f p t < p ↔ t < p := by
    rcases lt_or_gt_of_ne hpt with h | h
    · have := event_between l.f h; omega
    · have := event_between_backward l.f h; omega
  generalize hte : bisect l.f p t = te at ho hz hbw
  have hl : l.label p te = if u then (if (decide (l.f te ≤ 0) != decide (te < p)) then "Umbra entry" else "Umbra exit")
      else (if (decide (l.f te ≤ 0) != decide (te < p)) then "Penumbra entry" else "Penumbra exit") := by
    simp [l, mkLst, assemble, Generated.ListenSrc.lightLabel]
  rw [hl]
  unfold upInTime
  rcases sign_cases (l.f p) with ⟨h1, h2⟩ | ⟨h1, h2⟩ | ⟨h1, h2⟩ <;>
  rcases sign_cases (l.f te) with ⟨h3, h4⟩ | ⟨h3, h4⟩ | ⟨h3, h4⟩ <;>
  first
    | (exfalso; exact hp h1)
    | (exfalso; exact hz h3)
    | (exfalso; apply ho; omega)
    | (have h5 : l.f te ≤ 0 := by omega
       by_cases h6 : t < p
       · have h7 : te < p := hbw.2 h6
         have h8 : ¬ p < t := by omega
         cases u <;> simp [h5, h7, h8] <;> omega
       · have h7 : ¬ te < p := fun h => h6 (hbw.1 h)
         have h8 : p < t := by omega
         cases u <;> simp [h5, h7, h8] <;> omega)
    | (have h5 : ¬ l.f te ≤ 0 := by omega
       by_cases h6 : t < p
       · have h7 : te < p := hbw.2 h6
         have h8 : ¬ p < t := by omega
         cases u <;> simp [h5, h7, h8] <;> omega
       · have h7 : ¬ te < p := fun h => h6 (hbw.1 h)
         have h8 : p < t := by omega
         cases u <;> simp [h5, h7, h8] <;> omega)

/-- the guards of the listeners, as translated from the source: `StationMaxListener` and `StationMaskListener`
consult `Listener.check` only when the new sample is above the horizon (and, for MAX, not rising any more);
`RadialVelocityListener(sight=True)` only above the horizon; `AnomalyListener` only when the two wrapped differences are
closer than π (fix 87c6755: the jump of the wrap-around at value ± π is not a crossing). -/
theorem guards_spec (c : Chan) (p t : Int) :
    ((mkLst .max c).guard p t = true ↔ 0 < c.phi t ∧ c.phidot t ≤ 0) ∧
    ((mkLst .mask c).guard p t = true ↔ 0 < c.phi t) ∧
    ((mkLst (.radvel true) c).guard p t = true ↔ 0 < c.phi t) ∧
    ((mkLst (.radvel false) c).guard p t = true) ∧
    ((mkLst .node c).guard p t = true) ∧ ((mkLst .apside c).guard p t = true) ∧ ((mkLst .signal c).guard p t = true) ∧
    (∀ key, (mkLst (.anomaly key) c).guard p t = true ↔
      ((clampAnom (c.phi t) - clampAnom (c.phi p)).natAbs : Int) < piUnit) := by
  simp only [mkLst, assemble, Generated.ListenSrc.maxGuard, Generated.ListenSrc.maskGuard, Generated.ListenSrc.radvelGuard,
    Generated.ListenSrc.nodeGuard, Generated.ListenSrc.apsideGuard, Generated.ListenSrc.signalGuard,
    Generated.ListenSrc.anomalyGuard, anomalyUnit, viaF]
  refine ⟨?_, ?_, ?_, ?_, ?_, ?_, ?_, ?_⟩ <;> simp <;> omega

/-- **MAX is a maximum**: `StationMaxListener` emits an event only with the new sample above the horizon and its
elevation rate non-positive, and — unless that rate is exactly zero there — only for a crossing of the elevation rate from
positive (or zero) downward IN THE DIRECTION OF THE ITERATION: never for a local minimum of the elevation. -/
theorem max_only_at_maximum (c : Chan) (p t : Int)
    (h : check (mkLst .max c) (some p) t = true) :
    0 < c.phi t ∧ c.phidot t ≤ 0 ∧ (c.phidot t ≠ 0 → 0 ≤ c.phidot p) := by
  simp only [check, Bool.and_eq_true, bne_iff_ne, ne_eq] at h
  obtain ⟨hg, hs⟩ := h
  have hg' := (guards_spec c p t).1.1 hg
  refine ⟨hg'.1, hg'.2, ?_⟩
  have hf : (mkLst .max c).f = c.phidot := by
    funext x; simp [mkLst, assemble, viaF, Generated.ListenSrc.maxF]
  rw [hf] at hs
  intro hnz
  by_contra hneg
  rcases sign_cases (c.phidot p) with ⟨h1, h2⟩ | ⟨h1, h2⟩ | ⟨h1, h2⟩ <;>
  rcases sign_cases (c.phidot t) with ⟨h3, h4⟩ | ⟨h3, h4⟩ | ⟨h3, h4⟩ <;>
  first
    | omega
    | (apply hs; omega)

example : check (mkLst .max ⟨fun _ => 5, fun t => 500 - t, fun _ => 0, fun _ => 0, 0⟩) (some 0) 1000 = true := by decide

/-! ## `TopocentricFrame.visibility` -/

/-- **visibility_stream_spec.**  An element of the iteration stream (the caller's listeners — each with a frame of its
own or created with `frame=None` — followed by the station's own AOS/LOS, MAX and, with a mask, mask listeners) is yielded
by `visibility` **iff** its elevation is not negative or its `event` is an instance of an event class of the station's own
listeners; order and multiplicity are those of the iteration stream (`visibility` is a `filter` of it), and that iteration
stream is the one `orb.iter` produces on its own with the same listeners: being inside `visibility` changes nothing for
any listener, with or without a frame.
(Until fix d3db55e the last part was false of the code for `frame=None` listeners — `visibility` re-framed each point in
place while it was still `listener.prev` — and this theorem was stated for listeners with an explicit frame only.) -/
theorem visibility_stream_spec (own : Chan) (user : List Spec) (sta : Chan) (hasMask events : Bool)
    (st : List (Option Int)) (samples : List Int) :
    let sk := if events then stationKinds hasMask else []
    let all := visListeners user sta hasMask events
    let stream := iterS own all st samples
    (visibility own user sta hasMask events st samples).Sublist stream ∧
    ∀ it, it ∈ visibility own user sta hasMask events st samples ↔
      it ∈ stream ∧ (0 ≤ sta.phi it.t ∨ ∃ i lab kc, it.ev = some (i, lab) ∧ all[i]? = some kc ∧ passes sk kc.1 = true) := by
  intro sk all stream
  refine ⟨List.filter_sublist, fun it => ?_⟩
  simp only [visibility, List.mem_filter]
  refine and_congr_right (fun _ => ?_)
  by_cases hphi : sta.phi it.t < 0
  · have hn : ¬ 0 ≤ sta.phi it.t := by omega
    simp only [hphi, hn, decide_true, Bool.true_and, Bool.not_not, false_or]
    cases hev : it.ev with
    | none => simp
    | some x =>
      obtain ⟨i, lab⟩ := x
      cases hk : all[i]? with
      | none =>
        have hk' := hk
        simp only [all] at hk'
        simp only [hk']
        constructor
        · intro h; cases h
        · rintro ⟨i', lab', kc', he, hk2, -⟩
          cases he; rw [hk] at hk2; cases hk2
      | some kc =>
        have hk' := hk
        simp only [all] at hk'
        simp only [hk']
        constructor
        · intro h; exact ⟨i, lab, kc, rfl, hk, h⟩
        · rintro ⟨i', lab', kc', he, hk2, h⟩
          cases he; rw [hk] at hk2; cases hk2; exact h
  · have hp : 0 ≤ sta.phi it.t := by omega
    simp [hphi, hp]

/-- **frame-less listeners** (`NodeListener()`, `ApsideListener()`, `AnomalyListener(v)`: `frame=None`, "the frame is
unchanged").  In `iter` and inside `visibility` alike such a listener is indistinguishable from the same listener
created with the frame the propagator yields its states in: it reads `listener.prev` and the new state — and every
state `_bisect` propagates — in that one frame, whatever the station's frame is. -/
theorem frameless_reads_own_frame (own : Chan) (k : Kind) (pre post : List Spec) (sta : Chan) (hasMask events : Bool)
    (st : List (Option Int)) (samples : List Int) :
    iterS own (pre ++ (k, none) :: post) st samples = iterS own (pre ++ (k, some own) :: post) st samples ∧
    visibility own (pre ++ (k, none) :: post) sta hasMask events st samples =
      visibility own (pre ++ (k, some own) :: post) sta hasMask events st samples := by
  have hl : ∀ tail : List Spec, (pre ++ (k, none) :: tail).map (Spec.lst own) = (pre ++ (k, some own) :: tail).map (Spec.lst own) := by
    intro tail; simp [Spec.lst, Spec.chan]
  have hk : ∀ (tail : List Spec) (i : Nat),
      ((pre ++ (k, none) :: tail)[i]?).map Prod.fst = ((pre ++ (k, some own) :: tail)[i]?).map Prod.fst := by
    intro tail i
    rw [← List.getElem?_map, ← List.getElem?_map]; simp
  refine ⟨by simp [iterS, hl], ?_⟩
  unfold visibility iterS visListeners
  simp only [List.append_assoc, List.cons_append, hl]
  apply List.filter_congr
  intro it _
  cases hev : it.ev with
  | none => rfl
  | some x =>
    obtain ⟨i, lab⟩ := x
    have := hk (post ++ (if events then stationKinds hasMask else []).map (fun k => (k, some sta))) i
    simp only
    cases h1 : (pre ++ (k, none) :: (post ++ (if events then stationKinds hasMask else []).map (fun k => (k, some sta))))[i]? <;>
    cases h2 : (pre ++ (k, some own) :: (post ++ (if events then stationKinds hasMask else []).map (fun k => (k, some sta))))[i]? <;>
    simp_all

example : (visibility ⟨fun _ => 0, fun _ => 0, fun t => t - 500, fun _ => 0, 0⟩ [(.apside, none)]
    ⟨fun _ => 1, fun _ => 0, fun _ => -5, fun _ => 0, 0⟩ false true [none, none, none] [0, 1000]) =
      [⟨0, none⟩, ⟨500, some (0, "Periapsis")⟩, ⟨1000, none⟩] := by decide +kernel

/-- which events pass the horizon filter: exactly those of AOS/LOS, mask and MAX listeners (the station's own event
classes and their subclasses — `MaskEvent` is a `SignalEvent`); node, apsis, light, terminator, anomaly and radial
velocity events of additional listeners are dropped while the satellite is below the horizon. With `events` false no
event passes. (Tables regenerated from the class definitions of listeners.py.) -/
theorem passes_spec (hasMask : Bool) (k : Kind) :
    (passes (stationKinds hasMask) k = true ↔ k = .signal ∨ k = .mask ∨ k = .max) ∧ passes [] k = false := by
  constructor
  · cases hasMask <;> cases k <;> simp [passes, stationKinds, eventOf, Kind.pre, kindOfPre?,
      Generated.ListenSrc.eventAncestors, Generated.ListenSrc.stationListeners, Generated.ListenSrc.stationListenersIfMask,
      List.lookup]
  · simp [passes]

/-- `stations_listeners`: AOS/LOS and MAX always, the mask listener when the station has a mask -/
theorem stationKinds_spec : stationKinds false = [.signal, .max] ∧ stationKinds true = [.signal, .max, .mask] := by
  constructor <;> decide

/-- **the station's own listeners are always attached.**  Whatever the caller's listeners are — of other stations, of other
classes, or attached to the SAME station and of the same class as one of the station's own listeners (an elevation
threshold `StationSignalListener(station, elev=…)`, the whole `stations_listeners(station)` set) — with a truthy `events`
the list handed to `orb.iter` ends with the station's own horizon (elevation 0) AOS/LOS listener, its MAX listener and,
with a mask, its mask listener, at the positions right after the caller's. -/
theorem visibility_own_listeners_attached (user : List Spec) (sta : Chan) (hasMask : Bool) :
    (visListeners user sta hasMask true)[user.length]? = some (.signal, some sta) ∧
    (visListeners user sta hasMask true)[user.length + 1]? = some (.max, some sta) ∧
    (hasMask = true → (visListeners user sta hasMask true)[user.length + 2]? = some (.mask, some sta)) ∧
    (visListeners user sta hasMask true).length = user.length + (if hasMask then 3 else 2) := by
  have hk := stationKinds_spec
  cases hasMask <;> simp [visListeners, hk.1, hk.2]

/-- **the horizon crossings are complete, whatever else is listened to.**  With a truthy `events`, whenever the elevation
(minus the station listener's own threshold, 0 for the station's own listener) has different signs at two consecutive
samples, the visibility stream over these samples holds an event carrying the station's OWN AOS/LOS listener (index
`user.length`), dated where `_bisect` puts the zero of the elevation — for any list of additional listeners of the
caller, including listeners attached to the same station that watch another threshold.  (Hypothesis `hex`: no result is
the sample object itself — samples 1 µs apart excepted, see `lastAt`.) -/
theorem visibility_horizon_complete (own : Chan) (user : List Spec) (sta : Chan) (hasMask : Bool)
    (st : List (Option Int)) (hst : st.length = (visListeners user sta hasMask true).length) (p t : Int)
    (hs : Int.sign (sta.phi t - sta.elev) ≠ Int.sign (sta.phi p - sta.elev))
    (hex : ∀ e ∈ rawEventsU ((visListeners user sta hasMask true).map (Spec.lst own)) 0 (some p) t, e.t ≠ t) :
    ∃ it ∈ visibility own user sta hasMask true st [p, t], ∃ lab,
      it.ev = some (user.length, lab) ∧ it.t = bisect (fun x => sta.phi x - sta.elev) p t := by
  obtain ⟨h0, -, -, -⟩ := visibility_own_listeners_attached user sta hasMask
  set all := visListeners user sta hasMask true with hall
  set ls := all.map (Spec.lst own) with hls
  have hf : (mkLst .signal sta).f = fun x => sta.phi x - sta.elev := by
    funext x; simp [mkLst, assemble, viaF, Generated.ListenSrc.signalF]
  have hl : ls[user.length]? = some (mkLst .signal sta) := by
    simp [hls, List.getElem?_map, h0, Spec.lst, Spec.chan]
  have hg : (mkLst .signal sta).guard p t = true := (guards_spec sta p t).2.2.2.2.2.2.1
  obtain ⟨e, he, hidx⟩ := (event_iff_sign_change ls p t user.length).2 ⟨_, hl, hg, by rw [hf]; exact hs⟩
  obtain ⟨l, hl', -, -, het, -⟩ := raw_event_spec he
  rw [hidx, hl] at hl'
  cases hl'
  refine ⟨⟨e.t, some (e.idx, e.label)⟩, ?_, e.label, by simp [hidx], by simp [het, hf]⟩
  have hstream : iterS own all st [p, t] = ⟨p, none⟩ :: (listenU ls (some p) t ++ []) := by
    rw [iterS, reuse_clean _ _ (by simpa [hls] using hst), stream_eq_blocks]
    simp [blocks, hls]
  simp only [visibility]
  rw [← hall, hstream, listen_exact ls (some p) t hex]
  refine List.mem_filter.2 ⟨?_, ?_⟩
  · refine List.mem_cons_of_mem _ ?_
    simp only [List.append_nil, List.mem_append, List.mem_map]
    left
    exact ⟨e, (perm_sortDir _ _).mem_iff.2 he, rfl⟩
  · simp [hidx, h0, (passes_spec hasMask .signal).1]

/-- an additional 100-unit elevation-threshold listener on the same station: the horizon AOS (listener 1, the station's
own) and the threshold AOS (listener 0, the caller's) are both in the stream -/
example : (visibility ⟨fun _ => 0, fun _ => 0, fun _ => 0, fun _ => 0, 0⟩
    [(.signal, some ⟨fun t => t - 500, fun _ => 1, fun _ => 0, fun _ => 0, 100⟩)]
    ⟨fun t => t - 500, fun _ => 1, fun _ => 0, fun _ => 0, 0⟩ false true [none, none, none] [0, 1000]) =
      [⟨500, some (1, "AOS")⟩, ⟨600, some (0, "AOS")⟩, ⟨1000, none⟩] := by decide +kernel


example : (visibility ⟨fun _ => 0, fun _ => 0, fun _ => 0, fun _ => 0, 0⟩
    [(.node, some ⟨fun t => t - 500, fun _ => 1, fun _ => 0, fun _ => 0, 0⟩)]
    ⟨fun _ => -1, fun _ => 0, fun _ => 0, fun _ => 0, 0⟩ false true [none, none, none] [0, 1000]) = [] := by decide +kernel

/-! ## `events_iterator`, `find_event` -/

/-- **events_iterator_spec.**  `events_iterator(stream, *labels)` is the stream restricted (order and multiplicity kept)
to the items that carry an event whose label is one of `labels` — to all items carrying an event when no label is given. -/
theorem events_iterator_spec (labels : List String) (s : List Item) :
    (eventsIterator labels s).Sublist s ∧
    ∀ it, it ∈ eventsIterator labels s ↔ it ∈ s ∧ ∃ i lab, it.ev = some (i, lab) ∧ (labels = [] ∨ lab ∈ labels) := by
  refine ⟨List.filter_sublist, fun it => ?_⟩
  simp only [eventsIterator, List.mem_filter]
  refine and_congr_right (fun _ => ?_)
  unfold wanted
  cases h : it.ev with
  | none => simp
  | some x =>
    obtain ⟨i, lab⟩ := x
    cases labels <;> simp

theorem filter_getElem?_split {α : Type} (P : α → Bool) (s : List α) (n : Nat) (x : α)
    (h : (s.filter P)[n]? = some x) : ∃ pre post, s = pre ++ x :: post ∧ P x = true ∧ (pre.filter P).length = n := by
  induction s generalizing n with
  | nil => simp at h
  | cons a s ih =>
    by_cases ha : P a = true
    · rw [List.filter_cons_of_pos ha] at h
      cases n with
      | zero =>
        simp at h; subst h
        exact ⟨[], s, rfl, ha, rfl⟩
      | succ k =>
        simp at h
        obtain ⟨pre, post, rfl, hx, hl⟩ := ih k (by simpa using h)
        exact ⟨a :: pre, post, rfl, hx, by simp [List.filter_cons_of_pos ha, hl]⟩
    · rw [List.filter_cons_of_neg ha] at h
      obtain ⟨pre, post, rfl, hx, hl⟩ := ih n h
      exact ⟨a :: pre, post, rfl, hx, by simp [List.filter_cons_of_neg ha, hl]⟩

/-- **find_event_spec.**  `find_event(stream, label, offset)` returns an item of the stream that carries an event with
exactly that label and is preceded in the stream by exactly `offset` such items (for `offset = 0`: the first one); it
raises `RuntimeError` **iff** `offset` is negative or the stream holds at most `offset` such items. -/
theorem find_event_spec (s : List Item) (label : String) (offset : Int) :
    (∀ it, findEvent s label offset = some it →
      ∃ pre post i, s = pre ++ it :: post ∧ it.ev = some (i, label) ∧ ((eventsIterator [label] pre).length : Int) = offset) ∧
    (findEvent s label offset = none ↔ offset < 0 ∨ ((eventsIterator [label] s).length : Int) ≤ offset) := by
  constructor
  · intro it h
    unfold findEvent at h
    split at h
    · cases h
    · rename_i hoff
      obtain ⟨pre, post, hs, hw, hl⟩ := filter_getElem?_split _ _ _ _ h
      have hev : ∃ i, it.ev = some (i, label) := by
        unfold wanted at hw
        cases hx : it.ev with
        | none => rw [hx] at hw; cases hw
        | some x =>
          obtain ⟨i, lab⟩ := x
          rw [hx] at hw
          simp at hw
          exact ⟨i, by rw [hw]⟩
      obtain ⟨i, hi⟩ := hev
      refine ⟨pre, post, i, hs, hi, ?_⟩
      unfold eventsIterator
      rw [hl]; omega
  · unfold findEvent
    split
    · rename_i hoff; simp [hoff]
    · rename_i hoff
      rw [List.getElem?_eq_none_iff]
      constructor
      · intro h; right; omega
      · rintro (h | h)
        · omega
        · omega

example : findEvent (iter [⟨fun t => t - 700, fun _ _ => true, fun _ _ => "x"⟩] [none] [0, 1000, 2000]) "x" 0 = some ⟨700, some (0, "x")⟩ ∧
    findEvent (iter [⟨fun t => t - 700, fun _ _ => true, fun _ _ => "x"⟩] [none] [0, 1000, 2000]) "x" 1 = none := by
  constructor <;> decide +kernel

/-! ## `LightListener.__call__` as a function of the geometry (formulas translated from the source on every run) -/

open BeyondVerif.NumReal in
/-- **the watched quantity of `LightListener` is ±1**, never zero: for this listener the three-valued sign of
`Listener.check` is two-valued, so the "exact zero at a sample ⇒ two events" situation of `C10W.exact_zero_at_sample_two_events`
cannot arise, and `label_light`'s hypotheses `f ≠ 0` always hold. -/
theorem light_value_pm_one (pen : Bool) (rsun rbody nsun nsat dot : ℝ) :
    R.lightValue pen rsun rbody nsun nsat dot = -1 ∨ R.lightValue pen rsun rbody nsun nsat dot = 1 := by
  unfold R.lightValue
  dsimp only
  split_ifs <;> simp

open BeyondVerif.NumReal in
/-- **umbra ⊆ penumbra**: wherever the umbra listener reports shadow, the penumbra listener does too (same geometry). -/
theorem umbra_inside_penumbra (rsun rbody nsun nsat dot : ℝ)
    (h : R.lightValue false rsun rbody nsun nsat dot = -1) : R.lightValue true rsun rbody nsun nsat dot = -1 := by
  unfold R.lightValue at h ⊢
  dsimp only at h ⊢
  split_ifs at h ⊢ <;> first | rfl | contradiction | (exfalso; norm_num at h)

/-- the bound on the distance to the shadow axis for a cone of half-angle `arcsin s` tangent to a sphere of radius `rbody`,
at the distance `h` behind the centre (`sign = 1`: the cone opens away from the Sun — penumbra; `sign = -1`: it closes — umbra):
`tan α · (rbody / sin α ± h)` with `sin α = s`. -/
noncomputable def coneBound (s rbody h sign : ℝ) : ℝ := s / Real.sqrt (1 - s ^ 2) * (rbody / s + sign * h)

open BeyondVerif.NumReal in
/-- **light_geometry.**  With `d = |x_sun|`, `r = |x_sat|`, `x_sun · x_sat = dot` (Cauchy–Schwarz: `|dot| ≤ d r`) and the Sun
larger than the body but smaller than its distance, the listener reports shadow (−1) **iff** the satellite is on the
night side (`dot < 0`), its distance `r √(1 − c²)` to the Sun–body axis (`c` the cosine of the angle at the body between the
anti-Sun direction and the satellite) is within the cone bound at its distance `h = r c` behind the body, for the cone that
opens away from the Sun, and — for the umbra type — also within the bound of the cone that closes behind the body.
BOTH cones have `sin α = (R_sun − R_body) / d` in the code (the true penumbra cone has `(R_sun + R_body) / d`: open
finding C10-penumbra-half-angle, `C10W.penumbra_half_angle_witness`). -/
theorem light_geometry (pen : Bool) (rsun rbody d r dot : ℝ) (hd : 0 < d) (hr : 0 < r)
    (hcs : |dot| ≤ d * r) (hs0 : 0 < rsun - rbody) (hs1 : rsun - rbody < d) :
    let s := (rsun - rbody) / d
    let c := -dot / (d * r)
    R.lightValue pen rsun rbody d r dot = -1 ↔
      dot < 0 ∧ r * Real.sqrt (1 - c ^ 2) ≤ coneBound s rbody (r * c) 1 ∧
        (pen = true ∨ r * Real.sqrt (1 - c ^ 2) ≤ coneBound s rbody (r * c) (-1)) := by
  intro s c
  have hdr : 0 < d * r := mul_pos hd hr
  have hc1 : -1 ≤ c := by
    show -1 ≤ -dot / (d * r)
    rw [le_div_iff₀ hdr]; have := abs_le.1 hcs; linarith [this.2]
  have hc2 : c ≤ 1 := by
    show -dot / (d * r) ≤ 1
    rw [div_le_iff₀ hdr]; have := abs_le.1 hcs; linarith [this.1]
  have hsl : -1 ≤ s := by
    have : 0 < s := div_pos hs0 hd
    linarith
  have hsu : s ≤ 1 := by
    show (rsun - rbody) / d ≤ 1
    rw [div_le_iff₀ hd]; linarith
  unfold R.lightValue
  simp only [NumReal.asin, NumReal.acos, NumReal.sin, NumReal.cos, NumReal.tan]
  rw [show (rsun - rbody) / d = s from rfl, show -dot / (d * r) = c from rfl]
  simp only [Real.sin_arcsin hsl hsu, Real.tan_arcsin, Real.cos_arccos hc1 hc2, Real.sin_arccos]
  unfold coneBound
  simp only [one_mul, neg_one_mul, ← sub_eq_add_neg]
  by_cases h1 : dot < 0
  · by_cases h2 : r * Real.sqrt (1 - c ^ 2) ≤ s / Real.sqrt (1 - s ^ 2) * (rbody / s + r * c)
    · by_cases h3 : r * Real.sqrt (1 - c ^ 2) ≤ s / Real.sqrt (1 - s ^ 2) * (rbody / s - r * c)
      · cases pen <;> norm_num [h1, h2, h3]
      · cases pen <;> norm_num [h1, h2, h3]
    · norm_num [h1, h2]
  · norm_num [h1]

/-! ## which frame `LightListener.__call__` computes in (selection rule regenerated from the source) -/

section LightFrame
variable {V : Type} [NormedAddCommGroup V] [InnerProductSpace ℝ V]

/-- a reference frame as far as positions go: an orientation (a linear isometry) and an origin, given as a geocentric position -/
structure LFrame (V : Type) [NormedAddCommGroup V] [InnerProductSpace ℝ V] where
  Q : V ≃ₗᵢ[ℝ] V
  o : V

/-- coordinates in the frame of the point with geocentric position `r` -/
def LFrame.coords (F : LFrame V) (r : V) : V := F.Q (r - F.o)

/-- geocentric position of the point with coordinates `x` in the frame -/
def LFrame.pos (F : LFrame V) (x : V) : V := F.Q.symm x + F.o

/-- the frame Sun and satellite are converted to by the first lines of `LightListener.__call__`: `self.frame` when given,
otherwise — `rule` is `Generated.ListenSrc.lightFrameIfNone`, read off the source — the frame of the Sun's own state
("sun") or the frame the state is expressed in ("orb") -/
def lightFrame (rule : String) (selfFrame : Option (LFrame V)) (orbFrame sunFrame : LFrame V) : LFrame V :=
  match selfFrame with
  | some F => F
  | none => if rule = "sun" then sunFrame else orbFrame

/-- `LightListener(type, frame=selfFrame)(orb)` for a state with coordinates `xOrb` in its own frame `orbFrame`, the Sun at the
geocentric position `sunGeo`, its own state being expressed in `sunFrame` -/
noncomputable def lightOf (pen : Bool) (rsun rbody : ℝ) (selfFrame : Option (LFrame V)) (orbFrame sunFrame : LFrame V)
    (xOrb sunGeo : V) : ℝ :=
  let G := lightFrame Generated.ListenSrc.lightFrameIfNone selfFrame orbFrame sunFrame
  R.lightValue pen rsun rbody ‖G.coords sunGeo‖ ‖G.coords (orbFrame.pos xOrb)‖
    (@inner ℝ V _ (G.coords sunGeo) (G.coords (orbFrame.pos xOrb)))

/-- **light_frame_independent.**  With the Sun's own state in a frame centred on the body (`sunFrame.o = 0`) and a listener
created without a frame or with a frame centred on the body, the light value is a function of the GEOCENTRIC geometry only
(the geocentric positions of Sun and satellite): it does not depend on the frame the state is expressed in (`orbFrame`:
inertial, rotating, a station's topocentric frame, an orbit-attached frame), nor on the orientation of the frame asked for.
(Not covered — and false of the code, open finding C10-light-explicit-noncentral-frame: an EXPLICIT `frame=` whose origin
is not the body's centre; the cone is then built around an axis through that origin.) -/
theorem light_frame_independent (pen : Bool) (rsun rbody : ℝ) (selfFrame : Option (LFrame V)) (orbFrame sunFrame : LFrame V)
    (xOrb sunGeo : V) (hsun : sunFrame.o = 0) (hself : ∀ F, selfFrame = some F → F.o = 0) :
    lightOf pen rsun rbody selfFrame orbFrame sunFrame xOrb sunGeo =
      R.lightValue pen rsun rbody ‖sunGeo‖ ‖orbFrame.pos xOrb‖ (@inner ℝ V _ sunGeo (orbFrame.pos xOrb)) := by
  have hG : (lightFrame Generated.ListenSrc.lightFrameIfNone selfFrame orbFrame sunFrame).o = 0 := by
    cases hsf : selfFrame with
    | some F => exact hself F hsf
    | none =>
      have : Generated.ListenSrc.lightFrameIfNone = "sun" := by decide
      simp [lightFrame, this, hsun]
  unfold lightOf
  simp only [LFrame.coords, hG, sub_zero, LinearIsometryEquiv.norm_map, LinearIsometryEquiv.inner_map_map]

example : lightOf true 1 1 (none : Option (LFrame ℝ)) ⟨LinearIsometryEquiv.refl ℝ ℝ, 5⟩ ⟨LinearIsometryEquiv.neg ℝ, 0⟩ 2 (-3) =
    R.lightValue true 1 1 ‖(-3 : ℝ)‖ ‖(⟨LinearIsometryEquiv.refl ℝ ℝ, 5⟩ : LFrame ℝ).pos 2‖ (@inner ℝ ℝ _ (-3) ((⟨LinearIsometryEquiv.refl ℝ ℝ, 5⟩ : LFrame ℝ).pos 2)) :=
  light_frame_independent _ _ _ _ _ _ _ _ rfl (by simp)

end LightFrame

end BeyondVerif.C10
