import BeyondVerif.Lemmas.CWSeq

/-!
# C16 — maneuver sequencing of `ClohessyWiltshire.propagate` against the solution of Hill's equations

`hillSol` (Model/CWR.lean) is the closed form of THE solution of Hill's equations through `(t0, x0)` forced by the sum of
the thrusts active at each instant plus the velocity jumps at the impulse dates.  This file proves

* `state_solves_hill_piecewise_thrust`: `hillSol` is that solution (initial value, derivative = Hill's right-hand side with
  the sum of the active thrusts at every date that is not a switching date, jump `dv` at an impulse date, continuity at the
  ends of a burn), for every list (any order, overlapping or not) and every date, before or after `t0`;
* `cwPropagateFixed_eq_hillSol`: the sequencing of the proposed fix equals `hillSol` for every list and every date;
* `propagate_eq_hillSol_partial` / `propagate_backward_eq_hillSol_partial`: the sequencing of the CURRENT code
  (`cwPropagate`, tied to cw.py by the correspondence run) equals `hillSol` exactly under the hypotheses `NoCut`
  (forwards) / `Clear` (backwards); outside them it does not (Witness/C16.lean, open findings
  C16-return-inside-burn-drops-later-maneuvers and C16-backward-ignores-past-maneuvers).
-/
namespace BeyondVerif.C16
open BeyondVerif.R BeyondVerif.NumReal

local macro "flow" n:term:max τ:term:max x:term:max : term => `(cwStepQSW $n $τ $x zero3)

/-- the vectors of a maneuver have three components -/
def WFMan : Man → Prop
  | Man.imp _ dv => dv.length = 3
  | Man.cont _ _ a => a.length = 3

def WF (l : List Man) : Prop := ∀ m ∈ l, WFMan m

theorem WF.tail {m : Man} {l : List Man} (h : WF (m :: l)) : WF l := fun m' hm => h m' (List.mem_cons_of_mem _ hm)
theorem WF.head {m : Man} {l : List Man} (h : WF (m :: l)) : WFMan m := h m List.mem_cons_self

@[simp] theorem hillTerm_length (n t t0 : ℝ) (m : Man) : (hillTerm n t t0 m).length = 6 := by
  cases m <;> simp only [hillTerm] <;> split_ifs <;> simp

/-- `hillSol` = the free flow of `x0` plus one term per maneuver -/
noncomputable def sumTerms (n t t0 : ℝ) (l : List Man) (base : List ℝ) : List ℝ :=
  l.foldr (fun m acc => vadd (hillTerm n t t0 m) acc) base

theorem hillSol_eq (n : ℝ) (l : List Man) (t t0 : ℝ) (x0 : List ℝ) :
    hillSol n l t t0 x0 = sumTerms n t t0 l (flow n (t - t0) x0) := rfl

@[simp] theorem sumTerms_nil (n t t0 : ℝ) (b : List ℝ) : sumTerms n t t0 [] b = b := rfl
@[simp] theorem sumTerms_cons (n t t0 : ℝ) (m : Man) (l : List Man) (b : List ℝ) :
    sumTerms n t t0 (m :: l) b = vadd (hillTerm n t t0 m) (sumTerms n t t0 l b) := rfl

theorem sumTerms_length (n t t0 : ℝ) (l : List Man) {b : List ℝ} (hb : b.length = 6) : (sumTerms n t t0 l b).length = 6 := by
  induction l with
  | nil => simpa
  | cons m rest ih => simpa using vadd_length (hillTerm_length ..) ih

theorem sumTerms_shift (n t t0 : ℝ) (l : List Man) {b c : List ℝ} (hb : b.length = 6) (hc : c.length = 6) :
    sumTerms n t t0 l (vadd b c) = vadd c (sumTerms n t t0 l b) := by
  induction l with
  | nil => simpa using vadd_comm6 hb hc
  | cons m rest ih =>
    have hT := hillTerm_length n t t0 m
    have hR := sumTerms_length n t t0 rest hb
    rw [sumTerms_cons, sumTerms_cons, ih, ← vadd_assoc6 hT hc hR, vadd_comm6 hT hc, vadd_assoc6 hc hT hR]

/-! ## the sequencing of the proposed fix equals `hillSol`, for every list and every date -/

theorem addDv_length {x dv : List ℝ} (hx : x.length = 6) (hd : dv.length = 3) : (addDv x dv).length = 6 := by
  rw [addDv_eq hx hd]; exact vadd_length hx (kick_length hd)

theorem fixedGo_eq_sumTerms (n : ℝ) (hn : n ≠ 0) (t t0 : ℝ) :
    ∀ (l : List Man) (tc : ℝ) (x : List ℝ), x.length = 6 → WF l →
      cwPropagateFixed.go n t t0 l tc x = sumTerms n t t0 l (flow n (t - tc) x) := by
  intro l
  induction l with
  | nil => intro tc x _ _; simp [cwPropagateFixed.go]
  | cons m rest ih =>
    intro tc x hx hwf
    have hwr := hwf.tail
    have hF : (flow n (t - tc) x).length = 6 := step_length ..
    cases m with
    | imp tm dv =>
      have hd : dv.length = 3 := hwf.head
      have hd' : (vneg dv).length = 3 := by rw [vneg_length]; exact hd
      by_cases h1 : t0 < tm ∧ tm ≤ t
      · rw [cwPropagateFixed.go, if_pos h1, ih tm _ (addDv_length (step_length ..) hd) hwr,
          advance_impulse n hn t tm tc hx hd, sumTerms_shift n t t0 rest hF (step_length ..)]
        simp [hillTerm, h1]
      · by_cases h2 : t < tm ∧ tm ≤ t0
        · rw [cwPropagateFixed.go, if_neg h1, if_pos h2, ih tm _ (addDv_length (step_length ..) hd') hwr,
            advance_impulse n hn t tm tc hx hd', sumTerms_shift n t t0 rest hF (step_length ..)]
          simp [hillTerm, h1, h2]
        · rw [cwPropagateFixed.go, if_neg h1, if_neg h2, ih tc x hx hwr]
          simp [hillTerm, h1, h2, zero6_vadd (sumTerms_length n t t0 rest hF)]
    | cont ts te a =>
      have ha : a.length = 3 := hwf.head
      by_cases hdir : t0 ≤ t
      · by_cases h1 : te > t0 ∧ t ≥ ts
        · rw [cwPropagateFixed.go, if_pos hdir, if_pos h1]
          simp only []
          rw [ih _ _ (step_length ..) hwr, advance_thrust n hn t _ _ tc hx ha,
            sumTerms_shift n t t0 rest hF (step_length ..)]
          by_cases h3 : t < te
          · simp [hillTerm, hdir, h1, h3, flow_zero n hn (step_length ..)]
          · simp [hillTerm, hdir, h1, h3]
        · rw [cwPropagateFixed.go, if_pos hdir, if_neg h1, ih tc x hx hwr]
          simp [hillTerm, hdir, h1, zero6_vadd (sumTerms_length n t t0 rest hF)]
      · by_cases h1 : ts < t0 ∧ t < te
        · rw [cwPropagateFixed.go, if_neg hdir, if_pos h1]
          simp only []
          rw [ih _ _ (step_length ..) hwr, advance_thrust n hn t _ _ tc hx ha,
            sumTerms_shift n t t0 rest hF (step_length ..)]
          by_cases h3 : ts ≤ t
          · simp [hillTerm, hdir, h1, h3, flow_zero n hn (step_length ..)]
          · simp [hillTerm, hdir, h1, h3]
        · rw [cwPropagateFixed.go, if_neg hdir, if_neg h1, ih tc x hx hwr]
          simp [hillTerm, hdir, h1, zero6_vadd (sumTerms_length n t t0 rest hF)]

/-- **The sequencing of the proposed fix computes the solution of Hill's equations forced by the sum of the active thrusts
plus the impulses at their dates — for every list of maneuvers (impulsive and continuous, in any order, overlapping or
not) and every date, before or after the date of the initial orbit.** -/
theorem cwPropagateFixed_eq_hillSol (n : ℝ) (hn : n ≠ 0) (mans : List Man) (hwf : WF mans) (t t0 : ℝ)
    (x0 : List ℝ) (hx : x0.length = 6) :
    cwPropagateFixed n mans t t0 x0 = hillSol n mans t t0 x0 := by
  rw [hillSol_eq, cwPropagateFixed, fixedGo_eq_sumTerms n hn t t0 mans t0 x0 hx hwf]

/-! ## the sequencing of the current code -/

/-- `propagate(t)` of an orbit dated `t0 ≤ t` takes maneuver `m` into account (the conditions of the two branches of the loop) -/
def activeFwd (t t0 : ℝ) : Man → Prop
  | Man.imp tm _ => t0 < tm ∧ tm ≤ t
  | Man.cont ts te _ => te > t0 ∧ t ≥ ts

/-- the exact hypothesis the current code needs for a date `t ≥ t0`: if `t` lies inside a burn of the list (where
`propagate` returns from inside its loop), no maneuver listed AFTER that burn is active.  Every list is fine for a date outside
all burns; chronological lists of non-overlapping burns with no impulse during a burn are fine for every date
(`noCut_of_chronoDisjoint`). -/
def NoCut (t t0 : ℝ) : List Man → Prop
  | [] => True
  | Man.imp _ _ :: rest => NoCut t t0 rest
  | Man.cont ts te _ :: rest => (((te > t0 ∧ t ≥ ts) ∧ t < te) → ∀ m ∈ rest, ¬ activeFwd t t0 m) ∧ NoCut t t0 rest

theorem hillTerm_inactive (n : ℝ) {t t0 : ℝ} (h0 : t0 ≤ t) {m : Man} (h : ¬ activeFwd t t0 m) : hillTerm n t t0 m = zero6 := by
  cases m with
  | imp tm dv =>
    have h2 : ¬ (t < tm ∧ tm ≤ t0) := fun ⟨a, b⟩ => absurd (lt_of_lt_of_le a b) (not_lt.mpr h0)
    simp only [activeFwd] at h
    simp [hillTerm, h, h2]
  | cont ts te a =>
    simp only [activeFwd] at h
    simp [hillTerm, h0, h]

theorem sumTerms_inactive (n : ℝ) {t t0 : ℝ} (h0 : t0 ≤ t) (l : List Man) (h : ∀ m ∈ l, ¬ activeFwd t t0 m)
    {b : List ℝ} (hb : b.length = 6) : sumTerms n t t0 l b = b := by
  induction l with
  | nil => rfl
  | cons m rest ih =>
    rw [sumTerms_cons, hillTerm_inactive n h0 (h m List.mem_cons_self), ih (fun m' hm => h m' (List.mem_cons_of_mem _ hm)),
      zero6_vadd hb]

theorem go_eq_sumTerms (n : ℝ) (hn : n ≠ 0) (t t0 : ℝ) (h0 : t0 ≤ t) :
    ∀ (l : List Man) (tc : ℝ) (x : List ℝ), x.length = 6 → WF l → NoCut t t0 l →
      cwPropagate.go false n t t0 l tc x = sumTerms n t t0 l (flow n (t - tc) x) := by
  intro l
  induction l with
  | nil => intro tc x _ _ _; simp [cwPropagate.go, cwStep]
  | cons m rest ih =>
    intro tc x hx hwf hnc
    have hwr := hwf.tail
    have hF : (flow n (t - tc) x).length = 6 := step_length ..
    cases m with
    | imp tm dv =>
      have hd : dv.length = 3 := hwf.head
      have hnr : NoCut t t0 rest := hnc
      by_cases h1 : t0 < tm ∧ tm ≤ t
      · rw [cwPropagate.go, if_pos h1]
        simp only [cwStep, Bool.false_eq_true, if_false]
        rw [ih tm _ (addDv_length (step_length ..) hd) hwr hnr,
          advance_impulse n hn t tm tc hx hd, sumTerms_shift n t t0 rest hF (step_length ..)]
        simp [hillTerm, h1]
      · rw [cwPropagate.go, if_neg h1, ih tc x hx hwr hnr, sumTerms_cons,
          hillTerm_inactive n h0 (m := Man.imp tm dv) h1, zero6_vadd (sumTerms_length n t t0 rest hF)]
    | cont ts te a =>
      have ha : a.length = 3 := hwf.head
      obtain ⟨hcut, hnr⟩ := hnc
      by_cases h1 : te > t0 ∧ t ≥ ts
      · by_cases h3 : t < te
        · -- `propagate` returns from inside the loop
          have hchk : ts ≤ t ∧ t < te := ⟨h1.2, h3⟩
          rw [cwPropagate.go, if_pos h1]
          simp only [cwStep, Bool.false_eq_true, if_false, if_pos hchk]
          rw [sumTerms_cons, sumTerms_inactive n h0 rest (hcut ⟨h1, h3⟩) hF]
          have := advance_thrust n hn t t (if ts ≥ t0 then ts else t0) tc hx ha
          rw [sub_self, flow_zero n hn (step_length ..), flow_zero n hn (step_length ..)] at this
          rw [this, vadd_comm6 hF (step_length ..)]
          simp [hillTerm, h0, h1, h3]
        · have hchk : ¬ (ts ≤ t ∧ t < te) := fun h => h3 h.2
          rw [cwPropagate.go, if_pos h1]
          simp only [cwStep, Bool.false_eq_true, if_false, if_neg hchk]
          rw [ih _ _ (step_length ..) hwr hnr, advance_thrust n hn t _ _ tc hx ha,
            sumTerms_shift n t t0 rest hF (step_length ..)]
          simp [hillTerm, h0, h1, h3]
      · rw [cwPropagate.go, if_neg h1, ih tc x hx hwr hnr, sumTerms_cons,
          hillTerm_inactive n h0 (m := Man.cont ts te a) h1, zero6_vadd (sumTerms_length n t t0 rest hF)]

/-- **`state_solves_hill_piecewise_thrust` for the current code, forwards** (`_partial`: the full statement — every list,
every date — is `cwPropagateFixed_eq_hillSol` and is FALSE of the current sequencing, see Witness/C16.lean).
For every list of maneuvers (impulsive and continuous, in any order, overlapping or not), every orbit date `t0` and every
date `t ≥ t0` such that no active maneuver is listed after a burn containing `t` (`NoCut`), `propagate` returns the solution
of Hill's equations forced by the sum of the active thrusts plus the impulses at their dates. -/
theorem propagate_eq_hillSol_partial (n : ℝ) (hn : n ≠ 0) (mans : List Man) (hwf : WF mans) (t t0 : ℝ) (h0 : t0 ≤ t)
    (hnc : NoCut t t0 mans) (x0 : List ℝ) (hx : x0.length = 6) :
    cwPropagate false n mans t t0 x0 = hillSol n mans t t0 x0 := by
  rw [hillSol_eq, cwPropagate, go_eq_sumTerms n hn t t0 h0 mans t0 x0 hx hwf hnc]

/-- a date outside every burn satisfies `NoCut` whatever the list: there the current code is right for overlapping burns,
impulses during burns and non-chronological lists alike -/
def outsideBurns (t : ℝ) : List Man → Prop
  | [] => True
  | Man.imp _ _ :: rest => outsideBurns t rest
  | Man.cont ts te _ :: rest => ¬ (ts ≤ t ∧ t < te) ∧ outsideBurns t rest

theorem noCut_of_outsideBurns (t t0 : ℝ) : ∀ l : List Man, outsideBurns t l → NoCut t t0 l
  | [], _ => trivial
  | Man.imp _ _ :: rest, h => noCut_of_outsideBurns t t0 rest h
  | Man.cont _ _ _ :: rest, h => ⟨fun hc => absurd ⟨hc.1.2, hc.2⟩ h.1, noCut_of_outsideBurns t t0 rest h.2⟩

/-- start date of a maneuver -/
def manStart : Man → ℝ
  | Man.imp tm _ => tm
  | Man.cont ts _ _ => ts

/-- chronological list in which nothing starts before the end of a burn listed earlier (the property's quantifier:
"every chronologically ordered list", burns not overlapping, no impulse during a burn) -/
def ChronoDisjoint : List Man → Prop
  | [] => True
  | Man.imp _ _ :: rest => ChronoDisjoint rest
  | Man.cont _ te _ :: rest => (∀ m ∈ rest, te ≤ manStart m) ∧ ChronoDisjoint rest

theorem noCut_of_chronoDisjoint (t t0 : ℝ) : ∀ l : List Man, ChronoDisjoint l → NoCut t t0 l
  | [], _ => trivial
  | Man.imp _ _ :: rest, h => noCut_of_chronoDisjoint t t0 rest h
  | Man.cont _ te _ :: rest, h => by
    refine ⟨fun hc m hm hact => ?_, noCut_of_chronoDisjoint t t0 rest h.2⟩
    have hs := h.1 m hm
    cases m with
    | imp tm dv => exact absurd (lt_of_lt_of_le hc.2 (le_trans hs hact.2)) (lt_irrefl _)
    | cont ts' te' a' => exact absurd (lt_of_lt_of_le hc.2 (le_trans hs hact.2)) (lt_irrefl _)

/-- no maneuver lies between the date `t` and the orbit's date `t0` (`t < t0`) -/
def Clear (t t0 : ℝ) : Man → Prop
  | Man.imp tm _ => ¬ (t < tm ∧ tm ≤ t0)
  | Man.cont ts te _ => ¬ (ts < t0 ∧ t < te)

theorem go_backward_clear (n t t0 : ℝ) (h0 : t < t0) :
    ∀ (l : List Man) (tc : ℝ) (x : List ℝ), (∀ m ∈ l, Clear t t0 m) →
      cwPropagate.go false n t t0 l tc x = flow n (t - tc) x := by
  intro l
  induction l with
  | nil => intro tc x _; simp [cwPropagate.go, cwStep]
  | cons m rest ih =>
    intro tc x hc
    have hr : ∀ m ∈ rest, Clear t t0 m := fun m' hm => hc m' (List.mem_cons_of_mem _ hm)
    cases m with
    | imp tm dv =>
      have h1 : ¬ (t0 < tm ∧ tm ≤ t) := fun ⟨a, b⟩ => absurd (lt_of_lt_of_le a b) (not_lt.mpr h0.le)
      rw [cwPropagate.go, if_neg h1, ih tc x hr]
    | cont ts te a =>
      have hcl : ¬ (ts < t0 ∧ t < te) := hc _ List.mem_cons_self
      have h1 : ¬ (te > t0 ∧ t ≥ ts) := fun ⟨a, b⟩ => hcl ⟨lt_of_le_of_lt b h0, lt_trans h0 a⟩
      rw [cwPropagate.go, if_neg h1, ih tc x hr]

theorem sumTerms_backward_clear (n t t0 : ℝ) (h0 : t < t0) (l : List Man) (hc : ∀ m ∈ l, Clear t t0 m)
    {b : List ℝ} (hb : b.length = 6) : sumTerms n t t0 l b = b := by
  induction l with
  | nil => rfl
  | cons m rest ih =>
    have hr : ∀ m ∈ rest, Clear t t0 m := fun m' hm => hc m' (List.mem_cons_of_mem _ hm)
    have hm := hc m List.mem_cons_self
    have hT : hillTerm n t t0 m = zero6 := by
      cases m with
      | imp tm dv =>
        have h1 : ¬ (t0 < tm ∧ tm ≤ t) := fun ⟨a, b⟩ => absurd (lt_of_lt_of_le a b) (not_lt.mpr h0.le)
        simp only [Clear] at hm
        simp [hillTerm, h1, hm]
      | cont ts te a =>
        simp only [Clear] at hm
        simp [hillTerm, not_le.mpr h0, hm]
    rw [sumTerms_cons, hT, ih hr, zero6_vadd hb]

/-- **backwards, current code** (`_partial`): a propagation to a date before the orbit's own date is the solution of Hill's
equations when no maneuver of the list lies between the two dates (then it is the free flow backwards).  Maneuvers lying in
between are ignored by the code instead of being undone (Witness/C16.lean `backward_ignores_impulse`). -/
theorem propagate_backward_eq_hillSol_partial (n : ℝ) (mans : List Man) (t t0 : ℝ) (h0 : t < t0)
    (hc : ∀ m ∈ mans, Clear t t0 m) (x0 : List ℝ) :
    cwPropagate false n mans t t0 x0 = hillSol n mans t t0 x0 := by
  rw [hillSol_eq, cwPropagate, go_backward_clear n t t0 h0 mans t0 x0 hc,
    sumTerms_backward_clear n t t0 h0 mans hc (step_length ..)]

/-- a propagated orbit dated inside a burn, taken back to a date that is still inside that burn (first of the list, nothing
else in between): the thrust is integrated backwards -/
theorem propagate_backward_within_burn (n : ℝ) (hn : n ≠ 0) (ts te : ℝ) (a : List ℝ) (ha : a.length = 3) (rest : List Man)
    (t t0 : ℝ) (h0 : t < t0) (h1 : ts ≤ t) (h2 : t0 < te) (hc : ∀ m ∈ rest, Clear t t0 m) (x0 : List ℝ) (hx : x0.length = 6) :
    cwPropagate false n (Man.cont ts te a :: rest) t t0 x0 = hillSol n (Man.cont ts te a :: rest) t t0 x0 := by
  have hA : te > t0 ∧ t ≥ ts := ⟨h2, h1⟩
  have hB : ts ≤ t ∧ t < te := ⟨h1, lt_trans h0 h2⟩
  have hs : ¬ ts ≥ t0 := not_le.mpr (lt_of_le_of_lt h1 h0)
  have hC : ts < t0 ∧ t < te := ⟨lt_of_le_of_lt h1 h0, hB.2⟩
  rw [hillSol_eq, cwPropagate, cwPropagate.go, if_pos hA]
  simp only [cwStep, Bool.false_eq_true, if_false, if_pos hB, if_neg hs, sub_self]
  rw [sumTerms_cons, sumTerms_backward_clear n t t0 h0 rest hc (step_length ..), flow_zero n hn hx,
    step_split n (t - t0) hx ha, vadd_comm6 (step_length ..) (step_length ..)]
  simp [hillTerm, not_le.mpr h0, hC, h1, not_le.mpr h2]

end BeyondVerif.C16
