import BeyondVerif.Lemmas.CWSeq

/-!
# C16 — maneuver sequencing of `ClohessyWiltshire.propagate` against the solution of Hill's equations

`hillSol` (Model/CWR.lean) is the closed form of THE solution of Hill's equations through `(t0, x0)` forced by the sum of
the thrusts active at each instant plus the velocity jumps at the impulse dates.  This file proves

* `state_solves_hill_piecewise_thrust`: `hillSol` is that solution (initial value, derivative = Hill's right-hand side with
  the sum of the active thrusts at every date that is not a switching date, jump `dv` at an impulse date, continuity at the
  ends of a burn), for every list (any order, overlapping or not) and every date, before or after `t0`;
* `cwPropagateFixed_eq_hillSol`: the sequencing of the proposed fix equals `hillSol` for every list and every date;
* `propagate_eq_hillSol_partial` / `propagate_backward_eq_hillSol_partial`: the sequencing of the CURRENT code
  (`cwPropagate`, tied to cw.py by the correspondence run) equals `hillSol` exactly under the hypotheses `NoCut`
  (forwards) / `Clear` (backwards); outside them it does not (Witness/C16.lean, open findings
  C16-return-inside-burn-drops-later-maneuvers and C16-backward-ignores-past-maneuvers).
-/
namespace BeyondVerif.C16
open BeyondVerif.R BeyondVerif.NumReal

local macro "flow" n:term:max τ:term:max x:term:max : term => `(cwStepQSW $n $τ $x zero3)

/-- the vectors of a maneuver have three components -/
def WFMan : Man → Prop
  | Man.imp _ dv => dv.length = 3
  | Man.cont _ _ a => a.length = 3

def WF (l : List Man) : Prop := ∀ m ∈ l, WFMan m

theorem WF.tail {m : Man} {l : List Man} (h : WF (m :: l)) : WF l := fun m' hm => h m' (List.mem_cons_of_mem _ hm)
theorem WF.head {m : Man} {l : List Man} (h : WF (m :: l)) : WFMan m := h m List.mem_cons_self

@[simp] theorem hillTerm_length (n t t0 : ℝ) (m : Man) : (hillTerm n t t0 m).length = 6 := by
  cases m <;> simp only [hillTerm] <;> split_ifs <;> simp

/-- `hillSol` = the free flow of `x0` plus one term per maneuver -/
noncomputable def sumTerms (n t t0 : ℝ) (l : List Man) (base : List ℝ) : List ℝ :=
  l.foldr (fun m acc => vadd (hillTerm n t t0 m) acc) base

theorem hillSol_eq (n : ℝ) (l : List Man) (t t0 : ℝ) (x0 : List ℝ) :
    hillSol n l t t0 x0 = sumTerms n t t0 l (flow n (t - t0) x0) := rfl

@[simp] theorem sumTerms_nil (n t t0 : ℝ) (b : List ℝ) : sumTerms n t t0 [] b = b := rfl
@[simp] theorem sumTerms_cons (n t t0 : ℝ) (m : Man) (l : List Man) (b : List ℝ) :
    sumTerms n t t0 (m :: l) b = vadd (hillTerm n t t0 m) (sumTerms n t t0 l b) := rfl

theorem sumTerms_length (n t t0 : ℝ) (l : List Man) {b : List ℝ} (hb : b.length = 6) : (sumTerms n t t0 l b).length = 6 := by
  induction l with
  | nil => simpa
  | cons m rest ih => simpa using vadd_length (hillTerm_length ..) ih

theorem sumTerms_shift (n t t0 : ℝ) (l : List Man) {b c : List ℝ} (hb : b.length = 6) (hc : c.length = 6) :
    sumTerms n t t0 l (vadd b c) = vadd c (sumTerms n t t0 l b) := by
  induction l with
  | nil => simpa using vadd_comm6 hb hc
  | cons m rest ih =>
    have hT := hillTerm_length n t t0 m
    have hR := sumTerms_length n t t0 rest hb
    rw [sumTerms_cons, sumTerms_cons, ih, ← vadd_assoc6 hT hc hR, vadd_comm6 hT hc, vadd_assoc6 hc hT hR]

/-! ## the sequencing of the proposed fix equals `hillSol`, for every list and every date -/

theorem addDv_length {x dv : List ℝ} (hx : x.length = 6) (hd : dv.length = 3) : (addDv x dv).length = 6 := by
  rw [addDv_eq hx hd]; exact vadd_length hx (kick_length hd)

theorem fixedGo_eq_sumTerms (n : ℝ) (hn : n ≠ 0) (t t0 : ℝ) :
    ∀ (l : List Man) (tc : ℝ) (x : List ℝ), x.length = 6 → WF l →
      cwPropagateFixed.go n t t0 l tc x = sumTerms n t t0 l (flow n (t - tc) x) := by
  intro l
  induction l with
  | nil => intro tc x _ _; simp [cwPropagateFixed.go]
  | cons m rest ih =>
    intro tc x hx hwf
    have hwr := hwf.tail
    have hF : (flow n (t - tc) x).length = 6 := step_length ..
    cases m with
    | imp tm dv =>
      have hd : dv.length = 3 := hwf.head
      have hd' : (vneg dv).length = 3 := by rw [vneg_length]; exact hd
      by_cases h1 : t0 < tm ∧ tm ≤ t
      · rw [cwPropagateFixed.go, if_pos h1, ih tm _ (addDv_length (step_length ..) hd) hwr,
          advance_impulse n hn t tm tc hx hd, sumTerms_shift n t t0 rest hF (step_length ..)]
        simp [hillTerm, h1]
      · by_cases h2 : t < tm ∧ tm ≤ t0
        · rw [cwPropagateFixed.go, if_neg h1, if_pos h2, ih tm _ (addDv_length (step_length ..) hd') hwr,
            advance_impulse n hn t tm tc hx hd', sumTerms_shift n t t0 rest hF (step_length ..)]
          simp [hillTerm, h1, h2]
        · rw [cwPropagateFixed.go, if_neg h1, if_neg h2, ih tc x hx hwr]
          simp [hillTerm, h1, h2, zero6_vadd (sumTerms_length n t t0 rest hF)]
    | cont ts te a =>
      have ha : a.length = 3 := hwf.head
      by_cases hdir : t0 ≤ t
      · by_cases h1 : te > t0 ∧ t ≥ ts
        · rw [cwPropagateFixed.go, if_pos hdir, if_pos h1]
          simp only []
          rw [ih _ _ (step_length ..) hwr, advance_thrust n hn t _ _ tc hx ha,
            sumTerms_shift n t t0 rest hF (step_length ..)]
          by_cases h3 : t < te
          · simp [hillTerm, hdir, h1, h3, flow_zero n hn (step_length ..)]
          · simp [hillTerm, hdir, h1, h3]
        · rw [cwPropagateFixed.go, if_pos hdir, if_neg h1, ih tc x hx hwr]
          simp [hillTerm, hdir, h1, zero6_vadd (sumTerms_length n t t0 rest hF)]
      · by_cases h1 : ts < t0 ∧ t < te
        · rw [cwPropagateFixed.go, if_neg hdir, if_pos h1]
          simp only []
          rw [ih _ _ (step_length ..) hwr, advance_thrust n hn t _ _ tc hx ha,
            sumTerms_shift n t t0 rest hF (step_length ..)]
          by_cases h3 : ts ≤ t
          · simp [hillTerm, hdir, h1, h3, flow_zero n hn (step_length ..)]
          · simp [hillTerm, hdir, h1, h3]
        · rw [cwPropagateFixed.go, if_neg hdir, if_neg h1, ih tc x hx hwr]
          simp [hillTerm, hdir, h1, zero6_vadd (sumTerms_length n t t0 rest hF)]

/-- **The sequencing of the proposed fix computes the solution of Hill's equations forced by the sum of the active thrusts
plus the impulses at their dates — for every list of maneuvers (impulsive and continuous, in any order, overlapping or
not) and every date, before or after the date of the initial orbit.** -/
theorem cwPropagateFixed_eq_hillSol (n : ℝ) (hn : n ≠ 0) (mans : List Man) (hwf : WF mans) (t t0 : ℝ)
    (x0 : List ℝ) (hx : x0.length = 6) :
    cwPropagateFixed n mans t t0 x0 = hillSol n mans t t0 x0 := by
  rw [hillSol_eq, cwPropagateFixed, fixedGo_eq_sumTerms n hn t t0 mans t0 x0 hx hwf]

/-! ## the sequencing of the current code -/

/-- `propagate(t)` of an orbit dated `t0 ≤ t` takes maneuver `m` into account (the conditions of the two branches of the loop) -/
def activeFwd (t t0 : ℝ) : Man → Prop
  | Man.imp tm _ => t0 < tm ∧ tm ≤ t
  | Man.cont ts te _ => te > t0 ∧ t ≥ ts

/-- the exact hypothesis the current code needs for a date `t ≥ t0`: if `t` lies inside a burn of the list (where
`propagate` returns from inside its loop), no maneuver listed AFTER that burn is active.  Every list is fine for a date outside
all burns; chronological lists of non-overlapping burns with no impulse during a burn are fine for every date
(`noCut_of_chronoDisjoint`). -/
def NoCut (t t0 : ℝ) : List Man → Prop
  | [] => True
  | Man.imp _ _ :: rest => NoCut t t0 rest
  | Man.cont ts te _ :: rest => (((te > t0 ∧ t ≥ ts) ∧ t < te) → ∀ m ∈ rest, ¬ activeFwd t t0 m) ∧ NoCut t t0 rest

theorem hillTerm_inactive (n : ℝ) {t t0 : ℝ} (h0 : t0 ≤ t) {m : Man} (h : ¬ activeFwd t t0 m) : hillTerm n t t0 m = zero6 := by
  cases m with
  | imp tm dv =>
    have h2 : ¬ (t < tm ∧ tm ≤ t0) := fun ⟨a, b⟩ => absurd (lt_of_lt_of_le a b) (not_lt.mpr h0)
    simp only [activeFwd] at h
    simp [hillTerm, h, h2]
  | cont ts te a =>
    simp only [activeFwd] at h
    simp [hillTerm, h0, h]

theorem sumTerms_inactive (n : ℝ) {t t0 : ℝ} (h0 : t0 ≤ t) (l : List Man) (h : ∀ m ∈ l, ¬ activeFwd t t0 m)
    {b : List ℝ} (hb : b.length = 6) : sumTerms n t t0 l b = b := by
  induction l with
  | nil => rfl
  | cons m rest ih =>
    rw [sumTerms_cons, hillTerm_inactive n h0 (h m List.mem_cons_self), ih (fun m' hm => h m' (List.mem_cons_of_mem _ hm)),
      zero6_vadd hb]

theorem go_eq_sumTerms (n : ℝ) (hn : n ≠ 0) (t t0 : ℝ) (h0 : t0 ≤ t) :
    ∀ (l : List Man) (tc : ℝ) (x : List ℝ), x.length = 6 → WF l → NoCut t t0 l →
      cwPropagate.go false n t t0 l tc x = sumTerms n t t0 l (flow n (t - tc) x) := by
  intro l
  induction l with
  | nil => intro tc x _ _ _; simp [cwPropagate.go, cwStep]
  | cons m rest ih =>
    intro tc x hx hwf hnc
    have hwr := hwf.tail
    have hF : (flow n (t - tc) x).length = 6 := step_length ..
    cases m with
    | imp tm dv =>
      have hd : dv.length = 3 := hwf.head
      have hnr : NoCut t t0 rest := hnc
      by_cases h1 : t0 < tm ∧ tm ≤ t
      · rw [cwPropagate.go, if_pos h1]
        simp only [cwStep, Bool.false_eq_true, if_false]
        rw [ih tm _ (addDv_length (step_length ..) hd) hwr hnr,
          advance_impulse n hn t tm tc hx hd, sumTerms_shift n t t0 rest hF (step_length ..)]
        simp [hillTerm, h1]
      · rw [cwPropagate.go, if_neg h1, ih tc x hx hwr hnr, sumTerms_cons,
          hillTerm_inactive n h0 (m := Man.imp tm dv) h1, zero6_vadd (sumTerms_length n t t0 rest hF)]
    | cont ts te a =>
      have ha : a.length = 3 := hwf.head
      obtain ⟨hcut, hnr⟩ := hnc
      by_cases h1 : te > t0 ∧ t ≥ ts
      · by_cases h3 : t < te
        · -- `propagate` returns from inside the loop
          have hchk : ts ≤ t ∧ t < te := ⟨h1.2, h3⟩
          rw [cwPropagate.go, if_pos h1]
          simp only [cwStep, Bool.false_eq_true, if_false, if_pos hchk]
          rw [sumTerms_cons, sumTerms_inactive n h0 rest (hcut ⟨h1, h3⟩) hF]
          have := advance_thrust n hn t t (if ts ≥ t0 then ts else t0) tc hx ha
          rw [sub_self, flow_zero n hn (step_length ..), flow_zero n hn (step_length ..)] at this
          rw [this, vadd_comm6 hF (step_length ..)]
          simp [hillTerm, h0, h1, h3]
        · have hchk : ¬ (ts ≤ t ∧ t < te) := fun h => h3 h.2
          rw [cwPropagate.go, if_pos h1]
          simp only [cwStep, Bool.false_eq_true, if_false, if_neg hchk]
          rw [ih _ _ (step_length ..) hwr hnr, advance_thrust n hn t _ _ tc hx ha,
            sumTerms_shift n t t0 rest hF (step_length ..)]
          simp [hillTerm, h0, h1, h3]
      · rw [cwPropagate.go, if_neg h1, ih tc x hx hwr hnr, sumTerms_cons,
          hillTerm_inactive n h0 (m := Man.cont ts te a) h1, zero6_vadd (sumTerms_length n t t0 rest hF)]

/-- **`state_solves_hill_piecewise_thrust` for the current code, forwards** (`_partial`: the full statement — every list,
every date — is `cwPropagateFixed_eq_hillSol` and is FALSE of the current sequencing, see Witness/C16.lean).
For every list of maneuvers (impulsive and continuous, in any order, overlapping or not), every orbit date `t0` and every
date `t ≥ t0` such that no active maneuver is listed after a burn containing `t` (`NoCut`), `propagate` returns the solution
of Hill's equations forced by the sum of the active thrusts plus the impulses at their dates. -/
theorem propagate_eq_hillSol_partial (n : ℝ) (hn : n ≠ 0) (mans : List Man) (hwf : WF mans) (t t0 : ℝ) (h0 : t0 ≤ t)
    (hnc : NoCut t t0 mans) (x0 : List ℝ) (hx : x0.length = 6) :
    cwPropagate false n mans t t0 x0 = hillSol n mans t t0 x0 := by
  rw [hillSol_eq, cwPropagate, go_eq_sumTerms n hn t t0 h0 mans t0 x0 hx hwf hnc]

/-- a date outside every burn satisfies `NoCut` whatever the list: there the current code is right for overlapping burns,
impulses during burns and non-chronological lists alike -/
def outsideBurns (t : ℝ) : List Man → Prop
  | [] => True
  | Man.imp _ _ :: rest => outsideBurns t rest
  | Man.cont ts te _ :: rest => ¬ (ts ≤ t ∧ t < te) ∧ outsideBurns t rest

theorem noCut_of_outsideBurns (t t0 : ℝ) : ∀ l : List Man, outsideBurns t l → NoCut t t0 l
  | [], _ => trivial
  | Man.imp _ _ :: rest, h => noCut_of_outsideBurns t t0 rest h
  | Man.cont _ _ _ :: rest, h => ⟨fun hc => absurd ⟨hc.1.2, hc.2⟩ h.1, noCut_of_outsideBurns t t0 rest h.2⟩

/-- start date of a maneuver -/
def manStart : Man → ℝ
  | Man.imp tm _ => tm
  | Man.cont ts _ _ => ts

/-- chronological list in which nothing starts before the end of a burn listed earlier (the property's quantifier:
"every chronologically ordered list", burns not overlapping, no impulse during a burn) -/
def ChronoDisjoint : List Man → Prop
  | [] => True
  | Man.imp _ _ :: rest => ChronoDisjoint rest
  | Man.cont _ te _ :: rest => (∀ m ∈ rest, te ≤ manStart m) ∧ ChronoDisjoint rest

theorem noCut_of_chronoDisjoint (t t0 : ℝ) : ∀ l : List Man, ChronoDisjoint l → NoCut t t0 l
  | [], _ => trivial
  | Man.imp _ _ :: rest, h => noCut_of_chronoDisjoint t t0 rest h
  | Man.cont _ te _ :: rest, h => by
    refine ⟨fun hc m hm hact => ?_, noCut_of_chronoDisjoint t t0 rest h.2⟩
    have hs := h.1 m hm
    cases m with
    | imp tm dv => exact absurd (lt_of_lt_of_le hc.2 (le_trans hs hact.2)) (lt_irrefl _)
    | cont ts' te' a' => exact absurd (lt_of_lt_of_le hc.2 (le_trans hs hact.2)) (lt_irrefl _)

/-- no maneuver lies between the date `t` and the orbit's date `t0` (`t < t0`) -/
def Clear (t t0 : ℝ) : Man → Prop
  | Man.imp tm _ => ¬ (t < tm ∧ tm ≤ t0)
  | Man.cont ts te _ => ¬ (ts < t0 ∧ t < te)

theorem go_backward_clear (n t t0 : ℝ) (h0 : t < t0) :
    ∀ (l : List Man) (tc : ℝ) (x : List ℝ), (∀ m ∈ l, Clear t t0 m) →
      cwPropagate.go false n t t0 l tc x = flow n (t - tc) x := by
  intro l
  induction l with
  | nil => intro tc x _; simp [cwPropagate.go, cwStep]
  | cons m rest ih =>
    intro tc x hc
    have hr : ∀ m ∈ rest, Clear t t0 m := fun m' hm => hc m' (List.mem_cons_of_mem _ hm)
    cases m with
    | imp tm dv =>
      have h1 : ¬ (t0 < tm ∧ tm ≤ t) := fun ⟨a, b⟩ => absurd (lt_of_lt_of_le a b) (not_lt.mpr h0.le)
      rw [cwPropagate.go, if_neg h1, ih tc x hr]
    | cont ts te a =>
      have hcl : ¬ (ts < t0 ∧ t < te) := hc _ List.mem_cons_self
      have h1 : ¬ (te > t0 ∧ t ≥ ts) := fun ⟨a, b⟩ => hcl ⟨lt_of_le_of_lt b h0, lt_trans h0 a⟩
      rw [cwPropagate.go, if_neg h1, ih tc x hr]

theorem sumTerms_backward_clear (n t t0 : ℝ) (h0 : t < t0) (l : List Man) (hc : ∀ m ∈ l, Clear t t0 m)
    {b : List ℝ} (hb : b.length = 6) : sumTerms n t t0 l b = b := by
  induction l with
  | nil => rfl
  | cons m rest ih =>
    have hr : ∀ m ∈ rest, Clear t t0 m := fun m' hm => hc m' (List.mem_cons_of_mem _ hm)
    have hm := hc m List.mem_cons_self
    have hT : hillTerm n t t0 m = zero6 := by
      cases m with
      | imp tm dv =>
        have h1 : ¬ (t0 < tm ∧ tm ≤ t) := fun ⟨a, b⟩ => absurd (lt_of_lt_of_le a b) (not_lt.mpr h0.le)
        simp only [Clear] at hm
        simp [hillTerm, h1, hm]
      | cont ts te a =>
        simp only [Clear] at hm
        simp [hillTerm, not_le.mpr h0, hm]
    rw [sumTerms_cons, hT, ih hr, zero6_vadd hb]

/-- **backwards, current code** (`_partial`): a propagation to a date before the orbit's own date is the solution of Hill's
equations when no maneuver of the list lies between the two dates (then it is the free flow backwards).  Maneuvers lying in
between are ignored by the code instead of being undone (Witness/C16.lean `backward_ignores_impulse`). -/
theorem propagate_backward_eq_hillSol_partial (n : ℝ) (mans : List Man) (t t0 : ℝ) (h0 : t < t0)
    (hc : ∀ m ∈ mans, Clear t t0 m) (x0 : List ℝ) :
    cwPropagate false n mans t t0 x0 = hillSol n mans t t0 x0 := by
  rw [hillSol_eq, cwPropagate, go_backward_clear n t t0 h0 mans t0 x0 hc,
    sumTerms_backward_clear n t t0 h0 mans hc (step_length ..)]

/-- a propagated orbit dated inside a burn, taken back to a date that is still inside that burn (first of the list, nothing
else in between): the thrust is integrated backwards -/
theorem propagate_backward_within_burn (n : ℝ) (hn : n ≠ 0) (ts te : ℝ) (a : List ℝ) (ha : a.length = 3) (rest : List Man)
    (t t0 : ℝ) (h0 : t < t0) (h1 : ts ≤ t) (h2 : t0 < te) (hc : ∀ m ∈ rest, Clear t t0 m) (x0 : List ℝ) (hx : x0.length = 6) :
    cwPropagate false n (Man.cont ts te a :: rest) t t0 x0 = hillSol n (Man.cont ts te a :: rest) t t0 x0 := by
  have hA : te > t0 ∧ t ≥ ts := ⟨h2, h1⟩
  have hB : ts ≤ t ∧ t < te := ⟨h1, lt_trans h0 h2⟩
  have hs : ¬ ts ≥ t0 := not_le.mpr (lt_of_le_of_lt h1 h0)
  have hC : ts < t0 ∧ t < te := ⟨lt_of_le_of_lt h1 h0, hB.2⟩
  rw [hillSol_eq, cwPropagate, cwPropagate.go, if_pos hA]
  simp only [cwStep, Bool.false_eq_true, if_false, if_pos hB, if_neg hs, sub_self]
  rw [sumTerms_cons, sumTerms_backward_clear n t t0 h0 rest hc (step_length ..), flow_zero n hn hx,
    step_split n (t - t0) hx ha, vadd_comm6 (step_length ..) (step_length ..)]
  simp [hillTerm, not_le.mpr h0, hC, h1, not_le.mpr h2]

/-! ## `hillSol` is the solution of Hill's equations with the piecewise-constant sum of the active thrusts -/

open Filter Topology

theorem step_deriv (n : ℝ) (hn : n ≠ 0) (c : ℝ) {v a : List ℝ} (hv : v.length = 6) (ha : a.length = 3) (t₀ : ℝ)
    (i : Nat) (hi : i < 6) :
    HasDerivAt (fun t => (cwStepQSW n (t - c) v a).getD i 0) ((hillRhs n (cwStepQSW n (t₀ - c) v a) a).getD i 0) t₀ := by
  obtain ⟨x1, x2, x3, x4, x5, x6, rfl⟩ := len6 hv
  obtain ⟨a1, a2, a3, rfl⟩ := len3 ha
  exact HasDerivAt.comp_sub_const t₀ c (cw_solves_hill n hn x1 x2 x3 x4 x5 x6 a1 a2 a3 (t₀ - c) i hi)

theorem hillRhs_add (n : ℝ) {s1 s2 a1 a2 : List ℝ} (h1 : s1.length = 6) (h2 : s2.length = 6) (h3 : a1.length = 3)
    (h4 : a2.length = 3) (i : Nat) :
    (hillRhs n (vadd s1 s2) (vadd a1 a2)).getD i 0 = (hillRhs n s1 a1).getD i 0 + (hillRhs n s2 a2).getD i 0 := by
  obtain ⟨x1, x2, x3, x4, x5, x6, rfl⟩ := len6 h1
  obtain ⟨y1, y2, y3, y4, y5, y6, rfl⟩ := len6 h2
  obtain ⟨a, b, c, rfl⟩ := len3 h3
  obtain ⟨a', b', c', rfl⟩ := len3 h4
  rcases i with _ | _ | _ | _ | _ | _ | i <;> simp [hillRhs, vadd, powi] <;> ring

theorem hillRhs_zero (n : ℝ) (i : Nat) : (hillRhs n zero6 zero3).getD i 0 = 0 := by
  rcases i with _ | _ | _ | _ | _ | _ | i <;> simp [hillRhs, zero6, zero3, powi]

/-- a list-valued function that coincides near `t₀` with a Clohessy–Wiltshire arc of constant thrust `a` has there, component
by component, the derivative prescribed by Hill's equations with thrust `a` -/
theorem deriv_of_eventually_step (n : ℝ) (hn : n ≠ 0) (f : ℝ → List ℝ) (t₀ c : ℝ) {v a : List ℝ} (hv : v.length = 6)
    (ha : a.length = 3) (hev : ∀ᶠ t in 𝓝 t₀, f t = cwStepQSW n (t - c) v a) (i : Nat) (hi : i < 6) :
    HasDerivAt (fun t => (f t).getD i 0) ((hillRhs n (f t₀) a).getD i 0) t₀ := by
  rw [hev.self_of_nhds]
  refine (step_deriv n hn c hv ha t₀ i hi).congr_of_eventuallyEq ?_
  filter_upwards [hev] with t ht
  rw [ht]

theorem deriv_of_eventually_zero (n : ℝ) (f : ℝ → List ℝ) (t₀ : ℝ) (hev : ∀ᶠ t in 𝓝 t₀, f t = zero6) (i : Nat) :
    HasDerivAt (fun t => (f t).getD i 0) ((hillRhs n (f t₀) zero3).getD i 0) t₀ := by
  rw [hev.self_of_nhds, hillRhs_zero]
  refine (hasDerivAt_const t₀ (0 : ℝ)).congr_of_eventuallyEq ?_
  filter_upwards [hev] with t ht
  rw [ht]; rcases i with _ | _ | _ | _ | _ | _ | i <;> simp [zero6]

/-- the thrust a maneuver exerts at date `t` -/
noncomputable def thrustOf (t : ℝ) : Man → List ℝ
  | Man.imp _ _ => zero3
  | Man.cont ts te a => if ts ≤ t ∧ t < te then a else zero3

theorem thrustOf_length {m : Man} (h : WFMan m) (t : ℝ) : (thrustOf t m).length = 3 := by
  cases m with
  | imp tm dv => rfl
  | cont ts te a => simp only [thrustOf]; split_ifs; exacts [h, rfl]

theorem thrustAt_length (t : ℝ) : ∀ l : List Man, WF l → (thrustAt t l).length = 3
  | [], _ => rfl
  | Man.imp _ _ :: rest, h => thrustAt_length t rest h.tail
  | Man.cont ts te a :: rest, h => by
    simp only [thrustAt]; split_ifs
    · exact vadd_length3 h.head (thrustAt_length t rest h.tail)
    · exact thrustAt_length t rest h.tail

theorem thrustAt_cons (t : ℝ) (m : Man) (l : List Man) (h : WF (m :: l)) :
    thrustAt t (m :: l) = vadd (thrustOf t m) (thrustAt t l) := by
  cases m with
  | imp tm dv => simp [thrustAt, thrustOf, zero3_vadd (thrustAt_length t l h.tail)]
  | cont ts te a =>
    simp only [thrustAt, thrustOf]; split_ifs
    · rfl
    · exact (zero3_vadd (thrustAt_length t l h.tail)).symm

/-- `t` is not a date at which maneuver `m` switches (impulse date, start or stop of a burn) -/
def notSwitch (t : ℝ) : Man → Prop
  | Man.imp tm _ => t ≠ tm
  | Man.cont ts te _ => t ≠ ts ∧ t ≠ te

/-- the term of one maneuver solves Hill's equations forced by that maneuver's own thrust -/
theorem term_deriv (n : ℝ) (hn : n ≠ 0) (t0 : ℝ) (m : Man) (hm : WFMan m) (t₀ : ℝ) (h0 : t₀ ≠ t0) (hs : notSwitch t₀ m)
    (i : Nat) (hi : i < 6) :
    HasDerivAt (fun t => (hillTerm n t t0 m).getD i 0) ((hillRhs n (hillTerm n t₀ t0 m) (thrustOf t₀ m)).getD i 0) t₀ := by
  cases m with
  | imp tm dv =>
    have hd : dv.length = 3 := hm
    have hd' : (vneg dv).length = 3 := by rw [vneg_length]; exact hd
    simp only [thrustOf]
    rcases lt_or_gt_of_ne (show t₀ ≠ tm from hs) with h | h
    · -- before the impulse date
      have ev : ∀ᶠ t in 𝓝 t₀, t < tm := eventually_lt_nhds h
      by_cases h1 : tm ≤ t0
      · refine deriv_of_eventually_step n hn _ t₀ tm (kick_length hd') zero3_length ?_ i hi
        filter_upwards [ev] with t ht
        simp [hillTerm, not_lt.mpr h1, ht, h1]
      · refine deriv_of_eventually_zero n _ t₀ ?_ i
        filter_upwards [ev] with t ht
        simp [hillTerm, not_le.mpr ht, h1]
    · have ev : ∀ᶠ t in 𝓝 t₀, tm < t := eventually_gt_nhds h
      by_cases h1 : t0 < tm
      · refine deriv_of_eventually_step n hn _ t₀ tm (kick_length hd) zero3_length ?_ i hi
        filter_upwards [ev] with t ht
        simp [hillTerm, h1, ht.le]
      · refine deriv_of_eventually_zero n _ t₀ ?_ i
        filter_upwards [ev] with t ht
        simp [hillTerm, h1, not_lt.mpr ht.le]
  | cont ts te a =>
    have ha : a.length = 3 := hm
    obtain ⟨hs1, hs2⟩ : t₀ ≠ ts ∧ t₀ ≠ te := hs
    rcases lt_or_gt_of_ne h0 with hdir | hdir
    · -- dates before the orbit's date
      have evd : ∀ᶠ t in 𝓝 t₀, t < t0 := eventually_lt_nhds hdir
      by_cases hA : ts < t0
      · rcases lt_or_gt_of_ne hs2 with h2 | h2
        · have ev2 : ∀ᶠ t in 𝓝 t₀, t < te := eventually_lt_nhds h2
          rcases lt_or_gt_of_ne hs1 with h1 | h1
          · -- before the start: the whole overlap is undone, then a free coast
            have ev1 : ∀ᶠ t in 𝓝 t₀, t < ts := eventually_lt_nhds h1
            have hth : thrustOf t₀ (Man.cont ts te a) = zero3 := by simp [thrustOf, not_le.mpr h1]
            rw [hth]
            refine deriv_of_eventually_step n hn _ t₀ ts (v := cwStepQSW n (ts - (if te ≤ t0 then te else t0)) zero6 a)
              (step_length ..) zero3_length ?_ i hi
            filter_upwards [evd, ev1, ev2] with t htd ht1 ht2
            simp [hillTerm, not_le.mpr htd, hA, ht2, not_le.mpr ht1]
          · have ev1 : ∀ᶠ t in 𝓝 t₀, ts < t := eventually_gt_nhds h1
            have hth : thrustOf t₀ (Man.cont ts te a) = a := by simp [thrustOf, h1.le, h2]
            rw [hth]
            refine deriv_of_eventually_step n hn _ t₀ (if te ≤ t0 then te else t0) zero6_length ha ?_ i hi
            filter_upwards [evd, ev1, ev2] with t htd ht1 ht2
            simp [hillTerm, not_le.mpr htd, hA, ht2, ht1.le]
        · have ev2 : ∀ᶠ t in 𝓝 t₀, te < t := eventually_gt_nhds h2
          have hth : thrustOf t₀ (Man.cont ts te a) = zero3 := by simp [thrustOf, not_lt.mpr h2.le]
          rw [hth]
          refine deriv_of_eventually_zero n _ t₀ ?_ i
          filter_upwards [evd, ev2] with t htd ht2
          simp [hillTerm, not_le.mpr htd, not_lt.mpr ht2.le]
      · have hth : thrustOf t₀ (Man.cont ts te a) = zero3 := by
          have : ¬ ts ≤ t₀ := fun h => hA (lt_of_le_of_lt h hdir)
          simp [thrustOf, this]
        rw [hth]
        refine deriv_of_eventually_zero n _ t₀ ?_ i
        filter_upwards [evd] with t htd
        simp [hillTerm, not_le.mpr htd, hA]
    · -- dates after the orbit's date
      have evd : ∀ᶠ t in 𝓝 t₀, t0 ≤ t := (eventually_gt_nhds hdir).mono fun t ht => ht.le
      by_cases hA : te > t0
      · rcases lt_or_gt_of_ne hs1 with h1 | h1
        · have ev1 : ∀ᶠ t in 𝓝 t₀, t < ts := eventually_lt_nhds h1
          have hth : thrustOf t₀ (Man.cont ts te a) = zero3 := by simp [thrustOf, not_le.mpr h1]
          rw [hth]
          refine deriv_of_eventually_zero n _ t₀ ?_ i
          filter_upwards [evd, ev1] with t htd ht1
          simp [hillTerm, htd, not_le.mpr ht1]
        · have ev1 : ∀ᶠ t in 𝓝 t₀, ts < t := eventually_gt_nhds h1
          rcases lt_or_gt_of_ne hs2 with h2 | h2
          · have ev2 : ∀ᶠ t in 𝓝 t₀, t < te := eventually_lt_nhds h2
            have hth : thrustOf t₀ (Man.cont ts te a) = a := by simp [thrustOf, h1.le, h2]
            rw [hth]
            refine deriv_of_eventually_step n hn _ t₀ (if ts ≥ t0 then ts else t0) zero6_length ha ?_ i hi
            filter_upwards [evd, ev1, ev2] with t htd ht1 ht2
            simp [hillTerm, htd, hA, ht1.le, ht2]
          · have ev2 : ∀ᶠ t in 𝓝 t₀, te < t := eventually_gt_nhds h2
            have hth : thrustOf t₀ (Man.cont ts te a) = zero3 := by simp [thrustOf, not_lt.mpr h2.le]
            rw [hth]
            refine deriv_of_eventually_step n hn _ t₀ te (v := cwStepQSW n (te - (if ts ≥ t0 then ts else t0)) zero6 a)
              (step_length ..) zero3_length ?_ i hi
            filter_upwards [evd, ev1, ev2] with t htd ht1 ht2
            simp [hillTerm, htd, hA, ht1.le, not_lt.mpr ht2.le]
      · have hth : thrustOf t₀ (Man.cont ts te a) = zero3 := by
          have : ¬ t₀ < te := fun h => hA (lt_trans hdir h)
          simp [thrustOf, this]
        rw [hth]
        refine deriv_of_eventually_zero n _ t₀ ?_ i
        filter_upwards [evd] with t htd
        simp [hillTerm, htd, hA]

/-- **`state_solves_hill_piecewise_thrust`** — for every list of maneuvers (impulsive and continuous, in any order, overlapping
or not), every orbit date `t0`, every initial state and every date `t₀ ≠ t0` (after OR before the orbit's date) that is not a
switching date of the list, each of the six components of `t ↦ hillSol … t` has at `t₀` the derivative prescribed by Hill's
linearised equations evaluated on `hillSol … t₀` itself, with the SUM of the thrusts of the burns active at `t₀`. -/
theorem state_solves_hill_piecewise_thrust (n : ℝ) (hn : n ≠ 0) (mans : List Man) (hwf : WF mans) (t0 : ℝ) (x0 : List ℝ)
    (hx : x0.length = 6) (t₀ : ℝ) (h0 : t₀ ≠ t0) (hs : ∀ m ∈ mans, notSwitch t₀ m) (i : Nat) (hi : i < 6) :
    HasDerivAt (fun t => (hillSol n mans t t0 x0).getD i 0)
      ((hillRhs n (hillSol n mans t₀ t0 x0) (thrustAt t₀ mans)).getD i 0) t₀ := by
  simp only [hillSol_eq]
  induction mans with
  | nil => exact step_deriv n hn t0 hx zero3_length t₀ i hi
  | cons m rest ih =>
    have hb : ∀ t, (sumTerms n t t0 rest (flow n (t - t0) x0)).length = 6 := fun t => sumTerms_length n t t0 rest (step_length ..)
    have h1 := term_deriv n hn t0 m hwf.head t₀ h0 (hs m List.mem_cons_self) i hi
    have h2 := ih hwf.tail (fun m' hm' => hs m' (List.mem_cons_of_mem _ hm'))
    have h3 := h1.add h2
    rw [thrustAt_cons t₀ m rest hwf]
    simp only [sumTerms_cons]
    rw [hillRhs_add n (hillTerm_length ..) (hb t₀) (thrustOf_length hwf.head t₀) (thrustAt_length t₀ rest hwf.tail)]
    refine h3.congr_of_eventuallyEq (Eventually.of_forall fun t => ?_)
    exact getD_vadd (hillTerm_length ..) (hb t) i

/-- initial value: at the orbit's own date the solution is the orbit's state -/
theorem hillSol_initial (n : ℝ) (hn : n ≠ 0) (mans : List Man) (hwf : WF mans) (t0 : ℝ) (x0 : List ℝ) (hx : x0.length = 6) :
    hillSol n mans t0 t0 x0 = x0 := by
  rw [hillSol_eq, sub_self, flow_zero n hn hx]
  induction mans with
  | nil => rfl
  | cons m rest ih =>
    have hT : hillTerm n t0 t0 m = zero6 := by
      cases m with
      | imp tm dv =>
        have h1 : ¬ (t0 < tm ∧ tm ≤ t0) := fun ⟨a, b⟩ => absurd (lt_of_lt_of_le a b) (lt_irrefl _)
        simp [hillTerm, h1]
      | cont ts te a =>
        have ha : a.length = 3 := hwf.head
        by_cases h1 : te > t0 ∧ t0 ≥ ts
        · have hs : (if ts ≥ t0 then ts else t0) = t0 := by
            split_ifs with h
            · exact le_antisymm h1.2 h
            · rfl
          simp [hillTerm, h1, hs, step_zero n hn zero6_length ha]
        · simp [hillTerm, h1]
    rw [sumTerms_cons, hT, ih hwf.tail, zero6_vadd hx]

/-- **an impulse changes the velocity by exactly its Δv, exactly once, at its date** — whatever else is in the list: the term
of an impulse dated after the orbit is zero before its date and is `(0, Δv)` at its date (the other terms are continuous
there unless they switch at the same date) … -/
theorem impulse_term_jump (n : ℝ) (hn : n ≠ 0) (t0 tm : ℝ) (dv : List ℝ) (hd : dv.length = 3) (h : t0 < tm) :
    (∀ t, t0 ≤ t → t < tm → hillTerm n t t0 (Man.imp tm dv) = zero6) ∧ hillTerm n tm t0 (Man.imp tm dv) = kick dv := by
  refine ⟨fun t h1 h2 => ?_, ?_⟩
  · have : ¬ (t < tm ∧ tm ≤ t0) := fun hh => absurd hh.2 (not_le.mpr h)
    simp [hillTerm, not_le.mpr h2, this]
  · simp [hillTerm, h, flow_zero n hn (kick_length hd)]

/-- … and the term of a burn is continuous at both of its ends: zero at its start, and at its stop the thrust arc hands over
to the free coast of its end point -/
theorem burn_term_joins (n : ℝ) (hn : n ≠ 0) (t0 ts te : ℝ) (a : List ℝ) (ha : a.length = 3) (h0 : t0 ≤ ts) (h1 : ts < te) :
    hillTerm n ts t0 (Man.cont ts te a) = zero6 ∧
      hillTerm n te t0 (Man.cont ts te a) = cwStepQSW n (te - ts) zero6 a := by
  have h2 : t0 < te := lt_of_le_of_lt h0 h1
  constructor
  · simp [hillTerm, h0, h1, h2, step_zero n hn zero6_length ha]
  · simp [hillTerm, h0, h1.le, h2, le_trans h0 h1.le, flow_zero n hn (step_length ..)]

/-! ## TNW orientation: the whole of `propagate`, with any maneuver list -/

/-- a maneuver given in TNW axes: its vector is the axis permutation of the QSW one -/
def permMan : Man → Man
  | Man.imp tm dv => Man.imp tm (perm3 dv)
  | Man.cont ts te a => Man.cont ts te (perm3 a)

theorem tnw_step (n τ : ℝ) {x a : List ℝ} (hx : x.length = 6) (ha : a.length = 3) :
    cwStepTNW n τ (perm6 x) (perm3 a) = perm6 (cwStepQSW n τ x a) := by
  obtain ⟨x1, x2, x3, x4, x5, x6, rfl⟩ := len6 hx
  obtain ⟨a1, a2, a3, rfl⟩ := len3 ha
  exact tnw_is_permuted_qsw n x1 x2 x3 x4 x5 x6 a1 a2 a3 τ

theorem tnw_flow (n τ : ℝ) {x : List ℝ} (hx : x.length = 6) : cwStepTNW n τ (perm6 x) zero3 = perm6 (flow n τ x) := by
  have := tnw_step n τ hx zero3_length
  simpa [perm3, zero3] using this

theorem perm6_addDv {x dv : List ℝ} (hx : x.length = 6) (hd : dv.length = 3) :
    addDv (perm6 x) (perm3 dv) = perm6 (addDv x dv) := by
  obtain ⟨x1, x2, x3, x4, x5, x6, rfl⟩ := len6 hx
  obtain ⟨a1, a2, a3, rfl⟩ := len3 hd
  simp [addDv, perm6, perm3, vadd, add_comm]

theorem go_tnw (n t t0 : ℝ) : ∀ (l : List Man) (tc : ℝ) (x : List ℝ), x.length = 6 → WF l →
    cwPropagate.go true n t t0 (l.map permMan) tc (perm6 x) = perm6 (cwPropagate.go false n t t0 l tc x) := by
  intro l
  induction l with
  | nil => intro tc x hx _; simp [cwPropagate.go, cwStep, tnw_flow n _ hx]
  | cons m rest ih =>
    intro tc x hx hwf
    have hwr := hwf.tail
    cases m with
    | imp tm dv =>
      have hd : dv.length = 3 := hwf.head
      by_cases h1 : t0 < tm ∧ tm ≤ t
      · simp only [List.map_cons, permMan, cwPropagate.go, if_pos h1, cwStep, if_true, Bool.false_eq_true, if_false]
        rw [tnw_flow n _ hx, perm6_addDv (step_length ..) hd, ih tm _ (addDv_length (step_length ..) hd) hwr]
      · simp only [List.map_cons, permMan, cwPropagate.go, if_neg h1]
        exact ih tc x hx hwr
    | cont ts te a =>
      have ha : a.length = 3 := hwf.head
      by_cases h1 : te > t0 ∧ t ≥ ts
      · by_cases h3 : ts ≤ t ∧ t < te
        · simp only [List.map_cons, permMan, cwPropagate.go, if_pos h1, if_pos h3, cwStep, if_true, Bool.false_eq_true, if_false]
          rw [tnw_flow n _ hx, tnw_step n _ (step_length ..) ha]
        · simp only [List.map_cons, permMan, cwPropagate.go, if_pos h1, if_neg h3, cwStep, if_true, Bool.false_eq_true, if_false]
          rw [tnw_flow n _ hx, tnw_step n _ (step_length ..) ha, ih te _ (step_length ..) hwr]
      · simp only [List.map_cons, permMan, cwPropagate.go, if_neg h1]
        exact ih tc x hx hwr

/-- **Results in TNW orientation are the fixed axis permutation of those in QSW — for the whole of `propagate`**: any list of
maneuvers (their vectors given in the axes of the orbit), any date, any orbit date. -/
theorem propagate_tnw_is_permuted_qsw (n : ℝ) (mans : List Man) (hwf : WF mans) (t t0 : ℝ) (x0 : List ℝ) (hx : x0.length = 6) :
    cwPropagate true n (mans.map permMan) t t0 (perm6 x0) = perm6 (cwPropagate false n mans t t0 x0) := by
  simp only [cwPropagate]
  exact go_tnw n t t0 mans t0 x0 hx hwf

/-! ## non-vacuity -/

/-- two overlapping burns and an impulse fired during both, listed out of order: a date after all of them satisfies `NoCut` -/
example : NoCut 10 0 [Man.cont 2 6 [0, 1, 0], Man.imp 4 [1, 0, 0], Man.cont 1 5 [0, 0, 1]] ∧
    WF [Man.cont 2 6 [0, 1, 0], Man.imp 4 [1, 0, 0], Man.cont 1 5 [0, 0, 1]] ∧ (0 : ℝ) ≤ 10 := by
  refine ⟨noCut_of_outsideBurns _ _ _ (by norm_num [outsideBurns]), ?_, by norm_num⟩
  intro m hm; simp at hm; rcases hm with rfl | rfl | rfl <;> rfl

/-- a date inside the LAST listed active burn satisfies `NoCut` as well (overlap, the burn containing the date listed last) -/
example : NoCut 5.5 0 [Man.cont 1 5 [0, 0, 1], Man.cont 2 6 [0, 1, 0]] := by
  refine ⟨fun h => ?_, fun _ m hm => by simp at hm, trivial⟩
  norm_num at h

/-- the hypotheses of `state_solves_hill_piecewise_thrust` at a date inside the overlap of two burns, after an impulse -/
example : (∀ m ∈ [Man.cont 2 6 [0, 1, 0], Man.imp 4 [1, 0, 0], Man.cont 1 5 [0, 0, 1]], notSwitch 4.5 m) ∧ (4.5 : ℝ) ≠ 0 ∧
    thrustAt 4.5 [Man.cont 2 6 [0, 1, 0], Man.imp 4 [1, 0, 0], Man.cont 1 5 [0, 0, 1]] = [0, 1, 1] := by
  refine ⟨?_, by norm_num, by norm_num [thrustAt, vadd, zero3]⟩
  intro m hm; simp at hm; rcases hm with rfl | rfl | rfl <;> norm_num [notSwitch]

/-- `Clear`: going back from date 10 to date 8 with every maneuver earlier -/
example : ∀ m ∈ [Man.cont 2 6 [0, 1, 0], Man.imp 4 [1, 0, 0]], Clear 8 10 m := by
  intro m hm; simp at hm; rcases hm with rfl | rfl <;> norm_num [Clear]

end BeyondVerif.C16
