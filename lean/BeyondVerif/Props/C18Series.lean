import BeyondVerif.Model.SolarSystemR
import BeyondVerif.Lemmas.CentralDiff
/-!
# C18 — part 1: the analytical Sun and Moon series and their difference-quotient velocity

`sunSeries`, `moonSeries` are translated from `SunPropagator._propagate` / `MoonPropagator._propagate` on every
run (Generated/SunMoonR.lean); `Solar.diffState` models `_DiffPropagator.propagate`.

What is proved here, for every value of the time argument:
* the position is `distance × unit vector` (the three direction entries have unit norm), the distance being
  `r · AU` with `r` inside the range of the series (Sun), resp. `Earth.r / sin(parallax)` with the parallax inside
  the range of its series (Moon);
* the velocity entries of the propagated state are the symmetric difference quotient of the position series,
  the position entries are the series at the date;
* the distance of the symmetric difference quotient from the derivative is at most `h²/6 · sup|f‴|`
  (`CentralDiff.central_difference_error`, general in `f`), instantiated to the two steps read from the classes.

Not provable here (no theorem can express it): that these series agree with the JPL DE ephemeris to
0.02° / 1e-4 (Sun) and 0.7° / 0.5 % (Moon) — that relates a formula to the contents of a data file; oracle only.
-/
namespace BeyondVerif.C18
open BeyondVerif.R BeyondVerif.NumReal

/-- **Sun: distance × unit vector, distance inside the range of the series**, for every `T`. -/
theorem sun_distance_range (T : ℝ) :
    ∃ r : ℝ, (0.983292 ≤ r ∧ r ≤ 1.016989) ∧
      ((sunSeries T).getD 0 0) ^ 2 + ((sunSeries T).getD 1 0) ^ 2 + ((sunSeries T).getD 2 0) ^ 2 = (r * auMetres) ^ 2 ∧
      (sunSeries T).getD 3 0 = 0 ∧ (sunSeries T).getD 4 0 = 0 ∧ (sunSeries T).getD 5 0 = 0 ∧
      (sunSeries T).length = 6 := by
  simp only [sunSeries, auMetres, List.getD_cons_zero, List.getD_cons_succ, List.length_cons, List.length_nil]
  set M : ℝ := (357.5291092 + 35999.05034 * T) * pi / 180 with hM
  set lam : ℝ := (280.46 + 36000.771 * T + 1.914666471 * sin M + 0.019994643 * sin (2 * M)) * pi / 180 with hlam
  set eps : ℝ := (23.439291 - 0.0130042 * T) * pi / 180 with heps
  refine ⟨1.000140612 - 0.016708617 * cos M - 0.000139589 * cos (2 * M), ⟨?_, ?_⟩, ?_, by simp, by simp, by simp, trivial⟩
  · have h1 := Real.cos_le_one M
    have h2 := Real.cos_le_one (2 * M)
    simp only [cos] at *
    linarith
  · have h1 := Real.neg_one_le_cos M
    have h2 := Real.neg_one_le_cos (2 * M)
    simp only [cos] at *
    linarith
  · have he := Real.sin_sq_add_cos_sq eps
    have hl := Real.sin_sq_add_cos_sq lam
    simp only [sin, cos] at *
    unfold R
    -- the integer-valued scientific literal is kept as an atom
    generalize (149597870700.0 : ℝ) = au
    linear_combination
      ((1.000140612 - 0.016708617 * Real.cos M - 0.000139589 * Real.cos (2 * M)) * au) ^ 2 * (Real.sin lam) ^ 2 * he
      + ((1.000140612 - 0.016708617 * Real.cos M - 0.000139589 * Real.cos (2 * M)) * au) ^ 2 * hl

/-- **Moon: distance × unit vector, horizontal parallax inside the range of its series**, for every `T`:
the squared norm of the position is `(Earth.r / sin p)²` with `0.8789° ≤ p ≤ 1.0227°`. -/
theorem moon_distance_range (T : ℝ) :
    ∃ p : ℝ, (0.8789 ≤ p ∧ p ≤ 1.0227) ∧
      ((moonSeries T).getD 0 0) ^ 2 + ((moonSeries T).getD 1 0) ^ 2 + ((moonSeries T).getD 2 0) ^ 2
        = (earthRadius / Real.sin (p * Real.pi / 180)) ^ 2 ∧
      (moonSeries T).getD 3 0 = 0 ∧ (moonSeries T).getD 4 0 = 0 ∧ (moonSeries T).getD 5 0 = 0 ∧
      (moonSeries T).length = 6 := by
  simp only [moonSeries, moonSeries_sin, moonSeries_cos, earthRadius, List.getD_cons_zero, List.getD_cons_succ,
    List.length_cons, List.length_nil]
  set lam : ℝ := (218.32 + 481267.8813 * T + 6.29 * sin ((134.9 + 477198.85 * T) * pi / 180)
    - 1.27 * sin ((259.2 - 413335.38 * T) * pi / 180) + 0.66 * sin ((235.7 + 890534.23 * T) * pi / 180)
    + 0.21 * sin ((269.9 + 954397.7 * T) * pi / 180) - 0.19 * sin ((357.5 + 35999.05 * T) * pi / 180)
    - 0.11 * sin ((186.6 + 966404.05 * T) * pi / 180)) * pi / 180 with hlam
  set phi : ℝ := (5.13 * sin ((93.3 + 483202.03 * T) * pi / 180) + 0.28 * sin ((228.2 + 960400.87 * T) * pi / 180)
    - 0.28 * sin ((318.3 + 6003.18 * T) * pi / 180) - 0.17 * sin ((217.6 - 407332.2 * T) * pi / 180)) * pi / 180 with hphi
  set eps : ℝ := (23.439291 - 0.0130042 * T - 1.64e-7 * T ^ 2 + 5.04e-7 * T ^ 3) * pi / 180 with heps
  set c1 : ℝ := cos ((134.9 + 477198.85 * T) * pi / 180) with hc1
  set c2 : ℝ := cos ((259.2 - 413335.38 * T) * pi / 180) with hc2
  set c3 : ℝ := cos ((235.7 + 890534.23 * T) * pi / 180) with hc3
  set c4 : ℝ := cos ((269.9 + 954397.7 * T) * pi / 180) with hc4
  refine ⟨0.9508 + 0.0518 * c1 + 0.0095 * c2 + 0.0078 * c3 + 0.0028 * c4, ⟨?_, ?_⟩, ?_, by simp, by simp, by simp, trivial⟩
  · have h1 := Real.neg_one_le_cos ((134.9 + 477198.85 * T) * Real.pi / 180)
    have h2 := Real.neg_one_le_cos ((259.2 - 413335.38 * T) * Real.pi / 180)
    have h3 := Real.neg_one_le_cos ((235.7 + 890534.23 * T) * Real.pi / 180)
    have h4 := Real.neg_one_le_cos ((269.9 + 954397.7 * T) * Real.pi / 180)
    simp only [hc1, hc2, hc3, hc4, cos, pi] at *
    linarith
  · have h1 := Real.cos_le_one ((134.9 + 477198.85 * T) * Real.pi / 180)
    have h2 := Real.cos_le_one ((259.2 - 413335.38 * T) * Real.pi / 180)
    have h3 := Real.cos_le_one ((235.7 + 890534.23 * T) * Real.pi / 180)
    have h4 := Real.cos_le_one ((269.9 + 954397.7 * T) * Real.pi / 180)
    simp only [hc1, hc2, hc3, hc4, cos, pi] at *
    linarith
  · have he := Real.sin_sq_add_cos_sq eps
    have hl := Real.sin_sq_add_cos_sq lam
    have hp := Real.sin_sq_add_cos_sq phi
    simp only [sin, cos, pi] at *
    unfold R
    set R0 : ℝ := 6378136.3 / Real.sin ((0.9508 + 0.0518 * c1 + 0.0095 * c2 + 0.0078 * c3 + 0.0028 * c4) * Real.pi / 180) with hR0
    linear_combination
      R0 ^ 2 * (Real.cos phi) ^ 2 * (Real.sin lam) ^ 2 * he + R0 ^ 2 * (Real.sin phi) ^ 2 * he
      + R0 ^ 2 * (Real.cos phi) ^ 2 * hl + R0 ^ 2 * hp

/-- **The propagated state**: positions are the series at the date, velocities are the symmetric difference
quotient of the position series over `± step` (for any series returning at least three entries). -/
theorem diff_state_entries (series : ℝ → List ℝ) (tm t0 tp dt : ℝ) (hlen : 3 ≤ (series t0).length) :
    ∀ i < 3, (Solar.diffState series tm t0 tp dt).getD i 0 = (series t0).getD i 0 ∧
      (Solar.diffState series tm t0 tp dt).getD (i + 3) 0 = ((series tp).getD i 0 - (series tm).getD i 0) / (2 * dt) := by
  intro i hi
  obtain ⟨a, b, c, rest, hs⟩ : ∃ a b c rest, series t0 = a :: b :: c :: rest := by
    match h : series t0 with
    | a :: b :: c :: rest => exact ⟨a, b, c, rest, rfl⟩
    | [] => rw [h] at hlen; simp at hlen
    | [_] => rw [h] at hlen; simp at hlen
    | [_, _] => rw [h] at hlen; simp at hlen
  unfold Solar.diffState
  simp only [hs, List.take_succ_cons, List.take_zero, List.cons_append, List.nil_append]
  rcases i with _ | _ | _ | i
  · simp
  · simp
  · simp
  · omega

/-- Sun: `SunPropagator.propagate` = series position + symmetric difference quotient at the class's step -/
theorem sun_state_entries (tm t0 tp : ℝ) :
    ∀ i < 3, (Solar.sunState tm t0 tp).getD i 0 = (sunSeries t0).getD i 0 ∧
      (Solar.sunState tm t0 tp).getD (i + 3) 0 = ((sunSeries tp).getD i 0 - (sunSeries tm).getD i 0) / (2 * sunStep) := by
  obtain ⟨_, _, _, _, _, _, hlen⟩ := sun_distance_range t0
  exact diff_state_entries sunSeries tm t0 tp sunStep (by rw [hlen]; norm_num)

/-- Moon: `MoonPropagator.propagate` = series position + symmetric difference quotient at the class's step -/
theorem moon_state_entries (tm t0 tp : ℝ) :
    ∀ i < 3, (Solar.moonState tm t0 tp).getD i 0 = (moonSeries t0).getD i 0 ∧
      (Solar.moonState tm t0 tp).getD (i + 3) 0 = ((moonSeries tp).getD i 0 - (moonSeries tm).getD i 0) / (2 * moonStep) := by
  obtain ⟨_, _, _, _, _, _, hlen⟩ := moon_distance_range t0
  exact diff_state_entries moonSeries tm t0 tp moonStep (by rw [hlen]; norm_num)

/-- **Velocity vs derivative, at the two steps used**: for a coordinate `g` of the position as a function of
time in seconds, three times differentiable around `t` with `|g‴| ≤ M` on `[t − h, t + h]`, the velocity the
propagator returns differs from `g'(t)` by at most `h²/6 · M`, `h` = the class's step (5 days / 1 day). -/
theorem velocity_error_at_steps (g g1 g2 g3 : ℝ → ℝ) (t M : ℝ) :
    ((∀ x ∈ Set.Icc (t - sunStep) (t + sunStep), HasDerivAt g (g1 x) x) →
     (∀ x ∈ Set.Icc (t - sunStep) (t + sunStep), HasDerivAt g1 (g2 x) x) →
     (∀ x ∈ Set.Icc (t - sunStep) (t + sunStep), HasDerivAt g2 (g3 x) x) →
     (∀ x ∈ Set.Icc (t - sunStep) (t + sunStep), |g3 x| ≤ M) →
     |(g (t + sunStep) - g (t - sunStep)) / (2 * sunStep) - g1 t| ≤ sunStep ^ 2 / 6 * M) ∧
    ((∀ x ∈ Set.Icc (t - moonStep) (t + moonStep), HasDerivAt g (g1 x) x) →
     (∀ x ∈ Set.Icc (t - moonStep) (t + moonStep), HasDerivAt g1 (g2 x) x) →
     (∀ x ∈ Set.Icc (t - moonStep) (t + moonStep), HasDerivAt g2 (g3 x) x) →
     (∀ x ∈ Set.Icc (t - moonStep) (t + moonStep), |g3 x| ≤ M) →
     |(g (t + moonStep) - g (t - moonStep)) / (2 * moonStep) - g1 t| ≤ moonStep ^ 2 / 6 * M) := by
  have hs : (0 : ℝ) < sunStep := by unfold sunStep; norm_num
  have hm : (0 : ℝ) < moonStep := by unfold moonStep; norm_num
  exact ⟨fun d0 d1 d2 hM => CentralDiff.central_difference_error g g1 g2 g3 t sunStep M hs d0 d1 d2 hM,
    fun d0 d1 d2 hM => CentralDiff.central_difference_error g g1 g2 g3 t moonStep M hm d0 d1 d2 hM⟩

/-- non-vacuity: a concrete state -/
example : (Solar.sunState 0 0 0).getD 3 0 = 0 := by
  have := (sun_state_entries 0 0 0 0 (by norm_num)).2
  simpa using this

end BeyondVerif.C18
