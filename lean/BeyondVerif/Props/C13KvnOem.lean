import BeyondVerif.Props.C13Wf
/-!
C13, `load_dump_id` for a whole message type: **OEM in KVN**.  The reader `oem._loads_kvn` is a line state
machine (`oemStep` / `oemFold` of the model); the theorem is proved by induction over the list of segments,
inside a segment over the list of points (data rows) and over the list of covariance blocks:

* `oemFold_append`, `closeSt` (what the end of input and the next `META_START` do to the open segment);
* `meta_fold`: `META_START` … `META_STOP` leaves the metadata `segMt` (centre rule applied);
* `rows_fold`: every number of data rows appends the points without covariance;
* `cov_block`: one covariance block (EPOCH, optional COV_REF_FRAME, six rows of 1..6 values) is turned into the dict
  of `covDict`, read by `loadCov` (`cov_xml_roundtrip'`) and attached to the point of that epoch (`attachCov_unique`);
* `covs_fold`: every number of blocks — points before the current block restored, points after still stripped;
* `seg_fold`, `segs_fold`: one segment, every number of segments.
-/
namespace BeyondVerif.C13
open BeyondVerif.Ccsds BeyondVerif.Generated

namespace OemKvn

theorem oemFold_append (a b : List Line) (st : OemSt) : oemFold (a ++ b) st = oemFold a st >>= oemFold b := by
  induction a generalizing st with
  | nil => rfl
  | cons l ls ih =>
    simp only [List.cons_append, oemFold]
    cases h : oemStep st l with
    | error e => rfl
    | ok st' => simp only [ih]

/-- what `loadOemKvn` does at the end of the input (and `META_START` does to the segment before) -/
def closeSt (st : OemSt) : R (List Seg) :=
  match st.cur with
  | some (mt, pts) => do pure (st.done ++ [← finishSeg mt pts])
  | none => pure st.done

theorem loadOemKvn_eq (ls : List Line) : loadOemKvn ls = oemFold ls {} >>= closeSt := by
  unfold loadOemKvn closeSt
  rfl

theorem step_metaStart (st : OemSt) (D : List Seg) (h : closeSt st = .ok D) :
    oemStep st (.word "META_START") = .ok { st with done := D, cur := some ([], []), mode := "mt" } := by
  obtain ⟨done, cur, mode, ce, cf, cr⟩ := st
  cases cur with
  | none =>
    simp [closeSt, pure, Except.pure] at h
    subst h
    simp [oemStep]
  | some mp =>
    obtain ⟨mt, pts⟩ := mp
    simp only [closeSt, bind, Except.bind, pure, Except.pure] at h
    cases hf : finishSeg mt pts with
    | error e => simp [hf] at h
    | ok s =>
      simp [hf] at h
      subst h
      simp [oemStep, hf, bind, Except.bind]


/-- the metadata dict of the reader after `META_STOP` of segment `s` written with centre text `c` -/
def segMt (s : Seg) (c : String) : List (String × Txt) :=
  [("OBJECT_NAME", .s s.name), ("OBJECT_ID", .s s.id), ("CENTER_NAME", .s c), ("REF_FRAME", .s s.frame), ("TIME_SYSTEM", .s s.scale)] ++
  segExtras s

theorem meta_fold (s : Seg) (c r : String) (st : OemSt) (D : List Seg) (h : closeSt st = .ok D) (hc : centreRule c r = .ok s.frame) :
    oemFold (metaKvn true s.name s.id c r s.scale (segExtras s)) st =
      .ok { st with done := D, cur := some (segMt s c, []), mode := "data" } := by
  obtain ⟨name, id, frame, scale, method, order, points⟩ := s
  simp only [metaKvn, if_true, List.cons_append, List.nil_append, oemFold, step_metaStart st D h]
  cases order with
  | none =>
    simp [segExtras, segMt, oemFold, oemStep, setMeta, metaStr, List.lookup, hc, bind, Except.bind]
  | some o =>
    simp [segExtras, segMt, oemFold, oemStep, setMeta, metaStr, List.lookup, hc, bind, Except.bind]


def strip (p : Point) : Point := { p with cov := none }

theorem rows_fold (P : List Point) (hP : ∀ p ∈ P, PointWf p) (done : List Seg) (mt : List (String × Txt)) (pts : List Point)
    (ce : Option Txt) (cf : Option String) (cr : List (List Txt)) :
    oemFold (P.map fun p => Line.row (p.epoch :: p.state)) ⟨done, some (mt, pts), "data", ce, cf, cr⟩ =
      .ok ⟨done, some (mt, pts ++ P.map strip), "data", ce, cf, cr⟩ := by
  induction P generalizing pts with
  | nil => simp [oemFold]
  | cons p r ih =>
    obtain ⟨_, x, y, z, vx, vy, vz, hs, _⟩ := hP p (by simp)
    simp only [List.map_cons, oemFold, oemStep, if_true]
    rw [ih (fun q hq => hP q (by simp [hq]))]
    simp [hs, strip]

theorem setCovAt_append (pre suf : List Point) (q : Point) (c : CovM) :
    setCovAt (pre ++ q :: suf) pre.length c = pre ++ { q with cov := some c } :: suf := by
  induction pre with
  | nil => rfl
  | cons a r ih => simp [setCovAt, ih]

theorem attachCov_unique (pre suf : List Point) (q : Point) (c : CovM) (h2 : ∀ x ∈ suf, x.epoch ≠ q.epoch) :
    attachCov (pre ++ q :: suf) q.epoch c = .ok (pre ++ { q with cov := some c } :: suf) := by
  unfold attachCov
  have hany : (pre ++ q :: suf).any (·.epoch = q.epoch) = true := by simp
  rw [if_pos hany]
  have hnone : suf.reverse.findIdx? (fun x => decide (x.epoch = q.epoch)) = none := by
    rw [List.findIdx?_eq_none_iff]
    intro x hx
    simpa using h2 x (by simpa using hx)
  have hidx : (pre ++ q :: suf).reverse.findIdx? (fun x => decide (x.epoch = q.epoch)) = some suf.length := by
    simp [List.reverse_append, List.findIdx?_append, hnone, List.findIdx?_cons]
  simp only [hidx, Option.getD_some]
  have : (pre ++ q :: suf).length - 1 - suf.length = pre.length := by simp <;> omega
  rw [this, setCovAt_append]


theorem triRows_21 (a0 a1 a2 a3 a4 a5 a6 a7 a8 a9 a10 a11 a12 a13 a14 a15 a16 a17 a18 a19 a20 : Txt) :
    triRows [a0, a1, a2, a3, a4, a5, a6, a7, a8, a9, a10, a11, a12, a13, a14, a15, a16, a17, a18, a19, a20] =
      [[a0], [a1, a2], [a3, a4, a5], [a6, a7, a8, a9], [a10, a11, a12, a13, a14], [a15, a16, a17, a18, a19, a20]] := by
  rfl

/-- the step on the sixth row of a covariance block -/
theorem step_row6 (done : List Seg) (mt : List (String × Txt)) (pts : List Point) (ep : Txt) (cf : Option String)
    (a0 a1 a2 a3 a4 a5 a6 a7 a8 a9 a10 a11 a12 a13 a14 a15 a16 a17 a18 a19 a20 : Txt) :
    oemStep ⟨done, some (mt, pts), "covariance", some ep, cf, [[a0], [a1, a2], [a3, a4, a5], [a6, a7, a8, a9], [a10, a11, a12, a13, a14]]⟩
      (.row [a15, a16, a17, a18, a19, a20]) =
    (do let frame ← metaStr mt "REF_FRAME"
        let c ← loadCov frame ((match cf with | some f => [("COV_REF_FRAME", Val.field (.s f) [])] | none => []) ++
          (covKeys.zip [a0, a1, a2, a3, a4, a5, a6, a7, a8, a9, a10, a11, a12, a13, a14, a15, a16, a17, a18, a19, a20]).map fun (k, v) => (k, Val.field v []))
        let pts ← attachCov pts ep c
        .ok ⟨done, some (mt, pts), "covariance", some ep, cf,
          [[a0], [a1, a2], [a3, a4, a5], [a6, a7, a8, a9], [a10, a11, a12, a13, a14], [a15, a16, a17, a18, a19, a20]]⟩) := by
  rfl


theorem metaStr_segMt_frame (s : Seg) (c : String) : metaStr (segMt s c) "REF_FRAME" = .ok s.frame := by
  simp [segMt, metaStr, List.lookup]

theorem oemFold_single (l : Line) (st : OemSt) : oemFold [l] st = oemStep st l := by
  simp only [oemFold]
  cases oemStep st l <;> rfl

/-- the lines of a covariance block before its sixth row -/
theorem cov_prefix (first : Bool) (ep : Txt) (cf0 : Option String) (done : List Seg) (mt : List (String × Txt)) (pts : List Point)
    (ce : Option Txt) (cf : Option String) (cr : List (List Txt)) (a0 a1 a2 a3 a4 a5 a6 a7 a8 a9 a10 a11 a12 a13 a14 : Txt) :
    oemFold ((if first then [] else [Line.blank]) ++ [.kv "EPOCH" ep none] ++
        (match cf0 with | some f => [Line.kv "COV_REF_FRAME" (.s f) none] | none => []) ++
        [.row [a0], .row [a1, a2], .row [a3, a4, a5], .row [a6, a7, a8, a9], .row [a10, a11, a12, a13, a14]])
      ⟨done, some (mt, pts), "covariance", ce, cf, cr⟩ =
    .ok ⟨done, some (mt, pts), "covariance", some ep, cf0, [[a0], [a1, a2], [a3, a4, a5], [a6, a7, a8, a9], [a10, a11, a12, a13, a14]]⟩ := by
  cases first <;> cases cf0 <;> simp [oemFold, oemStep]

/-- one covariance block: EPOCH, optional COV_REF_FRAME, six rows -/
theorem cov_block (first : Bool) (p : Point) (c : CovM) (hc : CovWf c) (own : String) (hown : own ∈ frameTable.map (·.1))
    (done : List Seg) (mt : List (String × Txt)) (hmt : metaStr mt "REF_FRAME" = .ok own) (pts pts' : List Point)
    (hatt : attachCov pts p.epoch c = .ok pts') (ce : Option Txt) (cf : Option String) (cr : List (List Txt)) :
    oemFold (covBlockKvn first p c) ⟨done, some (mt, pts), "covariance", ce, cf, cr⟩ =
      .ok ⟨done, some (mt, pts'), "covariance", some p.epoch, covFrameOut c, triRows c.tri⟩ := by
  have hload := (cov_xml_roundtrip' own hown c hc).2
  obtain ⟨frame, tri⟩ := c
  obtain ⟨⟨a0, a1, a2, a3, a4, a5, a6, a7, a8, a9, a10, a11, a12, a13, a14, a15, a16, a17, a18, a19, a20, htri, hne⟩, hfr⟩ := hc
  simp only at htri hfr
  subst htri
  simp only [covDict, List.nil_append] at hload
  have hsplit : covBlockKvn first p ⟨frame, [a0, a1, a2, a3, a4, a5, a6, a7, a8, a9, a10, a11, a12, a13, a14, a15, a16, a17, a18, a19, a20]⟩ =
      ((if first then [] else [Line.blank]) ++ [.kv "EPOCH" p.epoch none] ++
        (match covFrameOut ⟨frame, [a0, a1, a2, a3, a4, a5, a6, a7, a8, a9, a10, a11, a12, a13, a14, a15, a16, a17, a18, a19, a20]⟩ with
          | some f => [Line.kv "COV_REF_FRAME" (.s f) none] | none => []) ++
        [.row [a0], .row [a1, a2], .row [a3, a4, a5], .row [a6, a7, a8, a9], .row [a10, a11, a12, a13, a14]]) ++
      [.row [a15, a16, a17, a18, a19, a20]] := by
    simp only [covBlockKvn, triRows_21]
    generalize covFrameOut _ = cfo
    cases cfo <;> cases first <;> rfl
  rw [hsplit, oemFold_append, cov_prefix]
  simp only [bind, Except.bind, oemFold_single, step_row6, hmt, triRows_21]
  generalize covFrameOut _ = cfo at hload ⊢
  cases cfo <;> simp only [List.nil_append] at hload ⊢ <;> rw [hload] <;> simp only [hatt]


/-- all covariance blocks of a segment: the points before are restored, those after still stripped -/
theorem covs_fold (own : String) (hown : own ∈ frameTable.map (·.1)) (done : List Seg) (mt : List (String × Txt))
    (hmt : metaStr mt "REF_FRAME" = .ok own) (P2 : List Point) :
    ∀ (P1 : List Point) (first : Bool) (ce : Option Txt) (cf : Option String) (cr : List (List Txt)),
      (∀ p ∈ P2, ∀ c, p.cov = some c → CovWf c) → (P2.map (·.epoch)).Nodup →
      ∃ ce' cf' cr', oemFold (covBlocksKvn first P2) ⟨done, some (mt, P1 ++ P2.map strip), "covariance", ce, cf, cr⟩ =
        .ok ⟨done, some (mt, P1 ++ P2), "covariance", ce', cf', cr'⟩ := by
  induction P2 with
  | nil => intro P1 first ce cf cr _ _; exact ⟨ce, cf, cr, rfl⟩
  | cons p r ih =>
    intro P1 first ce cf cr hcov hnd
    have hnd' : (r.map (·.epoch)).Nodup := (List.nodup_cons.mp hnd).2
    have hcov' : ∀ q ∈ r, ∀ c, q.cov = some c → CovWf c := fun q hq => hcov q (by simp [hq])
    cases hpc : p.cov with
    | none =>
      have hs : strip p = p := by cases p; simp only [strip]; simp at hpc; rw [hpc]
      simp only [covBlocksKvn, hpc, List.map_cons, hs]
      have h := ih (P1 ++ [p]) first ce cf cr hcov' hnd'
      simp only [List.append_assoc, List.singleton_append] at h
      exact h
    | some c =>
      have hs : { strip p with cov := some c } = p := by cases p; simp only [strip]; simp at hpc; rw [hpc]
      have hatt := attachCov_unique P1 (r.map strip) (strip p) c (by
        intro x hx
        simp only [List.mem_map] at hx
        obtain ⟨y, hy, rfl⟩ := hx
        have := (List.nodup_cons.mp hnd).1
        intro he
        exact this (by simp only [List.mem_map]; exact ⟨y, hy, he⟩))
      rw [hs] at hatt
      simp only [covBlocksKvn, hpc, List.map_cons, oemFold_append]
      rw [cov_block first p c (hcov p (by simp) c hpc) own hown done mt hmt _ _ hatt]
      simp only [bind, Except.bind]
      have h := ih (P1 ++ [p]) false (some p.epoch) (covFrameOut c) (triRows c.tri) hcov' hnd'
      simp only [List.append_assoc, List.singleton_append] at h
      exact h

theorem covBlocks_nil (P : List Point) : ∀ first, covBlocksKvn first P = [] → ∀ p ∈ P, p.cov = none := by
  induction P with
  | nil => intro _ _ p hp; simp at hp
  | cons q r ih =>
    intro first h p hp
    cases hq : q.cov with
    | none =>
      simp only [covBlocksKvn, hq] at h
      simp only [List.mem_cons] at hp
      rcases hp with rfl | hp
      · exact hq
      · exact ih first h p hp
    | some c =>
      simp [covBlocksKvn, hq, covBlockKvn] at h


theorem finish_ok (s : Seg) (c : String) : finishSeg (segMt s c) s.points = .ok s := by
  obtain ⟨name, id, frame, scale, method, order, points⟩ := s
  cases order <;> simp [finishSeg, segMt, segExtras, metaStr, List.lookup, bind, Except.bind, pure, Except.pure]

theorem map_strip_of_none (P : List Point) (h : ∀ p ∈ P, p.cov = none) : P.map strip = P := by
  induction P with
  | nil => rfl
  | cons p r ih =>
    have hp : strip p = p := by
      have := h p (by simp)
      cases p; simp only [strip]; simp at this; rw [this]
    simp [hp, ih (fun q hq => h q (by simp [hq]))]

/-- the lines written for a segment (what `segKvn` returns, the centre text being `c`) -/
def segLines (s : Seg) (c r : String) : List Line :=
  metaKvn true s.name s.id c r s.scale (segExtras s) ++
    s.points.map (fun p => Line.row (p.epoch :: p.state)) ++
    (if (covBlocksKvn true s.points).isEmpty then [] else
      [Line.blank, .blank, .word "COVARIANCE_START"] ++ covBlocksKvn true s.points ++ [.word "COVARIANCE_STOP", .blank])

theorem segKvn_ok (s : Seg) (h : SegWf s) : ∃ c r, segKvn s = .ok (segLines s c r) ∧ centreRule c r = .ok s.frame := by
  obtain ⟨c, r, hfo, hcr, _, _, _⟩ := frameOut_ok s.frame h.frame
  have hne : s.points.isEmpty = false := by
    cases hp : s.points with
    | nil => exact absurd hp h.points_ne
    | cons _ _ => rfl
  exact ⟨c, r, by simp [segKvn, segLines, hne, hfo, bind, Except.bind, pure, Except.pure], hcr⟩

/-- one whole segment, from any state in which the segments so far close to `D` -/
theorem seg_fold (s : Seg) (h : SegWf s) (c r : String) (hc : centreRule c r = .ok s.frame) (st : OemSt) (D : List Seg)
    (hD : closeSt st = .ok D) :
    ∃ st', oemFold (segLines s c r ++ [Line.blank, .blank, .blank]) st = .ok st' ∧ closeSt st' = .ok (D ++ [s]) := by
  obtain ⟨done, cur, mode, ce, cf, cr⟩ := st
  have hm := meta_fold s c r _ D hD hc
  have hr := rows_fold s.points h.points D (segMt s c) [] ce cf cr
  simp only [List.nil_append] at hr
  cases hemp : (covBlocksKvn true s.points).isEmpty with
  | true =>
    have hcv : covBlocksKvn true s.points = [] := List.isEmpty_iff.mp hemp
    have hP := map_strip_of_none s.points (covBlocks_nil s.points true hcv)
    have hl : segLines s c r ++ [Line.blank, .blank, .blank] = metaKvn true s.name s.id c r s.scale (segExtras s) ++
        (s.points.map (fun p => Line.row (p.epoch :: p.state)) ++ [Line.blank, .blank, .blank]) := by
      simp [segLines, hemp]
    have h3 : oemFold [Line.blank, .blank, .blank] ⟨D, some (segMt s c, s.points), "data", ce, cf, cr⟩ =
        .ok ⟨D, some (segMt s c, s.points), "data", ce, cf, cr⟩ := by
      simp [oemFold, oemStep]
    rw [hP] at hr
    refine ⟨⟨D, some (segMt s c, s.points), "data", ce, cf, cr⟩, ?_, ?_⟩
    · rw [hl]
      simp only [oemFold_append, hm, hr, h3, bind, Except.bind]
    · simp [closeSt, finish_ok, bind, Except.bind, pure, Except.pure]
  | false =>
    obtain ⟨ce', cf', cr', hcf⟩ := covs_fold s.frame h.frame D (segMt s c) (metaStr_segMt_frame s c) s.points [] true ce cf cr h.covs h.nodup
    simp only [List.nil_append] at hcf
    have hl : segLines s c r ++ [Line.blank, .blank, .blank] = metaKvn true s.name s.id c r s.scale (segExtras s) ++
        (s.points.map (fun p => Line.row (p.epoch :: p.state)) ++ ([Line.blank, .blank, .word "COVARIANCE_START"] ++
          (covBlocksKvn true s.points ++ [Line.word "COVARIANCE_STOP", .blank, .blank, .blank, .blank]))) := by
      simp [segLines, hemp]
    have h1 : ∀ pts, oemFold [Line.blank, .blank, .word "COVARIANCE_START"] ⟨D, some (segMt s c, pts), "data", ce, cf, cr⟩ =
        .ok ⟨D, some (segMt s c, pts), "covariance", ce, cf, cr⟩ := by
      intro pts; simp [oemFold, oemStep]
    have h2 : oemFold [Line.word "COVARIANCE_STOP", .blank, .blank, .blank, .blank] ⟨D, some (segMt s c, s.points), "covariance", ce', cf', cr'⟩ =
        .ok ⟨D, some (segMt s c, s.points), "", ce', cf', cr'⟩ := by
      simp [oemFold, oemStep]
    refine ⟨⟨D, some (segMt s c, s.points), "", ce', cf', cr'⟩, ?_, ?_⟩
    · rw [hl]
      simp only [oemFold_append, hm, hr, h1, hcf, h2, bind, Except.bind]
    · simp [closeSt, finish_ok, bind, Except.bind, pure, Except.pure]


/-- any number of segments -/
theorem segs_fold (m : List Seg) (h : ∀ s ∈ m, SegWf s) :
    ∃ segs, m.mapM segKvn = .ok segs ∧ ∀ (st : OemSt) (D : List Seg), closeSt st = .ok D →
      ∃ st', oemFold ((segs.map (· ++ [Line.blank, .blank, .blank])).flatten) st = .ok st' ∧ closeSt st' = .ok (D ++ m) := by
  induction m with
  | nil => exact ⟨[], rfl, fun st D hD => ⟨st, rfl, by simpa using hD⟩⟩
  | cons s rest ih =>
    obtain ⟨segs, hsegs, hfold⟩ := ih (fun x hx => h x (by simp [hx]))
    obtain ⟨c, r, hk, hc⟩ := segKvn_ok s (h s (by simp))
    refine ⟨segLines s c r :: segs, by simp [List.mapM_cons, hk, hsegs, bind, Except.bind, pure, Except.pure], ?_⟩
    intro st D hD
    obtain ⟨st1, h1, hD1⟩ := seg_fold s (h s (by simp)) c r hc st D hD
    obtain ⟨st2, h2, hD2⟩ := hfold st1 (D ++ [s]) hD1
    refine ⟨st2, ?_, by simpa using hD2⟩
    simp only [List.map_cons, List.flatten_cons, oemFold_append, h1, bind, Except.bind, h2]

end OemKvn
open OemKvn

/-- load_dump_id, OEM, KVN: every list of well-formed segments (1..N points, 0..N covariance blocks each with its EPOCH line, optional
COV_REF_FRAME and six rows of 1..6 values, attached to the point of the same epoch) is read back by the line state machine of
oem._loads_kvn from what the KVN writer produced -/
theorem oem_kvn_load_dump_id (m : Oem) (h : ∀ s ∈ m, SegWf s) : (oemKvn m >>= loadOemKvn) = .ok m := by
  obtain ⟨segs, hsegs, hfold⟩ := segs_fold m h
  have hh : oemFold (header "CCSDS_OEM_VERS" "2.0" ++ [Line.blank]) {} = .ok {} := by
    simp [header, oemFold, oemStep]
  obtain ⟨st', h1, h2⟩ := hfold {} [] (by simp [closeSt, pure, Except.pure])
  simp only [oemKvn, hsegs, bind, Except.bind, pure, Except.pure, loadOemKvn_eq, oemFold_append, hh, h1]
  simpa using h2


namespace OemKvn
/-! ### a concrete instance: two segments, covariances in QSW, in TNW and in the orbit's own frame -/

def exState : List Txt := [.s "1", .s "2", .s "3", .s "4", .s "5", .s "6"]
def exTri : List Txt := [.s "1", .s "2", .s "3", .s "4", .s "5", .s "6", .s "7", .s "8", .s "9", .s "10", .s "11", .s "12", .s "13", .s "14",
  .s "15", .s "16", .s "17", .s "18", .s "19", .s "20", .s "21"]
def oemKvnEx : Oem :=
  [⟨"SAT", "2020-001A", "EME2000", "UTC", "LAGRANGE", some (.s "8"),
    [⟨.s "t0", exState, some ⟨some "QSW", exTri⟩⟩, ⟨.s "t1", exState, none⟩, ⟨.s "t2", exState, some ⟨none, exTri⟩⟩]⟩,
   ⟨"SAT", "2020-001A", "MOD", "TAI", "LINEAR", none, [⟨.s "t1", exState, none⟩, ⟨.s "t2", exState, some ⟨some "TNW", exTri⟩⟩]⟩]

theorem exPointWf (e : String) (he : e ≠ "") (c : Option CovM) : PointWf ⟨.s e, exState, c⟩ :=
  ⟨by simpa using he, _, _, _, _, _, _, rfl, by decide, by decide, by decide, by decide, by decide, by decide⟩

theorem exCovWf (f : Option String) (hf : f = none ∨ f = some "QSW" ∨ f = some "TNW") : CovWf ⟨f, exTri⟩ :=
  ⟨⟨_, _, _, _, _, _, _, _, _, _, _, _, _, _, _, _, _, _, _, _, _, rfl, by decide⟩, hf⟩

theorem oemKvnEx_wf : ∀ s ∈ oemKvnEx, SegWf s := by
  intro s hs
  simp only [oemKvnEx, List.mem_cons, List.not_mem_nil, or_false] at hs
  rcases hs with rfl | rfl
  · exact
    { frame := by decide, name := by decide, id := by decide, scale := by decide, method := by decide, order := by decide,
      points_ne := by simp,
      points := by
        intro p hp
        simp only [List.mem_cons, List.not_mem_nil, or_false] at hp
        rcases hp with rfl | rfl | rfl <;> exact exPointWf _ (by decide) _
      covs := by
        intro p hp c hc
        simp only [List.mem_cons, List.not_mem_nil, or_false] at hp
        rcases hp with rfl | rfl | rfl <;> simp only [Option.some.injEq, reduceCtorEq] at hc <;> subst hc
        · exact exCovWf _ (by simp)
        · exact exCovWf _ (by simp)
      nodup := by decide }
  · exact
    { frame := by decide, name := by decide, id := by decide, scale := by decide, method := by decide, order := by decide,
      points_ne := by simp,
      points := by
        intro p hp
        simp only [List.mem_cons, List.not_mem_nil, or_false] at hp
        rcases hp with rfl | rfl <;> exact exPointWf _ (by decide) _
      covs := by
        intro p hp c hc
        simp only [List.mem_cons, List.not_mem_nil, or_false] at hp
        rcases hp with rfl | rfl <;> simp only [Option.some.injEq, reduceCtorEq] at hc <;> subst hc
        exact exCovWf _ (by simp)
      nodup := by decide }

example : (oemKvn oemKvnEx >>= loadOemKvn) = .ok oemKvnEx := oem_kvn_load_dump_id oemKvnEx oemKvnEx_wf

end OemKvn

end BeyondVerif.C13
