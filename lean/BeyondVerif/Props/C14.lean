import BeyondVerif.Model.Cov
import BeyondVerif.Generated.Frames
import BeyondVerif.Generated.CovSetter
import BeyondVerif.Lemmas.Local
import Mathlib.LinearAlgebra.Matrix.PosDef
import Mathlib.Algebra.Order.Star.Real
import Mathlib.LinearAlgebra.Matrix.Charpoly.Basic
import Mathlib.Data.Matrix.Block
import Mathlib.LinearAlgebra.Matrix.Notation
import Mathlib.Tactic.FinCases
import Mathlib.Tactic.Ring

/-!
# C14 — covariance frame changes are pure, path-independent rotations

Theorems about `BeyondVerif.Cov` (Model/Cov.lean: the state machine of `Cov.frame` setter,
`Cov.copy`, `StateVector.frame` setter) instantiated with real matrices.  The very same generic
definitions, instantiated with floats, are what the driver runs against the real `Cov` class.

The conversion matrices `conv a b` (orientation `a` → `b` at the date of the state) and `toLocal`
are parameters; what is assumed about them is stated explicitly (`Laws`, `LocOrth`, `PosShape`)
and is C02's / `local_orthonormal`'s conclusion.

History: until /repo commit d229088 the setter re-framed its private state copy; the model then had
a `reframeOrb` step, `path_characterised` described a path-dependent matrix, and only
`path_independent_partial` was provable (counter-witness in Witness/C14.lean, now restated about
`runOld`).  The model follows the repaired code: `path_independent` is the full statement.
-/
namespace BeyondVerif.C14
open BeyondVerif.Cov Matrix

set_option linter.unusedSectionVars false

variable {F : Type} [DecidableEq F] {n : Type} [Fintype n] [DecidableEq n]

/-- the numeric parameters of the model: orientation conversions and `to_local` -/
structure RealEnv (F n : Type) where
  conv : F → F → Matrix n n ℝ
  toLocal : Loc → (n → ℝ) → Matrix n n ℝ

/-- the model environment over Mathlib's real matrices -/
def RealEnv.env (E : RealEnv F n) : Env F (Matrix n n ℝ) (n → ℝ) where
  conv := E.conv
  toLocal := E.toLocal
  mul := (· * ·)
  tr := transpose
  one := 1
  apply := mulVec

/-- consistency of the orientation conversions (C02): identity and composition -/
structure Laws (E : RealEnv F n) : Prop where
  conv_self : ∀ a, E.conv a a = 1
  conv_comp : ∀ a b c, E.conv b c * E.conv a b = E.conv a c

variable (E : RealEnv F n)

/-- the matrix of one assignment `cov.frame = t` (identity when `t` is the current tag) -/
def hopM (s : St F (Matrix n n ℝ) (n → ℝ)) (t : Tag F) : Matrix n n ℝ :=
  if t = s.tag then 1 else hopMat E.env s t

/-- **Each hop is a congruence** `C ↦ M C Mᵀ` with `M = m2 · m1` of the setter. -/
theorem hop_congruence (s : St F (Matrix n n ℝ) (n → ℝ)) (t : Tag F) :
    (setFrame E.env s t).mat = hopM E s t * s.mat * (hopM E s t)ᵀ := by
  unfold setFrame hopM
  by_cases h : t = s.tag
  · simp [h]
  · simp only [h, if_false]; rfl

/-- any predicate on matrices that is closed under congruence survives every sequence of hops -/
theorem run_closed (P : Matrix n n ℝ → Prop) (hP : ∀ M C, P C → P (M * C * Mᵀ))
    (s : St F (Matrix n n ℝ) (n → ℝ)) (ts : List (Tag F)) (h : P s.mat) : P (run E.env s ts).mat := by
  induction ts generalizing s with
  | nil => exact h
  | cons t ts ih =>
    simp only [run, List.foldl_cons] at ih ⊢
    exact ih _ (by rw [hop_congruence]; exact hP _ _ h)

/-- **Symmetry is preserved** by every sequence of frame changes. -/
theorem symm_preserved (s : St F (Matrix n n ℝ) (n → ℝ)) (ts : List (Tag F)) (h : s.mat.IsSymm) :
    (run E.env s ts).mat.IsSymm := by
  refine run_closed E (fun C => C.IsSymm) ?_ s ts h
  intro M C hC
  unfold Matrix.IsSymm at *
  rw [transpose_mul, transpose_mul, transpose_transpose, hC, Matrix.mul_assoc]

/-- **Positive semi-definiteness is preserved** by every sequence of frame changes
(`xᵀ M C Mᵀ x = (Mᵀx)ᵀ C (Mᵀx) ≥ 0`). -/
theorem psd_preserved (s : St F (Matrix n n ℝ) (n → ℝ)) (ts : List (Tag F)) (h : s.mat.PosSemidef) :
    (run E.env s ts).mat.PosSemidef := by
  refine run_closed E (fun C => C.PosSemidef) ?_ s ts h
  intro M C hC
  have := hC.mul_mul_conjTranspose_same M
  rwa [conjTranspose_eq_transpose_of_trivial] at this

example : (1 : Matrix (Fin 2) (Fin 2) ℝ).PosSemidef ∧ (1 : Matrix (Fin 2) (Fin 2) ℝ).IsSymm :=
  ⟨Matrix.PosSemidef.one, Matrix.isSymm_one⟩

/-! ## Position block -/

section posblock
variable {m : Type} [Fintype m] [DecidableEq m]

/-- shape of `expand(m, rate)`: no velocity → position coupling, orthogonal position block -/
def PosShape (M : Matrix (m ⊕ m) (m ⊕ m) ℝ) : Prop :=
  M.toBlocks₁₂ = 0 ∧ M.toBlocks₁₁ * (M.toBlocks₁₁)ᵀ = 1

/-- the position block of `M C Mᵀ` is `A C_pp Aᵀ`, `A` the position block of `M` -/
theorem pos_block_congruence (M C : Matrix (m ⊕ m) (m ⊕ m) ℝ) (h : M.toBlocks₁₂ = 0) :
    (M * C * Mᵀ).toBlocks₁₁ = M.toBlocks₁₁ * C.toBlocks₁₁ * (M.toBlocks₁₁)ᵀ := by
  conv_lhs => rw [← fromBlocks_toBlocks M, ← fromBlocks_toBlocks C, h]
  rw [fromBlocks_transpose, fromBlocks_multiply, fromBlocks_multiply, toBlocks_fromBlocks₁₁]
  simp

/-- conjugation by an orthogonal matrix keeps the characteristic polynomial -/
theorem charpoly_orth_conj (A C : Matrix m m ℝ) (h : A * Aᵀ = 1) : (A * C * Aᵀ).charpoly = C.charpoly := by
  have h' : Aᵀ * A = 1 := mul_eq_one_comm.mp h
  rw [Matrix.charpoly_mul_comm, ← Matrix.mul_assoc, h', Matrix.one_mul]

end posblock

/-! ## All sequences: path independence -/

/-- the state right after `Cov(sv, C0, sv.frame)` for a state `x0` given in frame `F0` -/
def init (F0 : F) (x0 : n → ℝ) (C0 : Matrix n n ℝ) : St F (Matrix n n ℝ) (n → ℝ) :=
  St.new F0 x0 (.frame F0) C0

/-- the matrix the property requires for target `t`: the conversion `F0 → f` for a frame, the
QSW/TNW axes **of the original inertial state** for a local target — it depends on `t` and on the
original state only -/
def Mt (E : RealEnv F n) (F0 : F) (x0 : n → ℝ) : Tag F → Matrix n n ℝ
  | .frame f => E.conv F0 f
  | .loc k => E.toLocal k x0

/-- `to_local` of the original state is an orthogonal matrix (conclusion of `local_orthonormal`) -/
def LocOrth (x0 : n → ℝ) : Prop := ∀ k, (E.toLocal k x0)ᵀ * E.toLocal k x0 = 1

/-- invariant of every reachable state: the bookkeeping never moves, the matrix is the required one -/
structure Inv (F0 : F) (x0 : n → ℝ) (C0 : Matrix n n ℝ) (s : St F (Matrix n n ℝ) (n → ℝ)) : Prop where
  orbFrame : s.orbFrame = F0
  orbCur : s.orbCur = F0
  orb : s.orb = x0
  mat : s.mat = Mt E F0 x0 s.tag * C0 * (Mt E F0 x0 s.tag)ᵀ

variable {E}

theorem inv_init (hL : Laws E) (F0 : F) (x0 : n → ℝ) (C0 : Matrix n n ℝ) : Inv E F0 x0 C0 (init F0 x0 C0) :=
  ⟨rfl, rfl, rfl, by simp [init, St.new, Mt, hL.conv_self]⟩

/-- `m1` undoes what has been applied so far -/
theorem m1_mul_Mt (hL : Laws E) {F0 : F} {x0 : n → ℝ} {C0 : Matrix n n ℝ} (hO : LocOrth E x0)
    {s : St F (Matrix n n ℝ) (n → ℝ)} (hs : Inv E F0 x0 C0 s) : m1 E.env s * Mt E F0 x0 s.tag = 1 := by
  unfold m1
  cases htag : s.tag with
  | loc k => simp only [RealEnv.env, Mt, hs.orb]; exact hO k
  | frame f =>
    simp only [RealEnv.env, Mt, hs.orbFrame]
    by_cases hf : f = F0
    · simp [hf, hL.conv_self]
    · simp only [ne_eq, hf, not_false_eq_true, if_true]; rw [hL.conv_comp, hL.conv_self]

/-- `m2` is the required matrix of the target -/
theorem m2_eq_Mt (hL : Laws E) {F0 : F} {x0 : n → ℝ} {C0 : Matrix n n ℝ}
    {s : St F (Matrix n n ℝ) (n → ℝ)} (hs : Inv E F0 x0 C0 s) (t : Tag F) : m2 E.env s t = Mt E F0 x0 t := by
  unfold m2
  cases t with
  | loc k => simp only [RealEnv.env, Mt, hs.orb]
  | frame g =>
    simp only [RealEnv.env, Mt, hs.orbFrame]
    by_cases hg : F0 = g
    · simp [hg, hL.conv_self]
    · simp [hg]

theorem inv_setFrame (hL : Laws E) {F0 : F} {x0 : n → ℝ} {C0 : Matrix n n ℝ} (hO : LocOrth E x0)
    {s : St F (Matrix n n ℝ) (n → ℝ)} (hs : Inv E F0 x0 C0 s) (t : Tag F) :
    Inv E F0 x0 C0 (setFrame E.env s t) ∧ (setFrame E.env s t).tag = t := by
  unfold setFrame
  by_cases h : t = s.tag
  · rw [if_pos h]; exact ⟨hs, h.symm⟩
  · rw [if_neg h]
    refine ⟨⟨hs.orbFrame, hs.orbCur, hs.orb, ?_⟩, rfl⟩
    have h4 : hopMat E.env s t * Mt E F0 x0 s.tag = Mt E F0 x0 t := by
      show (m2 E.env s t * m1 E.env s) * _ = _
      rw [Matrix.mul_assoc, m1_mul_Mt hL hO hs, Matrix.mul_one, m2_eq_Mt hL hs]
    show hopMat E.env s t * s.mat * (hopMat E.env s t)ᵀ = _
    rw [hs.mat, ← h4]; simp only [transpose_mul, Matrix.mul_assoc]

theorem inv_run (hL : Laws E) {F0 : F} {x0 : n → ℝ} {C0 : Matrix n n ℝ} (hO : LocOrth E x0)
    (ts : List (Tag F)) {s : St F (Matrix n n ℝ) (n → ℝ)} (hs : Inv E F0 x0 C0 s) : Inv E F0 x0 C0 (run E.env s ts) := by
  induction ts generalizing s with
  | nil => exact hs
  | cons t ts ih => exact ih (inv_setFrame hL hO hs t).1

omit [Fintype n] [DecidableEq n] in
/-- after any non-empty sequence the tag is the last target -/
theorem run_tag (Env' : Env F (Matrix n n ℝ) (n → ℝ)) (s : St F (Matrix n n ℝ) (n → ℝ)) (ts : List (Tag F)) (t : Tag F) :
    (run Env' s (ts ++ [t])).tag = t := by
  simp only [run, List.foldl_append, List.foldl_cons, List.foldl_nil]
  generalize List.foldl (setFrame Env') s ts = s'
  unfold setFrame
  by_cases h : t = s'.tag
  · rw [if_pos h]; exact h.symm
  · rw [if_neg h]

/-- **What the code computes, for every sequence of targets** (simplified since d229088): the
bookkeeping never moves — `_orb_frame` and the frame of the private copy stay the frame `F0` of the
state, the private copy stays `x0` — and the matrix is `Mt C0 Mtᵀ` for the *current* tag. -/
theorem path_characterised (hL : Laws E) (F0 : F) (x0 : n → ℝ) (C0 : Matrix n n ℝ) (hO : LocOrth E x0)
    (ts : List (Tag F)) :
    let s := run E.env (init F0 x0 C0) ts
    s.orbFrame = F0 ∧ s.orbCur = F0 ∧ s.orb = x0 ∧ s.mat = Mt E F0 x0 s.tag * C0 * (Mt E F0 x0 s.tag)ᵀ := by
  have h := inv_run hL hO ts (inv_init hL F0 x0 C0)
  exact ⟨h.orbFrame, h.orbCur, h.orb, h.mat⟩

/-- **Path independence** (full statement; before d229088 only `path_independent_partial` held —
"last target is a frame, or QSW/TNW with the last non-local frame visited being the original one"):
for every sequence of targets `ts` followed by `t`, the matrix is `Mt C0 Mtᵀ` where `Mt` depends
only on the last target `t` and on the original state, not on the frames visited before. -/
theorem path_independent (hL : Laws E) (F0 : F) (x0 : n → ℝ) (C0 : Matrix n n ℝ) (hO : LocOrth E x0)
    (ts : List (Tag F)) (t : Tag F) :
    (run E.env (init F0 x0 C0) (ts ++ [t])).mat = Mt E F0 x0 t * C0 * (Mt E F0 x0 t)ᵀ := by
  have h := (path_characterised hL F0 x0 C0 hO (ts ++ [t])).2.2.2
  rwa [run_tag] at h

/-- the same, read as "sequence = single hop" -/
theorem seq_eq_single_hop (hL : Laws E) (F0 : F) (x0 : n → ℝ) (C0 : Matrix n n ℝ) (hO : LocOrth E x0)
    (ts : List (Tag F)) (t : Tag F) :
    (run E.env (init F0 x0 C0) (ts ++ [t])).mat = (run E.env (init F0 x0 C0) [t]).mat := by
  rw [path_independent hL F0 x0 C0 hO ts t]
  exact (path_independent hL F0 x0 C0 hO [] t).symm

/-- **Converting back restores the original matrix** (whatever was visited in between). -/
theorem back_restores (hL : Laws E) (F0 : F) (x0 : n → ℝ) (C0 : Matrix n n ℝ) (hO : LocOrth E x0)
    (ts : List (Tag F)) : (run E.env (init F0 x0 C0) (ts ++ [.frame F0])).mat = C0 := by
  rw [path_independent hL F0 x0 C0 hO]; simp [Mt, hL.conv_self]

/-- **Eigenvalues of the position block are unchanged** along every sequence: the position block
of the result has the characteristic polynomial of the position block of `C0`. -/
theorem pos_block_spectrum {m : Type} [Fintype m] [DecidableEq m] {E : RealEnv F (m ⊕ m)} (hL : Laws E)
    (F0 : F) (x0 : m ⊕ m → ℝ) (C0 : Matrix (m ⊕ m) (m ⊕ m) ℝ) (hO : LocOrth E x0)
    (hconv : ∀ a b, PosShape (E.conv a b)) (hloc : ∀ k, PosShape (E.toLocal k x0))
    (ts : List (Tag F)) :
    ((run E.env (init F0 x0 C0) ts).mat.toBlocks₁₁).charpoly = C0.toBlocks₁₁.charpoly := by
  obtain ⟨_, _, _, h4⟩ := path_characterised hL F0 x0 C0 hO ts
  have hN : PosShape (Mt E F0 x0 (run E.env (init F0 x0 C0) ts).tag) := by
    cases (run E.env (init F0 x0 C0) ts).tag with
    | frame f => exact hconv _ _
    | loc k => exact hloc k
  rw [h4, pos_block_congruence _ _ hN.1, charpoly_orth_conj _ _ hN.2]

/-! ## The covariance follows its state -/

/-- **A covariance expressed in its state's frame follows that state**: whatever the covariance
went through before (`ts`), if it is now tagged with the frame of its state, `sv.frame = g` moves
it to `g` and its matrix is the single-hop value `M(F0→g) C0 M(F0→g)ᵀ`; a covariance tagged
otherwise (another frame, QSW/TNW) is left untouched. -/
theorem cov_follows_state (hL : Laws E) (F0 : F) (x0 : n → ℝ) (C0 : Matrix n n ℝ) (hO : LocOrth E x0)
    (ts : List (Tag F)) (svf g : F) :
    let v : Sv F (Matrix n n ℝ) (n → ℝ) := { frame := svf, cov := run E.env (init F0 x0 C0) ts }
    (svSetFrame E.env v g).frame = g ∧
    (v.cov.tag = .frame svf →
      (svSetFrame E.env v g).cov.tag = .frame g ∧
      (svSetFrame E.env v g).cov.mat = E.conv F0 g * C0 * (E.conv F0 g)ᵀ) ∧
    (v.cov.tag ≠ .frame svf → (svSetFrame E.env v g).cov = v.cov) := by
  intro v
  refine ⟨rfl, ?_, ?_⟩
  · intro htag
    have htag' : (run E.env (init F0 x0 C0) ts).tag = .frame svf := htag
    have hrun : (svSetFrame E.env v g).cov = run E.env (init F0 x0 C0) (ts ++ [.frame g]) := by
      unfold svSetFrame
      simp only [v]
      rw [if_pos htag']
      simp [run, List.foldl_append]
    rw [hrun]
    exact ⟨run_tag _ _ _ _, path_independent hL F0 x0 C0 hO ts _⟩
  · intro htag
    have htag' : ¬ (run E.env (init F0 x0 C0) ts).tag = .frame svf := htag
    unfold svSetFrame
    simp only [v]
    rw [if_neg htag']

/-- **`Cov.copy` is transparent** (before d229088 it re-based `_orb_frame` on the frame of the
re-framed private copy, `copy_rebases`): the copy of any reachable covariance has the same tag,
bookkeeping, private state and matrix, so every later conversion of the copy — in particular after
`sv.copy(frame=…)` — equals the one of the original. -/
theorem copy_transparent (hL : Laws E) (F0 : F) (x0 : n → ℝ) (C0 : Matrix n n ℝ) (hO : LocOrth E x0)
    (ts : List (Tag F)) : copy (run E.env (init F0 x0 C0) ts) = run E.env (init F0 x0 C0) ts := by
  have h := inv_run hL hO ts (inv_init hL F0 x0 C0)
  generalize run E.env (init F0 x0 C0) ts = s at h
  obtain ⟨tag, oF, oC, orb, mat⟩ := s
  have h1 := h.orbFrame
  have h2 := h.orbCur
  simp only at h1 h2
  simp [copy, h1, h2]

/-- `sv.copy(frame=g)` of a state whose covariance is tagged with the state's frame: the new
state is in `g` and carries the single-hop covariance; `sv.copy()` carries the same covariance. -/
theorem svCopy_follows (hL : Laws E) (F0 : F) (x0 : n → ℝ) (C0 : Matrix n n ℝ) (hO : LocOrth E x0)
    (ts : List (Tag F)) (svf g : F) (hne : g ≠ svf) (htag : (run E.env (init F0 x0 C0) ts).tag = .frame svf) :
    let v : Sv F (Matrix n n ℝ) (n → ℝ) := { frame := svf, cov := run E.env (init F0 x0 C0) ts }
    (svCopy E.env v none).cov = v.cov ∧ (svCopy E.env v (some g)).frame = g ∧
    (svCopy E.env v (some g)).cov.tag = .frame g ∧
    (svCopy E.env v (some g)).cov.mat = E.conv F0 g * C0 * (E.conv F0 g)ᵀ := by
  intro v
  have hc := copy_transparent hL F0 x0 C0 hO ts
  have hf := cov_follows_state hL F0 x0 C0 hO ts svf g
  simp only at hf
  have e : svCopy E.env v (some g) = svSetFrame E.env v g := by
    simp only [svCopy, v, hc, ne_eq, hne, not_false_eq_true, if_true]
  refine ⟨by simp only [svCopy, v, hc], ?_, ?_, ?_⟩
  · rw [e]; exact hf.1
  · rw [e]; exact (hf.2.1 htag).1
  · rw [e]; exact (hf.2.1 htag).2

/-! ## Which built-in frames are non-rotating (domain of the property), from the source -/

/-- one sweep over the links of orient.py: a frame joined by a *rate-free* link to a frame already
collected is collected too -/
def sweep (links : List (Nat × Nat × Bool)) (seen : List Nat) : List Nat :=
  links.foldl (fun acc l =>
    if l.2.2 then acc
    else if acc.contains l.1 && !acc.contains l.2.1 then acc ++ [l.2.1]
    else if acc.contains l.2.1 && !acc.contains l.1 then acc ++ [l.1]
    else acc) seen

def closure (links : List (Nat × Nat × Bool)) : Nat → List Nat → List Nat
  | 0, seen => seen
  | k + 1, seen => closure links k (sweep links seen)

/-- **The seven start frames of the property are exactly the built-in frames that are not rigidly
attached to the Earth-fixed frame**: in the orientation graph regenerated from orient.py, the frames
reachable from ITRF through links whose conversion carries no rotation rate are the rotating ones;
the list `NONROT` used by the harness is the complement. -/
theorem nonrotating_frames :
    ∀ i, i < Generated.covOrientNames.length →
      (Generated.claimedNonRotating.contains i ↔
        ¬ (closure Generated.covOrientLinks Generated.covOrientNames.length [Generated.itrfIndex]).contains i) := by
  decide +kernel

/-! ## The model is the source: the setter translated from the AST of cov.py on every run -/

/-- **The hand-written `setFrame` (what every theorem above and the driver are about) is the `Cov.frame` setter as
translated statement by statement from the Python AST** (Generated/CovSetter.lean, rewritten on every run by
`extract_setters`, which refuses any shape outside its grammar): a changed guard, branch condition, conversion direction,
product order or write in cov.py changes `setFrameGen` and this theorem stops compiling. -/
theorem setter_as_translated {F Mat Vec : Type} [DecidableEq F] (Env' : Env F Mat Vec) (s : St F Mat Vec) (t : Tag F) :
    Generated.CovSetter.setFrameGen Env' s t = setFrame Env' s t := by
  unfold Generated.CovSetter.setFrameGen setFrame hopMat m1 m2
  by_cases h : t = s.tag
  · simp [h]
  · simp only [h, if_false]
    cases s.tag <;> cases t <;> rfl

/-- **Who writes what** (attribute writes of the methods, from the AST): `_orb_frame` is set by `Cov.__new__` and carried
by `__array_finalize__`, and — since /repo eca9727 — by the `Cov.orb` setter that `sv.cov = c` goes through, right after
`_data["orb"]` (`Cov.attach` re-seats `orbFrame` together with the private copy for that reason; before, the list ended at
`self._data['orb']` and the model was `Cov.attachOld`); `Cov.copy` builds the copy from the private state copy. -/
theorem writes_as_modelled :
    Generated.CovSetter.newWrites = ["obj._data", "obj._frame", "obj.orb", "obj._orb_frame"] ∧
    Generated.CovSetter.orbSetterWrites = ["del orb.cov", "self._data['orb']", "self._orb_frame"] ∧
    Generated.CovSetter.svCovSetterWrites = ["self._data['cov']", "self._data['cov'].orb"] ∧
    Generated.CovSetter.finalizeWrites = ["self._data", "self._orb_frame"] ∧
    Generated.CovSetter.copyBody = ["new = self.__class__(self.orb, np.array(self), frame=self.frame)",
      "if frame is not None:\n    new.frame = frame", "return new"] := by decide

/-! ## Non-vacuity: a concrete environment meeting every hypothesis -/

section nonvacuity

/-- two frames related by a quarter turn of the plane; `to_local` a fixed rotation -/
def quarter : Matrix (Fin 2) (Fin 2) ℝ := !![0, 1; -1, 0]

def exEnv : RealEnv Bool (Fin 2) where
  conv a b := if a = b then 1 else if b then quarter else quarterᵀ
  toLocal _ _ := quarter

theorem quarter_orth : quarterᵀ * quarter = 1 ∧ quarter * quarterᵀ = 1 := by
  constructor <;> · ext i j; fin_cases i <;> fin_cases j <;> simp [quarter, Matrix.mul_apply, Fin.sum_univ_two]

theorem exEnv_laws : Laws exEnv := by
  refine ⟨fun a => by simp [exEnv], fun a b c => ?_⟩
  cases a <;> cases b <;> cases c <;> simp [exEnv, quarter_orth.1, quarter_orth.2]

theorem exEnv_locOrth (x0 : Fin 2 → ℝ) : LocOrth exEnv x0 := fun _ => quarter_orth.1

/-- the hypotheses of `path_characterised`, `path_independent`, `back_restores`,
`cov_follows_state`, `copy_transparent` are met by `exEnv` with a non-identity conversion -/
example : Laws exEnv ∧ LocOrth exEnv ![1, 0] ∧ exEnv.conv false true ≠ 1 := by
  refine ⟨exEnv_laws, exEnv_locOrth _, ?_⟩
  intro h
  have := congrFun (congrFun h 0) 0
  simp [exEnv, quarter] at this

example (C0 : Matrix (Fin 2) (Fin 2) ℝ) :
    (run exEnv.env (init false ![1, 0] C0) [.loc .qsw, .frame true, .loc .tnw, .frame false]).mat = C0 :=
  back_restores exEnv_laws false _ C0 (exEnv_locOrth _) [.loc .qsw, .frame true, .loc .tnw]

/-- hypotheses of `pos_block_spectrum`: a family of conversions with a velocity ← position
coupling (as `expand(m, rate)` has), position block the identity -/
def shear (r : ℝ) : Matrix (Fin 1 ⊕ Fin 1) (Fin 1 ⊕ Fin 1) ℝ := fromBlocks 1 0 (r • 1) 1

def exEnv2 : RealEnv ℤ (Fin 1 ⊕ Fin 1) where
  conv a b := shear ((b : ℝ) - a)
  toLocal _ _ := 1

theorem shear_mul (r t : ℝ) : shear r * shear t = shear (r + t) := by
  simp [shear, fromBlocks_multiply, add_smul, add_comm]

theorem exEnv2_laws : Laws exEnv2 := by
  refine ⟨fun a => ?_, fun a b c => ?_⟩
  · simp [exEnv2, shear, fromBlocks_one]
  · simp only [exEnv2, shear_mul]; congr 1; ring

example (x0 : Fin 1 ⊕ Fin 1 → ℝ) (C0 : Matrix (Fin 1 ⊕ Fin 1) (Fin 1 ⊕ Fin 1) ℝ) (ts : List (Tag ℤ)) :
    ((run exEnv2.env (init 0 x0 C0) ts).mat.toBlocks₁₁).charpoly = C0.toBlocks₁₁.charpoly :=
  pos_block_spectrum exEnv2_laws 0 x0 C0 (fun _ => by simp [exEnv2])
    (fun a b => by simp [PosShape, exEnv2, shear]) (fun _ => by
      unfold PosShape; simp only [exEnv2, ← fromBlocks_one, toBlocks_fromBlocks₁₂, toBlocks_fromBlocks₁₁]; simp) ts

end nonvacuity

end BeyondVerif.C14
