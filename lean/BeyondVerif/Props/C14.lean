import BeyondVerif.Model.Cov
import BeyondVerif.Generated.Frames
import BeyondVerif.Lemmas.Local
import Mathlib.LinearAlgebra.Matrix.PosDef
import Mathlib.Algebra.Order.Star.Real
import Mathlib.LinearAlgebra.Matrix.Charpoly.Basic
import Mathlib.Data.Matrix.Block
import Mathlib.LinearAlgebra.Matrix.Notation
import Mathlib.Tactic.FinCases
import Mathlib.Tactic.Ring

/-!
# C14 — covariance frame changes are pure, path-independent rotations

Theorems about `BeyondVerif.Cov` (Model/Cov.lean: the state machine of `Cov.frame` setter,
`Cov.copy`, `StateVector.frame` setter) instantiated with real matrices.  The very same generic
definitions, instantiated with floats, are what the driver runs against the real `Cov` class.

The conversion matrices `conv a b` (orientation `a` → `b` at the date of the state) and `toLocal`
are parameters; what is assumed about them is stated explicitly (`Laws`, `LocOrth`, `PosShape`)
and is C02's / `local_orthonormal`'s conclusion.
-/
namespace BeyondVerif.C14
open BeyondVerif.Cov Matrix

set_option linter.unusedSectionVars false

variable {F : Type} [DecidableEq F] {n : Type} [Fintype n] [DecidableEq n]

/-- the numeric parameters of the model: orientation conversions and `to_local` -/
structure RealEnv (F n : Type) where
  conv : F → F → Matrix n n ℝ
  toLocal : Loc → (n → ℝ) → Matrix n n ℝ

/-- the model environment over Mathlib's real matrices -/
def RealEnv.env (E : RealEnv F n) : Env F (Matrix n n ℝ) (n → ℝ) where
  conv := E.conv
  toLocal := E.toLocal
  mul := (· * ·)
  tr := transpose
  one := 1
  apply := mulVec

/-- consistency of the orientation conversions (C02): identity and composition -/
structure Laws (E : RealEnv F n) : Prop where
  conv_self : ∀ a, E.conv a a = 1
  conv_comp : ∀ a b c, E.conv b c * E.conv a b = E.conv a c

variable (E : RealEnv F n)

/-- the matrix of one assignment `cov.frame = t` (identity when `t` is the current tag) -/
def hopM (s : St F (Matrix n n ℝ) (n → ℝ)) (t : Tag F) : Matrix n n ℝ :=
  if t = s.tag then 1 else hopMat E.env s t

omit [Fintype n] [DecidableEq n] in
@[simp] theorem reframeOrb_mat (E : Env F (Matrix n n ℝ) (n → ℝ)) (s : St F (Matrix n n ℝ) (n → ℝ)) (f : F) :
    (reframeOrb E s f).mat = s.mat ∧ (reframeOrb E s f).tag = s.tag ∧ (reframeOrb E s f).orbFrame = s.orbFrame := by
  unfold reframeOrb; split <;> simp

/-- **Each hop is a congruence** `C ↦ M C Mᵀ` with `M = m2 · m1` of the setter. -/
theorem hop_congruence (s : St F (Matrix n n ℝ) (n → ℝ)) (t : Tag F) :
    (setFrame E.env s t).mat = hopM E s t * s.mat * (hopM E s t)ᵀ := by
  unfold setFrame hopM
  by_cases h : t = s.tag
  · simp [h]
  · simp only [h, if_false]
    cases t with
    | loc k => rfl
    | frame f => simp only [(reframeOrb_mat _ _ _).1]; rfl

/-- any predicate on matrices that is closed under congruence survives every sequence of hops -/
theorem run_closed (P : Matrix n n ℝ → Prop) (hP : ∀ M C, P C → P (M * C * Mᵀ))
    (s : St F (Matrix n n ℝ) (n → ℝ)) (ts : List (Tag F)) (h : P s.mat) : P (run E.env s ts).mat := by
  induction ts generalizing s with
  | nil => exact h
  | cons t ts ih =>
    simp only [run, List.foldl_cons] at ih ⊢
    exact ih _ (by rw [hop_congruence]; exact hP _ _ h)

/-- **Symmetry is preserved** by every sequence of frame changes. -/
theorem symm_preserved (s : St F (Matrix n n ℝ) (n → ℝ)) (ts : List (Tag F)) (h : s.mat.IsSymm) :
    (run E.env s ts).mat.IsSymm := by
  refine run_closed E (fun C => C.IsSymm) ?_ s ts h
  intro M C hC
  unfold Matrix.IsSymm at *
  rw [transpose_mul, transpose_mul, transpose_transpose, hC, Matrix.mul_assoc]

/-- **Positive semi-definiteness is preserved** by every sequence of frame changes
(`xᵀ M C Mᵀ x = (Mᵀx)ᵀ C (Mᵀx) ≥ 0`). -/
theorem psd_preserved (s : St F (Matrix n n ℝ) (n → ℝ)) (ts : List (Tag F)) (h : s.mat.PosSemidef) :
    (run E.env s ts).mat.PosSemidef := by
  refine run_closed E (fun C => C.PosSemidef) ?_ s ts h
  intro M C hC
  have := hC.mul_mul_conjTranspose_same M
  rwa [conjTranspose_eq_transpose_of_trivial] at this

example : (1 : Matrix (Fin 2) (Fin 2) ℝ).PosSemidef ∧ (1 : Matrix (Fin 2) (Fin 2) ℝ).IsSymm :=
  ⟨Matrix.PosSemidef.one, Matrix.isSymm_one⟩

/-! ## Position block -/

section posblock
variable {m : Type} [Fintype m] [DecidableEq m]

/-- shape of `expand(m, rate)`: no velocity → position coupling, orthogonal position block -/
def PosShape (M : Matrix (m ⊕ m) (m ⊕ m) ℝ) : Prop :=
  M.toBlocks₁₂ = 0 ∧ M.toBlocks₁₁ * (M.toBlocks₁₁)ᵀ = 1

/-- the position block of `M C Mᵀ` is `A C_pp Aᵀ`, `A` the position block of `M` -/
theorem pos_block_congruence (M C : Matrix (m ⊕ m) (m ⊕ m) ℝ) (h : M.toBlocks₁₂ = 0) :
    (M * C * Mᵀ).toBlocks₁₁ = M.toBlocks₁₁ * C.toBlocks₁₁ * (M.toBlocks₁₁)ᵀ := by
  conv_lhs => rw [← fromBlocks_toBlocks M, ← fromBlocks_toBlocks C, h]
  rw [fromBlocks_transpose, fromBlocks_multiply, fromBlocks_multiply, toBlocks_fromBlocks₁₁]
  simp

/-- conjugation by an orthogonal matrix keeps the characteristic polynomial -/
theorem charpoly_orth_conj (A C : Matrix m m ℝ) (h : A * Aᵀ = 1) : (A * C * Aᵀ).charpoly = C.charpoly := by
  have h' : Aᵀ * A = 1 := mul_eq_one_comm.mp h
  rw [Matrix.charpoly_mul_comm, ← Matrix.mul_assoc, h', Matrix.one_mul]

end posblock

/-! ## All sequences: what the current code computes -/

/-- the state right after `Cov(sv, C0, sv.frame)` for a state `x0` given in frame `F0` -/
def init (F0 : F) (x0 : n → ℝ) (C0 : Matrix n n ℝ) : St F (Matrix n n ℝ) (n → ℝ) :=
  St.new F0 x0 (.frame F0) C0

/-- the matrix the code has applied to `C0` in state `s`: the conversion from the original frame
for a frame tag, `to_local` **of the private copy as it is now** for a local tag -/
def Nmat (F0 : F) (s : St F (Matrix n n ℝ) (n → ℝ)) : Matrix n n ℝ :=
  match s.tag with
  | .frame f => E.conv F0 f
  | .loc k => E.toLocal k s.orb

/-- `to_local` is an orthogonal matrix on every re-framed image of the original state -/
def LocOrth (F0 : F) (x0 : n → ℝ) : Prop :=
  ∀ k g, (E.toLocal k (E.conv F0 g *ᵥ x0))ᵀ * E.toLocal k (E.conv F0 g *ᵥ x0) = 1

/-- invariant of every reachable state -/
structure Inv (F0 : F) (x0 : n → ℝ) (C0 : Matrix n n ℝ) (s : St F (Matrix n n ℝ) (n → ℝ)) : Prop where
  orbFrame : s.orbFrame = F0
  cur : ∀ f, s.tag = .frame f → s.orbCur = f
  orb : s.orb = E.conv F0 s.orbCur *ᵥ x0
  mat : s.mat = Nmat E F0 s * C0 * (Nmat E F0 s)ᵀ

variable {E}

theorem inv_init (hL : Laws E) (F0 : F) (x0 : n → ℝ) (C0 : Matrix n n ℝ) : Inv E F0 x0 C0 (init F0 x0 C0) := by
  refine ⟨rfl, ?_, ?_, ?_⟩
  · intro f h; simp only [init, St.new, Tag.frame.injEq] at h; simp [init, St.new, h]
  · simp [init, St.new, hL.conv_self]
  · simp [init, St.new, Nmat, hL.conv_self]

theorem m1_mul_N (hL : Laws E) {F0 : F} {x0 : n → ℝ} {C0 : Matrix n n ℝ} (hO : LocOrth E F0 x0)
    {s : St F (Matrix n n ℝ) (n → ℝ)} (hs : Inv E F0 x0 C0 s) : m1 E.env s * Nmat E F0 s = 1 := by
  unfold m1 Nmat
  cases htag : s.tag with
  | loc k =>
    simp only [RealEnv.env]
    rw [hs.orb]; exact hO k _
  | frame f =>
    simp only [RealEnv.env, hs.orbFrame]
    by_cases hf : f = F0
    · simp [hf, hL.conv_self]
    · simp only [ne_eq, hf, not_false_eq_true, if_true]
      rw [hL.conv_comp, hL.conv_self]

theorem inv_setFrame (hL : Laws E) {F0 : F} {x0 : n → ℝ} {C0 : Matrix n n ℝ} (hO : LocOrth E F0 x0)
    {s : St F (Matrix n n ℝ) (n → ℝ)} (hs : Inv E F0 x0 C0 s) (t : Tag F) : Inv E F0 x0 C0 (setFrame E.env s t) := by
  unfold setFrame
  by_cases h : t = s.tag
  · simpa [h] using hs
  · simp only [h, if_false]
    have key : ∀ N' : Matrix n n ℝ, m2 E.env s t = N' →
        (hopMat E.env s t * s.mat * (hopMat E.env s t)ᵀ) = N' * C0 * N'ᵀ := by
      intro N' hN'
      have h1 : hopMat E.env s t * Nmat E F0 s = N' := by
        show (m2 E.env s t * m1 E.env s) * Nmat E F0 s = N'
        rw [Matrix.mul_assoc, m1_mul_N hL hO hs, Matrix.mul_one, hN']
      rw [hs.mat, ← h1]
      simp only [transpose_mul, Matrix.mul_assoc]
    cases t with
    | loc k =>
      refine ⟨hs.orbFrame, ?_, hs.orb, ?_⟩
      · intro f hf; simp at hf
      · exact key _ rfl
    | frame g =>
      have hm2 : m2 E.env s (.frame g) = E.conv F0 g := by
        unfold m2; simp only [RealEnv.env, hs.orbFrame]
        by_cases hg : F0 = g
        · simp [hg, hL.conv_self]
        · simp [hg]
      unfold reframeOrb
      by_cases hc : g = s.orbCur
      · simp only [hc, ne_eq, not_true_eq_false, if_false]
        refine ⟨hs.orbFrame, ?_, hs.orb, ?_⟩
        · intro f hf; simp only [Tag.frame.injEq] at hf; exact hf
        · show _ = E.conv F0 s.orbCur * C0 * (E.conv F0 s.orbCur)ᵀ
          have := key _ hm2; rw [hc] at this; exact this
      · simp only [ne_eq, hc, not_false_eq_true, if_true]
        refine ⟨hs.orbFrame, ?_, ?_, ?_⟩
        · intro f hf; simp only [Tag.frame.injEq] at hf; exact hf
        · simp only [RealEnv.env]
          rw [hs.orb, mulVec_mulVec, hL.conv_comp]
        · show _ = E.conv F0 g * C0 * (E.conv F0 g)ᵀ
          exact key _ hm2

omit [Fintype n] [DecidableEq n] in
theorem setFrame_orbCur_frame (Env' : Env F (Matrix n n ℝ) (n → ℝ)) (s : St F (Matrix n n ℝ) (n → ℝ)) (g : F)
    (h : Tag.frame g ≠ s.tag) : (setFrame Env' s (.frame g)).orbCur = g := by
  unfold setFrame
  rw [if_neg h]
  show (reframeOrb Env' _ g).orbCur = g
  unfold reframeOrb
  split
  · rfl
  · rename_i hc; exact (not_not.mp hc).symm

/-- the frame the private copy ends up in: the last non-local target (or where it started) -/
def lastFrame (f : F) : List (Tag F) → F
  | [] => f
  | .frame g :: r => lastFrame g r
  | .loc _ :: r => lastFrame f r

/-- after any non-empty sequence the tag is the last target -/
theorem run_tag (Env' : Env F (Matrix n n ℝ) (n → ℝ)) (s : St F (Matrix n n ℝ) (n → ℝ)) (ts : List (Tag F)) (t : Tag F) :
    (run Env' s (ts ++ [t])).tag = t := by
  simp only [run, List.foldl_append, List.foldl_cons, List.foldl_nil]
  generalize List.foldl (setFrame Env') s ts = s'
  unfold setFrame
  by_cases h : t = s'.tag
  · simp [h]
  · simp only [h, if_false]
    cases t with
    | loc k => rfl
    | frame f => exact (reframeOrb_mat _ _ _).2.1

/-- **What the code computes, for every sequence of targets**: starting from a covariance `C0`
expressed in the frame `F0` of its state `x0`, after the targets `ts` the matrix is `N C0 Nᵀ` where
`N` is the conversion `F0 → f` when the current tag is the frame `f`, and — for a QSW/TNW tag —
`to_local` of the original state **re-expressed in the last non-local frame visited**
(`lastFrame F0 ts`), not of the original inertial state. -/
theorem path_characterised (hL : Laws E) (F0 : F) (x0 : n → ℝ) (C0 : Matrix n n ℝ) (hO : LocOrth E F0 x0)
    (ts : List (Tag F)) :
    let s := run E.env (init F0 x0 C0) ts
    s.orbFrame = F0 ∧ s.orbCur = lastFrame F0 ts ∧ s.orb = E.conv F0 (lastFrame F0 ts) *ᵥ x0 ∧
      s.mat = Nmat E F0 s * C0 * (Nmat E F0 s)ᵀ := by
  have hinv : ∀ (ts : List (Tag F)) (s : St F (Matrix n n ℝ) (n → ℝ)), Inv E F0 x0 C0 s →
      Inv E F0 x0 C0 (run E.env s ts) ∧ (run E.env s ts).orbCur = lastFrame s.orbCur ts := by
    intro ts
    induction ts with
    | nil => intro s hs; exact ⟨hs, rfl⟩
    | cons t ts ih =>
      intro s hs
      have hs' := inv_setFrame hL hO hs t
      obtain ⟨h1, h2⟩ := ih _ hs'
      refine ⟨h1, ?_⟩
      simp only [run, List.foldl_cons] at h2 ⊢
      rw [h2]
      -- orbCur after one hop
      cases t with
      | loc k =>
        have : (setFrame E.env s (.loc k)).orbCur = s.orbCur := by
          unfold setFrame; by_cases h : Tag.loc k = s.tag <;> simp [h]
        rw [this]; rfl
      | frame g =>
        have : (setFrame E.env s (.frame g)).orbCur = g := by
          by_cases h : Tag.frame g = s.tag
          · have := hs.cur g h.symm
            unfold setFrame; simp [h, this]
          · exact setFrame_orbCur_frame _ _ _ h
        rw [this]; rfl
  obtain ⟨h1, h2⟩ := hinv ts _ (inv_init hL F0 x0 C0)
  refine ⟨h1.orbFrame, h2, ?_, h1.mat⟩
  rw [h1.orb, h2]; rfl

/-- the matrix the property requires for target `t`: it depends on `t` and on the original state only -/
def Mt (E : RealEnv F n) (F0 : F) (x0 : n → ℝ) : Tag F → Matrix n n ℝ
  | .frame f => E.conv F0 f
  | .loc k => E.toLocal k x0

/-
Full statement (FALSE of the current code, see Witness/C14.lean `local_after_reframe_differs`):

theorem path_independent (ts : List (Tag F)) (t : Tag F) :
    (run E.env (init F0 x0 C0) (ts ++ [t])).mat = Mt E F0 x0 t * C0 * (Mt E F0 x0 t)ᵀ

What is missing: for `t = .loc k` with `lastFrame F0 ts ≠ F0` the code uses
`toLocal k (conv F0 (lastFrame F0 ts) *ᵥ x0)` instead of `toLocal k x0` (`path_characterised`).
-/

/-- **Path independence, the part that holds of the current code**: the result depends only on
the last target and the original state whenever the last target is a frame, or is QSW/TNW and the
last non-local frame visited before is the original one (in particular: no frame visited). -/
theorem path_independent_partial (hL : Laws E) (F0 : F) (x0 : n → ℝ) (C0 : Matrix n n ℝ) (hO : LocOrth E F0 x0)
    (ts : List (Tag F)) (t : Tag F) (h : (∃ f, t = .frame f) ∨ lastFrame F0 ts = F0) :
    (run E.env (init F0 x0 C0) (ts ++ [t])).mat = Mt E F0 x0 t * C0 * (Mt E F0 x0 t)ᵀ := by
  obtain ⟨_, _, h3, h4⟩ := path_characterised hL F0 x0 C0 hO (ts ++ [t])
  have htag := run_tag E.env (init F0 x0 C0) ts t
  have hN : Nmat E F0 (run E.env (init F0 x0 C0) (ts ++ [t])) = Mt E F0 x0 t := by
    unfold Nmat; rw [htag]
    cases t with
    | frame f => rfl
    | loc k =>
      simp only [Mt]
      rcases h with ⟨f, hf⟩ | h
      · simp at hf
      · rw [h3]
        have : lastFrame F0 (ts ++ [Tag.loc k]) = F0 := by
          have aux : ∀ (l : List (Tag F)) (f : F), lastFrame f (l ++ [Tag.loc k]) = lastFrame f l := by
            intro l; induction l with
            | nil => intro f; rfl
            | cons a l ih => intro f; cases a <;> simp [lastFrame, ih]
          rw [aux, h]
        rw [this, hL.conv_self, one_mulVec]
  rw [h4, hN]

/-- **Converting back restores the original matrix** (whatever was visited in between). -/
theorem back_restores (hL : Laws E) (F0 : F) (x0 : n → ℝ) (C0 : Matrix n n ℝ) (hO : LocOrth E F0 x0)
    (ts : List (Tag F)) : (run E.env (init F0 x0 C0) (ts ++ [.frame F0])).mat = C0 := by
  rw [path_independent_partial hL F0 x0 C0 hO ts _ (Or.inl ⟨F0, rfl⟩)]
  simp [Mt, hL.conv_self]

/-- **Eigenvalues of the position block are unchanged** along every sequence: the position block
of the result has the characteristic polynomial of the position block of `C0`. -/
theorem pos_block_spectrum {m : Type} [Fintype m] [DecidableEq m] {E : RealEnv F (m ⊕ m)} (hL : Laws E)
    (F0 : F) (x0 : m ⊕ m → ℝ) (C0 : Matrix (m ⊕ m) (m ⊕ m) ℝ) (hO : LocOrth E F0 x0)
    (hconv : ∀ a b, PosShape (E.conv a b)) (hloc : ∀ k g, PosShape (E.toLocal k (E.conv F0 g *ᵥ x0)))
    (ts : List (Tag F)) :
    ((run E.env (init F0 x0 C0) ts).mat.toBlocks₁₁).charpoly = C0.toBlocks₁₁.charpoly := by
  obtain ⟨_, _, h3, h4⟩ := path_characterised hL F0 x0 C0 hO ts
  have hN : PosShape (Nmat E F0 (run E.env (init F0 x0 C0) ts)) := by
    unfold Nmat
    cases (run E.env (init F0 x0 C0) ts).tag with
    | frame f => exact hconv _ _
    | loc k => simp only; rw [h3]; exact hloc _ _
  rw [h4, pos_block_congruence _ _ hN.1, charpoly_orth_conj _ _ hN.2]

/-! ## The repaired setter (proposed_fixes/C14-cov-private-copy-reframed.diff) -/

/-- **Path independence holds for every sequence once the private copy is no longer re-framed.** -/
theorem path_independent_fixed (hL : Laws E) (F0 : F) (x0 : n → ℝ) (C0 : Matrix n n ℝ)
    (hO : ∀ k, (E.toLocal k x0)ᵀ * E.toLocal k x0 = 1) (ts : List (Tag F)) (t : Tag F) :
    (runFixed E.env (init F0 x0 C0) (ts ++ [t])).mat = Mt E F0 x0 t * C0 * (Mt E F0 x0 t)ᵀ := by
  have hstep : ∀ (s : St F (Matrix n n ℝ) (n → ℝ)) (t : Tag F),
      (s.orbFrame = F0 ∧ s.orb = x0 ∧ s.mat = Mt E F0 x0 s.tag * C0 * (Mt E F0 x0 s.tag)ᵀ) →
      ((setFrameFixed E.env s t).orbFrame = F0 ∧ (setFrameFixed E.env s t).orb = x0 ∧
        (setFrameFixed E.env s t).tag = t ∧
        (setFrameFixed E.env s t).mat = Mt E F0 x0 t * C0 * (Mt E F0 x0 t)ᵀ) := by
    intro s t ⟨h1, h2, h3⟩
    unfold setFrameFixed
    by_cases h : t = s.tag
    · rw [if_pos h]; exact ⟨h1, h2, h.symm, h ▸ h3⟩
    · rw [if_neg h]
      refine ⟨h1, h2, rfl, ?_⟩
      have hm1 : m1 E.env s * Mt E F0 x0 s.tag = 1 := by
        unfold m1
        cases hs : s.tag with
        | loc k => simp only [RealEnv.env, Mt, h2]; exact hO k
        | frame f =>
          simp only [RealEnv.env, Mt, h1]
          by_cases hf : f = F0
          · simp [hf, hL.conv_self]
          · simp only [ne_eq, hf, not_false_eq_true, if_true]; rw [hL.conv_comp, hL.conv_self]
      have hm2 : m2 E.env s t = Mt E F0 x0 t := by
        unfold m2
        cases t with
        | loc k => simp only [RealEnv.env, Mt, h2]
        | frame g =>
          simp only [RealEnv.env, Mt, h1]
          by_cases hg : F0 = g
          · simp [hg, hL.conv_self]
          · simp [hg]
      have h4 : hopMat E.env s t * Mt E F0 x0 s.tag = Mt E F0 x0 t := by
        show (m2 E.env s t * m1 E.env s) * _ = _
        rw [Matrix.mul_assoc, hm1, Matrix.mul_one, hm2]
      show hopMat E.env s t * s.mat * (hopMat E.env s t)ᵀ = _
      rw [h3, ← h4]; simp only [transpose_mul, Matrix.mul_assoc]
  have hrun : ∀ (ts : List (Tag F)) (s : St F (Matrix n n ℝ) (n → ℝ)),
      (s.orbFrame = F0 ∧ s.orb = x0 ∧ s.mat = Mt E F0 x0 s.tag * C0 * (Mt E F0 x0 s.tag)ᵀ) →
      ((runFixed E.env s ts).orbFrame = F0 ∧ (runFixed E.env s ts).orb = x0 ∧
        (runFixed E.env s ts).mat = Mt E F0 x0 (runFixed E.env s ts).tag * C0 * (Mt E F0 x0 (runFixed E.env s ts).tag)ᵀ) := by
    intro ts
    induction ts with
    | nil => intro s hs; exact hs
    | cons a ts ih =>
      intro s hs
      obtain ⟨a1, a2, a3, a4⟩ := hstep s a hs
      simp only [runFixed, List.foldl_cons]
      exact ih _ ⟨a1, a2, by rw [a3]; exact a4⟩
  have h0 : (init F0 x0 C0).orbFrame = F0 ∧ (init F0 x0 C0).orb = x0 ∧
      (init F0 x0 C0).mat = Mt E F0 x0 (init F0 x0 C0).tag * C0 * (Mt E F0 x0 (init F0 x0 C0).tag)ᵀ := by
    simp [init, St.new, Mt, hL.conv_self]
  have hmid := hrun ts _ h0
  simp only [runFixed, List.foldl_append, List.foldl_cons, List.foldl_nil]
  exact (hstep _ t hmid).2.2.2

/-- back conversion in the repaired model -/
theorem back_restores_fixed (hL : Laws E) (F0 : F) (x0 : n → ℝ) (C0 : Matrix n n ℝ)
    (hO : ∀ k, (E.toLocal k x0)ᵀ * E.toLocal k x0 = 1) (ts : List (Tag F)) :
    (runFixed E.env (init F0 x0 C0) (ts ++ [.frame F0])).mat = C0 := by
  rw [path_independent_fixed hL F0 x0 C0 hO]; simp [Mt, hL.conv_self]

/-! ## The covariance follows its state -/

/-- **A covariance expressed in its state's frame follows that state**: whatever the covariance
went through before (`ts`), if it is now tagged with the frame of its state, `sv.frame = g` moves
it to `g` and its matrix is the single-hop value `M(F0→g) C0 M(F0→g)ᵀ`; a covariance tagged
otherwise (another frame, QSW/TNW) is left untouched. -/
theorem cov_follows_state (hL : Laws E) (F0 : F) (x0 : n → ℝ) (C0 : Matrix n n ℝ) (hO : LocOrth E F0 x0)
    (ts : List (Tag F)) (svf g : F) :
    let v : Sv F (Matrix n n ℝ) (n → ℝ) := { frame := svf, cov := run E.env (init F0 x0 C0) ts }
    (svSetFrame E.env v g).frame = g ∧
    (v.cov.tag = .frame svf →
      (svSetFrame E.env v g).cov.tag = .frame g ∧
      (svSetFrame E.env v g).cov.mat = E.conv F0 g * C0 * (E.conv F0 g)ᵀ) ∧
    (v.cov.tag ≠ .frame svf → (svSetFrame E.env v g).cov = v.cov) := by
  intro v
  refine ⟨rfl, ?_, ?_⟩
  · intro htag
    have htag' : (run E.env (init F0 x0 C0) ts).tag = .frame svf := htag
    have hrun : (svSetFrame E.env v g).cov = run E.env (init F0 x0 C0) (ts ++ [.frame g]) := by
      unfold svSetFrame
      simp only [v]
      rw [if_pos htag']
      simp [run, List.foldl_append]
    rw [hrun]
    exact ⟨run_tag _ _ _ _, path_independent_partial hL F0 x0 C0 hO ts _ (Or.inl ⟨g, rfl⟩)⟩
  · intro htag
    have htag' : ¬ (run E.env (init F0 x0 C0) ts).tag = .frame svf := htag
    unfold svSetFrame
    simp only [v]
    rw [if_neg htag']

/-- **`Cov.copy` / `sv.copy()` of a covariance tagged with a frame** is exactly a fresh covariance
attached to the re-framed state: `_orb_frame` is re-based on the frame of the private copy. -/
theorem copy_rebases (hL : Laws E) (F0 : F) (x0 : n → ℝ) (C0 : Matrix n n ℝ) (hO : LocOrth E F0 x0)
    (ts : List (Tag F)) (f : F) (h : (run E.env (init F0 x0 C0) ts).tag = .frame f) :
    copy (run E.env (init F0 x0 C0) ts) =
      init f (E.conv F0 f *ᵥ x0) (E.conv F0 f * C0 * (E.conv F0 f)ᵀ) := by
  have hinv : ∀ (ts : List (Tag F)) (s : St F (Matrix n n ℝ) (n → ℝ)), Inv E F0 x0 C0 s → Inv E F0 x0 C0 (run E.env s ts) := by
    intro ts; induction ts with
    | nil => intro s hs; exact hs
    | cons t ts ih => intro s hs; exact ih _ (inv_setFrame hL hO hs t)
  have hs := hinv ts _ (inv_init hL F0 x0 C0)
  generalize run E.env (init F0 x0 C0) ts = s at hs h
  have hc := hs.cur f h
  obtain ⟨tag, oF, oC, orb, mat⟩ := s
  simp only at h hc
  have h3 := hs.orb
  have h4 := hs.mat
  simp only [Nmat, h, hc] at h3 h4
  simp [copy, init, St.new, h, hc, h3, h4]


/-! ## Which built-in frames are non-rotating (domain of the property), from the source -/

/-- one sweep over the links of orient.py: a frame joined by a *rate-free* link to a frame already
collected is collected too -/
def sweep (links : List (Nat × Nat × Bool)) (seen : List Nat) : List Nat :=
  links.foldl (fun acc l =>
    if l.2.2 then acc
    else if acc.contains l.1 && !acc.contains l.2.1 then acc ++ [l.2.1]
    else if acc.contains l.2.1 && !acc.contains l.1 then acc ++ [l.1]
    else acc) seen

def closure (links : List (Nat × Nat × Bool)) : Nat → List Nat → List Nat
  | 0, seen => seen
  | k + 1, seen => closure links k (sweep links seen)

/-- **The seven start frames of the property are exactly the built-in frames that are not rigidly
attached to the Earth-fixed frame**: in the orientation graph regenerated from orient.py, the frames
reachable from ITRF through links whose conversion carries no rotation rate are the rotating ones;
the list `NONROT` used by the harness is the complement. -/
theorem nonrotating_frames :
    ∀ i, i < Generated.orientNames.length →
      (Generated.claimedNonRotating.contains i ↔
        ¬ (closure Generated.orientLinks Generated.orientNames.length [Generated.itrfIndex]).contains i) := by
  decide +kernel

/-! ## Non-vacuity: a concrete environment meeting every hypothesis -/

section nonvacuity

/-- two frames related by a quarter turn of the plane; `to_local` a fixed rotation -/
def quarter : Matrix (Fin 2) (Fin 2) ℝ := !![0, 1; -1, 0]

def exEnv : RealEnv Bool (Fin 2) where
  conv a b := if a = b then 1 else if b then quarter else quarterᵀ
  toLocal _ _ := quarter

theorem quarter_orth : quarterᵀ * quarter = 1 ∧ quarter * quarterᵀ = 1 := by
  constructor <;> · ext i j; fin_cases i <;> fin_cases j <;> simp [quarter, Matrix.mul_apply, Fin.sum_univ_two]

theorem exEnv_laws : Laws exEnv := by
  refine ⟨fun a => by simp [exEnv], fun a b c => ?_⟩
  cases a <;> cases b <;> cases c <;> simp [exEnv, quarter_orth.1, quarter_orth.2]

theorem exEnv_locOrth (x0 : Fin 2 → ℝ) : LocOrth exEnv false x0 := fun _ _ => quarter_orth.1

/-- the hypotheses of `path_characterised`, `path_independent_partial`, `back_restores`,
`cov_follows_state`, `copy_rebases` are met by `exEnv` with a non-identity conversion -/
example : Laws exEnv ∧ LocOrth exEnv false ![1, 0] ∧ exEnv.conv false true ≠ 1 := by
  refine ⟨exEnv_laws, exEnv_locOrth _, ?_⟩
  intro h
  have := congrFun (congrFun h 0) 0
  simp [exEnv, quarter] at this

example (C0 : Matrix (Fin 2) (Fin 2) ℝ) :
    (run exEnv.env (init false ![1, 0] C0) [.loc .qsw, .frame true, .loc .tnw, .frame false]).mat = C0 :=
  back_restores exEnv_laws false _ C0 (exEnv_locOrth _) [.loc .qsw, .frame true, .loc .tnw]

/-- hypotheses of `pos_block_spectrum`: a family of conversions with a velocity ← position
coupling (as `expand(m, rate)` has), position block the identity -/
def shear (r : ℝ) : Matrix (Fin 1 ⊕ Fin 1) (Fin 1 ⊕ Fin 1) ℝ := fromBlocks 1 0 (r • 1) 1

def exEnv2 : RealEnv ℤ (Fin 1 ⊕ Fin 1) where
  conv a b := shear ((b : ℝ) - a)
  toLocal _ _ := 1

theorem shear_mul (r t : ℝ) : shear r * shear t = shear (r + t) := by
  simp [shear, fromBlocks_multiply, add_smul, add_comm]

theorem exEnv2_laws : Laws exEnv2 := by
  refine ⟨fun a => ?_, fun a b c => ?_⟩
  · simp [exEnv2, shear, fromBlocks_one]
  · simp only [exEnv2, shear_mul]; congr 1; ring

example (x0 : Fin 1 ⊕ Fin 1 → ℝ) (C0 : Matrix (Fin 1 ⊕ Fin 1) (Fin 1 ⊕ Fin 1) ℝ) (ts : List (Tag ℤ)) :
    ((run exEnv2.env (init 0 x0 C0) ts).mat.toBlocks₁₁).charpoly = C0.toBlocks₁₁.charpoly :=
  pos_block_spectrum exEnv2_laws 0 x0 C0 (fun _ _ => by simp [exEnv2])
    (fun a b => by simp [PosShape, exEnv2, shear]) (fun _ _ => by
      unfold PosShape; simp only [exEnv2, ← fromBlocks_one, toBlocks_fromBlocks₁₂, toBlocks_fromBlocks₁₁]; simp) ts

end nonvacuity

end BeyondVerif.C14
