import BeyondVerif.Model.StationR
import Mathlib.Tactic.Ring
import Mathlib.Tactic.FieldSimp
import Mathlib.Tactic.Linarith
import Mathlib.Tactic.NormNum

/-!
# C11 — horizon mask: `get_mask` is the piecewise-linear interpolant of the table

The model `getMask` (Model/StationR.lean, from lean/templates/Station.tpl) follows
`TopocentricFrame.get_mask` branch for branch: reduction of the azimuth by `%`, exact-hit test, the scan
loop with its `else` branch, the wrap `x0 = 0`.  Its formulas (`maskReduce`, `maskStops`, `maskWrapX0`, `maskInterp`) are
translated from the Python source on every run (Generated/StationGeoR.lean), so the theorems below are re-proved
against the current text of `get_mask`.
-/
noncomputable section
namespace BeyondVerif.C11
open BeyondVerif.R BeyondVerif.NumReal

/-- **Specification**: `PwlAt pts x v` — `v` is the value at `x` of the piecewise-linear interpolant through the
points `pts`: `x` lies in the closed segment between two consecutive points `p`, `q` with `p.1 < q.1`, and `v` is
the value at `x` of the straight line through them. -/
inductive PwlAt : List (ℝ × ℝ) → ℝ → ℝ → Prop
  | here (p q : ℝ × ℝ) (rest : List (ℝ × ℝ)) (x : ℝ) : p.1 ≤ x → x ≤ q.1 → p.1 < q.1 →
      PwlAt (p :: q :: rest) x (p.2 + (q.2 - p.2) * (x - p.1) / (q.1 - p.1))
  | there (p : ℝ × ℝ) (rest : List (ℝ × ℝ)) (x v : ℝ) : PwlAt rest x v → PwlAt (p :: rest) x v

/-- strictly increasing azimuths -/
def StrictIncr (tbl : List (ℝ × ℝ)) : Prop := tbl.Pairwise (fun p q => p.1 < q.1)

/-- the points that are interpolated: the table itself, preceded — when the table does not start at azimuth 0 or
below — by the point (0, elevation given at the last azimuth): "the value given at 2π also serves at 0". -/
def maskPoints : List (ℝ × ℝ) → List (ℝ × ℝ)
  | [] => []
  | first :: rest =>
    if 0 < first.1 then (0, ((first :: rest).getLast (List.cons_ne_nil first rest)).2) :: first :: rest
    else first :: rest

/-! ### Python's `%` with a positive modulus -/

/-- **`azim % (2π)` lies in `[0, 2π)`** for every real azimuth -/
theorem fmod_two_pi_range (x : ℝ) : 0 ≤ fmod x (2 * Real.pi) ∧ fmod x (2 * Real.pi) < 2 * Real.pi := by
  have hm : 0 < 2 * Real.pi := by positivity
  have h1 : ((⌊x / (2 * Real.pi)⌋ : ℤ) : ℝ) ≤ x / (2 * Real.pi) := Int.floor_le _
  have h2 : x / (2 * Real.pi) < ((⌊x / (2 * Real.pi)⌋ : ℤ) : ℝ) + 1 := Int.lt_floor_add_one _
  rw [le_div_iff₀ hm] at h1
  rw [div_lt_iff₀ hm] at h2
  unfold fmod
  constructor <;> nlinarith

/-- **… and differs from `azim` by a whole number of turns** -/
theorem fmod_two_pi_congruent (x : ℝ) : ∃ k : ℤ, fmod x (2 * Real.pi) = x - k * (2 * Real.pi) :=
  ⟨⌊x / (2 * Real.pi)⌋, by unfold fmod; ring⟩

/-! ### The exact-hit branch -/

theorem maskHit_some {x y : ℝ} : ∀ (l : List (ℝ × ℝ)) (hne : l ≠ []), StrictIncr l → x < (l.getLast hne).1 →
    maskHit x l = some y → PwlAt l x y
  | [], hne, _, _, _ => absurd rfl hne
  | [p], _, _, hlt, h => by
    simp only [List.getLast_singleton] at hlt
    simp only [maskHit] at h
    split at h
    · rename_i hc; linarith [hc.2]
    · cases h
  | p :: q :: rest, _, hinc, hlt, h => by
    have hpq : p.1 < q.1 := (List.pairwise_cons.mp hinc).1 q (List.mem_cons_self)
    rw [maskHit] at h
    split at h
    · rename_i hc
      have hx : x = p.1 := le_antisymm hc.1 hc.2
      have hv : y = p.2 + (q.2 - p.2) * (x - p.1) / (q.1 - p.1) := by
        cases h; rw [hx]; simp
      rw [hv]
      exact PwlAt.here p q rest x hc.2 (by linarith) hpq
    · refine PwlAt.there p _ x y (maskHit_some (q :: rest) (List.cons_ne_nil _ _) (List.pairwise_cons.mp hinc).2 ?_ h)
      rwa [List.getLast_cons (List.cons_ne_nil q rest)] at hlt

theorem maskHit_of_mem {x y : ℝ} : ∀ (l : List (ℝ × ℝ)), StrictIncr l → (x, y) ∈ l → maskHit x l = some y
  | [], _, h => by cases h
  | p :: rest, hinc, hmem => by
    rw [maskHit]
    rcases List.mem_cons.mp hmem with h | h
    · subst h; simp
    · have hlt : p.1 < x := (List.pairwise_cons.mp hinc).1 (x, y) h
      rw [if_neg (fun hc => by linarith [hc.1])]
      exact maskHit_of_mem rest (List.pairwise_cons.mp hinc).2 h

theorem maskHit_none_of_lt {x : ℝ} : ∀ (l : List (ℝ × ℝ)), (∀ p ∈ l, x < p.1) → maskHit x l = none
  | [], _ => rfl
  | p :: rest, h => by
    rw [maskHit, if_neg (fun hc => by linarith [hc.2, h p List.mem_cons_self])]
    exact maskHit_none_of_lt rest (fun q hq => h q (List.mem_cons_of_mem _ hq))

/-! ### The scan loop -/

theorem maskScan_none {x : ℝ} : ∀ (l : List (ℝ × ℝ)) (prev : Option (ℝ × ℝ)), maskScan x prev l = none → ∀ p ∈ l, p.1 ≤ x
  | [], _, _ => fun p hp => by cases hp
  | q :: rest, prev, h => by
    rw [maskScan] at h
    split at h
    · cases h
    · rename_i hc
      intro p hp
      rcases List.mem_cons.mp hp with hp | hp
      · subst hp; exact not_lt.mp hc
      · exact maskScan_none rest (some q) h p hp

theorem maskScan_some {x : ℝ} {pv : Option (ℝ × ℝ)} {p1 : ℝ × ℝ} : ∀ (l : List (ℝ × ℝ)) (prev : ℝ × ℝ),
    StrictIncr (prev :: l) → prev.1 ≤ x → maskScan x (some prev) l = some (pv, p1) →
    ∃ q, pv = some q ∧ PwlAt (prev :: l) x (q.2 + (p1.2 - q.2) * (x - q.1) / (p1.1 - q.1))
  | [], _, _, _, h => by simp [maskScan] at h
  | p :: rest, prev, hinc, hle, h => by
    have hpp : prev.1 < p.1 := (List.pairwise_cons.mp hinc).1 p List.mem_cons_self
    rw [maskScan] at h
    split at h
    · rename_i hc
      simp only [Option.some.injEq, Prod.mk.injEq] at h
      obtain ⟨h1, h2⟩ := h
      subst h1 h2
      exact ⟨prev, rfl, PwlAt.here prev p rest x hle (le_of_lt hc) hpp⟩
    · rename_i hc
      obtain ⟨q, hq, hpw⟩ := maskScan_some rest p (List.pairwise_cons.mp hinc).2 (not_lt.mp hc) h
      exact ⟨q, hq, PwlAt.there prev _ x _ hpw⟩

theorem pwl_maskPoints {x v : ℝ} (tbl : List (ℝ × ℝ)) (h : PwlAt tbl x v) : PwlAt (maskPoints tbl) x v := by
  cases tbl with
  | nil => cases h
  | cons first rest =>
    simp only [maskPoints]
    split
    · exact PwlAt.there _ _ x v h
    · exact h

/-- **The horizon mask is the piecewise-linear interpolation of the table** (clause "mask"): for every table
with strictly increasing azimuths whose last azimuth is 2π and for every real azimuth (also outside [0, 2π)),
`get_mask` returns a value, and it is the value at `azim % 2π` of the piecewise-linear interpolant through the
table points, the elevation given at 2π also serving at azimuth 0. -/
theorem mask_is_pwl_interp (tbl : List (ℝ × ℝ)) (hne : tbl ≠ []) (hinc : StrictIncr tbl)
    (hlast : (tbl.getLast hne).1 = 2 * Real.pi) (azim : ℝ) :
    ∃ v, getMask tbl azim = some v ∧ PwlAt (maskPoints tbl) (fmod azim (2 * Real.pi)) v := by
  obtain ⟨hx0, hx1⟩ := fmod_two_pi_range azim
  cases tbl with
  | nil => exact absurd rfl hne
  | cons first rest =>
    unfold getMask
    simp only [maskReduce, maskInterp, maskWrapX0, pi]
    generalize fmod azim (2 * Real.pi) = x at hx0 hx1 ⊢
    cases hh : maskHit x (first :: rest) with
    | some y =>
      exact ⟨y, rfl, pwl_maskPoints _ (maskHit_some _ hne hinc (by rw [hlast]; exact hx1) hh)⟩
    | none =>
      simp only
      rw [maskScan]
      by_cases hc : first.1 > x
      · -- the loop stops at index 0: wrap, x0 = 0, y0 = elevation at the last azimuth
        refine ⟨_, rfl, ?_⟩
        have hpos : 0 < first.1 := lt_of_le_of_lt hx0 hc
        simp only [if_pos hc, Option.getD_some, maskPoints, if_pos hpos]
        exact PwlAt.here (0, ((first :: rest).getLast (List.cons_ne_nil first rest)).2) first rest x hx0 (le_of_lt hc) hpos
      · rw [if_neg hc]
        cases hs : maskScan x (some first) rest with
        | none =>
          -- impossible: the last azimuth 2π is larger than x
          exfalso
          rcases List.eq_nil_or_concat rest with hr | ⟨l, b, hr⟩
          · subst hr
            simp only [List.getLast_singleton] at hlast
            rw [hlast] at hc; exact hc hx1
          · have hb : b ∈ rest := by rw [hr]; simp
            have := maskScan_none rest (some first) hs b hb
            have hl : (first :: rest).getLast hne = b := by
              subst hr; simp
            rw [hl] at hlast; linarith
        | some r =>
          obtain ⟨pv, p1⟩ := r
          obtain ⟨q, hq, hpw⟩ := maskScan_some rest first hinc (not_lt.mp hc) hs
          subst hq
          exact ⟨_, rfl, pwl_maskPoints _ hpw⟩

/-- the hypotheses are satisfiable: the table `[(1, 0.1), (2π, 0.3)]` and any azimuth -/
example : ∃ v, getMask [(1, 0.1), (2 * Real.pi, 0.3)] (-0.5) = some v ∧
    PwlAt (maskPoints [(1, 0.1), (2 * Real.pi, 0.3)]) (fmod (-0.5) (2 * Real.pi)) v := by
  refine mask_is_pwl_interp _ (by simp) ?_ (by simp) _
  have : (1:ℝ) < 2 * Real.pi := by linarith [Real.two_le_pi]
  simp [StrictIncr, this]

/-! ### The specification determines the value -/

theorem pwl_lower {x v : ℝ} : ∀ {l : List (ℝ × ℝ)}, PwlAt l x v → ∃ p ∈ l, p.1 ≤ x := by
  intro l h
  induction h with
  | here p q rest x h1 _ _ => exact ⟨p, List.mem_cons_self, h1⟩
  | there p rest x v _ ih => obtain ⟨q, hq, hle⟩ := ih; exact ⟨q, List.mem_cons_of_mem _ hq, hle⟩

/-- at (or before) the first azimuth of a strictly increasing list the interpolant takes the first elevation -/
theorem pwl_at_head {x v : ℝ} {a : ℝ × ℝ} {rest : List (ℝ × ℝ)} (hinc : StrictIncr (a :: rest))
    (h : PwlAt (a :: rest) x v) (hx : x ≤ a.1) : v = a.2 := by
  cases h with
  | here _ q rest' _ h1 h2 h3 =>
    have : x = a.1 := le_antisymm hx h1
    rw [this]; simp
  | there _ _ _ _ h' =>
    obtain ⟨p, hp, hle⟩ := pwl_lower h'
    have := (List.pairwise_cons.mp hinc).1 p hp
    linarith

/-- **The interpolant is a function**: for strictly increasing points, two values related to the same `x` by the
specification are equal (at a breakpoint both adjacent segments give the tabulated elevation). -/
theorem pwl_value_unique {x v v' : ℝ} : ∀ {l : List (ℝ × ℝ)}, StrictIncr l → PwlAt l x v → PwlAt l x v' → v = v' := by
  intro l hinc h
  induction h generalizing v' with
  | here p q rest x h1 h2 h3 =>
    intro h'
    cases h' with
    | here _ _ _ _ _ _ _ => rfl
    | there _ _ _ _ h'' =>
      have hv' := pwl_at_head (List.pairwise_cons.mp hinc).2 h'' h2
      obtain ⟨a, ha, hle⟩ := pwl_lower h''
      have hqa : q.1 ≤ a.1 := by
        rcases List.mem_cons.mp ha with h | h
        · rw [h]
        · exact le_of_lt ((List.pairwise_cons.mp (List.pairwise_cons.mp hinc).2).1 a h)
      have hx : x = q.1 := le_antisymm h2 (le_trans hqa hle)
      have hne : q.1 - p.1 ≠ 0 := by linarith
      rw [hv', hx]; field_simp; ring
  | there p rest x v h ih =>
    intro h'
    cases h' with
    | here _ q rest' _ h1 h2 h3 =>
      have hv := pwl_at_head (List.pairwise_cons.mp hinc).2 h h2
      obtain ⟨a, ha, hle⟩ := pwl_lower h
      have hqa : q.1 ≤ a.1 := by
        rcases List.mem_cons.mp ha with h | h
        · rw [h]
        · exact le_of_lt ((List.pairwise_cons.mp (List.pairwise_cons.mp hinc).2).1 a h)
      have hx : x = q.1 := le_antisymm h2 (le_trans hqa hle)
      have hne : q.1 - p.1 ≠ 0 := by linarith
      rw [hv, hx]; field_simp; ring
    | there _ _ _ _ h'' => exact ih (List.pairwise_cons.mp hinc).2 h''

theorem strictIncr_maskPoints (tbl : List (ℝ × ℝ)) (hinc : StrictIncr tbl) : StrictIncr (maskPoints tbl) := by
  cases tbl with
  | nil => exact hinc
  | cons first rest =>
    simp only [maskPoints]
    split
    · rename_i hpos
      refine List.pairwise_cons.mpr ⟨fun p hp => ?_, hinc⟩
      rcases List.mem_cons.mp hp with h | h
      · rw [h]; exact hpos
      · exact lt_trans hpos ((List.pairwise_cons.mp hinc).1 p h)
    · exact hinc

/-- **At a tabulated azimuth the mask is the tabulated elevation** (the `azim in self.mask[0, :]` branch) -/
theorem mask_exact_hit (tbl : List (ℝ × ℝ)) (hinc : StrictIncr tbl) (azim y : ℝ)
    (hmem : (fmod azim (2 * Real.pi), y) ∈ tbl) : getMask tbl azim = some y := by
  cases tbl with
  | nil => cases hmem
  | cons first rest =>
    unfold getMask
    simp only [maskReduce, pi]
    rw [maskHit_of_mem _ hinc hmem]

/-- **The value given at azimuth 2π also serves at azimuth 0**: for a table following the convention whose first
azimuth is positive, every azimuth that is a whole number of turns (`azim % 2π = 0`) gets the elevation tabulated
at 2π. -/
theorem mask_two_pi_value_serves_at_zero (tbl : List (ℝ × ℝ)) (hne : tbl ≠ []) (hinc : StrictIncr tbl)
    (hlast : (tbl.getLast hne).1 = 2 * Real.pi) (hfirst : 0 < (tbl.head hne).1) (azim : ℝ)
    (hz : fmod azim (2 * Real.pi) = 0) : getMask tbl azim = some (tbl.getLast hne).2 := by
  obtain ⟨v, hv, hp⟩ := mask_is_pwl_interp tbl hne hinc hlast azim
  rw [hv, hz] at *
  cases tbl with
  | nil => exact absurd rfl hne
  | cons first rest =>
    simp only [List.head_cons] at hfirst
    have h0 : PwlAt (maskPoints (first :: rest)) 0 ((first :: rest).getLast hne).2 := by
      have := PwlAt.here (0, ((first :: rest).getLast hne).2) first rest 0 (le_refl _) (le_of_lt hfirst) hfirst
      simpa [maskPoints, if_pos hfirst] using this
    rw [pwl_value_unique (strictIncr_maskPoints _ hinc) hp h0]

example : getMask [(1, 0.1), (2 * Real.pi, 0.3)] (4 * Real.pi) = some 0.3 := by
  have h1 : (1:ℝ) < 2 * Real.pi := by linarith [Real.two_le_pi]
  have hz : fmod (4 * Real.pi) (2 * Real.pi) = 0 := by
    have hpi : Real.pi ≠ 0 := Real.pi_ne_zero
    have : 4 * Real.pi / (2 * Real.pi) = ((2 : ℤ) : ℝ) := by field_simp; norm_num
    unfold fmod; rw [this, Int.floor_intCast]; push_cast; ring
  have := mask_two_pi_value_serves_at_zero [(1, 0.1), (2 * Real.pi, 0.3)] (by simp) (by simp [StrictIncr, h1]) (by simp)
    (by simp) (4 * Real.pi) hz
  simpa using this

end BeyondVerif.C11
