import BeyondVerif.Props.C20Registry
import BeyondVerif.Props.C20NamedForest

/-!
# C20 — from the import-time registry to `convert_to`: ONE statement

`Props/C20Registry.lean` proves `convert_resolves` from a hypothesis on the initial registry (every link has a base-class
method) and, separately, `builtin_links_have_methods` / `sites_register_root` by `decide` on the tables regenerated from the
source.  Here they are composed, and joined with the routing theorems for shared names (`Props/C20NamedForest.lean`):

* `importOps`                      : the import-time registry of `beyond.frames.orient` as a history of registry operations —
  the `def <a>_to_<b>` of the class body of `Orientation` (regenerated), then the links executed at import, in execution
  order (regenerated).  The centre registry is empty at import (`Earth = Center("Earth")` creates one node and no link).
* `import_registered`              : the import-time orientation registry has a base-class method for every link.
* `builtin_convert_never_unknown_transformation` : from the import-time orientation registry (resp. the empty centre
  registry), after ANY history of executions of the registration sites OF THE CURRENT SOURCE (regenerated), from any start
  object that is an instance of the base class, to any goal name: `convert_to` never raises `Unknown transformation`.
  No hypothesis about the sites or the initial registry is left.
* `convert_total`                  : moreover (no object linked to itself, enough fuel) `convert_to` either returns the resolved
  chain of link methods along a simple path to a node carrying the goal name, or raises `Unknown '<goal>'` — and the latter
  exactly when no linked object carries that name: no `KeyError`, no endless walk, no `Unknown transformation`.
-/
namespace BeyondVerif.C20
open BeyondVerif.Node (Route NodeSt Graph get lookupRoute PathRes DirInv)
open BeyondVerif.Reg

/-- the import-time registry of the orientations: class-body methods, then the links in execution order -/
def importOps (w : World) (root : Nat) : List Op :=
  BeyondVerif.Generated.orientMethods.map (fun e => Op.setattr (.cls root) (w.nm e.1) (w.nm e.2) none) ++
    BeyondVerif.Generated.orientHist.map (fun e => Op.link e.1 e.2)

/-- **the import-time orientation registry has a base-class method for every link it contains** -/
theorem import_registered (w : World) (root fuel : Nat) (st0 : State)
    (h0 : applyOps w fuel {} (importOps w root) = some st0) : Registered w root st0 ∧ DirInv st0.g := by
  obtain ⟨hn, ha, hd⟩ := applyOps_spec h0
  refine ⟨?_, hd (registered_empty w root).2⟩
  have hmeth : ∀ a b, (a, b) ∈ BeyondVerif.Generated.orientMethods → HasKey st0.attrs (.cls root) (w.nm a) (w.nm b) := by
    intro a b hab
    refine ⟨⟨.cls root, w.nm a, w.nm b, none⟩, (ha _).mpr (Or.inr ⟨Op.setattr (.cls root) (w.nm a) (w.nm b) none, ?_, by simp [opAttr]⟩),
      rfl, rfl, rfl⟩
    unfold importOps
    exact List.mem_append_left _ (List.mem_map.mpr ⟨(a, b), hab, rfl⟩)
  have hlink : ∀ a b, Op.link a b ∈ importOps w root → (a, b) ∈ BeyondVerif.Generated.orientHist := by
    intro a b hab
    unfold importOps at hab
    rcases List.mem_append.mp hab with h | h
    · obtain ⟨e, _, he⟩ := List.mem_map.mp h; cases he
    · obtain ⟨e, he, hee⟩ := List.mem_map.mp h
      simp only [Op.link.injEq] at hee
      obtain ⟨rfl, rfl⟩ := hee
      exact he
  have hall := List.all_eq_true.mp builtin_links_have_methods
  have key : ∀ a b, (a, b) ∈ BeyondVerif.Generated.orientHist →
      HasKey st0.attrs (.cls root) (w.nm a) (w.nm b) ∨ HasKey st0.attrs (.cls root) (w.nm b) (w.nm a) := by
    intro a b hab
    have := hall (a, b) hab
    simp only [Bool.or_eq_true, List.contains_eq_mem, decide_eq_true_eq] at this
    rcases this with h | h
    · exact Or.inl (hmeth a b h)
    · exact Or.inr (hmeth b a h)
  intro u v huv
  rcases (hn u v).mp huv with h | h
  · simp [Node.get] at h
  · rcases h with h | h
    · exact key u v (hlink u v h)
    · exact (key v u (hlink v u h)).symm

/-- every site of the regenerated list registers its links on the base class -/
theorem public_site_registers {site : List SiteOp} (h : site ∈ BeyondVerif.Generated.publicSites.map (·.2)) :
    registersRoot site = true := by
  obtain ⟨s, hs, rfl⟩ := List.mem_map.mp h
  have := sites_register_root
  simp only [Bool.and_eq_true] at this
  exact List.all_eq_true.mp this.1.1 s hs

/-- **From the import-time registry, no routed step is ever `Unknown transformation`.**  `st0` is the import-time
orientation registry (`import0 = true`) or the empty centre registry; `hist` is any history of executions of registration
sites of the current source with any objects, names (shared or not) and classes; the start object is an instance of the
base class. -/
theorem builtin_convert_never_unknown_transformation (w : World) (root fuel fuel' : Nat) (import0 : Bool) (st0 : State)
    (h0 : applyOps w fuel {} (if import0 then importOps w root else []) = some st0)
    (hist : List (List SiteOp × Binding)) (st : State)
    (hsites : ∀ e ∈ hist, e.1 ∈ BeyondVerif.Generated.publicSites.map (·.2))
    (hrun : runSites w root fuel st0 hist = some st)
    (start goal : Nat) (hroot : root ∈ w.mro (w.cls start)) (a b : Nat) :
    convert w fuel' st start goal ≠ .unknownTransformation a b := by
  have hreg : Registered w root st0 ∧ DirInv st0.g := by
    cases import0 with
    | true => exact import_registered w root fuel st0 (by simpa using h0)
    | false =>
      simp only [Bool.false_eq_true, if_false, applyOps, Option.some.injEq] at h0
      subst h0
      exact registered_empty w root
  exact convert_never_unknown_transformation w root fuel fuel' st0 hreg.1 hreg.2 hist st
    (fun e he => public_site_registers (hsites e he)) hrun start goal hroot a b

/-! ## the graph of a registry state is the named model run on its link history -/

/-- the links of a history of registry operations, in order -/
def linksOf : List Op → List (Nat × Nat)
  | [] => []
  | .link a b :: rest => (a, b) :: linksOf rest
  | .setattr _ _ _ _ :: rest => linksOf rest

/-- all operations of a history of site executions -/
def siteOps (w : World) (root : Nat) : List (List SiteOp × Binding) → List Op
  | [] => []
  | (site, β) :: rest => instSite w root β site ++ siteOps w root rest

theorem applyOps_append {w : World} {fuel : Nat} : ∀ (ops1 ops2 : List Op) (st : State),
    applyOps w fuel st (ops1 ++ ops2) = (applyOps w fuel st ops1).bind (fun s => applyOps w fuel s ops2)
  | [], ops2, st => rfl
  | op :: rest, ops2, st => by
    simp only [List.cons_append, applyOps]
    cases applyOp w fuel st op with
    | none => rfl
    | some s => simp only [Option.bind_some]; exact applyOps_append rest ops2 s

theorem runSites_eq {w : World} {root fuel : Nat} : ∀ (hist : List (List SiteOp × Binding)) (st : State),
    runSites w root fuel st hist = applyOps w fuel st (siteOps w root hist)
  | [], st => rfl
  | (site, β) :: rest, st => by
    simp only [runSites, siteOps, applyOps_append]
    cases applyOps w fuel st (instSite w root β site) with
    | none => rfl
    | some s => simp only [Option.bind_some]; exact runSites_eq rest s

theorem foldl_link_none (nm : Nat → Nat) (fuel : Nat) (l : List (Nat × Nat)) :
    l.foldl (fun og e => og.bind (fun g => Reg.link nm fuel g e.1 e.2)) (none : Option Graph) = none := by
  induction l with
  | nil => rfl
  | cons _ _ ih => simpa using ih

theorem applyOps_graph {w : World} {fuel : Nat} : ∀ (ops : List Op) (st st' : State),
    applyOps w fuel st ops = some st' →
    (linksOf ops).foldl (fun og e => og.bind (fun g => Reg.link w.nm fuel g e.1 e.2)) (some st.g) = some st'.g
  | [], st, st', h => by
    simp only [applyOps, Option.some.injEq] at h
    subst h; rfl
  | .link a b :: rest, st, st', h => by
    simp only [applyOps, applyOp, Option.bind_eq_some_iff, Option.map_eq_some_iff] at h
    obtain ⟨s1, ⟨g', hl, rfl⟩, h2⟩ := h
    simp only [linksOf, List.foldl_cons, Option.bind_some, hl]
    exact applyOps_graph rest _ st' h2
  | .setattr hh ka kb o :: rest, st, st', h => by
    simp only [applyOps, applyOp, Option.bind_some] at h
    simp only [linksOf]
    exact applyOps_graph rest { st with attrs := ⟨hh, ka, kb, o⟩ :: st.attrs } st' h

/-- from the empty registry, the graph is `Reg.build` on the links of the operations -/
theorem applyOps_build {w : World} {fuel : Nat} (ops : List Op) (st : State) (h : applyOps w fuel {} ops = some st) :
    Reg.build w.nm fuel (linksOf ops) = some st.g := applyOps_graph ops {} st h

theorem mem_linksOf {ops : List Op} {a b : Nat} : (a, b) ∈ linksOf ops ↔ Op.link a b ∈ ops := by
  induction ops with
  | nil => simp [linksOf]
  | cons op rest ih =>
    cases op with
    | link x y =>
      simp only [linksOf, List.mem_cons, Prod.mk.injEq, Op.link.injEq, ih]
    | setattr hh ka kb o =>
      simp only [linksOf, List.mem_cons, ih]
      constructor
      · intro h; exact Or.inr h
      · rintro (h | h)
        · cases h
        · exact h

theorem resolve_cases (w : World) (attrs : List Attr) (start : Nat) : ∀ (steps : List (Nat × Nat)) (acc : List Step),
    (∃ l, resolve w attrs start steps acc = .ok l) ∨ ∃ a b, resolve w attrs start steps acc = .unknownTransformation a b
  | [], acc => Or.inl ⟨_, rfl⟩
  | (a, b) :: rest, acc => by
    unfold resolve
    split
    · exact resolve_cases w attrs start rest _
    · split
      · exact resolve_cases w attrs start rest _
      · exact Or.inr ⟨a, b, rfl⟩

/-- **`convert_to` is total and exact about names.**  `ops0` is any initial history of registry operations leaving every
link with a base-class method (the import-time registry: `import_registered`; the empty one); `hist` any history of
executions of registering sites; no object is ever linked to itself; every linked object is `< n` and the walk fuel is
`≥ n - 1`.  Then from every start object that is an instance of the base class and for every goal name other than its own:

* if some object connected to `start` carries the goal name, `convert_to` returns a resolved chain of link methods
  (`.ok steps`) along a simple path of inserted links to a node of that name;
* otherwise it raises `Unknown '<goal>'` (`.unknownNode`).

`KeyError`, an endless walk and `Unknown transformation` are impossible. -/
theorem convert_total (w : World) (root fuel fuel' n : Nat) (ops0 : List Op) (st0 : State)
    (h0 : applyOps w fuel {} ops0 = some st0) (hreg : Registered w root st0)
    (hist : List (List SiteOp × Binding)) (st : State)
    (hs : ∀ e ∈ hist, registersRoot e.1 = true) (hrun : runSites w root fuel st0 hist = some st)
    (hns : ∀ e ∈ linksOf (ops0 ++ siteOps w root hist), e.1 ≠ e.2)
    (hn : ∀ e ∈ linksOf (ops0 ++ siteOps w root hist), e.1 < n ∧ e.2 < n) (hfuel' : n ≤ fuel' + 1)
    (start goal : Nat) (hstart : start < n) (hroot : root ∈ w.mro (w.cls start)) (hgoal : goal ≠ w.nm start) :
    ((∃ v, Connected (linksOf (ops0 ++ siteOps w root hist)) start v ∧ w.nm v = goal) →
      ∃ p steps, Reg.path w.nm fuel' st.g start goal = .ok p ∧ p.Nodup ∧
        p.IsChain (linked (linksOf (ops0 ++ siteOps w root hist))) ∧
        convert w fuel' st start goal = .ok steps) ∧
    ((∀ v, Connected (linksOf (ops0 ++ siteOps w root hist)) start v → w.nm v ≠ goal) →
      convert w fuel' st start goal = .unknownNode) := by
  have hall : applyOps w fuel {} (ops0 ++ siteOps w root hist) = some st := by
    rw [applyOps_append, h0, Option.bind_some, ← runSites_eq]; exact hrun
  have hb := applyOps_build _ st hall
  have hd0 : DirInv st0.g := (applyOps_spec h0).2.2 (registered_empty w root).2
  obtain ⟨h1, h2⟩ := named_graph_routes_total w.nm fuel _ st.g hns hb start goal hgoal
  constructor
  · intro hex
    obtain ⟨p, p1, _, p3, p4, _, p6⟩ := h1 hex
    have hlen : p.length ≤ n := Node.nodup_length_le p4 (chain_lt hn hstart p1 p3)
    have hp := p6 fuel' (by omega)
    have hres := convert_resolves w root fuel fuel' st0 hreg hd0 hist st hs hrun start goal hroot p hp
    rcases resolve_cases w st.attrs start (p.zip p.tail) [] with ⟨l, hl⟩ | ⟨a, b, hab⟩
    · refine ⟨p, l, hp, p4, p3, ?_⟩
      unfold convert
      rw [hp]
      exact hl
    · exfalso
      obtain ⟨hmem, e1, e2⟩ := resolve_unknown hab
      rcases hres a b hmem with hh | hh
      · rw [e1] at hh; cases hh
      · rw [e2] at hh; cases hh
  · intro hnone
    unfold convert
    rw [h2 hnone fuel']

/-! ### non-vacuity: the import-time registry exists, a station and a same-named second station below `TOD` -/

/-- objects 0..9 = the built-in orientations (own names, base class 0), 10 and 11 = stations (class 1 ⊂ 0) both named 20 -/
def importWorld : World where
  nm := fun i => if i < 10 then i else 20
  cls := fun i => if i < 10 then 0 else 1
  mro := fun c => if c = 0 then [0] else [c, 0]

example : ∃ st0 st, applyOps importWorld 14 {} (importOps importWorld 0) = some st0 ∧
    runSites importWorld 0 14 st0
      [(BeyondVerif.Generated.siteCreateStationOrient, ⟨10, 2, 0⟩),
       (BeyondVerif.Generated.siteCreateStationOrient, ⟨11, 5, 0⟩)] = some st ∧
    convert importWorld 14 st 9 20 = .ok [⟨9, 8, false, none⟩, ⟨8, 7, false, none⟩, ⟨7, 0, false, none⟩,
      ⟨0, 1, true, none⟩, ⟨1, 2, true, none⟩, ⟨2, 10, false, some 10⟩] := by
  refine ⟨_, _, rfl, rfl, ?_⟩
  decide +kernel

end BeyondVerif.C20
