import BeyondVerif.Generated.Sgp4BetaR
import BeyondVerif.Model.Sgp4RefR
import Mathlib.Tactic.LinearCombination
import Mathlib.Tactic.NormNum
import Mathlib.Tactic.FieldSimp
import Mathlib.Tactic.Positivity
import Mathlib.Tactic.NormNum.OfScientific

namespace BeyondVerif.C07
open BeyondVerif.R

theorem beta_consts_reference :
    g_μ_e = w_mu ∧ g_r_e = w_re ∧ g_k_e = w_xke ∧ g_j2 = w_j2 ∧ g_j3 = w_j3 ∧ g_j4 = w_j4 := by
  refine ⟨rfl, rfl, ?_, rfl, ?_, ?_⟩
  · simp only [g_k_e, w_xke, g_r_e, g_μ_e, w_re, w_mu, NumReal.powi]
    norm_num
  · simp only [g_j3, w_j3]
  · simp only [g_j4, w_j4]

theorem beta_secular_reference (n0 i_n0 M0 t i_Mdot ω0 i_ωdot Ω0 i_Ωdot bstar i_C3 e0 i_η i_ξ i_q0 i_s : ℝ) :
    sgp4Secular n0 i_n0 M0 t i_Mdot ω0 i_ωdot Ω0 i_Ωdot bstar i_C3 e0 i_η i_ξ i_q0 i_s
      = [i_n0, g_μ_e, g_r_e, g_k_e] ++ refSecular t M0 ω0 Ω0 i_η (i_Mdot * i_n0) (i_ωdot * i_n0) (i_Ωdot * i_n0) (bstar * i_C3 * Real.cos ω0)
          (if e0 > 1.0e-4 then -((2 : ℝ) / 3) * ((i_q0 - i_s) ^ 4 * i_ξ ^ 4) * bstar / (e0 * i_η) else 0) := by
  simp only [sgp4Secular, refSecular, List.cons_append, List.nil_append, List.cons.injEq, and_true, true_and, NumReal.powi, NumReal.cos]
  have hg : (e0 > (1e-4 : ℝ)) ↔ (e0 > (1.0e-4 : ℝ)) := by norm_num
  by_cases h : e0 > (1e-4 : ℝ)
  · rw [if_pos h, if_pos (hg.mp h)]
    have e1 : (1.0 : ℝ) = 1 := by norm_num
    simp only [e1]
    ring
  · rw [if_neg h, if_neg (fun h' => h (hg.mpr h'))]; norm_num


theorem beta_d_reference (ξ C1 a0 s e0 xh : ℝ) (hξ : ξ = 1 / (a0 - s)) :
    ∃ D2 D3 D4, sgp4InitD ξ C1 a0 s = [D2, D3, D4] ∧
      refCoefD a0 s e0 C1 xh = [3.5 * (1 - e0 * e0) * xh * C1, 1.5 * C1, D2, D3, D4, D2 + 2 * C1 ^ 2,
        1 / 4 * (3 * D3 + 12 * C1 * D2 + 10 * C1 ^ 3),
        1 / 5 * (3 * D4 + 12 * C1 * D3 + 6 * D2 ^ 2 + 30 * C1 ^ 2 * D2 + 15 * C1 ^ 4)] := by
  refine ⟨_, _, _, rfl, ?_⟩
  subst hξ
  simp only [refCoefD, List.cons.injEq, and_true, NumReal.powi]
  norm_num only
  refine ⟨?_, ?_, ?_, ?_, ?_, ?_, ?_, ?_⟩ <;> first | trivial | ring

theorem beta_s4_reference (a0 e0 : ℝ) :
    ∃ s q0, sgp4InitS a0 e0 w_re = [s, q0] ∧
      refS4 a0 e0 = [s, (q0 - s) ^ 4, if a0 * (1 - e0) < 220 / w_re + 1 then 1 else 0] := by
  refine ⟨_, _, rfl, ?_⟩
  simp only [refS4]
  norm_num only
  by_cases h1 : (a0 * (1 - e0) - 1) * w_re < 156
  · by_cases h2 : (a0 * (1 - e0) - 1) * w_re < 98
    · simp only [h1, h2, if_true, List.cons.injEq, and_true, true_and]
      ring
    · simp only [h1, h2, if_true, if_false, List.cons.injEq, and_true, true_and]
      ring
  · simp only [h1, if_false, List.cons.injEq, and_true, true_and]
    ring


theorem beta_dot_reference (β0 a0 e0 i0 no : ℝ) (hβ : β0 = Real.sqrt (1 - e0 ^ 2)) (he : e0 ^ 2 < 1) (ha : a0 ≠ 0) :
    ∃ Md ωd Ωd, sgp4InitDot β0 (w_j2 / 2) a0 (Real.cos i0) (-(3 / 8) * w_j4) = [Md, ωd, Ωd] ∧
      refCoefDot no a0 e0 i0 = [Md * no, ωd * no, Ωd * no,
        -(1.5 * w_j2 * (1 / (a0 * (1 - e0 * e0) * (a0 * (1 - e0 * e0)))) * no) * Real.cos i0] := by
  have hpos : 0 < 1 - e0 ^ 2 := by linarith
  have hβpos : 0 < β0 := by rw [hβ]; exact Real.sqrt_pos.mpr hpos
  have hβ2 : β0 ^ 2 = 1 - e0 ^ 2 := by rw [hβ]; exact Real.sq_sqrt hpos.le
  have h1 : 1 - e0 * e0 = β0 ^ 2 := by rw [hβ2]; ring
  have hs : Real.sqrt (β0 ^ 2) = β0 := Real.sqrt_sq hβpos.le
  refine ⟨_, _, _, rfl, ?_⟩
  simp only [refCoefDot, sgp4InitDot, List.cons.injEq, and_true, NumReal.powi, NumReal.sqrt, NumReal.cos]
  norm_num only
  simp only [h1, hs]
  have hβne : β0 ≠ 0 := hβpos.ne'
  refine ⟨?_, ?_, ?_, ?_⟩
  · field_simp; ring
  · field_simp; ring
  · field_simp; ring
  · trivial


theorem rpow_four (x : ℝ) : Real.rpow x (4.0 : ℝ) = x ^ 4 := by
  have h : (4.0 : ℝ) = ((4 : ℕ) : ℝ) := by norm_num
  show x ^ (4.0 : ℝ) = x ^ 4
  rw [h, Real.rpow_natCast]

theorem rpow_m72 {y : ℝ} (hy : 0 < y) : Real.rpow y (-(7 : ℝ) / 2) = (Real.rpow y (3.5 : ℝ))⁻¹ := by
  have h : (-(7 : ℝ) / 2) = -(3.5 : ℝ) := by norm_num
  show y ^ (-(7 : ℝ) / 2) = (y ^ (3.5 : ℝ))⁻¹
  rw [h, Real.rpow_neg hy.le]

theorem beta_drag_coef_reference (i0 a0 s e0 no q0 bstar ω0 : ℝ) (hη : (a0 * e0 * (1 / (a0 - s))) ^ 2 < 1) :
    ∃ θ ξ β0 η C1 C3, sgp4InitDrag i0 a0 s e0 no q0 (w_j2 / 2) bstar (-w_j3) = [θ, ξ, β0, η, C1, C3]
      ∧ θ = Real.cos i0 ∧ ξ = 1 / (a0 - s) ∧ β0 = Real.sqrt (1 - e0 ^ 2) ∧ η = a0 * e0 * ξ
      ∧ refCoefDrag no a0 s ((q0 - s) ^ 4) e0 i0 ω0 bstar = [η, C1, C3,
          (refCoefDrag no a0 s ((q0 - s) ^ 4) e0 i0 ω0 bstar).getD 3 0, (refCoefDrag no a0 s ((q0 - s) ^ 4) e0 i0 ω0 bstar).getD 4 0,
          bstar * C3 * Real.cos ω0,
          if e0 > 1.0e-4 then -((2 : ℝ) / 3) * ((q0 - s) ^ 4 * ξ ^ 4) * bstar / (e0 * η) else 0] := by
  refine ⟨_, _, _, _, _, _, rfl, rfl, rfl, rfl, rfl, ?_⟩
  simp only [refCoefDrag, List.cons.injEq, and_true, true_and, NumReal.powi, NumReal.sqrt, NumReal.cos, NumReal.sin, NumReal.rpow, NumReal.absR,
    List.getD_cons_succ, List.getD_cons_zero]
  have e10 : (1.0 : ℝ) = 1 := by norm_num
  have hg : (e0 > (1e-4 : ℝ)) ↔ (e0 > (1.0e-4 : ℝ)) := by norm_num
  have hj2 : w_j2 ≠ 0 := by simp only [w_j2]; norm_num
  simp only [rpow_four, e10, w_j3oj2]
  generalize 1 / (a0 - s) = ξ at hη ⊢
  generalize hηd : a0 * e0 * ξ = η at hη ⊢
  have hy : 0 < 1 - η ^ 2 := by linarith
  have habs : |1 - η * η| = 1 - η ^ 2 := by rw [abs_of_pos (by nlinarith)]; ring
  simp only [habs, rpow_m72 hy]
  have hP : Real.rpow (1 - η ^ 2) 3.5 ≠ 0 := (Real.rpow_pos_of_pos hy _).ne'
  generalize Real.rpow (1 - η ^ 2) 3.5 = P at hP ⊢
  have hyne : 1 - η ^ 2 ≠ 0 := hy.ne'
  refine ⟨trivial, ?_, ?_, ?_, ?_⟩
  · norm_num only
    field_simp
    ring
  · by_cases h : e0 > (1e-4 : ℝ)
    · rw [if_pos h, if_pos (hg.mp h)]
      norm_num only
      field_simp
    · rw [if_neg h, if_neg (fun h' => h (hg.mpr h'))]
  · by_cases h : e0 > (1e-4 : ℝ)
    · rw [if_pos h, if_pos (hg.mp h)]
      norm_num only
      field_simp
    · rw [if_neg h, if_neg (fun h' => h (hg.mpr h'))]
  · by_cases h : e0 > (1e-4 : ℝ)
    · simp only [if_pos (hg.mp h)]
    · simp only [if_neg (fun h' => h (hg.mpr h'))]; norm_num


theorem beta_ecc_coef_reference (i0 a0 s e0 no q0 bstar ω0 : ℝ) (hη : (a0 * e0 * (1 / (a0 - s))) ^ 2 < 1) (he : e0 ^ 2 ≤ 1) :
    ∃ C4 C5, sgp4InitEcc a0 (Real.sqrt (1 - e0 ^ 2)) (a0 * e0 * (1 / (a0 - s))) e0 (1 / (a0 - s)) (w_j2 / 2) no ω0 q0 s (Real.cos i0) = [C4, C5]
      ∧ (refCoefDrag no a0 s ((q0 - s) ^ 4) e0 i0 ω0 bstar).getD 3 0 = C4
      ∧ (refCoefDrag no a0 s ((q0 - s) ^ 4) e0 i0 ω0 bstar).getD 4 0 = C5 := by
  refine ⟨_, _, rfl, ?_⟩
  simp only [refCoefDrag, NumReal.powi, NumReal.sqrt, NumReal.cos, NumReal.sin, NumReal.rpow, NumReal.absR,
    List.getD_cons_succ, List.getD_cons_zero]
  have e10 : (1.0 : ℝ) = 1 := by norm_num
  simp only [rpow_four, e10, Real.sq_sqrt (by linarith : (0 : ℝ) ≤ 1 - e0 ^ 2)]
  generalize 1 / (a0 - s) = ξ at hη ⊢
  generalize hηd : a0 * e0 * ξ = η at hη ⊢
  have hy : 0 < 1 - η ^ 2 := by linarith
  have habs : |1 - η * η| = 1 - η ^ 2 := by rw [abs_of_pos (by nlinarith)]; ring
  simp only [habs, rpow_m72 hy]
  have hP : Real.rpow (1 - η ^ 2) 3.5 ≠ 0 := (Real.rpow_pos_of_pos hy _).ne'
  generalize Real.rpow (1 - η ^ 2) 3.5 = P at hP ⊢
  have hyne : 1 - η ^ 2 ≠ 0 := hy.ne'
  constructor
  · norm_num only
    field_simp
    ring
  · norm_num only
    field_simp

theorem rpow_three_half {x : ℝ} (hx : 0 ≤ x) : Real.rpow x ((3.0 : ℝ) / (2.0 : ℝ)) = Real.sqrt x * x := by
  have h : ((3.0 : ℝ) / (2.0 : ℝ)) = 1 / 2 + 1 := by norm_num
  show x ^ ((3.0 : ℝ) / (2.0 : ℝ)) = Real.sqrt x * x
  rw [h, Real.rpow_add' hx (by norm_num), Real.rpow_one, Real.sqrt_eq_rpow]

theorem beta_unkozai_reference (n0 e0 i0 : ℝ) (he : e0 ^ 2 ≤ 1) :
    ∃ no ao, refInitl e0 i0 (n0 * 60) = [no, ao]
      ∧ sgp4InitKozai n0 e0 i0 = [w_re, -w_j3, w_j2 / 2, -(3 / 8) * w_j4, ao, no] := by
  refine ⟨_, _, rfl, ?_⟩
  obtain ⟨-, h2, h3, h4, h5, h6⟩ := beta_consts_reference
  simp only [sgp4InitKozai, List.cons.injEq, and_true, true_and, NumReal.powi, NumReal.sqrt, NumReal.cos, NumReal.rpow, h2, h3, h4, h5, h6]
  have hx : (0 : ℝ) ≤ 1.0 - e0 ^ 2 := by norm_num only; linarith
  have e2 : (1.0 : ℝ) - e0 * e0 = 1.0 - e0 ^ 2 := by ring
  simp only [rpow_three_half hx, refInitl, NumReal.sqrt, NumReal.cos, NumReal.rpow, e2]
  generalize Real.rpow (w_xke / (n0 * 60)) (2 / 3) = ak
  generalize Real.sqrt (1.0 - e0 ^ 2) = r
  generalize (1.0 : ℝ) - e0 ^ 2 = om
  generalize Real.cos i0 = c
  have key : n0 * 60 / (1 + 3 / 2 * (1 / 2 * w_j2) * (3.0 * c ^ 2 - 1.0) / (r * om) /
        (ak * (1 - 1 / 3 * (3 / 2 * (1 / 2 * w_j2) * (3.0 * c ^ 2 - 1.0) / (r * om) / ak ^ 2)
          - (3 / 2 * (1 / 2 * w_j2) * (3.0 * c ^ 2 - 1.0) / (r * om) / ak ^ 2) ^ 2
          - 134.0 * (3 / 2 * (1 / 2 * w_j2) * (3.0 * c ^ 2 - 1.0) / (r * om) / ak ^ 2) ^ 3 / 81.0)) ^ 2)
      = n0 * 60 / (1.0 + 0.75 * w_j2 * (3.0 * (c * c) - 1.0) / (r * om) /
        (ak * (1.0 - 0.75 * w_j2 * (3.0 * (c * c) - 1.0) / (r * om) / (ak * ak) * (0.75 * w_j2 * (3.0 * (c * c) - 1.0) / (r * om) / (ak * ak))
            - 0.75 * w_j2 * (3.0 * (c * c) - 1.0) / (r * om) / (ak * ak) *
              (1.0 / 3.0 + 134.0 * (0.75 * w_j2 * (3.0 * (c * c) - 1.0) / (r * om) / (ak * ak))
                * (0.75 * w_j2 * (3.0 * (c * c) - 1.0) / (r * om) / (ak * ak)) / 81.0))
          * (ak * (1.0 - 0.75 * w_j2 * (3.0 * (c * c) - 1.0) / (r * om) / (ak * ak) * (0.75 * w_j2 * (3.0 * (c * c) - 1.0) / (r * om) / (ak * ak))
            - 0.75 * w_j2 * (3.0 * (c * c) - 1.0) / (r * om) / (ak * ak) *
              (1.0 / 3.0 + 134.0 * (0.75 * w_j2 * (3.0 * (c * c) - 1.0) / (r * om) / (ak * ak))
                * (0.75 * w_j2 * (3.0 * (c * c) - 1.0) / (r * om) / (ak * ak)) / 81.0))))) := by
    norm_num only
    ring
  refine ⟨by ring, by ring, ?_, key⟩
  rw [key]


theorem sin_fmod (x : ℝ) : Real.sin (NumReal.fmod x (2 * Real.pi)) = Real.sin x := by
  unfold NumReal.fmod
  rw [show x - 2 * Real.pi * ((⌊x / (2 * Real.pi)⌋ : ℤ) : ℝ) = x - ((⌊x / (2 * Real.pi)⌋ : ℤ) : ℝ) * (2 * Real.pi) by ring]
  exact Real.sin_sub_int_mul_two_pi x _

theorem beta_elements_reference (δM Mdf δω ωdf Ωdf C1 t θ β0 no a0 e0 bstar C5 C4 M0 D4 D3 D2 : ℝ)
    (ha0 : a0 = Real.rpow (w_xke / no) (2 / 3)) :
    ∃ ω Ω e a L, sgp4Elements δM Mdf δω ωdf Ωdf C1 t θ (w_j2 / 2) β0 no a0 e0 bstar C5 C4 M0 D4 D3 D2 = [ω, Ω, e, a, L]
      ∧ ∃ k : ℤ, refMean t M0 e0 no a0 bstar Mdf ωdf Ωdf δω δM C1 C4 C5
            (-(21 * no * (w_j2 / 2) * θ / (2 * a0 ^ 2 * β0 ^ 2)) * C1) (1.5 * C1) D2 D3 D4 (D2 + 2 * C1 ^ 2)
            (1 / 4 * (3 * D3 + 12 * C1 * D2 + 10 * C1 ^ 3))
            (1 / 5 * (3 * D4 + 12 * C1 * D3 + 6 * D2 ^ 2 + 30 * C1 ^ 2 * D2 + 15 * C1 ^ 4))
          = [Mdf + (δω + δM), ω, Ω, e, a, L + 2 * Real.pi * k] := by
  refine ⟨_, _, _, _, _, rfl, ⌊(Mdf + δω + δM) / (2 * Real.pi)⌋, ?_⟩
  simp only [refMean, List.cons.injEq, and_true, true_and, NumReal.powi, NumReal.sin, NumReal.pi, NumReal.rpow, sin_fmod, ← ha0]
  have e10 : (1.0 : ℝ) = 1 := by norm_num
  have hs : Real.sin (Mdf + (δω + δM)) = Real.sin (Mdf + δω + δM) := by rw [add_assoc]
  simp only [e10, hs]
  refine ⟨by ring, by ring, ?_, by ring, ?_⟩
  · have : e0 - bstar * C4 * t - bstar * C5 * (Real.sin (Mdf + δω + δM) - Real.sin M0)
        = e0 - (bstar * C4 * t + bstar * C5 * (Real.sin (Mdf + δω + δM) - Real.sin M0)) := by ring
    rw [this]
  · unfold NumReal.fmod
    norm_num only
    ring


theorem fmod_add_int_mul (x : ℝ) (k : ℤ) :
    NumReal.fmod (x + 2 * Real.pi * k) (2 * Real.pi) = NumReal.fmod x (2 * Real.pi) := by
  unfold NumReal.fmod
  have hp : (2 * Real.pi) ≠ 0 := by positivity
  have h : (x + 2 * Real.pi * k) / (2 * Real.pi) = x / (2 * Real.pi) + k := by field_simp
  rw [h, Int.floor_add_intCast]
  push_cast
  ring

theorem beta_long_reference (e μ a ω i0 L Ω xlm : ℝ) (k : ℤ) (hL : xlm = L + 2 * Real.pi * k) (he : e ^ 2 ≤ 1) :
    ∃ n axN ayN U, sgp4Long e μ a ω (-w_j3) i0 (w_j2 / 2) (Real.cos i0) L Ω = [n, axN, ayN, U]
      ∧ n = μ / Real.rpow a (3 / 2)
      ∧ ∃ xlcof aycof, refCoefLong i0 = [xlcof, aycof]
          ∧ refLong a e ω xlm Ω xlcof aycof = [axN, ayN, (refLong a e ω xlm Ω xlcof aycof).getD 2 0]
          ∧ U = NumReal.fmod ((refLong a e ω xlm Ω xlcof aycof).getD 2 0) (2 * Real.pi) := by
  refine ⟨_, _, _, _, rfl, rfl, _, _, rfl, ?_⟩
  simp only [refLong, refCoefLong, List.cons.injEq, and_true, true_and, NumReal.powi, NumReal.sin, NumReal.cos, NumReal.pi, NumReal.sqrt, NumReal.absR,
    Real.sq_sqrt (by linarith : (0 : ℝ) ≤ 1 - e ^ 2), List.getD_cons_succ, List.getD_cons_zero]
  have hj2 : w_j2 ≠ 0 := by simp only [w_j2]; norm_num
  have e10 : (1.0 : ℝ) = 1 := by norm_num
  have hc : 0 ≤ 1 + Real.cos i0 := by linarith [Real.neg_one_le_cos i0]
  have habs : |Real.cos i0 + 1| = 1 + Real.cos i0 := by rw [abs_of_nonneg (by linarith)]; ring
  simp only [e10, habs, w_j3oj2]
  constructor
  · norm_num only
    field_simp
    ring
  · rw [hL, ← fmod_add_int_mul _ k]
    congr 1
    by_cases h : 1 + Real.cos i0 > 15e-13
    · simp only [if_pos h]
      norm_num only
      field_simp
      ring
    · simp only [if_neg h]
      norm_num only
      field_simp
      ring


theorem beta_nodecf_reference (no a0 e0 β0 θ C1 : ℝ) (hβ2 : β0 ^ 2 = 1 - e0 ^ 2) (ha : a0 ≠ 0) (hβ : β0 ≠ 0) :
    3.5 * (1 - e0 * e0) * (-(1.5 * w_j2 * (1 / (a0 * (1 - e0 * e0) * (a0 * (1 - e0 * e0)))) * no) * θ) * C1
      = -(21 * no * (w_j2 / 2) * θ / (2 * a0 ^ 2 * β0 ^ 2)) * C1 := by
  have h1 : 1 - e0 * e0 = β0 ^ 2 := by rw [hβ2]; ring
  rw [h1]
  norm_num only
  field_simp
  ring

theorem beta_deltaM_guard (n0 i_n0 M0 t i_Mdot ω0 i_ωdot Ω0 i_Ωdot bstar i_C3 e0 i_η i_ξ i_q0 i_s : ℝ) :
    (sgp4Secular n0 i_n0 M0 t i_Mdot ω0 i_ωdot Ω0 i_Ωdot bstar i_C3 e0 i_η i_ξ i_q0 i_s).getD 8 0
      = if e0 > 1.0e-4 then
          -((2 : ℝ) / 3) * ((i_q0 - i_s) ^ 4 * i_ξ ^ 4) * bstar / (e0 * i_η)
            * ((1 + i_η * Real.cos (M0 + i_Mdot * i_n0 * t)) ^ 3 - (1 + i_η * Real.cos M0) ^ 3)
        else 0 := by
  rw [beta_secular_reference]
  simp only [refSecular, List.cons_append, List.nil_append, List.getD_cons_succ, List.getD_cons_zero, NumReal.cos]
  have e10 : (1.0 : ℝ) = 1 := by norm_num
  simp only [e10]
  by_cases h : e0 > (1.0e-4 : ℝ)
  · simp only [if_pos h]; ring
  · simp only [if_neg h]; ring


theorem w_xke_pos : 0 < w_xke := by
  simp only [w_xke, w_re, w_mu, NumReal.sqrt]
  apply div_pos (by norm_num)
  apply Real.sqrt_pos.mpr
  norm_num

theorem atan2_unit {x y : ℝ} (h : y ^ 2 + x ^ 2 = 1) :
    Real.sin (NumReal.atan2 y x) = y ∧ Real.cos (NumReal.atan2 y x) = x := by
  unfold NumReal.atan2
  have hn : ‖(⟨x, y⟩ : ℂ)‖ = 1 := by
    rw [Complex.norm_def, Complex.normSq_mk, show x * x + y * y = 1 by nlinarith, Real.sqrt_one]
  have hz : (⟨x, y⟩ : ℂ) ≠ 0 := by
    intro h0
    rw [h0, norm_zero] at hn
    exact zero_ne_one hn
  constructor
  · rw [Complex.sin_arg, hn]; simp
  · rw [Complex.cos_arg hz, hn]; simp

theorem kepler_unit (x y s c b a : ℝ) (hsc : s ^ 2 + c ^ 2 = 1) (hb : b ^ 2 = 1 - (x ^ 2 + y ^ 2)) (hb0 : 0 ≤ b)
    (ha : a ≠ 0) (hr : 1 - (x * c + y * s) ≠ 0) :
    (a / (a * (1 - (x * c + y * s))) * (s - y - x * (x * s - y * c) / (1 + b))) ^ 2
      + (a / (a * (1 - (x * c + y * s))) * (c - x + y * (x * s - y * c) / (1 + b))) ^ 2 = 1 := by
  have hT : 1 + b ≠ 0 := by positivity
  have key : (s - y - x * ((x * s - y * c) / (1 + b))) ^ 2 + (c - x + y * ((x * s - y * c) / (1 + b))) ^ 2 = (1 - (x * c + y * s)) ^ 2 := by
    generalize ht : (x * s - y * c) / (1 + b) = t
    have ht' : x * s - y * c = t * (1 + b) := by rw [← ht]; field_simp
    linear_combination (1 - x ^ 2 - y ^ 2) * hsc + t ^ 2 * hb + ((x * s - y * c) + t * (1 + b) - 2 * t) * ht'
  have e1 : a / (a * (1 - (x * c + y * s))) = 1 / (1 - (x * c + y * s)) := by field_simp
  rw [e1, mul_pow, mul_pow, ← mul_add, mul_div_assoc, mul_div_assoc, key]
  field_simp


theorem beta_short_reference (axN ayN E a i0 μ Ω : ℝ) (hμ : μ ≠ 0) (ha : 0 < a)
    (hr : 1 - (axN * Real.cos E + ayN * Real.sin E) ≠ 0) (hel : axN ^ 2 + ayN ^ 2 < 1) :
    sgp4Short axN ayN E a (w_j2 / 2) (Real.cos i0) i0 μ (μ / Real.rpow a (3 / 2)) Ω
      = refShortTerms a (w_xke / Real.rpow a 1.5) axN ayN E Ω i0 (3.0 * (Real.cos i0 * Real.cos i0) - 1.0)
          (1.0 - Real.cos i0 * Real.cos i0) (7.0 * (Real.cos i0 * Real.cos i0) - 1.0) := by
  have hk := w_xke_pos.ne'
  have hnn : (0 : ℝ) ≤ axN ^ 2 + ayN ^ 2 := by positivity
  have e15 : (1.5 : ℝ) = 3 / 2 := by norm_num
  have e10 : (1.0 : ℝ) = 1 := by norm_num
  have el : axN * axN + ayN * ayN = axN ^ 2 + ayN ^ 2 := by ring
  simp only [sgp4Short, refShortTerms, NumReal.powi, NumReal.sin, NumReal.cos, NumReal.sqrt, Real.sq_sqrt hnn, e15, e10, el]
  have hb2 : Real.sqrt (1 - (axN ^ 2 + ayN ^ 2)) ^ 2 = 1 - (axN ^ 2 + ayN ^ 2) := Real.sq_sqrt (by linarith)
  have hb0 : 0 ≤ Real.sqrt (1 - (axN ^ 2 + ayN ^ 2)) := Real.sqrt_nonneg _
  have hu := kepler_unit axN ayN (Real.sin E) (Real.cos E) _ a (Real.sin_sq_add_cos_sq E) hb2 hb0 ha.ne' hr
  have hA : Real.rpow a (3 / 2) ≠ 0 := (Real.rpow_pos_of_pos ha _).ne'
  have hp : 1 - (axN ^ 2 + ayN ^ 2) ≠ 0 := by linarith
  generalize Real.sqrt (1 - (axN ^ 2 + ayN ^ 2)) = b at hu hb2 hb0 ⊢
  generalize Real.rpow a (3 / 2) = A at hA ⊢
  generalize Real.sqrt (a * (1 - (axN ^ 2 + ayN ^ 2))) = sp
  generalize Real.sqrt a = sa
  have e1 : axN * ((axN * Real.sin E - ayN * Real.cos E) / (1 + b)) = axN * (axN * Real.sin E - ayN * Real.cos E) / (1 + b) := by ring
  have e2 : ayN * ((axN * Real.sin E - ayN * Real.cos E) / (1 + b)) = ayN * (axN * Real.sin E - ayN * Real.cos E) / (1 + b) := by ring
  simp only [e1, e2]
  generalize a / (a * (1 - (axN * Real.cos E + ayN * Real.sin E))) * (Real.sin E - ayN - axN * (axN * Real.sin E - ayN * Real.cos E) / (1 + b)) = SU at hu ⊢
  generalize a / (a * (1 - (axN * Real.cos E + ayN * Real.sin E))) * (Real.cos E - axN + ayN * (axN * Real.sin E - ayN * Real.cos E) / (1 + b)) = CU at hu ⊢
  obtain ⟨hsin, hcos⟩ := atan2_unit hu
  have hC : CU ^ 2 = 1 - SU ^ 2 := by linarith
  simp only [Real.cos_two_mul, Real.sin_two_mul, hsin, hcos, hC, List.cons.injEq, and_true]
  have har := ha.ne'
  refine ⟨?_, ?_, ?_, ?_, ?_, ?_⟩
  · norm_num only
    field_simp
    ring
  · norm_num only
    field_simp
    ring
  · norm_num only
    field_simp
    ring
  · norm_num only
    field_simp
    ring
  · norm_num only
    field_simp
    ring
  · norm_num only
    field_simp
    ring


theorem beta_frame_reference (ik Ωk uk rk rdotk rfdotk : ℝ) :
    sgp4Frame ik Ωk uk w_re rk rdotk rfdotk w_xke = (refFrame rk uk Ωk ik rdotk rfdotk).map (· * 1000) := by
  simp only [sgp4Frame, refFrame, List.map_cons, List.map_nil, List.cons.injEq, and_true, NumReal.sin, NumReal.cos]
  have e60 : (60.0 : ℝ) = 60 := by norm_num
  simp only [e60]
  norm_num only
  refine ⟨?_, ?_, ?_, ?_, ?_, ?_⟩ <;> first | trivial | ring

end BeyondVerif.C07
