import BeyondVerif.Generated.Sgp4BetaR
import BeyondVerif.Model.Sgp4RefR
import BeyondVerif.Lemmas.Sgp4Ref
import Mathlib.Tactic.LinearCombination
import Mathlib.Tactic.NormNum
import Mathlib.Tactic.FieldSimp
import Mathlib.Tactic.Positivity
import Mathlib.Tactic.NormNum.OfScientific

/-!
# C07, part 3 — the native SGP4 model IS the reference theory, piece by piece (over ℝ)

Clause: "The built-in native SGP4 implementation returns the same state as the reference … wherever the reference uses its
full near-Earth model".

Left-hand sides: `Generated/Sgp4BetaR.lean`, translated from the Python AST of `beyond/propagators/sgp4beta.py` on every run
(setter cut into `sgp4InitKozai | sgp4InitS | sgp4InitDrag | sgp4InitEcc | sgp4InitD | sgp4InitDot`, `propagate` cut into
`sgp4Secular | sgp4Elements | sgp4Long | sgp4Kepler | sgp4Short | sgp4Frame`).
Right-hand sides: `Model/Sgp4RefR.lean` (`templates/Sgp4Ref.tpl`), the hand-written transcription of python-sgp4's
`_initl / sgp4init / sgp4` for `method = 'n'`, `isimp = 0`, whose Float instantiation is compared with the package itself
field by field on every run (correspondence "refspec").

Every theorem is ∀ inputs of the piece; the guards of the native model (`e0 > 1e-4` for C3 and for the `delta_M` drag
correction, perigee < 156 / 98 km for `s`, `e < 1e-6`, `1 + cos i > 1.5e-12`) are part of the statements: the reference's
guards stand on the right-hand side, written by hand, so a reworded guard in sgp4beta.py that is not equivalent for ALL
inputs (e.g. `C3 != 0` for `e0 > 1e-4`: false at sin i0 = 0) makes the regenerated left-hand side differ and the proof fail.

Not equated (stated in `NOT_COVERED`): the two Kepler iterations (the reference clips each correction to 0.95 and applies the
last one; the native loop does neither — both stop at a Newton correction below 1e-12, `beta_kepler_residual`), and the
reference's error exits.
-/
namespace BeyondVerif.C07
open BeyondVerif.R

/-- the gravity constants of the class `Sgp4Beta.MODEL` names (regenerated) are the reference's `getgravconst('wgs72')` -/
theorem beta_consts_reference :
    g_μ_e = w_mu ∧ g_r_e = w_re ∧ g_k_e = w_xke ∧ g_j2 = w_j2 ∧ g_j3 = w_j3 ∧ g_j4 = w_j4 := by
  refine ⟨rfl, rfl, ?_, rfl, ?_, ?_⟩
  · simp only [g_k_e, w_xke, g_r_e, g_μ_e, w_re, w_mu, NumReal.powi]
    norm_num
  · simp only [g_j3, w_j3]
  · simp only [g_j4, w_j4]

/-- "update for secular gravity and atmospheric drag": the first piece of `propagate` returns the reference's
`xmdf, argpdf, nodedf, delomg, delm` — with `xmcof` non-zero exactly when `e0 > 1e-4`, the reference's guard, for ALL cached
values (in particular whatever `C3` is) -/
theorem beta_secular_reference (n0 i_n0 M0 t i_Mdot ω0 i_ωdot Ω0 i_Ωdot bstar i_C3 e0 i_η i_ξ i_q0 i_s : ℝ) :
    sgp4Secular n0 i_n0 M0 t i_Mdot ω0 i_ωdot Ω0 i_Ωdot bstar i_C3 e0 i_η i_ξ i_q0 i_s
      = [i_n0, g_μ_e, g_r_e, g_k_e] ++ refSecular t M0 ω0 Ω0 i_η (i_Mdot * i_n0) (i_ωdot * i_n0) (i_Ωdot * i_n0) (bstar * i_C3 * Real.cos ω0)
          (if e0 > 1.0e-4 then -((2 : ℝ) / 3) * ((i_q0 - i_s) ^ 4 * i_ξ ^ 4) * bstar / (e0 * i_η) else 0) := by
  simp only [sgp4Secular, refSecular, List.cons_append, List.nil_append, List.cons.injEq, and_true, true_and, NumReal.powi, NumReal.cos]
  have hg : (e0 > (1e-4 : ℝ)) ↔ (e0 > (1.0e-4 : ℝ)) := by norm_num
  by_cases h : e0 > (1e-4 : ℝ)
  · rw [if_pos h, if_pos (hg.mp h)]
    have e1 : (1.0 : ℝ) = 1 := by norm_num
    simp only [e1]
    ring
  · rw [if_neg h, if_neg (fun h' => h (hg.mpr h'))]; norm_num

/-- `D2, D3, D4` are the reference's `d2, d3, d4`, and the polynomial coefficients the native model writes inline are `nodecf`-free `t2cof … t5cof` -/
theorem beta_d_reference (ξ C1 a0 s e0 xh : ℝ) (hξ : ξ = 1 / (a0 - s)) :
    ∃ D2 D3 D4, sgp4InitD ξ C1 a0 s = [D2, D3, D4] ∧
      refCoefD a0 s e0 C1 xh = [3.5 * (1 - e0 * e0) * xh * C1, 1.5 * C1, D2, D3, D4, D2 + 2 * C1 ^ 2,
        1 / 4 * (3 * D3 + 12 * C1 * D2 + 10 * C1 ^ 3),
        1 / 5 * (3 * D4 + 12 * C1 * D3 + 6 * D2 ^ 2 + 30 * C1 ^ 2 * D2 + 15 * C1 ^ 4)] := by
  refine ⟨_, _, _, rfl, ?_⟩
  subst hξ
  simp only [refCoefD, List.cons.injEq, and_true, NumReal.powi]
  norm_num only
  refine ⟨?_, ?_, ?_, ?_, ?_, ?_, ?_, ?_⟩ <;> first | trivial | ring

/-- the density-function constants: `s` is the reference's `sfour`, `(q0 - s)^4` its `qzms24`, with the same switches at perigee heights 156 km and 98 km -/
theorem beta_s4_reference (a0 e0 : ℝ) :
    ∃ s q0, sgp4InitS a0 e0 w_re = [s, q0] ∧
      refS4 a0 e0 = [s, (q0 - s) ^ 4, if a0 * (1 - e0) < 220 / w_re + 1 then 1 else 0] := by
  refine ⟨_, _, rfl, ?_⟩
  simp only [refS4]
  norm_num only
  by_cases h1 : (a0 * (1 - e0) - 1) * w_re < 156
  · by_cases h2 : (a0 * (1 - e0) - 1) * w_re < 98
    · simp only [h1, h2, if_true, List.cons.injEq, and_true, true_and]
      ring
    · simp only [h1, h2, if_true, if_false, List.cons.injEq, and_true, true_and]
      ring
  · simp only [h1, if_false, List.cons.injEq, and_true, true_and]
    ring

/-- secular rates: `Mdot·n0'', ωdot·n0'', Ωdot·n0''` are the reference's `mdot, argpdot, nodedot`, for every eccentricity below 1 -/
theorem beta_dot_reference (β0 a0 e0 i0 no : ℝ) (hβ : β0 = Real.sqrt (1 - e0 ^ 2)) (he : e0 ^ 2 < 1) (ha : a0 ≠ 0) :
    ∃ Md ωd Ωd, sgp4InitDot β0 (w_j2 / 2) a0 (Real.cos i0) (-(3 / 8) * w_j4) = [Md, ωd, Ωd] ∧
      refCoefDot no a0 e0 i0 = [Md * no, ωd * no, Ωd * no,
        -(1.5 * w_j2 * (1 / (a0 * (1 - e0 * e0) * (a0 * (1 - e0 * e0)))) * no) * Real.cos i0] := by
  have hpos : 0 < 1 - e0 ^ 2 := by linarith
  have hβpos : 0 < β0 := by rw [hβ]; exact Real.sqrt_pos.mpr hpos
  have hβ2 : β0 ^ 2 = 1 - e0 ^ 2 := by rw [hβ]; exact Real.sq_sqrt hpos.le
  have h1 : 1 - e0 * e0 = β0 ^ 2 := by rw [hβ2]; ring
  have hs : Real.sqrt (β0 ^ 2) = β0 := Real.sqrt_sq hβpos.le
  refine ⟨_, _, _, rfl, ?_⟩
  simp only [refCoefDot, sgp4InitDot, List.cons.injEq, and_true, NumReal.powi, NumReal.sqrt, NumReal.cos]
  norm_num only
  simp only [h1, hs]
  have hβne : β0 ≠ 0 := hβpos.ne'
  refine ⟨?_, ?_, ?_, ?_⟩
  · field_simp; ring
  · field_simp; ring
  · field_simp; ring
  · trivial

/-- drag coefficients: `η = eta`, `C1 = cc1`, `C3 = cc3` (both zero unless `e0 > 1e-4`), and the reference's `omgcof`, `xmcof`
in terms of the cached values — whenever `η² < 1` -/
theorem beta_drag_coef_reference (i0 a0 s e0 no q0 bstar ω0 : ℝ) (hη : (a0 * e0 * (1 / (a0 - s))) ^ 2 < 1) :
    ∃ θ ξ β0 η C1 C3, sgp4InitDrag i0 a0 s e0 no q0 (w_j2 / 2) bstar (-w_j3) = [θ, ξ, β0, η, C1, C3]
      ∧ θ = Real.cos i0 ∧ ξ = 1 / (a0 - s) ∧ β0 = Real.sqrt (1 - e0 ^ 2) ∧ η = a0 * e0 * ξ
      ∧ refCoefDrag no a0 s ((q0 - s) ^ 4) e0 i0 ω0 bstar = [η, C1, C3,
          (refCoefDrag no a0 s ((q0 - s) ^ 4) e0 i0 ω0 bstar).getD 3 0, (refCoefDrag no a0 s ((q0 - s) ^ 4) e0 i0 ω0 bstar).getD 4 0,
          bstar * C3 * Real.cos ω0,
          if e0 > 1.0e-4 then -((2 : ℝ) / 3) * ((q0 - s) ^ 4 * ξ ^ 4) * bstar / (e0 * η) else 0] := by
  refine ⟨_, _, _, _, _, _, rfl, rfl, rfl, rfl, rfl, ?_⟩
  simp only [refCoefDrag, List.cons.injEq, and_true, true_and, NumReal.powi, NumReal.sqrt, NumReal.cos, NumReal.sin, NumReal.rpow, NumReal.absR,
    List.getD_cons_succ, List.getD_cons_zero]
  have e10 : (1.0 : ℝ) = 1 := by norm_num
  have hg : (e0 > (1e-4 : ℝ)) ↔ (e0 > (1.0e-4 : ℝ)) := by norm_num
  have hj2 : w_j2 ≠ 0 := by simp only [w_j2]; norm_num
  simp only [rpow_four, e10, w_j3oj2]
  generalize 1 / (a0 - s) = ξ at hη ⊢
  generalize hηd : a0 * e0 * ξ = η at hη ⊢
  have hy : 0 < 1 - η ^ 2 := by linarith
  have habs : |1 - η * η| = 1 - η ^ 2 := by rw [abs_of_pos (by nlinarith)]; ring
  simp only [habs, rpow_m72 hy]
  have hP : Real.rpow (1 - η ^ 2) 3.5 ≠ 0 := (Real.rpow_pos_of_pos hy _).ne'
  generalize Real.rpow (1 - η ^ 2) 3.5 = P at hP ⊢
  have hyne : 1 - η ^ 2 ≠ 0 := hy.ne'
  refine ⟨trivial, ?_, ?_, ?_, ?_⟩
  · norm_num only
    field_simp
    ring
  · by_cases h : e0 > (1e-4 : ℝ)
    · rw [if_pos h, if_pos (hg.mp h)]
      norm_num only
      field_simp
    · rw [if_neg h, if_neg (fun h' => h (hg.mpr h'))]
  · by_cases h : e0 > (1e-4 : ℝ)
    · rw [if_pos h, if_pos (hg.mp h)]
      norm_num only
      field_simp
    · rw [if_neg h, if_neg (fun h' => h (hg.mpr h'))]
  · by_cases h : e0 > (1e-4 : ℝ)
    · simp only [if_pos (hg.mp h)]
    · simp only [if_neg (fun h' => h (hg.mpr h'))]; norm_num

/-- `C4 = cc4`, `C5 = cc5` -/
theorem beta_ecc_coef_reference (i0 a0 s e0 no q0 bstar ω0 : ℝ) (hη : (a0 * e0 * (1 / (a0 - s))) ^ 2 < 1) (he : e0 ^ 2 ≤ 1) :
    ∃ C4 C5, sgp4InitEcc a0 (Real.sqrt (1 - e0 ^ 2)) (a0 * e0 * (1 / (a0 - s))) e0 (1 / (a0 - s)) (w_j2 / 2) no ω0 q0 s (Real.cos i0) = [C4, C5]
      ∧ (refCoefDrag no a0 s ((q0 - s) ^ 4) e0 i0 ω0 bstar).getD 3 0 = C4
      ∧ (refCoefDrag no a0 s ((q0 - s) ^ 4) e0 i0 ω0 bstar).getD 4 0 = C5 := by
  refine ⟨_, _, rfl, ?_⟩
  simp only [refCoefDrag, NumReal.powi, NumReal.sqrt, NumReal.cos, NumReal.sin, NumReal.rpow, NumReal.absR,
    List.getD_cons_succ, List.getD_cons_zero]
  have e10 : (1.0 : ℝ) = 1 := by norm_num
  simp only [rpow_four, e10, Real.sq_sqrt (by linarith : (0 : ℝ) ≤ 1 - e0 ^ 2)]
  generalize 1 / (a0 - s) = ξ at hη ⊢
  generalize hηd : a0 * e0 * ξ = η at hη ⊢
  have hy : 0 < 1 - η ^ 2 := by linarith
  have habs : |1 - η * η| = 1 - η ^ 2 := by rw [abs_of_pos (by nlinarith)]; ring
  simp only [habs, rpow_m72 hy]
  have hP : Real.rpow (1 - η ^ 2) 3.5 ≠ 0 := (Real.rpow_pos_of_pos hy _).ne'
  generalize Real.rpow (1 - η ^ 2) 3.5 = P at hP ⊢
  have hyne : 1 - η ^ 2 ≠ 0 := hy.ne'
  constructor
  · norm_num only
    field_simp
    ring
  · norm_num only
    field_simp

/-- `_initl`: the un-Kozai'd mean motion and the semi-major axis, and the constants `A30 = -j3`, `k2 = j2/2`, `k4 = -3/8 j4` -/
theorem beta_unkozai_reference (n0 e0 i0 : ℝ) (he : e0 ^ 2 ≤ 1) :
    ∃ no ao, refInitl e0 i0 (n0 * 60) = [no, ao]
      ∧ sgp4InitKozai n0 e0 i0 = [w_re, -w_j3, w_j2 / 2, -(3 / 8) * w_j4, ao, no] := by
  refine ⟨_, _, rfl, ?_⟩
  obtain ⟨-, h2, h3, h4, h5, h6⟩ := beta_consts_reference
  simp only [sgp4InitKozai, List.cons.injEq, and_true, true_and, NumReal.powi, NumReal.sqrt, NumReal.cos, NumReal.rpow, h2, h3, h4, h5, h6]
  have hx : (0 : ℝ) ≤ 1.0 - e0 ^ 2 := by norm_num only; linarith
  have e2 : (1.0 : ℝ) - e0 * e0 = 1.0 - e0 ^ 2 := by ring
  simp only [rpow_three_half hx, refInitl, NumReal.sqrt, NumReal.cos, NumReal.rpow, e2]
  generalize Real.rpow (w_xke / (n0 * 60)) (2 / 3) = ak
  generalize Real.sqrt (1.0 - e0 ^ 2) = r
  generalize (1.0 : ℝ) - e0 ^ 2 = om
  generalize Real.cos i0 = c
  have key : n0 * 60 / (1 + 3 / 2 * (1 / 2 * w_j2) * (3.0 * c ^ 2 - 1.0) / (r * om) /
        (ak * (1 - 1 / 3 * (3 / 2 * (1 / 2 * w_j2) * (3.0 * c ^ 2 - 1.0) / (r * om) / ak ^ 2)
          - (3 / 2 * (1 / 2 * w_j2) * (3.0 * c ^ 2 - 1.0) / (r * om) / ak ^ 2) ^ 2
          - 134.0 * (3 / 2 * (1 / 2 * w_j2) * (3.0 * c ^ 2 - 1.0) / (r * om) / ak ^ 2) ^ 3 / 81.0)) ^ 2)
      = n0 * 60 / (1.0 + 0.75 * w_j2 * (3.0 * (c * c) - 1.0) / (r * om) /
        (ak * (1.0 - 0.75 * w_j2 * (3.0 * (c * c) - 1.0) / (r * om) / (ak * ak) * (0.75 * w_j2 * (3.0 * (c * c) - 1.0) / (r * om) / (ak * ak))
            - 0.75 * w_j2 * (3.0 * (c * c) - 1.0) / (r * om) / (ak * ak) *
              (1.0 / 3.0 + 134.0 * (0.75 * w_j2 * (3.0 * (c * c) - 1.0) / (r * om) / (ak * ak))
                * (0.75 * w_j2 * (3.0 * (c * c) - 1.0) / (r * om) / (ak * ak)) / 81.0))
          * (ak * (1.0 - 0.75 * w_j2 * (3.0 * (c * c) - 1.0) / (r * om) / (ak * ak) * (0.75 * w_j2 * (3.0 * (c * c) - 1.0) / (r * om) / (ak * ak))
            - 0.75 * w_j2 * (3.0 * (c * c) - 1.0) / (r * om) / (ak * ak) *
              (1.0 / 3.0 + 134.0 * (0.75 * w_j2 * (3.0 * (c * c) - 1.0) / (r * om) / (ak * ak))
                * (0.75 * w_j2 * (3.0 * (c * c) - 1.0) / (r * om) / (ak * ak)) / 81.0))))) := by
    norm_num only
    ring
  refine ⟨by ring, by ring, ?_, key⟩
  rw [key]

/-- the mean elements at `t`: argument of perigee, node, eccentricity (with the 1e-6 floor), semi-major axis are the
reference's `argpm, nodem, em, am`; the mean longitude differs from `xlm` by a whole number of turns -/
theorem beta_elements_reference (δM Mdf δω ωdf Ωdf C1 t θ β0 no a0 e0 bstar C5 C4 M0 D4 D3 D2 : ℝ)
    (ha0 : a0 = Real.rpow (w_xke / no) (2 / 3)) :
    ∃ ω Ω e a L, sgp4Elements δM Mdf δω ωdf Ωdf C1 t θ (w_j2 / 2) β0 no a0 e0 bstar C5 C4 M0 D4 D3 D2 = [ω, Ω, e, a, L]
      ∧ ∃ k : ℤ, refMean t M0 e0 no a0 bstar Mdf ωdf Ωdf δω δM C1 C4 C5
            (-(21 * no * (w_j2 / 2) * θ / (2 * a0 ^ 2 * β0 ^ 2)) * C1) (1.5 * C1) D2 D3 D4 (D2 + 2 * C1 ^ 2)
            (1 / 4 * (3 * D3 + 12 * C1 * D2 + 10 * C1 ^ 3))
            (1 / 5 * (3 * D4 + 12 * C1 * D3 + 6 * D2 ^ 2 + 30 * C1 ^ 2 * D2 + 15 * C1 ^ 4))
          = [Mdf + (δω + δM), ω, Ω, e, a, L + 2 * Real.pi * k] := by
  refine ⟨_, _, _, _, _, rfl, ⌊(Mdf + δω + δM) / (2 * Real.pi)⌋, ?_⟩
  simp only [refMean, List.cons.injEq, and_true, true_and, NumReal.powi, NumReal.sin, NumReal.pi, NumReal.rpow, sin_fmod, ← ha0]
  have e10 : (1.0 : ℝ) = 1 := by norm_num
  have hs : Real.sin (Mdf + (δω + δM)) = Real.sin (Mdf + δω + δM) := by rw [add_assoc]
  simp only [e10, hs]
  refine ⟨by ring, by ring, ?_, by ring, ?_⟩
  · have : e0 - bstar * C4 * t - bstar * C5 * (Real.sin (Mdf + δω + δM) - Real.sin M0)
        = e0 - (bstar * C4 * t + bstar * C5 * (Real.sin (Mdf + δω + δM) - Real.sin M0)) := by ring
    rw [this]
  · unfold NumReal.fmod
    norm_num only
    ring

/-- long-period periodics: `axN, ayN` are `axnl, aynl`, and the argument of Kepler's equation is the reference's `u`
(`xlcof` with its guard at 180 degrees, `aycof`), given a mean longitude equal up to whole turns -/
theorem beta_long_reference (e μ a ω i0 L Ω xlm : ℝ) (k : ℤ) (hL : xlm = L + 2 * Real.pi * k) (he : e ^ 2 ≤ 1) :
    ∃ n axN ayN U, sgp4Long e μ a ω (-w_j3) i0 (w_j2 / 2) (Real.cos i0) L Ω = [n, axN, ayN, U]
      ∧ n = μ / Real.rpow a (3 / 2)
      ∧ ∃ xlcof aycof, refCoefLong i0 = [xlcof, aycof]
          ∧ refLong a e ω xlm Ω xlcof aycof = [axN, ayN, (refLong a e ω xlm Ω xlcof aycof).getD 2 0]
          ∧ U = NumReal.fmod ((refLong a e ω xlm Ω xlcof aycof).getD 2 0) (2 * Real.pi) := by
  refine ⟨_, _, _, _, rfl, rfl, _, _, rfl, ?_⟩
  simp only [refLong, refCoefLong, List.cons.injEq, and_true, true_and, NumReal.powi, NumReal.sin, NumReal.cos, NumReal.pi, NumReal.sqrt, NumReal.absR,
    Real.sq_sqrt (by linarith : (0 : ℝ) ≤ 1 - e ^ 2), List.getD_cons_succ, List.getD_cons_zero]
  have hj2 : w_j2 ≠ 0 := by simp only [w_j2]; norm_num
  have e10 : (1.0 : ℝ) = 1 := by norm_num
  have hc : 0 ≤ 1 + Real.cos i0 := by linarith [Real.neg_one_le_cos i0]
  have habs : |Real.cos i0 + 1| = 1 + Real.cos i0 := by rw [abs_of_nonneg (by linarith)]; ring
  simp only [e10, habs, w_j3oj2]
  constructor
  · norm_num only
    field_simp
    ring
  · rw [hL, ← fmod_add_int_mul _ k]
    congr 1
    by_cases h : 1 + Real.cos i0 > 15e-13
    · simp only [if_pos h]
      norm_num only
      field_simp
      ring
    · simp only [if_neg h]
      norm_num only
      field_simp
      ring

/-- the coefficient of `t²` in the node is the reference's `nodecf = 3.5·omeosq·xhdot1·cc1` -/
theorem beta_nodecf_reference (no a0 e0 β0 θ C1 : ℝ) (hβ2 : β0 ^ 2 = 1 - e0 ^ 2) (ha : a0 ≠ 0) (hβ : β0 ≠ 0) :
    3.5 * (1 - e0 * e0) * (-(1.5 * w_j2 * (1 / (a0 * (1 - e0 * e0) * (a0 * (1 - e0 * e0)))) * no) * θ) * C1
      = -(21 * no * (w_j2 / 2) * θ / (2 * a0 ^ 2 * β0 ^ 2)) * C1 := by
  have h1 : 1 - e0 * e0 = β0 ^ 2 := by rw [hβ2]; ring
  rw [h1]
  norm_num only
  field_simp
  ring

/-- The guard of the `delta_M` drag correction, pinned: for ALL inputs the term is Vallado's `xmcof·((1 + η cos xmdf)³ - delmo)`
when `e0 > 1e-4` and zero otherwise -/
theorem beta_deltaM_guard (n0 i_n0 M0 t i_Mdot ω0 i_ωdot Ω0 i_Ωdot bstar i_C3 e0 i_η i_ξ i_q0 i_s : ℝ) :
    (sgp4Secular n0 i_n0 M0 t i_Mdot ω0 i_ωdot Ω0 i_Ωdot bstar i_C3 e0 i_η i_ξ i_q0 i_s).getD 8 0
      = if e0 > 1.0e-4 then
          -((2 : ℝ) / 3) * ((i_q0 - i_s) ^ 4 * i_ξ ^ 4) * bstar / (e0 * i_η)
            * ((1 + i_η * Real.cos (M0 + i_Mdot * i_n0 * t)) ^ 3 - (1 + i_η * Real.cos M0) ^ 3)
        else 0 := by
  rw [beta_secular_reference]
  simp only [refSecular, List.cons_append, List.nil_append, List.getD_cons_succ, List.getD_cons_zero, NumReal.cos]
  have e10 : (1.0 : ℝ) = 1 := by norm_num
  simp only [e10]
  by_cases h : e0 > (1.0e-4 : ℝ)
  · simp only [if_pos h]; ring
  · simp only [if_neg h]; ring

/-- short-period periodics: the six quantities handed to the frame are the reference's `mrt, su, xnode, xinc, mvt, rvdot`
(the reference forms `sin 2u, cos 2u` from `sinu, cosu`; they are the sine and cosine of `2·atan2(sinu, cosu)` because
`(sinu, cosu)` is a unit vector, `kepler_unit`) — for every eccentric longitude, solved or not -/
theorem beta_short_reference (axN ayN E a i0 μ Ω : ℝ) (hμ : μ ≠ 0) (ha : 0 < a)
    (hr : 1 - (axN * Real.cos E + ayN * Real.sin E) ≠ 0) (hel : axN ^ 2 + ayN ^ 2 < 1) :
    sgp4Short axN ayN E a (w_j2 / 2) (Real.cos i0) i0 μ (μ / Real.rpow a (3 / 2)) Ω
      = refShortTerms a (w_xke / Real.rpow a 1.5) axN ayN E Ω i0 (3.0 * (Real.cos i0 * Real.cos i0) - 1.0)
          (1.0 - Real.cos i0 * Real.cos i0) (7.0 * (Real.cos i0 * Real.cos i0) - 1.0) := by
  have hk := w_xke_pos.ne'
  have hnn : (0 : ℝ) ≤ axN ^ 2 + ayN ^ 2 := by positivity
  have e15 : (1.5 : ℝ) = 3 / 2 := by norm_num
  have e10 : (1.0 : ℝ) = 1 := by norm_num
  have el : axN * axN + ayN * ayN = axN ^ 2 + ayN ^ 2 := by ring
  simp only [sgp4Short, refShortTerms, NumReal.powi, NumReal.sin, NumReal.cos, NumReal.sqrt, Real.sq_sqrt hnn, e15, e10, el]
  have hb2 : Real.sqrt (1 - (axN ^ 2 + ayN ^ 2)) ^ 2 = 1 - (axN ^ 2 + ayN ^ 2) := Real.sq_sqrt (by linarith)
  have hb0 : 0 ≤ Real.sqrt (1 - (axN ^ 2 + ayN ^ 2)) := Real.sqrt_nonneg _
  have hu := kepler_unit axN ayN (Real.sin E) (Real.cos E) _ a (Real.sin_sq_add_cos_sq E) hb2 hb0 ha.ne' hr
  have hA : Real.rpow a (3 / 2) ≠ 0 := (Real.rpow_pos_of_pos ha _).ne'
  have hp : 1 - (axN ^ 2 + ayN ^ 2) ≠ 0 := by linarith
  generalize Real.sqrt (1 - (axN ^ 2 + ayN ^ 2)) = b at hu hb2 hb0 ⊢
  generalize Real.rpow a (3 / 2) = A at hA ⊢
  generalize Real.sqrt (a * (1 - (axN ^ 2 + ayN ^ 2))) = sp
  generalize Real.sqrt a = sa
  have e1 : axN * ((axN * Real.sin E - ayN * Real.cos E) / (1 + b)) = axN * (axN * Real.sin E - ayN * Real.cos E) / (1 + b) := by ring
  have e2 : ayN * ((axN * Real.sin E - ayN * Real.cos E) / (1 + b)) = ayN * (axN * Real.sin E - ayN * Real.cos E) / (1 + b) := by ring
  simp only [e1, e2]
  generalize a / (a * (1 - (axN * Real.cos E + ayN * Real.sin E))) * (Real.sin E - ayN - axN * (axN * Real.sin E - ayN * Real.cos E) / (1 + b)) = SU at hu ⊢
  generalize a / (a * (1 - (axN * Real.cos E + ayN * Real.sin E))) * (Real.cos E - axN + ayN * (axN * Real.sin E - ayN * Real.cos E) / (1 + b)) = CU at hu ⊢
  obtain ⟨hsin, hcos⟩ := atan2_unit hu
  have hC : CU ^ 2 = 1 - SU ^ 2 := by linarith
  simp only [Real.cos_two_mul, Real.sin_two_mul, hsin, hcos, hC, List.cons.injEq, and_true]
  have har := ha.ne'
  refine ⟨?_, ?_, ?_, ?_, ?_, ?_⟩
  · norm_num only
    field_simp
    ring
  · norm_num only
    field_simp
    ring
  · norm_num only
    field_simp
    ring
  · norm_num only
    field_simp
    ring
  · norm_num only
    field_simp
    ring
  · norm_num only
    field_simp
    ring

/-- orientation vectors: the state in metres is 1000 × the reference's kilometres -/
theorem beta_frame_reference (ik Ωk uk rk rdotk rfdotk : ℝ) :
    sgp4Frame ik Ωk uk w_re rk rdotk rfdotk w_xke = (refFrame rk uk Ωk ik rdotk rfdotk).map (· * 1000) := by
  simp only [sgp4Frame, refFrame, List.map_cons, List.map_nil, List.cons.injEq, and_true, NumReal.sin, NumReal.cos]
  have e60 : (60.0 : ℝ) = 60 := by norm_num
  simp only [e60]
  norm_num only
  refine ⟨?_, ?_, ?_, ?_, ?_, ?_⟩ <;> first | trivial | ring


/-- The whole initialisation: the twenty cached values of the setter (composition `sgp4Init`, the function the driver runs)
and the record `sgp4init` builds (composition `refInit`, the function compared with python-sgp4) — same `no_unkozai, ao, eta,
cc1, cc3, cc4, cc5, mdot, argpdot, nodedot, omgcof, xmcof, nodecf, t2cof, d2 … t5cof` for every TLE with `e0 < 1`, `η² < 1` -/
theorem beta_init_reference (i0 Ω0 e0 ω0 M0 n0 bstar : ℝ) (he : e0 ^ 2 < 1) :
    ∃ a0 no s q0 θ ξ β0 η C1 C3 C4 C5 D2 D3 D4 Md ωd Ωd,
      sgp4Init i0 Ω0 e0 ω0 M0 n0 bstar = [-w_j3, w_j2 / 2, a0, no, s, q0, θ, ξ, β0, η, C1, C3, C4, C5, D2, D3, D4, Md, ωd, Ωd]
      ∧ (η ^ 2 < 1 → a0 ≠ 0 →
          refInit e0 i0 ω0 (n0 * 60) bstar =
            [if a0 * (1 - e0) < 220 / w_re + 1 then 1 else 0, if refDeep no then 1 else 0, no, a0, η, C1, C3, C4, C5,
              Md * no, ωd * no, Ωd * no, bstar * C3 * Real.cos ω0,
              if e0 > 1.0e-4 then -((2 : ℝ) / 3) * ((q0 - s) ^ 4 * ξ ^ 4) * bstar / (e0 * η) else 0,
              -(21 * no * (w_j2 / 2) * θ / (2 * a0 ^ 2 * β0 ^ 2)) * C1, 1.5 * C1,
              (refCoefLong i0).getD 0 0, (refCoefLong i0).getD 1 0, D2, D3, D4, D2 + 2 * C1 ^ 2,
              1 / 4 * (3 * D3 + 12 * C1 * D2 + 10 * C1 ^ 3),
              1 / 5 * (3 * D4 + 12 * C1 * D3 + 6 * D2 ^ 2 + 30 * C1 ^ 2 * D2 + 15 * C1 ^ 4)]) := by
  obtain ⟨no, a0, hK1, hK2⟩ := beta_unkozai_reference n0 e0 i0 he.le
  obtain ⟨s, q0, hS1, hS2⟩ := beta_s4_reference a0 e0
  have hpos : 0 < 1 - e0 ^ 2 := by linarith
  have hβpos : 0 < Real.sqrt (1 - e0 ^ 2) := Real.sqrt_pos.mpr hpos
  have hβ2 : Real.sqrt (1 - e0 ^ 2) ^ 2 = 1 - e0 ^ 2 := Real.sq_sqrt hpos.le
  have hDragN : sgp4InitDrag i0 a0 s e0 no q0 (w_j2 / 2) bstar (-w_j3)
      = [Real.cos i0, 1 / (a0 - s), Real.sqrt (1 - e0 ^ 2), a0 * e0 * (1 / (a0 - s)),
          (sgp4InitDrag i0 a0 s e0 no q0 (w_j2 / 2) bstar (-w_j3)).getD 4 0, (sgp4InitDrag i0 a0 s e0 no q0 (w_j2 / 2) bstar (-w_j3)).getD 5 0] := by
    simp only [sgp4InitDrag, List.getD_cons_succ, List.getD_cons_zero, NumReal.cos, NumReal.sqrt, NumReal.powi]
  obtain ⟨D2, D3, D4, hD1, hD2⟩ := beta_d_reference (1 / (a0 - s)) ((sgp4InitDrag i0 a0 s e0 no q0 (w_j2 / 2) bstar (-w_j3)).getD 4 0) a0 s e0
    (-(1.5 * w_j2 * (1 / (a0 * (1 - e0 * e0) * (a0 * (1 - e0 * e0)))) * no) * Real.cos i0) rfl
  refine ⟨a0, no, s, q0, Real.cos i0, 1 / (a0 - s), Real.sqrt (1 - e0 ^ 2), a0 * e0 * (1 / (a0 - s)),
    (sgp4InitDrag i0 a0 s e0 no q0 (w_j2 / 2) bstar (-w_j3)).getD 4 0, (sgp4InitDrag i0 a0 s e0 no q0 (w_j2 / 2) bstar (-w_j3)).getD 5 0,
    (sgp4InitEcc a0 (Real.sqrt (1 - e0 ^ 2)) (a0 * e0 * (1 / (a0 - s))) e0 (1 / (a0 - s)) (w_j2 / 2) no ω0 q0 s (Real.cos i0)).getD 0 0,
    (sgp4InitEcc a0 (Real.sqrt (1 - e0 ^ 2)) (a0 * e0 * (1 / (a0 - s))) e0 (1 / (a0 - s)) (w_j2 / 2) no ω0 q0 s (Real.cos i0)).getD 1 0,
    D2, D3, D4,
    (sgp4InitDot (Real.sqrt (1 - e0 ^ 2)) (w_j2 / 2) a0 (Real.cos i0) (-(3 / 8) * w_j4)).getD 0 0,
    (sgp4InitDot (Real.sqrt (1 - e0 ^ 2)) (w_j2 / 2) a0 (Real.cos i0) (-(3 / 8) * w_j4)).getD 1 0,
    (sgp4InitDot (Real.sqrt (1 - e0 ^ 2)) (w_j2 / 2) a0 (Real.cos i0) (-(3 / 8) * w_j4)).getD 2 0, ?_, ?_⟩
  · rw [sgp4Init, hK2]
    simp only [hS1]
    rw [hDragN]
    simp only [hD1]
    simp only [sgp4InitEcc, sgp4InitDot, List.getD_cons_succ, List.getD_cons_zero]
  · intro hη ha
    have hη' : (a0 * e0 * (1 / (a0 - s))) ^ 2 < 1 := hη
    obtain ⟨θ, ξ, β0, η, C1, C3, hN, hθ, hξ, hβ, hηd, hR⟩ := beta_drag_coef_reference i0 a0 s e0 no q0 bstar ω0 hη'
    obtain ⟨C4, C5, hE1, hE4, hE5⟩ := beta_ecc_coef_reference i0 a0 s e0 no q0 bstar ω0 hη' he.le
    obtain ⟨Md, ωd, Ωd, hT1, hT2⟩ := beta_dot_reference (Real.sqrt (1 - e0 ^ 2)) a0 e0 i0 no rfl he ha
    rw [hDragN] at hN
    simp only [List.cons.injEq, and_true] at hN
    obtain ⟨h1, h2, h3, h4, h5, h6⟩ := hN
    subst h1 h2 h3 h4
    rw [hE4, hE5, ← h5, ← h6] at hR
    have hnc := beta_nodecf_reference no a0 e0 (Real.sqrt (1 - e0 ^ 2)) (Real.cos i0)
      ((sgp4InitDrag i0 a0 s e0 no q0 (w_j2 / 2) bstar (-w_j3)).getD 4 0) hβ2 ha hβpos.ne'
    rw [refInit, hK1]
    simp only [hS2]
    rw [refCoef, hR]
    simp only [hT2, hD2]
    have hL : refCoefLong i0 = [(refCoefLong i0).getD 0 0, (refCoefLong i0).getD 1 0] := by
      simp only [refCoefLong, List.getD_cons_succ, List.getD_cons_zero]
    rw [hL]
    simp only [List.getD_cons_succ, List.getD_cons_zero, List.cons_append, List.nil_append, hE1, hT1, hnc]


/-- the Kepler piece of `propagate` is the translated loop started at `U` with the source's ten passes — the reference's limit
(`ktr <= 10`); what leaving it through `break` guarantees is `beta_kepler_residual` -/
theorem beta_kepler_fuel (U axN ayN : ℝ) : sgp4Kepler U axN ayN = [(keplerLoop axN U ayN 10 U).1] := rfl

/-! hypotheses are satisfiable: ISS-like values (a0'' = 1.0626 Earth radii, s = 1.01222, e0 = 0.0007) -/
example : ((1.0626 : ℝ) * 0.0007 * (1 / (1.0626 - 1.01222))) ^ 2 < 1 := by norm_num
example : ((0.0007 : ℝ)) ^ 2 < 1 := by norm_num
example : (0.3 : ℝ) ^ 2 + 0.2 ^ 2 < 1 := by norm_num
/-- the guard theorem is not vacuous: at an equatorial orbit (`C3 = 0`) with `e0 = 0.01 > 1e-4` the modelled `delta_M` is the
reference's non-zero term, not 0 -/
example : (sgp4Secular 0.001 0.06 0 0 1 0 0 0 0 1 0 0.01 1 1 2 1).getD 8 0 = if (0.01 : ℝ) > 1.0e-4 then
    -((2 : ℝ) / 3) * (((2 : ℝ) - 1) ^ 4 * 1 ^ 4) * 1 / (0.01 * 1) * ((1 + 1 * Real.cos (0 + 1 * 0.06 * 0)) ^ 3 - (1 + 1 * Real.cos 0) ^ 3) else 0 :=
  beta_deltaM_guard ..

end BeyondVerif.C07
