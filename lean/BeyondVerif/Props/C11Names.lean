import BeyondVerif.Props.C11

/-!
# C11 — station names and longitude conventions

* a station RE-created under a name already in use is the station of its new coordinates (position AND axes), whatever was
  created under that name before; the stations of other names are unaffected (`regRun`, Model/StationR.lean);
* a longitude `L` and `L ± 360°` (the signed and the 0‥360 east conventions, any whole number of turns) give the same station.
-/
noncomputable section
namespace BeyondVerif.C11
open BeyondVerif.R BeyondVerif.NumReal

/-! ## longitudes: any convention -/

theorem rot3_sub_two_pi (x : ℝ) : rot3 (x - 2 * Real.pi) = rot3 x := by
  simp [rot3, Real.cos_sub_two_pi, Real.sin_sub_two_pi]

theorem rot3_add_two_pi (x : ℝ) : rot3 (x + 2 * Real.pi) = rot3 x := by
  simp [rot3, Real.cos_add_two_pi, Real.sin_add_two_pi]

/-- **A longitude given as `L + 360°` is the longitude `L`** (east longitudes in 0‥360 vs signed longitudes): same position
of the station, same north / west / up axes — for every latitude, longitude and altitude. -/
theorem station_longitude_plus_360 (latd lond alt : ℝ) :
    (createStation latd (lond + 360) alt).1 = (createStation latd lond alt).1 ∧
    (createStation latd (lond + 360) alt).2.1 = (createStation latd lond alt).2.1 := by
  have h : (lond + 360) * Real.pi / 180 = lond * Real.pi / 180 + 2 * Real.pi := by ring
  have h' : -(lond * Real.pi / 180 + 2 * Real.pi) = -(lond * Real.pi / 180) - 2 * Real.pi := by ring
  constructor
  · simp only [createStation, stationPos, stationRadians, geodeticToCartesian, pi, h, Real.cos_add_two_pi, Real.sin_add_two_pi]
  · simp only [createStation, stationRadians, topoM, pi, h, h', rot3_sub_two_pi]

/-- … and so is `L − 360°` -/
theorem station_longitude_minus_360 (latd lond alt : ℝ) :
    (createStation latd (lond - 360) alt).1 = (createStation latd lond alt).1 ∧
    (createStation latd (lond - 360) alt).2.1 = (createStation latd lond alt).2.1 := by
  have := station_longitude_plus_360 latd (lond - 360) alt
  simp only [sub_add_cancel] at this
  exact ⟨this.1.symm, this.2.symm⟩

/-- e.g. Kennedy Space Center: 279.349° east is 80.651° west -/
example : (createStation 28.524 279.349 3).1 = (createStation 28.524 (-80.651) 3).1 := by
  have := (station_longitude_plus_360 28.524 (-80.651) 3).1
  have h : (-80.651 : ℝ) + 360 = 279.349 := by norm_num
  rwa [h] at this

/-! ## names: the last creation counts -/

theorem regRun_append (reg : Registry) (ops ops' : List RegOp) :
    regRun reg (ops ++ ops') = ((regRun (regRun reg ops).1 ops').1, (regRun reg ops).2 ++ (regRun (regRun reg ops).1 ops').2) := by
  induction ops generalizing reg with
  | nil => simp [regRun]
  | cons op rest ih =>
    simp only [List.cons_append, regRun, ih]
    cases (regStep reg op).2 <;> simp

/-- right after `create_station(name, (latd, lond, alt))` the name stands for these coordinates — whatever the history before,
in particular when the name was already in use (re-creation) -/
theorem lookup_after_create (reg : Registry) (ops : List RegOp) (n : String) (a b c : ℝ) :
    regLookup (regRun reg (ops ++ [.create n a b c])).1 n = some (a, b, c) := by
  rw [regRun_append]
  simp [regRun, regStep, regLookup]

/-- creating (or re-creating) a station under one name leaves the stations of the other names as they are -/
theorem lookup_other_name_unaffected (reg : Registry) (n m : String) (hne : m ≠ n) (a b c : ℝ) :
    regLookup (regRun reg [.create n a b c]).1 m = regLookup reg m := by
  have : (n == m) = false := by simpa using fun h => hne h.symm
  simp [regRun, regStep, regLookup, this]

/-- using a station changes nothing -/
theorem use_keeps_registry (reg : Registry) (n : String) (st : List ℝ) : (regRun reg [.use n st]).1 = reg := by
  simp [regRun, regStep]

/-- **A station re-created under a name already in use is the station of its new coordinates** (clause "for a station
created from geodetic latitude, longitude and altitude", on the life of a name): after ANY history of creations and uses —
under this name or others —, `create_station(name, (latd, lond, alt))` followed by a change to the frame of that name gives
the station-frame coordinates `stationView (latd, lond, alt)`, i.e. position and axes of the NEW coordinates
(`toStation`, to which `range_is_enu_range`, `elevation_is_enu_elevation`, `azimuth_is_minus_theta`, … apply). -/
theorem recreated_station_is_the_new_station (reg : Registry) (ops : List RegOp) (n : String) (latd lond alt : ℝ) (st : List ℝ) :
    (regRun reg (ops ++ [.create n latd lond alt, .use n st])).2 =
      (regRun reg ops).2 ++ [some (stationView (latd, lond, alt) st)] := by
  rw [regRun_append]
  simp [regRun, regStep, regLookup]

/-- e.g. 'X' at Toulouse, used, then re-created at Kourou: the second use sees Kourou -/
example (st : List ℝ) :
    (regRun [] [.create "X" 43.6 1.44 172, .use "X" st, .create "X" 5.25 (-52.8) 10, .use "X" st]).2 =
      [some (stationView (43.6, 1.44, 172) st), some (stationView (5.25, -52.8, 10) st)] := by
  simp [regRun, regStep, regLookup]

end BeyondVerif.C11
