import BeyondVerif.Lemmas.Quadrature
import BeyondVerif.Lemmas.Vec3
import Mathlib.Tactic.NormNum
import Mathlib.Tactic.FieldSimp

/-!
# C17 — "a continuous burn delivers its full Δv over its duration": what the step loop of `KeplerNum` delivers

`KeplerNum._make_step` adds `step · Σ_i b_i · k_i` to the state, `k_i = _accel(stage state i)`, and `_accel` adds the
acceleration of a `ContinuousMan` iff `man.check(orb.date)` — `start ≤ date < stop` (translated: `contCheck`) — at the
stage date `date + step · c_i`.  The velocity therefore receives from one burn with a constant (inertial) thrust
vector `a` exactly `a ·` the **thrust time** `Σ_steps h · Σ_i b_i [start ≤ t + c_i h < stop]`.  `thrustUnits`
(Model/ManWin.lean) is that sum times the common denominator `D` of the weights, over integer microseconds, with the
nodes `c` and the weights `b = W / D` regenerated from `KeplerNum.BUTCHER` and the stage dates rounded as
`timedelta.__mul__(float)` rounds them.  It is tied to the real loop by the correspondence run (gravity-free
propagations, all four tableaux).
-/
namespace BeyondVerif.C17
open BeyondVerif.ManWin BeyondVerif.Generated BeyondVerif.Lemmas.Quadrature

/-- the four regenerated tableaux: as many weights as nodes, every node in `[0, 1]`, the weights sum to 1
(a changed tableau that breaks one of these breaks the build) -/
theorem tableaux_consistent :
    (butcherC_euler.length = butcherW_euler.length ∧ NodesInUnit butcherC_euler ∧ butcherW_euler.sum = butcherD_euler ∧ 0 < butcherD_euler) ∧
    (butcherC_rk4.length = butcherW_rk4.length ∧ NodesInUnit butcherC_rk4 ∧ butcherW_rk4.sum = butcherD_rk4 ∧ 0 < butcherD_rk4) ∧
    (butcherC_rkf54.length = butcherW_rkf54.length ∧ NodesInUnit butcherC_rkf54 ∧ butcherW_rkf54.sum = butcherD_rkf54 ∧ 0 < butcherD_rkf54) ∧
    (butcherC_dopri54.length = butcherW_dopri54.length ∧ NodesInUnit butcherC_dopri54 ∧ butcherW_dopri54.sum = butcherD_dopri54 ∧ 0 < butcherD_dopri54) := by
  unfold NodesInUnit
  decide

/-- the weights of the two fixed-step methods are non-negative (those of RKF54 and DOPRI54 are not) -/
theorem fixed_step_weights_nonneg : (∀ w ∈ butcherW_euler, 0 ≤ w) ∧ (∀ w ∈ butcherW_rk4, 0 ≤ w) := by decide

/-- **The exact expression**: over `n` equal steps the loop delivers `h · Σ_i w_i · N_i`, `N_i` = number of steps whose
stage `i` is dated inside `[start, stop)` -/
theorem thrust_time_by_stage_counts (cs : List (Int × Int)) (ws : List Int) (start stop h t0 : Int) (n : Nat) :
    thrustUnits cs ws start stop t0 (List.replicate n h)
      = h * weightedCount start stop h t0 n (stagesOf cs ws h) := by
  rw [thrustUnits_replicate, thrustUnitsFixed_eq]

/-- **A burn lasting `nb` whole fixed steps from a grid date delivers exactly `nb · h` of thrust** — for every tableau
whose nodes lie in `[0, 1]` and whose weights sum to 1 (`Σ W = D`; Euler, RK4, and the two embedded pairs were they run
with equal steps), every step `h > 0`, every `nb`, provided at least one step of the propagation precedes the burn
(`1 ≤ p`: the stage dated at the end of that step already sees the burn on, which makes up for the stage dated `stop`
of the last step, which sees it off) and the propagation covers it (`p + nb ≤ n`). -/
theorem whole_steps_thrust_time (cs : List (Int × Int)) (ws : List Int) (D : Int) (hl : cs.length = ws.length)
    (hcs : NodesInUnit cs) (hsum : ws.sum = D) (h t0 : Int) (hh : 0 < h) (p nb n : Nat) (hp : 1 ≤ p) (hn : p + nb ≤ n) :
    thrustUnits cs ws (t0 + p * h) (t0 + p * h + nb * h) t0 (List.replicate n h) = D * (nb * h) := by
  rw [thrust_time_by_stage_counts, weightedCount_const _ _ _ _ _ (nb : Int), weightSum_stagesOf cs ws h hl, hsum]
  · ring
  · intro s hs
    obtain ⟨h0, h1⟩ := stagesOf_bounds hcs ws hh.le s hs
    rcases lt_or_eq_of_le h1 with h1 | h1
    · exact stageCount_whole_lt hh h0 h1 p nb n t0 hn rfl rfl
    · rw [h1]; exact stageCount_whole_closing hh p nb n t0 hp hn rfl rfl

/-- the same without a preceding step for a tableau that has no stage dated at the end of the step (Euler) -/
theorem whole_steps_thrust_time_open (cs : List (Int × Int)) (ws : List Int) (D : Int) (hl : cs.length = ws.length)
    (hcs : NodesInUnit cs) (hsum : ws.sum = D) (h t0 : Int) (hh : 0 < h) (hopen : ∀ s ∈ stagesOf cs ws h, s.1 < h)
    (p nb n : Nat) (hn : p + nb ≤ n) :
    thrustUnits cs ws (t0 + p * h) (t0 + p * h + nb * h) t0 (List.replicate n h) = D * (nb * h) := by
  rw [thrust_time_by_stage_counts, weightedCount_const _ _ _ _ _ (nb : Int), weightSum_stagesOf cs ws h hl, hsum]
  · ring
  · intro s hs
    exact stageCount_whole_lt hh (stagesOf_bounds hcs ws hh.le s hs).1 (hopen s hs) p nb n t0 hn rfl rfl

/-- **A burn that starts on the first date of the propagation misses the closing stages of its last step**: it delivers
`nb · h − B₁ · h`, `B₁` the total weight of the stages dated at the end of a step (RK4: 1/6 of a step; Euler: nothing).
(Part of the open finding C17-continuous-burn-step-sampling.) -/
theorem first_date_burn_thrust_time (cs : List (Int × Int)) (ws : List Int) (D : Int) (hl : cs.length = ws.length)
    (hcs : NodesInUnit cs) (hsum : ws.sum = D) (h t0 : Int) (hh : 0 < h) (nb n : Nat) (hnb : 1 ≤ nb) (hn : nb ≤ n) :
    thrustUnits cs ws t0 (t0 + nb * h) t0 (List.replicate n h)
      = D * (nb * h) - closingWeight h (stagesOf cs ws h) * h := by
  rw [thrust_time_by_stage_counts, weightedCount_closing _ _ _ _ _ (nb : Int), weightSum_stagesOf cs ws h hl, hsum]
  · ring
  · intro s hs
    obtain ⟨h0, h1⟩ := stagesOf_bounds hcs ws hh.le s hs
    split
    · rename_i he
      rw [he]; exact stageCount_first_closing hh nb n t0 hnb (by omega) rfl rfl
    · rename_i he
      exact stageCount_whole_lt hh h0 (lt_of_le_of_ne h1 he) 0 nb n t0 (by omega) (by simp) rfl

/-- **Any burn, aligned or not**: with non-negative weights summing to 1 (Euler, RK4) and equal steps `h`, a burn
`[start, stop)` that begins no earlier than the propagation and ends within it receives a thrust time that differs from
its duration by at most one step: `|delivered − (stop − start)| ≤ h`.  (This is the bound the open finding
C17-continuous-burn-step-sampling is about: the error is not zero, see `Witness/C17.lean`, but never more than a step.) -/
theorem burn_thrust_time_within_one_step (cs : List (Int × Int)) (ws : List Int) (D : Int) (hl : cs.length = ws.length)
    (hcs : NodesInUnit cs) (hsum : ws.sum = D) (hw : ∀ w ∈ ws, 0 ≤ w) (h t0 start stop : Int) (hh : 0 < h) (n : Nat)
    (h0 : t0 ≤ start) (hse : start ≤ stop) (h1 : stop ≤ t0 + n * h) :
    D * ((stop - start) - h) ≤ thrustUnits cs ws start stop t0 (List.replicate n h) ∧
    thrustUnits cs ws start stop t0 (List.replicate n h) ≤ D * ((stop - start) + h) := by
  rw [thrust_time_by_stage_counts]
  have := weightedCount_bounds start stop h t0 n ((stop - start) - h) ((stop - start) + h) (stagesOf cs ws h)
    (weights_nonneg_stagesOf cs ws h hw)
    (fun s hs => by
      obtain ⟨b0, b1⟩ := stagesOf_bounds hcs ws hh.le s hs
      exact stageCount_bounds hh hse n t0 (by omega) (by omega))
  rwa [weightSum_stagesOf cs ws h hl, hsum] at this

/-! ### the delivered Δv as a vector -/
section vector
open BeyondVerif.R BeyondVerif.NumReal

/-- Δv received by the velocity from a burn with constant (inertial) acceleration `a` [m/s²]: `a ·` thrust time
(`units / D` microseconds) -/
noncomputable def deliveredDv (units D : Int) (a : V3) : V3 := V3.smul ((units : ℝ) / (D : ℝ) / 1000000) a

/-- **`whole_steps_full_dv`**: for the modelled Runge–Kutta step with *any* tableau whose nodes lie in `[0, 1]` and whose
weights sum to 1, stage dates `date + step · c` rounded as Python rounds them, a burn of constant acceleration `a` (any
direction) lasting `nb` whole fixed steps `h` [µs] from a grid date, with at least one step before it, delivers exactly
`nb · h · a`. -/
theorem whole_steps_full_dv (cs : List (Int × Int)) (ws : List Int) (D : Int) (hD : 0 < D) (hl : cs.length = ws.length)
    (hcs : NodesInUnit cs) (hsum : ws.sum = D) (h t0 : Int) (hh : 0 < h) (p nb n : Nat) (hp : 1 ≤ p) (hn : p + nb ≤ n) (a : V3) :
    deliveredDv (thrustUnits cs ws (t0 + p * h) (t0 + p * h + nb * h) t0 (List.replicate n h)) D a
      = V3.smul ((nb : ℝ) * ((h : ℝ) / 1000000)) a := by
  rw [whole_steps_thrust_time cs ws D hl hcs hsum h t0 hh p nb n hp hn]
  unfold deliveredDv
  have hD' : (D : ℝ) ≠ 0 := by exact_mod_cast ne_of_gt hD
  congr 1
  push_cast
  field_simp

/-- … in particular for RK4 and for Euler as `KeplerNum.BUTCHER` has them now -/
theorem whole_steps_full_dv_rk4 (h t0 : Int) (hh : 0 < h) (p nb n : Nat) (hp : 1 ≤ p) (hn : p + nb ≤ n) (a : V3) :
    deliveredDv (thrustUnits butcherC_rk4 butcherW_rk4 (t0 + p * h) (t0 + p * h + nb * h) t0 (List.replicate n h)) butcherD_rk4 a
      = V3.smul ((nb : ℝ) * ((h : ℝ) / 1000000)) a :=
  whole_steps_full_dv _ _ _ tableaux_consistent.2.1.2.2.2 tableaux_consistent.2.1.1 tableaux_consistent.2.1.2.1
    tableaux_consistent.2.1.2.2.1 h t0 hh p nb n hp hn a

theorem whole_steps_full_dv_euler (h t0 : Int) (hh : 0 < h) (p nb n : Nat) (hn : p + nb ≤ n) (a : V3) :
    deliveredDv (thrustUnits butcherC_euler butcherW_euler (t0 + p * h) (t0 + p * h + nb * h) t0 (List.replicate n h)) butcherD_euler a
      = V3.smul ((nb : ℝ) * ((h : ℝ) / 1000000)) a := by
  rw [whole_steps_thrust_time_open butcherC_euler butcherW_euler butcherD_euler tableaux_consistent.1.1 tableaux_consistent.1.2.1
    tableaux_consistent.1.2.2.1 h t0 hh ?_ p nb n hn]
  · unfold deliveredDv butcherD_euler
    congr 1
    push_cast
    field_simp
  · intro s hs
    simp [stagesOf, butcherC_euler, butcherW_euler, stageOffset, divRound] at hs
    rw [hs]; exact hh

/-- an RK4 burn from the first date of the propagation delivers `(nb − 1/6) · h · a` -/
theorem first_date_burn_rk4 (h t0 : Int) (hh : 0 < h) (nb n : Nat) (hnb : 1 ≤ nb) (hn : nb ≤ n) :
    thrustUnits butcherC_rk4 butcherW_rk4 t0 (t0 + nb * h) t0 (List.replicate n h) = 6 * (nb * h) - h := by
  rw [first_date_burn_thrust_time butcherC_rk4 butcherW_rk4 butcherD_rk4 tableaux_consistent.2.1.1 tableaux_consistent.2.1.2.1
    tableaux_consistent.2.1.2.2.1 h t0 hh nb n hnb hn]
  have e1 : stageOffset (1, 1) h = h := by simp [stageOffset, divRound]
  have e0 : stageOffset (0, 1) h = 0 := by simp [stageOffset, divRound]
  have e2 : stageOffset (1, 2) h ≠ h := by
    have := (stageOffset_bounds (c := (1, 2)) (h := h) (by norm_num) hh.le)
    unfold stageOffset divRound at *
    simp only at *
    split <;> omega
  simp only [stagesOf, butcherC_rk4, butcherW_rk4, butcherD_rk4, List.map, List.zip_cons_cons, List.zip_nil_right, closingWeight, e0, e1]
  simp [e2, ne_of_lt hh]

/-- and any RK4 / Euler burn inside the propagation is within one step's worth: `|Δv − (stop − start) · a| ≤ h · |a|` componentwise
in thrust time -/
theorem burn_within_one_step_rk4 (h t0 start stop : Int) (hh : 0 < h) (n : Nat) (h0 : t0 ≤ start) (hse : start ≤ stop) (h1 : stop ≤ t0 + n * h) :
    6 * ((stop - start) - h) ≤ thrustUnits butcherC_rk4 butcherW_rk4 start stop t0 (List.replicate n h) ∧
    thrustUnits butcherC_rk4 butcherW_rk4 start stop t0 (List.replicate n h) ≤ 6 * ((stop - start) + h) :=
  burn_thrust_time_within_one_step _ _ butcherD_rk4 tableaux_consistent.2.1.1 tableaux_consistent.2.1.2.1 tableaux_consistent.2.1.2.2.1
    fixed_step_weights_nonneg.2 h t0 start stop hh n h0 hse h1

theorem burn_within_one_step_euler (h t0 start stop : Int) (hh : 0 < h) (n : Nat) (h0 : t0 ≤ start) (hse : start ≤ stop) (h1 : stop ≤ t0 + n * h) :
    1 * ((stop - start) - h) ≤ thrustUnits butcherC_euler butcherW_euler start stop t0 (List.replicate n h) ∧
    thrustUnits butcherC_euler butcherW_euler start stop t0 (List.replicate n h) ≤ 1 * ((stop - start) + h) :=
  burn_thrust_time_within_one_step _ _ butcherD_euler tableaux_consistent.1.1 tableaux_consistent.1.2.1 tableaux_consistent.1.2.2.1
    fixed_step_weights_nonneg.1 h t0 start stop hh n h0 hse h1

/-- non-vacuity / scale: RK4, 60 s steps, a 3-step burn from 120 s in a 10-step propagation: 180 s of thrust … -/
example : thrustUnits butcherC_rk4 butcherW_rk4 120000000 300000000 0 (List.replicate 10 60000000) = 6 * 180000000 := by decide
/-- … the same burn from the first date: 170 s (observed on the real propagator: 170.0000000000017 · a) … -/
example : thrustUnits butcherC_rk4 butcherW_rk4 0 180000000 0 (List.replicate 10 60000000) = 6 * 170000000 := by decide
/-- … and a 7 s burn inside a step, between stage dates: nothing (the bound `7 − 60 ≤ 0 ≤ 7 + 60` is attained from below) -/
example : thrustUnits butcherC_rk4 butcherW_rk4 615000000 622000000 0 (List.replicate 40 60000000) = 0 := by decide

end vector

end BeyondVerif.C17
