import BeyondVerif.Model.SVMachineR
import BeyondVerif.Props.C01

/-!
# C01 — the three clauses hold for the state an object holds NOW, after any history of in-place operations

`Model/SVMachineR.lean` is the state machine of one `StateVector` / `Orbit` object: six numbers, form, frame with the
`mu` of its centre's body, and the slot `_data["infos"]` with the memoising `Infos` helper.  Its `form` / `frame`
setters and `copy` *interpret the order of effects read from the source on every run* (`Generated/SVTables.lean`),
and the `infos` property finds a stored helper again iff the key it tests equals the key it stores under.

Theorems (all ∀ histories / ∀ states, ℝ):

* `infos_helper_never_reused`, `frame_setter_order`, `form_setter_order`, `copy_order` — facts about the regenerated
  tables (`decide`): they fail to build as soon as the source caches the helper or reorders a setter.
* `readInfos_fresh` — a read returns what a freshly constructed object with the current six numbers, form and `mu` reports,
  whatever the slot holds, and changes nothing but the slot.
* `run_independent_of_slot` — the reports of a whole history and the final state are a function of (six numbers, form,
  frame, mu) at its start only: no hidden state.
* `run_erase_reads` — reads never disturb: erasing them from a history leaves the final state unchanged.
* `setFrame_elements` — after `sv.frame = f` the six numbers are the elements, computed with the `mu` of the NEW centre,
  of the transformed cartesian state; `setFrame_cartesian_view` — and converting them to cartesian gives exactly that
  transformed state (per-link round trips on the visited states as hypothesis, as in `walk_roundtrip_exact`).
* `setForm_elements`, `setForm_back` — `sv.form = g` writes the routed conversion with the current `mu`; there and back
  returns the six numbers.
-/
namespace BeyondVerif.C01
open BeyondVerif.R BeyondVerif.R.SV

/-! ## facts about the tables regenerated from the source -/

/-- the `infos` property never finds the helper it stored: it tests one name and stores under another
(`hasattr(self, "_infos")` vs `_data["infos"]`), so every access builds a new helper with empty memo -/
theorem infos_helper_never_reused : slotVisible = false := by decide

/-- in the `frame` setter the new frame is committed BEFORE the caller's form is restored (so the elements are computed
with the new centre's `mu`) and AFTER the coordinates were transformed (with the old one); storing the transformed
coordinates and committing the frame may come in either order -/
theorem frame_setter_order :
    Generated.frameSetterSteps = ["toCart", "transform", "store", "commit", "restore"] ∨
    Generated.frameSetterSteps = ["toCart", "transform", "commit", "store", "restore"] := by decide

/-- in the `form` setter the numbers are converted (from the form the object still carries) before the new form is committed -/
theorem form_setter_order : Generated.formSetterSteps = ["convert", "commit"] := by decide

/-- `copy(frame=…, form=…)` performs both conversions (either order gives the same state) -/
theorem copy_order : Generated.copySteps = ["frame", "form"] ∨ Generated.copySteps = ["form", "frame"] := by decide

/-! ## the names under which a form is requested

`get_form` (and with it `StateVector(…, form=name, …)`, `sv.form = name`, `sv.copy(form=name)`) resolves a name through the
table `forms._cache`, regenerated into `Generated.formsCache` on every run.  The statement "each name gives the elements of
THAT form" needs the table to be the documented one: every form under its full name, the four variants of the keplerian
form also under the name without the prefix `keplerian_` (doc/source/api/orbits.rst, "Some forms have aliases"). -/

/-- the documented names of the ten forms -/
def documentedFormNames : List (String × String) :=
  [("cartesian", "cartesian"), ("spherical", "spherical"), ("cylindrical", "cylindrical"), ("keplerian", "keplerian"),
   ("keplerian_eccentric", "keplerian_eccentric"), ("keplerian_mean", "keplerian_mean"),
   ("keplerian_circular", "keplerian_circular"), ("keplerian_mean_circular", "keplerian_mean_circular"),
   ("equinoctial", "equinoctial"), ("tle", "tle"),
   ("eccentric", "keplerian_eccentric"), ("mean", "keplerian_mean"), ("circular", "keplerian_circular"),
   ("mean_circular", "keplerian_mean_circular")]

/-- every documented name is a key of the table regenerated from the source and leads to the form of that name -/
theorem form_names_as_documented :
    ∀ p ∈ documentedFormNames, Generated.formsCache.lookup p.1 = some p.2 := by decide

/-- the table regenerated from the source has no other key, and no key leading elsewhere -/
theorem form_names_only_documented :
    ∀ p ∈ Generated.formsCache, documentedFormNames.lookup p.1 = some p.2 := by decide

/-- every node of the regenerated forms graph is reachable under its own name, and every name leads to a node of the graph -/
theorem form_names_cover_graph :
    (∀ f ∈ Generated.formsNames, Generated.formsCache.lookup f = some f) ∧
    (∀ p ∈ Generated.formsCache, p.2 ∈ Generated.formsNames) := by decide

/-- the documented short names: the full name is `keplerian_` followed by the short one (no other abbreviation rule) -/
theorem short_names_are_suffixes :
    ∀ p ∈ Generated.formsCache, p.1 = p.2 ∨ "keplerian_" ++ p.1 = p.2 := by decide

theorem mem_of_lookup {β : Type} {k : String} {v : β} : ∀ {l : List (String × β)}, l.lookup k = some v → (k, v) ∈ l
  | [], h => by simp [List.lookup] at h
  | (a, b) :: t, h => by
    by_cases hk : k = a
    · subst hk
      simp [List.lookup] at h
      subst h
      exact List.mem_cons_self
    · have hk' : (k == a) = false := by simpa using hk
      simp only [List.lookup, hk'] at h
      exact List.mem_cons_of_mem _ (mem_of_lookup h)

/-- two tables each of whose entries is found in the other answer every key alike -/
theorem lookup_eq_of_mutual {β : Type} {l1 l2 : List (String × β)}
    (h12 : ∀ p ∈ l1, l2.lookup p.1 = some p.2) (h21 : ∀ p ∈ l2, l1.lookup p.1 = some p.2) (k : String) :
    l1.lookup k = l2.lookup k := by
  cases h1 : l1.lookup k with
  | some v => exact (h12 _ (mem_of_lookup h1)).symm
  | none =>
    cases h2 : l2.lookup k with
    | none => rfl
    | some w =>
      have := h21 _ (mem_of_lookup h2)
      simp only [h1] at this
      exact absurd this (by simp)

/-- **`get_form` for EVERY string**: a name (in any case) resolves to the form documented under it, and a string that is no
documented name is an `UnknownFormError` — the machine's `canonForm` is `get_form` (shape checked on every run) over the
regenerated table -/
theorem canonForm_documented (name : String) : canonForm name = documentedFormNames.lookup name.toLower := by
  unfold canonForm
  exact lookup_eq_of_mutual form_names_only_documented form_names_as_documented _

/-- `sv.form = name` for any spelling: the same as `sv.form = <the full name documented under it>` once that full name is
known to resolve to itself (which `form_names_cover_graph` gives for the ten forms) -/
theorem setForm_by_any_documented_name (fuel : Nat) (s : St) (name full : String)
    (h : documentedFormNames.lookup name.toLower = some full) :
    applyOp fuel s (.setForm name) = (setFormSt fuel s full).map (fun s' => (s', Out.done)) := by
  simp only [applyOp, canonForm_documented, h]

/-- a string that is no documented name changes nothing and reports `UnknownFormError` -/
theorem setForm_undocumented_name (fuel : Nat) (s : St) (name : String)
    (h : documentedFormNames.lookup name.toLower = none) :
    applyOp fuel s (.setForm name) = some (s, Out.unknownForm) := by
  simp only [applyOp, canonForm_documented, h]

/-! ### the names of the six elements -/

/-- the documented element names of each form (docstrings of the ten `Form` constants) -/
def documentedParamNames : List (String × List String) :=
  [("cartesian", ["x", "y", "z", "vx", "vy", "vz"]), ("spherical", ["r", "θ", "φ", "r_dot", "θ_dot", "φ_dot"]),
   ("cylindrical", ["r", "θ", "z", "r_dot", "θ_dot", "vz"]), ("keplerian", ["a", "e", "i", "Ω", "ω", "ν"]),
   ("keplerian_eccentric", ["a", "e", "i", "Ω", "ω", "E"]), ("keplerian_mean", ["a", "e", "i", "Ω", "ω", "M"]),
   ("keplerian_circular", ["a", "ex", "ey", "i", "Ω", "u"]), ("keplerian_mean_circular", ["a", "ex", "ey", "i", "Ω", "α"]),
   ("equinoctial", ["a", "ex", "ey", "ix", "iy", "l"]), ("tle", ["i", "Ω", "e", "ω", "M", "n"])]

/-- the documented aliases of the element names -/
def documentedAlt : List (String × String) :=
  [("theta", "θ"), ("phi", "φ"), ("raan", "Ω"), ("Omega", "Ω"), ("omega", "ω"), ("nu", "ν"), ("theta_dot", "θ_dot"),
   ("phi_dot", "φ_dot"), ("aol", "u"), ("H", "E"), ("x_dot", "vx"), ("y_dot", "vy"), ("z_dot", "vz"), ("alpha", "α"), ("maol", "α")]

theorem param_names_as_documented :
    (∀ p ∈ documentedParamNames, Generated.formsParamNames.lookup p.1 = some p.2) ∧
    (∀ p ∈ Generated.formsParamNames, documentedParamNames.lookup p.1 = some p.2) := by decide

/-- the i-th number of a form is addressed by the documented name, for every form name whatsoever -/
theorem paramNames_documented (form : String) :
    Generated.formsParamNames.lookup form = documentedParamNames.lookup form :=
  lookup_eq_of_mutual param_names_as_documented.2 param_names_as_documented.1 _

/-- every documented alias is in `Form.alt` with its documented target; an alias the documentation does not list may exist,
but none hides an element name and each points to an element name -/
theorem element_aliases_as_documented :
    (∀ p ∈ documentedAlt, Generated.formsAlt.lookup p.1 = some p.2) ∧
    (∀ p ∈ Generated.formsAlt, (Generated.formsParamNames.any (fun q => q.2.contains p.1)) = false ∧
      (Generated.formsParamNames.any (fun q => q.2.contains p.2)) = true) := by decide

/-! ## no hidden state -/

/-- everything of the object but the slot -/
def core (s : St) : List ℝ × String × Nat × ℝ := (s.c, s.form, s.frame, s.mu)

def withSlot (x : Option Handle) (s : St) : St := { s with slot := x }

@[simp] theorem core_withSlot (x : Option Handle) (s : St) : core (withSlot x s) = core s := rfl

theorem eq_withSlot_of_core {s t : St} (h : core s = core t) : s = withSlot s.slot t := by
  cases s; cases t
  simp only [core, Prod.mk.injEq] at h
  obtain ⟨h1, h2, h3, h4⟩ := h
  subst h1 h2 h3 h4
  rfl

theorem accessInfos_eq (s : St) : accessInfos s = ({ s with slot := some ⟨none, none⟩ }, ⟨none, none⟩) := by
  simp [accessInfos, infos_helper_never_reused]

theorem infosVia_fresh (fuel : Nat) (s : St) :
    (infosVia fuel s ⟨none, none⟩).map Prod.snd = infosPure fuel s.c s.form s.mu := by
  simp only [infosVia, infosPure]
  cases hk : convert fuel s.mu s.form "keplerian" s.c with
  | none => simp
  | some k =>
    cases hs : convert fuel s.mu s.form "spherical" s.c with
    | none => rcases k with _ | ⟨a, _ | ⟨e, _ | ⟨i, _ | ⟨Ω, _ | ⟨ω, _ | ⟨ν, _ | ⟨x, k⟩⟩⟩⟩⟩⟩⟩ <;> simp
    | some sp =>
      rcases k with _ | ⟨a, _ | ⟨e, _ | ⟨i, _ | ⟨Ω, _ | ⟨ω, _ | ⟨ν, _ | ⟨x, k⟩⟩⟩⟩⟩⟩⟩ <;>
        rcases sp with _ | ⟨r, sp⟩ <;> simp

/-- **a read after any in-place write returns what a fresh object returns**: the values are the pure function
`infosPure` of the current six numbers, form and `mu` (of the current centre) — whatever helper an earlier access left
in the slot — and the access changes nothing but the slot. -/
theorem readInfos_fresh (fuel : Nat) (s : St) :
    (readInfos fuel s).map Prod.snd = infosPure fuel s.c s.form s.mu ∧
      ∀ s' xs, readInfos fuel s = some (s', xs) → core s' = core s := by
  constructor
  · simp only [readInfos, accessInfos_eq]
    have := infosVia_fresh fuel { s with slot := some ⟨none, none⟩ }
    simp only at this
    rw [← this]
    cases infosVia fuel { s with slot := some ⟨none, none⟩ } ⟨none, none⟩ <;> simp
  · intro s' xs h
    simp only [readInfos, accessInfos_eq, Option.map_eq_some_iff] at h
    obtain ⟨⟨h', ys⟩, _, heq⟩ := h
    simp only [Prod.mk.injEq] at heq
    rw [← heq.1]
    rfl

/-- the slot is never read back: a read on an object does not depend on what its slot holds -/
theorem readInfos_withSlot (fuel : Nat) (x : Option Handle) (s : St) :
    readInfos fuel (withSlot x s) = readInfos fuel s := by
  simp only [readInfos, accessInfos_eq, withSlot]

theorem runSteps_map {σ : Type} (f : σ → String → Option σ) (g : σ → σ)
    (hf : ∀ s x, f (g s) x = (f s x).map g) (xs : List String) (s : σ) :
    runSteps f xs (g s) = (runSteps f xs s).map g := by
  induction xs generalizing s with
  | nil => simp [runSteps]
  | cons x xs ih =>
    simp only [runSteps, hf]
    cases f s x with
    | none => simp
    | some t => simp [ih]

theorem formStep_withSlot (fuel : Nat) (t : String) (x : Option Handle) (s : St) (step : String) :
    formStep fuel t (withSlot x s) step = (formStep fuel t s step).map (withSlot x) := by
  unfold formStep
  split_ifs
  · simp only [withSlot]
    cases convert fuel s.mu s.form t s.c <;> simp [withSlot]
  · simp [withSlot]
  · simp

theorem setFormSt_withSlot (fuel : Nat) (x : Option Handle) (s : St) (t : String) :
    setFormSt fuel (withSlot x s) t = (setFormSt fuel s t).map (withSlot x) :=
  runSteps_map _ _ (fun s step => formStep_withSlot fuel t x s step) _ s

theorem transformSt_withSlot (fuel : Nat) (x : Option Handle) (s : St) (id : Nat) (A : Affine) :
    transformSt fuel (withSlot x s) id A = transformSt fuel s id A := rfl

def localWithSlot (x : Option Handle) (l : FrameLocal) : FrameLocal := { l with s := withSlot x l.s }

theorem frameStep_withSlot (fuel : Nat) (id : Nat) (mu : ℝ) (A : Affine) (x : Option Handle) (l : FrameLocal) (step : String) :
    frameStep fuel id mu A (localWithSlot x l) step = (frameStep fuel id mu A l step).map (localWithSlot x) := by
  unfold frameStep
  split_ifs
  · simp only [localWithSlot, setFormSt_withSlot]
    cases setFormSt fuel l.s "cartesian" <;> simp [localWithSlot]
  · simp only [localWithSlot, transformSt_withSlot]
    cases transformSt fuel l.s id A <;> simp [localWithSlot]
  · simp only [localWithSlot]
    cases l.newCoord <;> simp [withSlot, localWithSlot]
  · simp [localWithSlot, withSlot]
  · simp only [localWithSlot, setFormSt_withSlot]
    cases setFormSt fuel l.s l.oldForm <;> simp [localWithSlot]
  · simp

theorem setFrameSt_withSlot (fuel : Nat) (x : Option Handle) (s : St) (id : Nat) (mu : ℝ) (A : Affine) :
    setFrameSt fuel (withSlot x s) id mu A = (setFrameSt fuel s id mu A).map (withSlot x) := by
  unfold setFrameSt
  have hfr : (withSlot x s).frame = s.frame := rfl
  rw [hfr]
  split_ifs
  · simp
  · have h := runSteps_map (frameStep fuel id mu A) (localWithSlot x)
      (fun l step => frameStep_withSlot fuel id mu A x l step) Generated.frameSetterSteps ⟨s, s.form, none⟩
    have hl : (⟨withSlot x s, (withSlot x s).form, none⟩ : FrameLocal) = localWithSlot x ⟨s, s.form, none⟩ := rfl
    rw [hl, h]
    cases runSteps (frameStep fuel id mu A) Generated.frameSetterSteps ⟨s, s.form, none⟩ <;> simp [localWithSlot]

theorem copyStep_withSlot (fuel : Nat) (fr : Option (Nat × ℝ × Affine)) (form : Option String) (x : Option Handle) (s : St) (step : String) :
    copyStep fuel fr form (withSlot x s) step = (copyStep fuel fr form s step).map (fun r => (withSlot x r.1, r.2)) := by
  unfold copyStep
  split_ifs
  · rcases fr with _ | ⟨id, mu, A⟩
    · simp
    · simp only [setFrameSt_withSlot]
      cases setFrameSt fuel s id mu A <;> simp
  · rcases form with _ | n
    · simp
    · simp only
      cases canonForm n with
      | none => simp
      | some t =>
        have hf : (withSlot x s).form = s.form := rfl
        simp only [hf, setFormSt_withSlot]
        split_ifs
        · simp
        · cases setFormSt fuel s t <;> simp
  · simp

theorem runCopy_withSlot (fuel : Nat) (fr : Option (Nat × ℝ × Affine)) (form : Option String) (x : Option Handle) (xs : List String) (s : St) :
    runCopy fuel fr form xs (withSlot x s) = (runCopy fuel fr form xs s).map (fun r => (withSlot x r.1, r.2)) := by
  induction xs generalizing s with
  | nil => simp [runCopy]
  | cons y ys ih =>
    simp only [runCopy, copyStep_withSlot]
    cases hc : copyStep fuel fr form s y with
    | none => simp
    | some r =>
      obtain ⟨s', o⟩ := r
      cases o <;> simp [ih]

/-- an operation other than a read neither looks at the slot nor touches it -/
theorem applyOp_withSlot (fuel : Nat) (x : Option Handle) (s : St) (op : Op) (hop : op.isRead = false) :
    applyOp fuel (withSlot x s) op = (applyOp fuel s op).map (fun r => (withSlot x r.1, r.2)) := by
  cases op with
  | setIdx i v => simp [applyOp, withSlot]
  | setName name v =>
    simp only [applyOp]
    have hf : (withSlot x s).form = s.form := rfl
    rw [hf]
    cases paramIdx s.form name <;> simp [withSlot]
  | mulSlice lo hi k => simp [applyOp, withSlot]
  | addSlice lo hi k => simp [applyOp, withSlot]
  | setSlice lo vs => simp [applyOp, withSlot]
  | setForm name =>
    simp only [applyOp]
    cases canonForm name with
    | none => simp
    | some t =>
      simp only [setFormSt_withSlot]
      cases setFormSt fuel s t <;> simp
  | setFrame id mu A =>
    simp only [applyOp, setFrameSt_withSlot]
    cases setFrameSt fuel s id mu A <;> simp
  | copyTo fr form => simp only [applyOp, runCopy_withSlot]
  | infos => simp [Op.isRead] at hop

/-- **no hidden state**: the reports of a whole history (the six numbers after every operation, every value read from
`infos`, every error) and the final six numbers, form, frame and `mu` do not depend on what the slot held at the start —
they are a function of the six numbers, form, frame and `mu` only.  In particular an object that was read before behaves
exactly like a freshly constructed one with the same numbers. -/
theorem run_independent_of_slot (fuel : Nat) (ops : List Op) (x : Option Handle) (s : St) :
    (run fuel ops (withSlot x s)).map (fun r => (core r.1, r.2)) = (run fuel ops s).map (fun r => (core r.1, r.2)) := by
  induction ops generalizing s x with
  | nil => simp [run]
  | cons op ops ih =>
    simp only [run]
    cases hr : op.isRead with
    | true =>
      cases op <;> simp [Op.isRead] at hr
      simp only [applyOp, readInfos_withSlot]
    | false =>
      rw [applyOp_withSlot fuel x s op hr]
      cases applyOp fuel s op with
      | none => simp
      | some r =>
        obtain ⟨s1, o⟩ := r
        have := ih x s1
        simp only [Option.map_some, Option.bind_some]
        cases h1 : run fuel ops (withSlot x s1) with
        | none =>
          rw [h1] at this
          cases h2 : run fuel ops s1 with
          | none => simp
          | some r2 => rw [h2] at this; simp at this
        | some r1 =>
          rw [h1] at this
          cases h2 : run fuel ops s1 with
          | none => rw [h2] at this; simp at this
          | some r2 =>
            rw [h2] at this
            simp only [Option.map_some, Option.some.injEq, Prod.mk.injEq] at this
            simp only [Option.map_some, Option.some.injEq, Prod.mk.injEq, this.1, this.2, List.cons.injEq, and_true, true_and]
            rfl

/-- two objects with the same six numbers, form, frame and `mu` are indistinguishable by any history -/
theorem run_congr_core (fuel : Nat) (ops : List Op) (s t : St) (h : core s = core t) :
    (run fuel ops s).map (fun r => (core r.1, r.2)) = (run fuel ops t).map (fun r => (core r.1, r.2)) := by
  rw [eq_withSlot_of_core h]
  exact run_independent_of_slot fuel ops s.slot t

/-- **reads never disturb**: erasing the `infos` reads from a history leaves the final six numbers, form, frame and `mu`
unchanged -/
theorem run_erase_reads (fuel : Nat) (ops : List Op) (s s1 : St) (outs : List (List ℝ × Out))
    (h : run fuel ops s = some (s1, outs)) :
    ∃ s2 outs2, run fuel (ops.filter (fun o => !o.isRead)) s = some (s2, outs2) ∧ core s2 = core s1 := by
  induction ops generalizing s s1 outs with
  | nil =>
    simp only [run, Option.some.injEq, Prod.mk.injEq] at h
    exact ⟨s, [], by simp [run], by rw [h.1]⟩
  | cons op ops ih =>
    simp only [run] at h
    cases ha : applyOp fuel s op with
    | none => rw [ha] at h; simp at h
    | some r =>
      obtain ⟨sa, o⟩ := r
      rw [ha] at h
      simp only [Option.bind_some] at h
      cases hrun : run fuel ops sa with
      | none => rw [hrun] at h; simp at h
      | some r2 =>
        obtain ⟨sb, outs'⟩ := r2
        rw [hrun] at h
        simp only [Option.map_some, Option.some.injEq, Prod.mk.injEq] at h
        obtain ⟨s2, outs2, h2, hc2⟩ := ih sa sb outs' hrun
        cases hr : op.isRead with
        | true =>
          -- a read: the state after it differs from `s` in the slot only
          have hop : op = Op.infos := by cases op <;> simp [Op.isRead] at hr; rfl
          subst hop
          simp only [applyOp, Option.map_eq_some_iff] at ha
          obtain ⟨⟨s', xs⟩, hread, heq⟩ := ha
          simp only [Prod.mk.injEq] at heq
          have hcore : core sa = core s := by rw [← heq.1]; exact (readInfos_fresh fuel s).2 s' xs hread
          have hind := run_congr_core fuel (ops.filter (fun o => !o.isRead)) sa s hcore
          rw [h2] at hind
          have hisr : Op.isRead Op.infos = true := rfl
          simp only [List.filter_cons, hisr, Bool.not_true, Bool.false_eq_true, if_false]
          cases h3 : run fuel (ops.filter (fun o => !o.isRead)) s with
          | none => rw [h3] at hind; simp at hind
          | some r3 =>
            rw [h3] at hind
            simp only [Option.map_some, Option.some.injEq, Prod.mk.injEq] at hind
            exact ⟨r3.1, r3.2, rfl, by rw [← hind.1, hc2, h.1]⟩
        | false =>
          refine ⟨s2, (sa.c, o) :: outs2, ?_, by rw [hc2, h.1]⟩
          simp only [List.filter_cons, hr, Bool.not_false, if_true, run, ha, Option.bind_some, h2, Option.map_some]

/-! ## what the setters write -/

theorem convert_same (fuel : Nat) (mu : ℝ) (f : String) (c : List ℝ) : convert fuel mu f f c = some c := by
  simp [convert, routeNames, walk]

/-- **`sv.form = g`** writes the conversion routed over the forms tree, computed with the `mu` of the centre of the frame
the object is in, and relabels; frame and `mu` stay -/
theorem setForm_elements (fuel : Nat) (s s' : St) (g : String) (h : setFormSt fuel s g = some s') :
    convert fuel s.mu s.form g s.c = some s'.c ∧ s'.form = g ∧ s'.frame = s.frame ∧ s'.mu = s.mu := by
  simp only [setFormSt, form_setter_order, runSteps, formStep] at h
  simp only [if_true, String.reduceEq, if_false] at h
  cases hc : convert fuel s.mu s.form g s.c with
  | none => rw [hc] at h; simp at h
  | some c' =>
    rw [hc] at h
    simp only [Option.map_some, Option.bind_some, Option.some.injEq] at h
    rw [← h]
    exact ⟨rfl, rfl, rfl, rfl⟩

/-- **`sv.frame = f`** (a frame other than the current one, `A` = the affine map between the two at the object's date):
the six numbers afterwards are the elements — in the form the object had, computed with the `mu` of the NEW centre — of
the transformed cartesian state, itself obtained from the old numbers with the `mu` of the OLD centre. -/
theorem setFrame_elements (fuel : Nat) (s s' : St) (id : Nat) (mu' : ℝ) (A : Affine) (hne : id ≠ s.frame)
    (h : setFrameSt fuel s id mu' A = some s') :
    ∃ cart, convert fuel s.mu s.form "cartesian" s.c = some cart ∧
      convert fuel mu' "cartesian" s.form (A.apply cart) = some s'.c ∧
      s'.form = s.form ∧ s'.frame = id ∧ s'.mu = mu' := by
  rcases frame_setter_order with ho | ho <;>
  · simp only [setFrameSt, if_neg hne, ho, runSteps, frameStep] at h
    simp only [if_true, String.reduceEq, if_false] at h
    cases h1 : setFormSt fuel s "cartesian" with
    | none => rw [h1] at h; simp at h
    | some s1 =>
      obtain ⟨hc1, hf1, hfr1, hmu1⟩ := setForm_elements fuel s s1 "cartesian" h1
      rw [h1] at h
      simp only [Option.map_some, Option.bind_some] at h
      have ht : transformSt fuel s1 id A = some (A.apply s1.c) := by
        simp only [transformSt, hf1, convert_same, Option.bind_some, hfr1, if_neg hne]
      rw [ht] at h
      simp only [Option.map_some, Option.bind_some] at h
      cases h2 : setFormSt fuel { s1 with c := A.apply s1.c, frame := id, mu := mu' } s.form with
      | none => rw [h2] at h; simp at h
      | some s2 =>
        obtain ⟨hc2, hf2, hfr2, hmu2⟩ := setForm_elements fuel _ s2 s.form h2
        rw [h2] at h
        simp only [Option.map_some, Option.bind_some, Option.some.injEq] at h
        subst h
        refine ⟨s1.c, hc1, ?_, hf2, hfr2, hmu2⟩
        simpa [hf1] using hc2

/-! ## cartesian view after a change of frame; there and back of a change of form -/

/-- on the regenerated forms tree the route from `g` to `f` is the route from `f` to `g` walked backwards -/
theorem routes_mirror : ∀ f ∈ Generated.formsNames, ∀ g ∈ Generated.formsNames,
    routePairs g f = (routePairs f g).map (fun ps => (ps.map Prod.swap).reverse) := by
  decide

/-- the links of the routed conversion `f → g` as (method, inverse method) pairs -/
def routeLinks (f g : String) : List (String × String) :=
  ((routePairs f g).getD []).map (fun p => (edgeName p, edgeName p.swap))

theorem routeNames_of_links {f g : String} (hf : f ∈ Generated.formsNames) (hg : g ∈ Generated.formsNames)
    (hne : g ≠ f) (ns : List String) (h : routeNames f g = some ns) :
    ns = (routeLinks f g).map Prod.fst ∧ routeNames g f = some ((routeLinks f g).map Prod.snd).reverse := by
  simp only [routeNames, if_neg hne, Option.map_eq_some_iff] at h
  obtain ⟨ps, hps, hns⟩ := h
  have hm := routes_mirror f hf g hg
  rw [hps] at hm
  simp only [Option.map_some] at hm
  refine ⟨?_, ?_⟩
  · simp [routeLinks, hps, ← hns, List.map_map, Function.comp_def]
  · simp only [routeNames, if_neg (Ne.symm hne), hm, Option.map_some, routeLinks, hps, Option.getD_some, List.map_map,
      List.map_reverse, Function.comp_def]

/-- **`sv.form = g` then `sv.form = f` returns the six numbers** (every link of the route round-trips on the state visited
there, cf. `walk_roundtrip_exact`; the per-link theorems of `Props/C01.lean` supply that hypothesis) -/
theorem setForm_back (fuel : Nat) (s s' : St) (g : String) (hf : s.form ∈ Generated.formsNames) (hg : g ∈ Generated.formsNames)
    (hrt : RoundTrips fuel s.mu (routeLinks s.form g) s.c) (h : setFormSt fuel s g = some s') :
    ∃ s'', setFormSt fuel s' s.form = some s'' ∧ core s'' = core s := by
  obtain ⟨hc, hf', hfr', hmu'⟩ := setForm_elements fuel s s' g h
  by_cases hne : g = s.form
  · subst hne
    rw [convert_same] at hc
    refine ⟨s', ?_, ?_⟩
    · have : s' = { s with c := s'.c, slot := s'.slot } := by
        cases s'; simp only at hf' hfr' hmu'; subst hf' hfr' hmu'; rfl
      simp only [setFormSt, form_setter_order, runSteps, formStep, if_true, String.reduceEq, if_false, hf', convert_same,
        Option.map_some, Option.bind_some]
      rw [← hf']
    · simp only [core, Prod.mk.injEq]; exact ⟨(Option.some.inj hc).symm, hf', hfr', hmu'⟩
  · simp only [convert] at hc
    cases hr : routeNames s.form g with
    | none => rw [hr] at hc; simp at hc
    | some ns =>
      rw [hr] at hc
      simp only [Option.bind_some] at hc
      obtain ⟨hns, hback⟩ := routeNames_of_links hf hg hne ns hr
      rw [hns] at hc
      have hw := walk_roundtrip_exact fuel s.mu (routeLinks s.form g) s.c s'.c hrt hc
      refine ⟨{ s' with c := s.c, form := s.form }, ?_, ?_⟩
      · simp only [setFormSt, form_setter_order, runSteps, formStep, if_true, String.reduceEq, if_false, convert, hf', hmu', hback,
          Option.bind_some, hw, Option.map_some]
      · show (s.c, s.form, s'.frame, s'.mu) = (s.c, s.form, s.frame, s.mu)
        rw [hfr', hmu']

/-- **after `sv.frame = f` the object stands for the transformed position and velocity**: converting the new six numbers
to cartesian — with the `mu` of the new centre — gives exactly `A · (cartesian state before)`, provided the links of the
route cartesian → form round-trip, for the new `mu`, on the states visited (per-link theorems of `Props/C01.lean`). -/
theorem setFrame_cartesian_view (fuel : Nat) (s s' : St) (id : Nat) (mu' : ℝ) (A : Affine) (hne : id ≠ s.frame)
    (hf : s.form ∈ Generated.formsNames) (h : setFrameSt fuel s id mu' A = some s')
    (hrt : ∀ cart, convert fuel s.mu s.form "cartesian" s.c = some cart →
      RoundTrips fuel mu' (routeLinks "cartesian" s.form) (A.apply cart)) :
    ∃ cart, convert fuel s.mu s.form "cartesian" s.c = some cart ∧
      convert fuel s'.mu s'.form "cartesian" s'.c = some (A.apply cart) := by
  obtain ⟨cart, hc, hc', hform, _, hmu⟩ := setFrame_elements fuel s s' id mu' A hne h
  refine ⟨cart, hc, ?_⟩
  rw [hmu, hform]
  by_cases hcf : s.form = "cartesian"
  · rw [hcf] at hc' ⊢
    rw [convert_same] at hc' ⊢
    rw [← Option.some.inj hc']
  · have hcart : "cartesian" ∈ Generated.formsNames := by decide
    simp only [convert] at hc'
    cases hr : routeNames "cartesian" s.form with
    | none => rw [hr] at hc'; simp at hc'
    | some ns =>
      rw [hr] at hc'
      simp only [Option.bind_some] at hc'
      obtain ⟨hns, hback⟩ := routeNames_of_links hcart hf hcf ns hr
      rw [hns] at hc'
      have hw := walk_roundtrip_exact fuel mu' (routeLinks "cartesian" s.form) (A.apply cart) s'.c (hrt cart hc) hc'
      simp only [convert, hback, Option.bind_some, hw]

/-! ## non-vacuity -/

/-- a concrete history runs in the model: element assignment, then in-place arithmetic on the velocity slice -/
example : run 1 [Op.setIdx 0 2, Op.mulSlice 3 6 3] ⟨[1, 0, 0, 0, 1, 0], "cartesian", 0, 1, none⟩ =
    some (⟨[2, 0, 0, 0, 3, 0], "cartesian", 0, 1, none⟩, [([2, 0, 0, 0, 1, 0], Out.done), ([2, 0, 0, 0, 3, 0], Out.done)]) := by
  simp [run, applyOp, setAt, mapSlice, List.range, List.range.loop]

/-- the form setter returns (empty route) -/
example : setFormSt 1 ⟨[1, 0, 0, 0, 1, 0], "cartesian", 0, 1, none⟩ "cartesian" = some ⟨[1, 0, 0, 0, 1, 0], "cartesian", 0, 1, none⟩ := by
  simp [setFormSt, form_setter_order, runSteps, formStep, convert_same]

/-- the hypotheses of `setFrame_elements` are met: the frame setter returns on a cartesian state (identity route) -/
example : setFrameSt 1 ⟨[1, 0, 0, 0, 1, 0], "cartesian", 0, 1, none⟩ 1 2 ⟨[], []⟩ =
    some ⟨Affine.apply ⟨[], []⟩ [1, 0, 0, 0, 1, 0], "cartesian", 1, 2, none⟩ := by
  rcases frame_setter_order with ho | ho <;>
    simp [setFrameSt, ho, runSteps, frameStep, setFormSt, form_setter_order, formStep, transformSt, convert_same]

end BeyondVerif.C01
