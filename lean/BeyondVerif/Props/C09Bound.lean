import BeyondVerif.Props.C09
import BeyondVerif.Lemmas.LagrangeRemainder

/-!
# C09, clause "within centimetres for a smooth orbit sampled at a step well below its period, near the
ends of the table as well as in the middle"

* `interp_lagrange_error_bound` — the classical Lagrange remainder, end to end for the model of
  `Interp.__call__` (binary search, window with its edge shifts, translated numpy formula): for every strictly
  increasing table with steps `≤ H`, every order `k ≥ 2`, every length `≥ k`, every abscissa of
  `[first, last]` — the first and the last interval included, where the window is one-sided — and every
  `k` times differentiable function with `|f^(k)| ≤ M` on the table's range,
  `|interpolated − f x| ≤ M · H^k / (4 k)`.
* `smooth_orbit_within_cm_partial` — the instance for the coordinates of a circular orbit
  (`A cos(ω t + φ)`, `|A| ≤ 43 000 km`, i.e. up to beyond GEO), order 8, step ≤ period / 100: every coordinate
  within 1 mm, at every abscissa of the table.  *Partial*: the clause speaks of "a smooth orbit"; missing are
  (a) an explicit bound of the 8th time derivative of Keplerian motion with `e > 0` (the general theorem
  applies as soon as such a bound `M` is supplied), (b) the passage from ℝ to IEEE doubles.
-/
namespace BeyondVerif.C09
open BeyondVerif.R BeyondVerif.NumReal
open Polynomial

theorem lagrangeEval_sampled (xw : List ℝ) (Fs : List (ℝ → ℝ)) (x : ℝ) (hne : xw ≠ []) :
    lagrangeEval xw (xw.map (fun t => Fs.map (fun f => f t))) x = Fs.map (fun f => lagrangeCol xw (xw.map f) x) := by
  rw [lagrangeEval_rect xw _ Fs.length (by intro h; apply hne; simpa using h)
    (by intro row hrow; obtain ⟨t, _, rfl⟩ := List.mem_map.mp hrow; simp)]
  rw [← range_map_getD Fs (fun f => lagrangeCol xw (xw.map f) x) (fun _ => 0)]
  apply List.map_congr_left
  intro c hc
  have hc' : c < Fs.length := List.mem_range.mp hc
  rw [List.map_map]
  congr 2
  funext t
  simp [List.getD_eq_getElem?_getD, List.getElem?_map, List.getElem?_eq_getElem hc']

/-- **Lagrange remainder bound, end to end** (the window the code selects, both ends of the table included) -/
theorem interp_lagrange_error_bound (xs : List ℝ) (k : ℕ) (Fs : List (ℕ → ℝ → ℝ)) (H M x : ℝ)
    (hinc : increasing xs = true) (hk : 2 ≤ k) (hlen : k ≤ xs.length)
    (hstep : ∀ i, i + 1 < xs.length → xs.getD (i + 1) 0 - xs.getD i 0 ≤ H)
    (hF : ∀ F ∈ Fs, ∀ i < k, ∀ t, HasDerivAt (F i) (F (i + 1) t) t)
    (hM : ∀ F ∈ Fs, ∀ t, xs.getD 0 0 ≤ t → t ≤ xs.getD (xs.length - 1) 0 → |F k t| ≤ M)
    (hx0 : xs.getD 0 0 ≤ x) (hxl : x ≤ xs.getD (xs.length - 1) 0) :
    ∃ vs, interp .lagrange (some (k : Int)) xs (xs.map (fun t => Fs.map (fun F => F 0 t))) x = .ok vs ∧
      List.Forall₂ (fun F v => |F 0 x - v| ≤ M * H ^ k / (4 * k)) Fs vs := by
  obtain ⟨p, a, _, hap, hpk, hak, hb0, hb1, _, hres⟩ :=
    interp_lagrange_window xs (xs.map (fun t => Fs.map (fun F => F 0 t))) k x hinc hk hlen (by simp) hx0 hxl
  set xw := (xs.take (a + k)).drop a with hxw
  have hyw : ((xs.map (fun t => Fs.map (fun F => F 0 t))).take (a + k)).drop a = xw.map (fun t => Fs.map (fun F => F 0 t)) := by
    rw [hxw, List.map_drop, List.map_take]
  have lx : xw.length = k := window_length xs a k hak
  have hpw := increasing_pairwise xs hinc
  have hxne : xw ≠ [] := by intro h; rw [h] at lx; simp at lx; omega
  rw [hyw] at hres
  have hsam := lagrangeEval_sampled xw (Fs.map (fun F => F 0)) x hxne
  rw [List.map_map] at hsam
  refine ⟨_, hres, ?_⟩
  have e1 : (fun t => Fs.map (fun F => F 0 t)) = (fun t => (Fs.map (fun F => F 0)).map (fun f => f t)) := by
    funext t; rw [List.map_map]; rfl
  rw [e1, hsam, List.forall₂_map_right_iff, List.forall₂_same]
  intro F hFm
  simp only [Function.comp]
  -- the nodes of the window
  have hv : ∀ i, i < k → nodeFn xw i = xs.getD (a + i) 0 := fun i hi => by
    unfold nodeFn; rw [hxw, window_getD xs a k i hi]
  have mono : ∀ i j, i ≤ j → j < xs.length → xs.getD i 0 ≤ xs.getD j 0 := by
    intro i j hij hj
    rcases Nat.lt_or_eq_of_le hij with h | h
    · exact le_of_lt (getD_lt_of_pairwise xs hpw i j h hj)
    · rw [h]
  have hcol : lagrangeCol xw (xw.map (F 0)) x
      = eval x (Lagrange.interpolate (Finset.range k) (nodeFn xw) (fun i => F 0 (nodeFn xw i))) := by
    rw [lagrangeCol_eq_eval_interpolate, lx]
    congr 1
    apply Lagrange.interpolate_eq_of_values_eq_on
    intro i hi
    have hi' : i < xw.length := by rw [lx]; exact Finset.mem_range.mp hi
    simp [nodeFn, List.getD_eq_getElem?_getD, List.getElem?_map, List.getElem?_eq_getElem hi']
  rw [hcol]
  have hm2 : (p - a) + 2 ≤ k := by omega
  refine lagrange_remainder_steps k (p - a) (nodeFn xw) F H M x hm2 ?_ ?_ (hF F hFm) ?_ ?_ ?_
  · intro i hi
    rw [hv i (by omega), hv (i + 1) hi]
    exact getD_lt_of_pairwise xs hpw (a + i) (a + (i + 1)) (by omega) (by omega)
  · intro i hi
    rw [hv i (by omega), hv (i + 1) hi]
    have := hstep (a + i) (by omega)
    rw [show a + (i + 1) = a + i + 1 by omega]
    exact this
  · intro t ht
    rw [hv 0 (by omega), hv (k - 1) (by omega)] at ht
    apply hM F hFm t
    · exact le_trans (mono 0 (a + 0) (by omega) (by omega)) ht.1
    · exact le_trans ht.2 (mono (a + (k - 1)) (xs.length - 1) (by omega) (by omega))
  · rw [hv (p - a) (by omega), show a + (p - a) = p by omega]; exact hb0
  · rw [hv (p - a + 1) (by omega), show a + (p - a + 1) = p + 1 by omega]; exact hb1

/-- the hypotheses of `interp_lagrange_error_bound` are met: 3 abscissae, order 3, `cos`, the first interval -/
example : increasing [(0 : ℝ), 1, 2] = true ∧ (∀ i, i + 1 < [(0 : ℝ), 1, 2].length → [(0 : ℝ), 1, 2].getD (i + 1) 0 - [(0 : ℝ), 1, 2].getD i 0 ≤ 1) ∧
    (∀ i < 3, ∀ t, HasDerivAt (cosChain 1 1 0 i) (cosChain 1 1 0 (i + 1) t) t) ∧ (∀ t : ℝ, |cosChain 1 1 0 3 t| ≤ 1) := by
  refine ⟨by simp [increasing], ?_, fun i _ t => cosChain_hasDerivAt 1 1 0 i t, fun t => ?_⟩
  · intro i hi
    have : i < 2 := by simp at hi; omega
    interval_cases i <;> norm_num
  · simpa using cosChain_bound 1 1 0 3 t

/-- **"Within centimetres for a smooth orbit sampled at a step well below its period"**, proved for the coordinates
of a circular orbit (any number of coordinates `A_c cos(ω t + φ_c)` with `|A_c| ≤ 43 000 km`), order 8, steps at most
period / 100 (`ω H ≤ 2π / 100`), uniform or not: at every abscissa of `[first, last]` — first and last interval
included — every interpolated coordinate is within **1 mm** of the true one (over ℝ).
Missing for the full clause: a bound of the 8th derivative of Keplerian motion with `e > 0`; ℝ → doubles. -/
theorem smooth_orbit_within_cm_partial (xs : List ℝ) (comps : List (ℝ × ℝ)) (ω H x : ℝ)
    (hinc : increasing xs = true) (hlen : 8 ≤ xs.length)
    (hstep : ∀ i, i + 1 < xs.length → xs.getD (i + 1) 0 - xs.getD i 0 ≤ H)
    (hω : 0 ≤ ω) (hωH : ω * H ≤ 2 * Real.pi / 100) (hA : ∀ c ∈ comps, |c.1| ≤ 43000000)
    (hx0 : xs.getD 0 0 ≤ x) (hxl : x ≤ xs.getD (xs.length - 1) 0) :
    ∃ vs, interp .lagrange (some 8) xs (xs.map (fun t => comps.map (fun c => c.1 * Real.cos (ω * t + c.2)))) x = .ok vs ∧
      List.Forall₂ (fun c v => |c.1 * Real.cos (ω * x + c.2) - v| ≤ 0.001) comps vs := by
  have hH : 0 ≤ H := by
    have h01 := getD_lt_of_pairwise xs (increasing_pairwise xs hinc) 0 1 (by omega) (by omega)
    have := hstep 0 (by omega)
    simp only [zero_add] at this
    linarith
  obtain ⟨vs, hvs, hb⟩ := interp_lagrange_error_bound xs 8 (comps.map (fun c => cosChain c.1 ω c.2)) H (43000000 * |ω| ^ 8) x
    hinc (by omega) hlen hstep
    (by intro F hFm i _ t; obtain ⟨c, _, rfl⟩ := List.mem_map.mp hFm; exact cosChain_hasDerivAt c.1 ω c.2 i t)
    (by
      intro F hFm t _ _
      obtain ⟨c, hc, rfl⟩ := List.mem_map.mp hFm
      exact le_trans (cosChain_bound c.1 ω c.2 8 t) (mul_le_mul_of_nonneg_right (hA c hc) (by positivity)))
    hx0 hxl
  have etab : (fun t => (comps.map (fun c => cosChain c.1 ω c.2)).map (fun F => F 0 t))
      = (fun t => comps.map (fun c => c.1 * Real.cos (ω * t + c.2))) := by
    funext t
    rw [List.map_map]
    apply List.map_congr_left
    intro c _
    exact cosChain_zero c.1 ω c.2 t
  rw [etab] at hvs
  refine ⟨vs, by exact_mod_cast hvs, ?_⟩
  rw [List.forall₂_map_left_iff] at hb
  refine hb.imp ?_
  intro c v h
  rw [cosChain_zero] at h
  have hnum := circular_bound_order8 43000000 ω H (by norm_num) hω hH hωH
  have e : |(43000000 : ℝ)| = 43000000 := abs_of_pos (by norm_num)
  rw [e] at hnum
  calc |c.1 * Real.cos (ω * x + c.2) - v| ≤ 43000000 * |ω| ^ 8 * H ^ (8 : ℕ) / (4 * ((8 : ℕ) : ℝ)) := h
    _ = 43000000 * |ω| ^ 8 * H ^ 8 / (4 * 8) := by norm_num
    _ ≤ 0.001 := hnum

/-- the numeric hypotheses are met by a geostationary orbit sampled every 10 minutes (period/144):
`ω = 7.292e-5 rad/s`, `H = 600 s` -/
example : (0 : ℝ) ≤ 7.292e-5 ∧ (7.292e-5 : ℝ) * 600 ≤ 2 * Real.pi / 100 ∧ |(42164000 : ℝ)| ≤ 43000000 := by
  refine ⟨by norm_num, ?_, by rw [abs_of_pos (by norm_num)]; norm_num⟩
  have := Real.pi_gt_d2
  linarith

end BeyondVerif.C09
