import BeyondVerif.Props.C13Oem
import BeyondVerif.Props.C13Tdm
import BeyondVerif.Props.C13Kvn
import BeyondVerif.Props.C13KvnOem
import BeyondVerif.Props.C13KvnTdm
/-!
C13 — the two remaining clauses as universally quantified theorems, assembled from the eight `load_dump_id` theorems:

* **kvn_xml_agree**: "KVN and XML encodings of the same object decode to the same object" (OPM and OMM: `Props/C13Kvn.lean`;
  OEM and TDM here);
* **redump_total**: "anything that was read can be written again" — what either reader returns is accepted by both writers, and
  the second round trip is exact (the loaded object is a fixed point of dump-then-load).  For a TDM this holds for a set with a
  single path only: a multi-path set reloads as a list of sets that `dumps` refuses (open finding, `_partial`).
-/
namespace BeyondVerif.C13
open BeyondVerif.Ccsds BeyondVerif.Generated

/-! ## KVN and XML decode to the same object -/

/-- **kvn_xml_agree, OEM**: for every non-empty list of well-formed segments both encodings decode to the same list of ephemerides -/
theorem oem_kvn_xml_agree (m : Oem) (hne : m ≠ []) (h : ∀ s ∈ m, SegWf s) :
    (oemKvn m >>= loadOemKvn) = (oemXml m >>= loadOemXml) := by
  rw [oem_kvn_load_dump_id m h, oem_xml_load_dump_id m hne h]

/-- **kvn_xml_agree, TDM**: for every well-formed measurement set both encodings decode to the same list of per-path sets -/
theorem tdm_kvn_xml_agree (m : Tdm) (h : TdmWf m) : (tdmKvn m >>= loadTdmKvn) = (tdmXml m >>= loadTdmXml) := by
  rw [tdm_kvn_load_dump_id m h, tdm_xml_load_dump_id m h]

example : (oemKvn OemKvn.oemKvnEx >>= loadOemKvn) = (oemXml OemKvn.oemKvnEx >>= loadOemXml) :=
  oem_kvn_xml_agree OemKvn.oemKvnEx (by simp [OemKvn.oemKvnEx]) OemKvn.oemKvnEx_wf

/-! ## what was read can be written again -/

theorem ok_of_bind_ok {α β : Type} {x : R α} {f : α → R β} {y : β} (h : (x >>= f) = .ok y) : ∃ a, x = .ok a := by
  cases x with
  | error e => simp [bind, Except.bind] at h
  | ok a => exact ⟨a, rfl⟩

theorem udWf_norm (ud : Option (List (String × String))) (h : UdWf ud) : UdWf (normUd ud) := by
  intro kvs hk kv hkv
  match ud, h, hk with
  | some [], _, hk => simp [normUd] at hk
  | some (a :: r), h, hk => simp only [normUd] at hk; exact h _ hk kv hkv
  | none, _, hk => simp [normUd] at hk

theorem udKvnWf_norm (ud : Option (List (String × String))) (h : UdKvnWf ud) : UdKvnWf (normUd ud) := by
  intro kvs hk
  match ud, h, hk with
  | some [], _, hk => simp [normUd] at hk
  | some (a :: r), h, hk => simp only [normUd] at hk; exact h _ hk
  | none, _, hk => simp [normUd] at hk

theorem normUd_idem (ud : Option (List (String × String))) : normUd (normUd ud) = normUd ud := by
  match ud with
  | some [] => rfl
  | some (_ :: _) => rfl
  | none => rfl

/-- the OPM either reader returns is again a well-formed OPM -/
theorem opmWf_loaded (m : Opm) (h : OpmWf m) : OpmWf { m with kep := none, ud := normUd m.ud } :=
  { frame := h.frame, name := h.name, id := h.id, scale := h.scale, epoch := h.epoch, state := h.state,
    kep := by intro ks hk; cases hk
    cov := h.cov, mans := h.mans, ud := udWf_norm m.ud h.ud }

/-- **redump_total, OPM** ("anything that was read can be written again"): both readers return the same object `l`; both writers
accept `l`; and writing `l` and reading it back — in either encoding — gives `l` exactly. -/
theorem opm_redump_total (m : Opm) (h : OpmWf m) (hud : UdKvnWf m.ud) :
    ∃ l, (opmKvn m >>= loadOpmKvn) = .ok l ∧ (opmXml m >>= loadOpmXml) = .ok l ∧
      (∃ t, opmKvn l = .ok t) ∧ (∃ e, opmXml l = .ok e) ∧
      (opmKvn l >>= loadOpmKvn) = .ok l ∧ (opmXml l >>= loadOpmXml) = .ok l := by
  have hl := opmWf_loaded m h
  have hudl : UdKvnWf (normUd m.ud) := udKvnWf_norm m.ud hud
  have k := opm_kvn_load_dump_id _ hl hudl
  have x := opm_xml_load_dump_id _ hl
  simp only [normUd_idem] at k x
  exact ⟨_, opm_kvn_load_dump_id m h hud, opm_xml_load_dump_id m h, ok_of_bind_ok k, ok_of_bind_ok x, k, x⟩

theorem ommWf_loaded (m : Omm) (h : OmmWf m) : OmmWf { m with hasTle := false, ud := normUd m.ud } :=
  { frame := h.frame, name := h.name, id := h.id, scale := h.scale, epoch := h.epoch, elems := h.elems, tle := h.tle,
    cov := h.cov, ud := udWf_norm m.ud h.ud }

/-- the KVN OMM writer no longer needs the `Tle` object the orbit was made from (regenerated from omm.py; /repo dce331f) -/
theorem omm_kvn_needs_no_tle : ommKvnNeedsTle = false := by decide

/-- **redump_total, OMM**: what either reader returns (an orbit without `Tle` object) is accepted by both writers — the KVN one
included — and is a fixed point of dump-then-load in either encoding. -/
theorem omm_redump_total (m : Omm) (h : OmmWf m) (hud : UdKvnWf m.ud) :
    ∃ l, (ommKvn m >>= loadOmmKvn) = .ok l ∧ (ommXml m >>= loadOmmXml) = .ok l ∧
      (∃ t, ommKvn l = .ok t) ∧ (∃ e, ommXml l = .ok e) ∧
      (ommKvn l >>= loadOmmKvn) = .ok l ∧ (ommXml l >>= loadOmmXml) = .ok l := by
  have hl := ommWf_loaded m h
  have hudl : UdKvnWf (normUd m.ud) := udKvnWf_norm m.ud hud
  have k := omm_kvn_load_dump_id _ hl hudl (Or.inl omm_kvn_needs_no_tle)
  have x := omm_xml_load_dump_id _ hl
  simp only [normUd_idem] at k x
  exact ⟨_, omm_kvn_load_dump_id m h hud (Or.inl omm_kvn_needs_no_tle), omm_xml_load_dump_id m h, ok_of_bind_ok k, ok_of_bind_ok x, k, x⟩

/-- **redump_total, OEM**: the loaded list of ephemerides is the list written; both writers accept it again -/
theorem oem_redump_total (m : Oem) (hne : m ≠ []) (h : ∀ s ∈ m, SegWf s) :
    (oemKvn m >>= loadOemKvn) = .ok m ∧ (oemXml m >>= loadOemXml) = .ok m ∧ (∃ t, oemKvn m = .ok t) ∧ (∃ e, oemXml m = .ok e) :=
  ⟨oem_kvn_load_dump_id m h, oem_xml_load_dump_id m hne h, ok_of_bind_ok (oem_kvn_load_dump_id m h), ok_of_bind_ok (oem_xml_load_dump_id m hne h)⟩

theorem tdm_kvn_single_path (m : Tdm) (h : TdmWf m) (hp : ∀ o ∈ m.obs, ∀ o' ∈ m.obs, o.path = o'.path) :
    (tdmKvn m >>= loadTdmKvn >>= tdmOfSets) = .ok m := by
  have hx := tdm_xml_single_path m h hp
  rw [← tdm_kvn_xml_agree m h] at hx
  exact hx

/-- Full statement (false of the current code — `Witness/C13.lean tdm_two_paths_reload_as_list`, open finding
C13-tdm-multi-path-reloads-as-list): `∀ m, TdmWf m → ∃ t, (tdmKvn m >>= loadTdmKvn >>= tdmOfSets >>= tdmKvn) = .ok t` (and XML).
Proved part, **redump_total, TDM, single path**: a measurement set all of whose measures share one path is read back as itself from
either encoding and accepted by both writers again.  Missing: `dumps` accepting the list of sets a multi-path set reloads as
(`tdmDumpsAcceptsList`, proposed_fixes/C13-tdm-list-of-sets.diff). -/
theorem tdm_redump_total_partial (m : Tdm) (h : TdmWf m) (hp : ∀ o ∈ m.obs, ∀ o' ∈ m.obs, o.path = o'.path) :
    (tdmKvn m >>= loadTdmKvn >>= tdmOfSets) = .ok m ∧ (tdmXml m >>= loadTdmXml >>= tdmOfSets) = .ok m ∧
      (∃ t, tdmKvn m = .ok t) ∧ (∃ e, tdmXml m = .ok e) :=
  ⟨tdm_kvn_single_path m h hp, tdm_xml_single_path m h hp, ok_of_bind_ok (tdm_kvn_load_dump_id m h), ok_of_bind_ok (tdm_xml_load_dump_id m h)⟩

example : ∃ l, (opmKvn opmEx >>= loadOpmKvn) = .ok l ∧ (opmXml opmEx >>= loadOpmXml) = .ok l ∧
      (∃ t, opmKvn l = .ok t) ∧ (∃ e, opmXml l = .ok e) ∧ (opmKvn l >>= loadOpmKvn) = .ok l ∧ (opmXml l >>= loadOpmXml) = .ok l :=
  opm_redump_total opmEx opmEx_wf (by
    intro kvs hk
    cases hk
    exact ⟨by decide, by decide⟩)

end BeyondVerif.C13

namespace BeyondVerif.C13
open BeyondVerif.Ccsds BeyondVerif.Generated

/-! ## frames centred elsewhere than on the Earth

`OpmWf` / `SegWf` ask for `frame ∈ frameTable.map (·.1)`; the table is regenerated from the live objects and holds, besides the ten
Earth-centred frames, every frame the library can create around another centre (solar-system bodies, bodies of the JPL kernels with
names of one to three words, Lagrange points).  So the whole-message theorems above hold for those too: CENTER_NAME is printed by the
CamelCase split and mapped back by the readers' `title().replace(" ", "")` (`frames_roundtrip`, `center_name_roundtrip`). -/

def opmSsb : Opm := { opmEx with frame := "SolarSystemBarycenter" }

theorem opmSsb_wf : OpmWf opmSsb :=
  { opmEx_wf with
    frame := by decide
    mans := by
      intro x hx
      simp only [opmSsb, opmEx, List.mem_cons, List.not_mem_nil, or_false] at hx
      subst hx
      exact ⟨⟨⟨_, _, _, rfl, by decide, by decide, by decide⟩, by decide, by decide, by decide⟩, Or.inr (Or.inl rfl)⟩ }

/-- an OPM in the JPL frame SolarSystemBarycenter (CENTER_NAME = SOLAR SYSTEM BARYCENTER, REF_FRAME = EME2000) with a QSW maneuver and a
user-defined field: read back as itself from KVN and from XML -/
example : (opmKvn opmSsb >>= loadOpmKvn) = .ok opmSsb ∧ (opmXml opmSsb >>= loadOpmXml) = .ok opmSsb :=
  ⟨opm_kvn_load_dump_id opmSsb opmSsb_wf (by intro kvs hk; cases hk; exact ⟨by decide, by decide⟩), opm_xml_load_dump_id opmSsb opmSsb_wf⟩

def segL2 : Seg := { segEx with frame := "SunEarthL2" }

example : (oemKvn [segL2] >>= loadOemKvn) = .ok [segL2] ∧ (oemXml [segL2] >>= loadOemXml) = .ok [segL2] := by
  have h : ∀ s ∈ [segL2], SegWf s := by
    intro s hs
    simp only [List.mem_cons, List.not_mem_nil, or_false] at hs
    subst hs
    exact { frame := by decide, name := by decide, id := by decide, scale := by decide, method := by decide, order := by decide,
            points_ne := by simp [segL2, segEx],
            points := by
              intro p hp
              simp only [segL2, segEx, List.mem_cons, List.not_mem_nil, or_false] at hp
              subst hp
              exact ⟨by decide, _, _, _, _, _, _, rfl, by decide, by decide, by decide, by decide, by decide, by decide⟩
            covs := by
              intro p hp c hc
              simp only [segL2, segEx, List.mem_cons, List.not_mem_nil, or_false] at hp
              subst hp
              cases hc
            nodup := by simp [segL2, segEx] }
  exact ⟨oem_kvn_load_dump_id _ h, oem_xml_load_dump_id _ (by simp) h⟩

end BeyondVerif.C13
