import BeyondVerif.Lemmas.Registry
import BeyondVerif.Generated.RegSites
import BeyondVerif.Generated.Graphs

/-!
# C20 — the registry layer: a connected pair never raises `Unknown transformation`

`Props/C20.lean` and `Props/C20Forest.lean` are about the routing tables of `beyond/utils/node.py` with
every node carrying its own name.  This file is about what `Center.convert_to` / `Orientation.convert_to`
do WITH a route (`Model/Registry.lean`): node identity distinct from node name, and the link methods
`<a>_to_<b>` looked up on the START object through the class hierarchy.

* `named_model_is_node_model` : with one name per node the named routing model is `Model/Node.lean`
  (so every theorem of `Props/C20*.lean` speaks about it).
* `named_path_valid_chain`    : for EVERY history of registry operations, any names (shared or not), a
  returned path starts at the source, only follows inserted links and ends at a node CARRYING the goal name.
* `registered_run`            : for every history of executions of registration sites each of which
  registers on the base class the method of every link it inserts (`registersRoot`), every link of the
  graph has a method on the base class under the names of its ends.
* `convert_resolves`, `convert_never_unknown_transformation` : hence, for every such history, every start
  object that is an instance of the base class and every goal: `convert_to` never raises
  `Unknown transformation` — each step of the returned path resolves to a method.
* `sites_register_root`       : EVERY registration site of the CURRENT source (`Center.add_link`, `JplCenter.add_link`,
  the constructors `TopocentricOrientation`, `LocalOrbitalOrientation`, `LagrangeOrient`, and `create_station`,
  `orbit2frame`, `lagrange`, `solarsystem.get_frame`, `jpl.create_frames`), regenerated from the AST on every run,
  satisfies `registersRoot` (`decide`).  The bare `TopocentricOrientation.__init__` did not before the fix of finding
  C20-topocentric-ctor-instance-only (`Witness/C20.lean`: regression witness).
* `builtin_links_have_methods`: every link executed at import of `beyond.frames.orient` has a method in the
  class body of `Orientation` (regenerated tables, `decide`).
* `small_named_forests_exact` (in `Props/C20Named.lean`) : forests on ≤ 3 nodes under every assignment of shared names.
* `fresh_names_keep_methods`  : operations whose keys mention a name outside `S` change no lookup of a key
  over `S` from any object (registering under new names leaves the resolution of old conversions unchanged).
-/
namespace BeyondVerif.C20
open BeyondVerif.Node (Route NodeSt Graph get set lookupRoute PathRes DirInv)
open BeyondVerif.Reg

/-- with `nm = id` (every node its own name) the named model is `Model/Node.lean` -/
theorem named_model_is_node_model (fuel fuel' : Nat) (hist : List (Nat × Nat)) (g : Graph) (a b s t : Nat) :
    Reg.build id fuel hist = Node.build fuel hist ∧ Reg.link id fuel g a b = Node.link fuel g a b ∧
      Reg.path id fuel' g s t = Node.path fuel' g s t :=
  ⟨build_id fuel hist, link_id fuel g a b, path_id fuel' g s t⟩

/-! ## histories of registry operations -/

/-- `u — v` was linked by one of the operations -/
def opLinked (ops : List Op) (u v : Nat) : Prop := Op.link u v ∈ ops ∨ Op.link v u ∈ ops

def opAttr : Op → List Attr
  | .link _ _ => []
  | .setattr h ka kb o => [⟨h, ka, kb, o⟩]

theorem applyOp_spec {w : World} {fuel : Nat} {st st' : State} {op : Op} (h : applyOp w fuel st op = some st') :
    (∀ u v, v ∈ (get st'.g u).nbrs ↔ v ∈ (get st.g u).nbrs ∨ opLinked [op] u v) ∧
      st'.attrs = opAttr op ++ st.attrs ∧ (DirInv st.g → DirInv st'.g) := by
  cases op with
  | link a b =>
    simp only [applyOp, Option.map_eq_some_iff] at h
    obtain ⟨g', hl, rfl⟩ := h
    refine ⟨?_, rfl, fun hd => dirInv_link w.nm hd hl⟩
    intro u v
    rw [link_nbrs w.nm hl]
    simp only [opLinked, List.mem_singleton, Op.link.injEq]
    tauto
  | setattr hh ka kb o =>
    simp only [applyOp, Option.some.injEq] at h
    subst h
    refine ⟨?_, rfl, id⟩
    intro u v
    simp [opLinked]

/-- what a sequence of operations does: neighbours = old ∪ inserted links, attributes = new entries in front of
the old ones, and table directions stay neighbours -/
theorem applyOps_spec {w : World} {fuel : Nat} : ∀ {ops : List Op} {st st' : State},
    applyOps w fuel st ops = some st' →
    (∀ u v, v ∈ (get st'.g u).nbrs ↔ v ∈ (get st.g u).nbrs ∨ opLinked ops u v) ∧
      (∀ x, x ∈ st'.attrs ↔ x ∈ st.attrs ∨ ∃ op ∈ ops, x ∈ opAttr op) ∧ (DirInv st.g → DirInv st'.g)
  | [], st, st', h => by
    simp only [applyOps, Option.some.injEq] at h
    subst h
    simp [opLinked]
  | op :: rest, st, st', h => by
    simp only [applyOps, Option.bind_eq_some_iff] at h
    obtain ⟨st1, h1, h2⟩ := h
    obtain ⟨n1, a1, d1⟩ := applyOp_spec h1
    obtain ⟨n2, a2, d2⟩ := applyOps_spec h2
    refine ⟨?_, ?_, fun hd => d2 (d1 hd)⟩
    · intro u v
      rw [n2, n1]
      simp only [opLinked, List.mem_singleton, List.mem_cons]
      tauto
    · intro x
      rw [a2, a1]
      simp only [List.mem_append, List.mem_cons, exists_eq_or_imp]
      tauto

/-- every link of the graph has a method ON THE BASE CLASS `root` under the names of its two ends -/
def Registered (w : World) (root : Nat) (st : State) : Prop :=
  ∀ u v, v ∈ (get st.g u).nbrs →
    HasKey st.attrs (.cls root) (w.nm u) (w.nm v) ∨ HasKey st.attrs (.cls root) (w.nm v) (w.nm u)

theorem hasKey_mono {attrs attrs' : List Attr} (hsub : ∀ x, x ∈ attrs → x ∈ attrs') {h : Holder} {ka kb : Nat}
    (hk : HasKey attrs h ka kb) : HasKey attrs' h ka kb := by
  obtain ⟨x, hx, hp⟩ := hk
  exact ⟨x, hsub x hx, hp⟩

/-- a site satisfying `registersRoot` registers, for each link it inserts, a base-class method under the names of
the ends of that link -/
theorem site_link_registered {w : World} {root : Nat} {β : Binding} {site : List SiteOp}
    (hs : registersRoot site = true) {u v : Nat} (hl : Op.link u v ∈ instSite w root β site) :
    ∃ o, Op.setattr (.cls root) (w.nm u) (w.nm v) o ∈ instSite w root β site ∨
      Op.setattr (.cls root) (w.nm v) (w.nm u) o ∈ instSite w root β site := by
  unfold instSite at hl
  obtain ⟨sop, hsop, hinst⟩ := List.mem_map.mp hl
  cases sop with
  | setattr h ka kb o => simp [SiteOp.inst] at hinst
  | link a b =>
    simp only [SiteOp.inst, Op.link.injEq] at hinst
    obtain ⟨rfl, rfl⟩ := hinst
    unfold registersRoot at hs
    have := List.all_eq_true.mp hs _ hsop
    simp only [Bool.and_eq_true] at this
    obtain ⟨_, hany⟩ := this
    obtain ⟨sop', hsop', hm⟩ := List.any_eq_true.mp hany
    cases sop' with
    | link _ _ => simp at hm
    | setattr h ka kb o =>
      cases h with
      | inst _ => simp at hm
      | typeOf _ => simp at hm
      | root =>
        simp only [Bool.or_eq_true, Bool.and_eq_true, beq_iff_eq] at hm
        refine ⟨some (β.get o), ?_⟩
        rcases hm with ⟨rfl, rfl⟩ | ⟨rfl, rfl⟩
        · left
          exact List.mem_map.mpr ⟨_, hsop', by simp [SiteOp.inst]⟩
        · right
          exact List.mem_map.mpr ⟨_, hsop', by simp [SiteOp.inst]⟩

/-- one execution of a registering site keeps `Registered` -/
theorem registered_site {w : World} {root fuel : Nat} {β : Binding} {site : List SiteOp} {st st' : State}
    (hs : registersRoot site = true) (hr : Registered w root st)
    (h : applyOps w fuel st (instSite w root β site) = some st') : Registered w root st' := by
  obtain ⟨hn, ha, _⟩ := applyOps_spec h
  intro u v huv
  have hsub : ∀ x, x ∈ st.attrs → x ∈ st'.attrs := fun x hx => (ha x).mpr (Or.inl hx)
  rcases (hn u v).mp huv with hold | hnew
  · rcases hr u v hold with hk | hk
    · exact Or.inl (hasKey_mono hsub hk)
    · exact Or.inr (hasKey_mono hsub hk)
  · have key : ∀ a b, Op.link a b ∈ instSite w root β site →
        HasKey st'.attrs (.cls root) (w.nm a) (w.nm b) ∨ HasKey st'.attrs (.cls root) (w.nm b) (w.nm a) := by
      intro a b hab
      obtain ⟨o, ho | ho⟩ := site_link_registered hs hab
      · left
        exact ⟨⟨.cls root, w.nm a, w.nm b, o⟩, (ha _).mpr (Or.inr ⟨_, ho, by simp [opAttr]⟩), rfl, rfl, rfl⟩
      · right
        exact ⟨⟨.cls root, w.nm b, w.nm a, o⟩, (ha _).mpr (Or.inr ⟨_, ho, by simp [opAttr]⟩), rfl, rfl, rfl⟩
    rcases hnew with h1 | h1
    · exact key u v h1
    · exact (key v u h1).symm

/-- **every history of executions of registering sites keeps every link registered on the base class** (and
every table direction a neighbour) — any objects, any names (shared or not), any classes, any order -/
theorem registered_run {w : World} {root fuel : Nat} :
    ∀ {hist : List (List SiteOp × Binding)} {st st' : State},
      (∀ e ∈ hist, registersRoot e.1 = true) → Registered w root st → DirInv st.g →
      runSites w root fuel st hist = some st' → Registered w root st' ∧ DirInv st'.g
  | [], st, st', _, hr, hd, h => by
    simp only [runSites, Option.some.injEq] at h
    subst h
    exact ⟨hr, hd⟩
  | (site, β) :: rest, st, st', hs, hr, hd, h => by
    simp only [runSites, Option.bind_eq_some_iff] at h
    obtain ⟨st1, h1, h2⟩ := h
    have hr1 := registered_site (hs _ List.mem_cons_self) hr h1
    have hd1 := (applyOps_spec h1).2.2 hd
    exact registered_run (fun e he => hs e (List.mem_cons_of_mem _ he)) hr1 hd1 h2

theorem registered_empty (w : World) (root : Nat) : Registered w root {} ∧ DirInv ({} : State).g := by
  constructor
  · intro u v h; simp [Node.get] at h
  · intro u r h; simp [Node.get] at h

/-- **Every returned path is a chain of existing links from the source to a node carrying the goal name** — for
every state whose table directions are neighbours (every history), any names. -/
theorem named_path_valid_chain {nm : Nat → Nat} {g : Graph} (hd : DirInv g) (fuel s goal : Nat) (p : List Nat)
    (hp : Reg.path nm fuel g s goal = .ok p) :
    p.head? = some s ∧ (∃ t, p.getLast? = some t ∧ nm t = goal) ∧ p.IsChain (fun a b => b ∈ (get g a).nbrs) := by
  unfold Reg.path at hp
  split at hp
  · next h => cases hp; exact ⟨rfl, ⟨s, rfl, h.symm⟩, by simp⟩
  · split at hp
    · cases hp
    · have := walk_chain nm hd goal fuel s [] p (by simp) hp
      exact ⟨by simpa using this.2.2, this.2.1, this.1⟩

/-- the resolution loop fails only on a step whose key is found in neither direction -/
theorem resolve_unknown {w : World} {attrs : List Attr} {start : Nat} :
    ∀ {steps : List (Nat × Nat)} {acc : List Step} {a b : Nat},
      resolve w attrs start steps acc = .unknownTransformation a b →
      (a, b) ∈ steps ∧ getattr w attrs start (w.nm a) (w.nm b) = none ∧ getattr w attrs start (w.nm b) (w.nm a) = none
  | [], acc, a, b, h => by simp [resolve] at h
  | (x, y) :: rest, acc, a, b, h => by
    unfold resolve at h
    split at h
    · have := resolve_unknown h
      exact ⟨List.mem_cons_of_mem _ this.1, this.2⟩
    · next hn1 =>
      split at h
      · have := resolve_unknown h
        exact ⟨List.mem_cons_of_mem _ this.1, this.2⟩
      · next hn2 =>
        simp only [ConvRes.unknownTransformation.injEq] at h
        obtain ⟨rfl, rfl⟩ := h
        exact ⟨List.mem_cons_self, hn1, hn2⟩

/-- **On a connected pair `convert_to` finds a method for every step.**  From any registry in which every link has a
base-class method (the empty one: `registered_empty`; the built-in orientation graph: `builtin_links_have_methods`), for
every history of executions of registering sites, every start object that is an instance of the base class and every
goal name: if the routing returns a path, each consecutive pair of it resolves (`hasattr(start, a_to_b)` or
`hasattr(start, b_to_a)`). -/
theorem convert_resolves (w : World) (root fuel fuel' : Nat) (st0 : State) (h0 : Registered w root st0) (hd0 : DirInv st0.g)
    (hist : List (List SiteOp × Binding)) (st : State)
    (hs : ∀ e ∈ hist, registersRoot e.1 = true) (hrun : runSites w root fuel st0 hist = some st)
    (start goal : Nat) (hroot : root ∈ w.mro (w.cls start)) (p : List Nat)
    (hp : Reg.path w.nm fuel' st.g start goal = .ok p) :
    ∀ a b, (a, b) ∈ p.zip p.tail →
      (getattr w st.attrs start (w.nm a) (w.nm b)).isSome ∨ (getattr w st.attrs start (w.nm b) (w.nm a)).isSome := by
  obtain ⟨hr, hd⟩ := registered_run hs h0 hd0 hrun
  obtain ⟨_, _, hc⟩ := named_path_valid_chain hd fuel' start goal p hp
  intro a b hab
  have hnb : b ∈ (get st.g a).nbrs := isChain_zip_tail hc a b hab
  rcases hr a b hnb with hk | hk
  · exact Or.inl (getattr_isSome_of_cls hroot hk)
  · exact Or.inr (getattr_isSome_of_cls hroot hk)

/-- … hence `convert_to` never raises `Unknown transformation` (it returns the resolved chain, or reports that
the goal name is not connected, or — excluded for forests by `forest_routes_exact` — fails to walk) -/
theorem convert_never_unknown_transformation (w : World) (root fuel fuel' : Nat)
    (st0 : State) (h0 : Registered w root st0) (hd0 : DirInv st0.g)
    (hist : List (List SiteOp × Binding)) (st : State)
    (hs : ∀ e ∈ hist, registersRoot e.1 = true) (hrun : runSites w root fuel st0 hist = some st)
    (start goal : Nat) (hroot : root ∈ w.mro (w.cls start)) (a b : Nat) :
    convert w fuel' st start goal ≠ .unknownTransformation a b := by
  intro h
  unfold convert at h
  split at h
  · next p hp =>
    obtain ⟨hmem, h1, h2⟩ := resolve_unknown h
    rcases convert_resolves w root fuel fuel' st0 h0 hd0 hist st hs hrun start goal hroot p hp a b hmem with hh | hh
    · rw [h1] at hh; cases hh
    · rw [h2] at hh; cases hh
  all_goals cases h

/-- operations whose every key mentions a name outside `S` leave every lookup of a key over `S` unchanged, from
every object: registrations under NEW names do not change how conversions between old names resolve -/
theorem fresh_names_keep_methods {w : World} {fuel : Nat} (S : Nat → Prop) :
    ∀ {ops : List Op} {st st' : State},
      (∀ h ka kb o, Op.setattr h ka kb o ∈ ops → ¬ (S ka ∧ S kb)) →
      applyOps w fuel st ops = some st' →
      ∀ o ka kb, S ka → S kb → getattr w st'.attrs o ka kb = getattr w st.attrs o ka kb
  | [], st, st', _, h => by
    simp only [applyOps, Option.some.injEq] at h
    subst h
    intros; rfl
  | op :: rest, st, st', hf, h => by
    simp only [applyOps, Option.bind_eq_some_iff] at h
    obtain ⟨st1, h1, h2⟩ := h
    intro o ka kb hka hkb
    rw [fresh_names_keep_methods S (fun h ka kb o hm => hf h ka kb o (List.mem_cons_of_mem _ hm)) h2 o ka kb hka hkb]
    cases op with
    | link a b =>
      simp only [applyOp, Option.map_eq_some_iff] at h1
      obtain ⟨g', _, rfl⟩ := h1
      rfl
    | setattr hh xa xb xo =>
      simp only [applyOp, Option.some.injEq] at h1
      subst h1
      apply getattr_cons_ne
      rintro ⟨rfl, rfl⟩
      exact hf hh _ _ xo List.mem_cons_self ⟨hka, hkb⟩

/-! ## the registration sites of the current source (regenerated from the AST on every run) -/

/-- every registration site of the anchored files (the direct constructors included) registers its links on the base class -/
theorem sites_register_root :
    (BeyondVerif.Generated.publicSites.all (fun s => registersRoot s.2) &&
      BeyondVerif.Generated.regSites.all (fun s => registersRoot s.2) &&
      registersRoot BeyondVerif.Generated.siteTopocentricOrientationCtor) = true := by decide

/-- every link executed at import of `beyond.frames.orient` has a method in the class body of `Orientation`
(in one of the two directions) -/
theorem builtin_links_have_methods :
    (BeyondVerif.Generated.orientHist.all (fun e =>
      BeyondVerif.Generated.orientMethods.contains (e.1, e.2) ||
      BeyondVerif.Generated.orientMethods.contains (e.2, e.1))) = true := by decide

/-! ## non-vacuity: a station below an orientation of a SUBCLASS, then a same-named second station -/

/-- objects 0 (root orientation, class 0), 1 (body-fixed, class 2 ⊂ 0), 2 and 3 (stations, class 1 ⊂ 0; both
named 7) -/
def exampleWorld : World where
  nm := fun i => [10, 11, 7, 7].getD i i
  cls := fun i => [0, 2, 1, 1].getD i 0
  mro := fun c => if c = 0 then [0] else [c, 0]

example : ∃ st, runSites exampleWorld 0 8 {}
      [(BeyondVerif.Generated.siteLagrangeOrient, ⟨1, 0, 0⟩),
       (BeyondVerif.Generated.siteCreateStationOrient, ⟨2, 1, 0⟩),
       (BeyondVerif.Generated.siteCreateStationOrient, ⟨3, 1, 0⟩)] = some st ∧
    convert exampleWorld 8 st 0 7 = .ok [⟨0, 1, false, some 1⟩, ⟨1, 3, false, some 3⟩] := by
  refine ⟨_, rfl, ?_⟩; decide

end BeyondVerif.C20
