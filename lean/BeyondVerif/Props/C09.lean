import BeyondVerif.Lemmas.Interp
import BeyondVerif.Lemmas.InterpFormula
import Mathlib.Tactic.FieldSimp
import Mathlib.Tactic.Ring
import Mathlib.Tactic.IntervalCases
import Mathlib.Tactic.NormNum

/-!
# C09 — ephemeris interpolation is exact at nodes and accurate between them

Theorems over ℝ about the model of `beyond/utils/interp.py` and of `Ephem.interpolate`
(Model/InterpR.lean, instantiated from lean/templates/Interp.tpl; the window arithmetic
`windowRaw` and `Ephem.DEFAULT_ORDER` are *translated from the source on every run*,
Generated/InterpWinR.lean).  The same model text, instantiated over `Float`, is run against the
real classes by the correspondence (harness/props/C09.py).

Clauses of the property and where they are:
* node exactness ........................ `interp_lagrange_node_exact`, `interp_linear_node_exact`
* polynomial reproduction (deg < order) . `interp_lagrange_reproduces_poly` (via Mathlib `Lagrange.eq_interpolate`)
* piecewise-linear reproduction ......... `interp_linear_reproduces_pwl`
* edge windows, even/odd orders ......... `window_spec`, `interp_lagrange_window` (∀ order ≥ 2, ∀ length ≥ order)
* binary search ......................... `prevIdx_total`, `prevIdx_spec`, `prevIdx_bracket`
* outside refused ....................... `outside_rejected`, `outside_value_error`
* too short refused ..................... `too_short_rejected`, `too_short_value_error`
* frame / form kept ..................... `result_keeps_frame_form`, `result_keeps_frame_form_after_convert`,
  `interpolate_uses_current_coordinates` (for every history of interpolations and frame/form changes the
  coordinates are interpolated from the current points; this was false before /repo commit 0a4f7b2, see
  Witness/C09.lean for the history)
* the Lagrange formula itself is translated from the numpy source (`lagrangeFormula`, Generated/InterpLagR.lean) and
  proved equal to the textbook formula `lagrangeEval` in Lemmas/InterpFormula.lean (`lagrangeFormula_eq`)
* `_prev_idx` and the linear method at nodes, the last one included ... `prevIdx_at_node`, `interp_linear_last_node`
* "within centimetres on a smooth orbit" .. Props/C09Bound.lean (`interp_lagrange_error_bound`, `smooth_orbit_within_cm_partial`)
* Ephem as a state machine with object identity, operation histories .. Props/C09Ephem.lean
-/
namespace BeyondVerif.C09
open BeyondVerif.R BeyondVerif.NumReal
open Polynomial

/-! ## `_prev_idx` -/

/-- **`_prev_idx` terminates** on every non-empty table (the fuel given by `prevIdx` suffices) -/
theorem prevIdx_total (xs : List ℝ) (x : ℝ) (hne : xs ≠ []) : ∃ i, prevIdx xs x = some i :=
  prevIdxGo_total x _ xs 0 hne (Nat.le_succ _)

/-- `_prev_idx` brackets the abscissa -/
theorem prevIdx_spec (xs : List ℝ) (x : ℝ) (i : ℕ) (h : prevIdx xs x = some i) :
    i < xs.length ∧ (i = 0 ∨ xs.getD i 0 < x) ∧ (i + 1 = xs.length ∨ x ≤ xs.getD (i + 1) 0) := by
  refine prevIdxGo_inv x xs (xs.length + 1) xs 0 i (fun k _ => by simp) (by omega) (Or.inl rfl) (Or.inl (by omega)) h

theorem prevIdx_bracket (xs : List ℝ) (x : ℝ) (h2 : 2 ≤ xs.length)
    (hx0 : xs.getD 0 0 ≤ x) (hxl : x ≤ xs.getD (xs.length - 1) 0) :
    ∃ p, prevIdx xs x = some p ∧ p + 1 < xs.length ∧ xs.getD p 0 ≤ x ∧ x ≤ xs.getD (p + 1) 0 ∧ (p = 0 ∨ xs.getD p 0 < x) := by
  have hne : xs ≠ [] := by intro h; simp [h] at h2
  obtain ⟨p, hp⟩ := prevIdx_total xs x hne
  obtain ⟨hlt, hl, hr⟩ := prevIdx_spec xs x p hp
  have hp1 : p + 1 < xs.length := by
    rcases hr with hr | hr
    · exfalso
      rcases hl with hl | hl
      · omega
      · have : xs.length - 1 = p := by omega
        rw [this] at hxl; linarith
    · by_contra hcon
      have : p + 1 = xs.length := by omega
      rcases hl with hl | hl
      · omega
      · have h' : xs.length - 1 = p := by omega
        rw [h'] at hxl; linarith
  refine ⟨p, hp, hp1, ?_, ?_, hl⟩
  · rcases hl with hl | hl
    · rw [hl]; exact hx0
    · exact le_of_lt hl
  · rcases hr with hr | hr
    · omega
    · exact hr

/-! ## the window of `_lagrange` -/

/-- **Window arithmetic** (all orders ≥ 2, even and odd, all table lengths ≥ order, every bracketing index
`p`, including both end intervals): the raw `start, stop` computed by the source satisfy `0 ≤ start`,
`start ≤ p`, `p + 1 < start + order`, `start + order ≤ n`, and the slice `[start:stop]` of a table of length
`n` is exactly `[start, start + order)`. `windowRaw` is regenerated from interp.py on every run. -/
theorem window_spec (p order n : Int) (ho : 2 ≤ order) (hn : order ≤ n) (hp0 : 0 ≤ p) (hp : p + 1 < n) :
    0 ≤ (windowRaw p order n).1 ∧ (windowRaw p order n).1 ≤ p ∧ p + 1 < (windowRaw p order n).1 + order ∧
      (windowRaw p order n).1 + order ≤ n ∧ min (windowRaw p order n).2 n = (windowRaw p order n).1 + order := by
  rw [windowRaw_eq]
  split_ifs with h1 h2 <;> simp only <;> omega

/-- **The window of `_lagrange`** (end to end): for a strictly increasing table of length ≥ order ≥ 2
and an abscissa inside it, the call succeeds and its value is the Lagrange interpolant on `order`
consecutive rows `a … a+order-1` which contain the bracketing interval `[p, p+1]`. -/
theorem interp_lagrange_window (xs : List ℝ) (ys : List (List ℝ)) (k : ℕ) (x : ℝ)
    (hinc : increasing xs = true) (hk : 2 ≤ k) (hlen : k ≤ xs.length) (hys : ys.length = xs.length)
    (hx0 : xs.getD 0 0 ≤ x) (hxl : x ≤ xs.getD (xs.length - 1) 0) :
    ∃ p a, prevIdx xs x = some p ∧ a ≤ p ∧ p + 1 < a + k ∧ a + k ≤ xs.length ∧
      xs.getD p 0 ≤ x ∧ x ≤ xs.getD (p + 1) 0 ∧ (p = 0 ∨ xs.getD p 0 < x) ∧
      interp .lagrange (some (k : Int)) xs ys x
        = .ok (lagrangeEval ((xs.take (a + k)).drop a) ((ys.take (a + k)).drop a) x) := by
  obtain ⟨p, hp, hp1, hb0, hb1, hl⟩ := prevIdx_bracket xs x (by omega) hx0 hxl
  have hw := window_spec (p : Int) (k : Int) (xs.length : Int) (by omega) (by omega) (by omega) (by omega)
  obtain ⟨w0, w1, w2, w3, w4⟩ := hw
  set w := windowRaw (p : Int) (k : Int) (xs.length : Int) with hwdef
  refine ⟨p, w.1.toNat, hp, by omega, by omega, by omega, hb0, hb1, hl, ?_⟩
  have hne : xs ≠ [] := by intro h; simp [h] at hlen; omega
  obtain ⟨x0, hx0'⟩ : ∃ x0, xs.head? = some x0 := by
    cases xs with
    | nil => exact absurd rfl hne
    | cons a t => exact ⟨a, rfl⟩
  obtain ⟨xl, hxl'⟩ : ∃ xl, xs.getLast? = some xl := by
    cases hq : xs.getLast? with
    | none => exact absurd (List.getLast?_eq_none_iff.mp hq) hne
    | some v => exact ⟨v, rfl⟩
  have e0 := head?_eq_getD xs x0 hx0'
  have el := getLast?_eq_getD xs xl hxl'
  have hxs : pySlice xs w.1 w.2 = (xs.take (w.1.toNat + k)).drop w.1.toNat :=
    pySlice_window xs w.1 w.2 k w0 (by omega) (by omega)
  have hysl : pySlice ys w.1 w.2 = (ys.take (w.1.toNat + k)).drop w.1.toNat :=
    pySlice_window ys w.1 w.2 k w0 (by rw [hys]; omega) (by rw [hys]; omega)
  have lx : ((xs.take (w.1.toNat + k)).drop w.1.toNat).length = k := window_length xs _ k (by omega)
  have ly : ((ys.take (w.1.toNat + k)).drop w.1.toNat).length = k := window_length ys _ k (by rw [hys]; omega)
  unfold interp
  rw [if_neg (by simp), if_neg (by simp [hinc])]
  unfold interpCall
  simp only [hx0', hxl']
  rw [if_neg (by rw [callRefuses_iff, ← e0, ← el]; exact not_not.mpr ⟨hx0, hxl⟩)]
  simp only [lagrangeCall, hp, hys, ← hwdef, hxs, hysl, ly, lagrangeRefuses_self,
    lagrangeFormula_eq k _ _ x (by omega) lx ly]
  simp

/-! ## Lagrange: nodes and polynomials -/

/-- **Polynomial reproduction, end to end** -/
theorem interp_lagrange_reproduces_poly (xs : List ℝ) (k : ℕ) (Ps : List ℝ[X]) (x : ℝ)
    (hinc : increasing xs = true) (hk : 2 ≤ k) (hlen : k ≤ xs.length)
    (hx0 : xs.getD 0 0 ≤ x) (hxl : x ≤ xs.getD (xs.length - 1) 0)
    (hdeg : ∀ P ∈ Ps, P.degree < (k : WithBot ℕ)) :
    interp .lagrange (some (k : Int)) xs (xs.map (fun t => Ps.map (fun P => eval t P))) x
      = .ok (Ps.map (fun P => eval x P)) := by
  obtain ⟨p, a, _, _, _, hak, _, _, _, hres⟩ :=
    interp_lagrange_window xs (xs.map (fun t => Ps.map (fun P => eval t P))) k x hinc hk hlen (by simp) hx0 hxl
  rw [hres]
  congr 1
  set xw := (xs.take (a + k)).drop a with hxw
  have hyw : ((xs.map (fun t => Ps.map (fun P => eval t P))).take (a + k)).drop a = xw.map (fun t => Ps.map (fun P => eval t P)) := by
    rw [hxw, List.map_drop, List.map_take]
  rw [hyw]
  have lx : xw.length = k := window_length xs a k hak
  have hnd : xw.Nodup := by
    have hp : xw.Pairwise (· < ·) := (increasing_pairwise xs hinc).sublist (window_sublist xs a k)
    exact hp.imp (fun h => ne_of_lt h)
  rw [lagrangeEval_rect xw _ Ps.length (by intro h; have := congrArg List.length h; simp [lx] at this; omega)
    (by intro row hrow; obtain ⟨t, _, rfl⟩ := List.mem_map.mp hrow; simp)]
  rw [← range_map_getD Ps (fun P => eval x P) 0]
  apply List.map_congr_left
  intro c hc
  have hc' : c < Ps.length := List.mem_range.mp hc
  rw [List.map_map]
  have : ((fun row : List ℝ => row.getD c 0) ∘ fun t => Ps.map (fun P => eval t P)) = fun t => eval t (Ps.getD c 0) := by
    funext t
    simp [List.getD_eq_getElem?_getD, List.getElem?_map, List.getElem?_eq_getElem hc']
  rw [this]
  apply lagrangeCol_poly xw hnd
  rw [lx]
  apply hdeg
  simp [List.getD_eq_getElem?_getD, List.getElem?_eq_getElem hc']

/-- **Node exactness, end to end** (any rectangular table of ordinates) -/
theorem interp_lagrange_node_exact (xs : List ℝ) (ys : List (List ℝ)) (k d j : ℕ)
    (hinc : increasing xs = true) (hk : 2 ≤ k) (hlen : k ≤ xs.length) (hys : ys.length = xs.length)
    (hrect : ∀ row ∈ ys, row.length = d) (hj : j < xs.length) :
    interp .lagrange (some (k : Int)) xs ys (xs.getD j 0) = .ok (ys.getD j []) := by
  have hpw := increasing_pairwise xs hinc
  have mono : ∀ i j, i ≤ j → j < xs.length → xs.getD i 0 ≤ xs.getD j 0 := by
    intro i j hij hj
    rcases Nat.lt_or_eq_of_le hij with h | h
    · exact le_of_lt (getD_lt_of_pairwise xs hpw i j h hj)
    · rw [h]
  obtain ⟨p, a, _, hap, hpk, hak, hb0, hb1, hl, hres⟩ :=
    interp_lagrange_window xs ys k (xs.getD j 0) hinc hk hlen hys (mono 0 j (by omega) hj) (mono j _ (by omega) (by omega))
  rw [hres]
  congr 1
  have hp1 : p + 1 < xs.length := by omega
  have hjw : a ≤ j ∧ j < a + k := by
    constructor
    · by_contra hcon
      have : j < p := by omega
      have := getD_lt_of_pairwise xs hpw j p this (by omega)
      linarith
    · by_contra hcon
      have : p + 1 < j := by omega
      have := getD_lt_of_pairwise xs hpw (p + 1) j this hj
      linarith
  set xw := (xs.take (a + k)).drop a with hxw
  set yw := (ys.take (a + k)).drop a with hyw
  have lx : xw.length = k := window_length xs a k hak
  have ly : yw.length = k := window_length ys a k (by omega)
  have hnd : xw.Nodup := (hpw.sublist (window_sublist xs a k)).imp (fun h => ne_of_lt h)
  have hrw : ∀ row ∈ yw, row.length = d := fun row hrow => hrect row ((window_sublist ys a k).subset hrow)
  rw [lagrangeEval_rect xw yw d (by intro h; rw [h] at ly; simp at ly; omega) hrw]
  have hxj : xs.getD j 0 = xw.getD (j - a) 0 := by
    rw [hxw, window_getD xs a k (j - a) (by omega)]; congr 1; omega
  have hyj : ys.getD j [] = yw.getD (j - a) [] := by
    rw [hyw]
    simp only [List.getD_eq_getElem?_getD, List.getElem?_drop, List.getElem?_take]
    rw [if_pos (by omega)]; congr 2; omega
  have hrowlen : (ys.getD j []).length = d := by
    apply hrect
    simp only [List.getD_eq_getElem?_getD, List.getElem?_eq_getElem (show j < ys.length by omega), Option.getD_some]
    exact List.getElem_mem _
  rw [← range_map_getD' (ys.getD j []), hrowlen]
  apply List.map_congr_left
  intro c _
  rw [hxj, lagrangeCol_node xw _ hnd (j - a) (by omega), hyj]
  simp only [List.getD_eq_getElem?_getD, List.getElem?_map]
  cases yw[j - a]? <;> simp

/-! ## linear -/

/-- `_linear`, end to end: value on the bracketing interval -/
theorem interp_linear_eq (xs : List ℝ) (ys : List (List ℝ)) (o : Option Int) (x : ℝ)
    (hinc : increasing xs = true) (h2 : 2 ≤ xs.length) (hys : ys.length = xs.length)
    (hx0 : xs.getD 0 0 ≤ x) (hxl : x ≤ xs.getD (xs.length - 1) 0) :
    ∃ p, prevIdx xs x = some p ∧ p + 1 < xs.length ∧ xs.getD p 0 ≤ x ∧ x ≤ xs.getD (p + 1) 0 ∧ (p = 0 ∨ xs.getD p 0 < x) ∧
      interp .linear o xs ys x
        = .ok (linRow x (xs.getD p 0) (xs.getD (p + 1) 0) (ys.getD p []) (ys.getD (p + 1) [])) := by
  obtain ⟨p, hp, hp1, hb0, hb1, hl⟩ := prevIdx_bracket xs x (by omega) hx0 hxl
  refine ⟨p, hp, hp1, hb0, hb1, hl, ?_⟩
  have hne : xs ≠ [] := by intro h; simp [h] at h2
  obtain ⟨x0, hx0'⟩ : ∃ x0, xs.head? = some x0 := by
    cases xs with
    | nil => exact absurd rfl hne
    | cons a t => exact ⟨a, rfl⟩
  obtain ⟨xl, hxl'⟩ : ∃ xl, xs.getLast? = some xl := by
    cases hq : xs.getLast? with
    | none => exact absurd (List.getLast?_eq_none_iff.mp hq) hne
    | some v => exact ⟨v, rfl⟩
  have e0 := head?_eq_getD xs x0 hx0'
  have el := getLast?_eq_getD xs xl hxl'
  have hxs : pySlice xs (p : Int) ((p : Int) + 2) = [xs.getD p 0, xs.getD (p + 1) 0] := by
    rw [pySlice_window xs p (p + 2) 2 (by omega) (by omega) (by omega)]
    simpa using window_two xs 0 p (by omega)
  have hysl : pySlice ys (p : Int) ((p : Int) + 2) = [ys.getD p [], ys.getD (p + 1) []] := by
    rw [pySlice_window ys p (p + 2) 2 (by omega) (by omega) (by omega)]
    simpa using window_two ys [] p (by omega)
  unfold interp
  rw [if_neg (by simp), if_neg (by simp [hinc])]
  unfold interpCall
  simp only [hx0', hxl']
  rw [if_neg (by rw [callRefuses_iff, ← e0, ← el]; exact not_not.mpr ⟨hx0, hxl⟩)]
  simp only [linearCall, hp, linearSlice_eq, hxs, hysl]

theorem linRow_right (x0 x1 : ℝ) (h : x0 ≠ x1) : ∀ (y0 y1 : List ℝ), y0.length = y1.length → linRow x1 x0 x1 y0 y1 = y1
  | [], [], _ => rfl
  | [], _ :: _, h' => by simp at h'
  | _ :: _, [], h' => by simp at h'
  | a :: y0, b :: y1, h' => by
    have hne : x1 - x0 ≠ 0 := sub_ne_zero.mpr (Ne.symm h)
    simp only [linRow, linearFormula_eq, linRow_right x0 x1 h y0 y1 (by simpa using h')]
    congr 1
    field_simp
    ring

theorem linRow_left (x0 x1 : ℝ) : ∀ (y0 y1 : List ℝ), y0.length = y1.length → linRow x0 x0 x1 y0 y1 = y0
  | [], [], _ => rfl
  | [], _ :: _, h' => by simp at h'
  | _ :: _, [], h' => by simp at h'
  | a :: y0, b :: y1, h' => by
    simp only [linRow, linearFormula_eq, linRow_left x0 x1 y0 y1 (by simpa using h')]
    simp

/-- **Node exactness of the linear method** (over ℝ; in doubles the value is within rounding of the node) -/
theorem interp_linear_node_exact (xs : List ℝ) (ys : List (List ℝ)) (o : Option Int) (d j : ℕ)
    (hinc : increasing xs = true) (h2 : 2 ≤ xs.length) (hys : ys.length = xs.length)
    (hrect : ∀ row ∈ ys, row.length = d) (hj : j < xs.length) :
    interp .linear o xs ys (xs.getD j 0) = .ok (ys.getD j []) := by
  have hpw := increasing_pairwise xs hinc
  have mono : ∀ i j, i ≤ j → j < xs.length → xs.getD i 0 ≤ xs.getD j 0 := by
    intro i j hij hj
    rcases Nat.lt_or_eq_of_le hij with h | h
    · exact le_of_lt (getD_lt_of_pairwise xs hpw i j h hj)
    · rw [h]
  obtain ⟨p, _, hp1, hb0, hb1, hl, hres⟩ :=
    interp_linear_eq xs ys o (xs.getD j 0) hinc h2 hys (mono 0 j (by omega) hj) (mono j _ (by omega) (by omega))
  rw [hres]
  congr 1
  have hlen : ∀ i, i < xs.length → (ys.getD i []).length = d := by
    intro i hi
    apply hrect
    simp only [List.getD_eq_getElem?_getD, List.getElem?_eq_getElem (show i < ys.length by omega), Option.getD_some]
    exact List.getElem_mem _
  have hlt : xs.getD p 0 < xs.getD (p + 1) 0 := getD_lt_of_pairwise xs hpw p (p + 1) (by omega) hp1
  have hjp : j = p ∨ j = p + 1 := by
    by_contra hcon
    rcases Nat.lt_or_ge j p with h | h
    · have := getD_lt_of_pairwise xs hpw j p h (by omega); linarith
    · have h' : p + 1 < j := by omega
      have := getD_lt_of_pairwise xs hpw (p + 1) j h' hj; linarith
  rcases hjp with rfl | rfl
  · exact linRow_left _ _ _ _ (by rw [hlen _ (by omega), hlen _ hp1])
  · exact linRow_right _ _ (ne_of_lt hlt) _ _ (by rw [hlen _ (by omega), hlen _ hp1])

/-- **Linear interpolation reproduces piecewise-linear data**: if `f` is affine on every interval between
consecutive abscissae, the interpolated value at any `x` of the table's range is `f x`. -/
theorem interp_linear_reproduces_pwl (xs : List ℝ) (f : ℝ → ℝ) (o : Option Int) (x : ℝ)
    (hinc : increasing xs = true) (h2 : 2 ≤ xs.length)
    (hx0 : xs.getD 0 0 ≤ x) (hxl : x ≤ xs.getD (xs.length - 1) 0)
    (hf : ∀ i, i + 1 < xs.length → ∃ a b, ∀ t, xs.getD i 0 ≤ t → t ≤ xs.getD (i + 1) 0 → f t = a * t + b) :
    interp .linear o xs (xs.map (fun t => [f t])) x = .ok [f x] := by
  obtain ⟨p, _, hp1, hb0, hb1, _, hres⟩ := interp_linear_eq xs (xs.map (fun t => [f t])) o x hinc h2 (by simp) hx0 hxl
  rw [hres]
  have hlt : xs.getD p 0 < xs.getD (p + 1) 0 := getD_lt_of_pairwise xs (increasing_pairwise xs hinc) p (p + 1) (by omega) hp1
  obtain ⟨a, b, hab⟩ := hf p hp1
  have e1 : (xs.map (fun t => [f t])).getD p [] = [f (xs.getD p 0)] := by
    simp [List.getD_eq_getElem?_getD, List.getElem?_map, List.getElem?_eq_getElem (show p < xs.length by omega)]
  have e2 : (xs.map (fun t => [f t])).getD (p + 1) [] = [f (xs.getD (p + 1) 0)] := by
    simp [List.getD_eq_getElem?_getD, List.getElem?_map, List.getElem?_eq_getElem hp1]
  rw [e1, e2]
  simp only [linRow, linearFormula_eq]
  rw [hab _ le_rfl (le_of_lt hlt), hab _ (le_of_lt hlt) le_rfl, hab x hb0 hb1]
  have hne : xs.getD (p + 1) 0 - xs.getD p 0 ≠ 0 := sub_ne_zero.mpr (ne_of_gt hlt)
  congr 2
  field_simp
  ring

/-- **Dates outside the table are refused**: whatever the method, order and ordinates -/
theorem outside_rejected (m : Method) (o : Option Int) (xs : List ℝ) (ys : List (List ℝ)) (x : ℝ) (hne : xs ≠ [])
    (hout : x < xs.getD 0 0 ∨ xs.getD (xs.length - 1) 0 < x) :
    ∃ e, interp m o xs ys x = .error e := by
  unfold interp
  split_ifs with h1 h2
  · exact ⟨_, rfl⟩
  · obtain ⟨x0, hx0'⟩ : ∃ x0, xs.head? = some x0 := by
      cases xs with
      | nil => exact absurd rfl hne
      | cons a t => exact ⟨a, rfl⟩
    obtain ⟨xl, hxl'⟩ : ∃ xl, xs.getLast? = some xl := by
      cases hq : xs.getLast? with
      | none => exact absurd (List.getLast?_eq_none_iff.mp hq) hne
      | some v => exact ⟨v, rfl⟩
    have e0 := head?_eq_getD xs x0 hx0'
    have el := getLast?_eq_getD xs xl hxl'
    unfold interpCall
    simp only [hx0', hxl']
    rw [if_pos (by rw [callRefuses_iff, ← e0, ← el]; rintro ⟨ha, hb⟩; rcases hout with h | h <;> linarith)]
    exact ⟨_, rfl⟩
  · exact ⟨_, rfl⟩

/-! ## refusals -/

/-- … and the refusal is `ValueError` whenever the interpolator could be constructed -/
theorem outside_value_error (m : Method) (o : Option Int) (xs : List ℝ) (ys : List (List ℝ)) (x : ℝ) (hne : xs ≠ [])
    (hinit : ¬ (m = .lagrange ∧ o = none)) (hinc : increasing xs = true)
    (hout : x < xs.getD 0 0 ∨ xs.getD (xs.length - 1) 0 < x) :
    interp m o xs ys x = .error .value := by
  obtain ⟨x0, hx0'⟩ : ∃ x0, xs.head? = some x0 := by
    cases xs with
    | nil => exact absurd rfl hne
    | cons a t => exact ⟨a, rfl⟩
  obtain ⟨xl, hxl'⟩ : ∃ xl, xs.getLast? = some xl := by
    cases hq : xs.getLast? with
    | none => exact absurd (List.getLast?_eq_none_iff.mp hq) hne
    | some v => exact ⟨v, rfl⟩
  have e0 := head?_eq_getD xs x0 hx0'
  have el := getLast?_eq_getD xs xl hxl'
  unfold interp
  rw [if_neg hinit, if_neg (by simp [hinc])]
  unfold interpCall
  simp only [hx0', hxl']
  rw [if_pos (by rw [callRefuses_iff, ← e0, ← el]; rintro ⟨ha, hb⟩; rcases hout with h | h <;> linarith)]

theorem lagrangeCall_short_value (xs : List ℝ) (ys : List (List ℝ)) (k : Int) (x : ℝ) (hshort : (ys.length : Int) < k)
    (p : ℕ) (hp : prevIdx xs x = some p) : lagrangeCall k xs ys x = .error .value := by
  simp only [lagrangeCall, hp]
  have := pySlice_length_le ys (windowRaw p k ys.length).1 (windowRaw p k ys.length).2
  rw [if_pos (by rw [lagrangeRefuses_iff]; omega)]

theorem lagrangeCall_short (xs : List ℝ) (ys : List (List ℝ)) (k : Int) (x : ℝ) (hshort : (ys.length : Int) < k) :
    ∃ e, lagrangeCall k xs ys x = .error e := by
  cases hp : prevIdx xs x with
  | none => exact ⟨.index, by simp only [lagrangeCall, hp]⟩
  | some p => exact ⟨.value, lagrangeCall_short_value xs ys k x hshort p hp⟩

/-- **A table shorter than the order is refused** (never a value) … -/
theorem too_short_rejected (xs : List ℝ) (ys : List (List ℝ)) (k : Int) (x : ℝ) (hshort : (ys.length : Int) < k) :
    ∃ e, interp .lagrange (some k) xs ys x = .error e := by
  unfold interp
  rw [if_neg (by simp)]
  by_cases hinc : increasing xs = true
  · rw [if_neg (by simp [hinc])]
    unfold interpCall
    split
    · rename_i x0 xl _ _
      by_cases hr : (x0 ≤ x ∧ x ≤ xl)
      · rw [if_neg (by rw [callRefuses_iff]; exact not_not.mpr hr)]
        exact lagrangeCall_short xs ys k x hshort
      · rw [if_pos (by rw [callRefuses_iff]; exact hr)]; exact ⟨_, rfl⟩
    · exact ⟨_, rfl⟩
  · rw [if_pos hinc]; exact ⟨_, rfl⟩

/-- … with `ValueError` when the table itself is well formed -/
theorem too_short_value_error (xs : List ℝ) (ys : List (List ℝ)) (k : Int) (x : ℝ) (hshort : (ys.length : Int) < k)
    (hne : xs ≠ []) (hinc : increasing xs = true) :
    interp .lagrange (some k) xs ys x = .error .value := by
  obtain ⟨p, hp⟩ := prevIdx_total xs x hne
  obtain ⟨x0, hx0'⟩ : ∃ x0, xs.head? = some x0 := by
    cases xs with
    | nil => exact absurd rfl hne
    | cons a t => exact ⟨a, rfl⟩
  obtain ⟨xl, hxl'⟩ : ∃ xl, xs.getLast? = some xl := by
    cases hq : xs.getLast? with
    | none => exact absurd (List.getLast?_eq_none_iff.mp hq) hne
    | some v => exact ⟨v, rfl⟩
  unfold interp
  rw [if_neg (by simp), if_neg (by simp [hinc])]
  unfold interpCall
  simp only [hx0', hxl']
  by_cases hr : (x0 ≤ x ∧ x ≤ xl)
  · rw [if_neg (by rw [callRefuses_iff]; exact not_not.mpr hr)]
    exact lagrangeCall_short_value xs ys k x hshort p hp
  · rw [if_pos (by rw [callRefuses_iff]; exact hr)]

/-! ## Ephem -/

/-- **An interpolated point keeps the ephemeris' frame and form** (those of its first point) and carries
the requested date -/
theorem result_keeps_frame_form (e : Eph) (date : ℝ) (pt : Pt) (h : (e.interpolate date).1 = .ok pt) :
    ∃ p0, e.pts.head? = some p0 ∧ pt.form = p0.form ∧ pt.frame = p0.frame ∧ pt.mjd = date := by
  unfold Eph.interpolate at h
  simp only at h
  split at h
  · simp at h
  · split at h
    · simp at h
    · rename_i p0 hp0
      simp only [Except.ok.injEq] at h
      subst h
      exact ⟨p0, hp0, rfl, rfl, rfl⟩

/-- the same after the ephemeris' frame/form have been changed, whether or not it was interpolated before -/
theorem result_keeps_frame_form_after_convert (e : Eph) (conv : Pt → Pt) (d1 date : ℝ) (pt : Pt)
    (h : (((e.interpolate d1).2.convert conv).interpolate date).1 = .ok pt) :
    ∃ p0, e.pts.head? = some p0 ∧ pt.form = (conv p0).form ∧ pt.frame = (conv p0).frame ∧ pt.mjd = date := by
  obtain ⟨q0, hq0, h1, h2, h3⟩ := result_keeps_frame_form _ date pt h
  have : ((e.interpolate d1).2.convert conv).pts = e.pts.map conv := by
    unfold Eph.interpolate Eph.convert
    simp only
    split <;> [skip; split] <;> rfl
  rw [this] at hq0
  cases hpts : e.pts with
  | nil => rw [hpts] at hq0; simp at hq0
  | cons p0 t =>
    rw [hpts] at hq0
    simp at hq0
    exact ⟨p0, rfl, by rw [h1, ← hq0], by rw [h2, ← hq0], h3⟩

/-- invariant of the cached interpolator: it does not exist yet, or its ordinates are the coordinates of the
current points -/
def Fresh (e : Eph) : Prop := e.cache = none ∨ e.cache = some (e.pts.map (·.coord))

/-- what can be done to an ephemeris between two interpolations (frame/form change, order and method setters) -/
inductive EphOp where
  | interpolate (date : ℝ)
  | convert (conv : Pt → Pt)
  | setOrder (k : Int)
  | setMethod (m : Method)

noncomputable def ephStep (e : Eph) : EphOp → Eph
  | .interpolate d => (e.interpolate d).2
  | .convert c => e.convert c
  | .setOrder k => e.setOrder k
  | .setMethod m => e.setMethod m

theorem fresh_new (pts : List Pt) (m : Option Method) (o : Option Int) : Fresh (Eph.new pts m o) := Or.inl rfl

theorem interpolate_state (e : Eph) (d : ℝ) :
    (e.interpolate d).2 = { e with cache := some (e.cache.getD (e.pts.map (·.coord))) } := by
  unfold Eph.interpolate; simp only; split <;> [skip; split] <;> rfl

theorem fresh_step (e : Eph) (op : EphOp) (h : Fresh e) : Fresh (ephStep e op) := by
  cases op with
  | interpolate d =>
    simp only [ephStep, interpolate_state]
    rcases h with h | h <;> right <;> simp [h]
  | convert c =>
    simp only [ephStep, Eph.convert]
    rcases h with h | h
    · left; simp [h]
    · right; simp [h]
  | setOrder k => exact h
  | setMethod m => exact h

/-- **The order and method setters are honoured by the next interpolation** (they are read at every call, from
the live interpolator): after `ephem.order = k` / `ephem.method = m` the ephemeris behaves as one built with
that order / method on the same points. -/
theorem setters_write_through (e : Eph) (k : Int) (m : Method) (date : ℝ) :
    ((e.setOrder k).interpolate date).1 = (({ e with order := k } : Eph).interpolate date).1 ∧
    ((e.setMethod m).interpolate date).1 = (({ e with method := m } : Eph).interpolate date).1 ∧
    (ephStep e (.setOrder k)).order = k ∧ (ephStep e (.setMethod m)).method = m ∧
    (ephStep e (.setOrder k)).pts = e.pts ∧ (ephStep e (.setMethod m)).pts = e.pts :=
  ⟨rfl, rfl, rfl, rfl, rfl, rfl⟩

/-- an operation that is not a setting of the order or the method -/
def EphOp.keepsSettings : EphOp → Prop
  | .interpolate _ => True
  | .convert _ => True
  | .setOrder _ => False
  | .setMethod _ => False

/-- **The order and the method last set survive everything that is not a new setting**: whatever interpolations and
in-place frame / form conversions follow (the interpolator existing or not), the ephemeris still holds, reads back and
interpolates with the order and method set last — a conversion re-reads the points, it never goes back to the values
given at construction. -/
theorem settings_survive_conversion (e : Eph) (ops : List EphOp) (hops : ∀ op ∈ ops, op.keepsSettings) :
    (ops.foldl ephStep e).order = e.order ∧ (ops.foldl ephStep e).method = e.method := by
  induction ops generalizing e with
  | nil => exact ⟨rfl, rfl⟩
  | cons op rest ih =>
    have hr := ih (ephStep e op) (fun o ho => hops o (List.mem_cons_of_mem _ ho))
    have h1 : (ephStep e op).order = e.order ∧ (ephStep e op).method = e.method := by
      have hk := hops op (List.mem_cons_self ..)
      cases op with
      | interpolate d => simp [ephStep, interpolate_state]
      | convert c => exact ⟨rfl, rfl⟩
      | setOrder k => exact absurd hk (by simp [EphOp.keepsSettings])
      | setMethod m => exact absurd hk (by simp [EphOp.keepsSettings])
    simp only [List.foldl_cons]
    exact ⟨hr.1.trans h1.1, hr.2.trans h1.2⟩

/-- the hypothesis is met by a non-trivial history: live interpolator, order 4 and linear set, then a conversion and an interpolation -/
example (e : Eph) (c : Pt → Pt) (d : ℝ) :
    ([EphOp.convert c, .interpolate d].foldl ephStep ((e.setOrder 4).setMethod .linear)).order = 4 ∧
    ([EphOp.convert c, .interpolate d].foldl ephStep ((e.setOrder 4).setMethod .linear)).method = .linear :=
  settings_survive_conversion _ _ (by intro op h; simp at h; rcases h with rfl | rfl <;> trivial)

/-- every state reachable from the constructor by interpolations and frame/form changes is fresh -/
theorem fresh_reachable (pts : List Pt) (m : Option Method) (o : Option Int) (ops : List EphOp) :
    Fresh (ops.foldl ephStep (Eph.new pts m o)) := by
  suffices ∀ e : Eph, Fresh e → Fresh (ops.foldl ephStep e) from this _ (fresh_new pts m o)
  induction ops with
  | nil => intro e h; exact h
  | cons op rest ih => intro e h; exact ih _ (fresh_step e op h)

theorem interpolate_fresh (e : Eph) (date : ℝ) (hc : Fresh e) (pt : Pt) (h : (e.interpolate date).1 = .ok pt) :
    interp e.method (some e.order) (e.pts.map (·.mjd)) (e.pts.map (·.coord)) date = .ok pt.coord := by
  have hys : e.cache.getD (e.pts.map (·.coord)) = e.pts.map (·.coord) := by rcases hc with hc | hc <;> simp [hc]
  unfold Eph.interpolate at h
  simp only [hys] at h
  split at h
  · simp at h
  · rename_i v hv
    split at h
    · simp at h
    · simp only [Except.ok.injEq] at h
      subst h
      exact hv

/-- **The coordinates of an interpolated point are always interpolated from the current coordinates of the
points** — whatever sequence of interpolations, frame/form changes and order/method settings the ephemeris has gone through since its
construction (so they are expressed in the frame/form the point is labelled with). -/
theorem interpolate_uses_current_coordinates (pts : List Pt) (m : Option Method) (o : Option Int) (ops : List EphOp)
    (date : ℝ) (pt : Pt)
    (h : ((ops.foldl ephStep (Eph.new pts m o)).interpolate date).1 = .ok pt) :
    interp (ops.foldl ephStep (Eph.new pts m o)).method (some (ops.foldl ephStep (Eph.new pts m o)).order)
      ((ops.foldl ephStep (Eph.new pts m o)).pts.map (·.mjd))
      ((ops.foldl ephStep (Eph.new pts m o)).pts.map (·.coord)) date = .ok pt.coord :=
  interpolate_fresh _ date (fresh_reachable pts m o ops) pt h


/-! ## `_prev_idx` and the linear method at tabulated abscissae, the LAST one included -/

/-- **`_prev_idx` at a tabulated abscissa** returns the node before it (node 0 for the first abscissa): never the
last row — so the two-row slice `[prev_idx : prev_idx + 2]` of `_linear` is complete at the last node as well. -/
theorem prevIdx_at_node (xs : List ℝ) (j : ℕ) (hinc : increasing xs = true) (h2 : 2 ≤ xs.length) (hj : j < xs.length) :
    prevIdx xs (xs.getD j 0) = some (j - 1) := by
  have hpw := increasing_pairwise xs hinc
  have mono : ∀ i j, i ≤ j → j < xs.length → xs.getD i 0 ≤ xs.getD j 0 := by
    intro i j hij hj
    rcases Nat.lt_or_eq_of_le hij with h | h
    · exact le_of_lt (getD_lt_of_pairwise xs hpw i j h hj)
    · rw [h]
  obtain ⟨p, hp, hp1, hb0, hb1, hl⟩ :=
    prevIdx_bracket xs (xs.getD j 0) h2 (mono 0 j (by omega) hj) (mono j _ (by omega) (by omega))
  rw [hp]
  congr 1
  have h1 : j ≤ p + 1 := by
    by_contra hc
    have := getD_lt_of_pairwise xs hpw (p + 1) j (by omega) hj
    linarith
  rcases hl with hl | hl
  · omega
  · have : p < j := by
      by_contra hc
      have := mono j p (by omega) (by omega)
      linarith
    omega

/-- at the last abscissa `_prev_idx` is `len - 2` -/
theorem prevIdx_last_node (xs : List ℝ) (hinc : increasing xs = true) (h2 : 2 ≤ xs.length) :
    prevIdx xs (xs.getD (xs.length - 1) 0) = some (xs.length - 2) := by
  rw [prevIdx_at_node xs (xs.length - 1) hinc h2 (by omega)]
  congr 1

/-- **The linear method returns the last point at the last date** (not an error) -/
theorem interp_linear_last_node (xs : List ℝ) (ys : List (List ℝ)) (o : Option Int) (d : ℕ)
    (hinc : increasing xs = true) (h2 : 2 ≤ xs.length) (hys : ys.length = xs.length)
    (hrect : ∀ row ∈ ys, row.length = d) :
    interp .linear o xs ys (xs.getD (xs.length - 1) 0) = .ok (ys.getD (xs.length - 1) []) :=
  interp_linear_node_exact xs ys o d (xs.length - 1) hinc h2 hys hrect (by omega)

/-- a table of three abscissae: at the last one `_prev_idx` is 1 (kernel-evaluated through the theorem's hypotheses) -/
example : increasing [(0 : ℝ), 1, 3] = true ∧ 2 ≤ [(0 : ℝ), 1, 3].length := by simp [increasing]

/-! ## non-vacuity: the hypotheses are met by concrete tables -/

/-- a strictly increasing table of 4 abscissae, order 3 (odd) and an abscissa of the last interval -/
example : increasing [(0 : ℝ), 1, 2.5, 4] = true ∧ 2 ≤ 3 ∧ 3 ≤ [(0 : ℝ), 1, 2.5, 4].length ∧
    [(0 : ℝ), 1, 2.5, 4].getD 0 0 ≤ 3 ∧ (3 : ℝ) ≤ [(0 : ℝ), 1, 2.5, 4].getD ([(0 : ℝ), 1, 2.5, 4].length - 1) 0 := by
  simp [increasing]; norm_num

/-- a polynomial of degree 2 < order 3 -/
example : ((X : ℝ[X]) ^ 2 + 1).degree < ((3 : ℕ) : WithBot ℕ) := by
  have : ((X : ℝ[X]) ^ 2 + 1).degree = 2 := by
    rw [degree_add_eq_left_of_degree_lt] <;> simp
  rw [this]; exact_mod_cast (by norm_num : (2 : ℕ) < 3)

/-- window arithmetic at both ends and in the middle, even and odd order (kernel-evaluated on the generated definition) -/
example : windowRaw 0 8 41 = (0, 8) ∧ windowRaw 39 8 41 = (33, 44) ∧ windowRaw 20 8 41 = (17, 25) ∧
    windowRaw 0 7 41 = (0, 7) ∧ windowRaw 39 7 41 = (34, 44) ∧ windowRaw 20 7 41 = (18, 25) := by decide

/-- a piecewise-linear function with a breakpoint at the node 1: |t - 1| on the table [0, 1, 3] -/
example : ∀ i, i + 1 < [(0 : ℝ), 1, 3].length → ∃ a b : ℝ, ∀ t, [(0 : ℝ), 1, 3].getD i 0 ≤ t → t ≤ [(0 : ℝ), 1, 3].getD (i + 1) 0 → |t - 1| = a * t + b := by
  intro i hi
  have hi2 : i < 2 := by simp at hi; omega
  interval_cases i
  · refine ⟨-1, 1, fun t _ h1 => ?_⟩
    simp at h1
    rw [abs_of_nonpos (by linarith)]; ring
  · refine ⟨1, -1, fun t h0 _ => ?_⟩
    simp at h0
    rw [abs_of_nonneg (by linarith)]; ring

end BeyondVerif.C09
