import BeyondVerif.Props.C14

/-!
# C14 — covariances attached later (`sv.cov = c`), and what the constructor's `frame` argument may be

`StateVector.cov` setter: `self._data["cov"] = value; value.orb = self`.  `Cov.orb` setter stores a cartesian copy of
the state **in the frame the state is expressed in now** and — since /repo eca9727 — sets `_orb_frame` to that frame.
Model: `Cov.attach` (Model/Cov.lean; the heap model `CovHeap.Heap.attach`, run against the real classes by the
correspondence op `att`, does the same on cells: `CovHeap.attach_self`).

What is proved about the code as it is:

* `attach_inv` / `attach_characterised` — after `sv.cov = c` with the state expressed in ANY frame `g` (coordinates
  `x'`), the covariance is the covariance `M(F0→g) C0 M(F0→g)ᵀ` of a state of frame `g`: every later sequence of frame
  changes ends as `Mt_g (M C0 Mᵀ) Mt_gᵀ`;
* hence `attach_frame_targets` (regular targets: `M(F0→f') C0 M(F0→f')ᵀ`), `attach_follows_state` (the clause "a
  covariance expressed in its state's frame follows that state", for attached-later covariances, full strength),
  `attach_local` (QSW/TNW: `toLocal k x' · M(F0→g)` — the rotation from the axes the matrix was given in onto the local
  axes of the attached state);
* **`attach_path_independent`** (full statement; before eca9727 only `attach_reframed_local_partial` held — known finding
  C14-attach-stale-orb-frame, now fixed): for the state the covariance was built for, expressed in another frame along
  which `to_local` is equivariant (every rate-free conversion: `builtin_locEquiv`), every target gives `Mt C0 Mtᵀ` with
  `Mt = Mt F0 x0 t`, exactly as for a covariance attached at construction.

History: `attachOld_characterised` says what the setter computed before eca9727 (`Cov.attachOld`: `_orb_frame` stale, the
re-seated coordinates read as if given in the construction frame); Witness/C14.lean
`old_attach_reframed_local_differs` is the kernel-checked regression witness guarded by the oracle family
`attached-later:reframed-state:local-target`.
-/
namespace BeyondVerif.C14
open BeyondVerif.Cov Matrix

set_option linter.unusedSectionVars false

variable {F : Type} [DecidableEq F] {n : Type} [Fintype n] [DecidableEq n]

/-- `setFrame` never reads the frame of the private copy -/
theorem setFrame_orbCur (Env' : Env F (Matrix n n ℝ) (n → ℝ)) (s : St F (Matrix n n ℝ) (n → ℝ)) (c : F) (t : Tag F) :
    setFrame Env' { s with orbCur := c } t = { setFrame Env' s t with orbCur := c } := by
  unfold setFrame
  by_cases h : t = s.tag
  · simp [h]
  · simp only [h, if_false]; rfl

theorem run_orbCur (Env' : Env F (Matrix n n ℝ) (n → ℝ)) (ts : List (Tag F)) (s : St F (Matrix n n ℝ) (n → ℝ)) (c : F) :
    run Env' { s with orbCur := c } ts = { run Env' s ts with orbCur := c } := by
  induction ts generalizing s with
  | nil => rfl
  | cons t ts ih =>
    simp only [run, List.foldl_cons] at ih ⊢
    rw [setFrame_orbCur]; exact ih _

variable {E : RealEnv F n}

/-- re-attaching a covariance to the very state it was built for changes nothing -/
theorem attach_same_state {F0 : F} {x0 : n → ℝ} {C0 : Matrix n n ℝ} {s : St F (Matrix n n ℝ) (n → ℝ)}
    (hs : Inv E F0 x0 C0 s) : attach s F0 x0 = s := by
  obtain ⟨tag, oF, oC, orb, mat⟩ := s
  have h1 := hs.orbFrame
  have h2 := hs.orbCur
  have h3 := hs.orb
  simp only at h1 h2 h3
  simp [attach, h1, h2, h3]

/-- **`sv.cov = c` re-homes the covariance**: `c` currently expressed in a regular frame, attached to a state expressed
in `g` with coordinates `x'`, is the covariance `M(F0→g) C0 M(F0→g)ᵀ` of a state of frame `g` — the invariant of
Props/C14.lean holds with `g` as home frame -/
theorem attach_inv (hL : Laws E) {F0 : F} {x0 : n → ℝ} {C0 : Matrix n n ℝ} {s : St F (Matrix n n ℝ) (n → ℝ)}
    (hs : Inv E F0 x0 C0 s) (f : F) (htag : s.tag = .frame f) (g : F) (x' : n → ℝ) :
    Inv E g x' (E.conv F0 g * C0 * (E.conv F0 g)ᵀ) (attach s g x') := by
  refine ⟨rfl, rfl, rfl, ?_⟩
  have := hs.mat
  simp only [attach, htag, Mt] at this ⊢
  rw [this, ← hL.conv_comp F0 g f]
  simp only [transpose_mul, Matrix.mul_assoc]

/-- **What `sv.cov = c` followed by any frame changes computes.**  `c` is any covariance reachable from
`Cov(sv0, C0, sv0.frame)`, `sv0` in frame `F0`, currently expressed in a regular frame; it is attached to a state
expressed in frame `g` with coordinates `x'`.  For every later sequence `ts` then `t` the matrix is
`(Mt_g · M(F0→g)) C0 (Mt_g · M(F0→g))ᵀ` with `Mt_g = Mt g x' t`, and the bookkeeping names `g`. -/
theorem attach_characterised (hL : Laws E) (F0 : F) (x0 : n → ℝ) (C0 : Matrix n n ℝ) (hO0 : LocOrth E x0)
    (pre : List (Tag F)) (f : F) (htag : (run E.env (init F0 x0 C0) pre).tag = .frame f)
    (g : F) (x' : n → ℝ) (hO : LocOrth E x') (ts : List (Tag F)) (t : Tag F) :
    let s := attach (run E.env (init F0 x0 C0) pre) g x'
    (run E.env s (ts ++ [t])).mat = (Mt E g x' t * E.conv F0 g) * C0 * (Mt E g x' t * E.conv F0 g)ᵀ ∧
      (run E.env s (ts ++ [t])).orbFrame = g ∧ (run E.env s (ts ++ [t])).orbCur = g ∧ (run E.env s (ts ++ [t])).orb = x' := by
  intro s
  have hpre := inv_run hL hO0 pre (inv_init hL F0 x0 C0)
  have hi := inv_run hL hO (ts ++ [t]) (attach_inv hL hpre f htag g x')
  refine ⟨?_, hi.orbFrame, hi.orbCur, hi.orb⟩
  have hm := hi.mat
  rw [run_tag] at hm
  rw [hm]
  simp only [transpose_mul, Matrix.mul_assoc]

/-- **Regular targets after `sv.cov = c`**: `M(F0→f') C0 M(F0→f')ᵀ`, whatever frame the state is expressed in. -/
theorem attach_frame_targets (hL : Laws E) (F0 : F) (x0 : n → ℝ) (C0 : Matrix n n ℝ) (hO0 : LocOrth E x0)
    (pre : List (Tag F)) (f : F) (htag : (run E.env (init F0 x0 C0) pre).tag = .frame f)
    (g : F) (x' : n → ℝ) (hO : LocOrth E x') (ts : List (Tag F)) (f' : F) :
    (run E.env (attach (run E.env (init F0 x0 C0) pre) g x') (ts ++ [.frame f'])).mat = E.conv F0 f' * C0 * (E.conv F0 f')ᵀ := by
  have h := (attach_characterised hL F0 x0 C0 hO0 pre f htag g x' hO ts (.frame f')).1
  simp only [Mt, hL.conv_comp] at h
  exact h

/-- **QSW/TNW after `sv.cov = c`**: `toLocal k x' · M(F0→g)` — the rotation from the axes the matrix was given in onto the
local axes of the attached state, whose coordinates in `g` are `x'`. -/
theorem attach_local (hL : Laws E) (F0 : F) (x0 : n → ℝ) (C0 : Matrix n n ℝ) (hO0 : LocOrth E x0)
    (pre : List (Tag F)) (f : F) (htag : (run E.env (init F0 x0 C0) pre).tag = .frame f)
    (g : F) (x' : n → ℝ) (hO : LocOrth E x') (ts : List (Tag F)) (k : Loc) :
    (run E.env (attach (run E.env (init F0 x0 C0) pre) g x') (ts ++ [.loc k])).mat
      = (E.toLocal k x' * E.conv F0 g) * C0 * (E.toLocal k x' * E.conv F0 g)ᵀ :=
  (attach_characterised hL F0 x0 C0 hO0 pre f htag g x' hO ts (.loc k)).1

/-- attached to a state expressed in the frame the covariance was built in: `toLocal k x'` alone -/
theorem attach_home_local (hL : Laws E) (F0 : F) (x0 : n → ℝ) (C0 : Matrix n n ℝ) (hO0 : LocOrth E x0)
    (pre : List (Tag F)) (f : F) (htag : (run E.env (init F0 x0 C0) pre).tag = .frame f)
    (x' : n → ℝ) (hO : LocOrth E x') (ts : List (Tag F)) (k : Loc) :
    (run E.env (attach (run E.env (init F0 x0 C0) pre) F0 x') (ts ++ [.loc k])).mat = E.toLocal k x' * C0 * (E.toLocal k x')ᵀ := by
  have h := attach_local hL F0 x0 C0 hO0 pre f htag F0 x' hO ts k
  rw [hL.conv_self, Matrix.mul_one] at h
  exact h

/-- **A covariance attached later and expressed in its state's frame follows that state** (full strength: any frame
`g` of the state at attachment, any history before and after): once the covariance is tagged with the frame `svf` the
state is in, `sv.frame = g2` moves it to `g2` with the single-hop matrix `M(F0→g2) C0 M(F0→g2)ᵀ`; tagged otherwise it is
left alone. -/
theorem attach_follows_state (hL : Laws E) (F0 : F) (x0 : n → ℝ) (C0 : Matrix n n ℝ) (hO0 : LocOrth E x0)
    (pre : List (Tag F)) (f : F) (htag : (run E.env (init F0 x0 C0) pre).tag = .frame f)
    (g : F) (x' : n → ℝ) (hO : LocOrth E x') (ts : List (Tag F)) (svf g2 : F) :
    let c := run E.env (attach (run E.env (init F0 x0 C0) pre) g x') ts
    let v : Sv F (Matrix n n ℝ) (n → ℝ) := { frame := svf, cov := c }
    (c.tag = .frame svf → (svSetFrame E.env v g2).cov.tag = .frame g2 ∧
      (svSetFrame E.env v g2).cov.mat = E.conv F0 g2 * C0 * (E.conv F0 g2)ᵀ) ∧
    (c.tag ≠ .frame svf → (svSetFrame E.env v g2).cov = c) := by
  intro c v
  constructor
  · intro hc
    have hrun : (svSetFrame E.env v g2).cov = run E.env (attach (run E.env (init F0 x0 C0) pre) g x') (ts ++ [.frame g2]) := by
      unfold svSetFrame
      simp only [v]
      rw [if_pos hc]
      simp [c, run, List.foldl_append]
    rw [hrun]
    exact ⟨run_tag _ _ _ _, attach_frame_targets hL F0 x0 C0 hO0 pre f htag g x' hO ts g2⟩
  · intro hc
    unfold svSetFrame
    simp only [v]
    rw [if_neg hc]

/-- **Path independence for covariances attached later, every target** (full statement since /repo eca9727; before, only
`attach_reframed_local_partial`: regular targets, and QSW/TNW when `g = F0`).  Let the state the covariance was built for
be `x0` in `F0`, and let it be attached while that state is expressed in `g` (`x' = M(F0→g) x0`).  If `to_local` is
equivariant along `F0 → g` (`toLocal k (M x0) · M = toLocal k x0`: true for every rate-free conversion,
`builtin_locEquiv`), every later sequence ending in `t` gives `Mt C0 Mtᵀ` with `Mt = Mt F0 x0 t` — the conversion
`F0 → t`, or the QSW/TNW axes of the inertial state — exactly as for a covariance attached at construction. -/
theorem attach_path_independent (hL : Laws E) (F0 : F) (x0 : n → ℝ) (C0 : Matrix n n ℝ) (hO0 : LocOrth E x0)
    (pre : List (Tag F)) (f : F) (htag : (run E.env (init F0 x0 C0) pre).tag = .frame f)
    (g : F) (hO : LocOrth E (E.conv F0 g *ᵥ x0))
    (hEq : ∀ k, E.toLocal k (E.conv F0 g *ᵥ x0) * E.conv F0 g = E.toLocal k x0)
    (ts : List (Tag F)) (t : Tag F) :
    (run E.env (attach (run E.env (init F0 x0 C0) pre) g (E.conv F0 g *ᵥ x0)) (ts ++ [t])).mat
      = Mt E F0 x0 t * C0 * (Mt E F0 x0 t)ᵀ := by
  have h := (attach_characterised hL F0 x0 C0 hO0 pre f htag g (E.conv F0 g *ᵥ x0) hO ts t).1
  have key : Mt E g (E.conv F0 g *ᵥ x0) t * E.conv F0 g = Mt E F0 x0 t := by
    cases t with
    | frame f' => simp only [Mt]; exact hL.conv_comp F0 g f'
    | loc k => simp only [Mt]; exact hEq k
  rw [key] at h
  exact h

/-! ## History: the setter before eca9727 (`_orb_frame` not re-seated) -/

/-- a covariance currently expressed in a regular frame, attached (old setter) to a state `x1` expressed in the frame
the covariance was built in -/
theorem attachOld_home_inv {F0 : F} {x0 x1 : n → ℝ} {C0 : Matrix n n ℝ} {s : St F (Matrix n n ℝ) (n → ℝ)}
    (hs : Inv E F0 x0 C0 s) (f : F) (htag : s.tag = .frame f) : Inv E F0 x1 C0 (attachOld s F0 x1) := by
  refine ⟨hs.orbFrame, rfl, rfl, ?_⟩
  have := hs.mat
  simp only [attachOld, htag, Mt] at this ⊢
  exact this

/-- **What the setter computed before eca9727**: after `sv.cov = c` with the state expressed in ANY frame `g`, every
later sequence ended as `Mt C0 Mtᵀ` with `Mt = Mt F0 x' t` — the coordinates `x'` (given in `g`) read as if given in `F0`:
right for regular targets, wrong for QSW/TNW as soon as `M(F0→g) ≠ 1` (regression witness
`C14W.old_attach_reframed_local_differs`). -/
theorem attachOld_characterised (hL : Laws E) (F0 : F) (x0 : n → ℝ) (C0 : Matrix n n ℝ) (hO0 : LocOrth E x0)
    (pre : List (Tag F)) (f : F) (htag : (run E.env (init F0 x0 C0) pre).tag = .frame f)
    (g : F) (x' : n → ℝ) (hO : LocOrth E x') (ts : List (Tag F)) (t : Tag F) :
    let s := attachOld (run E.env (init F0 x0 C0) pre) g x'
    (run E.env s (ts ++ [t])).mat = Mt E F0 x' t * C0 * (Mt E F0 x' t)ᵀ ∧ (run E.env s (ts ++ [t])).orbFrame = F0 ∧
      (run E.env s (ts ++ [t])).orbCur = g := by
  intro s
  have hpre := inv_run hL hO0 pre (inv_init hL F0 x0 C0)
  have hhome := attachOld_home_inv (x1 := x') hpre f htag
  have e : s = { attachOld (run E.env (init F0 x0 C0) pre) F0 x' with orbCur := g } := rfl
  rw [e, run_orbCur]
  have hi := inv_run hL hO (ts ++ [t]) hhome
  refine ⟨?_, hi.orbFrame, rfl⟩
  have hm := hi.mat
  rw [run_tag] at hm
  exact hm

/-! ## the constructor argument -/

/-- **The sequence theorems are about covariances whose constructor argument is a `Frame` object or "QSW"/"TNW".**
For those, `Cov(sv, C0, arg); cov.frame = t₁; …` is `run` from `St.new`; for the NAME of a frame (`frame (str)` of the
docstring, what io/ccsds/cov.py passes) there is no state of the model: the code raises AttributeError at the first
assignment (known findings C14-frame-name-tag-unconvertible / -not-following, oracle family `string-frame-tag`). -/
theorem ctor_supported_iff (Env' : Env F (Matrix n n ℝ) (n → ℝ)) (f : F) (x : n → ℝ) (a : CtorArg F) (c : Matrix n n ℝ) (t : Tag F) :
    (ctorThenSet Env' f x a c t).isSome = true ↔ ∀ nm, a ≠ .name nm := by
  cases a <;> simp [ctorThenSet, CtorArg.tag?]

/-- `path_independent` restated from the constructor: for every constructor argument that is a `Frame` object naming
the frame of the state, the first assignment gives `Mt C0 Mtᵀ` -/
theorem ctor_obj_first_hop (hL : Laws E) (F0 : F) (x0 : n → ℝ) (C0 : Matrix n n ℝ) (hO : LocOrth E x0) (t : Tag F) :
    (ctorThenSet E.env F0 x0 (.obj F0) C0 t).map (·.mat) = some (Mt E F0 x0 t * C0 * (Mt E F0 x0 t)ᵀ) := by
  have := path_independent hL F0 x0 C0 hO [] t
  simp only [ctorThenSet, CtorArg.tag?, Option.map_some]
  exact congrArg some this

/-! ## non-vacuity -/

example (C0 : Matrix (Fin 2) (Fin 2) ℝ) :
    (run exEnv.env (attach (run exEnv.env (init false ![1, 0] C0) [.frame true]) true ![0, -1]) ([.loc .qsw] ++ [.frame false])).mat = C0 := by
  have := attach_frame_targets exEnv_laws false ![1, 0] C0 (exEnv_locOrth _) [.frame true] true
    (run_tag exEnv.env _ [] _) true ![0, -1] (exEnv_locOrth _) [.loc .qsw] false
  rw [this]; simp [exEnv]

/-- `exEnv` has a constant `to_local` and is therefore not equivariant; the hypotheses of `attach_path_independent`
are met with `g = F0` (the state re-attached in its own frame) -/
example (C0 : Matrix (Fin 2) (Fin 2) ℝ) (ts : List (Tag Bool)) (t : Tag Bool) :
    (run exEnv.env (attach (run exEnv.env (init false ![1, 0] C0) [.frame true]) false (exEnv.conv false false *ᵥ ![1, 0])) (ts ++ [t])).mat
      = Mt exEnv false ![1, 0] t * C0 * (Mt exEnv false ![1, 0] t)ᵀ :=
  attach_path_independent exEnv_laws false ![1, 0] C0 (exEnv_locOrth _) [.frame true] true (run_tag exEnv.env _ [] _) false
    (exEnv_locOrth _) (fun k => by simp [exEnv]) ts t

end BeyondVerif.C14
