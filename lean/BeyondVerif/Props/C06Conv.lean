import BeyondVerif.Props.C06
import BeyondVerif.Lemmas.Gronwall
import BeyondVerif.Lemmas.OneStep
import BeyondVerif.Lemmas.Gravity
import Mathlib.Analysis.InnerProductSpace.PiL2
import Mathlib.Analysis.Complex.Exponential
import Mathlib.Analysis.SpecialFunctions.Trigonometric.Deriv
import Mathlib.Analysis.SpecialFunctions.Trigonometric.Bounds

/-!
# C06 — convergence of the modelled propagator (headline clause of the property)

"The numerical propagator's result converges to the analytical two-body solution as the step is reduced, at the order of the
chosen integrator (Euler 1, RK4 4), and the adaptive methods stay within a small multiple of their tolerance per step; energy
and angular momentum …".

Objects: the model's generic step `KN.rkOnce` on the tableaux REGENERATED from keplernum.py, the regenerated attraction
`KN.bodyAccel` (through `KN.accelCentral`), the regenerated step-size update `KN.stepScale`, `KN.maxIter`.
The analysis (Lemmas/Gronwall, OneStep, Gravity) lives in normed spaces; `Coords` carries it to the model's `List ℝ` states.

* Euler: local truncation error, Lipschitz constant of the step, global error `≤ (B h / 2)(e^{L T} − 1)` — fully proved,
  with explicit constants for the two-body field on `‖r‖ ≥ r_min`, `‖v‖ ≤ v_max`.
* RK4: the model's step with the regenerated tableau is the classical map; it is `(1+z+z²/2+z³/6+z⁴/24)`-Lipschitz; the global
  error is `O(h⁴)` GIVEN a local error `≤ C h⁵` (`_partial`: the Taylor expansion of the exact solution against the elementary
  differentials of the 8 trees is not formalised); for linear systems the step is the degree-4 Taylor polynomial of `exp(hA)`, and
  on the scalar test equation the whole chain (local error by the exp remainder ⇒ global order 4) is proved.
* the field: gradient of `µ/‖r‖`, first integrals along solutions of the modelled equation.
* the adaptive controller: a rejected step contracts by at least `2^{-1/(s−1)}`; the loop ends within the fuel when the estimate is
  below the tolerance for all small steps (`O(h^{q+1})` estimate).
-/
noncomputable section
namespace BeyondVerif.C06
open BeyondVerif.R BeyondVerif.R.KN BeyondVerif.NumReal BeyondVerif.Gronwall BeyondVerif.OneStep BeyondVerif.Gravity Set

/-! ## Coordinates: a normed space seen as the model's `List ℝ` states -/

/-- linear coordinates `E → List ℝ` compatible with the model's `vadd` / `smul` -/
structure Coords (E : Type*) [AddCommGroup E] [Module ℝ E] where
  toL : E → List ℝ
  ofL : List ℝ → E
  left_inv : ∀ x, ofL (toL x) = x
  add : ∀ a b, vadd (toL a) (toL b) = toL (a + b)
  smul : ∀ (s : ℝ) a, KN.smul s (toL a) = toL (s • a)

variable {E : Type*} [NormedAddCommGroup E] [NormedSpace ℝ E]

/-- a vector field on `E` as a right-hand side of the model (`f t y` on lists) -/
def Coords.lift (c : Coords E) (F : ℝ → E → E) : ℝ → List ℝ → List ℝ := fun t l => c.toL (F t (c.ofL l))

/-- **the model's step with the regenerated Euler tableau is `x ↦ x + h F(t, x)`** -/
theorem rkOnce_euler_coords (c : Coords E) (F : ℝ → E → E) (t : ℝ) (x : E) (h : ℝ) :
    rkOnce (c.lift F) butcher_euler t (c.toL x) h = c.toL (x + h • F t x) := by
  simp only [rkOnce, rkKs, rkStages, rkCombine, lincomb, butcher_euler, List.drop, List.map, Coords.lift, c.left_inv,
    c.smul, c.add, mul_one]

/-- **the model's step with the regenerated RK4 tableau is the classical Runge–Kutta map** `OneStep.rk4` -/
theorem rkOnce_rk4_coords (c : Coords E) (F : ℝ → E → E) (t : ℝ) (x : E) (h : ℝ) :
    rkOnce (c.lift F) butcher_rk4 t (c.toL x) h = c.toL (rk4 F t x h) := by
  have e1 : t + 1 / 2 * h = t + h / 2 := by ring
  have e2 : t + 1 * h = t + h := by ring
  have a1 : ∀ k : E, x + h • ((1 / 2 : ℝ) • k) = x + (h / 2) • k := fun k => by module
  have a2 : ∀ k k' : E, x + h • ((0 : ℝ) • k + (1 / 2 : ℝ) • k') = x + (h / 2) • k' := fun k k' => by module
  have a3 : ∀ k k' k'' : E, x + h • ((0 : ℝ) • k + ((0 : ℝ) • k' + (1 : ℝ) • k'')) = x + h • k'' := fun k k' k'' => by module
  simp only [rkOnce, rkKs, rkStages, rkCombine, lincomb, butcher_rk4, List.drop, List.map, Coords.lift, c.left_inv,
    c.smul, c.add, List.cons_append, List.nil_append, e1, e2, a1, a2, a3]
  congr 1
  simp only [rk4]
  module

/-- `ℝ` as a one-component state -/
def coordsReal : Coords ℝ where
  toL x := [x]
  ofL l := l.getD 0 0
  left_inv x := by simp
  add a b := by simp [vadd]
  smul s a := by simp [KN.smul]

abbrev V3 := EuclideanSpace ℝ (Fin 3)
/-- position × velocity with the sup norm of the two Euclidean norms -/
abbrev St := V3 × V3

/-- the model's state `[x, y, z, vx, vy, vz]` -/
def coordsSt : Coords St where
  toL s := [s.1 0, s.1 1, s.1 2, s.2 0, s.2 1, s.2 2]
  ofL l := (!₂[l.getD 0 0, l.getD 1 0, l.getD 2 0], !₂[l.getD 3 0, l.getD 4 0, l.getD 5 0])
  left_inv s := by
    ext i <;> fin_cases i <;> simp
  add a b := by simp [vadd]
  smul s a := by simp [KN.smul]

theorem norm_V3 (r : V3) : ‖r‖ = Real.sqrt (r 0 ^ 2 + r 1 ^ 2 + r 2 ^ 2) := by
  rw [EuclideanSpace.norm_eq, Fin.sum_univ_three]
  simp only [Real.norm_eq_abs, sq_abs]

/-- **the regenerated attraction of a central body at the origin (`_accel` with `bodies = [central]`) is the two-body
right-hand side** `(r, v) ↦ (v, −µ r/‖r‖³)` in the model's coordinates -/
theorem accelCentral_coords (mu : ℝ) (s : St) : accelCentral mu (coordsSt.toL s) = coordsSt.toL (twoBody mu s) := by
  have hn : Real.sqrt ((0 - s.1 0) * (0 - s.1 0) + ((0 - s.1 1) * (0 - s.1 1) + ((0 - s.1 2) * (0 - s.1 2) + 0))) = ‖s.1‖ := by
    rw [norm_V3]; congr 1; ring
  simp only [accelCentral, accel, coordsSt, accelKin, List.drop, List.foldl, accel_newton, hn, vadd, twoBody, grav,
    List.cons_append, List.nil_append, PiLp.smul_apply, smul_eq_mul, List.cons.injEq, true_and, and_true]
  refine ⟨?_, ?_, ?_⟩ <;> ring

/-! ## Euler: local truncation error, global error, order 1 -/

/-- **local truncation error of the modelled Euler step** started on an exact solution `y' = F(t, y)`:
`‖y(t+h) − step‖ ≤ (h²/2) sup ‖y''‖` — Taylor's formula with first-order remainder, for the model's generic step on the
regenerated tableau -/
theorem euler_local_truncation (c : Coords E) (F : ℝ → E → E) (y y'' : ℝ → E) (t h M : ℝ) (hh : 0 ≤ h)
    (hy : ∀ s ∈ Icc t (t + h), HasDerivAt y (F s (y s)) s)
    (hy' : ∀ s ∈ Icc t (t + h), HasDerivAt (fun s => F s (y s)) (y'' s) s) (hM : ∀ s ∈ Icc t (t + h), ‖y'' s‖ ≤ M) :
    ‖y (t + h) - c.ofL (rkOnce (c.lift F) butcher_euler t (c.toL (y t)) h)‖ ≤ M * h ^ 2 / 2 := by
  rw [rkOnce_euler_coords, c.left_inv]
  exact euler_local_error_C2 y (fun s => F s (y s)) y'' t h M hh hy hy' hM

/-- the states of a run of the model stay in the range of the coordinates -/
theorem run_in_range (c : Coords E) (step : ℕ → E → E) (u : ℕ → List ℝ) (x0 : E) (n : ℕ) (hu0 : u 0 = c.toL x0)
    (hu : ∀ k < n, ∀ x, u k = c.toL x → u (k + 1) = c.toL (step k x)) :
    ∀ k ≤ n, u k = c.toL (c.ofL (u k)) := by
  intro k
  induction k with
  | zero => intro _; rw [hu0, c.left_inv]
  | succ m ih =>
    intro hm
    have := hu m (Nat.lt_of_succ_le hm) _ (ih (Nat.le_of_succ_le hm))
    rw [this, c.left_inv]

/-- **global error of the modelled Euler method, general (non-autonomous) form.**  Along an exact solution whose
derivative `s ↦ F(s, y s)` changes at rate at most `M` within every step, and with `F(t_k, ·)` not separating the exact
from the numerical state by more than the factor `L`, `n` steps of size `h` of the model's generic step on the regenerated
Euler tableau end within `(M/2) h (e^{L T} − 1)/L` of the exact solution, `T = n h`: **first order**. -/
theorem euler_global_error_general (c : Coords E) (F : ℝ → E → E) (L M : ℝ) (hL : 0 < L) (hM : 0 ≤ M)
    (y : ℝ → E) (t0 h : ℝ) (n : ℕ) (hh : 0 < h)
    (hy : ∀ s ∈ Icc t0 (t0 + n * h), HasDerivAt y (F s (y s)) s)
    (hrate : ∀ k < n, ∀ s ∈ Icc (t0 + k * h) (t0 + k * h + h),
      ‖F s (y s) - F (t0 + k * h) (y (t0 + k * h))‖ ≤ M * (s - (t0 + k * h)))
    (u : ℕ → List ℝ) (hu0 : u 0 = c.toL (y t0))
    (hu : ∀ k < n, u (k + 1) = rkOnce (c.lift F) butcher_euler (t0 + k * h) (u k) h)
    (hlip : ∀ k < n, ‖F (t0 + k * h) (y (t0 + k * h)) - F (t0 + k * h) (c.ofL (u k))‖
      ≤ L * ‖y (t0 + k * h) - c.ofL (u k)‖) :
    ‖y (t0 + n * h) - c.ofL (u n)‖ ≤ M / 2 * h ^ 1 * (Real.exp (L * (n * h)) - 1) / L := by
  have hrange := run_in_range c (fun k x => x + h • F (t0 + k * h) x) u (y t0) n hu0
    (fun k hk x hx => by rw [hu k hk, hx, rkOnce_euler_coords])
  have hsub : ∀ k < n, Icc (t0 + k * h) (t0 + k * h + h) ⊆ Icc t0 (t0 + n * h) := by
    intro k hk s hs
    have hk' : (k : ℝ) + 1 ≤ n := by exact_mod_cast hk
    have h1 : 0 ≤ (k : ℝ) * h := by positivity
    constructor
    · linarith [hs.1]
    · nlinarith [hs.2]
  have key := one_step_convergence (fun k x => x + h • F (t0 + k * h) x) (fun k => y (t0 + k * h)) (fun k => c.ofL (u k))
    L h (M / 2) 1 n hL hh (by positivity) (by simp [hu0, c.left_inv]) ?_ ?_ ?_
  · exact key
  · intro k hk
    show c.ofL (u (k + 1)) = c.ofL (u k) + h • F (t0 + k * h) (c.ofL (u k))
    rw [hu k hk, hrange k hk.le, rkOnce_euler_coords, c.left_inv, c.left_inv]
  · intro k hk
    have e : t0 + ((k + 1 : ℕ) : ℝ) * h = t0 + k * h + h := by push_cast; ring
    show ‖y (t0 + ((k + 1 : ℕ) : ℝ) * h) - (y (t0 + k * h) + h • F (t0 + k * h) (y (t0 + k * h)))‖ ≤ M / 2 * h ^ (1 + 1)
    rw [e]
    have := taylor1_remainder y (fun s => F s (y s)) (t0 + k * h) h M hh.le
      (fun s hs => hy s (hsub k hk hs)) (hrate k hk)
    calc _ ≤ M * h ^ 2 / 2 := this
      _ = M / 2 * h ^ (1 + 1) := by ring
  · intro k hk
    exact euler_step_lipschitz (F (t0 + k * h)) L h hh.le _ _ (hlip k hk)

/-- **global error of the modelled Euler method for an autonomous field with explicit constants.**  `F` bounded by `B` and
`L`-Lipschitz on a set `K` that contains the exact solution over the span and the numerical states:
`‖y(t₀ + n h) − u_n‖ ≤ (B h / 2)(e^{L n h} − 1)`. -/
theorem euler_global_error (c : Coords E) (F : E → E) (K : Set E) (L B : ℝ) (hL : 0 < L) (hB0 : 0 ≤ B)
    (hB : ∀ x ∈ K, ‖F x‖ ≤ B) (hLip : ∀ x ∈ K, ∀ x' ∈ K, ‖F x - F x'‖ ≤ L * ‖x - x'‖)
    (y : ℝ → E) (t0 h : ℝ) (n : ℕ) (hh : 0 < h)
    (hy : ∀ s ∈ Icc t0 (t0 + n * h), HasDerivAt y (F (y s)) s) (hyK : ∀ s ∈ Icc t0 (t0 + n * h), y s ∈ K)
    (u : ℕ → List ℝ) (hu0 : u 0 = c.toL (y t0))
    (hu : ∀ k < n, u (k + 1) = rkOnce (c.lift (fun _ => F)) butcher_euler (t0 + k * h) (u k) h)
    (huK : ∀ k < n, c.ofL (u k) ∈ K) :
    ‖y (t0 + n * h) - c.ofL (u n)‖ ≤ B / 2 * h * (Real.exp (L * (n * h)) - 1) := by
  have hsub : ∀ k < n, Icc (t0 + k * h) (t0 + k * h + h) ⊆ Icc t0 (t0 + n * h) := by
    intro k hk s hs
    have hk' : (k : ℝ) + 1 ≤ n := by exact_mod_cast hk
    have h1 : 0 ≤ (k : ℝ) * h := by positivity
    constructor
    · linarith [hs.1]
    · nlinarith [hs.2]
  have key := euler_global_error_general c (fun _ => F) L (L * B) hL (by positivity) y t0 h n hh hy ?_ u hu0 hu ?_
  · calc _ ≤ L * B / 2 * h ^ 1 * (Real.exp (L * (n * h)) - 1) / L := key
      _ = B / 2 * h * (Real.exp (L * (n * h)) - 1) := by field_simp
  · intro k hk s hs
    have hleft : t0 + k * h ∈ Icc (t0 + k * h) (t0 + k * h + h) := left_mem_Icc.2 (by linarith)
    have hmove : ∀ s ∈ Icc (t0 + k * h) (t0 + k * h + h), ‖y s - y (t0 + k * h)‖ ≤ B * (s - (t0 + k * h)) :=
      norm_image_sub_le_of_norm_deriv_right_le_segment
        (fun s hs => (hy s (hsub k hk hs)).continuousAt.continuousWithinAt)
        (fun s hs => (hy s (hsub k hk (Ico_subset_Icc_self hs))).hasDerivWithinAt)
        (fun s hs => hB _ (hyK s (hsub k hk (Ico_subset_Icc_self hs))))
    calc ‖F (y s) - F (y (t0 + k * h))‖ ≤ L * ‖y s - y (t0 + k * h)‖ :=
          hLip _ (hyK s (hsub k hk hs)) _ (hyK _ (hsub k hk hleft))
      _ ≤ L * (B * (s - (t0 + k * h))) := mul_le_mul_of_nonneg_left (hmove s hs) hL.le
      _ = L * B * (s - (t0 + k * h)) := by ring
  · intro k hk
    have hleft : t0 + k * h ∈ Icc (t0 + k * h) (t0 + k * h + h) := left_mem_Icc.2 (by linarith)
    exact hLip _ (hyK _ (hsub k hk hleft)) _ (huK k hk)

/-- **Euler on the modelled two-body field converges at first order, explicit constants.**  `accelCentral µ` is the
regenerated `_accel` with the central body at the origin.  While the exact orbit and the numerical states keep
`‖r‖ ≥ r_min` and `‖v‖ ≤ v_max` (a bound orbit with perigee above the surface: `r_min` = any radius below perigee),
`‖(r, v)(t₀ + n h) − (r, v)_n‖ ≤ (h/2) max(v_max, µ/r_min²) (e^{L n h} − 1)` with `L = max(1, 2µ/r_min³)`
(sup norm of the Euclidean norms of position and velocity). -/
theorem euler_two_body_converges (mu rmin vmax : ℝ) (hmu : 0 ≤ mu) (hr : 0 < rmin) (hv : 0 ≤ vmax)
    (y : ℝ → St) (t0 h : ℝ) (n : ℕ) (hh : 0 < h)
    (hy : ∀ s ∈ Icc t0 (t0 + n * h), HasDerivAt y (coordsSt.ofL (accelCentral mu (coordsSt.toL (y s)))) s)
    (hyK : ∀ s ∈ Icc t0 (t0 + n * h), rmin ≤ ‖(y s).1‖ ∧ ‖(y s).2‖ ≤ vmax)
    (u : ℕ → List ℝ) (hu0 : u 0 = coordsSt.toL (y t0))
    (hu : ∀ k < n, u (k + 1) = rkOnce (fun _ l => accelCentral mu l) butcher_euler (t0 + k * h) (u k) h)
    (huK : ∀ k < n, rmin ≤ ‖(coordsSt.ofL (u k)).1‖ ∧ ‖(coordsSt.ofL (u k)).2‖ ≤ vmax) :
    ‖y (t0 + n * h) - coordsSt.ofL (u n)‖
      ≤ max vmax (mu / rmin ^ 2) / 2 * h * (Real.exp (max 1 (2 * mu / rmin ^ 3) * (n * h)) - 1) := by
  -- on the range of the coordinates the model's field is the lifted two-body field
  have hrange := run_in_range coordsSt (fun _ x => x + h • twoBody mu x) u (y t0) n hu0
    (fun k hk x hx => by
      rw [hu k hk, hx]
      have : rkOnce (fun _ l => accelCentral mu l) butcher_euler (t0 + k * h) (coordsSt.toL x) h
          = rkOnce (coordsSt.lift (fun _ => twoBody mu)) butcher_euler (t0 + k * h) (coordsSt.toL x) h := by
        simp only [rkOnce, rkKs, rkStages, rkCombine, lincomb, butcher_euler, List.drop, List.map, Coords.lift,
          coordsSt.left_inv, accelCentral_coords]
      rw [this, rkOnce_euler_coords])
  refine euler_global_error coordsSt (twoBody mu) {s | rmin ≤ ‖s.1‖ ∧ ‖s.2‖ ≤ vmax} _ _
    (lt_of_lt_of_le one_pos (le_max_left _ _)) (le_trans hv (le_max_left _ _))
    (fun x hx => twoBody_bound mu rmin vmax hmu hr x hx.1 hx.2)
    (fun x hx x' hx' => twoBody_lipschitz mu rmin hmu hr x x' hx.1 hx'.1)
    y t0 h n hh (fun s hs => by simpa [accelCentral_coords, coordsSt.left_inv] using hy s hs) hyK u hu0 ?_ huK
  intro k hk
  rw [hu k hk, hrange k hk.le]
  simp only [rkOnce, rkKs, rkStages, rkCombine, lincomb, butcher_euler, List.drop, List.map, Coords.lift,
    coordsSt.left_inv, accelCentral_coords]

/-! ## RK4: the classical map, its Lipschitz constant, order 4 -/

/-- **on a linear system `y' = A y` one RK4 step is the degree-4 Taylor polynomial of `exp(hA)`** applied to the state
(`A` any continuous linear map of a normed space — matrices included), so the local error is the remainder of the
exponential series -/
theorem rk4_linear_system (A : E →L[ℝ] E) (t : ℝ) (x : E) (h : ℝ) :
    rk4 (fun _ x => A x) t x h
      = x + h • A x + (h ^ 2 / 2) • A (A x) + (h ^ 3 / 6) • A (A (A x)) + (h ^ 4 / 24) • A (A (A (A x))) := by
  simp only [rk4, map_add, map_smul]
  module

/-- the same for the model's generic step on the regenerated tableau -/
theorem rkOnce_rk4_linear_system (c : Coords E) (A : E →L[ℝ] E) (t : ℝ) (x : E) (h : ℝ) :
    rkOnce (c.lift (fun _ x => A x)) butcher_rk4 t (c.toL x) h
      = c.toL (x + h • A x + (h ^ 2 / 2) • A (A x) + (h ^ 3 / 6) • A (A (A x)) + (h ^ 4 / 24) • A (A (A (A x)))) := by
  rw [rkOnce_rk4_coords, rk4_linear_system]

/-- `1 + z + z²/2 + z³/6 + z⁴/24 ≤ 1 + (41/24) z` for `0 ≤ z ≤ 1` -/
theorem rk4_amp_le (z : ℝ) (h0 : 0 ≤ z) (h1 : z ≤ 1) :
    1 + z + z ^ 2 / 2 + z ^ 3 / 6 + z ^ 4 / 24 ≤ 1 + 41 / 24 * z := by
  have e2 : z ^ 2 ≤ z := by nlinarith
  have e3 : z ^ 3 ≤ z := by nlinarith
  have e4 : z ^ 4 ≤ z := by nlinarith
  linarith

/-
FULL STATEMENT (order 4 of the propagator with `method="rk4"`): for `F` of class C⁴ with bounded derivatives along the exact
solution there is `C` with `‖y(t₀ + n h) − u_n‖ ≤ C h⁴ (e^{ΛT} − 1)/Λ`.
PROVED below: exactly this, GIVEN the local error bound `hloc` (`‖y(t+h) − rk4 step from y(t)‖ ≤ C h⁵`).
MISSING: the derivation of `hloc` from `rk4_order4` — Taylor expansion of the exact solution and of the four stages to order 5
against the elementary differentials of the 8 trees (Butcher's theorem).  It IS derived, and the theorem is then unconditional,
for linear systems in one variable (`rk4_linear_converges_order4`), where the elementary differentials collapse to powers of λ.
-/
/-- **from local to global for the modelled RK4 method, any order `p`**: a local error `≤ C h^{p+1}` along the exact solution
gives the global error `≤ C h^p (e^{ΛT} − 1)/Λ`, Λ = (41/24) L.  The step is the model's generic `rkOnce` on the regenerated
`rk4` tableau; `F(t, ·)` globally `L`-Lipschitz, `h L ≤ 1`. -/
theorem rk4_local_to_global (c : Coords E) (F : ℝ → E → E) (L C : ℝ) (p : ℕ) (hL : 0 < L) (hC : 0 ≤ C)
    (hF : ∀ s a b, ‖F s a - F s b‖ ≤ L * ‖a - b‖)
    (y : ℝ → E) (t0 h : ℝ) (n : ℕ) (hh : 0 < h) (hz : h * L ≤ 1)
    (hloc : ∀ k < n, ‖y (t0 + ((k + 1 : ℕ) : ℝ) * h) - rk4 F (t0 + k * h) (y (t0 + k * h)) h‖ ≤ C * h ^ (p + 1))
    (u : ℕ → List ℝ) (hu0 : u 0 = c.toL (y t0))
    (hu : ∀ k < n, u (k + 1) = rkOnce (c.lift F) butcher_rk4 (t0 + k * h) (u k) h) :
    ‖y (t0 + n * h) - c.ofL (u n)‖ ≤ C * h ^ p * (Real.exp (41 / 24 * L * (n * h)) - 1) / (41 / 24 * L) := by
  have hrange := run_in_range c (fun k x => rk4 F (t0 + k * h) x h) u (y t0) n hu0
    (fun k hk x hx => by rw [hu k hk, hx, rkOnce_rk4_coords])
  have key := one_step_convergence (fun k x => rk4 F (t0 + k * h) x h) (fun k => y (t0 + k * h)) (fun k => c.ofL (u k))
    (41 / 24 * L) h C p n (by positivity) hh hC (by simp [hu0, c.left_inv]) ?_ ?_ ?_
  · exact key
  · intro k hk
    show c.ofL (u (k + 1)) = rk4 F (t0 + k * h) (c.ofL (u k)) h
    rw [hu k hk, hrange k hk.le, rkOnce_rk4_coords, c.left_inv, c.left_inv]
  · intro k hk
    exact hloc k hk
  · intro k hk
    have hzl : 0 ≤ h * L := by positivity
    refine (rk4_step_lipschitz F L h hh.le hL.le hF _ _ _).trans ?_
    apply mul_le_mul_of_nonneg_right _ (norm_nonneg _)
    have := rk4_amp_le (h * L) hzl hz
    linarith

/-- **global error of the modelled RK4 method is of order 4, given the local order 5** (`_partial`, see above) -/
theorem rk4_global_error_partial (c : Coords E) (F : ℝ → E → E) (L C : ℝ) (hL : 0 < L) (hC : 0 ≤ C)
    (hF : ∀ s a b, ‖F s a - F s b‖ ≤ L * ‖a - b‖)
    (y : ℝ → E) (t0 h : ℝ) (n : ℕ) (hh : 0 < h) (hz : h * L ≤ 1)
    (hloc : ∀ k < n, ‖y (t0 + ((k + 1 : ℕ) : ℝ) * h) - rk4 F (t0 + k * h) (y (t0 + k * h)) h‖ ≤ C * h ^ 5)
    (u : ℕ → List ℝ) (hu0 : u 0 = c.toL (y t0))
    (hu : ∀ k < n, u (k + 1) = rkOnce (c.lift F) butcher_rk4 (t0 + k * h) (u k) h) :
    ‖y (t0 + n * h) - c.ofL (u n)‖ ≤ C * h ^ 4 * (Real.exp (41 / 24 * L * (n * h)) - 1) / (41 / 24 * L) :=
  rk4_local_to_global c F L C 4 hL hC hF y t0 h n hh hz hloc u hu0 hu

/-- **the modelled RK4 method converges** (unconditionally, at least at first order) for every autonomous field that is
globally `L`-Lipschitz and bounded by `B`: `‖y(t₀ + n h) − u_n‖ ≤ L B h (e^{ΛT} − 1)/Λ → 0` as `h → 0` with `n h = T` fixed.
(Order 4 is `rk4_global_error_partial`.  The two-body field is Lipschitz and bounded on `‖r‖ ≥ r_min` only: this theorem
applies to it after a cut-off inside `r_min`, which no trajectory of the property's domain enters.) -/
theorem rk4_converges (c : Coords E) (F : E → E) (L B : ℝ) (hL : 0 < L)
    (hF : ∀ a b, ‖F a - F b‖ ≤ L * ‖a - b‖) (hB : ∀ a, ‖F a‖ ≤ B)
    (y : ℝ → E) (t0 h : ℝ) (n : ℕ) (hh : 0 < h) (hz : h * L ≤ 1)
    (hy : ∀ s ∈ Icc t0 (t0 + n * h), HasDerivAt y (F (y s)) s)
    (u : ℕ → List ℝ) (hu0 : u 0 = c.toL (y t0))
    (hu : ∀ k < n, u (k + 1) = rkOnce (c.lift (fun _ => F)) butcher_rk4 (t0 + k * h) (u k) h) :
    ‖y (t0 + n * h) - c.ofL (u n)‖ ≤ L * B * h ^ 1 * (Real.exp (41 / 24 * L * (n * h)) - 1) / (41 / 24 * L) := by
  have hB0 : 0 ≤ B := (norm_nonneg _).trans (hB (y t0))
  refine rk4_local_to_global c (fun _ => F) L (L * B) 1 hL (by positivity) (fun _ => hF) y t0 h n hh hz ?_ u hu0 hu
  intro k hk
  have hsub : Icc (t0 + k * h) (t0 + k * h + h) ⊆ Icc t0 (t0 + n * h) := by
    intro s hs
    have hk' : (k : ℝ) + 1 ≤ n := by exact_mod_cast hk
    have h1 : 0 ≤ (k : ℝ) * h := by positivity
    constructor
    · linarith [hs.1]
    · nlinarith [hs.2]
  have e : t0 + ((k + 1 : ℕ) : ℝ) * h = t0 + k * h + h := by push_cast; ring
  rw [e]
  have l1 := euler_local_error_ode F Set.univ L B hL.le (fun x _ => hB x) (fun x _ x' _ => hF x x') y (t0 + k * h) h hh.le
    (fun s hs => hy s (hsub hs)) (fun _ _ => Set.mem_univ _)
  have l2 := rk4_sub_euler F L B h hh.le hL.le hF hB (t0 + k * h) (y (t0 + k * h))
  have tri : y (t0 + k * h + h) - rk4 (fun _ => F) (t0 + k * h) (y (t0 + k * h)) h
      = (y (t0 + k * h + h) - (y (t0 + k * h) + h • F (y (t0 + k * h))))
        - (rk4 (fun _ => F) (t0 + k * h) (y (t0 + k * h)) h - (y (t0 + k * h) + h • F (y (t0 + k * h)))) := by abel
  rw [tri]
  calc _ ≤ ‖y (t0 + k * h + h) - (y (t0 + k * h) + h • F (y (t0 + k * h)))‖
        + ‖rk4 (fun _ => F) (t0 + k * h) (y (t0 + k * h)) h - (y (t0 + k * h) + h • F (y (t0 + k * h)))‖ := norm_sub_le _ _
    _ ≤ L * B * h ^ 2 / 2 + L * B * h ^ 2 / 2 := add_le_add l1 l2
    _ = L * B * h ^ (1 + 1) := by ring

/-- `|e^z − (1 + z + z²/2 + z³/6 + z⁴/24)| ≤ |z|⁵/100` for `|z| ≤ 1` (remainder of the exponential series) -/
theorem exp_sub_taylor4 (z : ℝ) (hz : |z| ≤ 1) :
    |Real.exp z - (1 + z + z ^ 2 / 2 + z ^ 3 / 6 + z ^ 4 / 24)| ≤ |z| ^ 5 / 100 := by
  have h := Real.exp_bound hz (n := 5) (by norm_num)
  simp only [Finset.sum_range_succ, Finset.sum_range_zero, Nat.factorial, Nat.succ_eq_add_one] at h
  norm_num at h
  convert h using 2; ring

/-- **the modelled RK4 method converges at order 4 on the linear test equation `y' = λ y`** — the whole chain, no hypothesis
left: the step on the regenerated tableau multiplies by the degree-4 Taylor polynomial of `e^{hλ}` (`linear_test_rk4`), the
local error is the exp remainder `≤ |y| |hλ|⁵/100`, the step is `(1 + (41/24) h|λ|)`-Lipschitz, discrete Gronwall.
`|y₀ e^{λ n h} − u_n| ≤ C h⁴ (e^{Λ n h} − 1)/Λ`, `C = |y₀| e^{|λ| n h} |λ|⁵/100`, `Λ = (41/24)|λ|`. -/
theorem rk4_linear_converges_order4 (lam y0 t0 h : ℝ) (n : ℕ) (hh : 0 < h) (hlam : lam ≠ 0) (hz : h * |lam| ≤ 1)
    (u : ℕ → List ℝ) (hu0 : u 0 = [y0])
    (hu : ∀ k < n, u (k + 1) = rkOnce (fun _ l => KN.smul lam l) butcher_rk4 (t0 + k * h) (u k) h) :
    |y0 * Real.exp (lam * (n * h)) - (u n).getD 0 0|
      ≤ (|y0| * Real.exp (|lam| * (n * h)) * |lam| ^ 5 / 100) * h ^ 4
          * (Real.exp (41 / 24 * |lam| * (n * h)) - 1) / (41 / 24 * |lam|) := by
  set R := 1 + h * lam + (h * lam) ^ 2 / 2 + (h * lam) ^ 3 / 6 + (h * lam) ^ 4 / 24 with hR
  have hl : 0 < |lam| := abs_pos.2 hlam
  have hzabs : |h * lam| ≤ 1 := by rw [abs_mul, abs_of_pos hh]; exact hz
  -- the run is scalar
  have hrun : ∀ k ≤ n, u k = [(u k).getD 0 0] := by
    intro k
    induction k with
    | zero => intro _; rw [hu0]; rfl
    | succ m ih =>
      intro hm
      rw [hu m (Nat.lt_of_succ_le hm), ih (Nat.le_of_succ_le hm), linear_test_rk4]; rfl
  have hstep : ∀ k < n, (u (k + 1)).getD 0 0 = (u k).getD 0 0 * R := by
    intro k hk
    rw [hu k hk, hrun k hk.le, linear_test_rk4]; rfl
  have hRabs : |R| ≤ 1 + h * (41 / 24 * |lam|) := by
    have h1 : |R| ≤ 1 + |h * lam| + |h * lam| ^ 2 / 2 + |h * lam| ^ 3 / 6 + |h * lam| ^ 4 / 24 := by
      rw [hR]
      have t1 := abs_add_le (1 + h * lam + (h * lam) ^ 2 / 2 + (h * lam) ^ 3 / 6) ((h * lam) ^ 4 / 24)
      have t2 := abs_add_le (1 + h * lam + (h * lam) ^ 2 / 2) ((h * lam) ^ 3 / 6)
      have t3 := abs_add_le (1 + h * lam) ((h * lam) ^ 2 / 2)
      have t4 := abs_add_le 1 (h * lam)
      have p2 : |(h * lam) ^ 2 / 2| = |h * lam| ^ 2 / 2 := by rw [abs_div, abs_pow]; norm_num
      have p3 : |(h * lam) ^ 3 / 6| = |h * lam| ^ 3 / 6 := by rw [abs_div, abs_pow]; norm_num
      have p4 : |(h * lam) ^ 4 / 24| = |h * lam| ^ 4 / 24 := by rw [abs_div, abs_pow]; norm_num
      have p1 : |(1 : ℝ)| = 1 := abs_one
      linarith
    have h2 := rk4_amp_le |h * lam| (abs_nonneg _) hzabs
    have h3 : |h * lam| = h * |lam| := by rw [abs_mul, abs_of_pos hh]
    rw [h3] at h1 h2
    linarith
  have key := one_step_convergence (E := ℝ) (fun _ x => x * R) (fun k => y0 * Real.exp (lam * (k * h)))
    (fun k => (u k).getD 0 0) (41 / 24 * |lam|) h (|y0| * Real.exp (|lam| * (n * h)) * |lam| ^ 5 / 100) 4 n
    (by positivity) hh (by positivity) (by simp [hu0]) hstep ?_ ?_
  · simpa [Real.norm_eq_abs] using key
  · intro k hk
    have hk' : (k : ℝ) ≤ n := by exact_mod_cast hk.le
    have e : y0 * Real.exp (lam * (((k + 1 : ℕ) : ℝ) * h)) - y0 * Real.exp (lam * (k * h)) * R
        = y0 * Real.exp (lam * (k * h)) * (Real.exp (h * lam) - R) := by
      have : lam * (((k + 1 : ℕ) : ℝ) * h) = lam * (k * h) + h * lam := by push_cast; ring
      rw [this, Real.exp_add]; ring
    rw [Real.norm_eq_abs, e, abs_mul, abs_mul, Real.abs_exp]
    have b1 : Real.exp (lam * (k * h)) ≤ Real.exp (|lam| * (n * h)) := by
      apply Real.exp_le_exp.2
      have : lam * (k * h) ≤ |lam| * (k * h) := mul_le_mul_of_nonneg_right (le_abs_self _) (by positivity)
      have : |lam| * (k * h) ≤ |lam| * (n * h) := by gcongr
      linarith
    have b2 : |Real.exp (h * lam) - R| ≤ |h * lam| ^ 5 / 100 := exp_sub_taylor4 (h * lam) hzabs
    have b3 : |h * lam| ^ 5 = |lam| ^ 5 * h ^ 5 := by rw [abs_mul, abs_of_pos hh]; ring
    calc |y0| * Real.exp (lam * (k * h)) * |Real.exp (h * lam) - R|
        ≤ |y0| * Real.exp (|lam| * (n * h)) * (|h * lam| ^ 5 / 100) := by gcongr
      _ = |y0| * Real.exp (|lam| * (n * h)) * |lam| ^ 5 / 100 * h ^ (4 + 1) := by rw [b3]; ring
  · intro k hk
    rw [Real.norm_eq_abs, Real.norm_eq_abs, ← sub_mul, abs_mul, mul_comm]
    exact mul_le_mul_of_nonneg_right hRabs (abs_nonneg _)

/-! ## The field: gradient of the potential, first integrals along solutions of the MODELLED equation -/

/-- **the regenerated attraction is the gradient of `µ/‖r‖`** (away from the centre) -/
theorem accel_is_gradient (mu : ℝ) (s : St) (hr : s.1 ≠ 0) :
    HasGradientAt (fun r : V3 => mu / ‖r‖) (coordsSt.ofL (accelCentral mu (coordsSt.toL s))).2 s.1 := by
  rw [accelCentral_coords, coordsSt.left_inv]
  exact hasGradientAt_potential mu s.1 hr

/-- **energy is a first integral**: along ANY solution of `(r, v)' = _accel(r, v)` (the regenerated field, central body at the
origin) `d/dt (‖v‖²/2 − µ/‖r‖) = 0` while `r ≠ 0` -/
theorem energy_first_integral (mu : ℝ) (y : ℝ → St) (t : ℝ)
    (hy : HasDerivAt y (coordsSt.ofL (accelCentral mu (coordsSt.toL (y t)))) t) (h0 : (y t).1 ≠ 0) :
    HasDerivAt (fun s => ‖(y s).2‖ ^ 2 / 2 - mu / ‖(y s).1‖) 0 t := by
  rw [accelCentral_coords, coordsSt.left_inv] at hy
  have h1' := (hasFDerivAt_fst (𝕜 := ℝ) (E := V3) (F := V3) (p := y t)).comp_hasDerivAt t hy
  have h1 : HasDerivAt (fun s => (y s).1) (y t).2 t := h1'
  have h2' := (hasFDerivAt_snd (𝕜 := ℝ) (E := V3) (F := V3) (p := y t)).comp_hasDerivAt t hy
  have h2 : HasDerivAt (fun s => (y s).2) (grav mu (y t).1) t := h2'
  exact energy_hasDerivAt_zero mu (fun s => (y s).1) (fun s => (y s).2) t h1 h2 h0

/-- **angular momentum is a first integral**: along any solution of the modelled equation every component
`rᵢ vⱼ − rⱼ vᵢ` of `r × v` has derivative 0 (no hypothesis on `r`: the model's `x/0 = 0` keeps the field central) -/
theorem angular_momentum_first_integral (mu : ℝ) (y : ℝ → St) (t : ℝ)
    (hy : HasDerivAt y (coordsSt.ofL (accelCentral mu (coordsSt.toL (y t)))) t) (i j : Fin 3) :
    HasDerivAt (fun s => (y s).1 i * (y s).2 j - (y s).1 j * (y s).2 i) 0 t := by
  rw [accelCentral_coords, coordsSt.left_inv] at hy
  have h1' := (hasFDerivAt_fst (𝕜 := ℝ) (E := V3) (F := V3) (p := y t)).comp_hasDerivAt t hy
  have h1 : HasDerivAt (fun s => (y s).1) (y t).2 t := h1'
  have h2' := (hasFDerivAt_snd (𝕜 := ℝ) (E := V3) (F := V3) (p := y t)).comp_hasDerivAt t hy
  have h2 : HasDerivAt (fun s => (y s).2) ((-(mu / ‖(y t).1‖ ^ 3)) • (y t).1) t := h2'
  have h := angular_momentum_hasDerivAt_zero (-(mu / ‖(y t).1‖ ^ 3)) (fun s => (y s).1) (fun s => (y s).2) t
    (EuclideanSpace.single i (1 : ℝ)) (EuclideanSpace.single j (1 : ℝ)) h1 h2
  simpa [EuclideanSpace.inner_single_right] using h

/-! ## Non-vacuity: the hypotheses above are met by concrete, non-trivial values -/

/-- Gronwall: `e k = 2^k − 1` obeys `e (k+1) ≤ (1 + 1·1) e k + 1·1²` -/
example : ((2 : ℝ) ^ 3 - 1) ≤ Real.exp (1 * ((3 : ℕ) * 1)) * 0 + 1 * 1 ^ 1 * (Real.exp (1 * ((3 : ℕ) * 1)) - 1) / 1 := by
  have := discrete_gronwall 1 1 1 1 one_pos one_pos zero_le_one (fun k => (2 : ℝ) ^ k - 1) 3 (by norm_num)
    (fun k _ => by simp only [pow_succ]; linarith)
  simpa using this

/-- Euler on `y' = y`, `y = exp`, one step of 1/2 from 0: every hypothesis of `euler_global_error` holds -/
example : ‖Real.exp (0 + (1 : ℕ) * (1 / 2)) - coordsReal.ofL (rkOnce (coordsReal.lift fun _ x => x) butcher_euler 0 [1] (1 / 2))‖
    ≤ Real.exp 1 / 2 * (1 / 2) * (Real.exp (1 * ((1 : ℕ) * (1 / 2))) - 1) := by
  have := euler_global_error coordsReal (fun x => x) {x | |x| ≤ Real.exp 1} 1 (Real.exp 1) one_pos (Real.exp_pos 1).le
    (fun x hx => hx) (fun x _ x' _ => by simp) Real.exp 0 (1 / 2) 1 (by norm_num)
    (fun s _ => Real.hasDerivAt_exp s)
    (fun s hs => by
      show |Real.exp s| ≤ Real.exp 1
      rw [Real.abs_exp]; apply Real.exp_le_exp.2; have := hs.2; norm_num at this; linarith)
    (fun k => if k = 0 then [1] else rkOnce (coordsReal.lift fun _ x => x) butcher_euler 0 [1] (1 / 2))
    (by simp [coordsReal]) (fun k hk => by interval_cases k; simp) (fun k hk => by
      interval_cases k
      show |coordsReal.ofL [1]| ≤ Real.exp 1
      simp only [coordsReal, List.getD_cons_zero, abs_one]
      linarith [Real.add_one_le_exp 1])
  simpa using this

/-- the unit circular orbit (µ = 1): `r = (cos s, sin s, 0)`, `v = (−sin s, cos s, 0)` -/
def circ (s : ℝ) : St :=
  (Real.cos s • EuclideanSpace.single (0 : Fin 3) (1 : ℝ) + Real.sin s • EuclideanSpace.single (1 : Fin 3) (1 : ℝ),
   (-Real.sin s) • EuclideanSpace.single (0 : Fin 3) (1 : ℝ) + Real.cos s • EuclideanSpace.single (1 : Fin 3) (1 : ℝ))

theorem circ_norms (s : ℝ) : ‖(circ s).1‖ = 1 ∧ ‖(circ s).2‖ = 1 := by
  have h10 : (1 : Fin 3) ≠ 0 := by decide
  have h01 : (0 : Fin 3) ≠ 1 := by decide
  have h20 : (2 : Fin 3) ≠ 0 := by decide
  have h21 : (2 : Fin 3) ≠ 1 := by decide
  constructor
  · rw [norm_V3]
    simp only [circ, PiLp.add_apply, PiLp.smul_apply, PiLp.single_apply, smul_eq_mul, h10, h01, h20, h21, if_true, if_false,
      mul_one, mul_zero, add_zero, zero_add]
    rw [show Real.cos s ^ 2 + Real.sin s ^ 2 + 0 ^ 2 = 1 by nlinarith [Real.cos_sq_add_sin_sq s], Real.sqrt_one]
  · rw [norm_V3]
    simp only [circ, PiLp.add_apply, PiLp.smul_apply, PiLp.single_apply, smul_eq_mul, h10, h01, h20, h21, if_true, if_false,
      mul_one, mul_zero, add_zero, zero_add]
    rw [show (-Real.sin s) ^ 2 + Real.cos s ^ 2 + 0 ^ 2 = 1 by nlinarith [Real.cos_sq_add_sin_sq s], Real.sqrt_one]

/-- **the circular orbit solves the MODELLED equation of motion** (`_accel` regenerated from the source, central body at the
origin, µ = 1): the hypothesis `hy` of `euler_two_body_converges`, `energy_first_integral`, … is satisfiable -/
theorem circ_solves (s : ℝ) : HasDerivAt circ (coordsSt.ofL (accelCentral 1 (coordsSt.toL (circ s)))) s := by
  rw [accelCentral_coords, coordsSt.left_inv]
  have hg : grav 1 (circ s).1 = (-Real.cos s) • EuclideanSpace.single (0 : Fin 3) (1 : ℝ)
      + (-Real.sin s) • EuclideanSpace.single (1 : Fin 3) (1 : ℝ) := by
    rw [grav, (circ_norms s).1]
    simp only [circ]
    module
  have h1 : HasDerivAt (fun s => (circ s).1) (circ s).2 s :=
    ((Real.hasDerivAt_cos s).smul_const _).add ((Real.hasDerivAt_sin s).smul_const _)
  have h2 : HasDerivAt (fun s => (circ s).2) (grav 1 (circ s).1) s := by
    rw [hg]
    exact (((Real.hasDerivAt_sin s).neg).smul_const _).add ((Real.hasDerivAt_cos s).smul_const _)
  exact h1.prodMk h2

/-- every hypothesis of `euler_two_body_converges` holds for one Euler step of 1/10 along the circular orbit
(`r_min = 1/2`, `v_max = 2`) -/
example : ‖circ (0 + (1 : ℕ) * (1 / 10))
      - coordsSt.ofL (rkOnce (fun _ l => accelCentral 1 l) butcher_euler 0 (coordsSt.toL (circ 0)) (1 / 10))‖
    ≤ max 2 (1 / (1 / 2) ^ 2) / 2 * (1 / 10) * (Real.exp (max 1 (2 * 1 / (1 / 2) ^ 3) * ((1 : ℕ) * (1 / 10))) - 1) := by
  have := euler_two_body_converges 1 (1 / 2) 2 zero_le_one (by norm_num) (by norm_num) circ 0 (1 / 10) 1 (by norm_num)
    (fun s _ => circ_solves s)
    (fun s _ => by rw [(circ_norms s).1, (circ_norms s).2]; norm_num)
    (fun k => if k = 0 then coordsSt.toL (circ 0)
      else rkOnce (fun _ l => accelCentral 1 l) butcher_euler 0 (coordsSt.toL (circ 0)) (1 / 10))
    (by simp) (fun k hk => by interval_cases k; simp)
    (fun k hk => by
      interval_cases k
      simp only [if_true, coordsSt.left_inv]
      rw [(circ_norms 0).1, (circ_norms 0).2]; norm_num)
  simpa using this

/-- energy and angular momentum are constant on the circular orbit BY the first-integral theorems -/
example (s : ℝ) : HasDerivAt (fun t => ‖(circ t).2‖ ^ 2 / 2 - 1 / ‖(circ t).1‖) 0 s :=
  energy_first_integral 1 circ s (circ_solves s) (by
    intro h; have := (circ_norms s).1; rw [h, norm_zero] at this; norm_num at this)
example (s : ℝ) : HasDerivAt (fun t => (circ t).1 0 * (circ t).2 1 - (circ t).1 1 * (circ t).2 0) 0 s :=
  angular_momentum_first_integral 1 circ s (circ_solves s) 0 1

/-- RK4, linear test equation `y' = −y`, two steps of 1/2: the hypotheses of `rk4_linear_converges_order4` hold -/
example : ∃ u : ℕ → List ℝ, u 0 = [1] ∧
    (∀ k < 2, u (k + 1) = rkOnce (fun _ l => KN.smul (-1) l) butcher_rk4 (0 + k * (1 / 2)) (u k) (1 / 2)) ∧
    (1 / 2 : ℝ) * |(-1 : ℝ)| ≤ 1 := by
  refine ⟨fun k => Nat.rec [1] (fun k uk => rkOnce (fun _ l => KN.smul (-1) l) butcher_rk4 (0 + k * (1 / 2)) uk (1 / 2)) k,
    rfl, fun k _ => rfl, by norm_num⟩

/-- `rk4_converges`: `y' = sin y` is globally 1-Lipschitz and bounded by 1 -/
example : (∀ a b : ℝ, ‖Real.sin a - Real.sin b‖ ≤ 1 * ‖a - b‖) ∧ ∀ a : ℝ, ‖Real.sin a‖ ≤ 1 :=
  ⟨fun a b => by simpa [Real.norm_eq_abs] using Real.abs_sin_sub_sin_le a b, fun a => Real.abs_sin_le_one a⟩

/-- the hypothesis `hloc` of `rk4_global_error_partial` is satisfiable with a non-zero field: for `F(t, x) = 1` the RK4 step
is exact (`C = 0`) -/
example (t x h : ℝ) : rk4 (fun _ _ => (1 : ℝ)) t x h = x + h := by
  simp only [rk4, smul_eq_mul]; ring

end BeyondVerif.C06
