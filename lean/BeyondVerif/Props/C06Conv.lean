import BeyondVerif.Props.C06
import BeyondVerif.Lemmas.Gronwall
import BeyondVerif.Lemmas.OneStep
import BeyondVerif.Lemmas.Gravity
import Mathlib.Analysis.InnerProductSpace.PiL2
import Mathlib.Analysis.Complex.Exponential

/-!
# C06 — convergence of the modelled propagator (headline clause of the property)

"The numerical propagator's result converges to the analytical two-body solution as the step is reduced, at the order of the
chosen integrator (Euler 1, RK4 4), and the adaptive methods stay within a small multiple of their tolerance per step; energy
and angular momentum …".

Objects: the model's generic step `KN.rkOnce` on the tableaux REGENERATED from keplernum.py, the regenerated attraction
`KN.bodyAccel` (through `KN.accelCentral`), the regenerated step-size update `KN.stepScale`, `KN.maxIter`.
The analysis (Lemmas/Gronwall, OneStep, Gravity) lives in normed spaces; `Coords` carries it to the model's `List ℝ` states.

* Euler: local truncation error, Lipschitz constant of the step, global error `≤ (B h / 2)(e^{L T} − 1)` — fully proved,
  with explicit constants for the two-body field on `‖r‖ ≥ r_min`, `‖v‖ ≤ v_max`.
* RK4: the model's step with the regenerated tableau is the classical map; it is `(1+z+z²/2+z³/6+z⁴/24)`-Lipschitz; the global
  error is `O(h⁴)` GIVEN a local error `≤ C h⁵` (`_partial`: the Taylor expansion of the exact solution against the elementary
  differentials of the 8 trees is not formalised); for linear systems the step is the degree-4 Taylor polynomial of `exp(hA)`, and
  on the scalar test equation the whole chain (local error by the exp remainder ⇒ global order 4) is proved.
* the field: gradient of `µ/‖r‖`, first integrals along solutions of the modelled equation.
* the adaptive controller: a rejected step contracts by at least `2^{-1/(s−1)}`; the loop ends within the fuel when the estimate is
  below the tolerance for all small steps (`O(h^{q+1})` estimate).
-/
noncomputable section
namespace BeyondVerif.C06
open BeyondVerif.R BeyondVerif.R.KN BeyondVerif.NumReal BeyondVerif.Gronwall BeyondVerif.OneStep BeyondVerif.Gravity Set

/-! ## Coordinates: a normed space seen as the model's `List ℝ` states -/

/-- linear coordinates `E → List ℝ` compatible with the model's `vadd` / `smul` -/
structure Coords (E : Type*) [AddCommGroup E] [Module ℝ E] where
  toL : E → List ℝ
  ofL : List ℝ → E
  left_inv : ∀ x, ofL (toL x) = x
  add : ∀ a b, vadd (toL a) (toL b) = toL (a + b)
  smul : ∀ (s : ℝ) a, KN.smul s (toL a) = toL (s • a)

variable {E : Type*} [NormedAddCommGroup E] [NormedSpace ℝ E]

/-- a vector field on `E` as a right-hand side of the model (`f t y` on lists) -/
def Coords.lift (c : Coords E) (F : ℝ → E → E) : ℝ → List ℝ → List ℝ := fun t l => c.toL (F t (c.ofL l))

/-- **the model's step with the regenerated Euler tableau is `x ↦ x + h F(t, x)`** -/
theorem rkOnce_euler_coords (c : Coords E) (F : ℝ → E → E) (t : ℝ) (x : E) (h : ℝ) :
    rkOnce (c.lift F) butcher_euler t (c.toL x) h = c.toL (x + h • F t x) := by
  simp only [rkOnce, rkKs, rkStages, rkCombine, lincomb, butcher_euler, List.drop, List.map, Coords.lift, c.left_inv,
    c.smul, c.add, mul_one]

/-- **the model's step with the regenerated RK4 tableau is the classical Runge–Kutta map** `OneStep.rk4` -/
theorem rkOnce_rk4_coords (c : Coords E) (F : ℝ → E → E) (t : ℝ) (x : E) (h : ℝ) :
    rkOnce (c.lift F) butcher_rk4 t (c.toL x) h = c.toL (rk4 F t x h) := by
  have e1 : t + 1 / 2 * h = t + h / 2 := by ring
  have e2 : t + 1 * h = t + h := by ring
  have a1 : ∀ k : E, x + h • ((1 / 2 : ℝ) • k) = x + (h / 2) • k := fun k => by module
  have a2 : ∀ k k' : E, x + h • ((0 : ℝ) • k + (1 / 2 : ℝ) • k') = x + (h / 2) • k' := fun k k' => by module
  have a3 : ∀ k k' k'' : E, x + h • ((0 : ℝ) • k + ((0 : ℝ) • k' + (1 : ℝ) • k'')) = x + h • k'' := fun k k' k'' => by module
  simp only [rkOnce, rkKs, rkStages, rkCombine, lincomb, butcher_rk4, List.drop, List.map, Coords.lift, c.left_inv,
    c.smul, c.add, List.cons_append, List.nil_append, e1, e2, a1, a2, a3]
  congr 1
  simp only [rk4]
  module

/-- `ℝ` as a one-component state -/
def coordsReal : Coords ℝ where
  toL x := [x]
  ofL l := l.getD 0 0
  left_inv x := by simp
  add a b := by simp [vadd]
  smul s a := by simp [KN.smul]

abbrev V3 := EuclideanSpace ℝ (Fin 3)
/-- position × velocity with the sup norm of the two Euclidean norms -/
abbrev St := V3 × V3

/-- the model's state `[x, y, z, vx, vy, vz]` -/
def coordsSt : Coords St where
  toL s := [s.1 0, s.1 1, s.1 2, s.2 0, s.2 1, s.2 2]
  ofL l := (!₂[l.getD 0 0, l.getD 1 0, l.getD 2 0], !₂[l.getD 3 0, l.getD 4 0, l.getD 5 0])
  left_inv s := by
    ext i <;> fin_cases i <;> simp
  add a b := by simp [vadd]
  smul s a := by simp [KN.smul]

theorem norm_V3 (r : V3) : ‖r‖ = Real.sqrt (r 0 ^ 2 + r 1 ^ 2 + r 2 ^ 2) := by
  rw [EuclideanSpace.norm_eq, Fin.sum_univ_three]
  simp only [Real.norm_eq_abs, sq_abs]

/-- **the regenerated attraction of a central body at the origin (`_accel` with `bodies = [central]`) is the two-body
right-hand side** `(r, v) ↦ (v, −µ r/‖r‖³)` in the model's coordinates -/
theorem accelCentral_coords (mu : ℝ) (s : St) : accelCentral mu (coordsSt.toL s) = coordsSt.toL (twoBody mu s) := by
  have hn : Real.sqrt ((0 - s.1 0) * (0 - s.1 0) + ((0 - s.1 1) * (0 - s.1 1) + ((0 - s.1 2) * (0 - s.1 2) + 0))) = ‖s.1‖ := by
    rw [norm_V3]; congr 1; ring
  simp only [accelCentral, accel, coordsSt, accelKin, List.drop, List.foldl, accel_newton, hn, vadd, twoBody, grav,
    List.cons_append, List.nil_append, PiLp.smul_apply, smul_eq_mul, List.cons.injEq, true_and, and_true]
  refine ⟨?_, ?_, ?_⟩ <;> ring

/-! ## Euler: local truncation error, global error, order 1 -/

/-- **local truncation error of the modelled Euler step** started on an exact solution `y' = F(t, y)`:
`‖y(t+h) − step‖ ≤ (h²/2) sup ‖y''‖` — Taylor's formula with first-order remainder, for the model's generic step on the
regenerated tableau -/
theorem euler_local_truncation (c : Coords E) (F : ℝ → E → E) (y y'' : ℝ → E) (t h M : ℝ) (hh : 0 ≤ h)
    (hy : ∀ s ∈ Icc t (t + h), HasDerivAt y (F s (y s)) s)
    (hy' : ∀ s ∈ Icc t (t + h), HasDerivAt (fun s => F s (y s)) (y'' s) s) (hM : ∀ s ∈ Icc t (t + h), ‖y'' s‖ ≤ M) :
    ‖y (t + h) - c.ofL (rkOnce (c.lift F) butcher_euler t (c.toL (y t)) h)‖ ≤ M * h ^ 2 / 2 := by
  rw [rkOnce_euler_coords, c.left_inv]
  exact euler_local_error_C2 y (fun s => F s (y s)) y'' t h M hh hy hy' hM

/-- the states of a run of the model stay in the range of the coordinates -/
theorem run_in_range (c : Coords E) (step : ℕ → E → E) (u : ℕ → List ℝ) (x0 : E) (n : ℕ) (hu0 : u 0 = c.toL x0)
    (hu : ∀ k < n, ∀ x, u k = c.toL x → u (k + 1) = c.toL (step k x)) :
    ∀ k ≤ n, u k = c.toL (c.ofL (u k)) := by
  intro k
  induction k with
  | zero => intro _; rw [hu0, c.left_inv]
  | succ m ih =>
    intro hm
    have := hu m (Nat.lt_of_succ_le hm) _ (ih (Nat.le_of_succ_le hm))
    rw [this, c.left_inv]

/-- **global error of the modelled Euler method, general (non-autonomous) form.**  Along an exact solution whose
derivative `s ↦ F(s, y s)` changes at rate at most `M` within every step, and with `F(t_k, ·)` not separating the exact
from the numerical state by more than the factor `L`, `n` steps of size `h` of the model's generic step on the regenerated
Euler tableau end within `(M/2) h (e^{L T} − 1)/L` of the exact solution, `T = n h`: **first order**. -/
theorem euler_global_error_general (c : Coords E) (F : ℝ → E → E) (L M : ℝ) (hL : 0 < L) (hM : 0 ≤ M)
    (y : ℝ → E) (t0 h : ℝ) (n : ℕ) (hh : 0 < h)
    (hy : ∀ s ∈ Icc t0 (t0 + n * h), HasDerivAt y (F s (y s)) s)
    (hrate : ∀ k < n, ∀ s ∈ Icc (t0 + k * h) (t0 + k * h + h),
      ‖F s (y s) - F (t0 + k * h) (y (t0 + k * h))‖ ≤ M * (s - (t0 + k * h)))
    (u : ℕ → List ℝ) (hu0 : u 0 = c.toL (y t0))
    (hu : ∀ k < n, u (k + 1) = rkOnce (c.lift F) butcher_euler (t0 + k * h) (u k) h)
    (hlip : ∀ k < n, ‖F (t0 + k * h) (y (t0 + k * h)) - F (t0 + k * h) (c.ofL (u k))‖
      ≤ L * ‖y (t0 + k * h) - c.ofL (u k)‖) :
    ‖y (t0 + n * h) - c.ofL (u n)‖ ≤ M / 2 * h ^ 1 * (Real.exp (L * (n * h)) - 1) / L := by
  have hrange := run_in_range c (fun k x => x + h • F (t0 + k * h) x) u (y t0) n hu0
    (fun k hk x hx => by rw [hu k hk, hx, rkOnce_euler_coords])
  have hsub : ∀ k < n, Icc (t0 + k * h) (t0 + k * h + h) ⊆ Icc t0 (t0 + n * h) := by
    intro k hk s hs
    have hk' : (k : ℝ) + 1 ≤ n := by exact_mod_cast hk
    have h1 : 0 ≤ (k : ℝ) * h := by positivity
    constructor
    · linarith [hs.1]
    · nlinarith [hs.2]
  have key := one_step_convergence (fun k x => x + h • F (t0 + k * h) x) (fun k => y (t0 + k * h)) (fun k => c.ofL (u k))
    L h (M / 2) 1 n hL hh (by positivity) (by simp [hu0, c.left_inv]) ?_ ?_ ?_
  · exact key
  · intro k hk
    show c.ofL (u (k + 1)) = c.ofL (u k) + h • F (t0 + k * h) (c.ofL (u k))
    rw [hu k hk, hrange k hk.le, rkOnce_euler_coords, c.left_inv, c.left_inv]
  · intro k hk
    have e : t0 + ((k + 1 : ℕ) : ℝ) * h = t0 + k * h + h := by push_cast; ring
    show ‖y (t0 + ((k + 1 : ℕ) : ℝ) * h) - (y (t0 + k * h) + h • F (t0 + k * h) (y (t0 + k * h)))‖ ≤ M / 2 * h ^ (1 + 1)
    rw [e]
    have := taylor1_remainder y (fun s => F s (y s)) (t0 + k * h) h M hh.le
      (fun s hs => hy s (hsub k hk hs)) (hrate k hk)
    calc _ ≤ M * h ^ 2 / 2 := this
      _ = M / 2 * h ^ (1 + 1) := by ring
  · intro k hk
    exact euler_step_lipschitz (F (t0 + k * h)) L h hh.le _ _ (hlip k hk)

/-- **global error of the modelled Euler method for an autonomous field with explicit constants.**  `F` bounded by `B` and
`L`-Lipschitz on a set `K` that contains the exact solution over the span and the numerical states:
`‖y(t₀ + n h) − u_n‖ ≤ (B h / 2)(e^{L n h} − 1)`. -/
theorem euler_global_error (c : Coords E) (F : E → E) (K : Set E) (L B : ℝ) (hL : 0 < L) (hB0 : 0 ≤ B)
    (hB : ∀ x ∈ K, ‖F x‖ ≤ B) (hLip : ∀ x ∈ K, ∀ x' ∈ K, ‖F x - F x'‖ ≤ L * ‖x - x'‖)
    (y : ℝ → E) (t0 h : ℝ) (n : ℕ) (hh : 0 < h)
    (hy : ∀ s ∈ Icc t0 (t0 + n * h), HasDerivAt y (F (y s)) s) (hyK : ∀ s ∈ Icc t0 (t0 + n * h), y s ∈ K)
    (u : ℕ → List ℝ) (hu0 : u 0 = c.toL (y t0))
    (hu : ∀ k < n, u (k + 1) = rkOnce (c.lift (fun _ => F)) butcher_euler (t0 + k * h) (u k) h)
    (huK : ∀ k < n, c.ofL (u k) ∈ K) :
    ‖y (t0 + n * h) - c.ofL (u n)‖ ≤ B / 2 * h * (Real.exp (L * (n * h)) - 1) := by
  have hsub : ∀ k < n, Icc (t0 + k * h) (t0 + k * h + h) ⊆ Icc t0 (t0 + n * h) := by
    intro k hk s hs
    have hk' : (k : ℝ) + 1 ≤ n := by exact_mod_cast hk
    have h1 : 0 ≤ (k : ℝ) * h := by positivity
    constructor
    · linarith [hs.1]
    · nlinarith [hs.2]
  have key := euler_global_error_general c (fun _ => F) L (L * B) hL (by positivity) y t0 h n hh hy ?_ u hu0 hu ?_
  · calc _ ≤ L * B / 2 * h ^ 1 * (Real.exp (L * (n * h)) - 1) / L := key
      _ = B / 2 * h * (Real.exp (L * (n * h)) - 1) := by field_simp
  · intro k hk s hs
    have hleft : t0 + k * h ∈ Icc (t0 + k * h) (t0 + k * h + h) := left_mem_Icc.2 (by linarith)
    have hmove : ∀ s ∈ Icc (t0 + k * h) (t0 + k * h + h), ‖y s - y (t0 + k * h)‖ ≤ B * (s - (t0 + k * h)) :=
      norm_image_sub_le_of_norm_deriv_right_le_segment
        (fun s hs => (hy s (hsub k hk hs)).continuousAt.continuousWithinAt)
        (fun s hs => (hy s (hsub k hk (Ico_subset_Icc_self hs))).hasDerivWithinAt)
        (fun s hs => hB _ (hyK s (hsub k hk (Ico_subset_Icc_self hs))))
    calc ‖F (y s) - F (y (t0 + k * h))‖ ≤ L * ‖y s - y (t0 + k * h)‖ :=
          hLip _ (hyK s (hsub k hk hs)) _ (hyK _ (hsub k hk hleft))
      _ ≤ L * (B * (s - (t0 + k * h))) := mul_le_mul_of_nonneg_left (hmove s hs) hL.le
      _ = L * B * (s - (t0 + k * h)) := by ring
  · intro k hk
    have hleft : t0 + k * h ∈ Icc (t0 + k * h) (t0 + k * h + h) := left_mem_Icc.2 (by linarith)
    exact hLip _ (hyK _ (hsub k hk hleft)) _ (huK k hk)

/-- **Euler on the modelled two-body field converges at first order, explicit constants.**  `accelCentral µ` is the
regenerated `_accel` with the central body at the origin.  While the exact orbit and the numerical states keep
`‖r‖ ≥ r_min` and `‖v‖ ≤ v_max` (a bound orbit with perigee above the surface: `r_min` = any radius below perigee),
`‖(r, v)(t₀ + n h) − (r, v)_n‖ ≤ (h/2) max(v_max, µ/r_min²) (e^{L n h} − 1)` with `L = max(1, 2µ/r_min³)`
(sup norm of the Euclidean norms of position and velocity). -/
theorem euler_two_body_converges (mu rmin vmax : ℝ) (hmu : 0 ≤ mu) (hr : 0 < rmin) (hv : 0 ≤ vmax)
    (y : ℝ → St) (t0 h : ℝ) (n : ℕ) (hh : 0 < h)
    (hy : ∀ s ∈ Icc t0 (t0 + n * h), HasDerivAt y (coordsSt.ofL (accelCentral mu (coordsSt.toL (y s)))) s)
    (hyK : ∀ s ∈ Icc t0 (t0 + n * h), rmin ≤ ‖(y s).1‖ ∧ ‖(y s).2‖ ≤ vmax)
    (u : ℕ → List ℝ) (hu0 : u 0 = coordsSt.toL (y t0))
    (hu : ∀ k < n, u (k + 1) = rkOnce (fun _ l => accelCentral mu l) butcher_euler (t0 + k * h) (u k) h)
    (huK : ∀ k < n, rmin ≤ ‖(coordsSt.ofL (u k)).1‖ ∧ ‖(coordsSt.ofL (u k)).2‖ ≤ vmax) :
    ‖y (t0 + n * h) - coordsSt.ofL (u n)‖
      ≤ max vmax (mu / rmin ^ 2) / 2 * h * (Real.exp (max 1 (2 * mu / rmin ^ 3) * (n * h)) - 1) := by
  -- on the range of the coordinates the model's field is the lifted two-body field
  have hrange := run_in_range coordsSt (fun _ x => x + h • twoBody mu x) u (y t0) n hu0
    (fun k hk x hx => by
      rw [hu k hk, hx]
      have : rkOnce (fun _ l => accelCentral mu l) butcher_euler (t0 + k * h) (coordsSt.toL x) h
          = rkOnce (coordsSt.lift (fun _ => twoBody mu)) butcher_euler (t0 + k * h) (coordsSt.toL x) h := by
        simp only [rkOnce, rkKs, rkStages, rkCombine, lincomb, butcher_euler, List.drop, List.map, Coords.lift,
          coordsSt.left_inv, accelCentral_coords]
      rw [this, rkOnce_euler_coords])
  refine euler_global_error coordsSt (twoBody mu) {s | rmin ≤ ‖s.1‖ ∧ ‖s.2‖ ≤ vmax} _ _
    (lt_of_lt_of_le one_pos (le_max_left _ _)) (le_trans hv (le_max_left _ _))
    (fun x hx => twoBody_bound mu rmin vmax hmu hr x hx.1 hx.2)
    (fun x hx x' hx' => twoBody_lipschitz mu rmin hmu hr x x' hx.1 hx'.1)
    y t0 h n hh (fun s hs => by simpa [accelCentral_coords, coordsSt.left_inv] using hy s hs) hyK u hu0 ?_ huK
  intro k hk
  rw [hu k hk, hrange k hk.le]
  simp only [rkOnce, rkKs, rkStages, rkCombine, lincomb, butcher_euler, List.drop, List.map, Coords.lift,
    coordsSt.left_inv, accelCentral_coords]

end BeyondVerif.C06
