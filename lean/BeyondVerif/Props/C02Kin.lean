import BeyondVerif.Props.C02
import BeyondVerif.Lemmas.Kinematics
import BeyondVerif.Lemmas.LofRate
import BeyondVerif.Lemmas.EarthRate

/-!
# C02 — kinematics: "the converted velocity equals the time derivative of the converted position"

* `velocity_is_derivative_general`: for ANY differentiable path of matrices `R(s)` whose derivative is `[w]× R` (angular velocity `w`)
  and any differentiable `r(s)`: `d/ds (R r) = R r' + w × R r`, which is the velocity block of `expand(R, −w)` — the pair `(m, rate)` a
  provider has to return is `(R, −w)`; `angular_velocity_exists`: along a path of rotations such a `w` always exists;
* `earth_rotation_edges_kinematic`: the instance for PEF→TOD and TIRF→CIRF (`R = rot3(−θ)`, `w = (0, 0, θ')`);
* `earth_rate_consistent`, `era_rate_consistent`: the constant of `rate()` against d(GMST)/dt and d(ERA)/dt of the translated formulas,
  LOD factor included; `rate_mismatch_defect`: what a mismatch between the two costs in velocity;
* `slow_edge_omitted`: for a provider that returns `(m, None)` although `m` moves (precession, nutation, CIO matrix) the omitted
  velocity term is `R' r`, bounded by `k |r|` for every bound `k` of the angular rate; `precession_omitted_bound`: `k ≤ 1.02e-11 rad/s`
  for `MOD_to_EME2000` on |T| ≤ 0.5 century (regenerated polynomial);
* `lof_velocity_defect`, `lof_velocity_iff`, `lof_rate_planar`, `lof_rate_twobody`: orbit-attached QSW / TNW frames — the code hands no
  rate to `expand`; the converted velocity differs from the derivative of the converted position by exactly `ω × ρ`, `ω = lofRate`
  (findings C02-lof-no-rate-qsw / -tnw, quantified).
-/
namespace BeyondVerif.C02
open BeyondVerif.R BeyondVerif.NumReal

/-! ## the general statement -/

/-- **General kinematic statement.**  `R(s)` any matrix path with entrywise derivative `R'` at `t`, `R' = [w]× R(t)` (angular velocity
`w` of the target axes, expressed in the target), `r(s)` any differentiable position with derivative `r'`: every component of
`s ↦ R(s) r(s)` has as derivative the velocity block of `expand(R(t), −w)` applied to `(r, r')`, i.e. `R r' + w × R r`. -/
theorem velocity_is_derivative_general (R : ℝ → M3) (R' : M3) (r : ℝ → V3) (r' w : V3) (t : ℝ)
    (hR : M3.DerivAt R R' t) (hr : V3.DerivAt r r' t) (hw : R' = M3.mul (M3.skew w) (R t)) :
    V3.DerivAt (fun s => (R s).apply (r s)) ((expand (R t) (some w.neg)).apply (r t) r').2 t ∧
    ((expand (R t) (some w.neg)).apply (r t) r').2 = V3.add ((R t).apply r') (V3.cross w ((R t).apply (r t))) := by
  have e : ((expand (R t) (some w.neg)).apply (r t) r').2 = V3.add ((R t).apply r') (V3.cross w ((R t).apply (r t))) := by
    rw [expand_apply]
    ext <;> simp only [V3.sub, V3.add, V3.cross, V3.neg] <;> ring
  refine ⟨(hR.apply hr).congr ?_, e⟩
  rw [e, hw, M3.apply_mul, M3.skew_apply]

/-- **along a path of rotations the angular velocity exists**: `R' = [w]× R` with `w = vee (R' Rᵀ)` — so the general statement applies
to every differentiable path of proper rotations -/
theorem angular_velocity_exists (R : ℝ → M3) (R' : M3) (t : ℝ) (hrot : ∀ s, M3.IsRotation (R s)) (hR : M3.DerivAt R R' t) :
    ∃ w : V3, R' = M3.mul (M3.skew w) (R t) :=
  ⟨_, skew_of_rotation_path R R' t hrot hR⟩

/-- a uniformly turning frame: θ(s) = 7.29e-5 s, a point moving on a line -/
example : ∃ w : V3, V3.DerivAt (fun s => (rot3 (-(7.29e-5 * s))).apply ⟨7e6 + 10 * s, 0, 0⟩)
    ((expand (rot3 (-(7.29e-5 * 2))) (some w.neg)).apply ⟨7e6 + 10 * 2, 0, 0⟩ ⟨10, 0, 0⟩).2 2 := by
  have hα : HasDerivAt (fun s : ℝ => -(7.29e-5 * s)) (-(7.29e-5)) 2 := by
    have h := (hasDerivAt_id (2 : ℝ)).const_mul (-(7.29e-5 : ℝ))
    have e : (fun s : ℝ => -(7.29e-5 * s)) = fun y => -(7.29e-5) * id y := by funext y; simp
    rw [e]
    exact h.congr_deriv (by ring)
  have hR := rot3_derivAt _ _ _ hα
  obtain ⟨w, hw⟩ := angular_velocity_exists _ _ 2 (fun s => rot3_isRotation _) hR
  have hr : V3.DerivAt (fun s : ℝ => (⟨7e6 + 10 * s, 0, 0⟩ : V3)) ⟨10, 0, 0⟩ 2 :=
    ⟨by simpa using ((hasDerivAt_id (2 : ℝ)).const_mul (10 : ℝ)).const_add (7e6 : ℝ), hasDerivAt_const _ _, hasDerivAt_const _ _⟩
  exact ⟨w, (velocity_is_derivative_general _ _ _ _ w 2 hR hr hw).1⟩

/-! ## the two Earth-rotation edges -/

/-- `R(s) = rot3(−θ(s))` turns with the angular velocity `(0, 0, θ')` -/
theorem rot3_neg_angular_velocity (θ : ℝ → ℝ) (θ' t : ℝ) (hθ : HasDerivAt θ θ' t) :
    M3.DerivAt (fun s => rot3 (-(θ s))) (M3.mul (M3.skew ⟨0, 0, θ'⟩) (rot3 (-(θ t)))) t := by
  refine (rot3_derivAt (fun s => -(θ s)) (-θ') t hθ.neg).congr ?_
  ext <;> simp only [M3.smul, drot3, M3.mul, M3.skew, rot3, sin, cos] <;> ring

/-- **PEF→TOD and TIRF→CIRF**: with `θ` the sidereal angle / Earth rotation angle, the general statement gives the pair
`(rot3(−θ), (0, 0, −θ'))` — the `(m, −rate(date))` these two providers return (`earth_rotation_rate`), sign included. -/
theorem earth_rotation_edges_kinematic (θ : ℝ → ℝ) (θ' t : ℝ) (hθ : HasDerivAt θ θ' t) (r : ℝ → V3) (r' : V3)
    (hr : V3.DerivAt r r' t) :
    V3.DerivAt (fun s => (rot3 (-(θ s))).apply (r s)) ((expand (rot3 (-(θ t))) (some ⟨-0, -0, -θ'⟩)).apply (r t) r').2 t :=
  (velocity_is_derivative_general _ _ r r' ⟨0, 0, θ'⟩ t (rot3_neg_angular_velocity θ θ' t hθ) hr rfl).1

/-- a sidereal angle advancing uniformly, a point at rest on the equator -/
example : V3.DerivAt (fun s : ℝ => (rot3 (-(1.75 + 7.29e-5 * s))).apply ⟨6.378e6, 0, 0⟩)
    ((expand (rot3 (-(1.75 + 7.29e-5 * 0))) (some ⟨-0, -0, -7.29e-5⟩)).apply ⟨6.378e6, 0, 0⟩ ⟨0, 0, 0⟩).2 0 := by
  have hθ : HasDerivAt (fun s : ℝ => 1.75 + 7.29e-5 * s) 7.29e-5 0 := by
    have h := ((hasDerivAt_id (0 : ℝ)).const_mul (7.29e-5 : ℝ)).const_add (1.75 : ℝ)
    exact h.congr_deriv (by ring)
  exact earth_rotation_edges_kinematic _ _ 0 hθ (fun _ => ⟨6.378e6, 0, 0⟩) ⟨0, 0, 0⟩ (V3.DerivAt.const _ 0)

/-- **`earth_rate_consistent` (mean sidereal time).**  `T(s)` = UT1 in Julian centuries advancing by `(1 − LOD/86400 s)/(36525·86400)`
per second (`lod` in ms, as `date.eop.lod`), |T| ≤ 0.5 century, LOD below a day: the angle `GMST(T(s))` of the translated polynomial
has a derivative θ' and `θ' − rate80(lod).z` lies between 7.0e-12 and 7.2e-12 rad/s times the LOD factor.  The constant in `rate()` is
the rotation rate with respect to the stars; GMST is counted from the precessing mean equinox — the difference (the precession in right
ascension, 7.1e-12 rad/s = 5e-5 m/s at 7000 km) is what the velocity of PEF→TOD leaves out. -/
theorem earth_rate_consistent (T : ℝ → ℝ) (t lod : ℝ) (hT : HasDerivAt T ((1 - lod / 1000.0 / 86400.0) / (36525 * 86400)) t)
    (hT5 : |T t| ≤ 0.5) (hlod : 0 < 1 - lod / 1000.0 / 86400.0) :
    ∃ θ', HasDerivAt (fun s => deg2rad (gmstDeg80 (T s))) θ' t ∧
      7.0e-12 * (1 - lod / 1000.0 / 86400.0) < θ' - (vecOf (rate80 lod)).z ∧
      θ' - (vecOf (rate80 lod)).z < 7.2e-12 * (1 - lod / 1000.0 / 86400.0) := by
  refine ⟨_, gmst_hasDerivAt T _ t hT, ?_⟩
  obtain ⟨b1, b2⟩ := gmst_rate_bounds (T t) hT5
  generalize deg2rad (((876600 * 3600 + 8640184.812866) + 2 * 0.093104 * T t - 3 * 6.2e-6 * T t ^ 2) / 240) = G at b1 b2
  have hz : (vecOf (rate80 lod)).z = 7.292115146706979e-5 * (1 - lod / 1000.0 / 86400.0) := by
    simp [vecOf, rate80]
  rw [hz]
  generalize (1 - lod / 1000.0 / 86400.0 : ℝ) = k at hlod
  have e : G * (k / (36525 * 86400)) - 7.292115146706979e-5 * k = (G / (36525 * 86400) - 7.292115146706979e-5) * k := by ring
  rw [e]
  exact ⟨mul_lt_mul_of_pos_right b1 hlod, mul_lt_mul_of_pos_right b2 hlod⟩

example : ∃ T : ℝ → ℝ, HasDerivAt T ((1 - 1.5 / 1000.0 / 86400.0) / (36525 * 86400)) 0 ∧ |T 0| ≤ 0.5 ∧
    (0 : ℝ) < 1 - 1.5 / 1000.0 / 86400.0 :=
  ⟨fun s => 0.04 + (1 - 1.5 / 1000.0 / 86400.0) / (36525 * 86400) * s,
    by simpa using ((hasDerivAt_id (0 : ℝ)).const_mul ((1 - 1.5 / 1000.0 / 86400.0) / (36525 * 86400) : ℝ)).const_add (0.04 : ℝ),
    by norm_num [abs_le], by norm_num⟩

/-- **`earth_rate_consistent` (Earth rotation angle).**  `jd(s)` = UT1 Julian date advancing by `(1 − LOD/86400 s)/86400` per second:
the angle `ERA(jd(s))` of the translated formula has the derivative `2π · 1.0027378119113546 · (1 − LOD/86400)/86400`, which is
`rate10(lod).z` to 1e-19 rad/s. -/
theorem era_rate_consistent (jd : ℝ → ℝ) (t lod : ℝ) (hj : HasDerivAt jd ((1 - lod / 1000.0 / 86400.0) / 86400) t) :
    ∃ θ', HasDerivAt (fun s => era10 (jd s)) θ' t ∧
      |θ' - (vecOf (rate10 lod)).z| ≤ 1e-19 * |1 - lod / 1000.0 / 86400.0| := by
  refine ⟨_, era_hasDerivAt jd _ t hj, ?_⟩
  have hz : (vecOf (rate10 lod)).z = 7.292115146706979e-5 * (1 - lod / 1000.0 / 86400.0) := by
    simp [vecOf, rate10]
  rw [hz]
  generalize (1 - lod / 1000.0 / 86400.0 : ℝ) = k
  have e : 2 * Real.pi * 1.0027378119113546 * (k / 86400) - 7.292115146706979e-5 * k
      = (2 * Real.pi * 1.0027378119113546 / 86400 - 7.292115146706979e-5) * k := by ring
  rw [e, abs_mul]
  exact mul_le_mul_of_nonneg_right era_rate_bound.le (abs_nonneg k)

example : ∃ jd : ℝ → ℝ, HasDerivAt jd ((1 - 1.5 / 1000.0 / 86400.0) / 86400) 0 :=
  ⟨fun s => 2453000.5 + (1 - 1.5 / 1000.0 / 86400.0) / 86400 * s,
    by simpa using ((hasDerivAt_id (0 : ℝ)).const_mul ((1 - 1.5 / 1000.0 / 86400.0) / 86400 : ℝ)).const_add (2453000.5 : ℝ)⟩

/-- **what a rate mismatch costs**: if the angle advances at `θ'` and the provider hands `(0, 0, −ω)` to `expand`, the converted
velocity misses `(θ' − ω) ẑ × R r`, of norm at most `|θ' − ω| |r|`. -/
theorem rate_mismatch_defect (θ : ℝ → ℝ) (θ' ω t : ℝ) (hθ : HasDerivAt θ θ' t) (r : ℝ → V3) (r' : V3) (hr : V3.DerivAt r r' t) :
    V3.DerivAt (fun s => (rot3 (-(θ s))).apply (r s))
      (V3.add ((expand (rot3 (-(θ t))) (some ⟨-0, -0, -ω⟩)).apply (r t) r').2
        (V3.smul (θ' - ω) (V3.cross ⟨0, 0, 1⟩ ((rot3 (-(θ t))).apply (r t))))) t ∧
    V3.norm (V3.smul (θ' - ω) (V3.cross ⟨0, 0, 1⟩ ((rot3 (-(θ t))).apply (r t)))) ≤ |θ' - ω| * V3.norm (r t) := by
  constructor
  · refine (earth_rotation_edges_kinematic θ θ' t hθ r r' hr).congr ?_
    rw [expand_apply, expand_apply]
    ext <;> simp only [V3.sub, V3.add, V3.cross, V3.smul] <;> ring
  · rw [V3.norm_smul]
    refine mul_le_mul_of_nonneg_left ?_ (abs_nonneg _)
    refine le_trans (V3.norm_cross_le _ _) ?_
    rw [(rot3_isRotation _).norm_apply]
    have h1 : V3.norm ⟨0, 0, 1⟩ = 1 := by simp [V3.norm, V3.dot]
    rw [h1, one_mul]

/-! ## the slow edges: providers that return `(m, None)` although `m` depends on the date -/

/-- **What the code omits for a slow edge.**  For a provider returning `(A(date), None)` with `A` a path of rotations of angular rate
at most `k` (`RotPath`): the derivative of the converted position is what the code returns as converted velocity (`expand(A, None)`:
`A r'`) plus the omitted term `A' r`, of norm at most `k |r|`. -/
theorem slow_edge_omitted (A : ℝ → M3) (A' : M3) (t k : ℝ) (hA : RotPath A A' t k) (r : ℝ → V3) (r' : V3) (hr : V3.DerivAt r r' t) :
    V3.DerivAt (fun s => (A s).apply (r s)) (V3.add ((expand (A t) none).apply (r t) r').2 (A'.apply (r t))) t ∧
    V3.norm (A'.apply (r t)) ≤ k * V3.norm (r t) := by
  refine ⟨(hA.deriv.apply hr).congr ?_, hA.bound _⟩
  rw [expand_apply_none]

/-- the IAU-1976 precession matrix (`iau1980.precesion`, three `rot`s of the translated angles) along a differentiable TT century:
a rotation path whose rate is at most the sum of the absolute rates of the three angles -/
theorem precession_rotPath (T : ℝ → ℝ) (T' t : ℝ) (hT : HasDerivAt T T' t) :
    ∃ P', RotPath (fun s => precession80 (T s)) P' t
      (|deg2rad ((2306.2181 + 2 * 0.30188 * T t + 3 * 0.017998 * T t ^ 2) / 3600) * T'|
        + |-(deg2rad ((2004.3109 - 2 * 0.42665 * T t - 3 * 0.041833 * T t ^ 2) / 3600) * T')|
        + |deg2rad ((2306.2181 + 2 * 1.09468 * T t + 3 * 0.018203 * T t ^ 2) / 3600) * T'|) := by
  obtain ⟨h0, h1, h2⟩ := precAngles_hasDerivAt T T' t hT
  have p0 := rotPath_of_angle rot3 drot3 rot3_isRotation rot3_derivAt drot3_norm_le _ _ t h0
  have p1 := rotPath_of_angle rot2 drot2 rot2_isRotation rot2_derivAt drot2_norm_le _ _ t h1
  have p2 := rotPath_of_angle rot3 drot3 rot3_isRotation rot3_derivAt drot3_norm_le _ _ t h2
  have hp := (p0.mul p1).mul p2
  have hf : (fun s => precession80 (T s)) = fun s => M3.mul (M3.mul (rot3 (deg2rad ((precAngles80 (T s)).getD 0 0)))
      (rot2 (-(deg2rad ((precAngles80 (T s)).getD 1 0))))) (rot3 (deg2rad ((precAngles80 (T s)).getD 2 0))) := by
    funext s
    simp only [precession80, precAngles80, List.getD_cons_zero, List.getD_cons_succ]
  rw [hf]
  exact ⟨_, hp⟩

/-- **MOD→EME2000 (`MOD_to_EME2000` returns `(precesion(date), None)`)**: with TT advancing by one second per second, |T| ≤ 0.5 century,
the velocity term the code omits is at most 1.02e-11 rad/s × |r| (7e-5 m/s at 7000 km). -/
theorem precession_omitted_bound (T : ℝ → ℝ) (t : ℝ) (hT : HasDerivAt T (1 / (36525 * 86400)) t) (hT5 : |T t| ≤ 0.5)
    (r : ℝ → V3) (r' : V3) (hr : V3.DerivAt r r' t) :
    ∃ omitted : V3,
      V3.DerivAt (fun s => (precession80 (T s)).apply (r s))
        (V3.add ((expand (precession80 (T t)) none).apply (r t) r').2 omitted) t ∧
      V3.norm omitted ≤ 1.02e-11 * V3.norm (r t) := by
  obtain ⟨P', hP⟩ := precession_rotPath T _ t hT
  obtain ⟨hd, hb⟩ := slow_edge_omitted _ P' t _ hP r r' hr
  refine ⟨_, hd, le_trans hb ?_⟩
  refine mul_le_mul_of_nonneg_right ?_ (V3.norm_nonneg _)
  have hk := prec_rate_bound (T t) hT5
  rw [abs_mul, abs_neg, abs_mul, abs_mul]
  have hpos : |(1 : ℝ) / (36525 * 86400)| = 1 / (36525 * 86400) := abs_of_pos (by norm_num)
  rw [hpos, ← add_mul, ← add_mul]
  calc _ ≤ 0.03209 * (1 / (36525 * 86400) : ℝ) := mul_le_mul_of_nonneg_right hk.le (by norm_num)
    _ ≤ 1.02e-11 := by norm_num

/-- TT advancing by one second per second from T = 0.04 century, a satellite moving on a line: the hypotheses of
`precession_omitted_bound` hold together -/
example : ∃ (T : ℝ → ℝ) (r : ℝ → V3) (r' : V3), HasDerivAt T (1 / (36525 * 86400)) 0 ∧ |T 0| ≤ 0.5 ∧ V3.DerivAt r r' 0 := by
  refine ⟨fun s => 0.04 + 1 / (36525 * 86400) * s, fun s => ⟨7e6 + 10 * s, 0, 0⟩, ⟨10, 0, 0⟩, ?_, by norm_num [abs_le], ?_⟩
  · simpa using ((hasDerivAt_id (0 : ℝ)).const_mul (1 / (36525 * 86400) : ℝ)).const_add (0.04 : ℝ)
  · exact ⟨by simpa using ((hasDerivAt_id (0 : ℝ)).const_mul (10 : ℝ)).const_add (7e6 : ℝ), hasDerivAt_const _ _, hasDerivAt_const _ _⟩

/-! ## orbit-attached local orbital frames (findings C02-lof-no-rate-qsw / -tnw, quantified) -/

/-- the parent→LOF conversion the model (and the code) uses, `np.linalg.inv(expand(to_local(...).T, None))`, is `expand` of the transpose
with no velocity coupling -/
theorem lof_inverse_edge (tnw : Bool) (p v : V3) (h : V3.dot (V3.cross p v) (V3.cross p v) ≠ 0) (d d' : V3) :
    (T6.inv (expand (lofMat tnw p v) none)).apply d d' = ((M3.tr (lofMat tnw p v)).apply d, (M3.tr (lofMat tnw p v)).apply d') := by
  have hrot := lofMat_isRotation tnw p v h
  simp only [T6.inv, expand, T6.apply, hrot.inv_eq_tr, M3.mul_zero, M3.zero_mul]
  refine Prod.ext rfl ?_
  ext <;> simp [V3.add, M3.apply, M3.neg, M3.zero]

/-- **The LOF-rate finding, exact.**  Reference point moving with `p' = v`, `v' = a` (any acceleration), `pos × vel ≠ 0`; `d(s)` any
differentiable position relative to the reference, expressed in the parent frame.  The position converted into the orbit-attached
QSW / TNW frame is `ρ = Pᵀ… d` (`P = to_local`); its derivative is the converted velocity the code returns (`P d'`: no rate is handed to
`expand`) MINUS `ω × ρ`, `ω = lofRate tnw p v a`. -/
theorem lof_velocity_defect (tnw : Bool) (p v : ℝ → V3) (a : V3) (d : ℝ → V3) (d' : V3) (t : ℝ)
    (hp : V3.DerivAt p (v t) t) (hv : V3.DerivAt v a t) (hd : V3.DerivAt d d' t)
    (h : V3.dot (V3.cross (p t) (v t)) (V3.cross (p t) (v t)) ≠ 0) :
    V3.DerivAt (fun s => ((T6.inv (expand (lofMat tnw (p s) (v s)) none)).apply (d s) d').1)
      (V3.sub ((T6.inv (expand (lofMat tnw (p t) (v t)) none)).apply (d t) d').2
        (V3.cross (lofRate tnw (p t) (v t) a) ((T6.inv (expand (lofMat tnw (p t) (v t)) none)).apply (d t) d').1)) t := by
  have hcc := (cross_derivAt_state hp hv).dot (cross_derivAt_state hp hv)
  have hev : ∀ᶠ s in nhds t, V3.dot (V3.cross (p s) (v s)) (V3.cross (p s) (v s)) ≠ 0 := hcc.continuousAt.eventually_ne h
  have heq : (fun s => ((T6.inv (expand (lofMat tnw (p s) (v s)) none)).apply (d s) d').1)
      =ᶠ[nhds t] fun s => (M3.tr (lofMat tnw (p s) (v s))).apply (d s) :=
    hev.mono (fun s hs => by simp only [lof_inverse_edge tnw _ _ hs])
  rw [lof_inverse_edge tnw _ _ h]
  have hcore := lof_position_derivAt tnw p v a d d' t hp hv hd h
  exact ⟨hcore.x.congr_of_eventuallyEq (heq.mono fun s hs => congrArg V3.x hs),
    hcore.y.congr_of_eventuallyEq (heq.mono fun s hs => congrArg V3.y hs),
    hcore.z.congr_of_eventuallyEq (heq.mono fun s hs => congrArg V3.z hs)⟩

/-- a reference moving uniformly on a line (velocity constant, acceleration 0) with `pos × vel ≠ 0`, a chaser 100 m ahead: the hypotheses
of `lof_velocity_defect` hold together -/
example : ∃ (p v d : ℝ → V3) (a d' : V3), V3.DerivAt p (v 0) 0 ∧ V3.DerivAt v a 0 ∧ V3.DerivAt d d' 0 ∧
    V3.dot (V3.cross (p 0) (v 0)) (V3.cross (p 0) (v 0)) ≠ 0 := by
  refine ⟨fun s => ⟨7e6, 7.5e3 * s, 0⟩, fun _ => ⟨0, 7.5e3, 0⟩, fun _ => ⟨0, 100, 0⟩, ⟨0, 0, 0⟩, ⟨0, 0, 0⟩, ?_, V3.DerivAt.const _ 0,
    V3.DerivAt.const _ 0, ?_⟩
  · exact ⟨hasDerivAt_const _ _, by simpa using (hasDerivAt_id (0 : ℝ)).const_mul (7.5e3 : ℝ), hasDerivAt_const _ _⟩
  · simp only [V3.dot, V3.cross]; norm_num

/-- **a reference WITHOUT propagator** (a plain StateVector: the code builds the axes from the same state at every date, and the centre of
the frame does not move either): the matrix is constant, nothing is missing — the findings concern propagated references only -/
theorem lof_static_no_defect (tnw : Bool) (p0 v0 : V3) (d : ℝ → V3) (d' : V3) (t : ℝ) (hd : V3.DerivAt d d' t) :
    V3.DerivAt (fun s => ((T6.inv (expand (lofMat tnw p0 v0) none)).apply (d s) d').1)
      ((T6.inv (expand (lofMat tnw p0 v0) none)).apply (d t) d').2 t := by
  have h := (M3.DerivAt.const (T6.inv (expand (lofMat tnw p0 v0) none)).r t).apply hd
  simp only [T6.apply]
  refine h.congr ?_
  simp only [T6.inv, expand, M3.mul_zero, M3.zero_mul]
  ext <;> simp [V3.add, M3.apply, M3.neg, M3.zero]

/-- **"… iff the frame's rotation rate is accounted for".**  In the setting of `lof_velocity_defect`: the converted velocity the code
returns is the derivative of the converted position **iff** `ω × ρ = 0` (the point lies on the rotation axis of the local frame, or the
frame does not turn). -/
theorem lof_velocity_iff (tnw : Bool) (p v : ℝ → V3) (a : V3) (d : ℝ → V3) (d' : V3) (t : ℝ)
    (hp : V3.DerivAt p (v t) t) (hv : V3.DerivAt v a t) (hd : V3.DerivAt d d' t)
    (h : V3.dot (V3.cross (p t) (v t)) (V3.cross (p t) (v t)) ≠ 0) :
    V3.DerivAt (fun s => ((T6.inv (expand (lofMat tnw (p s) (v s)) none)).apply (d s) d').1)
      ((T6.inv (expand (lofMat tnw (p t) (v t)) none)).apply (d t) d').2 t ↔
    V3.cross (lofRate tnw (p t) (v t) a) ((T6.inv (expand (lofMat tnw (p t) (v t)) none)).apply (d t) d').1 = V3.zero := by
  have hdef := lof_velocity_defect tnw p v a d d' t hp hv hd h
  constructor
  · intro hc
    have e := V3.DerivAt.unique hc hdef
    have ex := congrArg V3.x e; have ey := congrArg V3.y e; have ez := congrArg V3.z e
    simp only [V3.sub] at ex ey ez
    ext <;> simp only [V3.zero] <;> linarith
  · intro hz
    refine hdef.congr ?_
    rw [hz]
    ext <;> simp [V3.sub, V3.zero]

/-- **the missing term for an acceleration in the orbital plane** (`a · (p × v) = 0`: every central force): the local frame turns about
its own W axis only — `h/r²` for QSW, `a·(c × v)/(h V²)` for TNW -/
theorem lof_rate_planar (p v a : V3) (hac : V3.dot a (V3.cross p v) = 0) :
    lofRate false p v a = ⟨0, 0, V3.norm (V3.cross p v) / (V3.norm p * V3.norm p)⟩ ∧
    lofRate true p v a = ⟨0, 0, V3.dot a (V3.cross (V3.cross p v) v) / (V3.norm (V3.cross p v) * (V3.norm v * V3.norm v))⟩ := by
  constructor
  · simp only [lofRate, Bool.false_eq_true, if_false, hac]
    ext <;> simp
  · simp only [lofRate, if_true, hac]
    ext <;> simp

/-- **two-body motion** (`a = −μ p / r³`): the rate the code leaves out is `h/r²` about W for QSW and `μ h/(r³ V²)` about W for TNW
(the values of proposed_fixes/C02-lof-rate.diff and of the oracle) -/
theorem lof_rate_twobody (p v : V3) (μ : ℝ) (h : V3.dot (V3.cross p v) (V3.cross p v) ≠ 0) :
    lofRate false p v (V3.smul (-(μ / (V3.norm p * V3.norm p * V3.norm p))) p)
      = ⟨0, 0, V3.norm (V3.cross p v) / (V3.norm p * V3.norm p)⟩ ∧
    lofRate true p v (V3.smul (-(μ / (V3.norm p * V3.norm p * V3.norm p))) p)
      = ⟨0, 0, μ * V3.norm (V3.cross p v) / (V3.norm p * V3.norm p * V3.norm p * (V3.norm v * V3.norm v))⟩ := by
  have hac : V3.dot (V3.smul (-(μ / (V3.norm p * V3.norm p * V3.norm p))) p) (V3.cross p v) = 0 := by
    simp only [V3.dot, V3.smul, V3.cross]; ring
  obtain ⟨h1, h2⟩ := lof_rate_planar p v _ hac
  refine ⟨h1, ?_⟩
  rw [h2]
  obtain ⟨hpp, hvv⟩ := V3.dot_ne_zero_of_cross p v h
  have hh := V3.norm_mul_self (V3.cross p v)
  have hh0 := V3.norm_ne_zero _ h
  have hr0 := V3.norm_ne_zero _ hpp
  have hV0 := V3.norm_ne_zero _ hvv
  generalize V3.norm (V3.cross p v) = H at hh hh0
  generalize V3.norm p = r at hr0
  generalize V3.norm v = V at hV0
  simp only [V3.dot, V3.cross] at hh
  ext
  · rfl
  · rfl
  · simp only [V3.dot, V3.smul, V3.cross]
    field_simp
    linear_combination (-μ) * hh

example : V3.dot (V3.cross ⟨7e6, 0, 0⟩ ⟨0, 7.5e3, 1e2⟩) (V3.cross ⟨7e6, 0, 0⟩ ⟨0, 7.5e3, 1e2⟩) ≠ 0 := by
  simp only [V3.dot, V3.cross]; norm_num

end BeyondVerif.C02
