import BeyondVerif.Lemmas.HeapCopy
/-!
# C15 — state vectors have value semantics and change atomically

Theorems about the heap model `Model/Heap.lean` (tied to /repo by the exact correspondence run and by
the name tables regenerated into `Generated/FormTables.lean` on every run).
-/
namespace BeyondVerif.C15
open BeyondVerif.Heap BeyondVerif.Generated FormTables

/-! ## element access by name, alias and index -/

/-- every form has six pairwise distinct element names (so `param_names.index` is unambiguous) -/
theorem names_six_distinct : ∀ p ∈ paramNames, p.2.length = 6 ∧ p.2.Nodup := by decide +kernel

/- History: until /repo commit 0cea58e this held only outside cylindrical slots 1 and 4 (`access_name_index_partial`,
   counter-witness `cylindrical_theta_refused`): `Form.alt` rewrote `theta`/`theta_dot` to names the cylindrical form did not have. -/
/-- clause "element access by name … agrees with the current form's ordering": in every form, the i-th element
name addresses slot i -/
theorem access_name_index :
    ∀ p ∈ paramNames, ∀ i, i < 6 → access p.1 (p.2.getD i "") = .slot i := by
  decide +kernel

example : access "keplerian" "Ω" = .slot 3 := by decide +kernel
example : access "cylindrical" "theta" = .slot 1 ∧ access "cylindrical" "θ" = .slot 1 ∧ access "cylindrical" "theta_dot" = .slot 4 := by
  decide +kernel

/-- an alias addresses the slot of the element it stands for, in every form that has that element -/
theorem access_alias_index :
    ∀ p ∈ paramNames, ∀ al ∈ alt, ∀ i, i < 6 → p.2[i]? = some al.2 → access p.1 al.1 = .slot i := by
  decide +kernel

example : access "keplerian" "raan" = .slot 3 ∧ access "tle" "Omega" = .slot 1 := by decide +kernel

/-- a reserved name (element name of some form, or an alias of one) that does not denote an element of
the current form is refused — it never reads or creates a metadata entry and never hits another slot -/
theorem access_foreign_refused :
    ∀ p ∈ paramNames, ∀ n ∈ cacheParamNames ++ alt.map (·.1),
      (alt.lookup n).getD n ∉ p.2 → access p.1 n = .foreign := by
  decide +kernel

example : access "keplerian" "x" = .foreign ∧ access "cartesian" "raan" = .foreign := by decide +kernel

/-- whatever a name resolves to, a slot answer is the position of the (alias-resolved) name in the current form -/
theorem access_slot_sound :
    ∀ p ∈ paramNames, ∀ n ∈ cacheParamNames ++ alt.map (·.1), ∀ i, i < 6 →
      access p.1 n = .slot i → p.2[i]? = some ((alt.lookup n).getD n) := by
  decide +kernel

/-! ## failing form / frame changes -/

/-- an unknown form name: nothing is touched -/
theorem setForm_unknown_atomic (h : Heap) (a : Nat) (name : String) (hn : resolveForm name = none) :
    setForm h a name = (h, .error .unknownForm) := by
  simp [setForm, hn]

example : resolveForm "no_such_form" = none := by decide +kernel

/-- *every* failing form change leaves the whole heap as it was -/
theorem setForm_error_atomic (h h' : Heap) (a : Nat) (name : String) (e : Err)
    (hr : setForm h a name = (h', .error e)) : h' = h := by
  unfold setForm at hr
  split at hr
  · simp at hr; exact hr.1.symm
  · unfold setFormTo at hr
    split at hr
    · simp at hr; exact hr.1.symm
    · simp at hr

/-- an unknown frame name: nothing is touched -/
theorem setFrame_unknown_atomic (h : Heap) (a : Nat) (name : String) (hn : resolveFrame name = none) :
    setFrame h a name = (h, .error .unknownFrame) := by
  simp [setFrame, hn]

example : resolveFrame "NoSuchFrame" = none := by decide +kernel

/-- a failing transformation (Hill frame involved): the only cell that may be rewritten is the coordinate
buffer, and its new content denotes the same physical state (`phys` erases form conversions: the code goes
form → cartesian → form); form, frame, metadata, covariance cells are not written at all -/
theorem setFrameBasic_error_atomic (h h' : Heap) (a : Nat) (fr : Fr) (e : Err) (s : SV)
    (hs : getSV h a = some s) (hr : setFrameBasic h a fr = (h', .error e)) :
    h' = h ∨ ∃ v', h' = write h s.buf (.buf v') ∧ phys v' = phys s.val := by
  unfold setFrameBasic at hr
  rw [hs] at hr
  simp only at hr
  split at hr
  · simp at hr
  · split at hr
    · simp at hr
    · right; simp at hr; exact ⟨_, hr.1.symm, by simp [phys_mkConv]⟩
    · right; simp at hr; exact ⟨_, hr.1.symm, by simp [phys_mkConv]⟩
    · left; simp at hr; exact hr.1.symm

example : setFrameBasic [.buf (.init 0), .dict [("form", .form "keplerian"), ("frame", .frame (.reg "EME2000" 0))], .sv false 0 1] 2 (.hill 0)
    = ([.buf (.conv "cartesian" "keplerian" (.conv "keplerian" "cartesian" (.init 0))),
        .dict [("form", .form "keplerian"), ("frame", .frame (.reg "EME2000" 0))], .sv false 0 1], .error .value) := by
  decide +kernel

/-- a failing covariance frame change writes nothing -/
theorem covSetFrame_error_atomic (h h' : Heap) (c : Nat) (fr : Fr) (e : Err)
    (hr : covSetFrame h c fr = (h', .error e)) : h' = h := by
  unfold covSetFrame at hr
  split at hr
  · split at hr
    · simp at hr
    · split at hr
      · simp at hr; exact hr.1.symm
      · split at hr
        · simp at hr; exact hr.1.symm
        · simp at hr
  · simp at hr; exact hr.1.symm

/-- where a failing `sv.frame = name` can come from: an unknown name (nothing touched), the state-vector
part (see `setFrameBasic_error_atomic`), or — the state vector having been changed successfully — the
covariance that was to follow it (which is then left exactly as it was, `covSetFrame_error_atomic`) -/
theorem setFrame_error_cases (h h' : Heap) (a : Nat) (name : String) (e : Err) (s : SV)
    (hs : getSV h a = some s) (hr : setFrame h a name = (h', .error e)) :
    (h' = h) ∨
    (∃ fr, resolveFrame name = some fr ∧ setFrameBasic h a fr = (h', .error e)) ∨
    (∃ fr c, resolveFrame name = some fr ∧ setFrameBasic h a fr = (h', .ok ()) ∧ lookup "cov" s.items = some (.addr c)) := by
  unfold setFrame at hr
  split at hr
  · left; simp at hr; exact hr.1.symm
  · rename_i fr hfr
    rw [hs] at hr
    simp only at hr
    split at hr
    · rename_i h1 e1 hb
      right; left
      simp at hr
      exact ⟨fr, hfr, by rw [hb, hr.1, hr.2]⟩
    · rename_i h1 hb
      right; right
      split at hr
      · rename_i c hc
        refine ⟨fr, c, hfr, ?_, hc⟩
        split at hr
        · split at hr
          · have := covSetFrame_error_atomic _ _ _ _ _ hr
            rw [hb, this]
          · simp at hr
        · simp at hr; rw [hb, hr.1]
      · simp at hr

/-! ## copies -/

/-- `copy()` writes nothing: every cell of the old heap — the receiver and all it can reach — is unchanged -/
theorem copy_receiver_unchanged (h : Heap) (a : Nat) : Pres h (copySV h a).1 :=
  copySVWith_pres (copyRef_ok _) h a

/-- after `c = sv.copy()`: the object, its coordinate buffer and its `_data` dict are new cells; the values are
those of the receiver; and every reference stored in the new `_data` is a new cell — the only old addresses
that survive at the first level are maneuver objects (for the full depth see `copy_separate`) -/
theorem copy_separate_depth1 (h h1 : Heap) (a n : Nat) (s' : SV)
    (hr : copySV h a = (h1, .ok n)) (hg : getSV h1 n = some s') :
    h.length ≤ n ∧ h.length ≤ s'.buf ∧ h.length ≤ s'.data ∧ s'.buf ≠ s'.data ∧
    (∃ s, getSV h a = some s ∧ s'.val = s.val ∧ s'.orbit = s.orbit) ∧
    ∀ k x, (k, Ref.addr x) ∈ s'.items → h.length ≤ x ∨ ∃ t, h[x]? = some (.man t) := by
  obtain ⟨hb, hd, hn, hne, s, items', h0, hs, hc, hv, hi, ho⟩ := copySVWith_getSV (copyRef_ok _) h h1 a n s' hr hg
  refine ⟨hn, hb, hd, hne, ⟨s, hs, hv, ho⟩, ?_⟩
  rw [hi]
  exact copyItems_fresh (copyRef_ok _) h s.items items' h0 hc

/-- the form setter applied to the object a copy returned writes only new cells -/
theorem setForm_on_copy_pres (h h1 : Heap) (a n : Nat) (name : String) (he : copySV h a = (h1, .ok n)) :
    Pres h (setForm h1 n name).1 := by
  have p : Pres h h1 := by have := copy_receiver_unchanged h a; rw [he] at this; exact this
  unfold setForm
  split
  · exact p
  · unfold setFormTo
    split
    · exact p
    · rename_i s' hs'
      obtain ⟨hb, hd, _⟩ := copySVWith_getSV (copyRef_ok _) h h1 a n s' he hs'
      exact (p.wr hb _).wr hd _

/-- `copy(form=…)`: the conversion runs on the new object and writes only its (new) buffer and dict — the
receiver is unchanged whether the conversion succeeds or fails -/
theorem copyForm_receiver_unchanged (h : Heap) (a : Nat) (name : String) : Pres h (copyForm h a name).1 := by
  unfold copyForm
  have p := copy_receiver_unchanged h a
  split
  · rename_i h1 e he; rw [he] at p; exact p
  · rename_i h1 n he
    have q := setForm_on_copy_pres h h1 a n name he
    split
    · rename_i h2 e he2; rw [he2] at q; exact q
    · rename_i h2 he2; rw [he2] at q; exact q

theorem lookup_mem_items (k : String) (r : Ref) (items : Items) (hl : lookup k items = some r) : (k, r) ∈ items := by
  induction items with
  | nil => simp [lookup] at hl
  | cons kv rest ih =>
    obtain ⟨k', v⟩ := kv
    by_cases hk : k' = k
    · subst hk; simp [lookup] at hl; subst hl; exact List.mem_cons_self
    · simp [lookup, hk] at hl; exact List.mem_cons_of_mem _ (ih hl)

/- History: listed as an open obligation until /repo commit d229088 (the covariance setter no longer re-frames its
   private state copy) made the covariance part a single write to the (new) covariance cell. -/
/-- `copy(frame=…)`: the frame change runs on the new object; it writes its (new) buffer and dict and, when the
covariance follows, the (new) covariance cell — the receiver and its covariance are unchanged whether the
change succeeds or fails -/
theorem copyFrame_receiver_unchanged (h : Heap) (a : Nat) (name : String) : Pres h (copyFrame h a name).1 := by
  unfold copyFrame
  have p := copy_receiver_unchanged h a
  split
  · rename_i h1 e he; rw [he] at p; exact p
  · rename_i h1 n he
    rw [he] at p
    have q : Pres h (setFrame h1 n name).1 := by
      unfold setFrame
      split
      · exact p
      · rename_i fr hfr
        split
        · exact p
        · rename_i s' hs'
          obtain ⟨hb, hd, _, _, s, items', h0, hs, hc, _, hi, _⟩ := copySVWith_getSV (copyRef_ok _) h h1 a n s' he hs'
          have pb : Pres h (setFrameBasic h1 n fr).1 := by
            unfold setFrameBasic
            rw [hs']
            simp only
            split
            · exact p
            · split
              · exact (p.wr hb _).wr hd _
              · exact p.wr hb _
              · exact p.wr hb _
              · exact p
          split
          · rename_i h2 e hb2; rw [hb2] at pb; exact pb
          · rename_i h2 hb2
            rw [hb2] at pb
            split
            · rename_i c hcov
              have hfresh := copyItems_fresh (copyRef_ok _) h s.items items' h0 hc "cov" c (by rw [← hi]; exact lookup_mem_items _ _ _ hcov)
              split
              · rename_i cv cfr orb ofr hcell
                split
                · -- the covariance follows: one write, at `c`
                  unfold covSetFrame
                  rw [hcell]
                  simp only
                  split
                  · exact pb
                  · split
                    · exact pb
                    · split
                      · exact pb
                      · rcases hfresh with hnew | ⟨t, ht⟩
                        · exact pb.wr hnew _
                        · -- an old address would hold a maneuver object, not a covariance
                          exfalso
                          have hlt : c < h.length := (List.getElem?_eq_some_iff.mp ht).1
                          have := pb.2 c hlt
                          rw [hcell, ht] at this
                          simp at this
                · exact pb
              · exact pb
            · exact pb
    split
    · rename_i h2 e he2; rw [he2] at q; exact q
    · rename_i h2 he2; rw [he2] at q; exact q

/-! ## StateVector ↔ Orbit -/

/-- `as_orbit` writes no pre-existing cell: the receiver and everything reachable from it is unchanged -/
theorem asOrbit_receiver_unchanged (h : Heap) (a p : Nat) : Pres h (asOrbit h a p).1 := by
  unfold asOrbit
  split
  · exact Pres.refl h
  · have q := copy_receiver_unchanged h a
    split
    · rename_i h1 e he; rw [he] at q; exact q
    · rename_i h1 c he
      rw [he] at q
      split
      · exact q
      · exact ((q.alloc _).alloc _).alloc _

theorem asSV_receiver_unchanged (h : Heap) (a : Nat) : Pres h (asSV h a).1 := by
  unfold asSV
  split
  · exact Pres.refl h
  · split
    · exact Pres.refl h
    · have q := copy_receiver_unchanged h a
      split
      · rename_i h1 e he; rw [he] at q; exact q
      · rename_i h1 c he
        rw [he] at q
        split
        · exact q
        · exact ((q.alloc _).alloc _).alloc _

/-! ## pickle round trip -/

/-- pickling writes nothing -/
theorem pickle_receiver_unchanged (h : Heap) (a : Nat) : Pres h (pickle h a).1 := by
  have inv0 : DeepInv (fun x => h.length ≤ x) h { h := h } := ⟨Pres.refl h, ClosedP.refl _ h, by simp⟩
  have hd := deepRef_ok (P := fun x => h.length ≤ x) (h0 := h) (fun _ hx => hx) deepFuel { h := h } (.addr a) inv0
  unfold pickle
  split
  · rename_i st r he
    rw [he] at hd
    split
    · exact hd.1.pres
    · exact hd.1.pres
  · rename_i st he; rw [he] at hd; exact hd.1.pres

/- History: until /repo commits 27f7ad7 / 2927581 the unpickled object was unusable (`self.base is None`) and its
   covariance had lost `_data`; the model then carried `owned` / `ok` flags and the witnesses
   `pickle_gives_unusable_object`, `pickle_then_copy_raises`. -/
/-- the unpickled object shares *nothing* with the original: it is a new cell and every address stored in any
cell created by the round trip is itself new (so nothing reachable from it existed before) -/
theorem pickle_separate (h h1 : Heap) (a n : Nat) (hr : pickle h a = (h1, .ok n)) :
    h.length ≤ n ∧ ClosedP (fun x => h.length ≤ x) h h1 := by
  have inv0 : DeepInv (fun x => h.length ≤ x) h { h := h } := ⟨Pres.refl h, ClosedP.refl _ h, by simp⟩
  have hd := deepRef_ok (P := fun x => h.length ≤ x) (h0 := h) (fun _ hx => hx) deepFuel { h := h } (.addr a) inv0
  unfold pickle at hr
  split at hr
  · rename_i st r he
    rw [he] at hd
    split at hr
    · rename_i m
      simp at hr
      rw [← hr.1, ← hr.2]
      exact ⟨hd.2 m rfl, hd.1.closed⟩
    · simp at hr
  · simp at hr

end BeyondVerif.C15
