import BeyondVerif.Lemmas.HeapOut
/-!
# C15 — state vectors have value semantics and change atomically

Theorems about the heap model `Model/Heap.lean` (tied to /repo by the exact correspondence run and by
the name tables regenerated into `Generated/FormTables.lean` on every run).
-/
namespace BeyondVerif.C15Ex
open BeyondVerif.Heap
/-- a state vector (cell 6) with one maneuver (cell 1, in the list 2) and a nested metadata container -/
def h0 : Heap :=
  [ .buf (.init 0), .man 0, .list [.addr 1], .list [.tok 1], .dict [("k", .addr 3)],
    .dict [("maneuvers", .addr 2), ("nested", .addr 4), ("date", .tok 100), ("form", .form "cartesian"),
           ("frame", .frame (.reg "EME2000" 0))],
    .sv false 0 5 ]
end BeyondVerif.C15Ex

namespace BeyondVerif.C15
open BeyondVerif.Heap BeyondVerif.Generated FormTables

/-! ## element access by name, alias and index -/

/-- every form has six pairwise distinct element names (so `param_names.index` is unambiguous) -/
theorem names_six_distinct : ∀ p ∈ paramNames, p.2.length = 6 ∧ p.2.Nodup := by decide +kernel

/- History: until /repo commit 0cea58e this held only outside cylindrical slots 1 and 4 (`access_name_index_partial`,
   counter-witness `cylindrical_theta_refused`): `Form.alt` rewrote `theta`/`theta_dot` to names the cylindrical form did not have. -/
/-- clause "element access by name … agrees with the current form's ordering": in every form, the i-th element
name addresses slot i -/
theorem access_name_index :
    ∀ p ∈ paramNames, ∀ i, i < 6 → access p.1 (p.2.getD i "") = .slot i := by
  decide +kernel

example : access "keplerian" "Ω" = .slot 3 := by decide +kernel
example : access "cylindrical" "theta" = .slot 1 ∧ access "cylindrical" "θ" = .slot 1 ∧ access "cylindrical" "theta_dot" = .slot 4 := by
  decide +kernel

/-- an alias addresses the slot of the element it stands for, in every form that has that element -/
theorem access_alias_index :
    ∀ p ∈ paramNames, ∀ al ∈ alt, ∀ i, i < 6 → p.2[i]? = some al.2 → access p.1 al.1 = .slot i := by
  decide +kernel

example : access "keplerian" "raan" = .slot 3 ∧ access "tle" "Omega" = .slot 1 := by decide +kernel

/-- a reserved name (element name of some form, or an alias of one) that does not denote an element of
the current form is refused — it never reads or creates a metadata entry and never hits another slot -/
theorem access_foreign_refused :
    ∀ p ∈ paramNames, ∀ n ∈ cacheParamNames ++ alt.map (·.1),
      (alt.lookup n).getD n ∉ p.2 → access p.1 n = .foreign := by
  decide +kernel

example : access "keplerian" "x" = .foreign ∧ access "cartesian" "raan" = .foreign := by decide +kernel

/-- whatever a name resolves to, a slot answer is the position of the (alias-resolved) name in the current form -/
theorem access_slot_sound :
    ∀ p ∈ paramNames, ∀ n ∈ cacheParamNames ++ alt.map (·.1), ∀ i, i < 6 →
      access p.1 n = .slot i → p.2[i]? = some ((alt.lookup n).getD n) := by
  decide +kernel

/-! ## failing form / frame changes -/

/-- an unknown form name: nothing is touched -/
theorem setForm_unknown_atomic (h : Heap) (a : Nat) (name : String) (hn : resolveForm name = none) :
    setForm h a name = (h, .error .unknownForm) := by
  simp [setForm, hn]

example : resolveForm "no_such_form" = none := by decide +kernel

/-- *every* failing form change leaves the whole heap as it was -/
theorem setForm_unknown_error_atomic (h h' : Heap) (a : Nat) (name : String) (e : Err)
    (hr : setForm h a name = (h', .error e)) : h' = h := by
  unfold setForm at hr
  split at hr
  · simp at hr; exact hr.1.symm
  · unfold setFormTo at hr
    split at hr
    · simp at hr; exact hr.1.symm
    · simp at hr

/-! ### the form setter in the order of effects read from the source -/

/-- with the conversion first and every write after it, the only step that can fail is the conversion, before anything is written -/
theorem runFormSteps_atomic (steps : List FStep) (hord : atomicOrder steps = true) (h h' : Heap) (s : SV) (g : String)
    (ferr : Nat → Option Err) (p : Option Val) (k : Nat) (e : Err)
    (hr : runFormSteps steps h s g ferr p k = (h', .error e)) : h' = h := by
  -- after a successful conversion (pending value present, no further conversion) nothing fails
  have tail : ∀ (rest : List FStep), rest.all (· != .convert) = true → ∀ (h1 : Heap) (v : Val) (k1 : Nat) (h2 : Heap) (e1 : Err),
      runFormSteps rest h1 s g ferr (some v) k1 = (h2, .error e1) → False := by
    intro rest
    induction rest with
    | nil => intro _ h1 v k1 h2 e1 hr1; simp [runFormSteps] at hr1
    | cons st rest ih =>
      intro hall h1 v k1 h2 e1 hr1
      simp only [List.all_cons, Bool.and_eq_true] at hall
      cases st with
      | convert => simp at hall
      | store => simp only [runFormSteps] at hr1; exact ih hall.2 _ v k1 h2 e1 hr1
      | commit => simp only [runFormSteps] at hr1; exact ih hall.2 _ v k1 h2 e1 hr1
  cases steps with
  | nil => simp [atomicOrder] at hord
  | cons st rest =>
    cases st with
    | convert =>
      simp only [atomicOrder] at hord
      simp only [runFormSteps] at hr
      split at hr
      · simp at hr; exact hr.1.symm
      · exact absurd hr (fun hr' => tail rest hord h _ (k + 1) h' e hr')
    | store => simp [atomicOrder] at hord
    | commit => simp [atomicOrder] at hord

/-- the order of effects read from the AST of `StateVector.form.fset` on this run is an atomic one (re-checked by the kernel on every
run: a setter that writes values or label before the whole route is converted — e.g. leg by leg — makes this fail) -/
theorem formSteps_atomicOrder : atomicOrder formSteps = true := by decide +kernel

/-- clause "a form change that fails leaves the object in its previous, consistent form/frame/values", over the order of effects
extracted from the source: whatever makes `sv.form = name` raise — an unknown name, or the conversion failing on ANY leg of its
route (it runs on a copy) — the heap is the one before the call, bit for bit -/
theorem setForm_error_atomic (h h' : Heap) (a : Nat) (name : String) (ferr : Nat → Option Err) (e : Err)
    (hr : setFormX h a name ferr = (h', .error e)) : h' = h := by
  unfold setFormX at hr
  split at hr
  · simp at hr; exact hr.1.symm
  · split at hr
    · simp at hr; exact hr.1.symm
    · exact runFormSteps_atomic formSteps formSteps_atomicOrder h h' _ _ ferr none 0 e hr

/-- the hand-written `setForm` the other theorems speak about IS the interpretation of the extracted order when no conversion fails -/
theorem setFormX_eq_setForm (h : Heap) (a : Nat) (name : String) : setFormX h a name noFail = setForm h a name := by
  have hs : formSteps = [.convert, .store, .commit] := by decide +kernel
  unfold setFormX setForm setFormTo
  split
  · rfl
  · split
    · rfl
    · rw [hs]; simp [runFormSteps, noFail]

example : setFormX C15Ex.h0 6 "keplerian" (fun _ => some .value) = (C15Ex.h0, .error .value) := by decide +kernel

/-- an unknown frame name: nothing is touched -/
theorem setFrame_unknown_atomic (h : Heap) (a : Nat) (name : String) (hn : resolveFrame name = none) :
    setFrame h a name = (h, .error .unknownFrame) := by
  simp [setFrame, hn]

example : resolveFrame "NoSuchFrame" = none := by decide +kernel

/-- a failing transformation — the Hill frame involved, or (`env = some e`) the environment making `Frame.transform`
raise: a centre that cannot be reached, a date without Earth-orientation data under the 'error' policy — from whatever
form the state is held in: the only cell that may be rewritten is the coordinate buffer, and its new content denotes
the same physical state (`phys` erases form conversions: the code goes form → cartesian → form); form, frame,
metadata, covariance cells are not written at all -/
theorem setFrameBasic_error_atomic (h h' : Heap) (a : Nat) (fr : Fr) (env : Env) (e : Err) (s : SV)
    (hs : getSV h a = some s) (hr : setFrameBasic h a fr env = (h', .error e)) :
    h' = h ∨ ∃ v', h' = write h s.buf (.buf v') ∧ phys v' = phys s.val := by
  unfold setFrameBasic at hr
  rw [hs] at hr
  simp only at hr
  split at hr
  · simp at hr
  · split at hr
    · split at hr
      · right; simp at hr; exact ⟨_, hr.1.symm, by simp [phys_mkConv]⟩
      · simp at hr
    · right; simp at hr; exact ⟨_, hr.1.symm, by simp [phys_mkConv]⟩
    · right; simp at hr; exact ⟨_, hr.1.symm, by simp [phys_mkConv]⟩
    · left; simp at hr; exact hr.1.symm

example : setFrameBasic [.buf (.init 0), .dict [("form", .form "keplerian"), ("frame", .frame (.reg "EME2000" 0))], .sv false 0 1] 2 (.hill 0)
    = ([.buf (.conv "cartesian" "keplerian" (.conv "keplerian" "cartesian" (.init 0))),
        .dict [("form", .form "keplerian"), ("frame", .frame (.reg "EME2000" 0))], .sv false 0 1], .error .value) := by
  decide +kernel

/-- a failing covariance frame change writes nothing -/
theorem covSetFrame_error_atomic (h h' : Heap) (c : Nat) (fr : Fr) (env : Env) (e : Err)
    (hr : covSetFrame h c fr env = (h', .error e)) : h' = h := by
  unfold covSetFrame at hr
  split at hr
  · split at hr
    · simp at hr
    · split at hr
      · simp at hr; exact hr.1.symm
      · split at hr
        · simp at hr
        · simp at hr; exact hr.1.symm
  · simp at hr; exact hr.1.symm

theorem write_self (h : Heap) (a : Nat) (c : Cell) (hc : h[a]? = some c) : write h a c = h := by
  apply List.ext_getElem?
  intro i
  by_cases hi : i = a
  · subst hi
    rw [write_same _ _ _ (List.getElem?_eq_some_iff.mp hc).1, hc]
  · rw [write_other _ _ _ _ hi]

theorem insert_same (k : String) (v : Ref) (items : Items) (hl : lookup k items = some v) : insert k v items = items := by
  induction items with
  | nil => simp [lookup] at hl
  | cons kv rest ih =>
    obtain ⟨k', v'⟩ := kv
    by_cases hk : k' = k
    · subst hk; simp [lookup] at hl; subst hl; simp [Heap.insert]
    · simp [lookup, hk] at hl; simp [Heap.insert, hk, ih hl]

theorem insert_insert (k : String) (v w : Ref) (items : Items) : insert k v (insert k w items) = insert k v items := by
  induction items with
  | nil => simp [Heap.insert]
  | cons kv rest ih =>
    obtain ⟨k', v'⟩ := kv
    by_cases hk : k' = k
    · subst hk; simp [Heap.insert]
    · simp [Heap.insert, hk, ih]

theorem getSV_buf_ne_data (h : Heap) (a : Nat) (s : SV) (hs : getSV h a = some s) : s.buf ≠ s.data := by
  obtain ⟨_, hb, hd⟩ := getSV_cells h a s hs
  intro he
  rw [he, hd] at hb
  simp at hb

theorem getSV_frame_lookup (h : Heap) (a : Nat) (s : SV) (hs : getSV h a = some s) : lookup "frame" s.items = some (.frame s.frame) := by
  unfold getSV at hs
  split at hs
  · split at hs
    · split at hs
      · rename_i f fr hf hfr
        simp at hs; subst hs
        simp only
        unfold frameOf at hfr
        split at hfr
        · rename_i f' hl; simp at hfr; subst hfr; exact hl
        · simp at hfr
      · simp at hs
    · simp at hs
  · simp at hs

/- History: until /repo commit 45ca5d0 the frame setter had no `except` clause: when the covariance that had to follow could not
   be converted the assignment failed with the state vector already moved (open finding C15-frame-change-not-atomic-with-cov,
   counter-witness `frame_change_fails_after_state_moved`, theorem `setFrame_error_atomic_partial`). -/
theorem restore_writes (h : Heap) (s : SV) (X : Cell) (D : Items) (hbuf : h[s.buf]? = some (.buf s.val))
    (hdat : h[s.data]? = some (.dict s.items)) (hne : s.buf ≠ s.data) (hD : Heap.insert "frame" (.frame s.frame) D = s.items) :
    restoreSV (write (write h s.buf X) s.data (.dict D)) s = h := by
  have hblt : s.buf < h.length := (List.getElem?_eq_some_iff.mp hbuf).1
  have hdlt : s.data < h.length := (List.getElem?_eq_some_iff.mp hdat).1
  unfold restoreSV
  have h1 : (write (write (write h s.buf X) s.data (.dict D)) s.buf (.buf s.val))[s.data]? = some (.dict D) := by
    rw [write_other _ _ _ _ hne.symm, write_same _ _ _ (by simp [write]; exact hdlt)]
  simp only [h1, hD]
  apply List.ext_getElem?
  intro i
  by_cases hid : i = s.data
  · subst hid
    rw [write_same _ _ _ (by simp [write]; exact hdlt), hdat]
  · rw [write_other _ _ _ _ hid]
    by_cases hib : i = s.buf
    · subst hib
      rw [write_same _ _ _ (by simp [write]; exact hblt), hbuf]
    · rw [write_other _ _ _ _ hib, write_other _ _ _ _ hid, write_other _ _ _ _ hib]

/-- the `except` clause of the frame setter puts back exactly what the state-vector part changed: after a successful
state-vector part, restoring gives the heap the assignment started from, bit for bit -/
theorem restore_after_basic (h h2 : Heap) (a : Nat) (fr : Fr) (env : Env) (s : SV) (hs : getSV h a = some s)
    (hb : setFrameBasic h a fr env = (h2, .ok ())) : restoreSV h2 s = h := by
  obtain ⟨_, hbuf, hdat⟩ := getSV_cells h a s hs
  have hne := getSV_buf_ne_data h a s hs
  have hfl := getSV_frame_lookup h a s hs
  unfold setFrameBasic at hb
  rw [hs] at hb
  simp only at hb
  split at hb
  · -- nothing to do for the state vector
    simp at hb; subst hb
    have := restore_writes h s (.buf s.val) s.items hbuf hdat hne (insert_same _ _ _ hfl)
    rw [write_self h s.buf _ hbuf, write_self h s.data _ hdat] at this
    exact this
  · split at hb
    · split at hb
      · simp at hb
      · simp at hb
        subst hb
        exact restore_writes h s _ _ hbuf hdat hne (by rw [insert_insert, insert_same _ _ _ hfl])
    · simp at hb
    · simp at hb
    · simp at hb

/-- where a failing `sv.frame = name` can come from: an unknown name (nothing touched), the covariance that was to follow the
(successfully changed) state vector — the state vector is then put back and the heap is the one before the call —, or the
state-vector part itself (see `setFrameBasic_error_atomic`) -/
theorem setFrame_error_cases (h h' : Heap) (a : Nat) (name : String) (env : Env) (e : Err) (s : SV)
    (hs : getSV h a = some s) (hr : setFrame h a name env = (h', .error e)) :
    (h' = h) ∨ (∃ fr, resolveFrame name = some fr ∧ setFrameBasic h a fr env = (h', .error e)) := by
  unfold setFrame at hr
  split at hr
  · left; simp at hr; exact hr.1.symm
  · rename_i fr hfr
    unfold setFrameTo at hr
    rw [hs] at hr
    simp only at hr
    split at hr
    · rename_i h1 e1 hb
      right
      simp at hr
      exact ⟨fr, hfr, by rw [hb, hr.1, hr.2]⟩
    · rename_i h1 hb
      left
      split at hr
      · rename_i c hc
        split at hr
        · split at hr
          · split at hr
            · rename_i h3 e3 he3
              have h31 : h3 = h1 := covSetFrame_error_atomic _ _ _ _ _ _ he3
              subst h31
              simp at hr
              rw [← hr.1]
              exact restore_after_basic h h3 a fr env s hs hb
            · simp at hr
          · simp at hr
        · simp at hr
          rw [← hr.1]
          exact restore_after_basic h h1 a fr env s hs hb
      · simp at hr

/-! ## copies -/

/-- `copy()` writes nothing: every cell of the old heap — the receiver and all it can reach — is unchanged -/
theorem copy_receiver_unchanged (h : Heap) (a : Nat) : Pres h (copySV h a).1 :=
  copySVWith_pres (copyRef_ok _) h a

/-- after `c = sv.copy()`: the object, its coordinate buffer and its `_data` dict are new cells; the values are
those of the receiver; and every reference stored in the new `_data` is a new cell — the only old addresses
that survive at the first level are maneuver objects (for the full depth see `copy_separate`) -/
theorem copy_separate_depth1 (h h1 : Heap) (a n : Nat) (s' : SV)
    (hr : copySV h a = (h1, .ok n)) (hg : getSV h1 n = some s') :
    h.length ≤ n ∧ h.length ≤ s'.buf ∧ h.length ≤ s'.data ∧ s'.buf ≠ s'.data ∧
    (∃ s, getSV h a = some s ∧ s'.val = s.val ∧ s'.orbit = s.orbit) ∧
    ∀ k x, (k, Ref.addr x) ∈ s'.items → h.length ≤ x ∨ ∃ t, h[x]? = some (.man t) := by
  obtain ⟨hb, hd, hn, hne, s, items', h0, hs, hc, hv, hi, ho⟩ := copySVWith_getSV (copyRef_ok _) h h1 a n s' hr hg
  refine ⟨hn, hb, hd, hne, ⟨s, hs, hv, ho⟩, ?_⟩
  rw [hi]
  exact copyItems_fresh (copyRef_ok _) h s.items items' h0 hc

/-- the form setter applied to the object a copy returned writes only new cells -/
theorem setForm_on_copy_pres (h h1 : Heap) (a n : Nat) (name : String) (he : copySV h a = (h1, .ok n)) :
    Pres h (setForm h1 n name).1 := by
  have p : Pres h h1 := by have := copy_receiver_unchanged h a; rw [he] at this; exact this
  unfold setForm
  split
  · exact p
  · unfold setFormTo
    split
    · exact p
    · rename_i s' hs'
      obtain ⟨hb, hd, _⟩ := copySVWith_getSV (copyRef_ok _) h h1 a n s' he hs'
      exact (p.wr hb _).wr hd _

/-- `copy(form=…)`: the conversion runs on the new object and writes only its (new) buffer and dict — the
receiver is unchanged whether the conversion succeeds or fails -/
theorem copyForm_receiver_unchanged (h : Heap) (a : Nat) (name : String) : Pres h (copyForm h a name).1 := by
  unfold copyForm
  have p := copy_receiver_unchanged h a
  split
  · rename_i h1 e he; rw [he] at p; exact p
  · rename_i h1 n he
    have q := setForm_on_copy_pres h h1 a n name he
    split
    · rename_i h2 e he2; rw [he2] at q; exact q
    · rename_i h2 he2; rw [he2] at q; exact q

/-! ## StateVector ↔ Orbit -/

/-- `as_orbit` writes no pre-existing cell: the receiver and everything reachable from it is unchanged -/
theorem asOrbit_receiver_unchanged (h : Heap) (a p : Nat) : Pres h (asOrbit h a p).1 := by
  unfold asOrbit
  split
  · exact Pres.refl h
  · have q := copy_receiver_unchanged h a
    split
    · rename_i h1 e he; rw [he] at q; exact q
    · rename_i h1 c he
      rw [he] at q
      split
      · exact q
      · exact ((q.alloc _).alloc _).alloc _

theorem asSV_receiver_unchanged (h : Heap) (a : Nat) : Pres h (asSV h a).1 := by
  unfold asSV
  split
  · exact Pres.refl h
  · split
    · exact Pres.refl h
    · have q := copy_receiver_unchanged h a
      split
      · rename_i h1 e he; rw [he] at q; exact q
      · rename_i h1 c he
        rw [he] at q
        split
        · exact q
        · exact ((q.alloc _).alloc _).alloc _

/-! ## pickle round trip -/

/-- pickling writes nothing -/
theorem pickle_receiver_unchanged (h : Heap) (a : Nat) : Pres h (pickle h a).1 := by
  have inv0 : DeepInv (fun x => h.length ≤ x) h { h := h } := ⟨Pres.refl h, ClosedP.refl _ h, by simp⟩
  have hd := deepRef_ok (P := fun x => h.length ≤ x) (h0 := h) (fun _ hx => hx) deepFuel { h := h } (.addr a) inv0
  unfold pickle
  split
  · rename_i st r he
    rw [he] at hd
    split
    · exact hd.1.pres
    · exact hd.1.pres
  · rename_i st he; rw [he] at hd; exact hd.1.pres

/- History: until /repo commits 27f7ad7 / 2927581 the unpickled object was unusable (`self.base is None`) and its
   covariance had lost `_data`; the model then carried `owned` / `ok` flags and the witnesses
   `pickle_gives_unusable_object`, `pickle_then_copy_raises`. -/
/-- the unpickled object shares *nothing* with the original: it is a new cell and every address stored in any
cell created by the round trip is itself new (so nothing reachable from it existed before) -/
theorem pickle_separate (h h1 : Heap) (a n : Nat) (hr : pickle h a = (h1, .ok n)) :
    h.length ≤ n ∧ ClosedP (fun x => h.length ≤ x) h h1 := by
  have inv0 : DeepInv (fun x => h.length ≤ x) h { h := h } := ⟨Pres.refl h, ClosedP.refl _ h, by simp⟩
  have hd := deepRef_ok (P := fun x => h.length ≤ x) (h0 := h) (fun _ hx => hx) deepFuel { h := h } (.addr a) inv0
  unfold pickle at hr
  split at hr
  · rename_i st r he
    rw [he] at hd
    split at hr
    · rename_i m
      simp at hr
      rw [← hr.1, ← hr.2]
      exact ⟨hd.2 m rfl, hd.1.closed⟩
    · simp at hr
  · simp at hr


/-! ## full-depth separation -/

/-- `b` is reachable from `a` by following stored addresses -/
inductive Reach (h : Heap) : Nat → Nat → Prop
  | refl (a : Nat) : Reach h a a
  | step {a b x : Nat} {c : Cell} : Reach h a b → h[b]? = some c → x ∈ refsOf c → Reach h a x

/- History: until /repo commit 27f7ad7 only `copy_separate_depth1` held (nested metadata containers stayed shared,
   counter-witness `copy_shares_maneuver_objects_and_nested_containers`); the maneuver objects are still shared (open
   finding, deliberately), which is why they appear as the one exception below. -/
/-- clause "a copy shares no mutable data with the original", at full depth: in a well-formed heap (no dangling
address; every `maneuvers` entry a list of maneuver objects), after `c = sv.copy()` the old heap is intact, `c`
is a new cell, and every address stored in *any* cell the copy created is itself new or is a maneuver object -/
theorem copy_separate (h h1 : Heap) (a n : Nat) (wf : WfM h) (hr : copySV h a = (h1, .ok n)) :
    Sep h h1 ∧ h.length ≤ n := by
  have ha : a < h.length := by
    unfold copySV copySVWith at hr
    split at hr
    · simp at hr
    · rename_i s hs
      exact (List.getElem?_eq_some_iff.mp (getSV_cells h a s hs).1).1
  have hs := copySVWith_sep wf (copyRef_sep wf copyFuel) h (Sep.refl h) a ha
  unfold copySV at hr
  rw [hr] at hs
  obtain ⟨_, _, _, _, _, hl, hn, _⟩ := copySVWith_spec (copyRef_ok copyFuel) h h1 a n hr
  exact ⟨hs, by omega⟩

/-- everything reachable from a new cell of a separated heap is new or a maneuver object -/
theorem reach_good {h0 h1 : Heap} (sep : Sep h0 h1) {n x : Nat} (hn : h0.length ≤ n) (hr : Reach h1 n x) : Good h0 x := by
  induction hr with
  | refl => exact Good.new hn
  | step hab hc hx ih =>
    rename_i b x c
    rcases ih with hnew | ⟨t, ht⟩
    · exact sep.closed b c hnew hc x hx
    · have hlt : b < h0.length := (List.getElem?_eq_some_iff.mp ht).1
      rw [sep.pres.2 b hlt, ht] at hc
      simp at hc; subst hc
      simp [refsOf] at hx

/-- everything reachable from an old cell is old -/
theorem reach_old {h0 h1 : Heap} (wf : WfM h0) (p : Pres h0 h1) {a x : Nat} (ha : a < h0.length) (hr : Reach h1 a x) :
    x < h0.length := by
  induction hr with
  | refl => exact ha
  | step hab hc hx ih =>
    rename_i b x c
    rw [p.2 b ih] at hc
    exact wf.closed b c hc x hx

/-- the clause in terms of reachability: after `c = sv.copy()`, a cell reachable both from the copy and from the
receiver is a maneuver object — nothing else (no buffer, dict, list, array, covariance, propagator, private
state) is shared, at any depth -/
theorem copy_shares_only_maneuver_objects (h h1 : Heap) (a n x : Nat) (wf : WfM h) (hr : copySV h a = (h1, .ok n))
    (ha : a < h.length) (hx1 : Reach h1 n x) (hx2 : Reach h1 a x) : ∃ t, h[x]? = some (.man t) := by
  obtain ⟨sep, hn⟩ := copy_separate h h1 a n wf hr
  have hold := reach_old wf sep.pres ha hx2
  rcases reach_good sep hn hx1 with hnew | hman
  · omega
  · exact hman

/-- `copy(form=…)` at full depth: whether the conversion succeeds or fails, the heap it leaves is separated from the old
one — the receiver and everything reachable from it is intact, and every address stored in a cell created on the way
is new or a maneuver object (the setter runs on the new object and stores nothing that was not already there) -/
theorem copyForm_separate (h : Heap) (a : Nat) (name : String) (wf : WfM h) : Sep h (copyForm h a name).1 := by
  unfold copyForm
  split
  · rename_i h1 e he
    have ha : a < h.length ∨ ¬ a < h.length := Nat.lt_or_ge a h.length |>.imp id Nat.not_lt.mpr
    rcases ha with ha | ha
    · have hs := copySVWith_sep wf (copyRef_sep wf copyFuel) h (Sep.refl h) a ha
      unfold copySV at he; rw [he] at hs; exact hs
    · unfold copySV copySVWith at he
      have : getSV h a = none := by
        unfold getSV
        have : h[a]? = none := by simp; omega
        rw [this]
      rw [this] at he
      simp at he; rw [← he.1]; exact Sep.refl h
  · rename_i h1 n he
    obtain ⟨sep, hn⟩ := copy_separate h h1 a n wf he
    have q : Sep h (setForm h1 n name).1 := by
      unfold setForm
      split
      · exact sep
      · unfold setFormTo
        split
        · exact sep
        · rename_i s' hs'
          obtain ⟨hb, hd, _⟩ := copySVWith_getSV (copyRef_ok _) h h1 a n s' he hs'
          have := setFormTo_sep sep n s' hs' hb hd ‹String›
          unfold setFormTo at this; rw [hs'] at this; exact this
    split
    · rename_i h2 e he2; rw [he2] at q; exact q
    · rename_i h2 he2; rw [he2] at q; exact q

/-- `copy(frame=…)` at full depth, success or failure (incl. a transformation that raises half-way and a covariance that
follows the state): the frame change writes the new buffer and dict, the new covariance object and ITS OWN new buffer —
the receiver, its covariance and the covariance's buffer are intact -/
theorem copyFrame_separate (h : Heap) (a : Nat) (name : String) (wf : WfM h) : Sep h (copyFrame h a name).1 := by
  unfold copyFrame
  split
  · rename_i h1 e he
    have ha : a < h.length ∨ ¬ a < h.length := Nat.lt_or_ge a h.length |>.imp id Nat.not_lt.mpr
    rcases ha with ha | ha
    · have hs := copySVWith_sep wf (copyRef_sep wf copyFuel) h (Sep.refl h) a ha
      unfold copySV at he; rw [he] at hs; exact hs
    · unfold copySV copySVWith at he
      have : getSV h a = none := by
        unfold getSV
        have : h[a]? = none := by simp; omega
        rw [this]
      rw [this] at he
      simp at he; rw [← he.1]; exact Sep.refl h
  · rename_i h1 n he
    obtain ⟨sep, hn⟩ := copy_separate h h1 a n wf he
    have q : Sep h (setFrame h1 n name).1 := by
      unfold setFrame
      split
      · exact sep
      · rename_i fr hfr
        unfold setFrameTo
        split
        · exact sep
        · rename_i s' hs'
          obtain ⟨hb, hd, _⟩ := copySVWith_getSV (copyRef_ok _) h h1 a n s' he hs'
          have := setFrameTo_sep sep n s' hs' hb hd fr noEnv
          unfold setFrameTo at this; rw [hs'] at this; exact this
    split
    · rename_i h2 e he2; rw [he2] at q; exact q
    · rename_i h2 he2; rw [he2] at q; exact q

/-- `copy(frame=…)`: the receiver and its covariance are unchanged whether the change succeeds or fails -/
theorem copyFrame_receiver_unchanged (h : Heap) (a : Nat) (name : String) (wf : WfM h) : Pres h (copyFrame h a name).1 :=
  (copyFrame_separate h a name wf).pres

/-- the hypotheses of `copy_separate` are satisfiable: the example heap is well-formed and its copy succeeds -/
theorem example_heap_wf : WfM C15Ex.h0 := by
  constructor
  · intro a c hc x hx
    have ha : a < 7 := (List.getElem?_eq_some_iff.mp hc).1
    have hcases : a = 0 ∨ a = 1 ∨ a = 2 ∨ a = 3 ∨ a = 4 ∨ a = 5 ∨ a = 6 := by omega
    rcases hcases with rfl | rfl | rfl | rfl | rfl | rfl | rfl <;>
      (simp [C15Ex.h0] at hc; subst hc; simp [refsOf] at hx; try (simp [C15Ex.h0]; omega))
  · intro d items l hd hm
    have ha : d < 7 := (List.getElem?_eq_some_iff.mp hd).1
    have hcases : d = 0 ∨ d = 1 ∨ d = 2 ∨ d = 3 ∨ d = 4 ∨ d = 5 ∨ d = 6 := by omega
    rcases hcases with rfl | rfl | rfl | rfl | rfl | rfl | rfl <;> simp [C15Ex.h0] at hd
    · subst hd; simp at hm
    · subst hd
      simp at hm
      subst hm
      exact ⟨[.addr 1], by simp [C15Ex.h0], fun x hx => by simp at hx; subst hx; exact ⟨0, by simp [C15Ex.h0]⟩⟩

example : (copySV C15Ex.h0 6).2 = .ok 12 := by decide +kernel

/-- `as_orbit`: every address stored in a cell it created is new, a maneuver object, or the propagator it was given -/
theorem asOrbit_separate (h h1 : Heap) (a p n : Nat) (wf : WfM h) (hr : asOrbit h a p = (h1, .ok n)) :
    Pres h h1 ∧ h.length ≤ n ∧ ClosedP (fun x => Good h x ∨ x = p) h h1 := by
  have hp := asOrbit_receiver_unchanged h a p
  rw [hr] at hp
  unfold asOrbit at hr
  split at hr
  · simp at hr
  · rename_i s hs
    split at hr
    · simp at hr
    · rename_i hc c he
      obtain ⟨sep, hcn⟩ := copy_separate h hc a c wf he
      split at hr
      · simp at hr
      · rename_i sc hsc
        simp [alloc] at hr
        obtain ⟨_, _, hdcell⟩ := getSV_cells hc c sc hsc
        obtain ⟨_, hdd, _⟩ := copySVWith_getSV (copyRef_ok _) h hc a c sc he hsc
        have hgood : ∀ x ∈ refsOf (.dict sc.items), Good h x := sep.closed sc.data _ hdd hdcell
        have q0 : ClosedP (fun x => Good h x ∨ x = p) h hc := fun a' c' ha' hc' x hx => Or.inl (sep.closed a' c' ha' hc' x hx)
        have hlen : h.length ≤ hc.length := sep.pres.1
        have q1 := q0.alloc (.buf s.val) (by simp [refsOf])
        have q2 := q1.alloc (.dict (insert "propagator" (.addr p) sc.items)) (by
          intro x hx
          rcases refs_insert hx with h1' | h1'
          · right; injection h1' with h1'; exact h1'.symm
          · left; exact hgood x h1')
        have q3 := q2.alloc (.sv true hc.length (hc.length + 1)) (by
          intro x hx
          simp [refsOf] at hx
          rcases hx with rfl | rfl
          · left; exact Good.new hlen
          · left; exact Good.new (by omega))
        refine ⟨hp, by omega, ?_⟩
        rw [← hr.1]
        simpa [alloc] using q3

/-- `as_statevector`: every address stored in a cell it created is new or a maneuver object -/
theorem asSV_separate (h h1 : Heap) (a n : Nat) (wf : WfM h) (hr : asSV h a = (h1, .ok n)) :
    Sep h h1 ∧ h.length ≤ n := by
  unfold asSV at hr
  split at hr
  · simp at hr
  · rename_i s hs
    split at hr
    · simp at hr
    · split at hr
      · simp at hr
      · rename_i hc c he
        obtain ⟨sep, hcn⟩ := copy_separate h hc a c wf he
        split at hr
        · simp at hr
        · rename_i sc hsc
          simp [alloc] at hr
          obtain ⟨_, _, hdcell⟩ := getSV_cells hc c sc hsc
          obtain ⟨_, hdd, _⟩ := copySVWith_getSV (copyRef_ok _) h hc a c sc he hsc
          have hgood : ∀ x ∈ refsOf (.dict sc.items), Good h x := sep.closed sc.data _ hdd hdcell
          have hlen : h.length ≤ hc.length := sep.pres.1
          have q1 := sep.al (.buf s.val) (by simp [refsOf])
          have q2 := q1.al (.dict (erase "propagator" sc.items)) (fun x hx => hgood x (refs_erase hx))
          have q3 := q2.al (.sv false hc.length (hc.length + 1)) (by
            intro x hx
            simp [refsOf] at hx
            rcases hx with rfl | rfl
            · exact Good.new hlen
            · exact Good.new (by omega))
          refine ⟨?_, by omega⟩
          rw [← hr.1]
          simpa [alloc] using q3


/-! ## StateVector → Orbit → StateVector preserves values and metadata -/

theorem lookup_erase_ne (k k' : String) (items : Items) (hne : k' ≠ k) : lookup k' (erase k items) = lookup k' items := by
  induction items with
  | nil => simp [erase]
  | cons kv rest ih =>
    obtain ⟨k2, v2⟩ := kv
    by_cases h : k2 = k
    · subst h; simp [erase, lookup, Ne.symm hne]
    · by_cases h2 : k2 = k'
      · subst h2; simp [erase, lookup, h]
      · simp [erase, lookup, h, h2, ih]

/-- an immutable value (anything but an address) is handed over as it is -/
theorem copyRef_nonaddr (fuel : Nat) (h : Heap) (k : String) (r : Ref) (hr : ∀ a, r ≠ .addr a) :
    copyRef (fuel + 1) h k r = (h, .ok r) := by
  unfold copyRef
  have hc : isContainer h r = false := by
    unfold isContainer
    split
    · rename_i a; exact absurd rfl (hr a)
    · rfl
  simp [hc]
  try (split
       · rename_i a; exact absurd rfl (hr a)
       · rfl)

theorem copyItems_lookup (fuel : Nat) (items items' : Items) (h h' : Heap)
    (hc : copyItems (copyRef (fuel + 1)) h items = (h', .ok items')) (key : String) (hkey : key ≠ "infos") :
    (lookup key items = none → lookup key items' = none) ∧
    (∀ r, (∀ a, r ≠ .addr a) → lookup key items = some r → lookup key items' = some r) := by
  induction items generalizing h h' items' with
  | nil => simp [copyItems] at hc; rw [hc.2]; simp [lookup]
  | cons kv rest ih =>
    obtain ⟨k0, v⟩ := kv
    unfold copyItems at hc
    split at hc
    · rename_i hk
      have hne : ¬ k0 = key := by intro he; exact hkey (he ▸ hk)
      simp [lookup, hne]
      exact ih items' h h' hc
    split at hc
    · simp at hc
    · rename_i h1 v' he
      split at hc
      · simp at hc
      · rename_i h2 rest' he2
        simp at hc
        rw [← hc.2]
        have ihr := ih rest' h1 h2 he2
        by_cases hk : k0 = key
        · subst hk
          simp [lookup]
          intro r hr hv
          subst hv
          rw [copyRef_nonaddr fuel h k0 v hr] at he
          simp at he; exact he.2.symm
        · simp [lookup, hk]; exact ihr

/-- /repo a12f060: whatever the first-level values are copied with, the dict `copy()` builds has no `infos` entry -/
theorem copyItems_no_infos {cp : Heap → String → Ref → Res Ref} (items items' : Items) (h h' : Heap)
    (hc : copyItems cp h items = (h', .ok items')) : lookup "infos" items' = none := by
  induction items generalizing h h' items' with
  | nil => simp [copyItems] at hc; rw [hc.2]; simp [lookup]
  | cons kv rest ih =>
    obtain ⟨k0, v⟩ := kv
    unfold copyItems at hc
    by_cases hk : k0 = "infos"
    · simp only [hk, if_true] at hc
      exact ih items' h h' hc
    · simp only [hk, if_false] at hc
      split at hc
      · simp at hc
      · rename_i h1 v' he
        split at hc
        · simp at hc
        · rename_i h2 rest' he2
          simp at hc
          rw [← hc.2]
          simp [lookup, hk]
          exact ih rest' h1 h2 he2

theorem getSV_of_cells (h : Heap) (a b d : Nat) (o : Bool) (v : Val) (items : Items) (s : SV)
    (hc : h[a]? = some (.sv o b d)) (hb : h[b]? = some (.buf v)) (hd : h[d]? = some (.dict items))
    (hg : getSV h a = some s) :
    s.val = v ∧ s.items = items ∧ s.orbit = o ∧ formOf items = some s.form ∧ frameOf items = some s.frame := by
  unfold getSV at hg
  rw [hc] at hg
  simp only [hb, hd] at hg
  split at hg
  · rename_i f fr hf hfr
    simp at hg; subst hg; exact ⟨rfl, rfl, rfl, hf, hfr⟩
  · simp at hg

theorem getSV_form (h : Heap) (a : Nat) (s : SV) (hg : getSV h a = some s) :
    formOf s.items = some s.form ∧ frameOf s.items = some s.frame := by
  obtain ⟨hc, hb, hd⟩ := getSV_cells h a s hg
  exact (getSV_of_cells h a s.buf s.data s.orbit s.val s.items s hc hb hd hg).2.2.2

/-- rewriting the coordinate buffer of a state vector changes what is read back from it in the values only -/
theorem getSV_write_buf (h : Heap) (a : Nat) (s : SV) (v' : Val) (hs : getSV h a = some s) (hne : s.buf ≠ s.data) :
    getSV (write h s.buf (.buf v')) a = some { s with val := v' } := by
  obtain ⟨hc, hb, hd⟩ := getSV_cells h a s hs
  obtain ⟨hf, hfr⟩ := getSV_form h a s hs
  have hblt : s.buf < h.length := (List.getElem?_eq_some_iff.mp hb).1
  have hab : a ≠ s.buf := by intro he; rw [he, hb] at hc; simp at hc
  unfold getSV
  rw [write_other _ _ _ _ hab, hc]
  simp only [write_same _ _ _ hblt, write_other _ _ _ _ hne.symm, hd, hf, hfr]

/-- the label part of `setFrameBasic_error_atomic`, for every form the state may be held in: after a failing
transformation the object reads back with the form, frame and `_data` entries it had, and its values are either
untouched or the round trip form → cartesian → form of what it held — never cartesian values under a non-cartesian
form label (clause "a form or frame change that fails leaves the object in its previous, consistent form/frame/values") -/
theorem setFrameBasic_error_keeps_labels (h h' : Heap) (a : Nat) (fr : Fr) (env : Env) (e : Err) (s : SV)
    (hs : getSV h a = some s) (hne : s.buf ≠ s.data) (hr : setFrameBasic h a fr env = (h', .error e)) :
    ∃ s', getSV h' a = some s' ∧ s'.form = s.form ∧ s'.frame = s.frame ∧ s'.items = s.items ∧
      (s'.val = s.val ∨ s'.val = mkConv "cartesian" s.form (mkConv s.form "cartesian" s.val)) := by
  have key := fun v' => getSV_write_buf h a s v' hs hne
  unfold setFrameBasic at hr
  rw [hs] at hr
  simp only at hr
  split at hr
  · simp at hr
  · split at hr
    · split at hr
      · simp at hr; rw [← hr.1]; exact ⟨_, key _, rfl, rfl, rfl, Or.inr rfl⟩
      · simp at hr
    · simp at hr; rw [← hr.1]; exact ⟨_, key _, rfl, rfl, rfl, Or.inr rfl⟩
    · simp at hr; rw [← hr.1]; exact ⟨_, key _, rfl, rfl, rfl, Or.inr rfl⟩
    · simp at hr; rw [← hr.1]; exact ⟨s, hs, rfl, rfl, rfl, Or.inl rfl⟩

/- History: until /repo commit 45ca5d0 only `setFrame_error_atomic_partial` held (states whose covariance does not have to follow);
   the full statement was false: counter-witness `C15W.frame_change_fails_after_state_moved`, now a regression witness. -/
/-- clause "a form or frame change that fails leaves the object in its previous, consistent form/frame/values", in full: whatever
makes `sv.frame = name` raise — an unknown name, the Hill frame, a transformation the environment makes fail, the covariance
that has to follow and cannot be converted — and whatever form the state is held in: the object reads back with the form, frame
and `_data` entries it had and values denoting the same physical state (untouched, or the round trip form → cartesian → form) -/
theorem setFrame_error_atomic (h h' : Heap) (a : Nat) (name : String) (env : Env) (e : Err) (s : SV)
    (hs : getSV h a = some s) (hr : setFrame h a name env = (h', .error e)) :
    ∃ s', getSV h' a = some s' ∧ s'.form = s.form ∧ s'.frame = s.frame ∧ s'.items = s.items ∧ phys s'.val = phys s.val := by
  rcases setFrame_error_cases h h' a name env e s hs hr with h1 | ⟨fr, _, hb⟩
  · subst h1; exact ⟨s, hs, rfl, rfl, rfl, rfl⟩
  · obtain ⟨s', hs', hf, hfr, hi, hv⟩ := setFrameBasic_error_keeps_labels h h' a fr env e s hs (getSV_buf_ne_data h a s hs) hb
    refine ⟨s', hs', hf, hfr, hi, ?_⟩
    rcases hv with hv | hv
    · rw [hv]
    · rw [hv, phys_mkConv, phys_mkConv]

/-- … and every cell other than the coordinate buffer of the object is bit-identical: metadata, maneuvers, the covariance and its buffer -/
theorem setFrame_error_frame (h h' : Heap) (a : Nat) (name : String) (env : Env) (e : Err) (s : SV)
    (hs : getSV h a = some s) (hr : setFrame h a name env = (h', .error e)) :
    ∀ x, x ≠ s.buf → h'[x]? = h[x]? := by
  intro x hx
  rcases setFrame_error_cases h h' a name env e s hs hr with h1 | ⟨fr, _, hb⟩
  · rw [h1]
  · rcases setFrameBasic_error_atomic h h' a fr env e s hs hb with h1 | ⟨v', h1, _⟩
    · rw [h1]
    · rw [h1, write_other _ _ _ _ hx]

/-- the hypotheses of `setFrame_error_atomic` are satisfiable and its conclusion is not vacuous (the assignment does fail) -/
example : (∃ s, getSV C15Ex.h0 6 = some s ∧ lookup "cov" s.items = none) ∧ (setFrame C15Ex.h0 6 "Hill").2 = .error .value := by
  refine ⟨⟨_, rfl, by decide⟩, by decide +kernel⟩

/-- what `as_orbit` / `as_statevector` build: coordinates of the receiver, `_data` of a copy of the receiver with the
`propagator` entry set / removed -/
theorem asOrbit_result (h h1 : Heap) (a p n : Nat) (s sn : SV) (hs : getSV h a = some s)
    (hr : asOrbit h a p = (h1, .ok n)) (hn : getSV h1 n = some sn) :
    sn.val = s.val ∧ sn.orbit = true ∧
    ∃ hc items', copyItems (copyRef copyFuel) h s.items = (hc, .ok items') ∧ sn.items = insert "propagator" (.addr p) items' := by
  unfold asOrbit at hr
  rw [hs] at hr
  simp only at hr
  split at hr
  · simp at hr
  · rename_i hc c he
    split at hr
    · simp at hr
    · rename_i sc hsc
      obtain ⟨_, _, _, _, s0, items', h0, hs0, hci, _, hi, _⟩ := copySVWith_getSV (copyRef_ok _) h hc a c sc he hsc
      rw [hs] at hs0; simp at hs0; subst hs0
      simp [alloc] at hr
      obtain ⟨hh, hnn⟩ := hr
      subst hnn
      have c1 : h1[hc.length + 2]? = some (.sv true hc.length (hc.length + 1)) := by rw [← hh]; simp
      have c2 : h1[hc.length]? = some (.buf s.val) := by rw [← hh]; simp
      have c3 : h1[hc.length + 1]? = some (.dict (insert "propagator" (.addr p) sc.items)) := by rw [← hh]; simp
      obtain ⟨hv, hit, ho, _⟩ := getSV_of_cells h1 _ _ _ _ _ _ sn c1 c2 c3 hn
      exact ⟨hv, ho, h0, items', hci, by rw [hit, hi]⟩

theorem asSV_result (h h1 : Heap) (a n : Nat) (s sn : SV) (hs : getSV h a = some s)
    (hr : asSV h a = (h1, .ok n)) (hn : getSV h1 n = some sn) :
    sn.val = s.val ∧ sn.orbit = false ∧
    ∃ hc items', copyItems (copyRef copyFuel) h s.items = (hc, .ok items') ∧ sn.items = erase "propagator" items' := by
  unfold asSV at hr
  rw [hs] at hr
  simp only at hr
  split at hr
  · simp at hr
  · split at hr
    · simp at hr
    · rename_i hc c he
      split at hr
      · simp at hr
      · rename_i sc hsc
        obtain ⟨_, _, _, _, s0, items', h0, hs0, hci, _, hi, _⟩ := copySVWith_getSV (copyRef_ok _) h hc a c sc he hsc
        rw [hs] at hs0; simp at hs0; subst hs0
        simp [alloc] at hr
        obtain ⟨hh, hnn⟩ := hr
        subst hnn
        have c1 : h1[hc.length + 2]? = some (.sv false hc.length (hc.length + 1)) := by rw [← hh]; simp
        have c2 : h1[hc.length]? = some (.buf s.val) := by rw [← hh]; simp
        have c3 : h1[hc.length + 1]? = some (.dict (erase "propagator" sc.items)) := by rw [← hh]; simp
        obtain ⟨hv, hit, ho, _⟩ := getSV_of_cells h1 _ _ _ _ _ _ sn c1 c2 c3 hn
        exact ⟨hv, ho, h0, items', hci, by rw [hit, hi]⟩

/- History: until /repo commit a12f060 `copy()` handed the `Infos` helper kept under `infos` (it has no `copy`) over to the new object:
   the copy — and everything built on `copy()` — held a helper bound to the ORIGINAL (open finding C15-copy-hands-over-infos-helper,
   witness `copy_hands_over_infos_entry`, now a regression witness). -/
/-- clause "a copy shares no mutable data with the original", for the helper object a getter keeps in `_data`: the object `copy()`
returns has no `infos` entry at all — no cell of it refers to the original through a helper; its getter builds its own (`getInfos_own`).
For every heap, whatever was read before -/
theorem copy_drops_infos (h h1 : Heap) (a n : Nat) (s' : SV) (hr : copySV h a = (h1, .ok n)) (hg : getSV h1 n = some s') :
    lookup "infos" s'.items = none := by
  obtain ⟨_, _, _, _, s, items', h0, _, hc, _, hi, _⟩ := copySVWith_getSV (copyRef_ok _) h h1 a n s' hr hg
  rw [hi]
  exact copyItems_no_infos s.items items' h h0 hc

theorem lookup_erase_none (k k' : String) (items : Items) (hl : lookup k' items = none) : lookup k' (erase k items) = none := by
  induction items with
  | nil => simp [erase, lookup]
  | cons kv rest ih =>
    obtain ⟨k2, v2⟩ := kv
    by_cases h2 : k2 = k'
    · simp [lookup, h2] at hl
    · simp [lookup, h2] at hl
      by_cases h : k2 = k
      · simp [erase, h, hl]
      · simp [erase, h, lookup, h2, ih hl]

/-- the same for the Orbit `as_orbit` builds and the StateVector `as_statevector` builds -/
theorem asOrbit_drops_infos (h h1 : Heap) (a p n : Nat) (s sn : SV) (hs : getSV h a = some s)
    (hr : asOrbit h a p = (h1, .ok n)) (hn : getSV h1 n = some sn) : lookup "infos" sn.items = none := by
  obtain ⟨_, _, hc, items', hci, hit⟩ := asOrbit_result h h1 a p n s sn hs hr hn
  rw [hit, lookup_insert_ne _ _ _ _ (by decide)]
  exact copyItems_no_infos s.items items' h hc hci

theorem asSV_drops_infos (h h1 : Heap) (a n : Nat) (s sn : SV) (hs : getSV h a = some s)
    (hr : asSV h a = (h1, .ok n)) (hn : getSV h1 n = some sn) : lookup "infos" sn.items = none := by
  obtain ⟨_, _, hc, items', hci, hit⟩ := asSV_result h h1 a n s sn hs hr hn
  rw [hit]
  exact lookup_erase_none _ _ _ (copyItems_no_infos s.items items' h hc hci)

/- History: before /repo commit 27f7ad7 `as_orbit` / `as_statevector` handed the receiver's `_data` values over as they
   were, so the statement was "exactly the same `_data` entries" (and `asOrbit_same_references`, the theorem behind the
   sharing finding). Now both go through `copy()`: mutable values come back as copies (their content is compared by
   the correspondence run), immutable ones as they are. -/
/-- clause "converting between StateVector and Orbit preserves values and metadata": the StateVector that comes back
from StateVector → Orbit → StateVector has the receiver's coordinates, form and frame, is not an Orbit, and every
immutable `_data` entry (date, strings, numbers, form, frame …) is found under its key unchanged -/
theorem as_orbit_as_statevector_id (h h1 h2 : Heap) (a p n m : Nat) (s s2 : SV) (hs : getSV h a = some s)
    (h1r : asOrbit h a p = (h1, .ok n)) (h2r : asSV h1 n = (h2, .ok m)) (hs2 : getSV h2 m = some s2) :
    s2.val = s.val ∧ s2.orbit = false ∧ s2.form = s.form ∧ s2.frame = s.frame ∧
    ∀ key r, key ≠ "propagator" → key ≠ "infos" → (∀ x, r ≠ .addr x) → lookup key s.items = some r → lookup key s2.items = some r := by
  -- the intermediate Orbit exists because `asSV` succeeded on it
  have hsn : ∃ sn, getSV h1 n = some sn := by
    unfold asSV at h2r
    split at h2r
    · simp at h2r
    · rename_i sn hsn; exact ⟨sn, hsn⟩
  obtain ⟨sn, hsn⟩ := hsn
  obtain ⟨hv1, _, hc1, it1, hci1, hit1⟩ := asOrbit_result h h1 a p n s sn hs h1r hsn
  obtain ⟨hv2, ho2, hc2, it2, hci2, hit2⟩ := asSV_result h1 h2 n m sn s2 hsn h2r hs2
  have hkey : ∀ key r, key ≠ "propagator" → key ≠ "infos" → (∀ x, r ≠ .addr x) → lookup key s.items = some r → lookup key s2.items = some r := by
    intro key r hk hki hr hl
    have l1 := (copyItems_lookup _ s.items it1 h hc1 hci1 key hki).2 r hr hl
    have l2 : lookup key sn.items = some r := by rw [hit1, lookup_insert_ne _ _ _ _ hk]; exact l1
    have l3 := (copyItems_lookup _ sn.items it2 h1 hc2 hci2 key hki).2 r hr l2
    rw [hit2, lookup_erase_ne _ _ _ hk]; exact l3
  have hf := getSV_form h a s hs
  have hf2 := getSV_form h2 m s2 hs2
  refine ⟨by rw [hv2, hv1], ho2, ?_, ?_, hkey⟩
  · have hl : lookup "form" s.items = some (.form s.form) := by
      have := hf.1; unfold formOf at this
      split at this
      · rename_i f hl; simp at this; subst this; exact hl
      · simp at this
    have hl2 := hkey "form" _ (by decide) (by decide) (by intro x; simp) hl
    have := hf2.1; unfold formOf at this; rw [hl2] at this; simp at this; exact this.symm
  · have hl : lookup "frame" s.items = some (.frame s.frame) := by
      have := hf.2; unfold frameOf at this
      split at this
      · rename_i f hl; simp at this; subst this; exact hl
      · simp at this
    have hl2 := hkey "frame" _ (by decide) (by decide) (by intro x; simp) hl
    have := hf2.2; unfold frameOf at this; rw [hl2] at this; simp at this; exact this.symm

/-! ## histories: any sequence of in-place operations on the copy -/

/-- the in-place operations of the public API (the ones the correspondence run drives on real objects), with their arguments -/
inductive Mut
  | setForm (name : String)
  | setFrame (name : String) (env : Env)
  | setAttr (name : String) (x : Nat)
  | setIdx (i x : Nat)
  | covFrame (name : String)
  | readMan
  | addMan (t : Nat)
  | metaAppend (key : String) (x : Nat)
  | metaSetItem (key : String) (x : Nat)
  | nestedAppend (x : Nat)
  | arrSet
  | readInfos

/-- the heap an operation leaves behind, whether it succeeds or raises -/
def Mut.run (h : Heap) (n : Nat) : Mut → Heap
  | .setForm name => (Heap.setForm h n name).1
  | .setFrame name env => (Heap.setFrame h n name env).1
  | .setAttr name x => (Heap.setAttr h n name x).1
  | .setIdx i x => (Heap.setIdx h n i x).1
  | .covFrame name => (Heap.covFrame h n name).1
  | .readMan => (Heap.readMan h n).1
  | .addMan t => (Heap.addMan h n t).1
  | .metaAppend key x => (Heap.metaAppend h n key x).1
  | .metaSetItem key x => (Heap.metaSetItem h n key x).1
  | .nestedAppend x => (Heap.nestedAppend h n x).1
  | .arrSet => (Heap.arrSet h n).1
  | .readInfos => (Heap.readInfos h n).1

/-- one in-place operation — successful or failing, on coordinates, form, frame (incl. a transformation the environment
makes fail), metadata key, metadata container (empty or not, nested or not), maneuver list (incl. the one the getter
creates on a mere read), covariance frame — applied to an object that is a new cell of a heap separated from `h0`
writes only new cells and stores only `Good` addresses: the heap stays separated from `h0` -/
theorem mut_sep {h0 h : Heap} (sep : Sep h0 h) {n : Nat} (hn : h0.length ≤ n) (m : Mut) : Sep h0 (m.run h n) := by
  cases m with
  | setForm name => exact setForm_sep' sep hn name
  | setFrame name env => exact setFrame_sep' sep hn name env
  | setAttr name x => exact setAttr_sep sep hn name x
  | setIdx i x => exact setIdx_sep sep hn i x
  | covFrame name => exact covFrame_sep sep hn name
  | readMan => exact readMan_sep sep hn
  | addMan t => exact addMan_sep sep hn t
  | metaAppend key x => exact metaAppend_sep sep hn key x
  | metaSetItem key x => exact metaSetItem_sep sep hn key x
  | nestedAppend x => exact nestedAppend_sep sep hn x
  | arrSet => exact arrSet_sep sep hn
  | readInfos => exact readInfos_sep sep hn

/-- a history: operations applied one after the other, each to some object that did not exist in `h0` -/
def runMuts (h : Heap) : List (Nat × Mut) → Heap
  | [] => h
  | (n, m) :: rest => runMuts (m.run h n) rest

theorem muts_sep {h0 : Heap} (ms : List (Nat × Mut)) (hnew : ∀ p ∈ ms, h0.length ≤ p.1) :
    ∀ h, Sep h0 h → Sep h0 (runMuts h ms) := by
  induction ms with
  | nil => intro h sep; exact sep
  | cons p rest ih =>
    intro h sep
    obtain ⟨n, m⟩ := p
    exact ih (fun q hq => hnew q (List.mem_cons_of_mem _ hq)) _ (mut_sep sep (hnew (n, m) List.mem_cons_self) m)

/-- clause "changing coordinates, metadata, maneuvers or covariance of one never shows in the other", over histories:
after `c = sv.copy()`, ANY sequence of in-place operations on the copy (of any length, each succeeding or raising)
leaves every cell that existed before the copy — the receiver, its buffer, `_data`, containers at any depth, maneuver
list, covariance and the covariance's buffer — bit-identical; and the heap stays separated, so the statement
keeps holding for whatever is done next -/
theorem copy_then_mutations_invisible (h h1 : Heap) (a n : Nat) (wf : WfM h) (hr : copySV h a = (h1, .ok n))
    (ms : List Mut) : Pres h (runMuts h1 (ms.map (fun m => (n, m)))) ∧ Sep h (runMuts h1 (ms.map (fun m => (n, m)))) := by
  obtain ⟨sep, hn⟩ := copy_separate h h1 a n wf hr
  have := muts_sep (h0 := h) (ms.map (fun m => (n, m))) (by
    intro p hp
    obtain ⟨m, _, rfl⟩ := List.mem_map.mp hp
    exact hn) h1 sep
  exact ⟨this.pres, this⟩

example : (copySV C15Ex.h0 6).2 = .ok 12 ∧
    (runMuts (copySV C15Ex.h0 6).1 [(12, .addMan 5), (12, .setFrame "Hill" noEnv), (12, .metaAppend "nested" 1), (12, .setForm "keplerian")]).take 7 = C15Ex.h0 := by
  decide +kernel

/-- the same for the objects `as_statevector` returns -/
theorem asSV_then_mutations_invisible (h h1 : Heap) (a n : Nat) (wf : WfM h) (hr : asSV h a = (h1, .ok n))
    (ms : List Mut) : Pres h (runMuts h1 (ms.map (fun m => (n, m)))) := by
  obtain ⟨sep, hn⟩ := asSV_separate h h1 a n wf hr
  exact (muts_sep (h0 := h) (ms.map (fun m => (n, m))) (by
    intro p hp
    obtain ⟨m, _, rfl⟩ := List.mem_map.mp hp
    exact hn) h1 sep).pres

/-- … and for an unpickled object (which shares nothing at all) -/
theorem pickle_then_mutations_invisible (h h1 : Heap) (a n : Nat) (hr : pickle h a = (h1, .ok n))
    (ms : List Mut) : Pres h (runMuts h1 (ms.map (fun m => (n, m)))) := by
  obtain ⟨hn, hcl⟩ := pickle_separate h h1 a n hr
  have hp := pickle_receiver_unchanged h a
  rw [hr] at hp
  have sep : Sep h h1 := ⟨hp, fun a' c ha hc x hx => Good.new (hcl a' c ha hc x hx)⟩
  exact (muts_sep (h0 := h) (ms.map (fun m => (n, m))) (by
    intro p hp
    obtain ⟨m, _, rfl⟩ := List.mem_map.mp hp
    exact hn) h1 sep).pres

/-! ## histories, the mirror direction: any sequence of in-place operations on the ORIGINAL (or any object that is not the copy's) -/

theorem mut_out {lo hi : Nat} {h1 h : Heap} (o : Out lo hi h1 h) {a : Nat} (ha : Off lo hi a) (m : Mut) : Out lo hi h1 (m.run h a) := by
  cases m with
  | setForm name => exact setForm_out o ha name
  | setFrame name env => exact setFrame_out o ha name env
  | setAttr name x => exact setAttr_out o ha name x
  | setIdx i x => exact setIdx_out o ha i x
  | covFrame name => exact covFrame_out o ha name
  | readMan => exact readMan_out o ha
  | addMan t => exact addMan_out o ha t
  | metaAppend key x => exact metaAppend_out o ha key x
  | metaSetItem key x => exact metaSetItem_out o ha key x
  | nestedAppend x => exact nestedAppend_out o ha x
  | arrSet => exact arrSet_out o ha
  | readInfos => exact readInfos_out o ha

theorem muts_out {lo hi : Nat} {h1 : Heap} (ms : List (Nat × Mut)) (hoff : ∀ p ∈ ms, Off lo hi p.1) :
    ∀ h, Out lo hi h1 h → Out lo hi h1 (runMuts h ms) := by
  induction ms with
  | nil => intro h o; exact o
  | cons p rest ih =>
    intro h o
    obtain ⟨n, m⟩ := p
    exact ih (fun q hq => hoff q (List.mem_cons_of_mem _ hq)) _ (mut_out o (hoff (n, m) List.mem_cons_self) m)

/-- right after `c = sv.copy()` no cell outside the ones the copy created refers to one of them -/
theorem copy_region_out (h h1 : Heap) (a n : Nat) (wf : WfM h) (hr : copySV h a = (h1, .ok n)) :
    Out h.length h1.length h1 h1 := by
  have p : Pres h h1 := by have := copy_receiver_unchanged h a; rw [hr] at this; exact this
  refine ⟨Nat.le_refl _, fun _ _ _ => rfl, fun x c hx hc y hy => ?_⟩
  rcases hx with hx | hx
  · rw [p.2 x hx] at hc
    exact Or.inl (wf.closed x c hc y hy)
  · have := (List.getElem?_eq_some_iff.mp hc).1
    omega

/-- clause "changing coordinates, metadata, maneuvers or covariance of one never shows in the other", over histories, the other way
round: after `c = sv.copy()`, ANY sequence of in-place operations (each succeeding or raising) on the original — or on any object
that existed before or is created later — leaves every cell the copy consists of (its buffer, `_data`, containers at any depth,
maneuver list, covariance, the covariance's buffer and private state) bit-identical, and no cell outside them ever comes to refer
to one of them. (The maneuver OBJECTS are old cells shared with the original: open finding, not covered.) -/
theorem original_mutations_invisible (h h1 : Heap) (a n : Nat) (wf : WfM h) (hr : copySV h a = (h1, .ok n))
    (ms : List (Nat × Mut)) (hoff : ∀ p ∈ ms, p.1 < h.length ∨ h1.length ≤ p.1) :
    ∀ x, h.length ≤ x → x < h1.length → (runMuts h1 ms)[x]? = h1[x]? :=
  (muts_out ms hoff h1 (copy_region_out h h1 a n wf hr)).same

example : (copySV C15Ex.h0 6).2 = .ok 12 ∧
    ((runMuts (copySV C15Ex.h0 6).1 [(6, .addMan 5), (6, .setFrame "Hill" noEnv), (6, .metaAppend "nested" 1), (6, .setForm "keplerian")]).drop 7).take 6
      = (copySV C15Ex.h0 6).1.drop 7 := by
  decide +kernel

/-! ## constructors given an existing object, getters that create -/

theorem dateTok_noaddr (items : Items) (x : Nat) : dateTok items ≠ .addr x := by
  unfold dateTok
  split <;> simp

theorem ctor_items_refs (items : Items) (f : String) (fr : Fr) (p : Option Nat) (x : Nat)
    (hx : x ∈ refsOf (.dict ([("date", dateTok items), ("form", .form f), ("frame", .frame fr)] ++
      propItems p))) : p = some x := by
  obtain ⟨k, hk⟩ := mem_refs_dict.mp hx
  cases p with
  | none =>
    simp [propItems] at hk
    exact absurd hk.2.symm (dateTok_noaddr _ _)
  | some p' =>
    simp [propItems] at hk
    rcases hk with ⟨_, hk⟩ | ⟨_, hk⟩
    · exact absurd hk.symm (dateTok_noaddr _ _)
    · rw [hk]

/-- `StateVector(src, …)` / `Orbit(src, …, p)` (the constructor given an existing object as coordinates): nothing is
written; the object, its buffer and its dict are new cells and the only old address stored is the propagator
handed in — the coordinates live in a new buffer -/
theorem ctor_separate (h h1 : Heap) (a n : Nat) (p : Option Nat) (hr : ctor h a p = (h1, .ok n)) :
    Pres h h1 ∧ h.length ≤ n ∧ ClosedP (fun x => h.length ≤ x ∨ p = some x) h h1 := by
  unfold ctor at hr
  split at hr
  · simp at hr
  · rename_i s hs
    have q0 : ClosedP (fun x => h.length ≤ x ∨ p = some x) h h := ClosedP.refl _ h
    have q1 := q0.alloc (.buf s.val) (by simp [refsOf])
    have q2 := q1.alloc (.dict ([("date", dateTok s.items), ("form", .form s.form), ("frame", .frame s.frame)] ++
      propItems p)) (fun x hx => Or.inr (ctor_items_refs _ _ _ _ x hx))
    have q3 := q2.alloc (.sv p.isSome h.length (h.length + 1)) (by
      intro x hx
      simp [refsOf] at hx
      rcases hx with rfl | rfl
      · left; exact Nat.le_refl _
      · left; omega)
    have p3 := (((Pres.refl h).alloc (.buf s.val)).alloc (.dict ([("date", dateTok s.items), ("form", .form s.form), ("frame", .frame s.frame)] ++
      propItems p))).alloc (.sv p.isSome h.length (h.length + 1))
    simp [alloc] at hr q3 p3
    obtain ⟨hh, hn⟩ := hr
    subst hh
    exact ⟨p3, by omega, q3⟩

example : (ctor C15Ex.h0 6 none).2 = .ok 9 ∧ (getSV (ctor C15Ex.h0 6 none).1 9).map (fun s => (s.val, s.form, s.buf)) = some (.init 0, "cartesian", 7) := by
  decide +kernel

/-- `sv.cov = Cov(sv, values, frame)` — values given as a list / ndarray (`setCov`) or as an existing covariance (`covFrom`):
the only pre-existing cell that is rewritten is the `_data` dict of `sv` itself -/
theorem attachCov_frame (h : Heap) (a : Nat) (cv : Val) (cfr : Fr) (s : SV) (hs : getSV h a = some s) :
    ∀ x, x < h.length → x ≠ s.data → (attachCov h a cv cfr).1[x]? = h[x]? := by
  intro x hx hne
  unfold attachCov
  rw [hs]
  simp only
  have p := copy_receiver_unchanged h a
  split
  · rename_i h1 e he; rw [he] at p; exact p.2 x hx
  · rename_i h1 o he
    rw [he] at p
    split
    · exact p.2 x hx
    · rename_i s' hs'
      obtain ⟨hb, hd, _⟩ := copySVWith_getSV (copyRef_ok _) h h1 a o s' he hs'
      have p2 := (((p.wr hb (.buf (mkConv s'.form "cartesian" s'.val))).wr hd
        (.dict (insert "cov" .none (insert "form" (.form "cartesian") s'.items)))).alloc (.buf cv))
      have p3 := p2.alloc (.cov (alloc (write (write h1 s'.buf (.buf (mkConv s'.form "cartesian" s'.val))) s'.data
        (.dict (insert "cov" .none (insert "form" (.form "cartesian") s'.items)))) (.buf cv)).2 cfr o s.frame)
      simp only [alloc] at p3 ⊢
      rw [write_other _ _ _ _ hne]
      exact p3.2 x hx

/-- what `Cov(sv, values, frame)` builds: the covariance object stored under `cov` is a new cell, labelled `cfr`, and
its 6x6 buffer is a NEW cell holding the values given — whatever they were taken from (`np.array(values)` copies) -/
theorem attachCov_result (h h' : Heap) (a : Nat) (cv : Val) (cfr : Fr) (s : SV) (hs : getSV h a = some s)
    (hr : attachCov h a cv cfr = (h', .ok ())) :
    ∃ c nb o, h'[s.data]? = some (.dict (insert "cov" (.addr c) s.items)) ∧ h'[c]? = some (.cov nb cfr o s.frame) ∧
      h'[nb]? = some (.buf cv) ∧ h.length ≤ c ∧ h.length ≤ nb ∧ h.length ≤ o := by
  obtain ⟨_, _, hdcell⟩ := getSV_cells h a s hs
  have hdlt : s.data < h.length := (List.getElem?_eq_some_iff.mp hdcell).1
  unfold attachCov at hr
  rw [hs] at hr
  simp only at hr
  have p := copy_receiver_unchanged h a
  split at hr
  · simp at hr
  · rename_i h1 o he
    rw [he] at p
    split at hr
    · simp at hr
    · rename_i s' hs'
      obtain ⟨hb, hd, ho, _⟩ := copySVWith_getSV (copyRef_ok _) h h1 a o s' he hs'
      have hlen : h.length ≤ h1.length := p.1
      simp only [alloc] at hr
      have hh := (Prod.mk.inj hr).1
      have hsd : s.data < h1.length := by omega
      refine ⟨h1.length + 1, h1.length, o, ?_, ?_, ?_, by omega, by omega, ho⟩
      · rw [← hh, write_same _ _ _ (by simp [write]; omega)]
        simp [write]
      · rw [← hh, write_other _ _ _ _ (by omega)]
        simp [write]
      · rw [← hh, write_other _ _ _ _ (by omega)]
        simp [write]

/-- clause "shares no mutable data", for the constructor branch `values is a Cov` (`b.cov = Cov(b, a.cov, None)`): the
covariance of the source, its buffer and every other pre-existing cell except the `_data` dict of `b` are untouched -/
theorem covFrom_frame (h : Heap) (a src : Nat) (s : SV) (hs : getSV h a = some s) :
    ∀ x, x < h.length → x ≠ s.data → (covFrom h a src).1[x]? = h[x]? := by
  intro x hx hne
  unfold covFrom
  rw [hs]
  split
  · rename_i s0 sb hs0 hsb
    split
    · split
      · split
        · exact attachCov_frame h a _ _ s hs x hx hne
        · rfl
      · rfl
    · rfl
  · rfl

/-- the `maneuvers` getter on a state that never had a maneuver list: the (empty, mutable) list it creates is a NEW cell
— no two objects are handed the same one —, the only pre-existing cell rewritten is the object's own `_data` dict -/
theorem getMans_creates_new (h h' : Heap) (a l : Nat) (s : SV) (hs : getSV h a = some s)
    (hnone : lookup "maneuvers" s.items = none) (hr : getMans h a = (h', .ok l)) :
    l = h.length ∧ h'[l]? = some (.list []) ∧ h'[s.data]? = some (.dict (insert "maneuvers" (.addr l) s.items)) ∧
    ∀ x, x < h.length → x ≠ s.data → h'[x]? = h[x]? := by
  obtain ⟨_, _, hdcell⟩ := getSV_cells h a s hs
  have hdlt : s.data < h.length := (List.getElem?_eq_some_iff.mp hdcell).1
  unfold getMans at hr
  rw [hs] at hr
  simp only [hnone, alloc] at hr
  have hh := (Prod.mk.inj hr).1
  have hl := Except.ok.inj (Prod.mk.inj hr).2
  subst hl
  refine ⟨rfl, ?_, ?_, ?_⟩
  · rw [← hh, write_other _ _ _ _ (by omega)]; simp
  · rw [← hh, write_same _ _ _ (by simp; omega)]
  · intro x hx hne
    rw [← hh, write_other _ _ _ _ hne]
    simp [List.getElem?_append_left hx]

/-- when the list exists the getter returns it and writes nothing -/
theorem getMans_existing (h : Heap) (a l : Nat) (s : SV) (hs : getSV h a = some s)
    (hl : lookup "maneuvers" s.items = some (.addr l)) : getMans h a = (h, .ok l) := by
  unfold getMans
  rw [hs]
  simp only [hl]

/-! ## methods that return a new state object: `Frame.transform` called directly -/

theorem copyForm_ok_new (h h1 : Heap) (a n : Nat) (name : String) (wf : WfM h) (hr : copyForm h a name = (h1, .ok n)) : h.length ≤ n := by
  unfold copyForm at hr
  split at hr
  · simp at hr
  · rename_i h0 n0 he
    split at hr
    · simp at hr
    · simp at hr
      rw [← hr.2]
      exact (copy_separate h h0 a n0 wf he).2

/-- clause "conversion methods that return a new object … share no mutable data": the object `frame.transform(sv, new_frame)` returns
is a new cell and every address stored in a cell created on the way is new or a maneuver object — covariance, maneuver list, metadata
containers, propagator are copies; the argument is untouched (also when the transformation raises) -/
theorem transformObj_separate (h : Heap) (a : Nat) (fr : Fr) (wf : WfM h) :
    Sep h (transformObj h a fr).1 ∧ ∀ n, (transformObj h a fr).2 = .ok n → h.length ≤ n := by
  unfold transformObj
  split
  · exact ⟨Sep.refl h, fun n hn => by simp at hn⟩
  · rename_i s hs
    split
    · exact ⟨Sep.refl h, fun n hn => by simp at hn⟩
    · have sc := copyForm_separate h a "cartesian" wf
      split
      · rename_i h1 e he; rw [he] at sc; exact ⟨sc, fun n hn => by simp at hn⟩
      · rename_i h1 n he
        rw [he] at sc
        have hn := copyForm_ok_new h h1 a n "cartesian" wf he
        split
        · rename_i y gy sn hsn
          obtain ⟨hb, hd, hg⟩ := newSV sc hn hsn
          rename_i x gx _ _ _ _
          have s1 := sc.wr hb (.buf (.xform x y sn.val)) (by simp [refsOf])
          have s2 := s1.wr hd (.dict (Heap.insert "_frame" (.frame (.reg y gy)) sn.items)) (by
            intro z hz
            rcases refs_insert hz with h' | h'
            · simp at h'
            · exact hg z h')
          have s3 := setFormTo_sep' s2 hn s.form
          simp only
          split
          · rename_i h3 he3; rw [he3] at s3; exact ⟨s3, fun n' hn' => by simp at hn'; omega⟩
          · rename_i h3 e3 he3; rw [he3] at s3; exact ⟨s3, fun n' hn' => by simp at hn'⟩
        · exact ⟨sc, fun n hn => by simp at hn⟩
        · exact ⟨sc, fun n hn => by simp at hn⟩
    · exact ⟨Sep.refl h, fun n hn => by simp at hn⟩

example : (transformObj C15Ex.h0 6 (.reg "ITRF" 0)).2 = .ok 12 := by decide +kernel

/-! ## helper objects created by a getter and kept in `_data`: `infos` -/

/-- the cache test of the `infos` getter, as read from the AST of statevector.py on this run, is the one that never finds a cached
helper (re-checked by the kernel on every run; `"infos" not in self._data` makes this fail) -/
theorem infosTest_never : infosTest = .never := by decide +kernel

/-- with that test, in EVERY heap — i.e. after any history of reads of `infos`, copies, conversions, pickling, modifications on either
side — the helper `sv.infos` hands out is bound to `sv` itself, never to the object `sv` was copied from (whose helper `copy()`
passes along in `_data`, see `C15W.copy_hands_over_infos_entry`) -/
theorem getInfos_own (h : Heap) (a : Nat) (s : SV) (hs : getSV h a = some s) : (getInfos infosTest h a).2 = some a := by
  rw [infosTest_never]
  unfold getInfos
  rw [hs]

/-- the getter rewrites the object's own `_data` dict and allocates one marker cell; every other cell is untouched -/
theorem getInfos_frame (t : InfosTest) (h : Heap) (a : Nat) (s : SV) (hs : getSV h a = some s) :
    ∀ x, x < h.length → x ≠ s.data → (getInfos t h a).1[x]? = h[x]? := by
  intro x hx hne
  unfold getInfos
  rw [hs]
  simp only
  split
  · rfl
  · simp only [alloc]
    rw [write_other _ _ _ _ hne]
    simp [List.getElem?_append_left hx]

/-! ## `copy.deepcopy` -/

/- History: until /repo commit fd4f2bf `copy.deepcopy(sv)` fell through to `ndarray.__deepcopy__`: new buffer, SHALLOW copy of `_data`
   (open finding C15-deepcopy-shares-data, witness `deepcopy_shares_data`, now a regression witness). -/
/-- `copy.deepcopy(sv)`: the receiver and everything reachable from it is unchanged, the result is a new cell, and every address stored
in any cell created on the way is new or a maneuver object (of an intermediate maneuver list that the result no longer refers to:
see `C15W.deepcopy_shares_nothing`) -/
theorem stdDeepcopy_separate (h h' : Heap) (a n : Nat) (wf : WfM h) (hr : stdDeepcopy h a = (h', .ok n)) :
    Sep h h' ∧ h.length ≤ n := by
  unfold stdDeepcopy at hr
  split at hr
  · simp at hr
  · rename_i h1 n1 he
    obtain ⟨sep, hn⟩ := copy_separate h h1 a n1 wf he
    have inv0 : DeepInv (Good h) h { h := h1 } := ⟨sep.pres, sep.closed, by simp⟩
    have d1 := deepMansOf_sep { h := h1 } inv0 ((mansOfSV h1 n1).map (·.2))
    have d2 := deepMansOf_sep _ d1.1 (((covOrb h1 n1).bind (mansOfSV h1)).map (·.2))
    simp only at hr
    split at hr
    · rename_i r1 r2 hr1 hr2
      have s2 : Sep h (deepMansOf (deepMansOf { h := h1 } ((mansOfSV h1 n1).map (·.2))).1 (((covOrb h1 n1).bind (mansOfSV h1)).map (·.2))).1.h :=
        ⟨d2.1.pres, d2.1.closed⟩
      have s3 := setMansOpt_sep s2 (some n1) (fun x hx => by injection hx with hx; subst hx; exact Good.new hn) r1
        (fun r' y h1' h2' => d1.2 r' y (by rw [hr1, h1']) h2')
      -- the private state of the copy's covariance is stored in a new covariance cell, itself stored in the new dict
      have horb : ∀ x, covOrb h1 n1 = some x → Good h x := by
        intro x hx
        unfold covOrb at hx
        split at hx
        · rename_i sn hsn
          split at hx
          · rename_i c hc
            split at hx
            · rename_i b cfr orb ofr hcell
              simp at hx; subst hx
              have hcn := newEntry sep hn hsn hc hcell (by intro t; simp)
              exact sep.closed c _ hcn hcell orb (by simp [refsOf])
            · simp at hx
          · simp at hx
        · simp at hx
      have s4 := setMansOpt_sep s3 (covOrb h1 n1) horb r2 (fun r' y h1' h2' => d2.2 r' y (by rw [hr2, h1']) h2')
      have hh := (Prod.mk.inj hr).1
      have hn' := Except.ok.inj (Prod.mk.inj hr).2
      rw [← hh, ← hn']
      exact ⟨s4, hn⟩
    · simp at hr

end BeyondVerif.C15
