import BeyondVerif.Lemmas.HeapSep
/-!
# C15 — state vectors have value semantics and change atomically

Theorems about the heap model `Model/Heap.lean` (tied to /repo by the exact correspondence run and by
the name tables regenerated into `Generated/FormTables.lean` on every run).
-/
namespace BeyondVerif.C15Ex
open BeyondVerif.Heap
/-- a state vector (cell 6) with one maneuver (cell 1, in the list 2) and a nested metadata container -/
def h0 : Heap :=
  [ .buf (.init 0), .man 0, .list [.addr 1], .list [.tok 1], .dict [("k", .addr 3)],
    .dict [("maneuvers", .addr 2), ("nested", .addr 4), ("date", .tok 100), ("form", .form "cartesian"),
           ("frame", .frame (.reg "EME2000" 0))],
    .sv false 0 5 ]
end BeyondVerif.C15Ex

namespace BeyondVerif.C15
open BeyondVerif.Heap BeyondVerif.Generated FormTables

/-! ## element access by name, alias and index -/

/-- every form has six pairwise distinct element names (so `param_names.index` is unambiguous) -/
theorem names_six_distinct : ∀ p ∈ paramNames, p.2.length = 6 ∧ p.2.Nodup := by decide +kernel

/- History: until /repo commit 0cea58e this held only outside cylindrical slots 1 and 4 (`access_name_index_partial`,
   counter-witness `cylindrical_theta_refused`): `Form.alt` rewrote `theta`/`theta_dot` to names the cylindrical form did not have. -/
/-- clause "element access by name … agrees with the current form's ordering": in every form, the i-th element
name addresses slot i -/
theorem access_name_index :
    ∀ p ∈ paramNames, ∀ i, i < 6 → access p.1 (p.2.getD i "") = .slot i := by
  decide +kernel

example : access "keplerian" "Ω" = .slot 3 := by decide +kernel
example : access "cylindrical" "theta" = .slot 1 ∧ access "cylindrical" "θ" = .slot 1 ∧ access "cylindrical" "theta_dot" = .slot 4 := by
  decide +kernel

/-- an alias addresses the slot of the element it stands for, in every form that has that element -/
theorem access_alias_index :
    ∀ p ∈ paramNames, ∀ al ∈ alt, ∀ i, i < 6 → p.2[i]? = some al.2 → access p.1 al.1 = .slot i := by
  decide +kernel

example : access "keplerian" "raan" = .slot 3 ∧ access "tle" "Omega" = .slot 1 := by decide +kernel

/-- a reserved name (element name of some form, or an alias of one) that does not denote an element of
the current form is refused — it never reads or creates a metadata entry and never hits another slot -/
theorem access_foreign_refused :
    ∀ p ∈ paramNames, ∀ n ∈ cacheParamNames ++ alt.map (·.1),
      (alt.lookup n).getD n ∉ p.2 → access p.1 n = .foreign := by
  decide +kernel

example : access "keplerian" "x" = .foreign ∧ access "cartesian" "raan" = .foreign := by decide +kernel

/-- whatever a name resolves to, a slot answer is the position of the (alias-resolved) name in the current form -/
theorem access_slot_sound :
    ∀ p ∈ paramNames, ∀ n ∈ cacheParamNames ++ alt.map (·.1), ∀ i, i < 6 →
      access p.1 n = .slot i → p.2[i]? = some ((alt.lookup n).getD n) := by
  decide +kernel

/-! ## failing form / frame changes -/

/-- an unknown form name: nothing is touched -/
theorem setForm_unknown_atomic (h : Heap) (a : Nat) (name : String) (hn : resolveForm name = none) :
    setForm h a name = (h, .error .unknownForm) := by
  simp [setForm, hn]

example : resolveForm "no_such_form" = none := by decide +kernel

/-- *every* failing form change leaves the whole heap as it was -/
theorem setForm_error_atomic (h h' : Heap) (a : Nat) (name : String) (e : Err)
    (hr : setForm h a name = (h', .error e)) : h' = h := by
  unfold setForm at hr
  split at hr
  · simp at hr; exact hr.1.symm
  · unfold setFormTo at hr
    split at hr
    · simp at hr; exact hr.1.symm
    · simp at hr

/-- an unknown frame name: nothing is touched -/
theorem setFrame_unknown_atomic (h : Heap) (a : Nat) (name : String) (hn : resolveFrame name = none) :
    setFrame h a name = (h, .error .unknownFrame) := by
  simp [setFrame, hn]

example : resolveFrame "NoSuchFrame" = none := by decide +kernel

/-- a failing transformation (Hill frame involved): the only cell that may be rewritten is the coordinate
buffer, and its new content denotes the same physical state (`phys` erases form conversions: the code goes
form → cartesian → form); form, frame, metadata, covariance cells are not written at all -/
theorem setFrameBasic_error_atomic (h h' : Heap) (a : Nat) (fr : Fr) (e : Err) (s : SV)
    (hs : getSV h a = some s) (hr : setFrameBasic h a fr = (h', .error e)) :
    h' = h ∨ ∃ v', h' = write h s.buf (.buf v') ∧ phys v' = phys s.val := by
  unfold setFrameBasic at hr
  rw [hs] at hr
  simp only at hr
  split at hr
  · simp at hr
  · split at hr
    · simp at hr
    · right; simp at hr; exact ⟨_, hr.1.symm, by simp [phys_mkConv]⟩
    · right; simp at hr; exact ⟨_, hr.1.symm, by simp [phys_mkConv]⟩
    · left; simp at hr; exact hr.1.symm

example : setFrameBasic [.buf (.init 0), .dict [("form", .form "keplerian"), ("frame", .frame (.reg "EME2000" 0))], .sv false 0 1] 2 (.hill 0)
    = ([.buf (.conv "cartesian" "keplerian" (.conv "keplerian" "cartesian" (.init 0))),
        .dict [("form", .form "keplerian"), ("frame", .frame (.reg "EME2000" 0))], .sv false 0 1], .error .value) := by
  decide +kernel

/-- a failing covariance frame change writes nothing -/
theorem covSetFrame_error_atomic (h h' : Heap) (c : Nat) (fr : Fr) (e : Err)
    (hr : covSetFrame h c fr = (h', .error e)) : h' = h := by
  unfold covSetFrame at hr
  split at hr
  · split at hr
    · simp at hr
    · split at hr
      · simp at hr; exact hr.1.symm
      · split at hr
        · simp at hr; exact hr.1.symm
        · simp at hr
  · simp at hr; exact hr.1.symm

/-- where a failing `sv.frame = name` can come from: an unknown name (nothing touched), the state-vector
part (see `setFrameBasic_error_atomic`), or — the state vector having been changed successfully — the
covariance that was to follow it (which is then left exactly as it was, `covSetFrame_error_atomic`) -/
theorem setFrame_error_cases (h h' : Heap) (a : Nat) (name : String) (e : Err) (s : SV)
    (hs : getSV h a = some s) (hr : setFrame h a name = (h', .error e)) :
    (h' = h) ∨
    (∃ fr, resolveFrame name = some fr ∧ setFrameBasic h a fr = (h', .error e)) ∨
    (∃ fr c, resolveFrame name = some fr ∧ setFrameBasic h a fr = (h', .ok ()) ∧ lookup "cov" s.items = some (.addr c)) := by
  unfold setFrame at hr
  split at hr
  · left; simp at hr; exact hr.1.symm
  · rename_i fr hfr
    rw [hs] at hr
    simp only at hr
    split at hr
    · rename_i h1 e1 hb
      right; left
      simp at hr
      exact ⟨fr, hfr, by rw [hb, hr.1, hr.2]⟩
    · rename_i h1 hb
      right; right
      split at hr
      · rename_i c hc
        refine ⟨fr, c, hfr, ?_, hc⟩
        split at hr
        · split at hr
          · have := covSetFrame_error_atomic _ _ _ _ _ hr
            rw [hb, this]
          · simp at hr
        · simp at hr; rw [hb, hr.1]
      · simp at hr

/-! ## copies -/

/-- `copy()` writes nothing: every cell of the old heap — the receiver and all it can reach — is unchanged -/
theorem copy_receiver_unchanged (h : Heap) (a : Nat) : Pres h (copySV h a).1 :=
  copySVWith_pres (copyRef_ok _) h a

/-- after `c = sv.copy()`: the object, its coordinate buffer and its `_data` dict are new cells; the values are
those of the receiver; and every reference stored in the new `_data` is a new cell — the only old addresses
that survive at the first level are maneuver objects (for the full depth see `copy_separate`) -/
theorem copy_separate_depth1 (h h1 : Heap) (a n : Nat) (s' : SV)
    (hr : copySV h a = (h1, .ok n)) (hg : getSV h1 n = some s') :
    h.length ≤ n ∧ h.length ≤ s'.buf ∧ h.length ≤ s'.data ∧ s'.buf ≠ s'.data ∧
    (∃ s, getSV h a = some s ∧ s'.val = s.val ∧ s'.orbit = s.orbit) ∧
    ∀ k x, (k, Ref.addr x) ∈ s'.items → h.length ≤ x ∨ ∃ t, h[x]? = some (.man t) := by
  obtain ⟨hb, hd, hn, hne, s, items', h0, hs, hc, hv, hi, ho⟩ := copySVWith_getSV (copyRef_ok _) h h1 a n s' hr hg
  refine ⟨hn, hb, hd, hne, ⟨s, hs, hv, ho⟩, ?_⟩
  rw [hi]
  exact copyItems_fresh (copyRef_ok _) h s.items items' h0 hc

/-- the form setter applied to the object a copy returned writes only new cells -/
theorem setForm_on_copy_pres (h h1 : Heap) (a n : Nat) (name : String) (he : copySV h a = (h1, .ok n)) :
    Pres h (setForm h1 n name).1 := by
  have p : Pres h h1 := by have := copy_receiver_unchanged h a; rw [he] at this; exact this
  unfold setForm
  split
  · exact p
  · unfold setFormTo
    split
    · exact p
    · rename_i s' hs'
      obtain ⟨hb, hd, _⟩ := copySVWith_getSV (copyRef_ok _) h h1 a n s' he hs'
      exact (p.wr hb _).wr hd _

/-- `copy(form=…)`: the conversion runs on the new object and writes only its (new) buffer and dict — the
receiver is unchanged whether the conversion succeeds or fails -/
theorem copyForm_receiver_unchanged (h : Heap) (a : Nat) (name : String) : Pres h (copyForm h a name).1 := by
  unfold copyForm
  have p := copy_receiver_unchanged h a
  split
  · rename_i h1 e he; rw [he] at p; exact p
  · rename_i h1 n he
    have q := setForm_on_copy_pres h h1 a n name he
    split
    · rename_i h2 e he2; rw [he2] at q; exact q
    · rename_i h2 he2; rw [he2] at q; exact q

theorem lookup_mem_items (k : String) (r : Ref) (items : Items) (hl : lookup k items = some r) : (k, r) ∈ items := by
  induction items with
  | nil => simp [lookup] at hl
  | cons kv rest ih =>
    obtain ⟨k', v⟩ := kv
    by_cases hk : k' = k
    · subst hk; simp [lookup] at hl; subst hl; exact List.mem_cons_self
    · simp [lookup, hk] at hl; exact List.mem_cons_of_mem _ (ih hl)

/- History: listed as an open obligation until /repo commit d229088 (the covariance setter no longer re-frames its
   private state copy) made the covariance part a single write to the (new) covariance cell. -/
/-- `copy(frame=…)`: the frame change runs on the new object; it writes its (new) buffer and dict and, when the
covariance follows, the (new) covariance cell — the receiver and its covariance are unchanged whether the
change succeeds or fails -/
theorem copyFrame_receiver_unchanged (h : Heap) (a : Nat) (name : String) : Pres h (copyFrame h a name).1 := by
  unfold copyFrame
  have p := copy_receiver_unchanged h a
  split
  · rename_i h1 e he; rw [he] at p; exact p
  · rename_i h1 n he
    rw [he] at p
    have q : Pres h (setFrame h1 n name).1 := by
      unfold setFrame
      split
      · exact p
      · rename_i fr hfr
        split
        · exact p
        · rename_i s' hs'
          obtain ⟨hb, hd, _, _, s, items', h0, hs, hc, _, hi, _⟩ := copySVWith_getSV (copyRef_ok _) h h1 a n s' he hs'
          have pb : Pres h (setFrameBasic h1 n fr).1 := by
            unfold setFrameBasic
            rw [hs']
            simp only
            split
            · exact p
            · split
              · exact (p.wr hb _).wr hd _
              · exact p.wr hb _
              · exact p.wr hb _
              · exact p
          split
          · rename_i h2 e hb2; rw [hb2] at pb; exact pb
          · rename_i h2 hb2
            rw [hb2] at pb
            split
            · rename_i c hcov
              have hfresh := copyItems_fresh (copyRef_ok _) h s.items items' h0 hc "cov" c (by rw [← hi]; exact lookup_mem_items _ _ _ hcov)
              split
              · rename_i cv cfr orb ofr hcell
                split
                · -- the covariance follows: one write, at `c`
                  unfold covSetFrame
                  rw [hcell]
                  simp only
                  split
                  · exact pb
                  · split
                    · exact pb
                    · split
                      · exact pb
                      · rcases hfresh with hnew | ⟨t, ht⟩
                        · exact pb.wr hnew _
                        · -- an old address would hold a maneuver object, not a covariance
                          exfalso
                          have hlt : c < h.length := (List.getElem?_eq_some_iff.mp ht).1
                          have := pb.2 c hlt
                          rw [hcell, ht] at this
                          simp at this
                · exact pb
              · exact pb
            · exact pb
    split
    · rename_i h2 e he2; rw [he2] at q; exact q
    · rename_i h2 he2; rw [he2] at q; exact q

/-! ## StateVector ↔ Orbit -/

/-- `as_orbit` writes no pre-existing cell: the receiver and everything reachable from it is unchanged -/
theorem asOrbit_receiver_unchanged (h : Heap) (a p : Nat) : Pres h (asOrbit h a p).1 := by
  unfold asOrbit
  split
  · exact Pres.refl h
  · have q := copy_receiver_unchanged h a
    split
    · rename_i h1 e he; rw [he] at q; exact q
    · rename_i h1 c he
      rw [he] at q
      split
      · exact q
      · exact ((q.alloc _).alloc _).alloc _

theorem asSV_receiver_unchanged (h : Heap) (a : Nat) : Pres h (asSV h a).1 := by
  unfold asSV
  split
  · exact Pres.refl h
  · split
    · exact Pres.refl h
    · have q := copy_receiver_unchanged h a
      split
      · rename_i h1 e he; rw [he] at q; exact q
      · rename_i h1 c he
        rw [he] at q
        split
        · exact q
        · exact ((q.alloc _).alloc _).alloc _

/-! ## pickle round trip -/

/-- pickling writes nothing -/
theorem pickle_receiver_unchanged (h : Heap) (a : Nat) : Pres h (pickle h a).1 := by
  have inv0 : DeepInv (fun x => h.length ≤ x) h { h := h } := ⟨Pres.refl h, ClosedP.refl _ h, by simp⟩
  have hd := deepRef_ok (P := fun x => h.length ≤ x) (h0 := h) (fun _ hx => hx) deepFuel { h := h } (.addr a) inv0
  unfold pickle
  split
  · rename_i st r he
    rw [he] at hd
    split
    · exact hd.1.pres
    · exact hd.1.pres
  · rename_i st he; rw [he] at hd; exact hd.1.pres

/- History: until /repo commits 27f7ad7 / 2927581 the unpickled object was unusable (`self.base is None`) and its
   covariance had lost `_data`; the model then carried `owned` / `ok` flags and the witnesses
   `pickle_gives_unusable_object`, `pickle_then_copy_raises`. -/
/-- the unpickled object shares *nothing* with the original: it is a new cell and every address stored in any
cell created by the round trip is itself new (so nothing reachable from it existed before) -/
theorem pickle_separate (h h1 : Heap) (a n : Nat) (hr : pickle h a = (h1, .ok n)) :
    h.length ≤ n ∧ ClosedP (fun x => h.length ≤ x) h h1 := by
  have inv0 : DeepInv (fun x => h.length ≤ x) h { h := h } := ⟨Pres.refl h, ClosedP.refl _ h, by simp⟩
  have hd := deepRef_ok (P := fun x => h.length ≤ x) (h0 := h) (fun _ hx => hx) deepFuel { h := h } (.addr a) inv0
  unfold pickle at hr
  split at hr
  · rename_i st r he
    rw [he] at hd
    split at hr
    · rename_i m
      simp at hr
      rw [← hr.1, ← hr.2]
      exact ⟨hd.2 m rfl, hd.1.closed⟩
    · simp at hr
  · simp at hr


/-! ## full-depth separation -/

/-- `b` is reachable from `a` by following stored addresses -/
inductive Reach (h : Heap) : Nat → Nat → Prop
  | refl (a : Nat) : Reach h a a
  | step {a b x : Nat} {c : Cell} : Reach h a b → h[b]? = some c → x ∈ refsOf c → Reach h a x

/- History: until /repo commit 27f7ad7 only `copy_separate_depth1` held (nested metadata containers stayed shared,
   counter-witness `copy_shares_maneuver_objects_and_nested_containers`); the maneuver objects are still shared (open
   finding, deliberately), which is why they appear as the one exception below. -/
/-- clause "a copy shares no mutable data with the original", at full depth: in a well-formed heap (no dangling
address; every `maneuvers` entry a list of maneuver objects), after `c = sv.copy()` the old heap is intact, `c`
is a new cell, and every address stored in *any* cell the copy created is itself new or is a maneuver object -/
theorem copy_separate (h h1 : Heap) (a n : Nat) (wf : WfM h) (hr : copySV h a = (h1, .ok n)) :
    Sep h h1 ∧ h.length ≤ n := by
  have ha : a < h.length := by
    unfold copySV copySVWith at hr
    split at hr
    · simp at hr
    · rename_i s hs
      exact (List.getElem?_eq_some_iff.mp (getSV_cells h a s hs).1).1
  have hs := copySVWith_sep wf (copyRef_sep wf copyFuel) h (Sep.refl h) a ha
  unfold copySV at hr
  rw [hr] at hs
  obtain ⟨_, _, _, _, _, hl, hn, _⟩ := copySVWith_spec (copyRef_ok copyFuel) h h1 a n hr
  exact ⟨hs, by omega⟩

/-- everything reachable from a new cell of a separated heap is new or a maneuver object -/
theorem reach_good {h0 h1 : Heap} (sep : Sep h0 h1) {n x : Nat} (hn : h0.length ≤ n) (hr : Reach h1 n x) : Good h0 x := by
  induction hr with
  | refl => exact Good.new hn
  | step hab hc hx ih =>
    rename_i b x c
    rcases ih with hnew | ⟨t, ht⟩
    · exact sep.closed b c hnew hc x hx
    · have hlt : b < h0.length := (List.getElem?_eq_some_iff.mp ht).1
      rw [sep.pres.2 b hlt, ht] at hc
      simp at hc; subst hc
      simp [refsOf] at hx

/-- everything reachable from an old cell is old -/
theorem reach_old {h0 h1 : Heap} (wf : WfM h0) (p : Pres h0 h1) {a x : Nat} (ha : a < h0.length) (hr : Reach h1 a x) :
    x < h0.length := by
  induction hr with
  | refl => exact ha
  | step hab hc hx ih =>
    rename_i b x c
    rw [p.2 b ih] at hc
    exact wf.closed b c hc x hx

/-- the clause in terms of reachability: after `c = sv.copy()`, a cell reachable both from the copy and from the
receiver is a maneuver object — nothing else (no buffer, dict, list, array, covariance, propagator, private
state) is shared, at any depth -/
theorem copy_shares_only_maneuver_objects (h h1 : Heap) (a n x : Nat) (wf : WfM h) (hr : copySV h a = (h1, .ok n))
    (ha : a < h.length) (hx1 : Reach h1 n x) (hx2 : Reach h1 a x) : ∃ t, h[x]? = some (.man t) := by
  obtain ⟨sep, hn⟩ := copy_separate h h1 a n wf hr
  have hold := reach_old wf sep.pres ha hx2
  rcases reach_good sep hn hx1 with hnew | hman
  · omega
  · exact hman

/-- the hypotheses of `copy_separate` are satisfiable: the example heap is well-formed and its copy succeeds -/
theorem example_heap_wf : WfM C15Ex.h0 := by
  constructor
  · intro a c hc x hx
    have ha : a < 7 := (List.getElem?_eq_some_iff.mp hc).1
    have hcases : a = 0 ∨ a = 1 ∨ a = 2 ∨ a = 3 ∨ a = 4 ∨ a = 5 ∨ a = 6 := by omega
    rcases hcases with rfl | rfl | rfl | rfl | rfl | rfl | rfl <;>
      (simp [C15Ex.h0] at hc; subst hc; simp [refsOf] at hx; try (simp [C15Ex.h0]; omega))
  · intro d items l hd hm
    have ha : d < 7 := (List.getElem?_eq_some_iff.mp hd).1
    have hcases : d = 0 ∨ d = 1 ∨ d = 2 ∨ d = 3 ∨ d = 4 ∨ d = 5 ∨ d = 6 := by omega
    rcases hcases with rfl | rfl | rfl | rfl | rfl | rfl | rfl <;> simp [C15Ex.h0] at hd
    · subst hd; simp at hm
    · subst hd
      simp at hm
      subst hm
      exact ⟨[.addr 1], by simp [C15Ex.h0], fun x hx => by simp at hx; subst hx; exact ⟨0, by simp [C15Ex.h0]⟩⟩

example : (copySV C15Ex.h0 6).2 = .ok 12 := by decide +kernel

/-- `as_orbit`: every address stored in a cell it created is new, a maneuver object, or the propagator it was given -/
theorem asOrbit_separate (h h1 : Heap) (a p n : Nat) (wf : WfM h) (hr : asOrbit h a p = (h1, .ok n)) :
    Pres h h1 ∧ h.length ≤ n ∧ ClosedP (fun x => Good h x ∨ x = p) h h1 := by
  have hp := asOrbit_receiver_unchanged h a p
  rw [hr] at hp
  unfold asOrbit at hr
  split at hr
  · simp at hr
  · rename_i s hs
    split at hr
    · simp at hr
    · rename_i hc c he
      obtain ⟨sep, hcn⟩ := copy_separate h hc a c wf he
      split at hr
      · simp at hr
      · rename_i sc hsc
        simp [alloc] at hr
        obtain ⟨_, _, hdcell⟩ := getSV_cells hc c sc hsc
        obtain ⟨_, hdd, _⟩ := copySVWith_getSV (copyRef_ok _) h hc a c sc he hsc
        have hgood : ∀ x ∈ refsOf (.dict sc.items), Good h x := sep.closed sc.data _ hdd hdcell
        have q0 : ClosedP (fun x => Good h x ∨ x = p) h hc := fun a' c' ha' hc' x hx => Or.inl (sep.closed a' c' ha' hc' x hx)
        have hlen : h.length ≤ hc.length := sep.pres.1
        have q1 := q0.alloc (.buf s.val) (by simp [refsOf])
        have q2 := q1.alloc (.dict (insert "propagator" (.addr p) sc.items)) (by
          intro x hx
          rcases refs_insert hx with h1' | h1'
          · right; injection h1' with h1'; exact h1'.symm
          · left; exact hgood x h1')
        have q3 := q2.alloc (.sv true hc.length (hc.length + 1)) (by
          intro x hx
          simp [refsOf] at hx
          rcases hx with rfl | rfl
          · left; exact Good.new hlen
          · left; exact Good.new (by omega))
        refine ⟨hp, by omega, ?_⟩
        rw [← hr.1]
        simpa [alloc] using q3

/-- `as_statevector`: every address stored in a cell it created is new or a maneuver object -/
theorem asSV_separate (h h1 : Heap) (a n : Nat) (wf : WfM h) (hr : asSV h a = (h1, .ok n)) :
    Sep h h1 ∧ h.length ≤ n := by
  unfold asSV at hr
  split at hr
  · simp at hr
  · rename_i s hs
    split at hr
    · simp at hr
    · split at hr
      · simp at hr
      · rename_i hc c he
        obtain ⟨sep, hcn⟩ := copy_separate h hc a c wf he
        split at hr
        · simp at hr
        · rename_i sc hsc
          simp [alloc] at hr
          obtain ⟨_, _, hdcell⟩ := getSV_cells hc c sc hsc
          obtain ⟨_, hdd, _⟩ := copySVWith_getSV (copyRef_ok _) h hc a c sc he hsc
          have hgood : ∀ x ∈ refsOf (.dict sc.items), Good h x := sep.closed sc.data _ hdd hdcell
          have hlen : h.length ≤ hc.length := sep.pres.1
          have q1 := sep.al (.buf s.val) (by simp [refsOf])
          have q2 := q1.al (.dict (erase "propagator" sc.items)) (fun x hx => hgood x (refs_erase hx))
          have q3 := q2.al (.sv false hc.length (hc.length + 1)) (by
            intro x hx
            simp [refsOf] at hx
            rcases hx with rfl | rfl
            · exact Good.new hlen
            · exact Good.new (by omega))
          refine ⟨?_, by omega⟩
          rw [← hr.1]
          simpa [alloc] using q3


/-! ## StateVector → Orbit → StateVector preserves values and metadata -/

theorem lookup_erase_ne (k k' : String) (items : Items) (hne : k' ≠ k) : lookup k' (erase k items) = lookup k' items := by
  induction items with
  | nil => simp [erase]
  | cons kv rest ih =>
    obtain ⟨k2, v2⟩ := kv
    by_cases h : k2 = k
    · subst h; simp [erase, lookup, Ne.symm hne]
    · by_cases h2 : k2 = k'
      · subst h2; simp [erase, lookup, h]
      · simp [erase, lookup, h, h2, ih]

/-- an immutable value (anything but an address) is handed over as it is -/
theorem copyRef_nonaddr (fuel : Nat) (h : Heap) (k : String) (r : Ref) (hr : ∀ a, r ≠ .addr a) :
    copyRef (fuel + 1) h k r = (h, .ok r) := by
  unfold copyRef
  have hc : isContainer h r = false := by
    unfold isContainer
    split
    · rename_i a; exact absurd rfl (hr a)
    · rfl
  simp [hc]
  try (split
       · rename_i a; exact absurd rfl (hr a)
       · rfl)

theorem copyItems_lookup (fuel : Nat) (items items' : Items) (h h' : Heap)
    (hc : copyItems (copyRef (fuel + 1)) h items = (h', .ok items')) (key : String) :
    (lookup key items = none → lookup key items' = none) ∧
    (∀ r, (∀ a, r ≠ .addr a) → lookup key items = some r → lookup key items' = some r) := by
  induction items generalizing h h' items' with
  | nil => simp [copyItems] at hc; rw [hc.2]; simp [lookup]
  | cons kv rest ih =>
    obtain ⟨k0, v⟩ := kv
    unfold copyItems at hc
    split at hc
    · simp at hc
    · rename_i h1 v' he
      split at hc
      · simp at hc
      · rename_i h2 rest' he2
        simp at hc
        rw [← hc.2]
        have ihr := ih rest' h1 h2 he2
        by_cases hk : k0 = key
        · subst hk
          simp [lookup]
          intro r hr hv
          subst hv
          rw [copyRef_nonaddr fuel h k0 v hr] at he
          simp at he; exact he.2.symm
        · simp [lookup, hk]; exact ihr

theorem getSV_of_cells (h : Heap) (a b d : Nat) (o : Bool) (v : Val) (items : Items) (s : SV)
    (hc : h[a]? = some (.sv o b d)) (hb : h[b]? = some (.buf v)) (hd : h[d]? = some (.dict items))
    (hg : getSV h a = some s) :
    s.val = v ∧ s.items = items ∧ s.orbit = o ∧ formOf items = some s.form ∧ frameOf items = some s.frame := by
  unfold getSV at hg
  rw [hc] at hg
  simp only [hb, hd] at hg
  split at hg
  · rename_i f fr hf hfr
    simp at hg; subst hg; exact ⟨rfl, rfl, rfl, hf, hfr⟩
  · simp at hg

theorem getSV_form (h : Heap) (a : Nat) (s : SV) (hg : getSV h a = some s) :
    formOf s.items = some s.form ∧ frameOf s.items = some s.frame := by
  obtain ⟨hc, hb, hd⟩ := getSV_cells h a s hg
  exact (getSV_of_cells h a s.buf s.data s.orbit s.val s.items s hc hb hd hg).2.2.2

/-- what `as_orbit` / `as_statevector` build: coordinates of the receiver, `_data` of a copy of the receiver with the
`propagator` entry set / removed -/
theorem asOrbit_result (h h1 : Heap) (a p n : Nat) (s sn : SV) (hs : getSV h a = some s)
    (hr : asOrbit h a p = (h1, .ok n)) (hn : getSV h1 n = some sn) :
    sn.val = s.val ∧ sn.orbit = true ∧
    ∃ hc items', copyItems (copyRef copyFuel) h s.items = (hc, .ok items') ∧ sn.items = insert "propagator" (.addr p) items' := by
  unfold asOrbit at hr
  rw [hs] at hr
  simp only at hr
  split at hr
  · simp at hr
  · rename_i hc c he
    split at hr
    · simp at hr
    · rename_i sc hsc
      obtain ⟨_, _, _, _, s0, items', h0, hs0, hci, _, hi, _⟩ := copySVWith_getSV (copyRef_ok _) h hc a c sc he hsc
      rw [hs] at hs0; simp at hs0; subst hs0
      simp [alloc] at hr
      obtain ⟨hh, hnn⟩ := hr
      subst hnn
      have c1 : h1[hc.length + 2]? = some (.sv true hc.length (hc.length + 1)) := by rw [← hh]; simp
      have c2 : h1[hc.length]? = some (.buf s.val) := by rw [← hh]; simp
      have c3 : h1[hc.length + 1]? = some (.dict (insert "propagator" (.addr p) sc.items)) := by rw [← hh]; simp
      obtain ⟨hv, hit, ho, _⟩ := getSV_of_cells h1 _ _ _ _ _ _ sn c1 c2 c3 hn
      exact ⟨hv, ho, h0, items', hci, by rw [hit, hi]⟩

theorem asSV_result (h h1 : Heap) (a n : Nat) (s sn : SV) (hs : getSV h a = some s)
    (hr : asSV h a = (h1, .ok n)) (hn : getSV h1 n = some sn) :
    sn.val = s.val ∧ sn.orbit = false ∧
    ∃ hc items', copyItems (copyRef copyFuel) h s.items = (hc, .ok items') ∧ sn.items = erase "propagator" items' := by
  unfold asSV at hr
  rw [hs] at hr
  simp only at hr
  split at hr
  · simp at hr
  · split at hr
    · simp at hr
    · rename_i hc c he
      split at hr
      · simp at hr
      · rename_i sc hsc
        obtain ⟨_, _, _, _, s0, items', h0, hs0, hci, _, hi, _⟩ := copySVWith_getSV (copyRef_ok _) h hc a c sc he hsc
        rw [hs] at hs0; simp at hs0; subst hs0
        simp [alloc] at hr
        obtain ⟨hh, hnn⟩ := hr
        subst hnn
        have c1 : h1[hc.length + 2]? = some (.sv false hc.length (hc.length + 1)) := by rw [← hh]; simp
        have c2 : h1[hc.length]? = some (.buf s.val) := by rw [← hh]; simp
        have c3 : h1[hc.length + 1]? = some (.dict (erase "propagator" sc.items)) := by rw [← hh]; simp
        obtain ⟨hv, hit, ho, _⟩ := getSV_of_cells h1 _ _ _ _ _ _ sn c1 c2 c3 hn
        exact ⟨hv, ho, h0, items', hci, by rw [hit, hi]⟩

/- History: before /repo commit 27f7ad7 `as_orbit` / `as_statevector` handed the receiver's `_data` values over as they
   were, so the statement was "exactly the same `_data` entries" (and `asOrbit_same_references`, the theorem behind the
   sharing finding). Now both go through `copy()`: mutable values come back as copies (their content is compared by
   the correspondence run), immutable ones as they are. -/
/-- clause "converting between StateVector and Orbit preserves values and metadata": the StateVector that comes back
from StateVector → Orbit → StateVector has the receiver's coordinates, form and frame, is not an Orbit, and every
immutable `_data` entry (date, strings, numbers, form, frame …) is found under its key unchanged -/
theorem as_orbit_as_statevector_id (h h1 h2 : Heap) (a p n m : Nat) (s s2 : SV) (hs : getSV h a = some s)
    (h1r : asOrbit h a p = (h1, .ok n)) (h2r : asSV h1 n = (h2, .ok m)) (hs2 : getSV h2 m = some s2) :
    s2.val = s.val ∧ s2.orbit = false ∧ s2.form = s.form ∧ s2.frame = s.frame ∧
    ∀ key r, key ≠ "propagator" → (∀ x, r ≠ .addr x) → lookup key s.items = some r → lookup key s2.items = some r := by
  -- the intermediate Orbit exists because `asSV` succeeded on it
  have hsn : ∃ sn, getSV h1 n = some sn := by
    unfold asSV at h2r
    split at h2r
    · simp at h2r
    · rename_i sn hsn; exact ⟨sn, hsn⟩
  obtain ⟨sn, hsn⟩ := hsn
  obtain ⟨hv1, _, hc1, it1, hci1, hit1⟩ := asOrbit_result h h1 a p n s sn hs h1r hsn
  obtain ⟨hv2, ho2, hc2, it2, hci2, hit2⟩ := asSV_result h1 h2 n m sn s2 hsn h2r hs2
  have hkey : ∀ key r, key ≠ "propagator" → (∀ x, r ≠ .addr x) → lookup key s.items = some r → lookup key s2.items = some r := by
    intro key r hk hr hl
    have l1 := (copyItems_lookup _ s.items it1 h hc1 hci1 key).2 r hr hl
    have l2 : lookup key sn.items = some r := by rw [hit1, lookup_insert_ne _ _ _ _ hk]; exact l1
    have l3 := (copyItems_lookup _ sn.items it2 h1 hc2 hci2 key).2 r hr l2
    rw [hit2, lookup_erase_ne _ _ _ hk]; exact l3
  have hf := getSV_form h a s hs
  have hf2 := getSV_form h2 m s2 hs2
  refine ⟨by rw [hv2, hv1], ho2, ?_, ?_, hkey⟩
  · have hl : lookup "form" s.items = some (.form s.form) := by
      have := hf.1; unfold formOf at this
      split at this
      · rename_i f hl; simp at this; subst this; exact hl
      · simp at this
    have hl2 := hkey "form" _ (by decide) (by intro x; simp) hl
    have := hf2.1; unfold formOf at this; rw [hl2] at this; simp at this; exact this.symm
  · have hl : lookup "frame" s.items = some (.frame s.frame) := by
      have := hf.2; unfold frameOf at this
      split at this
      · rename_i f hl; simp at this; subst this; exact hl
      · simp at this
    have hl2 := hkey "frame" _ (by decide) (by intro x; simp) hl
    have := hf2.2; unfold frameOf at this; rw [hl2] at this; simp at this; exact this.symm

end BeyondVerif.C15
