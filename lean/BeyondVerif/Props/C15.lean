import BeyondVerif.Lemmas.HeapCopy
/-!
# C15 — state vectors have value semantics and change atomically

Theorems about the heap model `Model/Heap.lean` (tied to /repo by the exact correspondence run and by
the name tables regenerated into `Generated/FormTables.lean` on every run).
-/
namespace BeyondVerif.C15
open BeyondVerif.Heap BeyondVerif.Generated FormTables

/-! ## element access by name, alias and index -/

/-- every form has six pairwise distinct element names (so `param_names.index` is unambiguous) -/
theorem names_six_distinct : ∀ p ∈ paramNames, p.2.length = 6 ∧ p.2.Nodup := by decide +kernel

/-- the forms in which the element name itself is not usable: found by the oracle, see Witness/C15.lean -/
def nameExceptions : List (String × Nat) := [("cylindrical", 1), ("cylindrical", 4)]

/- Full statement (clause "element access by name … agrees with the current form's ordering"):
     ∀ p ∈ paramNames, ∀ i < 6, access p.1 (p.2.getD i "") = .slot i
   It is FALSE of the current code for cylindrical `theta` / `theta_dot` (Witness.C15.cylindrical_theta_refused):
   `Form.alt` rewrites them to `θ` / `θ_dot`, which cylindrical does not have. Proved for every other (form, slot). -/
/-- the i-th element name of a form addresses slot i -/
theorem access_name_index_partial :
    ∀ p ∈ paramNames, ∀ i, i < 6 → (p.1, i) ∉ nameExceptions → access p.1 (p.2.getD i "") = .slot i := by
  decide +kernel

example : access "keplerian" "Ω" = .slot 3 := by decide +kernel

/-- an alias addresses the slot of the element it stands for, in every form that has that element -/
theorem access_alias_index :
    ∀ p ∈ paramNames, ∀ al ∈ alt, ∀ i, i < 6 → p.2[i]? = some al.2 → access p.1 al.1 = .slot i := by
  decide +kernel

example : access "keplerian" "raan" = .slot 3 ∧ access "tle" "Omega" = .slot 1 := by decide +kernel

/-- a reserved name (element name of some form, or an alias of one) that does not denote an element of
the current form is refused — it never reads or creates a metadata entry and never hits another slot -/
theorem access_foreign_refused :
    ∀ p ∈ paramNames, ∀ n ∈ cacheParamNames ++ alt.map (·.1),
      (alt.lookup n).getD n ∉ p.2 → access p.1 n = .foreign := by
  decide +kernel

example : access "keplerian" "x" = .foreign ∧ access "cartesian" "raan" = .foreign := by decide +kernel

/-- whatever a name resolves to, a slot answer is the position of the (alias-resolved) name in the current form -/
theorem access_slot_sound :
    ∀ p ∈ paramNames, ∀ n ∈ cacheParamNames ++ alt.map (·.1), ∀ i, i < 6 →
      access p.1 n = .slot i → p.2[i]? = some ((alt.lookup n).getD n) := by
  decide +kernel

/-! ## failing form / frame changes -/

/-- an unknown form name: nothing is touched -/
theorem setForm_unknown_atomic (h : Heap) (a : Nat) (name : String) (hn : resolveForm name = none) :
    setForm h a name = (h, .error .unknownForm) := by
  simp [setForm, hn]

example : resolveForm "no_such_form" = none := by decide +kernel

/-- *every* failing form change leaves the whole heap as it was -/
theorem setForm_error_atomic (h h' : Heap) (a : Nat) (name : String) (e : Err)
    (hr : setForm h a name = (h', .error e)) : h' = h := by
  unfold setForm at hr
  split at hr
  · simp at hr; exact hr.1.symm
  · unfold setFormTo at hr
    split at hr
    · simp at hr; exact hr.1.symm
    · split at hr
      · simp at hr; exact hr.1.symm
      · simp at hr

/-- an unknown frame name: nothing is touched -/
theorem setFrame_unknown_atomic (h : Heap) (a : Nat) (name : String) (hn : resolveFrame name = none) :
    setFrame h a name = (h, .error .unknownFrame) := by
  simp [setFrame, hn]

example : resolveFrame "NoSuchFrame" = none := by decide +kernel

/-- a failing transformation (Hill frame involved, or an unpickled object): the only cell that may be
rewritten is the coordinate buffer, and its new content denotes the same physical state (`phys` erases
form conversions: the code goes form → cartesian → form); form, frame, metadata, covariance cells are
not written at all -/
theorem setFrameBasic_error_atomic (h h' : Heap) (a : Nat) (fr : Fr) (e : Err) (s : SV)
    (hs : getSV h a = some s) (hr : setFrameBasic h a fr = (h', .error e)) :
    h' = h ∨ ∃ v', h' = write h s.buf (.buf v') ∧ phys v' = phys s.val := by
  unfold setFrameBasic at hr
  rw [hs] at hr
  simp only at hr
  split at hr
  · left; simp at hr; exact hr.1.symm
  · split at hr
    · simp at hr
    · split at hr
      · simp at hr
      · right; simp at hr; exact ⟨_, hr.1.symm, by simp [phys_mkConv]⟩
      · right; simp at hr; exact ⟨_, hr.1.symm, by simp [phys_mkConv]⟩
      · left; simp at hr; exact hr.1.symm

example : setFrameBasic [.buf (.init 0), .dict [("form", .form "keplerian"), ("frame", .frame (.reg "EME2000"))], .sv false false 0 1] 2 .hill
    = ([.buf (.conv "cartesian" "keplerian" (.conv "keplerian" "cartesian" (.init 0))),
        .dict [("form", .form "keplerian"), ("frame", .frame (.reg "EME2000"))], .sv false false 0 1], .error .value) := by
  decide +kernel

/-- where a failing `sv.frame = name` can come from: an unknown name (nothing touched), the state-vector
part (see `setFrameBasic_error_atomic`), or — the state vector having been changed successfully — the
covariance that was to follow it -/
theorem setFrame_error_cases (h h' : Heap) (a : Nat) (name : String) (e : Err) (s : SV)
    (hs : getSV h a = some s) (hr : setFrame h a name = (h', .error e)) :
    (h' = h) ∨
    (∃ fr, resolveFrame name = some fr ∧ setFrameBasic h a fr = (h', .error e)) ∨
    (∃ fr h1 c, resolveFrame name = some fr ∧ setFrameBasic h a fr = (h1, .ok ()) ∧ lookup "cov" s.items = some (.addr c)) := by
  unfold setFrame at hr
  split at hr
  · left; simp at hr; exact hr.1.symm
  · rename_i fr hfr
    rw [hs] at hr
    simp only at hr
    split at hr
    · rename_i h1 e1 hb
      right; left
      simp at hr
      exact ⟨fr, hfr, by rw [hb, hr.1, hr.2]⟩
    · rename_i h1 hb
      right; right
      split at hr
      · rename_i c hc
        exact ⟨fr, h1, c, hfr, hb, hc⟩
      · simp at hr

/-! ## StateVector ↔ Orbit -/

/-- `as_orbit` allocates three new cells and writes nothing: the receiver and everything reachable from it is unchanged -/
theorem asOrbit_receiver_unchanged (h : Heap) (a p : Nat) : Pres h (asOrbit h a p).1 := by
  unfold asOrbit
  split
  · exact Pres.refl h
  · split
    · exact Pres.refl h
    · exact ((alloc_pres h _).alloc _).alloc _

theorem asSV_receiver_unchanged (h : Heap) (a : Nat) : Pres h (asSV h a).1 := by
  unfold asSV
  split
  · exact Pres.refl h
  · split
    · exact Pres.refl h
    · split
      · exact Pres.refl h
      · exact ((alloc_pres h _).alloc _).alloc _


/-- reading back a freshly allocated StateVector -/
theorem getSV_alloc3 (h : Heap) (v : Val) (items : Items) (o : Bool) (f : String) (fr : Fr)
    (hf : formOf items = some f) (hfr : frameOf items = some fr) :
    getSV (h ++ [.buf v] ++ [.dict items] ++ [.sv o false h.length (h.length + 1)]) (h.length + 2)
      = some ⟨o, false, h.length, h.length + 1, v, items, f, fr⟩ := by
  unfold getSV
  simp [hf, hfr]

/-- values and metadata are preserved by StateVector → Orbit → StateVector: the object that comes back has
the same coordinates and exactly the same `_data` entries (same keys, same order, same values) -/
theorem as_orbit_as_statevector_id (h : Heap) (a p : Nat) (s : SV) (hs : getSV h a = some s)
    (hown : s.owned = false) (hp : lookup "propagator" s.items = none) :
    ∃ h1 n h2 m s2, asOrbit h a p = (h1, .ok n) ∧ asSV h1 n = (h2, .ok m) ∧ getSV h2 m = some s2 ∧
      s2.val = s.val ∧ s2.items = s.items ∧ s2.form = s.form ∧ s2.frame = s.frame ∧ s2.orbit = false ∧
      s2.buf ≠ s.buf ∧ s2.data ≠ s.data ∧ Pres h h2 := by
  have hf : formOf s.items = some s.form ∧ frameOf s.items = some s.frame := by
    unfold getSV at hs
    split at hs
    · split at hs
      · split at hs
        · rename_i f fr hf hfr; simp at hs; subst hs; exact ⟨hf, hfr⟩
        · simp at hs
      · simp at hs
    · simp at hs
  have hbuf : s.buf < h.length ∧ s.data < h.length := by
    unfold getSV at hs
    split at hs
    · rename_i o own b d hc
      split at hs
      · rename_i v items hb hd
        split at hs
        · simp at hs; subst hs
          exact ⟨(List.getElem?_eq_some_iff.mp hb).1, (List.getElem?_eq_some_iff.mp hd).1⟩
        · simp at hs
      · simp at hs
    · simp at hs
  have hf1 : formOf (insert "propagator" (.addr p) s.items) = some s.form := by
    unfold formOf; rw [lookup_insert_ne _ _ _ _ (by decide)]; exact hf.1
  have hfr1 : frameOf (insert "propagator" (.addr p) s.items) = some s.frame := by
    unfold frameOf; rw [lookup_insert_ne _ _ _ _ (by decide)]; exact hf.2
  have g1 := getSV_alloc3 h s.val (insert "propagator" (.addr p) s.items) true s.form s.frame hf1 hfr1
  have e1 : asOrbit h a p = (h ++ [.buf s.val] ++ [.dict (insert "propagator" (.addr p) s.items)] ++ [.sv true false h.length (h.length + 1)], .ok (h.length + 2)) := by
    unfold asOrbit; rw [hs]; simp [hown, alloc]
  let h1 := h ++ [.buf s.val] ++ [.dict (insert "propagator" (.addr p) s.items)] ++ [.sv true false h.length (h.length + 1)]
  have hl1 : h1.length = h.length + 3 := by simp [h1]
  have hitems : erase "propagator" (insert "propagator" (.addr p) s.items) = s.items := erase_insert _ _ _ hp
  have e2 : asSV h1 (h.length + 2) = (h1 ++ [.buf s.val] ++ [.dict s.items] ++ [.sv false false h1.length (h1.length + 1)], .ok (h1.length + 2)) := by
    unfold asSV; rw [g1]; simp [alloc, hitems]
  have g2 := getSV_alloc3 h1 s.val s.items false s.form s.frame hf.1 hf.2
  refine ⟨h1, h.length + 2, _, h1.length + 2, _, e1, e2, g2, rfl, rfl, rfl, rfl, rfl, ?_, ?_, ?_⟩
  · simp only; omega
  · simp only; omega
  · have q1 : Pres h h1 := ((alloc_pres h _).alloc _).alloc _
    have q2 : Pres h1 (h1 ++ [.buf s.val] ++ [.dict s.items] ++ [.sv false false h1.length (h1.length + 1)]) :=
      ((alloc_pres h1 _).alloc _).alloc _
    exact q1.trans q2

/-- `as_orbit` hands every metadata value over *as it is*: the new Orbit's `_data` holds, under every key but
`propagator`, the very same reference as the receiver's — metadata is preserved, and every mutable value
(covariance, maneuver list, containers) is thereby shared (see Witness/C15.lean for the consequence) -/
theorem asOrbit_same_references (h : Heap) (a p : Nat) (s : SV) (hs : getSV h a = some s) (hown : s.owned = false) :
    ∃ h1 n s1, asOrbit h a p = (h1, .ok n) ∧ getSV h1 n = some s1 ∧ s1.val = s.val ∧ s1.buf ≠ s.buf ∧ s1.data ≠ s.data ∧
      ∀ k, k ≠ "propagator" → lookup k s1.items = lookup k s.items := by
  have hf : formOf s.items = some s.form ∧ frameOf s.items = some s.frame := by
    unfold getSV at hs
    split at hs
    · split at hs
      · split at hs
        · rename_i f fr hf hfr; simp at hs; subst hs; exact ⟨hf, hfr⟩
        · simp at hs
      · simp at hs
    · simp at hs
  have hbuf : s.buf < h.length ∧ s.data < h.length := by
    unfold getSV at hs
    split at hs
    · rename_i o own b d hc
      split at hs
      · rename_i v items hb hd
        split at hs
        · simp at hs; subst hs
          exact ⟨(List.getElem?_eq_some_iff.mp hb).1, (List.getElem?_eq_some_iff.mp hd).1⟩
        · simp at hs
      · simp at hs
    · simp at hs
  have hf1 : formOf (insert "propagator" (.addr p) s.items) = some s.form := by
    unfold formOf; rw [lookup_insert_ne _ _ _ _ (by decide)]; exact hf.1
  have hfr1 : frameOf (insert "propagator" (.addr p) s.items) = some s.frame := by
    unfold frameOf; rw [lookup_insert_ne _ _ _ _ (by decide)]; exact hf.2
  have g1 := getSV_alloc3 h s.val (insert "propagator" (.addr p) s.items) true s.form s.frame hf1 hfr1
  have e1 : asOrbit h a p = (h ++ [.buf s.val] ++ [.dict (insert "propagator" (.addr p) s.items)] ++ [.sv true false h.length (h.length + 1)], .ok (h.length + 2)) := by
    unfold asOrbit; rw [hs]; simp [hown, alloc]
  refine ⟨_, _, _, e1, g1, rfl, ?_, ?_, fun k hk => lookup_insert_ne _ _ _ _ hk⟩
  · simp only; omega
  · simp only; omega

/-! ## copies -/

/-- `copy()` writes nothing: every cell of the old heap — the receiver and all it can reach — is unchanged -/
theorem copy_receiver_unchanged (h : Heap) (a : Nat) : Pres h (copySV h a).1 :=
  copySVWith_pres (copyRef_ok _) h a

/- Full statement (clause "a copy shares no mutable data with the original"):
     no mutable cell reachable from the copy is reachable from the original.
   It is FALSE of the current code (Witness/C15.lean: maneuver objects and nested containers stay shared).
   Proved at the depth the code copies: -/
/-- after `c = sv.copy()`: the object, its coordinate buffer and its `_data` dict are new cells; the values are
those of the receiver; and every reference stored in the new `_data` is a new cell (list, dict, ndarray,
covariance, propagator have been copied) — the only old addresses that survive at the first level are
maneuver objects -/
theorem copy_separate_depth1 (h h1 : Heap) (a n : Nat) (s' : SV)
    (hr : copySV h a = (h1, .ok n)) (hg : getSV h1 n = some s') :
    h.length ≤ n ∧ h.length ≤ s'.buf ∧ h.length ≤ s'.data ∧ s'.buf ≠ s'.data ∧
    (∃ s, getSV h a = some s ∧ s'.val = s.val ∧ s'.orbit = s.orbit) ∧
    ∀ k x, (k, Ref.addr x) ∈ s'.items → h.length ≤ x ∨ ∃ t, h[x]? = some (.man t) := by
  obtain ⟨hb, hd, hn, hne, s, items', h0, hs, hc, hv, hi, ho, _⟩ := copySVWith_getSV (copyRef_ok _) h h1 a n s' hr hg
  refine ⟨hn, hb, hd, hne, ⟨s, hs, hv, ho⟩, ?_⟩
  rw [hi]
  exact copyItems_fresh (copyRef_ok _) h s.items items' h0 hc

/-- `copy(form=…)`: the conversion runs on the new object and writes only its (new) buffer and dict — the
receiver is unchanged whether the conversion succeeds or fails -/
theorem copyForm_receiver_unchanged (h : Heap) (a : Nat) (name : String) : Pres h (copyForm h a name).1 := by
  unfold copyForm
  have p := copy_receiver_unchanged h a
  split
  · rename_i h1 e he; rw [he] at p; exact p
  · rename_i h1 n he
    rw [he] at p
    have q : Pres h (setForm h1 n name).1 := by
      unfold setForm
      split
      · exact p
      · unfold setFormTo
        split
        · exact p
        · rename_i s' hs'
          split
          · exact p
          · obtain ⟨hb, hd, _⟩ := copySVWith_getSV (copyRef_ok _) h h1 a n s' he hs'
            exact (p.wr hb _).wr hd _
    split
    · rename_i h2 e he2; rw [he2] at q; exact q
    · rename_i h2 he2; rw [he2] at q; exact q

end BeyondVerif.C15
