import BeyondVerif.Lemmas.Heap
/-!
# C15 — state vectors have value semantics and change atomically

Theorems about the heap model `Model/Heap.lean` (tied to /repo by the exact correspondence run and by
the name tables regenerated into `Generated/FormTables.lean` on every run).
-/
namespace BeyondVerif.C15
open BeyondVerif.Heap BeyondVerif.Generated FormTables

/-! ## element access by name, alias and index -/

/-- every form has six pairwise distinct element names (so `param_names.index` is unambiguous) -/
theorem names_six_distinct : ∀ p ∈ paramNames, p.2.length = 6 ∧ p.2.Nodup := by decide +kernel

/-- the forms in which the element name itself is not usable: found by the oracle, see Witness/C15.lean -/
def nameExceptions : List (String × Nat) := [("cylindrical", 1), ("cylindrical", 4)]

/- Full statement (clause "element access by name … agrees with the current form's ordering"):
     ∀ p ∈ paramNames, ∀ i < 6, access p.1 (p.2.getD i "") = .slot i
   It is FALSE of the current code for cylindrical `theta` / `theta_dot` (Witness.C15.cylindrical_theta_refused):
   `Form.alt` rewrites them to `θ` / `θ_dot`, which cylindrical does not have. Proved for every other (form, slot). -/
/-- the i-th element name of a form addresses slot i -/
theorem access_name_index_partial :
    ∀ p ∈ paramNames, ∀ i, i < 6 → (p.1, i) ∉ nameExceptions → access p.1 (p.2.getD i "") = .slot i := by
  decide +kernel

example : access "keplerian" "Ω" = .slot 3 := by decide +kernel

/-- an alias addresses the slot of the element it stands for, in every form that has that element -/
theorem access_alias_index :
    ∀ p ∈ paramNames, ∀ al ∈ alt, ∀ i, i < 6 → p.2[i]? = some al.2 → access p.1 al.1 = .slot i := by
  decide +kernel

example : access "keplerian" "raan" = .slot 3 ∧ access "tle" "Omega" = .slot 1 := by decide +kernel

/-- a reserved name (element name of some form, or an alias of one) that does not denote an element of
the current form is refused — it never reads or creates a metadata entry and never hits another slot -/
theorem access_foreign_refused :
    ∀ p ∈ paramNames, ∀ n ∈ cacheParamNames ++ alt.map (·.1),
      (alt.lookup n).getD n ∉ p.2 → access p.1 n = .foreign := by
  decide +kernel

example : access "keplerian" "x" = .foreign ∧ access "cartesian" "raan" = .foreign := by decide +kernel

/-- whatever a name resolves to, a slot answer is the position of the (alias-resolved) name in the current form -/
theorem access_slot_sound :
    ∀ p ∈ paramNames, ∀ n ∈ cacheParamNames ++ alt.map (·.1), ∀ i, i < 6 →
      access p.1 n = .slot i → p.2[i]? = some ((alt.lookup n).getD n) := by
  decide +kernel

/-! ## failing form / frame changes -/

/-- an unknown form name: nothing is touched -/
theorem setForm_unknown_atomic (h : Heap) (a : Nat) (name : String) (hn : resolveForm name = none) :
    setForm h a name = (h, .error .unknownForm) := by
  simp [setForm, hn]

example : resolveForm "no_such_form" = none := by decide +kernel

/-- *every* failing form change leaves the whole heap as it was -/
theorem setForm_error_atomic (h h' : Heap) (a : Nat) (name : String) (e : Err)
    (hr : setForm h a name = (h', .error e)) : h' = h := by
  unfold setForm at hr
  split at hr
  · simp at hr; exact hr.1.symm
  · unfold setFormTo at hr
    split at hr
    · simp at hr; exact hr.1.symm
    · split at hr
      · simp at hr; exact hr.1.symm
      · simp at hr

/-- an unknown frame name: nothing is touched -/
theorem setFrame_unknown_atomic (h : Heap) (a : Nat) (name : String) (hn : resolveFrame name = none) :
    setFrame h a name = (h, .error .unknownFrame) := by
  simp [setFrame, hn]

example : resolveFrame "NoSuchFrame" = none := by decide +kernel

/-- a failing transformation (Hill frame involved, or an unpickled object): the only cell that may be
rewritten is the coordinate buffer, and its new content denotes the same physical state (`phys` erases
form conversions: the code goes form → cartesian → form); form, frame, metadata, covariance cells are
not written at all -/
theorem setFrameBasic_error_atomic (h h' : Heap) (a : Nat) (fr : Fr) (e : Err) (s : SV)
    (hs : getSV h a = some s) (hr : setFrameBasic h a fr = (h', .error e)) :
    h' = h ∨ ∃ v', h' = write h s.buf (.buf v') ∧ phys v' = phys s.val := by
  unfold setFrameBasic at hr
  rw [hs] at hr
  simp only at hr
  split at hr
  · left; simp at hr; exact hr.1.symm
  · split at hr
    · simp at hr
    · split at hr
      · simp at hr
      · right; simp at hr; exact ⟨_, hr.1.symm, by simp [phys_mkConv]⟩
      · right; simp at hr; exact ⟨_, hr.1.symm, by simp [phys_mkConv]⟩
      · left; simp at hr; exact hr.1.symm

example : setFrameBasic [.buf (.init 0), .dict [("form", .form "keplerian"), ("frame", .frame (.reg "EME2000"))], .sv false false 0 1] 2 .hill
    = ([.buf (.conv "cartesian" "keplerian" (.conv "keplerian" "cartesian" (.init 0))),
        .dict [("form", .form "keplerian"), ("frame", .frame (.reg "EME2000"))], .sv false false 0 1], .error .value) := by
  decide +kernel

/-- where a failing `sv.frame = name` can come from: an unknown name (nothing touched), the state-vector
part (see `setFrameBasic_error_atomic`), or — the state vector having been changed successfully — the
covariance that was to follow it -/
theorem setFrame_error_cases (h h' : Heap) (a : Nat) (name : String) (e : Err) (s : SV)
    (hs : getSV h a = some s) (hr : setFrame h a name = (h', .error e)) :
    (h' = h) ∨
    (∃ fr, resolveFrame name = some fr ∧ setFrameBasic h a fr = (h', .error e)) ∨
    (∃ fr h1 c, resolveFrame name = some fr ∧ setFrameBasic h a fr = (h1, .ok ()) ∧ lookup "cov" s.items = some (.addr c)) := by
  unfold setFrame at hr
  split at hr
  · left; simp at hr; exact hr.1.symm
  · rename_i fr hfr
    rw [hs] at hr
    simp only at hr
    split at hr
    · rename_i h1 e1 hb
      right; left
      simp at hr
      exact ⟨fr, hfr, by rw [hb, hr.1, hr.2]⟩
    · rename_i h1 hb
      right; right
      split at hr
      · rename_i c hc
        exact ⟨fr, h1, c, hfr, hb, hc⟩
      · simp at hr

/-! ## StateVector ↔ Orbit -/

/-- `as_orbit` allocates three new cells and writes nothing: the receiver and everything reachable from it is unchanged -/
theorem asOrbit_receiver_unchanged (h : Heap) (a p : Nat) : Pres h (asOrbit h a p).1 := by
  unfold asOrbit
  split
  · exact Pres.refl h
  · split
    · exact Pres.refl h
    · exact ((alloc_pres h _).alloc _).alloc _

theorem asSV_receiver_unchanged (h : Heap) (a : Nat) : Pres h (asSV h a).1 := by
  unfold asSV
  split
  · exact Pres.refl h
  · split
    · exact Pres.refl h
    · split
      · exact Pres.refl h
      · exact ((alloc_pres h _).alloc _).alloc _

end BeyondVerif.C15
