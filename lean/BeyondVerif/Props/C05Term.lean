import BeyondVerif.Props.C05Cart
import BeyondVerif.Lemmas.NewtonKeplerApogee
import BeyondVerif.Lemmas.NewtonHyp
import BeyondVerif.Lemmas.Hyp

/-!
# C05 (part 3) — `Form.M2E` returns, for every bound and every hyperbolic orbit; periodicity of the cartesian state

* `kepler_m2e_terminates`: over ℝ the Newton loop of `Form.M2E` (start values, update, tolerance and reduction translated from
  forms.py on every run) exits for EVERY mean anomaly and every `0 ≤ e < 1` — the gap `π − e < |M'| ≤ π` left by
  `kepler_m2e_terminates_partial` is closed (quadratic contraction around `±π`, Lemmas/NewtonKeplerApogee.lean).
* `kepler_m2e_terminates_hyperbolic`: it exits for every `e > 1`, every `M`, whatever the start value — in particular with the
  clamped start value of fix 31f549a (Lemmas/NewtonHyp.lean).
* the returned anomaly solves the (hyperbolic) Kepler equation for the advanced mean anomaly (`kepler_anomaly_residual_hyperbolic`).
* `kpM2e_shift`, `kepler_periodic_cartesian`: for bound orbits `M2E` commutes with whole turns for every fuel, so the CARTESIAN
  state the model returns after `k` periods is the state it returns at once — for every fuel (returned or not).
-/
noncomputable section
set_option linter.unusedVariables false
namespace BeyondVerif.C05
open BeyondVerif.R BeyondVerif.NumReal

/-! ## The loop returns as soon as two consecutive iterates are closer than `tol` -/

/-- the iterates of the translated Newton update (`next_E` / `next_H`, whichever the conic selects) -/
def kpIter (e M X : ℝ) : ℕ → ℝ
  | 0 => X
  | n + 1 => kpM2eNext (kpIter e M X n) e M

theorem kpIter_shift (e M X : ℝ) (j : ℕ) : kpIter e M X (j + 1) = kpIter e M (kpM2eNext X e M) j := by
  induction j with
  | zero => rfl
  | succ j ih => rw [kpIter, ih]; rfl

/-- if the first short step of the iterates from `X` occurs at index `n`, the loop returns iterate `n + 1` for every fuel `> n`
(both conics) -/
theorem loop_returns_gen (e M : ℝ) : ∀ (n : ℕ) (X : ℝ),
    (∀ j < n, kpM2eTol ≤ |kpIter e M X (j + 1) - kpIter e M X j|) →
    |kpIter e M X (n + 1) - kpIter e M X n| < kpM2eTol →
    ∀ fuel, n + 1 ≤ fuel → kpM2eLoop fuel e M X (kpM2eNext X e M) = some (kpIter e M X (n + 1)) := by
  intro n
  induction n with
  | zero =>
    intro X _ hs fuel hf
    obtain ⟨f, rfl⟩ : ∃ f, fuel = f + 1 := ⟨fuel - 1, by omega⟩
    have hs' : ¬ (|kpM2eNext X e M - X| ≥ kpM2eTol) := not_le.mpr hs
    simp only [kpM2eLoop, kpM2eContinue, absR, if_neg hs']
    rfl
  | succ n ih =>
    intro X hl hs fuel hf
    obtain ⟨f, rfl⟩ : ∃ f, fuel = f + 1 := ⟨fuel - 1, by omega⟩
    have h0 : |kpM2eNext X e M - X| ≥ kpM2eTol := hl 0 (Nat.succ_pos n)
    simp only [kpM2eLoop, kpM2eContinue, absR, if_pos h0]
    have := ih (kpM2eNext X e M)
      (fun j hj => by rw [← kpIter_shift, ← kpIter_shift]; exact hl (j + 1) (Nat.succ_lt_succ hj))
      (by rw [← kpIter_shift, ← kpIter_shift]; exact hs) f (by omega)
    rw [this, ← kpIter_shift]

/-- some step is short ⇒ the loop returns (for some fuel; then for every larger one) -/
theorem loop_exits_of_short (e M X : ℝ) (h : ∃ n, |kpIter e M X (n + 1) - kpIter e M X n| < kpM2eTol) :
    ∃ fuel X1, kpM2eLoop fuel e M X (kpM2eNext X e M) = some X1 := by
  obtain ⟨n, hl, hs⟩ := NewtonKepler.first_short_step h
  exact ⟨n + 1, _, loop_returns_gen e M n X hl hs (n + 1) le_rfl⟩

theorem kpIter_ell (e M X : ℝ) (h1 : e < 1) (k : ℕ) : kpIter e M X k = NewtonKepler.iter e M X k := by
  induction k with
  | zero => rfl
  | succ k ih => rw [kpIter, ih, kpM2eNext_eq_G e M _ h1]; rfl

theorem kpM2eNext_eq_Gh (e M X : ℝ) (h1 : ¬ e < 1) : kpM2eNext X e M = NewtonHyp.G e M X := by
  simp [kpM2eNext, if_neg h1, NewtonHyp.G]

theorem kpIter_hyp (e M X : ℝ) (h1 : ¬ e < 1) (k : ℕ) : kpIter e M X k = NewtonHyp.iter e M X k := by
  induction k with
  | zero => rfl
  | succ k ih => rw [kpIter, ih, kpM2eNext_eq_Gh e M _ h1]; rfl

/-! ## Ellipse: every mean anomaly -/

/-- **Termination of `Form.M2E` for bound orbits (code after fix b41fd8b), over ℝ, in full**: for every `0 ≤ e < 1` and EVERY
mean anomaly `M` (any number of revolutions, either sign) there is a fuel for which the model of `Form.M2E` returns, and the
returned anomaly solves Kepler's equation within `2·tol·(1 + e)`.  Reduced anomalies with `|M'| ≤ π − e`: monotone descent
(`kepler_m2e_terminates_partial`); `π − e < |M'| ≤ π`, where the start value `M' ± e` overshoots `±π`: quadratic contraction
around `±π`; `M' = −π`: start value `−π + e`, root `−π`. -/
theorem kepler_m2e_terminates (e M : ℝ) (h0 : 0 ≤ e) (h1 : e < 1) :
    ∃ fuel E, kpM2e fuel e M = some E ∧ |E - e * Real.sin E - M| < 2 * kpM2eTol * (1 + e) := by
  suffices hloop : ∃ fuel X1, kpM2eLoop fuel e (M - 2 * Real.pi * revsOf M) (kpM2eStart e (M - 2 * Real.pi * revsOf M))
      (kpM2eNext (kpM2eStart e (M - 2 * Real.pi * revsOf M)) e (M - 2 * Real.pi * revsOf M)) = some X1 by
    obtain ⟨fuel, X1, hl⟩ := hloop
    refine ⟨fuel, X1 + 2 * Real.pi * revsOf M, ?_, ?_⟩
    · simp only [kpM2e, kpM2eArg, kpM2eOffset, kpM2eResult, if_pos h1, floorR, pi]
      have : (⌊(M + Real.pi) / (2 * Real.pi)⌋ : ℤ) = revsOf M := rfl
      rw [this, hl]; rfl
    · have hr := m2e_loop_residual_elliptic fuel e _ _ X1 h0 h1 hl
      have hs : Real.sin (X1 + 2 * Real.pi * revsOf M) = Real.sin X1 := by
        rw [mul_comm (2 * Real.pi)]; exact Real.sin_add_int_mul_two_pi X1 _
      rw [hs]
      have : X1 + 2 * Real.pi * ↑(revsOf M) - e * Real.sin X1 - M = X1 - e * Real.sin X1 - (M - 2 * Real.pi * ↑(revsOf M)) := by ring
      rw [this]; exact hr
  have hmem := reduced_mem M
  generalize M - 2 * Real.pi * revsOf M = Mr at hmem
  have hpi := Real.pi_pos
  have htol := kpM2eTol_pos
  -- 0 ≤ m ≤ π, start value m + e
  have pos : ∀ m : ℝ, 0 ≤ m → m ≤ Real.pi → ∃ fuel X1, kpM2eLoop fuel e m (m + e) (kpM2eNext (m + e) e m) = some X1 := by
    intro m hm0 hmpi
    apply loop_exits_of_short
    simp only [kpIter_ell e m _ h1]
    rcases le_total (m + e) Real.pi with hme | hme
    · obtain ⟨n, _, hs, _⟩ := NewtonKepler.exists_short_step (e := e) (M := m) h0 h1 hm0 hme htol
      exact ⟨n, hs⟩
    · exact NewtonKepler.exists_short_step_apogee h0 h1 hm0 hmpi hme htol
  rcases le_or_gt 0 Mr with hpos | hneg
  · have hstart : kpM2eStart e Mr = Mr + e := by
      have hc : ¬ ((-Real.pi < Mr ∧ Mr < 0) ∨ Mr > Real.pi) := by
        rintro (⟨_, h⟩ | h) <;> linarith [hmem.2]
      simp only [kpM2eStart, if_pos h1, pi, if_neg hc]
    rw [hstart]; exact pos Mr hpos hmem.2.le
  · by_cases hc : (-Real.pi < Mr ∧ Mr < 0) ∨ Mr > Real.pi
    · have hstart : kpM2eStart e Mr = -(-Mr + e) := by
        simp only [kpM2eStart, if_pos h1, pi, if_pos hc]; ring
      obtain ⟨fuel, X1, hl⟩ := pos (-Mr) (by linarith) (by linarith [hmem.1])
      refine ⟨fuel, -X1, ?_⟩
      rw [hstart]
      have hsym := kpM2eLoop_neg e (-Mr) h1 fuel (-Mr + e) (kpM2eNext (-Mr + e) e (-Mr))
      rw [neg_neg, ← kpM2eNext_neg e (-Mr) (-Mr + e) h1, neg_neg, hl] at hsym
      simpa using hsym
    · -- only `Mr = −π`
      have hle : Mr ≤ -Real.pi := by
        by_contra hlt
        exact hc (Or.inl ⟨not_le.mp hlt, hneg⟩)
      have hMr : Mr = -Real.pi := le_antisymm hle hmem.1
      have hstart : kpM2eStart e Mr = -Real.pi + e := by
        simp only [kpM2eStart, if_pos h1, pi, if_neg hc]; rw [hMr]
      rw [hstart, hMr]
      apply loop_exits_of_short
      simp only [kpIter_ell e _ _ h1]
      exact NewtonKepler.exists_short_step_neg_pi h0 h1 htol

/-- non-trivial instances of the three regimes exist: `e = 0.9`: `M' = 1` (descent), `M' = 3` (within `e` of `π`), `M' = −π` -/
example : (1 : ℝ) + 0.9 ≤ Real.pi ∧ Real.pi ≤ (3 : ℝ) + 0.9 ∧ (3 : ℝ) ≤ Real.pi := by
  have := Real.pi_gt_three; have := Real.pi_lt_d2
  refine ⟨by linarith, by linarith, by linarith⟩

/-! ## Hyperbola: every mean anomaly, every start value -/

/-- **Kepler-equation residual, hyperbola**: whatever the start value and the fuel, a value returned by the loop solves
`e sinh H − H = M` within `8·e·cosh H·tol²` (the Newton step cancels the first-order term; C01 proves the same for its own
copy of the translated loop). -/
theorem m2e_loop_residual_hyperbolic (fuel : Nat) (e M X0 H : ℝ) (h1 : 1 < e)
    (h : kpM2eLoop fuel e M X0 (kpM2eNext X0 e M) = some H) :
    |e * Real.sinh H - H - M| < 8 * e * Real.cosh H * kpM2eTol ^ 2 := by
  obtain ⟨X, hR, hd⟩ := kpM2eLoop_exit fuel e M _ _ H rfl h
  have hne1 : ¬ e < 1 := not_lt.mpr h1.le
  have hD : 0 < e * Real.cosh X - 1 := by nlinarith [Real.one_le_cosh X]
  simp only [kpM2eNext, if_neg hne1, cosh, sinh] at hR
  set d := H - X with hdd
  have hstep : d * (e * Real.cosh X - 1) = M - e * Real.sinh X + X := by
    rw [hdd, hR]; field_simp; ring
  have htol1 : kpM2eTol ≤ (1 : ℝ) := by unfold kpM2eTol; norm_num
  have hd1 : |d| ≤ 1 := le_trans hd.le htol1
  have hrem := Hyp.abs_sinh_add_sub_le (X := X) hd1
  have hRX : H = X + d := by rw [hdd]; ring
  have key : e * Real.sinh H - H - M = e * (Real.sinh (X + d) - Real.sinh X - d * Real.cosh X) := by
    rw [← hRX]; linear_combination hstep
  rw [key, abs_mul, abs_of_pos (by linarith : (0 : ℝ) < e)]
  have h4 := Hyp.cosh_le_four_mul (X := X) (R := H) hd1
  have hd2 : d ^ 2 < kpM2eTol ^ 2 := by
    rw [← sq_abs d]; exact pow_lt_pow_left₀ hd (abs_nonneg d) (by norm_num)
  have hcX := Real.cosh_pos X
  have hcR := Real.cosh_pos H
  have he0 : (0 : ℝ) < e := by linarith
  calc e * |Real.sinh (X + d) - Real.sinh X - d * Real.cosh X|
      ≤ e * (2 * Real.cosh X * d ^ 2) := by gcongr
    _ ≤ e * (2 * (4 * Real.cosh H) * d ^ 2) := by gcongr
    _ < e * (2 * (4 * Real.cosh H) * kpM2eTol ^ 2) := by gcongr
    _ = 8 * e * Real.cosh H * kpM2eTol ^ 2 := by ring

/-- what `Form.M2E` computes for a hyperbola: no reduction, no offset -/
theorem kpM2e_hyperbolic_spec (fuel : Nat) (e M : ℝ) (h1 : ¬ e < 1) :
    kpM2e fuel e M = kpM2eLoop fuel e M (kpM2eStart e M) (kpM2eNext (kpM2eStart e M) e M) := by
  simp only [kpM2e, kpM2eArg, kpM2eOffset, kpM2eResult, if_neg h1]
  cases kpM2eLoop fuel e M (kpM2eStart e M) (kpM2eNext (kpM2eStart e M) e M) <;> rfl

/-- **The propagated state's hyperbolic anomaly solves the hyperbolic Kepler equation for the advanced mean anomaly**
(every fuel; hypothesis: the loop exited — `kepler_m2e_terminates_hyperbolic` shows it does). -/
theorem kepler_anomaly_residual_hyperbolic (fuel : Nat) (mu : ℝ) (x : Elts) (dt H : ℝ) (h1 : 1 < x.e)
    (h : kpM2e fuel x.e (keplerStep mu x dt).M = some H) :
    |x.e * Real.sinh H - H - (x.M + meanMotion mu x.a * dt)| < 8 * x.e * Real.cosh H * kpM2eTol ^ 2 := by
  have hM : (keplerStep mu x dt).M = x.M + meanMotion mu x.a * dt := by simp [keplerStep_eq]
  rw [hM, kpM2e_hyperbolic_spec fuel _ _ (not_lt.mpr h1.le)] at h
  exact m2e_loop_residual_hyperbolic fuel _ _ _ H h1 h

/-- **Termination of `Form.M2E` for hyperbolic orbits, over ℝ**: for every `e > 1` and every mean anomaly `M` there is a fuel
for which the model of `Form.M2E` returns — the start value translated from the source (`M ∓ e`, `M/(e−1)`, clamped to the
asymptotic solution `±log(2|M|/e + 1.8)` beyond 30 since 31f549a) plays no role: Newton's iteration for `e sinh H − H − M`
cannot make steps of at least `tol` for ever (`NewtonHyp.exists_short_step`) — and the returned anomaly solves the hyperbolic
Kepler equation within `8·e·cosh H·tol²`. -/
theorem kepler_m2e_terminates_hyperbolic (e M : ℝ) (h1 : 1 < e) :
    ∃ fuel H, kpM2e fuel e M = some H ∧ |e * Real.sinh H - H - M| < 8 * e * Real.cosh H * kpM2eTol ^ 2 := by
  have hne1 : ¬ e < 1 := not_lt.mpr h1.le
  obtain ⟨fuel, X1, hl⟩ := loop_exits_of_short e M (kpM2eStart e M) (by
    simp only [kpIter_hyp e M _ hne1]
    exact NewtonHyp.exists_short_step h1 M _ kpM2eTol_pos)
  refine ⟨fuel, X1, ?_, m2e_loop_residual_hyperbolic fuel e M _ X1 h1 hl⟩
  rw [kpM2e_hyperbolic_spec fuel e M hne1, hl]

example : (1 : ℝ) < 2.5 := by norm_num

/-- **`Orbit.propagate` with the Kepler propagator returns a state for every bound and every hyperbolic orbit and every Δt**
(model over ℝ, whole chain: element update translated from kepler.py, `M2E`, eccentric → true → cartesian translated from
forms.py): there is a fuel for which `meanToCart` of the propagated elements is a state. -/
theorem kepler_propagation_returns (mu : ℝ) (x : Elts) (dt : ℝ) (he : (0 ≤ x.e ∧ x.e < 1) ∨ 1 < x.e) :
    ∃ fuel c, meanToCart fuel mu (keplerStep mu x dt) = some c := by
  have hek : (keplerStep mu x dt).e = x.e := (kepler_elements_constant mu x dt).2.1
  rcases he with ⟨h0, h1⟩ | h1
  · obtain ⟨fuel, E, hE, _⟩ := kepler_m2e_terminates x.e (keplerStep mu x dt).M h0 h1
    exact ⟨fuel, _, by rw [meanToCart_eq_cartOf, hek, hE]; rfl⟩
  · obtain ⟨fuel, H, hH, _⟩ := kepler_m2e_terminates_hyperbolic x.e (keplerStep mu x dt).M h1
    exact ⟨fuel, _, by rw [meanToCart_eq_cartOf, hek, hH]; rfl⟩

/-! ## Periodicity of the cartesian state, for every fuel -/

/-- **`Form.M2E` commutes with whole turns, for every fuel** (bound orbits): the reduction sets the turns aside, the loop
runs on the same reduced anomaly, the turns are added back — `M2E(e, M + 2πk) = M2E(e, M) + 2πk`, returned or not. -/
theorem kpM2e_shift (fuel : Nat) (e M : ℝ) (k : ℤ) (h1 : e < 1) :
    kpM2e fuel e (M + 2 * Real.pi * k) = (kpM2e fuel e M).map (fun E => E + 2 * Real.pi * k) := by
  have hpi : (2 : ℝ) * Real.pi ≠ 0 := by have := Real.pi_pos; positivity
  have hfl : ⌊(M + 2 * Real.pi * k + Real.pi) / (2 * Real.pi)⌋ = ⌊(M + Real.pi) / (2 * Real.pi)⌋ + k := by
    rw [show (M + 2 * Real.pi * k + Real.pi) / (2 * Real.pi) = (M + Real.pi) / (2 * Real.pi) + k by field_simp; ring]
    exact Int.floor_add_intCast _ _
  have harg : kpM2eArg e (M + 2 * Real.pi * k) = kpM2eArg e M := by
    simp only [kpM2eArg, if_pos h1, floorR, pi, hfl]; push_cast; ring
  have hoff : kpM2eOffset e (M + 2 * Real.pi * k) = kpM2eOffset e M + 2 * Real.pi * k := by
    simp only [kpM2eOffset, if_pos h1, floorR, pi, hfl]; push_cast; ring
  simp only [kpM2e, harg, hoff, Option.map_map]
  congr 1
  funext X1
  simp only [Function.comp, kpM2eResult, if_pos h1]; ring

/-- the two translated edges eccentric → true → cartesian do not see whole turns of the eccentric anomaly (bound orbits) -/
theorem cartOf_shift (mu : ℝ) (x : Elts) (E : ℝ) (k : ℤ) (h1 : x.e < 1) :
    cartOf mu x (E + 2 * Real.pi * k) = cartOf mu x E := by
  have hc : Real.cos (E + 2 * Real.pi * k) = Real.cos E := by
    rw [mul_comm (2 * Real.pi)]; exact Real.cos_add_int_mul_two_pi E k
  have hs : Real.sin (E + 2 * Real.pi * k) = Real.sin E := by
    rw [mul_comm (2 * Real.pi)]; exact Real.sin_add_int_mul_two_pi E k
  simp only [cartOf, app6, kpEccToKepl, if_pos h1, cos, sin, hc, hs]

/-- **the mean → cartesian conversion of the model is 2π-periodic in `M`, for every fuel** (bound orbits) — the hypothesis
`hPer` of `kepler_cart_periodic`, proved for the translated chain -/
theorem meanToCart_shiftM (fuel : Nat) (mu : ℝ) (x : Elts) (k : ℤ) (h1 : x.e < 1) :
    meanToCart fuel mu (shiftM x k) = meanToCart fuel mu x := by
  rw [meanToCart_eq_cartOf, meanToCart_eq_cartOf]
  have hsm : (shiftM x k).M = x.M + 2 * Real.pi * k := rfl
  have hse : (shiftM x k).e = x.e := rfl
  have hco : cartOf mu (shiftM x k) = cartOf mu x := rfl
  rw [hsm, hse, hco, kpM2e_shift fuel x.e x.M k h1, Option.map_map]
  congr 1
  funext E
  exact cartOf_shift mu x E k h1

/-- **Periodicity for bound orbits at the CARTESIAN level, for every fuel**: the state the model of `Orbit.propagate` returns
after `k` periods `2π/n` (`k` of either sign) is the state it returns after no time at all — the same `Option`: a returned
state for exactly the same fuels. -/
theorem kepler_periodic_cartesian (fuel : Nat) (mu : ℝ) (x : Elts) (hmu : 0 < mu) (ha : x.a ≠ 0) (h1 : x.e < 1) (k : ℤ) :
    meanToCart fuel mu (keplerStep mu x (k * (2 * Real.pi / meanMotion mu x.a))) = meanToCart fuel mu x := by
  rw [kepler_periodic_k mu x hmu ha k, meanToCart_shiftM fuel mu x k h1]

/-- … and it commutes with every further propagation: `k` periods and then `t` is `t` -/
theorem kepler_periodic_cartesian_then (fuel : Nat) (mu : ℝ) (x : Elts) (hmu : 0 < mu) (ha : x.a ≠ 0) (h1 : x.e < 1) (k : ℤ)
    (t : ℝ) :
    meanToCart fuel mu (keplerStep mu (keplerStep mu x (k * (2 * Real.pi / meanMotion mu x.a))) t)
      = meanToCart fuel mu (keplerStep mu x t) := by
  rw [kepler_periodic_k mu x hmu ha k, keplerStep_shiftM]
  exact meanToCart_shiftM fuel mu (keplerStep mu x t) k (by simpa [keplerStep_eq] using h1)

example : (0 : ℝ) < 4 ∧ (⟨1, 0.5, 1, 2, 3, 0.25⟩ : Elts).a ≠ 0 ∧ (⟨1, 0.5, 1, 2, 3, 0.25⟩ : Elts).e < 1 := by norm_num

/-! ### … cartesian in, cartesian out -/

/-- **Periodicity of `Orbit.propagate` on a cartesian orbit, for every fuel**: `x` = the mean elements the orbit setter computes
from the cartesian coordinates `c` (the translated chain cartesian → keplerian → eccentric → mean).  If they describe a bound
orbit, propagating `c` by `k` periods returns exactly what propagating `c` by no time at all returns (the same `Option`; that
the latter is `c` again is the round trip of C01). -/
theorem kepler_periodic_cartesian_in_out (fuel : Nat) (mu : ℝ) (c : List ℝ) (x : Elts)
    (hx : eltsOfList (cartToMean mu c) = some x) (hmu : 0 < mu) (ha : x.a ≠ 0) (h1 : x.e < 1) (k : ℤ) :
    orbitPropagateCart (keplerStep mu) fuel mu c (k * (2 * Real.pi / meanMotion mu x.a))
      = orbitPropagateCart (keplerStep mu) fuel mu c 0 := by
  simp only [orbitPropagateCart, hx, Option.bind_some]
  rw [kepler_periodic_cartesian fuel mu x hmu ha h1 k, kepler_zero]

/-- … and `k` periods before or after any further span `t` change nothing -/
theorem kepler_periodic_cartesian_in_out_then (fuel : Nat) (mu : ℝ) (c : List ℝ) (x : Elts)
    (hx : eltsOfList (cartToMean mu c) = some x) (hmu : 0 < mu) (ha : x.a ≠ 0) (h1 : x.e < 1) (k : ℤ) (t : ℝ) :
    orbitPropagateCart (keplerStep mu) fuel mu c (k * (2 * Real.pi / meanMotion mu x.a) + t)
      = orbitPropagateCart (keplerStep mu) fuel mu c t := by
  simp only [orbitPropagateCart, hx, Option.bind_some]
  rw [← kepler_compose, kepler_periodic_cartesian_then fuel mu x hmu ha h1 k t]

/-- the setter's chain always yields six elements -/
example (mu : ℝ) (c0 c1 c2 c3 c4 c5 : ℝ) : ∃ x, eltsOfList (cartToMean mu [c0, c1, c2, c3, c4, c5]) = some x := by
  simp [cartToMean, app6, kpCartToKepl, kpKeplToEcc, kpEccToMean, eltsOfList]

/-! ## J2 is a theory of bound orbits -/

/-- **the J2 clause has the domain `0 ≤ e < 1`**: the first-order secular rates are orbit averages and the mean-anomaly rate
contains `√(1 − e²)`.  For `e > 1` the code evaluates `np.sqrt` of a negative number and returns an all-NaN state, silently; the
model over ℝ (where `Real.sqrt` of a negative number is 0) is therefore NOT what the code computes there — its sixth rate
collapses to the bare mean motion — which is why `j2_rates_formula`, `j2_step_mod` and `j2_node_rate_eq_sso` carry the guard
`0 ≤ e < 1` and the compiled (Float) model, like the code, returns NaN (correspondence: agreement on `non-finite`). -/
theorem j2_outside_domain_hyperbolic (mu a e i : ℝ) (h1 : 1 < e) :
    Real.sqrt (1 - e ^ 2) = 0 ∧ (j2Delta mu a e i 1).getD 5 0 = meanMotion mu a := by
  have hs : Real.sqrt (1 - e ^ 2) = 0 := Real.sqrt_eq_zero_of_nonpos (by nlinarith)
  refine ⟨hs, ?_⟩
  simp [j2Delta, powi, sqrt, hs]

example : (1 : ℝ) < 1.5 := by norm_num

end BeyondVerif.C05
