import BeyondVerif.Props.C20Graph
import BeyondVerif.Lemmas.RegWalk

/-!
# C20 — nodes sharing a name: every size, every assignment of names

`Props/C20Named.lean` decides "routes lead to a nearest node of the name and never loop" for ≤ 3 nodes.  Here it is proved
for EVERY forest history and EVERY assignment of names — and the part that does not need a forest for every graph.

The registry model (`Model/Registry.lean`) keys the tables by NAME while directions, neighbour sets and the lock set of
`_update` are node objects.  `Lemmas/RegSim.lean` shows that, run on the same history, the named tables are the
name-quotient of the tables of `Model/Node.lean`:

* `named_tables_quotient`     : for every history without self-link and any names, an entry `(x, d, k)` of the named table
  of `u` is the entry `(v, d, k)` of the plain table for some node `v` named `x`, and no node named `x` has a plain entry
  with fewer steps (for `x ≠ nm u`).
* `named_graph_routes_total`  : ANY graph, any names: from every node `s` and for every name `x ≠ nm s`, if some node
  named `x` is connected to `s` the path is a chain of inserted links without repeated node that ends at a node named `x`
  and passes through no other node of that name; `Unknown` otherwise.  No `KeyError`, no endless walk ("never loop").
* `named_forest_routes_nearest`: forest histories: moreover that path is no longer than ANY chain of links from `s` to ANY
  node named `x` — it leads to a NEAREST node of the name.
* `named_forest_build_succeeds`: `fuel ≥ number of nodes` suffices.

Which of several equidistant nodes of one name is reached depends on the neighbour order (insertion history): not claimed.
-/
namespace BeyondVerif.C20
open BeyondVerif.Node (Route NodeSt Graph get lookupRoute PathRes Lk Conn Forest dist hop)
open BeyondVerif.Reg

/-- the plain model returns whenever the named one does, and the two states are in simulation -/
theorem j_of_build (nm : Nat → Nat) (fuel : Nat) (hist : List (Nat × Nat)) (gN : Graph)
    (hns : ∀ e ∈ hist, e.1 ≠ e.2) (hb : Reg.build nm fuel hist = some gN) :
    ∃ gU, Node.build fuel hist = some gU ∧ J nm gN gU := by
  have := build_lockstep nm fuel hist.reverse (noself_reverse hns)
  rw [List.reverse_reverse] at this
  rcases this with ⟨h1, _⟩ | ⟨g1, g2, h1, h2, hJ⟩
  · rw [hb] at h1; cases h1
  · rw [hb] at h1; cases h1
    exact ⟨g2, h2, hJ⟩

/-- **The named tables are the name-quotient of the plain tables** — every history without self-link, any names. -/
theorem named_tables_quotient (nm : Nat → Nat) (fuel : Nat) (hist : List (Nat × Nat)) (gN : Graph)
    (hns : ∀ e ∈ hist, e.1 ≠ e.2) (hb : Reg.build nm fuel hist = some gN) :
    ∃ gU, Node.build fuel hist = some gU ∧ (∀ u, (get gN u).nbrs = (get gU u).nbrs) ∧
      ∀ u x,
        (∀ r, lookupRoute (get gN u).routes x = some r →
          ∃ v, nm v = x ∧ lookupRoute (get gU u).routes v = some ⟨v, r.dir, r.steps⟩) ∧
        (x ≠ nm u → ∀ v rv, nm v = x → lookupRoute (get gU u).routes v = some rv →
          ∃ r, lookupRoute (get gN u).routes x = some r ∧ r.steps ≤ rv.steps) := by
  obtain ⟨gU, hbU, hJ⟩ := j_of_build nm fuel hist gN hns hb
  exact ⟨gU, hbU, hJ.nbrs, fun u x => hJ.sim u x⟩

/-- a returned named path only follows neighbour hops (`Props/C20Registry.lean: named_path_valid_chain`, restated here so
that this file does not depend on the regenerated registration sites) -/
theorem named_path_chain {nm : Nat → Nat} {g : Graph} (hd : Node.DirInv g) (fuel s goal : Nat) (p : List Nat)
    (hp : Reg.path nm fuel g s goal = .ok p) : p.IsChain (fun a b => b ∈ (get g a).nbrs) := by
  unfold Reg.path at hp
  split at hp
  · cases hp; simp
  · split at hp
    · cases hp
    · exact (Reg.walk_chain nm hd goal fuel s [] p (by simp) hp).1

theorem named_nbrs_iff_linked {nm : Nat → Nat} {fuel : Nat} {hist : List (Nat × Nat)} {gN gU : Graph}
    (hbU : Node.build fuel hist = some gU) (hJ : J nm gN gU) (u v : Nat) :
    v ∈ (get gN u).nbrs ↔ linked hist u v := by
  rw [hJ.nbrs u]; exact nbrs_iff_linked fuel hist gU hbU u v

/-- **Shared names, any graph: a route to the name is always found, it is a simple path, and it stops at the first node
of the name.**  For every history without self-link (cycles, repeated links, any order), every assignment of names, every
node `s` and every name `x` other than the name of `s`. -/
theorem named_graph_routes_total (nm : Nat → Nat) (fuel : Nat) (hist : List (Nat × Nat)) (gN : Graph)
    (hns : ∀ e ∈ hist, e.1 ≠ e.2) (hb : Reg.build nm fuel hist = some gN) (s x : Nat) (hx : x ≠ nm s) :
    ((∃ v, Connected hist s v ∧ nm v = x) →
      ∃ p : List Nat, p.head? = some s ∧ (∃ t, p.getLast? = some t ∧ nm t = x) ∧ p.IsChain (linked hist) ∧ p.Nodup ∧
        (∀ y ∈ p.dropLast, nm y ≠ x) ∧
        ∀ fuel', p.length ≤ fuel' + 1 → Reg.path nm fuel' gN s x = .ok p) ∧
    ((∀ v, Connected hist s v → nm v ≠ x) → ∀ fuel', Reg.path nm fuel' gN s x = .unknown) := by
  obtain ⟨gU, hbU, hJ⟩ := j_of_build nm fuel hist gN hns hb
  have hbU' : Node.build fuel hist.reverse.reverse = some gU := by rw [List.reverse_reverse]; exact hbU
  obtain ⟨_, hcomp, hsound⟩ := Node.build_total fuel hist.reverse gU hbU'
  constructor
  · rintro ⟨v, hc, hv⟩
    have hvs : v ≠ s := fun e => hx (by rw [← hv, e])
    obtain ⟨rv, hrv⟩ := hcomp s v ((conn_reverse hist s v).mpr hc) hvs
    obtain ⟨r, hr⟩ := named_entry_exists nm hJ s x v hx hv rv hrv
    obtain ⟨p, p1, p2, p3, _, p5, p6⟩ := path_named nm hJ s x r hx hr
    refine ⟨p, p1, p2, ?_, p3, p5, p6⟩
    have hp := p6 p.length (by omega)
    have := named_path_chain (dirInv_of_J nm hJ) p.length s x p hp
    exact List.IsChain.imp (fun a b hab => (named_nbrs_iff_linked hbU hJ a b).mp hab) this
  · intro hnone fuel'
    unfold Reg.path
    rw [if_neg hx]
    cases hl : lookupRoute (get gN s).routes x with
    | none => rfl
    | some r =>
      exfalso
      obtain ⟨v, hv, hlv⟩ := ((hJ.sim s) x).1 r hl
      exact hnone v ((conn_reverse hist s v).mp (hsound s v _ hlv)) hv

/-- **Shared names, forests of every size: the route leads to a NEAREST node of the name and never loops.**  For every
forest history (any number of nodes, any order, either orientation), every assignment of names, every node `s` and every
name `x` other than the name of `s`: if a node named `x` is connected to `s`, `path` returns a chain of inserted links
without repeated node from `s` to a node named `x`, through no other node of that name, and NO chain of links from `s` to
any node named `x` has fewer nodes; otherwise it reports `Unknown`. -/
theorem named_forest_routes_nearest (nm : Nat → Nat) (fuel : Nat) (hist : List (Nat × Nat)) (gN : Graph)
    (hf : ForestHist hist) (hb : Reg.build nm fuel hist = some gN) (s x : Nat) (hx : x ≠ nm s) :
    ((∃ v, Connected hist s v ∧ nm v = x) →
      ∃ p : List Nat, p.head? = some s ∧ (∃ t, p.getLast? = some t ∧ nm t = x) ∧ p.IsChain (linked hist) ∧ p.Nodup ∧
        (∀ y ∈ p.dropLast, nm y ≠ x) ∧
        (∀ q : List Nat, q.head? = some s → q.IsChain (linked hist) → (∃ t, q.getLast? = some t ∧ nm t = x) →
          p.length ≤ q.length) ∧
        ∀ fuel', p.length ≤ fuel' + 1 → Reg.path nm fuel' gN s x = .ok p) ∧
    ((∀ v, Connected hist s v → nm v ≠ x) → ∀ fuel', Reg.path nm fuel' gN s x = .unknown) := by
  have hF := forest_reverse hf
  have hns : ∀ e ∈ hist, e.1 ≠ e.2 := by
    intro e he
    have hl : Lk hist.reverse e.1 e.2 := Or.inl (List.mem_reverse.mpr he)
    exact hF.noloop hl
  obtain ⟨h1, h2⟩ := named_graph_routes_total nm fuel hist gN hns hb s x hx
  refine ⟨?_, h2⟩
  intro hex
  obtain ⟨gU, hbU, hJ⟩ := j_of_build nm fuel hist gN hns hb
  have hE : Node.Exact hist.reverse gU :=
    Node.build_exact fuel hist.reverse gU hF (by rw [List.reverse_reverse]; exact hbU)
  obtain ⟨p, p1, p2, p3, p4, p5, p6⟩ := h1 hex
  refine ⟨p, p1, p2, p3, p4, p5, ?_, p6⟩
  -- the entry of `s` for `x`
  have hp := p6 p.length (by omega)
  cases hl : lookupRoute (get gN s).routes x with
  | none =>
    unfold Reg.path at hp
    rw [if_neg hx, hl] at hp
    cases hp
  | some r =>
    obtain ⟨v1, hv1, _, _, hst, hmin⟩ := named_entry_forest nm hJ hE s x hx r hl
    -- the returned path has at most `r.steps` hops
    obtain ⟨p0, _, _, _, hlen, _, hall⟩ := path_named nm hJ s x r hx hl
    have e1 := hall (max p.length p0.length) (by omega)
    have e2 := Reg.path_enough nm hp (max p.length p0.length) (by omega)
    rw [e1] at e2
    cases e2
    intro q q1 q2 ⟨t, q3, q4⟩
    cases q with
    | nil => simp at q1
    | cons s' l =>
      simp only [List.head?_cons, Option.some.injEq] at q1
      subst q1
      have q2' : (s' :: l).IsChain (Lk hist.reverse) :=
        List.IsChain.imp (fun a b hab => (lk_reverse hist a b).mpr hab) q2
      have hct : Conn hist.reverse s' t := Node.conn_of_chain l s' t q2' q3
      have := dist_le_chain hF l s' t q2' q3
      have := hmin t q4 hct
      simp only [List.length_cons]
      omega

/-- **Enough fuel with shared names**: the named `build` returns for every `fuel ≥ nodes.length` (forest histories). -/
theorem named_forest_build_succeeds (nm : Nat → Nat) (hist : List (Nat × Nat)) (hf : ForestHist hist)
    (nodes : List Nat) (hnodes : ∀ e ∈ hist, e.1 ∈ nodes ∧ e.2 ∈ nodes) (fuel : Nat) (hfuel : nodes.length ≤ fuel) :
    ∃ gN, Reg.build nm fuel hist = some gN := by
  obtain ⟨gU, hbU⟩ := forest_build_succeeds hist hf nodes hnodes fuel hfuel
  have hF := forest_reverse hf
  have hns : ∀ e ∈ hist.reverse, e.1 ≠ e.2 := by
    intro e he
    exact hF.noloop (Or.inl he)
  have := build_lockstep nm fuel hist.reverse hns
  rw [List.reverse_reverse] at this
  rcases this with ⟨_, h2⟩ | ⟨g1, g2, h1, _, _⟩
  · rw [hbU] at h2; cases h2
  · exact ⟨g1, h1⟩

/-- **Enough fuel with shared names, any graph** -/
theorem named_graph_build_succeeds (nm : Nat → Nat) (hist : List (Nat × Nat)) (hns : ∀ e ∈ hist, e.1 ≠ e.2)
    (nodes : List Nat) (hnodes : ∀ e ∈ hist, e.1 ∈ nodes ∧ e.2 ∈ nodes) (fuel : Nat) (hfuel : nodes.length ≤ fuel) :
    ∃ gN, Reg.build nm fuel hist = some gN := by
  obtain ⟨gU, hbU⟩ := graph_build_succeeds hist nodes hnodes fuel hfuel
  have := build_lockstep nm fuel hist.reverse (noself_reverse hns)
  rw [List.reverse_reverse] at this
  rcases this with ⟨_, h2⟩ | ⟨g1, g2, h1, _, _⟩
  · rw [hbU] at h2; cases h2
  · exact ⟨g1, h1⟩

/-! ### non-vacuity -/

/-- the `Earth`/`Earth`/`Earth` shape on 6 nodes: a root named 0, two children named 0, grandchildren named 5 at different
depths; from node 3 (named 7) the name 5 is reached at the nearest of its two carriers -/
example : ∃ gN, Reg.build (fun i => [0, 0, 0, 7, 5, 5].getD i i) 8 [(1, 0), (3, 1), (0, 2), (4, 2), (5, 3)] = some gN ∧
    Reg.path (fun i => [0, 0, 0, 7, 5, 5].getD i i) 8 gN 3 5 = .ok [3, 5] ∧
    Reg.path (fun i => [0, 0, 0, 7, 5, 5].getD i i) 8 gN 1 5 = .ok [1, 3, 5] := by
  refine ⟨_, rfl, ?_, ?_⟩ <;> decide

example : ForestHist [(1, 0), (3, 1), (0, 2), (4, 2), (5, 3)] :=
  (forestHist_of_isForestHist (n := 6) (by decide)).1

end BeyondVerif.C20
