import BeyondVerif.Model.PickleReg
/-!
# C15 — "pickling preserves values and metadata": the frame, under every history of the frame registry

The frame a state vector is expressed in is metadata, and the six numbers mean nothing without it.  The registry
(`frames.dynamic`) is mutable process-wide state: names are registered again for other frames (`Frame.__init__`
overrides), are registered under a key that is not the name of the object (`Hill`, `WGS84`), or are absent in the
process that loads.  The statement therefore quantifies over registry histories between building the state, dumping
and loading it.  Tied to /repo by the `freg` correspondence (random event / dump / load / get sequences on the real
registry and real state vectors vs. `PickleReg.St.step`) and by `registry0`, regenerated from the live registry.
-/
namespace BeyondVerif.C15
open BeyondVerif.PickleReg

/-- for every registry, every sequence of registry events before the dump and every sequence between dump and load,
the frame of the unpickled state is the frame the state was expressed in -/
theorem pickle_frame_any_registry_history (r : Registry) (before between : List Ev) (f : FrameObj) :
    loads (run (run r before) between) (dumps f) = .ok f := rfl

/-- the same on the machine the correspondence drives: whatever commands come between `dump` and `load`, `load`
replies with the description of the frame that was dumped -/
theorem St.load_replies_dumped (s : St) (b : Nat) (f : FrameObj) (hb : s.blobs[b]? = some f) :
    (s.step (.load b)).outs = s.outs ++ [descr f] := by
  simp [St.step, hb, loads]

/-- blobs are never rewritten: a command keeps every blob already made -/
theorem St.step_keeps_blobs (s : St) (c : Cmd) (b : Nat) (f : FrameObj) (hb : s.blobs[b]? = some f) :
    (s.step c).blobs[b]? = some f := by
  have hlt : b < s.blobs.length := by
    rcases Nat.lt_or_ge b s.blobs.length with h | h
    · exact h
    · rw [List.getElem?_eq_none h] at hb; cases hb
  cases c with
  | build g => exact hb
  | drop k => exact hb
  | dump j =>
    show (s.blobs ++ _)[b]? = some f
    rw [List.getElem?_append_left hlt]; exact hb
  | load j => exact hb
  | get k => exact hb

/-- history form: a blob made at some point is loaded unchanged after ANY further command sequence -/
theorem St.load_after_history (s : St) (cmds : List Cmd) (b : Nat) (f : FrameObj) (hb : s.blobs[b]? = some f) :
    ((cmds.foldl St.step s).step (.load b)).outs = (cmds.foldl St.step s).outs ++ [descr f] := by
  apply St.load_replies_dumped
  induction cmds generalizing s with
  | nil => exact hb
  | cons c cs ih => exact ih (s.step c) (St.step_keeps_blobs s c b f hb)

/-! ### the registry itself (what `get` replies in the correspondence) -/

theorem lookup_filter_ne (r : Registry) (k k' : String) (h : k' ≠ k) :
    (r.filter (fun e => e.1 != k)).lookup k' = r.lookup k' := by
  induction r with
  | nil => rfl
  | cons e es ih =>
    obtain ⟨ek, ev⟩ := e
    by_cases he : ek = k
    · subst he
      have h1 : (k' == ek) = false := by simpa using h
      simp [List.filter_cons, List.lookup_cons, h1, ih]
    · by_cases h2 : k' = ek
      · simp [List.filter_cons, he, List.lookup_cons, h2]
      · have h3 : (k' == ek) = false := by simpa using h2
        simp [List.filter_cons, he, List.lookup_cons, h3, ih]

theorem lookup_filter_same (r : Registry) (k : String) : (r.filter (fun e => e.1 != k)).lookup k = none := by
  induction r with
  | nil => rfl
  | cons e es ih =>
    obtain ⟨ek, ev⟩ := e
    by_cases he : ek = k
    · simp [List.filter_cons, he, ih]
    · have h3 : (k == ek) = false := by simpa using fun h => he h.symm
      simp [List.filter_cons, he, List.lookup_cons, h3, ih]

theorem get_set_same (r : Registry) (k : String) (f : FrameObj) : regGet (regSet r k f) k = some f := by
  simp [regGet, regSet, List.lookup_cons]

theorem get_set_other (r : Registry) (k k' : String) (f : FrameObj) (h : k' ≠ k) : regGet (regSet r k f) k' = regGet r k' := by
  have hne : (k' == k) = false := by simpa using h
  simp only [regGet, regSet, List.lookup_cons, hne]
  exact lookup_filter_ne r k k' h

theorem get_del_same (r : Registry) (k : String) : regGet (regDel r k) k = none := lookup_filter_same r k

theorem get_del_other (r : Registry) (k k' : String) (h : k' ≠ k) : regGet (regDel r k) k' = regGet r k' := lookup_filter_ne r k k' h

/-- a constructor makes its object the registry entry of ITS KEY — which for the Hill frame is not its name -/
theorem get_after_build (r : Registry) (f : FrameObj) : regGet (Ev.apply r (.build f)) (keyOf f) = some f :=
  get_set_same r (keyOf f) f

/-- registering a name again replaces the entry: the older object is no longer what the name gives -/
theorem rereg_replaces (r : Registry) (f g : FrameObj) (hk : keyOf g = keyOf f) :
    regGet (run r [.build f, .build g]) (keyOf f) = some g := by
  simp only [run, List.foldl, Ev.apply]
  rw [← hk]; exact get_set_same _ _ _

/-! ### why the object, and not its name, has to travel -/

/-- putting only the name in the pickle gives the frame back exactly when the loading registry maps that name to that
very frame -/
theorem byName_roundtrip_iff (r : Registry) (f : FrameObj) :
    loadsByName r (dumpsByName f) = .ok f ↔ regGet r f.name = some f := by
  unfold loadsByName dumpsByName
  cases h : regGet r f.name with
  | none => simp
  | some g => simp [Except.ok.injEq]

/-- … which is false in the registry as the package builds it (regenerated table): the Hill frame is registered under a
key that is not its name -/
theorem byName_unsound_on_registry0 :
    ∃ k f, regGet registry0 k = some f ∧ loadsByName registry0 (dumpsByName f) ≠ .ok f := by
  refine ⟨"Hill", ⟨"HillFrame", "HillQSW", "QSW", "Earth"⟩, by decide +kernel, ?_⟩
  rw [Ne, byName_roundtrip_iff]
  decide +kernel

/-- … and false after a name has been registered again, for every registry: the state built before keeps `f`, the name
now gives `g` -/
theorem byName_unsound_after_rereg (r : Registry) (f g : FrameObj) (hk : keyOf f = f.name) (hg : keyOf g = f.name) (hne : g ≠ f) :
    loadsByName (run r [.build f, .build g]) (dumpsByName f) ≠ .ok f := by
  rw [Ne, byName_roundtrip_iff]
  have := rereg_replaces r f g (by rw [hg, hk])
  rw [hk] at this
  rw [this]; simp [hne]

/-- … and after the name has gone (a process that never registered it) -/
theorem byName_fails_when_unregistered (r : Registry) (f : FrameObj) :
    loadsByName (regDel r f.name) (dumpsByName f) = .error "unknown-frame" := by
  simp [loadsByName, dumpsByName, get_del_same]

end BeyondVerif.C15
