import BeyondVerif.Model.FormsR
import BeyondVerif.Lemmas.Angle
import BeyondVerif.Generated.FormTables
import BeyondVerif.Props.C20
import Mathlib.Tactic.LinearCombination
import Mathlib.Tactic.NormNum

/-!
# C01 — orbital element forms are lossless, definition-true views of one state

Theorems over ℝ about the edge functions of `beyond/orbits/forms.py` **translated from the Python AST on
every run** (`Generated/FormsR.lean`, written by `harness/py2lean.py: translate_function`): a changed
formula in the source changes the Lean definition and the proofs below are re-checked against it.

Angles are compared as points of the circle (`AngEq x y`: same cosine and sine, `Lemmas/Angle.lean`);
`keplToCart_respects_angEq` shows that this relation is invisible in position and velocity, and
`AngEq.eq_of_mem_Ico` turns it into equality of numbers inside one turn.
-/
namespace BeyondVerif.C01
open BeyondVerif.R BeyondVerif.NumReal BeyondVerif.Ang

/-! ## cylindrical and spherical -/

/-- **cartesian → cylindrical → cartesian is the identity** off the z axis (every µ, every velocity). -/
theorem cart_cyl_cart (mu x y z vx vy vz : ℝ) (h : x ^ 2 + y ^ 2 ≠ 0) :
    app6 cylToCart mu (cartToCyl mu x y z vx vy vz) = [x, y, z, vx, vy, vz] := by
  have hpos : 0 < x ^ 2 + y ^ 2 := lt_of_le_of_ne (by positivity) (Ne.symm h)
  have hρ : 0 < Real.sqrt (x ^ 2 + y ^ 2) := Real.sqrt_pos.mpr hpos
  have hsq : Real.sqrt (x ^ 2 + y ^ 2) ^ 2 = x ^ 2 + y ^ 2 := Real.sq_sqrt hpos.le
  obtain ⟨hc, hs⟩ := atan2_of_norm hρ hsq
  simp only [cartToCyl, app6, cylToCart, powi, sqrt, cos, sin, hc, hs, List.cons.injEq, and_true, true_and]
  generalize Real.sqrt (x ^ 2 + y ^ 2) = ρ at *
  refine ⟨?_, ?_, ?_, ?_⟩
  · field_simp
  · field_simp
  · field_simp; linear_combination ((-1) * vx * x ^ 2 + (-1) * vy * x * y) * hsq
  · field_simp; linear_combination ((-1) * vx * x * y + (-1) * vy * y ^ 2) * hsq

/-- cylindrical → cartesian → cylindrical, `r > 0`: radius, height and all rates are returned exactly, the azimuth
as the same point of the circle — and exactly when it lies in `(-π, π]` -/
theorem cyl_cart_cyl (mu r θ z rd θd vz : ℝ) (hr : 0 < r) :
    ∃ θ', app6 cartToCyl mu (cylToCart mu r θ z rd θd vz) = [r, θ', z, rd, θd, vz] ∧ AngEq θ' θ ∧
      (-Real.pi < θ ∧ θ ≤ Real.pi → θ' = θ) := by
  have hsq : (r * Real.cos θ) ^ 2 + (r * Real.sin θ) ^ 2 = r ^ 2 := by
    have := Real.sin_sq_add_cos_sq θ; nlinarith
  have hs : Real.sqrt ((r * Real.cos θ) ^ 2 + (r * Real.sin θ) ^ 2) = r := by rw [hsq, Real.sqrt_sq hr.le]
  have hang := atan2_scaled (k := r) (w := θ) hr
  refine ⟨atan2 (r * Real.sin θ) (r * Real.cos θ), ?_, hang, ?_⟩
  · simp only [cylToCart, app6, cartToCyl, powi, sqrt, cos, sin, hsq, Real.sqrt_sq hr.le, List.cons.injEq, and_true, true_and]
    have hc2 := Real.sin_sq_add_cos_sq θ
    generalize Real.cos θ = c at *
    generalize Real.sin θ = s at *
    refine ⟨?_, ?_⟩
    · field_simp; linear_combination (rd) * hc2
    · field_simp; linear_combination (r * θd) * hc2
  · intro hθ
    have hm := atan2_mem (r * Real.cos θ) (r * Real.sin θ)
    exact AngEq.eq_of_mem_Ioc (lo := -Real.pi) hang ⟨hm.1, by linarith [hm.2]⟩ ⟨hθ.1, by linarith [hθ.2]⟩

/-- **cartesian → spherical → cartesian is the identity** off the z axis. -/
theorem cart_sph_cart (mu x y z vx vy vz : ℝ) (h : x ^ 2 + y ^ 2 ≠ 0) :
    app6 sphToCart mu (cartToSph mu x y z vx vy vz) = [x, y, z, vx, vy, vz] := by
  have hpos : 0 < x ^ 2 + y ^ 2 := lt_of_le_of_ne (by positivity) (Ne.symm h)
  have hρ : 0 < Real.sqrt (x ^ 2 + y ^ 2) := Real.sqrt_pos.mpr hpos
  have hsq : Real.sqrt (x ^ 2 + y ^ 2) ^ 2 = x ^ 2 + y ^ 2 := Real.sq_sqrt hpos.le
  have hpos3 : 0 < x ^ 2 + y ^ 2 + z ^ 2 := by positivity
  have hr : 0 < Real.sqrt (x ^ 2 + y ^ 2 + z ^ 2) := Real.sqrt_pos.mpr hpos3
  have hrsq : Real.sqrt (x ^ 2 + y ^ 2 + z ^ 2) ^ 2 = x ^ 2 + y ^ 2 + z ^ 2 := Real.sq_sqrt hpos3.le
  obtain ⟨hc, hs⟩ := atan2_of_norm hρ hsq
  generalize hρdef : Real.sqrt (x ^ 2 + y ^ 2) = ρ at *
  generalize hrdef : Real.sqrt (x ^ 2 + y ^ 2 + z ^ 2) = r at *
  have hzr : (z / r) ^ 2 ≤ 1 := by
    rw [div_pow, div_le_one (by positivity)]; nlinarith [sq_nonneg ρ]
  have habs := abs_le.mp ((sq_le_one_iff_abs_le_one _).mp hzr)
  have hsinφ : Real.sin (Real.arcsin (z / r)) = z / r := Real.sin_arcsin habs.1 habs.2
  have hcosφ : Real.cos (Real.arcsin (z / r)) = ρ / r := by
    rw [Real.cos_arcsin]
    have : 1 - (z / r) ^ 2 = (ρ / r) ^ 2 := by field_simp; linarith
    rw [this, Real.sqrt_sq (by positivity)]
  simp only [cartToSph, app6, sphToCart, powi, sqrt, cos, sin, asin, hρdef, hrdef, hc, hs, hsinφ, hcosφ, List.cons.injEq, and_true, true_and]
  refine ⟨?_, ?_, ?_, ?_, ?_, ?_⟩
  · field_simp
  · field_simp
  · field_simp
  · field_simp; linear_combination ((-1) * vx * x ^ 2 * ρ ^ 2 + (-1) * vy * x * y * ρ ^ 2) * hrsq + ((-1) * vx * x ^ 2 * z ^ 2 + (-1) * vy * x * y * z ^ 2 + vz * x * y ^ 2 * z + vz * x ^ 3 * z) * hsq
  · field_simp; linear_combination ((-1) * vx * x * y * ρ ^ 2 + (-1) * vy * y ^ 2 * ρ ^ 2) * hrsq + ((-1) * vx * x * y * z ^ 2 + (-1) * vy * y ^ 2 * z ^ 2 + vz * x ^ 2 * y * z + vz * y ^ 3 * z) * hsq
  · field_simp; linear_combination ((-1) * vz) * hrsq

/-- spherical → cartesian → spherical, `r > 0`, `|φ| < π/2`: radius, elevation and all three rates are returned
exactly, the azimuth as the same point of the circle — exactly when it lies in `(-π, π]`. -/
theorem sph_cart_sph (mu r θ φ rd θd φd : ℝ) (hr : 0 < r) (hφ : -(Real.pi / 2) < φ ∧ φ < Real.pi / 2) :
    ∃ θ', app6 cartToSph mu (sphToCart mu r θ φ rd θd φd) = [r, θ', φ, rd, θd, φd] ∧ AngEq θ' θ ∧
      (-Real.pi < θ ∧ θ ≤ Real.pi → θ' = θ) := by
  have hcφ : 0 < Real.cos φ := Real.cos_pos_of_mem_Ioo ⟨hφ.1, hφ.2⟩
  have hk : 0 < r * Real.cos φ := by positivity
  have h1 := Real.sin_sq_add_cos_sq θ
  have h2 := Real.sin_sq_add_cos_sq φ
  have hρsq : (r * Real.cos φ * Real.cos θ) ^ 2 + (r * Real.cos φ * Real.sin θ) ^ 2 = (r * Real.cos φ) ^ 2 := by
    linear_combination ((r * Real.cos φ) ^ 2) * h1
  have hrsq : (r * Real.cos φ) ^ 2 + (r * Real.sin φ) ^ 2 = r ^ 2 := by
    linear_combination (r ^ 2) * h2
  have hang := atan2_scaled (k := r * Real.cos φ) (w := θ) hk
  refine ⟨atan2 (r * Real.cos φ * Real.sin θ) (r * Real.cos φ * Real.cos θ), ?_, hang, ?_⟩
  · have hasin : Real.arcsin (r * Real.sin φ / r) = φ := by
      rw [mul_div_cancel_left₀ _ hr.ne', Real.arcsin_sin hφ.1.le hφ.2.le]
    simp only [sphToCart, app6, cartToSph, powi, sqrt, cos, sin, asin, hrsq, hρsq, Real.sqrt_sq hr.le, Real.sqrt_sq hk.le, hasin,
      List.cons.injEq, and_true, true_and]
    generalize Real.cos θ = c at *
    generalize Real.sin θ = s at *
    generalize Real.cos φ = cp at *
    generalize Real.sin φ = sp at *
    refine ⟨?_, ?_, ?_⟩
    · field_simp; linear_combination ((-1) * cp * r * sp * φd + cp ^ 2 * rd) * h1 + (rd) * h2
    · field_simp; linear_combination (cp * r * θd) * h1
    · field_simp; linear_combination ((-1) * cp * rd * sp + r * sp ^ 2 * φd) * h1 + (r * φd) * h2
  · intro hθ
    have hm := atan2_mem (r * Real.cos φ * Real.cos θ) (r * Real.cos φ * Real.sin θ)
    exact AngEq.eq_of_mem_Ioc (lo := -Real.pi) hang ⟨hm.1, by linarith [hm.2]⟩ ⟨hθ.1, by linarith [hθ.2]⟩

/-- keplerian → circular → keplerian (`e > 0`): a, e, i, Ω exactly; ω and ν as the same points of the circle
(`arctan2` returns ω in `(-π, π]`, so equality of numbers holds exactly there). -/
theorem kepl_circ_kepl (mu a e i Ω ω ν : ℝ) (he : 0 < e) :
    ∃ ω' ν', app6 circToKepl mu (keplToCirc mu a e i Ω ω ν) = [a, e, i, Ω, ω', ν'] ∧ AngEq ω' ω ∧ AngEq ν' ν ∧
      (-Real.pi < ω ∧ ω ≤ Real.pi → ω' = ω) := by
  refine ⟨atan2 (Real.sin ω) (Real.cos ω), fmod (ω + ν) (pi * 2) - atan2 (Real.sin ω) (Real.cos ω), ?_, atan2_sin_cos ω, ?_, ?_⟩
  · simp only [keplToCirc, app6, circToKepl, powi, sqrt, cos, sin, sqrt_ecs e ω he.le, mul_div_cancel_left₀ _ he.ne']
  · have := (fmod_pi_two_angEq (ω + ν)).sub (atan2_sin_cos ω)
    simpa using this
  · intro hω
    have hm := atan2_mem (Real.cos ω) (Real.sin ω)
    exact AngEq.eq_of_mem_Ioc (lo := -Real.pi) (atan2_sin_cos ω) ⟨hm.1, by linarith [hm.2]⟩ ⟨hω.1, by linarith [hω.2]⟩

/-- circular → keplerian → circular (`(ex, ey) ≠ 0`): all six numbers exactly, the argument of latitude reduced to `[0, 2π)`. -/
theorem circ_kepl_circ (mu a ex ey i Ω u : ℝ) (h : ex ^ 2 + ey ^ 2 ≠ 0) :
    app6 keplToCirc mu (circToKepl mu a ex ey i Ω u) = [a, ex, ey, i, Ω, fmod u (pi * 2)] := by
  obtain ⟨h1, h2⟩ := atan2_div_norm h
  simp only [keplToCirc, app6, circToKepl, powi, sqrt, cos, sin, h1, h2, add_sub_cancel]

/-- mean → mean-circular → mean (`e > 0`): a, e, i, Ω exactly; ω and M as the same points of the circle.
For an ellipse that is the same orbit state; for a hyperbola `M` is *not* an angle — see `Witness/C01.lean` and the
known finding `mean-circular-hyperbolic-M-mod-2pi`. -/
theorem mean_mcirc_mean (mu a e i Ω ω M : ℝ) (he : 0 < e) :
    ∃ ω' M', app6 mcircToMean mu (meanToMcirc mu a e i Ω ω M) = [a, e, i, Ω, ω', M'] ∧ AngEq ω' ω ∧ AngEq M' M ∧
      (-Real.pi < ω ∧ ω ≤ Real.pi → ω' = ω) := by
  refine ⟨atan2 (Real.sin ω) (Real.cos ω), fmod (ω + M) (2 * pi) - atan2 (Real.sin ω) (Real.cos ω), ?_, atan2_sin_cos ω, ?_, ?_⟩
  · simp only [meanToMcirc, app6, mcircToMean, powi, sqrt, cos, sin, sqrt_ecs e ω he.le, mul_div_cancel_left₀ _ he.ne']
  · have := (fmod_two_pi_angEq (ω + M)).sub (atan2_sin_cos ω)
    simpa using this
  · intro hω
    have hm := atan2_mem (Real.cos ω) (Real.sin ω)
    exact AngEq.eq_of_mem_Ioc (lo := -Real.pi) (atan2_sin_cos ω) ⟨hm.1, by linarith [hm.2]⟩ ⟨hω.1, by linarith [hω.2]⟩

/-- mean-circular → mean → mean-circular (`(ex, ey) ≠ 0`): all six numbers exactly, α reduced to `[0, 2π)`. -/
theorem mcirc_mean_mcirc (mu a ex ey i Ω α : ℝ) (h : ex ^ 2 + ey ^ 2 ≠ 0) :
    app6 meanToMcirc mu (mcircToMean mu a ex ey i Ω α) = [a, ex, ey, i, Ω, fmod α (2 * pi)] := by
  obtain ⟨h1, h2⟩ := atan2_div_norm h
  simp only [meanToMcirc, app6, mcircToMean, powi, sqrt, cos, sin, h1, h2, add_sub_cancel]

/-- mean → TLE → mean is the identity for `a > 0` (`n = √(µ/a³)`, `a = (µ/n²)^(1/3)`). -/
theorem mean_tle_mean (mu a e i Ω ω M : ℝ) (hmu : 0 < mu) (ha : 0 < a) :
    app6 tleToMean mu (meanToTle mu a e i Ω ω M) = [a, e, i, Ω, ω, M] := by
  have h3 : 0 < mu / a ^ 3 := by positivity
  have : mu / Real.sqrt (mu / a ^ 3) ^ 2 = a ^ 3 := by
    rw [Real.sq_sqrt h3.le]; field_simp
  simp only [meanToTle, app6, tleToMean, powi, sqrt, rpow, this, List.cons.injEq, and_true, true_and]
  have := Real.pow_rpow_inv_natCast ha.le (n := 3) (by norm_num)
  simpa [one_div] using this

/-- TLE → mean → TLE is the identity for `n > 0`. -/
theorem tle_mean_tle (mu i Ω e ω M n : ℝ) (hmu : 0 < mu) (hn : 0 < n) :
    app6 meanToTle mu (tleToMean mu i Ω e ω M n) = [i, Ω, e, ω, M, n] := by
  have h3 : 0 ≤ mu / n ^ 2 := by positivity
  have hp : (Real.rpow (mu / n ^ 2) (1 / 3)) ^ 3 = mu / n ^ 2 := by
    have := Real.rpow_inv_natCast_pow h3 (n := 3) (by norm_num)
    simpa [one_div] using this
  simp only [meanToTle, app6, tleToMean, powi, sqrt, rpow, hp, List.cons.injEq, and_true, true_and]
  have : mu / (mu / n ^ 2) = n ^ 2 := by field_simp
  rw [this, Real.sqrt_sq hn.le]

end BeyondVerif.C01
