import BeyondVerif.Model.FormsR
import BeyondVerif.Lemmas.Angle
import BeyondVerif.Lemmas.Hyp
import BeyondVerif.Generated.FormTables
import BeyondVerif.Props.C20
import Mathlib.Tactic.LinearCombination
import Mathlib.Tactic.NormNum
import Mathlib.Analysis.Real.Pi.Bounds

/-!
# C01 — orbital element forms are lossless, definition-true views of one state

Theorems over ℝ about the edge functions of `beyond/orbits/forms.py` **translated from the Python AST on
every run** (`Generated/FormsR.lean`, written by `harness/py2lean.py: translate_function`): a changed
formula in the source changes the Lean definition and the proofs below are re-checked against it.

Angles are compared as points of the circle (`AngEq x y`: same cosine and sine, `Lemmas/Angle.lean`);
`keplToCart_respects_angEq` shows that this relation is invisible in position and velocity, and
`AngEq.eq_of_mem_Ico` turns it into equality of numbers inside one turn.
-/
namespace BeyondVerif.C01
open BeyondVerif.R BeyondVerif.NumReal BeyondVerif.Ang

/-! ## cylindrical and spherical -/

/-- **cartesian → cylindrical → cartesian is the identity** off the z axis (every µ, every velocity). -/
theorem cart_cyl_cart (mu x y z vx vy vz : ℝ) (h : x ^ 2 + y ^ 2 ≠ 0) :
    app6 cylToCart mu (cartToCyl mu x y z vx vy vz) = [x, y, z, vx, vy, vz] := by
  have hpos : 0 < x ^ 2 + y ^ 2 := lt_of_le_of_ne (by positivity) (Ne.symm h)
  have hρ : 0 < Real.sqrt (x ^ 2 + y ^ 2) := Real.sqrt_pos.mpr hpos
  have hsq : Real.sqrt (x ^ 2 + y ^ 2) ^ 2 = x ^ 2 + y ^ 2 := Real.sq_sqrt hpos.le
  obtain ⟨hc, hs⟩ := atan2_of_norm hρ hsq
  simp only [cartToCyl, app6, cylToCart, powi, sqrt, cos, sin, hc, hs, List.cons.injEq, and_true, true_and]
  generalize Real.sqrt (x ^ 2 + y ^ 2) = ρ at *
  refine ⟨?_, ?_, ?_, ?_⟩
  · field_simp
  · field_simp
  · field_simp; linear_combination ((-1) * vx * x ^ 2 + (-1) * vy * x * y) * hsq
  · field_simp; linear_combination ((-1) * vx * x * y + (-1) * vy * y ^ 2) * hsq

/-- cylindrical → cartesian → cylindrical, `r > 0`: radius, height and all rates are returned exactly, the azimuth
as the same point of the circle — and exactly when it lies in `(-π, π]` -/
theorem cyl_cart_cyl (mu r θ z rd θd vz : ℝ) (hr : 0 < r) :
    ∃ θ', app6 cartToCyl mu (cylToCart mu r θ z rd θd vz) = [r, θ', z, rd, θd, vz] ∧ AngEq θ' θ ∧
      (-Real.pi < θ ∧ θ ≤ Real.pi → θ' = θ) := by
  have hsq : (r * Real.cos θ) ^ 2 + (r * Real.sin θ) ^ 2 = r ^ 2 := by
    have := Real.sin_sq_add_cos_sq θ; nlinarith
  have hs : Real.sqrt ((r * Real.cos θ) ^ 2 + (r * Real.sin θ) ^ 2) = r := by rw [hsq, Real.sqrt_sq hr.le]
  have hang := atan2_scaled (k := r) (w := θ) hr
  refine ⟨atan2 (r * Real.sin θ) (r * Real.cos θ), ?_, hang, ?_⟩
  · simp only [cylToCart, app6, cartToCyl, powi, sqrt, cos, sin, hsq, Real.sqrt_sq hr.le, List.cons.injEq, and_true, true_and]
    have hc2 := Real.sin_sq_add_cos_sq θ
    generalize Real.cos θ = c at *
    generalize Real.sin θ = s at *
    refine ⟨?_, ?_⟩
    · field_simp; linear_combination (rd) * hc2
    · field_simp; linear_combination (r * θd) * hc2
  · intro hθ
    have hm := atan2_mem (r * Real.cos θ) (r * Real.sin θ)
    exact AngEq.eq_of_mem_Ioc (lo := -Real.pi) hang ⟨hm.1, by linarith [hm.2]⟩ ⟨hθ.1, by linarith [hθ.2]⟩

/-- **cartesian → spherical → cartesian is the identity** off the z axis. -/
theorem cart_sph_cart (mu x y z vx vy vz : ℝ) (h : x ^ 2 + y ^ 2 ≠ 0) :
    app6 sphToCart mu (cartToSph mu x y z vx vy vz) = [x, y, z, vx, vy, vz] := by
  have hpos : 0 < x ^ 2 + y ^ 2 := lt_of_le_of_ne (by positivity) (Ne.symm h)
  have hρ : 0 < Real.sqrt (x ^ 2 + y ^ 2) := Real.sqrt_pos.mpr hpos
  have hsq : Real.sqrt (x ^ 2 + y ^ 2) ^ 2 = x ^ 2 + y ^ 2 := Real.sq_sqrt hpos.le
  have hpos3 : 0 < x ^ 2 + y ^ 2 + z ^ 2 := by positivity
  have hr : 0 < Real.sqrt (x ^ 2 + y ^ 2 + z ^ 2) := Real.sqrt_pos.mpr hpos3
  have hrsq : Real.sqrt (x ^ 2 + y ^ 2 + z ^ 2) ^ 2 = x ^ 2 + y ^ 2 + z ^ 2 := Real.sq_sqrt hpos3.le
  obtain ⟨hc, hs⟩ := atan2_of_norm hρ hsq
  generalize hρdef : Real.sqrt (x ^ 2 + y ^ 2) = ρ at *
  generalize hrdef : Real.sqrt (x ^ 2 + y ^ 2 + z ^ 2) = r at *
  have hzr : (z / r) ^ 2 ≤ 1 := by
    rw [div_pow, div_le_one (by positivity)]; nlinarith [sq_nonneg ρ]
  have habs := abs_le.mp ((sq_le_one_iff_abs_le_one _).mp hzr)
  have hsinφ : Real.sin (Real.arcsin (z / r)) = z / r := Real.sin_arcsin habs.1 habs.2
  have hcosφ : Real.cos (Real.arcsin (z / r)) = ρ / r := by
    rw [Real.cos_arcsin]
    have : 1 - (z / r) ^ 2 = (ρ / r) ^ 2 := by field_simp; linarith
    rw [this, Real.sqrt_sq (by positivity)]
  simp only [cartToSph, app6, sphToCart, powi, sqrt, cos, sin, asin, hρdef, hrdef, hc, hs, hsinφ, hcosφ, List.cons.injEq, and_true, true_and]
  refine ⟨?_, ?_, ?_, ?_, ?_, ?_⟩
  · field_simp
  · field_simp
  · field_simp
  · field_simp; linear_combination ((-1) * vx * x ^ 2 * ρ ^ 2 + (-1) * vy * x * y * ρ ^ 2) * hrsq + ((-1) * vx * x ^ 2 * z ^ 2 + (-1) * vy * x * y * z ^ 2 + vz * x * y ^ 2 * z + vz * x ^ 3 * z) * hsq
  · field_simp; linear_combination ((-1) * vx * x * y * ρ ^ 2 + (-1) * vy * y ^ 2 * ρ ^ 2) * hrsq + ((-1) * vx * x * y * z ^ 2 + (-1) * vy * y ^ 2 * z ^ 2 + vz * x ^ 2 * y * z + vz * y ^ 3 * z) * hsq
  · field_simp; linear_combination ((-1) * vz) * hrsq

/-- spherical → cartesian → spherical, `r > 0`, `|φ| < π/2`: radius, elevation and all three rates are returned
exactly, the azimuth as the same point of the circle — exactly when it lies in `(-π, π]`. -/
theorem sph_cart_sph (mu r θ φ rd θd φd : ℝ) (hr : 0 < r) (hφ : -(Real.pi / 2) < φ ∧ φ < Real.pi / 2) :
    ∃ θ', app6 cartToSph mu (sphToCart mu r θ φ rd θd φd) = [r, θ', φ, rd, θd, φd] ∧ AngEq θ' θ ∧
      (-Real.pi < θ ∧ θ ≤ Real.pi → θ' = θ) := by
  have hcφ : 0 < Real.cos φ := Real.cos_pos_of_mem_Ioo ⟨hφ.1, hφ.2⟩
  have hk : 0 < r * Real.cos φ := by positivity
  have h1 := Real.sin_sq_add_cos_sq θ
  have h2 := Real.sin_sq_add_cos_sq φ
  have hρsq : (r * Real.cos φ * Real.cos θ) ^ 2 + (r * Real.cos φ * Real.sin θ) ^ 2 = (r * Real.cos φ) ^ 2 := by
    linear_combination ((r * Real.cos φ) ^ 2) * h1
  have hrsq : (r * Real.cos φ) ^ 2 + (r * Real.sin φ) ^ 2 = r ^ 2 := by
    linear_combination (r ^ 2) * h2
  have hang := atan2_scaled (k := r * Real.cos φ) (w := θ) hk
  refine ⟨atan2 (r * Real.cos φ * Real.sin θ) (r * Real.cos φ * Real.cos θ), ?_, hang, ?_⟩
  · have hasin : Real.arcsin (r * Real.sin φ / r) = φ := by
      rw [mul_div_cancel_left₀ _ hr.ne', Real.arcsin_sin hφ.1.le hφ.2.le]
    simp only [sphToCart, app6, cartToSph, powi, sqrt, cos, sin, asin, hrsq, hρsq, Real.sqrt_sq hr.le, Real.sqrt_sq hk.le, hasin,
      List.cons.injEq, and_true, true_and]
    generalize Real.cos θ = c at *
    generalize Real.sin θ = s at *
    generalize Real.cos φ = cp at *
    generalize Real.sin φ = sp at *
    refine ⟨?_, ?_, ?_⟩
    · field_simp; linear_combination ((-1) * cp * r * sp * φd + cp ^ 2 * rd) * h1 + (rd) * h2
    · field_simp; linear_combination (cp * r * θd) * h1
    · field_simp; linear_combination ((-1) * cp * rd * sp + r * sp ^ 2 * φd) * h1 + (r * φd) * h2
  · intro hθ
    have hm := atan2_mem (r * Real.cos φ * Real.cos θ) (r * Real.cos φ * Real.sin θ)
    exact AngEq.eq_of_mem_Ioc (lo := -Real.pi) hang ⟨hm.1, by linarith [hm.2]⟩ ⟨hθ.1, by linarith [hθ.2]⟩

/-- keplerian → circular → keplerian (`e > 0`): a, e, i, Ω exactly; ω and ν as the same points of the circle
(`arctan2` returns ω in `(-π, π]`, so equality of numbers holds exactly there). -/
theorem kepl_circ_kepl (mu a e i Ω ω ν : ℝ) (he : 0 < e) :
    ∃ ω' ν', app6 circToKepl mu (keplToCirc mu a e i Ω ω ν) = [a, e, i, Ω, ω', ν'] ∧ AngEq ω' ω ∧ AngEq ν' ν ∧
      (-Real.pi < ω ∧ ω ≤ Real.pi → ω' = ω) := by
  refine ⟨atan2 (Real.sin ω) (Real.cos ω), fmod (ω + ν) (pi * 2) - atan2 (Real.sin ω) (Real.cos ω), ?_, atan2_sin_cos ω, ?_, ?_⟩
  · simp only [keplToCirc, app6, circToKepl, powi, sqrt, cos, sin, sqrt_ecs e ω he.le, mul_div_cancel_left₀ _ he.ne']
  · have := (fmod_pi_two_angEq (ω + ν)).sub (atan2_sin_cos ω)
    simpa using this
  · intro hω
    have hm := atan2_mem (Real.cos ω) (Real.sin ω)
    exact AngEq.eq_of_mem_Ioc (lo := -Real.pi) (atan2_sin_cos ω) ⟨hm.1, by linarith [hm.2]⟩ ⟨hω.1, by linarith [hω.2]⟩

/-- circular → keplerian → circular (`(ex, ey) ≠ 0`): all six numbers exactly, the argument of latitude reduced to `[0, 2π)`. -/
theorem circ_kepl_circ (mu a ex ey i Ω u : ℝ) (h : ex ^ 2 + ey ^ 2 ≠ 0) :
    app6 keplToCirc mu (circToKepl mu a ex ey i Ω u) = [a, ex, ey, i, Ω, fmod u (pi * 2)] := by
  obtain ⟨h1, h2⟩ := atan2_div_norm h
  simp only [keplToCirc, app6, circToKepl, powi, sqrt, cos, sin, h1, h2, add_sub_cancel]

/-- mean → mean-circular → mean, ellipse (`0 < e < 1`): a, e, i, Ω exactly; ω and M as the same points of the circle
(for an ellipse that is the same orbit state). -/
theorem mean_mcirc_mean (mu a e i Ω ω M : ℝ) (he : 0 < e) (h1 : e < 1) :
    ∃ ω' M', app6 mcircToMean mu (meanToMcirc mu a e i Ω ω M) = [a, e, i, Ω, ω', M'] ∧ AngEq ω' ω ∧ AngEq M' M ∧
      (-Real.pi < ω ∧ ω ≤ Real.pi → ω' = ω) := by
  refine ⟨atan2 (Real.sin ω) (Real.cos ω), fmod (ω + M) (2 * pi) - atan2 (Real.sin ω) (Real.cos ω), ?_, atan2_sin_cos ω, ?_, ?_⟩
  · simp only [meanToMcirc, app6, mcircToMean, powi, sqrt, cos, sin, sqrt_ecs e ω he.le, mul_div_cancel_left₀ _ he.ne', if_pos h1]
  · have := (fmod_two_pi_angEq (ω + M)).sub (atan2_sin_cos ω)
    simpa using this
  · intro hω
    have hm := atan2_mem (Real.cos ω) (Real.sin ω)
    exact AngEq.eq_of_mem_Ioc (lo := -Real.pi) (atan2_sin_cos ω) ⟨hm.1, by linarith [hm.2]⟩ ⟨hω.1, by linarith [hω.2]⟩

/-- **mean → mean-circular → mean, hyperbola (`e ≥ 1`): the mean anomaly is returned EXACTLY** (it is not an angle;
false before fix 3686717, which is why this statement was only available modulo 2π), ω as the same point of the circle. -/
theorem mean_mcirc_mean_hyperbolic (mu a e i Ω ω M : ℝ) (h1 : 1 ≤ e) :
    ∃ ω', app6 mcircToMean mu (meanToMcirc mu a e i Ω ω M) = [a, e, i, Ω, ω', M] ∧ AngEq ω' ω := by
  have he : 0 < e := by linarith
  have hne1 : ¬ e < 1 := not_lt.mpr h1
  have hm := fmod_mem (x := ω) two_pi_pos
  have hf : fmod (atan2 (Real.sin ω) (Real.cos ω)) (2 * pi) = fmod ω (2 * pi) :=
    fmod_two_pi_eq_of_angEq ((atan2_sin_cos ω).trans (fmod_two_pi_angEq ω).symm) ⟨hm.1, by simpa using hm.2⟩
  refine ⟨atan2 (Real.sin ω) (Real.cos ω), ?_, atan2_sin_cos ω⟩
  simp only [meanToMcirc, app6, mcircToMean, powi, sqrt, cos, sin, sqrt_ecs e ω he.le, mul_div_cancel_left₀ _ he.ne', if_neg hne1, hf,
    add_sub_cancel_left]

/-- mean-circular → mean → mean-circular (`(ex, ey) ≠ 0`): all six numbers exactly; α reduced to `[0, 2π)` for an
ellipse, untouched for a hyperbola. -/
theorem mcirc_mean_mcirc (mu a ex ey i Ω α : ℝ) (h : ex ^ 2 + ey ^ 2 ≠ 0) :
    app6 meanToMcirc mu (mcircToMean mu a ex ey i Ω α)
      = [a, ex, ey, i, Ω, if Real.sqrt (ex ^ 2 + ey ^ 2) < 1 then fmod α (2 * pi) else α] := by
  obtain ⟨h1, h2⟩ := atan2_div_norm h
  by_cases hc : Real.sqrt (ex ^ 2 + ey ^ 2) < 1
  · simp only [meanToMcirc, app6, mcircToMean, powi, sqrt, cos, sin, h1, h2, add_sub_cancel, if_pos hc]
  · simp only [meanToMcirc, app6, mcircToMean, powi, sqrt, cos, sin, h1, h2, add_sub_cancel, if_neg hc]

/-- mean → TLE → mean is the identity for `a > 0` (`n = √(µ/a³)`, `a = (µ/n²)^(1/3)`). -/
theorem mean_tle_mean (mu a e i Ω ω M : ℝ) (hmu : 0 < mu) (ha : 0 < a) :
    app6 tleToMean mu (meanToTle mu a e i Ω ω M) = [a, e, i, Ω, ω, M] := by
  have h3 : 0 < mu / a ^ 3 := by positivity
  have : mu / Real.sqrt (mu / a ^ 3) ^ 2 = a ^ 3 := by
    rw [Real.sq_sqrt h3.le]; field_simp
  simp only [meanToTle, app6, tleToMean, powi, sqrt, rpow, this, List.cons.injEq, and_true, true_and]
  have := Real.pow_rpow_inv_natCast ha.le (n := 3) (by norm_num)
  simpa [one_div] using this

/-- TLE → mean → TLE is the identity for `n > 0`. -/
theorem tle_mean_tle (mu i Ω e ω M n : ℝ) (hmu : 0 < mu) (hn : 0 < n) :
    app6 meanToTle mu (tleToMean mu i Ω e ω M n) = [i, Ω, e, ω, M, n] := by
  have h3 : 0 ≤ mu / n ^ 2 := by positivity
  have hp : (Real.rpow (mu / n ^ 2) (1 / 3)) ^ 3 = mu / n ^ 2 := by
    have := Real.rpow_inv_natCast_pow h3 (n := 3) (by norm_num)
    simpa [one_div] using this
  simp only [meanToTle, app6, tleToMean, powi, sqrt, rpow, hp, List.cons.injEq, and_true, true_and]
  have : mu / (mu / n ^ 2) = n ^ 2 := by field_simp
  rw [this, Real.sqrt_sq hn.le]

/-! ## equinoctial -/

/-- keplerian → equinoctial → keplerian (`e > 0`, `0 < i < π`): a, e, i exactly; Ω, ω, ν as the same points of the
circle, and exactly when they lie in `[0, 2π)` (the range the code itself produces). -/
theorem kepl_equi_kepl (mu a e i Ω ω ν : ℝ) (he : 0 < e) (hi : 0 < i ∧ i < Real.pi) :
    ∃ Ω' ω' ν', app6 equiToKepl mu (keplToEqui mu a e i Ω ω ν) = [a, e, i, Ω', ω', ν'] ∧
      AngEq Ω' Ω ∧ AngEq ω' ω ∧ AngEq ν' ν ∧
      (0 ≤ Ω ∧ Ω < 2 * Real.pi → Ω' = Ω) ∧ (0 ≤ ω ∧ ω < 2 * Real.pi → ω' = ω) ∧ (0 ≤ ν ∧ ν < 2 * Real.pi → ν' = ν) := by
  have ht : 0 < Real.tan (i / 2) := Real.tan_pos_of_pos_of_lt_pi_div_two (by linarith [hi.1]) (by linarith [hi.2])
  set Ω' := fmod (atan2 (Real.tan (i / 2) * Real.sin Ω) (Real.tan (i / 2) * Real.cos Ω)) (2 * pi) with hΩ'
  set ω' := fmod (atan2 (e * Real.sin (Ω + ω)) (e * Real.cos (Ω + ω)) - Ω') (2 * pi) with hω'
  set ν' := fmod (Ω + ω + ν - Ω' - ω') (2 * pi) with hν'
  have aΩ : AngEq Ω' Ω := (fmod_two_pi_angEq _).trans (atan2_scaled ht)
  have aω : AngEq ω' ω := by
    have := (fmod_two_pi_angEq (atan2 (e * Real.sin (Ω + ω)) (e * Real.cos (Ω + ω)) - Ω')).trans ((atan2_scaled he).sub aΩ)
    simpa using this
  have aν : AngEq ν' ν := by
    have := (fmod_two_pi_angEq (Ω + ω + ν - Ω' - ω')).trans (((AngEq.refl (Ω + ω + ν)).sub aΩ).sub aω)
    have h2 : Ω + ω + ν - Ω - ω = ν := by ring
    rwa [h2] at this
  refine ⟨Ω', ω', ν', ?_, aΩ, aω, aν, ?_, ?_, ?_⟩
  · have hq : Real.sqrt ((Real.tan (i / 2) * Real.cos Ω) ^ 2 + (Real.tan (i / 2) * Real.sin Ω) ^ 2) = Real.tan (i / 2) :=
      sqrt_ecs _ _ ht.le
    have hat : 2 * Real.arctan (Real.tan (i / 2)) = i := by
      rw [Real.arctan_tan (by linarith [hi.1, Real.pi_pos]) (by linarith [hi.2])]; ring
    simp only [keplToEqui, app6, equiToKepl, powi, sqrt, cos, sin, tan, atan, sqrt_ecs e (Ω + ω) he.le, hq, hat, ← hΩ', ← hω', ← hν']
  · intro h; exact AngEq.eq_of_mem_Ico (lo := 0) aΩ (by simpa using fmod_mem (x := _) two_pi_pos) (by simpa using h)
  · intro h; exact AngEq.eq_of_mem_Ico (lo := 0) aω (by simpa using fmod_mem (x := _) two_pi_pos) (by simpa using h)
  · intro h; exact AngEq.eq_of_mem_Ico (lo := 0) aν (by simpa using fmod_mem (x := _) two_pi_pos) (by simpa using h)

/-- equinoctial → keplerian → equinoctial (`(ex, ey) ≠ 0`, `(ix, iy) ≠ 0`): a and both vectors exactly, the
longitude as the same point of the circle. -/
theorem equi_kepl_equi (mu a ex ey ix iy l : ℝ) (he : ex ^ 2 + ey ^ 2 ≠ 0) (hi : ix ^ 2 + iy ^ 2 ≠ 0) :
    ∃ l', app6 keplToEqui mu (equiToKepl mu a ex ey ix iy l) = [a, ex, ey, ix, iy, l'] ∧ AngEq l' l := by
  set Ω' := fmod (atan2 iy ix) (2 * pi) with hΩ'
  set ω' := fmod (atan2 ey ex - Ω') (2 * pi) with hω'
  set ν' := fmod (l - Ω' - ω') (2 * pi) with hν'
  have aΩ : AngEq Ω' (atan2 iy ix) := fmod_two_pi_angEq _
  have aω : AngEq ω' (atan2 ey ex - Ω') := fmod_two_pi_angEq _
  have aΩω : AngEq (Ω' + ω') (atan2 ey ex) := by
    have := (AngEq.refl Ω').add aω
    have h2 : Ω' + (atan2 ey ex - Ω') = atan2 ey ex := by ring
    rwa [h2] at this
  have aν : AngEq ν' (l - Ω' - ω') := fmod_two_pi_angEq _
  have hpe : 0 < ex ^ 2 + ey ^ 2 := lt_of_le_of_ne (by positivity) (Ne.symm he)
  have hpi : 0 < ix ^ 2 + iy ^ 2 := lt_of_le_of_ne (by positivity) (Ne.symm hi)
  have hρe : 0 < Real.sqrt (ex ^ 2 + ey ^ 2) := Real.sqrt_pos.mpr hpe
  have hρi : 0 < Real.sqrt (ix ^ 2 + iy ^ 2) := Real.sqrt_pos.mpr hpi
  obtain ⟨hce, hse⟩ := atan2_of_norm hρe (Real.sq_sqrt hpe.le)
  obtain ⟨hci, hsi⟩ := atan2_of_norm hρi (Real.sq_sqrt hpi.le)
  have htan : Real.tan (2 * Real.arctan (Real.sqrt (ix ^ 2 + iy ^ 2)) / 2) = Real.sqrt (ix ^ 2 + iy ^ 2) := by
    rw [mul_div_cancel_left₀ _ (two_ne_zero), Real.tan_arctan]
  refine ⟨Ω' + ω' + ν', ?_, ?_⟩
  · simp only [keplToEqui, app6, equiToKepl, powi, sqrt, cos, sin, tan, atan, ← hΩ', ← hω', ← hν', htan, aΩω.1, aΩω.2, aΩ.1, aΩ.2,
      hce, hse, hci, hsi, List.cons.injEq, and_true, true_and]
    refine ⟨?_, ?_, ?_, ?_⟩ <;> field_simp
  · have := (AngEq.refl (Ω' + ω')).add aν
    have h2 : Ω' + ω' + (l - Ω' - ω') = l := by ring
    rwa [h2] at this

/-! ## true ↔ eccentric / hyperbolic anomaly -/

theorem one_add_e_cos_pos {e ν : ℝ} (h0 : 0 ≤ e) (h1 : e < 1) : 0 < 1 + e * Real.cos ν := by
  nlinarith [Real.neg_one_le_cos ν, Real.cos_le_one ν]

theorem one_sub_e_cos_pos {e E : ℝ} (h0 : 0 ≤ e) (h1 : e < 1) : 0 < 1 - e * Real.cos E := by
  nlinarith [Real.neg_one_le_cos E, Real.cos_le_one E]

/-- keplerian → eccentric → keplerian, ellipse (`0 ≤ e < 1`): the true anomaly comes back as the same point of the
circle, and exactly when it lies in `[0, 2π)`; the other five numbers are untouched. -/
theorem kepl_ecc_kepl_elliptic (mu a e i Ω ω ν : ℝ) (h0 : 0 ≤ e) (h1 : e < 1) :
    ∃ ν', app6 eccToKepl mu (keplToEcc mu a e i Ω ω ν) = [a, e, i, Ω, ω, ν'] ∧ AngEq ν' ν ∧
      (0 ≤ ν ∧ ν < 2 * Real.pi → ν' = ν) := by
  have hD := one_add_e_cos_pos (ν := ν) h0 h1
  have hq2 : 0 < 1 - e ^ 2 := by nlinarith
  have hq : 0 < Real.sqrt (1 - e ^ 2) := Real.sqrt_pos.mpr hq2
  have hqq : Real.sqrt (1 - e ^ 2) ^ 2 = 1 - e ^ 2 := Real.sq_sqrt hq2.le
  have hcs := Real.sin_sq_add_cos_sq ν
  set cE := (e + Real.cos ν) / (1 + e * Real.cos ν) with hcE
  set sE := Real.sin ν * Real.sqrt (1 - e ^ 2) / (1 + e * Real.cos ν) with hsE
  have hunit : cE ^ 2 + sE ^ 2 = 1 := by
    rw [hcE, hsE]; generalize Real.sqrt (1 - e ^ 2) = q at *
    generalize Real.cos ν = c at *; generalize Real.sin ν = s at *
    field_simp; linear_combination (s ^ 2) * hqq + (1 + (-1) * e ^ 2) * hcs
  obtain ⟨hc, hs⟩ := atan2_unit hunit
  have aE := fmod_two_pi_angEq (atan2 sE cE)
  have hcos : Real.cos (fmod (atan2 sE cE) (2 * pi)) = cE := aE.1.trans hc
  have hsin : Real.sin (fmod (atan2 sE cE) (2 * pi)) = sE := aE.2.trans hs
  have hne : 1 - e * cE ≠ 0 := by
    have : 1 - e * cE = (1 - e ^ 2) / (1 + e * Real.cos ν) := by rw [hcE]; field_simp; ring
    rw [this]; positivity
  have hcν : (cE - e) / (1 - e * cE) = Real.cos ν := by
    rw [div_eq_iff hne, hcE]; field_simp; ring
  have hsν : sE * Real.sqrt (1 - e ^ 2) / (1 - e * cE) = Real.sin ν := by
    rw [div_eq_iff hne, hcE, hsE]; generalize Real.sqrt (1 - e ^ 2) = q at *
    field_simp; linear_combination (Real.sin ν) * hqq
  have aν : AngEq (fmod (atan2 (Real.sin ν) (Real.cos ν)) (pi * 2)) ν := (fmod_pi_two_angEq _).trans (atan2_sin_cos ν)
  refine ⟨fmod (atan2 (Real.sin ν) (Real.cos ν)) (pi * 2), ?_, aν, ?_⟩
  · simp only [keplToEcc, app6, eccToKepl, if_pos h1, powi, sqrt, cos, sin, ← hcE, ← hsE, hcos, hsin, hcν, hsν]
  · intro h
    have hm := fmod_mem (x := atan2 (Real.sin ν) (Real.cos ν)) (m := pi * 2) (by have := Real.pi_pos; simp only [pi]; linarith)
    exact AngEq.eq_of_mem_Ico (lo := 0) aν ⟨hm.1, by simpa [mul_comm] using hm.2⟩ (by simpa using h)

/-- eccentric → keplerian → eccentric, ellipse: the eccentric anomaly comes back as the same point of the circle,
exactly when it lies in `[0, 2π)`. -/
theorem ecc_kepl_ecc_elliptic (mu a e i Ω ω E : ℝ) (h0 : 0 ≤ e) (h1 : e < 1) :
    ∃ E', app6 keplToEcc mu (eccToKepl mu a e i Ω ω E) = [a, e, i, Ω, ω, E'] ∧ AngEq E' E ∧
      (0 ≤ E ∧ E < 2 * Real.pi → E' = E) := by
  have hD := one_sub_e_cos_pos (E := E) h0 h1
  have hDne : 1 - e * Real.cos E ≠ 0 := hD.ne'
  have hq2 : 0 < 1 - e ^ 2 := by nlinarith
  have hq : 0 < Real.sqrt (1 - e ^ 2) := Real.sqrt_pos.mpr hq2
  have hqq : Real.sqrt (1 - e ^ 2) ^ 2 = 1 - e ^ 2 := Real.sq_sqrt hq2.le
  have hcs := Real.sin_sq_add_cos_sq E
  set cν := (Real.cos E - e) / (1 - e * Real.cos E) with hcν
  set sν := Real.sin E * Real.sqrt (1 - e ^ 2) / (1 - e * Real.cos E) with hsν
  have hunit : cν ^ 2 + sν ^ 2 = 1 := by
    have key : (Real.cos E - e) ^ 2 + (Real.sin E * Real.sqrt (1 - e ^ 2)) ^ 2 = (1 - e * Real.cos E) ^ 2 := by
      generalize Real.sqrt (1 - e ^ 2) = q at *
      generalize Real.cos E = c at *; generalize Real.sin E = s at *
      linear_combination (s ^ 2) * hqq + (1 + (-1) * e ^ 2) * hcs
    rw [hcν, hsν, div_pow, div_pow, ← add_div, key, div_self (pow_ne_zero 2 hDne)]
  obtain ⟨hc, hs⟩ := atan2_unit hunit
  have aν := fmod_pi_two_angEq (atan2 sν cν)
  have hcos : Real.cos (fmod (atan2 sν cν) (pi * 2)) = cν := aν.1.trans hc
  have hsin : Real.sin (fmod (atan2 sν cν) (pi * 2)) = sν := aν.2.trans hs
  have hne : 1 + e * cν ≠ 0 := by
    have : 1 + e * cν = (1 - e ^ 2) / (1 - e * Real.cos E) := by rw [hcν]; field_simp; ring
    rw [this]; positivity
  have hcE : (e + cν) / (1 + e * cν) = Real.cos E := by
    rw [div_eq_iff hne, hcν]; field_simp; ring
  have hsE : sν * Real.sqrt (1 - e ^ 2) / (1 + e * cν) = Real.sin E := by
    rw [div_eq_iff hne, hcν, hsν]; generalize Real.sqrt (1 - e ^ 2) = q at *
    field_simp; linear_combination (Real.sin E) * hqq
  have aE : AngEq (fmod (atan2 (Real.sin E) (Real.cos E)) (2 * pi)) E := (fmod_two_pi_angEq _).trans (atan2_sin_cos E)
  refine ⟨fmod (atan2 (Real.sin E) (Real.cos E)) (2 * pi), ?_, aE, ?_⟩
  · simp only [keplToEcc, app6, eccToKepl, if_pos h1, powi, sqrt, cos, sin, ← hcν, ← hsν, hcos, hsin, hcE, hsE]
  · intro h
    have hm := fmod_mem (x := atan2 (Real.sin E) (Real.cos E)) two_pi_pos
    exact AngEq.eq_of_mem_Ico (lo := 0) aE ⟨hm.1, by simpa using hm.2⟩ (by simpa using h)

/-- keplerian → eccentric → keplerian, hyperbola (`e > 1`, true anomaly inside the asymptotes: `1 + e cos ν > 0`). -/
theorem kepl_ecc_kepl_hyperbolic (mu a e i Ω ω ν : ℝ) (h1 : 1 < e) (hD : 0 < 1 + e * Real.cos ν) :
    ∃ ν', app6 eccToKepl mu (keplToEcc mu a e i Ω ω ν) = [a, e, i, Ω, ω, ν'] ∧ AngEq ν' ν ∧
      (0 ≤ ν ∧ ν < 2 * Real.pi → ν' = ν) := by
  have hne1 : ¬ e < 1 := not_lt.mpr h1.le
  have hq2 : 0 < e ^ 2 - 1 := by nlinarith
  have hq : 0 < Real.sqrt (e ^ 2 - 1) := Real.sqrt_pos.mpr hq2
  have hqq : Real.sqrt (e ^ 2 - 1) ^ 2 = e ^ 2 - 1 := Real.sq_sqrt hq2.le
  have hcs := Real.sin_sq_add_cos_sq ν
  have hec : 0 < e + Real.cos ν := by nlinarith [Real.neg_one_le_cos ν]
  set cH := (e + Real.cos ν) / (1 + e * Real.cos ν) with hcH
  set sH := Real.sin ν * Real.sqrt (e ^ 2 - 1) / (1 + e * Real.cos ν) with hsH
  have hcHpos : 0 < cH := by rw [hcH]; positivity
  have hdiff : cH ^ 2 - sH ^ 2 = 1 := by
    rw [hcH, hsH]; generalize Real.sqrt (e ^ 2 - 1) = q at *
    generalize Real.cos ν = c at *; generalize Real.sin ν = s at *
    field_simp; linear_combination ((-1) * s ^ 2) * hqq + (1 + (-1) * e ^ 2) * hcs
  have ht2 : (sH / cH) ^ 2 < 1 := by
    rw [div_pow, div_lt_one (by positivity)]; nlinarith
  have htm : sH / cH ∈ Set.Ioo (-1 : ℝ) 1 := by
    have := abs_lt.mp ((sq_lt_one_iff_abs_lt_one _).mp ht2)
    exact ⟨this.1, this.2⟩
  have hsqrt : Real.sqrt (1 - (sH / cH) ^ 2) = 1 / cH := by
    have : 1 - (sH / cH) ^ 2 = (1 / cH) ^ 2 := by field_simp; linarith
    rw [this, Real.sqrt_sq (by positivity)]
  have hcosh : Real.cosh (Real.artanh (sH / cH)) = cH := by
    rw [Real.cosh_artanh htm, hsqrt]; field_simp
  have hsinh : Real.sinh (Real.artanh (sH / cH)) = sH := by
    rw [Real.sinh_artanh htm, hsqrt]; field_simp
  have hne : 1 - e * cH ≠ 0 := by
    have : 1 - e * cH = -(e ^ 2 - 1) / (1 + e * Real.cos ν) := by rw [hcH]; field_simp; ring
    rw [this]; exact div_ne_zero (by linarith) hD.ne'
  have hcν : (cH - e) / (1 - e * cH) = Real.cos ν := by
    rw [div_eq_iff hne, hcH]; field_simp; ring
  have hsν : -(sH * Real.sqrt (e ^ 2 - 1)) / (1 - e * cH) = Real.sin ν := by
    rw [div_eq_iff hne, hcH, hsH]; generalize Real.sqrt (e ^ 2 - 1) = q at *
    field_simp; linear_combination (-Real.sin ν) * hqq
  have aν : AngEq (fmod (atan2 (Real.sin ν) (Real.cos ν)) (pi * 2)) ν := (fmod_pi_two_angEq _).trans (atan2_sin_cos ν)
  refine ⟨fmod (atan2 (Real.sin ν) (Real.cos ν)) (pi * 2), ?_, aν, ?_⟩
  · simp only [keplToEcc, app6, eccToKepl, if_neg hne1, powi, sqrt, cos, sin, cosh, sinh, atanh, ← hcH, ← hsH, hcosh, hsinh, hcν, hsν]
  · intro h
    have hm := fmod_mem (x := atan2 (Real.sin ν) (Real.cos ν)) (m := pi * 2) (by have := Real.pi_pos; simp only [pi]; linarith)
    exact AngEq.eq_of_mem_Ico (lo := 0) aν ⟨hm.1, by simpa [mul_comm] using hm.2⟩ (by simpa using h)

/-- eccentric → keplerian → eccentric, hyperbola (`e > 1`): the hyperbolic anomaly is returned **exactly**, for every H. -/
theorem ecc_kepl_ecc_hyperbolic (mu a e i Ω ω H : ℝ) (h1 : 1 < e) :
    app6 keplToEcc mu (eccToKepl mu a e i Ω ω H) = [a, e, i, Ω, ω, H] := by
  have hne1 : ¬ e < 1 := not_lt.mpr h1.le
  have hq2 : 0 < e ^ 2 - 1 := by nlinarith
  have hq : 0 < Real.sqrt (e ^ 2 - 1) := Real.sqrt_pos.mpr hq2
  have hqq : Real.sqrt (e ^ 2 - 1) ^ 2 = e ^ 2 - 1 := Real.sq_sqrt hq2.le
  have hch := Real.cosh_sq H
  have hc1 : 1 ≤ Real.cosh H := Real.one_le_cosh H
  have hD : 1 - e * Real.cosh H < 0 := by nlinarith
  have hDne : 1 - e * Real.cosh H ≠ 0 := hD.ne
  set cν := (Real.cosh H - e) / (1 - e * Real.cosh H) with hcν
  set sν := -(Real.sinh H * Real.sqrt (e ^ 2 - 1)) / (1 - e * Real.cosh H) with hsν
  have hunit : cν ^ 2 + sν ^ 2 = 1 := by
    have key : (Real.cosh H - e) ^ 2 + (-(Real.sinh H * Real.sqrt (e ^ 2 - 1))) ^ 2 = (1 - e * Real.cosh H) ^ 2 := by
      generalize Real.sqrt (e ^ 2 - 1) = q at *
      generalize Real.cosh H = c at *; generalize Real.sinh H = s at *
      linear_combination (s ^ 2) * hqq + (1 - e ^ 2) * hch
    rw [hcν, hsν, div_pow, div_pow, ← add_div, key, div_self (pow_ne_zero 2 hDne)]
  obtain ⟨hc, hs⟩ := atan2_unit hunit
  have aν := fmod_pi_two_angEq (atan2 sν cν)
  have hcos : Real.cos (fmod (atan2 sν cν) (pi * 2)) = cν := aν.1.trans hc
  have hsin : Real.sin (fmod (atan2 sν cν) (pi * 2)) = sν := aν.2.trans hs
  have hne : 1 + e * cν ≠ 0 := by
    have : 1 + e * cν = (1 - e ^ 2) / (1 - e * Real.cosh H) := by rw [hcν]; field_simp; ring
    rw [this]; exact div_ne_zero (by linarith) hD.ne
  have hcH : (e + cν) / (1 + e * cν) = Real.cosh H := by
    rw [div_eq_iff hne, hcν]; field_simp; ring
  have hsH : sν * Real.sqrt (e ^ 2 - 1) / (1 + e * cν) = Real.sinh H := by
    rw [div_eq_iff hne, hcν, hsν]; generalize Real.sqrt (e ^ 2 - 1) = q at *
    field_simp; linear_combination (-Real.sinh H) * hqq
  have hat : Real.artanh (Real.sinh H / Real.cosh H) = H := by
    rw [← Real.tanh_eq_sinh_div_cosh, Real.artanh_tanh]
  simp only [keplToEcc, app6, eccToKepl, if_neg hne1, powi, sqrt, cos, sin, cosh, sinh, atanh, ← hcν, ← hsν, hcos, hsin, hcH, hsH, hat]

/-! ## Kepler's equation: `Form.M2E` and eccentric ↔ mean anomaly -/

/-- **Exit condition of the Kepler loop**, for every fuel, both conics, every start value: a returned value is a
Newton update `next X` of some iterate `X` from which it differs by less than `tol`. -/
theorem m2eLoop_exit (fuel : Nat) (e M X X1 R : ℝ) (hX : X1 = m2eNext X e M) (h : m2eLoop fuel e M X X1 = some R) :
    ∃ Xp, R = m2eNext Xp e M ∧ |R - Xp| < m2eTol := by
  induction fuel generalizing X X1 with
  | zero => simp [m2eLoop] at h
  | succ n ih =>
    simp only [m2eLoop, m2eContinue, absR] at h
    split_ifs at h with hc
    · exact ih X1 (m2eNext X1 e M) rfl h
    · refine ⟨X, ?_, ?_⟩
      · rw [← hX]; exact (Option.some.inj h).symm
      · rw [← Option.some.inj h]; exact not_le.mp hc

/-- `Form.M2E` = reduce, iterate, add back: a returned value is `finish (next X)` for an iterate `X` of the loop run
on the reduced mean anomaly, with `|next X − X| < tol`. -/
theorem m2e_exit (fuel : Nat) (e M R : ℝ) (h : m2e fuel e M = some R) :
    ∃ X1 Xp, R = m2eFinish e X1 (m2eExtra e M) ∧ X1 = m2eNext Xp e (m2eReduced e M) ∧ |X1 - Xp| < m2eTol := by
  simp only [m2e, Option.map_eq_some_iff] at h
  obtain ⟨X1, hl, rfl⟩ := h
  obtain ⟨Xp, h1, h2⟩ := m2eLoop_exit fuel e _ _ _ X1 rfl hl
  exact ⟨X1, Xp, rfl, h1, h2⟩

theorem m2eTol_pos : (0 : ℝ) < m2eTol := by unfold m2eTol; norm_num
theorem m2eTol_le : m2eTol ≤ (1 : ℝ) := by unfold m2eTol; norm_num

/-- ellipse: the anomaly the loop works on is `M` minus a whole number `k` of turns, that number of turns is added back -/
theorem m2e_reduction_elliptic (e M : ℝ) (h1 : e < 1) :
    ∃ k : ℤ, m2eExtra e M = k * (2 * Real.pi) ∧ m2eReduced e M = M - k * (2 * Real.pi) ∧
      -Real.pi ≤ m2eReduced e M ∧ m2eReduced e M < Real.pi := by
  refine ⟨⌊(M + Real.pi) / (2 * Real.pi)⌋, ?_, ?_, ?_, ?_⟩
  · simp only [m2eExtra, if_pos h1, floorR, pi]; ring
  · simp only [m2eReduced, if_pos h1, floorR, pi]; ring
  · simp only [m2eReduced, if_pos h1, floorR, pi]
    have := Int.floor_le ((M + Real.pi) / (2 * Real.pi))
    have hp := Real.pi_pos
    have h3 : (M + Real.pi) / (2 * Real.pi) * (2 * Real.pi) = M + Real.pi := by field_simp
    nlinarith
  · simp only [m2eReduced, if_pos h1, floorR, pi]
    have := Int.lt_floor_add_one ((M + Real.pi) / (2 * Real.pi))
    have hp := Real.pi_pos
    have h3 : (M + Real.pi) / (2 * Real.pi) * (2 * Real.pi) = M + Real.pi := by field_simp
    nlinarith

/-- **Kepler-equation residual, ellipse** (`0 ≤ e < 1`), for every fuel, every `M` (any number of revolutions) and
whatever the start branch: if `M2E` returns `E` then `|E − e sin E − M| < 2·tol·(1+e)`. -/
theorem m2e_residual_elliptic (fuel : Nat) (e M R : ℝ) (h0 : 0 ≤ e) (h1 : e < 1) (h : m2e fuel e M = some R) :
    |R - e * Real.sin R - M| < 2 * m2eTol * (1 + e) := by
  obtain ⟨Y, X, hR, hY, hd⟩ := m2e_exit fuel e M R h
  obtain ⟨k, hk, hMr, _, _⟩ := m2e_reduction_elliptic e M h1
  set Mr := m2eReduced e M
  have hD : 0 < 1 - e * Real.cos X := by nlinarith [Real.neg_one_le_cos X, Real.cos_le_one X]
  have hD2 : 1 - e * Real.cos X ≤ 1 + e := by nlinarith [Real.neg_one_le_cos X, Real.cos_le_one X]
  simp only [m2eNext, if_pos h1, cos, sin] at hY
  simp only [m2eFinish, if_pos h1, hk] at hR
  have hstep : (Y - X) * (1 - e * Real.cos X) = Mr - X + e * Real.sin X := by
    rw [hY]; field_simp; ring
  have hres : |Mr - X + e * Real.sin X| < m2eTol * (1 + e) := by
    rw [← hstep, abs_mul, abs_of_pos hD]
    calc |Y - X| * (1 - e * Real.cos X) ≤ |Y - X| * (1 + e) := by gcongr
      _ < m2eTol * (1 + e) := by gcongr
  have hsin := Real.abs_sin_sub_sin_le Y X
  have hsR : Real.sin R = Real.sin Y := by rw [hR, Real.sin_add_int_mul_two_pi]
  have key : R - e * Real.sin R - M = (Y - X) - e * (Real.sin Y - Real.sin X) - (Mr - X + e * Real.sin X) := by
    rw [hsR, hR, hMr]; ring
  rw [key]
  have h3 : |e * (Real.sin Y - Real.sin X)| ≤ e * |Y - X| := by
    rw [abs_mul, abs_of_nonneg h0]; gcongr
  have hT := m2eTol_pos
  calc |Y - X - e * (Real.sin Y - Real.sin X) - (Mr - X + e * Real.sin X)|
      ≤ |Y - X - e * (Real.sin Y - Real.sin X)| + |Mr - X + e * Real.sin X| := abs_sub _ _
    _ ≤ |Y - X| + |e * (Real.sin Y - Real.sin X)| + |Mr - X + e * Real.sin X| := by gcongr; exact abs_sub _ _
    _ < 2 * m2eTol * (1 + e) := by nlinarith

/-- **mean → eccentric → mean, ellipse**: the mean anomaly is reproduced within `2·tol·(1+e)` (tol = 1e-8 in the source). -/
theorem mean_ecc_mean_elliptic (fuel : Nat) (mu a e i Ω ω M : ℝ) (h0 : 0 ≤ e) (h1 : e < 1) (c : List ℝ)
    (h : meanToEcc fuel mu a e i Ω ω M = some c) :
    ∃ M', app6 eccToMean mu c = [a, e, i, Ω, ω, M'] ∧ |M' - M| < 2 * m2eTol * (1 + e) := by
  simp only [meanToEcc, Option.map_eq_some_iff] at h
  obtain ⟨R, hR, rfl⟩ := h
  refine ⟨R - e * Real.sin R, ?_, m2e_residual_elliptic fuel e M R h0 h1 hR⟩
  simp only [app6, eccToMean, if_pos h1, sin]

/-- **eccentric → mean → eccentric, ellipse**: Kepler's function `E ↦ E − e sin E` is strictly increasing with slope
at least `1 − e`, so the eccentric anomaly returned by the solver is within `2·tol·(1+e)/(1−e)` of the original one
— for every `E` (also negative or many revolutions away), every fuel, every start branch. -/
theorem ecc_mean_ecc_elliptic (fuel : Nat) (mu a e i Ω ω E : ℝ) (h0 : 0 ≤ e) (h1 : e < 1) (c : List ℝ)
    (h : (match eccToMean mu a e i Ω ω E with
          | [a, e, i, Ω, ω, M] => meanToEcc fuel mu a e i Ω ω M
          | _ => none) = some c) :
    ∃ E', c = [a, e, i, Ω, ω, E'] ∧ |E' - E| < 2 * m2eTol * (1 + e) / (1 - e) := by
  simp only [eccToMean, if_pos h1, sin, meanToEcc, Option.map_eq_some_iff] at h
  obtain ⟨R, hR, rfl⟩ := h
  refine ⟨R, rfl, ?_⟩
  have hres := m2e_residual_elliptic fuel e _ R h0 h1 hR
  have hsin := Real.abs_sin_sub_sin_le R E
  have h1e : 0 < 1 - e := by linarith
  rw [lt_div_iff₀ h1e]
  have key : R - e * Real.sin R - (E - e * Real.sin E) = (R - E) - e * (Real.sin R - Real.sin E) := by ring
  rw [key] at hres
  have h3 : |e * (Real.sin R - Real.sin E)| ≤ e * |R - E| := by
    rw [abs_mul, abs_of_nonneg h0]; gcongr
  have h4 : |R - E| - |e * (Real.sin R - Real.sin E)| ≤ |R - E - e * (Real.sin R - Real.sin E)| :=
    abs_sub_abs_le_abs_sub (R - E) (e * (Real.sin R - Real.sin E))
  nlinarith

/-- **Kepler-equation residual, hyperbola** (`e > 1`), at the *returned* value, for every fuel and whatever the start
branch (incl. the asymptotic start of fix 31f549a): `|e sinh H − H − M| < 8·e·cosh H·tol²` — the Newton step cancels
the first-order term exactly, what is left is second order in the last step. -/
theorem m2e_residual_hyperbolic (fuel : Nat) (e M R : ℝ) (h1 : 1 < e) (h : m2e fuel e M = some R) :
    |e * Real.sinh R - R - M| < 8 * e * Real.cosh R * m2eTol ^ 2 := by
  obtain ⟨Y, X, hR, hY, hd⟩ := m2e_exit fuel e M R h
  have hne1 : ¬ e < 1 := not_lt.mpr h1.le
  have hMr : m2eReduced e M = M := by simp only [m2eReduced, if_neg hne1]
  simp only [m2eFinish, if_neg hne1] at hR
  subst hR
  rw [hMr] at hY
  have hD : 0 < e * Real.cosh X - 1 := by nlinarith [Real.one_le_cosh X]
  simp only [m2eNext, if_neg hne1, cosh, sinh] at hY
  set d := R - X with hdd
  have hstep : d * (e * Real.cosh X - 1) = M - e * Real.sinh X + X := by
    rw [hdd, hY]; field_simp; ring
  have hd1 : |d| ≤ 1 := le_trans hd.le m2eTol_le
  have hrem := Hyp.abs_sinh_add_sub_le (X := X) hd1
  have hRX : R = X + d := by rw [hdd]; ring
  have key : e * Real.sinh R - R - M = e * (Real.sinh (X + d) - Real.sinh X - d * Real.cosh X) := by
    rw [← hRX]; linear_combination hstep
  rw [key, abs_mul, abs_of_pos (by linarith : (0 : ℝ) < e)]
  have h4 := Hyp.cosh_le_four_mul (X := X) (R := R) hd1
  have hd2 : d ^ 2 < m2eTol ^ 2 := by
    have := abs_nonneg d
    rw [← sq_abs d]; exact pow_lt_pow_left₀ hd (abs_nonneg d) (by norm_num)
  have hcX := Real.cosh_pos X
  have hcR := Real.cosh_pos R
  have he0 : (0 : ℝ) < e := by linarith
  calc e * |Real.sinh (X + d) - Real.sinh X - d * Real.cosh X|
      ≤ e * (2 * Real.cosh X * d ^ 2) := by gcongr
    _ ≤ e * (2 * (4 * Real.cosh R) * d ^ 2) := by gcongr
    _ < e * (2 * (4 * Real.cosh R) * m2eTol ^ 2) := by gcongr
    _ = 8 * e * Real.cosh R * m2eTol ^ 2 := by ring

/-- **mean → eccentric → mean, hyperbola**: the mean anomaly is reproduced within `8·e·cosh H·tol²`. -/
theorem mean_ecc_mean_hyperbolic (fuel : Nat) (mu a e i Ω ω M : ℝ) (h1 : 1 < e) (c : List ℝ)
    (h : meanToEcc fuel mu a e i Ω ω M = some c) :
    ∃ H M', c = [a, e, i, Ω, ω, H] ∧ app6 eccToMean mu c = [a, e, i, Ω, ω, M'] ∧
      |M' - M| < 8 * e * Real.cosh H * m2eTol ^ 2 := by
  have hne1 : ¬ e < 1 := not_lt.mpr h1.le
  simp only [meanToEcc, Option.map_eq_some_iff] at h
  obtain ⟨R, hR, rfl⟩ := h
  refine ⟨R, e * Real.sinh R - R, rfl, ?_, m2e_residual_hyperbolic fuel e M R h1 hR⟩
  simp only [app6, eccToMean, if_neg hne1, sinh]

/-- **eccentric → mean → eccentric, hyperbola**: `H ↦ e sinh H − H` expands distances by at least `e − 1`, so the
hyperbolic anomaly returned by the solver is within `8·e·cosh H'·tol²/(e−1)` of the original one, for every `H`. -/
theorem ecc_mean_ecc_hyperbolic (fuel : Nat) (mu a e i Ω ω H : ℝ) (h1 : 1 < e) (c : List ℝ)
    (h : (match eccToMean mu a e i Ω ω H with
          | [a, e, i, Ω, ω, M] => meanToEcc fuel mu a e i Ω ω M
          | _ => none) = some c) :
    ∃ H', c = [a, e, i, Ω, ω, H'] ∧ |H' - H| < 8 * e * Real.cosh H' * m2eTol ^ 2 / (e - 1) := by
  have hne1 : ¬ e < 1 := not_lt.mpr h1.le
  simp only [eccToMean, if_neg hne1, sinh, meanToEcc, Option.map_eq_some_iff] at h
  obtain ⟨R, hR, rfl⟩ := h
  refine ⟨R, rfl, ?_⟩
  have hres := m2e_residual_hyperbolic fuel e _ R h1 hR
  have hexp := Hyp.kepler_hyp_expanding (e := e) (a := R) (b := H) h1.le
  have h1e : 0 < e - 1 := by linarith
  rw [lt_div_iff₀ h1e]
  have : e * Real.sinh R - R - (e * Real.sinh H - H) = (e * Real.sinh R - R) - (e * Real.sinh H - H) := by ring
  rw [this] at hres
  nlinarith

/-! ## invariance under the circle relation -/

/-- **The circle relation on Ω, ω, ν is invisible in position and velocity**: `keplerian → cartesian` gives the same
six numbers for keplerian elements whose angles are the same points of the circle. -/
theorem keplToCart_respects_angEq (mu a e i Ω ω ν Ω' ω' ν' : ℝ) (hΩ : AngEq Ω' Ω) (hω : AngEq ω' ω) (hν : AngEq ν' ν) :
    keplToCart mu a e i Ω' ω' ν' = keplToCart mu a e i Ω ω ν := by
  have hu := hω.add hν
  simp only [keplToCart, cos, sin, hΩ.1, hΩ.2, hν.1, hν.2, hu.1, hu.2]

/-- same for the three anomaly-preserving views of the perigee/anomaly pair used by the circular form -/
theorem keplToCirc_respects_angEq (mu a e i Ω ω ν ω' ν' : ℝ) (hω : AngEq ω' ω) (hν : AngEq ν' ν) :
    ∃ u u', keplToCirc mu a e i Ω ω' ν' = [a, e * Real.cos ω, e * Real.sin ω, i, Ω, u'] ∧
            keplToCirc mu a e i Ω ω ν = [a, e * Real.cos ω, e * Real.sin ω, i, Ω, u] ∧ AngEq u' u := by
  refine ⟨fmod (ω + ν) (pi * 2), fmod (ω' + ν') (pi * 2), ?_, ?_, ?_⟩
  · simp only [keplToCirc, cos, sin, hω.1, hω.2]
  · simp only [keplToCirc, cos, sin]
  · exact ((fmod_pi_two_angEq _).trans (hω.add hν)).trans (fmod_pi_two_angEq _).symm

/-! ## Routing: the walk between two forms is the only one there is -/

open BeyondVerif.Generated in
/-- every link of the forms graph (regenerated in execution order) has a conversion method in both directions, and
every conversion method lies on a link: the 18 `_a_to_b` methods are exactly the 9 links, both ways -/
theorem edge_methods_are_links :
    (formsHist.all (fun l => formsEdgeMethods.contains (l.1, l.2) && formsEdgeMethods.contains (l.2, l.1)) &&
     formsEdgeMethods.all (fun m => formsHist.contains (m.1, m.2) || formsHist.contains (m.2, m.1)) &&
     (formsEdgeMethods.length == 2 * formsHist.length)) = true := by
  decide

/-- the forms graph is a tree on the ten forms and `Node.path` returns, for all 100 ordered pairs, the unique simple
chain (C20's theorem on the regenerated graph): "whichever intermediate forms are traversed" is the only walk there is -/
theorem forms_walk_unique :
    (Node.isForestHist Generated.formsN Generated.formsHist && (Generated.formsHist.length + 1 == Generated.formsN)
      && Node.routingExact Generated.formsN Generated.formsHist) = true ∧ Generated.formsN = 10 :=
  ⟨BeyondVerif.C20.forms_routing_exact, by decide⟩

/-! ## Infos -/

/-- `cos_fpa² + sin_fpa² = 1` on every conic with `p = a(1−e²) > 0` at every point with `r = p/(1+e cos ν) > 0`
(false before the fix 2ffad5a, which divided by ν instead of v). -/
theorem infos_fpa_components_unit (mu a e nu : ℝ) (hmu : 0 < mu) (hp : 0 < a * (1 - e ^ 2)) (hD : 0 < 1 + e * Real.cos nu) :
    let r := a * (1 - e ^ 2) / (1 + e * Real.cos nu)
    infosCosFpa mu r a e nu ^ 2 + infosSinFpa mu r a e nu ^ 2 = 1 := by
  intro r
  have ha : a ≠ 0 := by rintro rfl; simp at hp
  have he : 1 - e ^ 2 ≠ 0 := by rintro h; rw [h] at hp; simp at hp
  have hcs := Real.sin_sq_add_cos_sq nu
  have hv2 : mu * (2 / r - 1 / a) = mu / (a * (1 - e ^ 2)) * ((1 + e * Real.cos nu) ^ 2 + (e * Real.sin nu) ^ 2) := by
    simp only [r]; field_simp; linear_combination (-(e ^ 2)) * hcs
  have hpos : 0 < mu * (2 / r - 1 / a) := by rw [hv2]; positivity
  have hk : 0 ≤ mu / (a * (1 - e ^ 2)) := by positivity
  simp only [infosCosFpa, infosSinFpa, infosV, powi, sqrt, cos, sin, div_pow, mul_pow, Real.sq_sqrt hk, Real.sq_sqrt hpos.le]
  rw [← add_div, div_eq_one_iff_eq hpos.ne', hv2]; ring

/-- flight-path angle: `sin_fpa / cos_fpa = e sin ν / (1 + e cos ν)` -/
theorem infos_fpa_tan (mu r a e nu : ℝ) (hk : 0 < mu / (a * (1 - e ^ 2))) (hv : 0 < mu * (2 / r - 1 / a)) (hD : 1 + e * Real.cos nu ≠ 0) :
    infosSinFpa mu r a e nu / infosCosFpa mu r a e nu = e * Real.sin nu / (1 + e * Real.cos nu) := by
  have h1 : Real.sqrt (mu / (a * (1 - e ^ 2))) ≠ 0 := (Real.sqrt_pos.mpr hk).ne'
  have h2 : Real.sqrt (mu * (2 / r - 1 / a)) ≠ 0 := (Real.sqrt_pos.mpr hv).ne'
  simp only [infosCosFpa, infosSinFpa, infosV, powi, sqrt, cos, sin]
  field_simp

/-- vis-viva and energy: `infos.v² = µ(2/r − 1/a)` and `infos.energy = v²/2 − µ/r` -/
theorem infos_visviva_energy (mu r a e nu : ℝ) (hr : r ≠ 0) (ha : a ≠ 0) (hv : 0 ≤ mu * (2 / r - 1 / a)) :
    infosV mu r a e nu ^ 2 = mu * (2 / r - 1 / a) ∧ infosEnergy mu r a e nu = infosV mu r a e nu ^ 2 / 2 - mu / r := by
  simp only [infosV, infosEnergy, sqrt, Real.sq_sqrt hv]
  refine ⟨trivial, ?_⟩
  field_simp; ring

/-- Kepler's third law and the period (`a > 0`): `n² a³ = µ`, `period · n = 2π` -/
theorem infos_period (mu r a e nu : ℝ) (hmu : 0 < mu) (ha : 0 < a) :
    infosN mu r a e nu ^ 2 * a ^ 3 = mu ∧ infosPeriod mu r a e nu * infosN mu r a e nu = 2 * Real.pi := by
  have h3 : 0 < mu / a ^ 3 := by positivity
  have hn : Real.sqrt (mu / a ^ 3) ≠ 0 := (Real.sqrt_pos.mpr h3).ne'
  simp only [infosN, infosPeriod, powi, sqrt, absR, pi, abs_of_pos ha]
  refine ⟨?_, ?_⟩
  · rw [Real.sq_sqrt h3.le]; field_simp
  · field_simp

/-- apsides: `rp + ra = 2a`, `rp · ra = a · p`, and the speeds at the apsides conserve angular momentum
(`(vp · rp)² = µ p = (va · ra)²`) for `0 ≤ e < 1`, `a > 0` -/
theorem infos_apsides (mu r a e nu : ℝ) (hmu : 0 < mu) (ha : 0 < a) (h0 : 0 ≤ e) (h1 : e < 1) :
    infosPericenter mu r a e nu + infosApocenter mu r a e nu = 2 * a ∧
    infosPericenter mu r a e nu * infosApocenter mu r a e nu = a * (a * (1 - e ^ 2)) ∧
    (infosVp mu r a e nu * infosPericenter mu r a e nu) ^ 2 = mu * (a * (1 - e ^ 2)) ∧
    (infosVa mu r a e nu * infosApocenter mu r a e nu) ^ 2 = mu * (a * (1 - e ^ 2)) := by
  have hm : 0 < 1 - e := by linarith
  have hp : 0 < 1 + e := by linarith
  have hvp : 0 ≤ mu * (2 / (a * (1 - e)) - 1 / a) := by
    have : mu * (2 / (a * (1 - e)) - 1 / a) = mu * (1 + e) / (a * (1 - e)) := by field_simp; ring
    rw [this]; positivity
  have hva : 0 ≤ mu * (2 / (a * (1 + e)) - 1 / a) := by
    have : mu * (2 / (a * (1 + e)) - 1 / a) = mu * (1 - e) / (a * (1 + e)) := by field_simp; ring
    rw [this]; positivity
  simp only [infosPericenter, infosApocenter, infosVp, infosVa, sqrt, mul_pow, Real.sq_sqrt hvp, Real.sq_sqrt hva]
  refine ⟨by ring, by ring, ?_, ?_⟩
  · field_simp; ring
  · field_simp; ring

/-- hyperbolic excess speed and asymptote distance (`a < 0`, `e > 1`): `vinf² = 2·energy`, `dinf = |a| √(e²−1)` -/
theorem infos_hyperbolic (mu r a e nu : ℝ) (hmu : 0 < mu) (ha : a < 0) (h1 : 1 < e) :
    infosVinf mu r a e nu ^ 2 = 2 * infosEnergy mu r a e nu ∧ infosDinf mu r a e nu ^ 2 = a ^ 2 * (e ^ 2 - 1) := by
  have hna : 0 < -a := by linarith
  have h3 : 0 ≤ mu / -a := by positivity
  have he : 0 ≤ 1 - (1 / e) ^ 2 := by
    have : (1 / e) ^ 2 ≤ 1 := by rw [div_pow, one_pow, div_le_one (by positivity)]; nlinarith
    linarith
  simp only [infosVinf, infosEnergy, infosDinf, powi, sqrt, absR, abs_of_neg ha, mul_pow, Real.sq_sqrt h3, Real.sq_sqrt he, sq_abs]
  have hane : a ≠ 0 := ha.ne
  have hene : e ≠ 0 := by linarith
  refine ⟨?_, ?_⟩
  · field_simp
  · field_simp

/-! ## keplerian ↔ cartesian -/

/-- **keplerian → cartesian, definition-truth of the result (partial round trip)**: for `µ p ≥ 0`, `p = a(1−e²) ≠ 0`,
`1 + e cos ν ≠ 0` the state returned by the code has radius `r = p/(1+e cos ν)`, speed given by vis-viva
`v² = µ(2/r − 1/a)`, and angular momentum `r × v = √(µp)·(sin i sin Ω, −sin i cos Ω, cos i)` — i.e. the a, e, i, Ω
that `cartesian → keplerian` reads off (energy, `|h|²/µ`, `h_z/|h|`, `atan2(h_x, −h_y)`) are the ones put in. -/
theorem keplToCart_radius_speed_momentum (mu a e i Ω ω ν x y z vx vy vz : ℝ) (hmp : 0 ≤ mu * (a * (1 - e ^ 2)))
    (ha : a ≠ 0) (he : 1 - e ^ 2 ≠ 0) (hD : 1 + e * Real.cos ν ≠ 0)
    (h : keplToCart mu a e i Ω ω ν = [x, y, z, vx, vy, vz]) :
    let r := a * (1 - e ^ 2) / (1 + e * Real.cos ν)
    let hh := Real.sqrt (mu * (a * (1 - e ^ 2)))
    x ^ 2 + y ^ 2 + z ^ 2 = r ^ 2 ∧ vx ^ 2 + vy ^ 2 + vz ^ 2 = mu * (2 / r - 1 / a) ∧
    y * vz - z * vy = hh * (Real.sin i * Real.sin Ω) ∧ z * vx - x * vz = hh * (-(Real.sin i * Real.cos Ω)) ∧
    x * vy - y * vx = hh * Real.cos i := by
  intro r hh
  have hhh : Real.sqrt (mu * (a * (1 - e ^ 2))) ^ 2 = mu * (a * (1 - e ^ 2)) := Real.sq_sqrt hmp
  simp only [keplToCart, powi, sqrt, cos, sin, List.cons.injEq, and_true] at h
  obtain ⟨rfl, rfl, rfl, rfl, rfl, rfl⟩ := h
  have h1 := Real.sin_sq_add_cos_sq Ω
  have h2 := Real.sin_sq_add_cos_sq i
  have h3 := Real.sin_sq_add_cos_sq (ω + ν)
  have h4 := Real.sin_sq_add_cos_sq ν
  simp only [r]
  change _ ∧ _ ∧ _ = Real.sqrt (mu * (a * (1 - e ^ 2))) * _ ∧ _ = Real.sqrt (mu * (a * (1 - e ^ 2))) * _ ∧ _ = Real.sqrt (mu * (a * (1 - e ^ 2))) * _
  generalize Real.sqrt (mu * (a * (1 - e ^ 2))) = H at *
  generalize Real.cos Ω = cO at *
  generalize Real.sin Ω = sO at *
  generalize Real.cos i = ci at *
  generalize Real.sin i = si at *
  generalize Real.cos (ω + ν) = cu at *
  generalize Real.sin (ω + ν) = su at *
  generalize Real.cos ν = cn at *
  generalize Real.sin ν = sn at *
  refine ⟨?_, ?_, ?_, ?_, ?_⟩
  · field_simp; linear_combination (ci ^ 2 * su ^ 2 + cu ^ 2) * h1 + (su ^ 2) * h2 + (1) * h3
  · field_simp; linear_combination (1 + 2 * cn * e + e ^ 2) * hhh + (H ^ 2 + 2 * H ^ 2 * ci ^ 2 * cn * cu * e ^ 2 * sn * su + 2 * H ^ 2 * ci ^ 2 * cn * cu ^ 2 * e + 2 * H ^ 2 * ci ^ 2 * cn ^ 2 * cu ^ 2 * e ^ 2 + (-1) * H ^ 2 * ci ^ 2 * cn ^ 2 * e ^ 2 + 2 * H ^ 2 * ci ^ 2 * cu * e * sn * su + H ^ 2 * ci ^ 2 * cu ^ 2 + (-1) * H ^ 2 * ci ^ 2 * cu ^ 2 * e ^ 2 + H ^ 2 * ci ^ 2 * e ^ 2 + (-2) * H ^ 2 * cn * cu * e ^ 2 * sn * su + (-2) * H ^ 2 * cn * cu ^ 2 * e + 2 * H ^ 2 * cn * e + (-2) * H ^ 2 * cn ^ 2 * cu ^ 2 * e ^ 2 + H ^ 2 * cn ^ 2 * e ^ 2 + (-2) * H ^ 2 * cu * e * sn * su + (-1) * H ^ 2 * cu ^ 2 + H ^ 2 * cu ^ 2 * e ^ 2) * h1 + (2 * H ^ 2 * cn * cu * e ^ 2 * sn * su + 2 * H ^ 2 * cn * cu ^ 2 * e + H ^ 2 * cn ^ 2 * cu ^ 2 * e ^ 2 + (-1) * H ^ 2 * cn ^ 2 * e ^ 2 * su ^ 2 + 2 * H ^ 2 * cu * e * sn * su + H ^ 2 * cu ^ 2 + H ^ 2 * e ^ 2 * su ^ 2) * h2 + (H ^ 2 * cO ^ 2 + (-1) * H ^ 2 * cO ^ 2 * ci ^ 2 * cn ^ 2 * e ^ 2 + H ^ 2 * cO ^ 2 * ci ^ 2 * e ^ 2 + 2 * H ^ 2 * cO ^ 2 * cn * e + H ^ 2 * cO ^ 2 * cn ^ 2 * e ^ 2 + H ^ 2 * ci ^ 2 * cn ^ 2 * e ^ 2 + (-1) * H ^ 2 * ci ^ 2 * e ^ 2 + H ^ 2 * ci ^ 2 * e ^ 2 * sO ^ 2 * sn ^ 2 + 2 * H ^ 2 * cn * e * sO ^ 2 + (-1) * H ^ 2 * cn ^ 2 * e ^ 2 + H ^ 2 * cn ^ 2 * e ^ 2 * sO ^ 2 + H ^ 2 * e ^ 2 + H ^ 2 * sO ^ 2) * h3 + (H ^ 2 * cO ^ 2 * ci ^ 2 * e ^ 2 * su ^ 2 + H ^ 2 * cO ^ 2 * cu ^ 2 * e ^ 2 + (-1) * H ^ 2 * ci ^ 2 * cu ^ 2 * e ^ 2 * sO ^ 2 + H ^ 2 * ci ^ 2 * e ^ 2 * sO ^ 2 + H ^ 2 * cu ^ 2 * e ^ 2 * sO ^ 2 + H ^ 2 * e ^ 2 * si ^ 2 * su ^ 2) * h4
  · field_simp; linear_combination (H * cn * e * sO * si + H * sO * si) * h3
  · field_simp; linear_combination ((-1) * H * cO * cn * e * si + (-1) * H * cO * si) * h3
  · field_simp; linear_combination (H * ci * cn * e + H * ci * cu ^ 2 + H * ci * su ^ 2) * h1 + (H * cO ^ 2 * ci * cn * e + H * ci + H * ci * cn * e * sO ^ 2) * h3


/-- more definition-truth of `keplerian → cartesian`: `r·v = √(µp)·e sin ν·r/p`, `z = r sin i sin(ω+ν)` and the
component of the position along the node line `x cos Ω + y sin Ω = r cos(ω+ν)` -/
theorem keplToCart_dot_node (mu a e i Ω ω ν x y z vx vy vz : ℝ)
    (ha : a ≠ 0) (he : 1 - e ^ 2 ≠ 0) (hD : 1 + e * Real.cos ν ≠ 0)
    (h : keplToCart mu a e i Ω ω ν = [x, y, z, vx, vy, vz]) :
    let r := a * (1 - e ^ 2) / (1 + e * Real.cos ν)
    let hh := Real.sqrt (mu * (a * (1 - e ^ 2)))
    vx * x + vy * y + vz * z = hh * (e * Real.sin ν * r / (a * (1 - e ^ 2))) ∧
    z = r * (Real.sin i * Real.sin (ω + ν)) ∧ x * Real.cos Ω + y * Real.sin Ω = r * Real.cos (ω + ν) := by
  intro r hh
  simp only [keplToCart, powi, sqrt, cos, sin, List.cons.injEq, and_true] at h
  obtain ⟨rfl, rfl, rfl, rfl, rfl, rfl⟩ := h
  have h1 := Real.sin_sq_add_cos_sq Ω
  have h2 := Real.sin_sq_add_cos_sq i
  have h3 := Real.sin_sq_add_cos_sq (ω + ν)
  simp only [r]
  change _ = Real.sqrt (mu * (a * (1 - e ^ 2))) * _ ∧ _ ∧ _
  generalize Real.sqrt (mu * (a * (1 - e ^ 2))) = H at *
  generalize Real.cos Ω = cO at *
  generalize Real.sin Ω = sO at *
  generalize Real.cos i = ci at *
  generalize Real.sin i = si at *
  generalize Real.cos (ω + ν) = cu at *
  generalize Real.sin (ω + ν) = su at *
  generalize Real.cos ν = cn at *
  generalize Real.sin ν = sn at *
  refine ⟨?_, ?_, ?_⟩
  · field_simp; linear_combination (H * ci ^ 2 * cn * cu * e * su + H * ci ^ 2 * cu * su + (-1) * H * ci ^ 2 * cu ^ 2 * e * sn + H * ci ^ 2 * e * sn + (-1) * H * cn * cu * e * su + (-1) * H * cu * su + H * cu ^ 2 * e * sn) * h1 + (H * cn * cu * e * su + H * cu * su + H * e * sn * su ^ 2) * h2 + (H * cO ^ 2 * ci ^ 2 * e * sn + H * ci ^ 2 * e * sO ^ 2 * sn + (-1) * H * ci ^ 2 * e * sn + H * e * sn) * h3
  · ring
  · field_simp; linear_combination (cu) * h1


/-- **keplerian → cartesian → keplerian, in full** (`µ > 0`, `a ≠ 0`, `e > 0`, `p = a(1−e²) > 0`, `1 + e cos ν > 0`,
`0 < i < π`; ellipses and hyperbolas alike): a, e, i are recovered exactly, Ω, ω, ν as the same points of the circle and
exactly when they lie in `[0, 2π)` — the range `cartesian → keplerian` itself produces. -/
theorem kepl_cart_kepl (mu a e i Ω ω ν : ℝ) (hmu : 0 < mu) (ha : a ≠ 0) (he0 : 0 < e)
    (hp : 0 < a * (1 - e ^ 2)) (hD : 0 < 1 + e * Real.cos ν) (hi : 0 < i ∧ i < Real.pi) :
    ∃ Ω' ω' ν', app6 cartToKepl mu (keplToCart mu a e i Ω ω ν) = [a, e, i, Ω', ω', ν'] ∧
      AngEq Ω' Ω ∧ AngEq ω' ω ∧ AngEq ν' ν ∧
      (0 ≤ Ω ∧ Ω < 2 * Real.pi → Ω' = Ω) ∧ (0 ≤ ω ∧ ω < 2 * Real.pi → ω' = ω) ∧ (0 ≤ ν ∧ ν < 2 * Real.pi → ν' = ν) := by
  have he : 1 - e ^ 2 ≠ 0 := by rintro h; rw [h] at hp; simp at hp
  have hmp : 0 < mu * (a * (1 - e ^ 2)) := by positivity
  obtain ⟨x, y, z, vx, vy, vz, hk⟩ : ∃ x y z vx vy vz, keplToCart mu a e i Ω ω ν = [x, y, z, vx, vy, vz] := by
    simp only [keplToCart]; exact ⟨_, _, _, _, _, _, rfl⟩
  obtain ⟨f1, f2, f3, f4, f5⟩ := keplToCart_radius_speed_momentum mu a e i Ω ω ν x y z vx vy vz hmp.le ha he hD.ne' hk
  obtain ⟨f6, f7, f8⟩ := keplToCart_dot_node mu a e i Ω ω ν x y z vx vy vz ha he hD.ne' hk
  have hH : 0 < Real.sqrt (mu * (a * (1 - e ^ 2))) := Real.sqrt_pos.mpr hmp
  have hHH : Real.sqrt (mu * (a * (1 - e ^ 2))) ^ 2 = mu * (a * (1 - e ^ 2)) := Real.sq_sqrt hmp.le
  have hr : 0 < a * (1 - e ^ 2) / (1 + e * Real.cos ν) := by positivity
  have hrD : a * (1 - e ^ 2) / (1 + e * Real.cos ν) * (1 + e * Real.cos ν) = a * (1 - e ^ 2) := by field_simp
  have hsi : 0 < Real.sin i := Real.sin_pos_of_pos_of_lt_pi hi.1 hi.2
  have h1 := Real.sin_sq_add_cos_sq Ω
  have h2 := Real.sin_sq_add_cos_sq i
  have hsp : Real.sqrt (a * (1 - e ^ 2) / mu) * Real.sqrt (mu * (a * (1 - e ^ 2))) = a * (1 - e ^ 2) := by
    rw [← Real.sqrt_mul (by positivity)]
    have : a * (1 - e ^ 2) / mu * (mu * (a * (1 - e ^ 2))) = (a * (1 - e ^ 2)) ^ 2 := by field_simp
    rw [this, Real.sqrt_sq hp.le]
  generalize Real.sqrt (mu * (a * (1 - e ^ 2))) = H at *
  generalize a * (1 - e ^ 2) / (1 + e * Real.cos ν) = r at *
  have hhn : Real.sqrt ((H * (Real.sin i * Real.sin Ω)) ^ 2 + (H * (-(Real.sin i * Real.cos Ω))) ^ 2 + (H * Real.cos i) ^ 2) = H := by
    have : (H * (Real.sin i * Real.sin Ω)) ^ 2 + (H * (-(Real.sin i * Real.cos Ω))) ^ 2 + (H * Real.cos i) ^ 2 = H ^ 2 := by
      linear_combination (H ^ 2 * Real.sin i ^ 2) * h1 + (H ^ 2) * h2
    rw [this, Real.sqrt_sq hH.le]
  have hvv : 0 ≤ mu * (2 / r - 1 / a) := by rw [← f2]; positivity
  have hK : mu * (2 / r - 1 / a) / 2 - mu / r = -mu / (2 * a) := by field_simp; ring
  have ha' : -mu / (2 * (-mu / (2 * a))) = a := by field_simp
  have he' : Real.sqrt (1 - H ^ 2 / (a * mu)) = e := by
    have : 1 - H ^ 2 / (a * mu) = e ^ 2 := by rw [hHH]; field_simp; ring
    rw [this, Real.sqrt_sq he0.le]
  have hi' : Real.arccos (H * Real.cos i / H) = i := by
    rw [mul_div_cancel_left₀ _ hH.ne', Real.arccos_cos hi.1.le hi.2.le]
  have hneg : -(H * -(Real.sin i * Real.cos Ω)) = H * Real.sin i * Real.cos Ω := by ring
  have hpos' : H * (Real.sin i * Real.sin Ω) = H * Real.sin i * Real.sin Ω := by ring
  have aΩ : AngEq (fmod (atan2 (H * (Real.sin i * Real.sin Ω)) (H * Real.sin i * Real.cos Ω)) (2 * pi)) Ω := by
    rw [hpos']; exact (fmod_two_pi_angEq _).trans (atan2_scaled (by positivity))
  rw [hk]
  simp only [app6, cartToKepl, powi, sqrt, acos, cos, sin, f1, f3, f4, f5, f6, hhn, Real.sqrt_sq hr.le, Real.sq_sqrt (show (0:ℝ) ≤ vx ^ 2 + vy ^ 2 + vz ^ 2 by positivity), f2, Real.sq_sqrt hvv, hK, ha', he', hi', hneg]
  simp only [aΩ.1, aΩ.2, f8]
  rw [f7]
  have harg1 : Real.sqrt (a * (1 - e ^ 2) / mu) * (H * (e * Real.sin ν * r / (a * (1 - e ^ 2)))) = r * e * Real.sin ν := by
    have : Real.sqrt (a * (1 - e ^ 2) / mu) * (H * (e * Real.sin ν * r / (a * (1 - e ^ 2))))
        = (Real.sqrt (a * (1 - e ^ 2) / mu) * H) * (e * Real.sin ν * r / (a * (1 - e ^ 2))) := by ring
    rw [this, hsp]; field_simp
  have harg2 : a * (1 - e ^ 2) - r = r * e * Real.cos ν := by rw [← hrD]; ring
  have harg3 : r * (Real.sin i * Real.sin (ω + ν)) / Real.sin i = r * Real.sin (ω + ν) := by field_simp
  rw [harg1, harg2, harg3]
  have aν : AngEq (fmod (atan2 (r * e * Real.sin ν) (r * e * Real.cos ν)) (2 * pi)) ν :=
    (fmod_two_pi_angEq _).trans (atan2_scaled (by positivity))
  have aω : AngEq (fmod (atan2 (r * Real.sin (ω + ν)) (r * Real.cos (ω + ν)) -
      fmod (atan2 (r * e * Real.sin ν) (r * e * Real.cos ν)) (2 * pi)) (2 * pi)) ω := by
    have := (fmod_two_pi_angEq (atan2 (r * Real.sin (ω + ν)) (r * Real.cos (ω + ν)) -
      fmod (atan2 (r * e * Real.sin ν) (r * e * Real.cos ν)) (2 * pi))).trans ((atan2_scaled (w := ω + ν) hr).sub aν)
    simpa using this
  refine ⟨_, _, _, rfl, aΩ, aω, aν, ?_, ?_, ?_⟩
  · intro h; exact AngEq.eq_of_mem_Ico (lo := 0) aΩ (by simpa using fmod_mem (x := _) two_pi_pos) (by simpa using h)
  · intro h; exact AngEq.eq_of_mem_Ico (lo := 0) aω (by simpa using fmod_mem (x := _) two_pi_pos) (by simpa using h)
  · intro h; exact AngEq.eq_of_mem_Ico (lo := 0) aν (by simpa using fmod_mem (x := _) two_pi_pos) (by simpa using h)

/-- **cartesian → keplerian → cartesian is the identity on every state that is the cartesian view of keplerian elements
in the domain** (position and velocity, all six numbers, exactly): by `kepl_cart_kepl` the elements read off are the
original ones up to the circle relation, which `keplerian → cartesian` does not see.
Not proved: that *every* cartesian state with `h ≠ 0`, `sin i ≠ 0`, `e ≠ 0` is such a view (existence of elements). -/
theorem cart_kepl_cart_of_image (mu a e i Ω ω ν : ℝ) (hmu : 0 < mu) (ha : a ≠ 0) (he0 : 0 < e)
    (hp : 0 < a * (1 - e ^ 2)) (hD : 0 < 1 + e * Real.cos ν) (hi : 0 < i ∧ i < Real.pi) :
    app6 keplToCart mu (app6 cartToKepl mu (keplToCart mu a e i Ω ω ν)) = keplToCart mu a e i Ω ω ν := by
  obtain ⟨Ω', ω', ν', heq, aΩ, aω, aν, _⟩ := kepl_cart_kepl mu a e i Ω ω ν hmu ha he0 hp hD hi
  rw [heq]
  exact keplToCart_respects_angEq mu a e i Ω ω ν Ω' ω' ν' aΩ aω aν


/-! ## The whole walk -/

/-- every link of a routed path round-trips exactly on the state the walk actually visits there
(`(forward method, backward method)` pairs, in the order of the walk) -/
def RoundTrips (fuel : Nat) (mu : ℝ) : List (String × String) → List ℝ → Prop
  | [], _ => True
  | l :: rest, c => ∀ t, step fuel mu l.1 c = some t → step fuel mu l.2 t = some c ∧ RoundTrips fuel mu rest t

theorem walk_append (fuel : Nat) (mu : ℝ) (xs ys : List String) (c : List ℝ) :
    walk fuel mu (xs ++ ys) c = (walk fuel mu xs c).bind (walk fuel mu ys) := by
  induction xs generalizing c with
  | nil => simp [walk]
  | cons x xs ih =>
    simp only [List.cons_append, walk]
    cases step fuel mu x c with
    | none => simp
    | some t => simp [ih]

/-- **walk_roundtrip (exact form), one statement over the routed path**: converting along any chain of links and
back along the reversed chain of the inverse methods returns the start state, provided each link round-trips on the
state visited there — by induction along the path, from per-link facts. (The per-link theorems of this file supply
`RoundTrips` wherever the round trip is an equality of numbers; see `walk_roundtrip_cyl_sph` for an instance.
For links that return angles only as the same points of the circle the composition needs every edge to respect
`AngEq`, proved here for `keplerian → cartesian/circular` only — general statement open.) -/
theorem walk_roundtrip_exact (fuel : Nat) (mu : ℝ) (links : List (String × String)) (c d : List ℝ)
    (hrt : RoundTrips fuel mu links c) (hw : walk fuel mu (links.map Prod.fst) c = some d) :
    walk fuel mu ((links.map Prod.snd).reverse) d = some c := by
  induction links generalizing c with
  | nil => simp only [List.map_nil, walk] at hw; simp [walk, ← Option.some.inj hw]
  | cons l rest ih =>
    simp only [List.map_cons, walk] at hw
    cases hs : step fuel mu l.1 c with
    | none => rw [hs] at hw; simp at hw
    | some t =>
      rw [hs] at hw
      simp only [Option.bind_some] at hw
      obtain ⟨hb, hrest⟩ := hrt t hs
      have := ih t hrest hw
      simp only [List.map_cons, List.reverse_cons, walk_append, this, Option.bind_some, walk, hb]

/-- instance: cylindrical → cartesian → spherical and back (`r > 0`, `-π < θ ≤ π`): all six cylindrical numbers are
returned exactly, for every µ, height and rates -/
theorem walk_roundtrip_cyl_sph (fuel : Nat) (mu r θ z rd θd vz : ℝ) (hr : 0 < r) (hθ : -Real.pi < θ ∧ θ ≤ Real.pi) (d : List ℝ)
    (hw : walk fuel mu ["cylindrical_to_cartesian", "cartesian_to_spherical"] [r, θ, z, rd, θd, vz] = some d) :
    walk fuel mu ["spherical_to_cartesian", "cartesian_to_cylindrical"] d = some [r, θ, z, rd, θd, vz] := by
  have key := walk_roundtrip_exact fuel mu
    [("cylindrical_to_cartesian", "cartesian_to_cylindrical"), ("cartesian_to_spherical", "spherical_to_cartesian")]
    [r, θ, z, rd, θd, vz] d ?_ (by simpa using hw)
  · simpa using key
  · intro t ht
    obtain ⟨θ', h1, _, h3⟩ := cyl_cart_cyl mu r θ z rd θd vz hr
    rw [h3 hθ] at h1
    have hne : ("cylindrical_to_cartesian" : String) ≠ "keplerian_mean_to_keplerian_eccentric" := by decide
    have hne2 : ("cartesian_to_cylindrical" : String) ≠ "keplerian_mean_to_keplerian_eccentric" := by decide
    simp only [step, if_neg hne, edgeByName, Option.map_some, app6, Option.some.injEq] at ht
    subst ht
    refine ⟨?_, ?_⟩
    · simp only [step, if_neg hne2, edgeByName, Option.map_some]; rw [h1]
    · intro t2 ht2
      refine ⟨?_, trivial⟩
      have hne3 : ("cartesian_to_spherical" : String) ≠ "keplerian_mean_to_keplerian_eccentric" := by decide
      have hne4 : ("spherical_to_cartesian" : String) ≠ "keplerian_mean_to_keplerian_eccentric" := by decide
      have hxy : (r * Real.cos θ) ^ 2 + (r * Real.sin θ) ^ 2 ≠ 0 := by
        have : (r * Real.cos θ) ^ 2 + (r * Real.sin θ) ^ 2 = r ^ 2 := by
          linear_combination (r ^ 2) * Real.sin_sq_add_cos_sq θ
        rw [this]; positivity
      simp only [cylToCart, cos, sin] at ht2 ⊢
      simp only [step, if_neg hne3, edgeByName, Option.map_some, app6, Option.some.injEq] at ht2
      subst ht2
      simp only [step, if_neg hne4, edgeByName, Option.map_some]
      rw [cart_sph_cart mu _ _ _ _ _ _ hxy]

/-! ## Non-vacuity: the hypothesis sets above are met by concrete, non-trivial values -/

/-- off the z axis (cylindrical / spherical theorems) -/
example : ((3 : ℝ) ^ 2 + (-4) ^ 2 ≠ 0) := by norm_num
/-- ellipse `e = 1/2`, any anomaly (eccentric-anomaly and Kepler theorems) -/
example : (0 : ℝ) ≤ 1 / 2 ∧ (1 / 2 : ℝ) < 1 := by norm_num
/-- hyperbola `e = 2` at perigee: `1 + e cos ν > 0` -/
example : (1 : ℝ) < 2 ∧ (0 : ℝ) < 1 + 2 * Real.cos 0 := by norm_num
/-- `kepl_cart_kepl` / `cart_kepl_cart_of_image` / `infos_fpa_components_unit`: µ = 1, a = 1, e = 1/2, i = 1, ν = 0 -/
example : (0 : ℝ) < 1 * (1 - (1 / 2) ^ 2) ∧ (0 : ℝ) < 1 + 1 / 2 * Real.cos 0 ∧ ((0 : ℝ) < 1 ∧ (1 : ℝ) < Real.pi) := by
  refine ⟨by norm_num, by norm_num, by norm_num, by linarith [Real.pi_gt_three]⟩
/-- the same for a hyperbola: a = -1, e = 2 (`p = a(1 − e²) = 3 > 0`) -/
example : (0 : ℝ) < (-1) * (1 - 2 ^ 2) := by norm_num
/-- the Kepler loop does return values: `M2E(0, 0) = 0` after one test of the exit condition -/
example : m2e 1 0 0 = some 0 := by
  have hfl : ⌊(0 + Real.pi) / (2 * Real.pi)⌋ = 0 := by
    rw [Int.floor_eq_iff]; have := Real.pi_pos
    constructor
    · simp; positivity
    · simp; rw [div_lt_one (by positivity)]; linarith
  simp [m2e, m2eLoop, m2eStart, m2eNext, m2eContinue, m2eTol, m2eReduced, m2eExtra, m2eFinish, floorR, hfl]
  norm_num

end BeyondVerif.C01
