import BeyondVerif.Lemmas.Date
import BeyondVerif.Lemmas.DateRange
import BeyondVerif.Lemmas.EopLookup
import BeyondVerif.Model.EopFile
import BeyondVerif.Generated.TdbR

/-!
# C03 — time scales: one instant, exact offsets, lawful date arithmetic, date ranges

Theorems about `Model/Date.lean` (integer ticks of 10⁻⁷ s) instantiated with the configuration that is
regenerated from `/repo` on every run (`Model/DateCfg.lean`: scale graph in execution order, the
`_scale_*_minus_*` methods read from the AST, the IERS tables of `tests/data/pole`) and about the TDB−TT
formula translated from the AST (`Generated/TdbR.lean`).

Clauses of the property and where they are:
* offsets between scales — `offset_defined`, `offset_TT_TAI`, `offset_TAI_GPS`, `offset_TAI_UTC`, `offset_UT1_UTC`,
  `offset_TDB_TT`, `tdb_tt_bound`, `offset_antisymm`, `offset_compose`, `leap_table_facts`
* one instant — `normalise_spec`, `changeScale_instant` (every scale pair: the instant moves only by rounding
  ≤ 1.5 µs plus the disagreement of the EOP records), `changeScale_same_instant` (exact, uniform scales),
  `changeScale_roundtrip` (same clock reading), `changeScale_instant_bound` / `_half` (UT1: 1.5 µs / 0.5 µs when both
  dates carry the same EOP record), `mk_record_of_utc_day`, `records_agree` (when they do),
  `changeScale_instant_bound_partial` (what is still missing; see there)
* missing data policy — `eop_policy_spec`, `eop_lookup_day`
* "as tabulated by IERS for that day" (the lookups at and between the tables' own abscissae, for every sorted table and every
  argument) — `tai_utc_lookup_spec`, `tai_utc_at_entry`, `tai_utc_between`, `tai_utc_after_last`, `tai_utc_before_first`,
  `last_next_spec`, `tai_utc_of_day`, `eop_record_of_day`, `eop_record_spec`, and on the regenerated `tai-utc.dat`: `leap_table_lookup`,
  `leap_table_is_parsed_file`
* arithmetic — `add_clock` (the clock reading moves by exactly t, every scale), `add_sub`, `add_sub_const_scales`,
  `add_assoc_clock`, `add_assoc_instant`
* ordering / equality / hash — `cmp_consistent`, `eq_iff_sub_zero`, `cmp_exact_us`, `label_irrelevant`
* ranges — `range_iter_is_progression`, `range_len_eq_length_iter`, `range_mem_of_iter`, `range_make_spec`

History: until /repo commit fc514f7 the EOP record was looked up by the day number of the label scale and a conversion
to UT1 near midnight moved the instant by a millisecond (old witness `label_day_changes_instant`); until d8c716a the
comparisons used the double `_mjd`.  The model follows the fixed code: `eopFor` (second lookup by UTC day,
`mk_record_of_utc_day`), comparisons and hash on `_datetime` (`cmp_consistent`, `eq_iff_sub_zero`).
Still false of the code (see `Witness/C03.lean`): same instant within 1 µs for conversions to/from UT1 when the UTC
reading lies within one day's change of UT1−UTC (a few ms) of UTC midnight — UT1−UTC is a step function of the UTC day.
-/
namespace BeyondVerif.C03
open BeyondVerif.Date BeyondVerif.Generated

/-- index of a scale name in the regenerated name list -/
def ix (s : String) : Nat := scalesNames.idxOf s

def allIx : List Nat := List.range scalesN
/-- the uniform scales -/
def uniformIx : List Nat := [ix "UTC", ix "TAI", ix "TT", ix "GPS"]
/-- the scales at a constant offset from the reference scale TAI -/
def constIx : List Nat := [ix "TAI", ix "TT", ix "GPS"]

/-! ## offsets between scales -/

def chkNeg (a b : Nat) : Bool :=
  match coefAB cfg a b, coefAB cfg b a with
  | some p, some q => decide (q = p.neg)
  | _, _ => false

def chkAdd (a b c : Nat) : Bool :=
  match coefAB cfg a b, coefAB cfg b c, coefAB cfg a c with
  | some p, some q, some r => decide (r = p.add q)
  | _, _, _ => false

def chkUniform (a b : Nat) : Bool :=
  match coefAB cfg a b with
  | some p => decide (p.ut1 = 0 ∧ p.tdb = 0 ∧ p.c % 10 = 0)
  | none => false

def chkNoTdb (a b : Nat) : Bool :=
  match coefAB cfg a b with
  | some p => decide (p.tdb = 0)
  | none => false

def chkConst (a : Nat) : Bool :=
  match coefAB cfg a cfg.ref with
  | some p => decide (p.tai = 0 ∧ p.ut1 = 0 ∧ p.tdb = 0)
  | none => false

/-- every ordered pair of the six scales has a defined conversion (no `DateError`, no `ValueError`), the signed sum of
a conversion there and back is zero, and sums compose along any intermediate scale — as identities of the
coefficient vectors (constant, TAI−UTC, UT1−UTC, TDB−TT) computed from the regenerated graph and method table -/
theorem coef_table :
    (∀ a ∈ allIx, ∀ b ∈ allIx, ∃ p, coefAB cfg a b = some p ∧ coefAB cfg b a = some p.neg) ∧
    (∀ a ∈ allIx, ∀ b ∈ allIx, ∀ c ∈ allIx, ∃ p q, coefAB cfg a b = some p ∧ coefAB cfg b c = some q ∧ coefAB cfg a c = some (p.add q)) := by
  have h1 : ∀ a ∈ allIx, ∀ b ∈ allIx, chkNeg a b = true := by decide
  have h2 : ∀ a ∈ allIx, ∀ b ∈ allIx, ∀ c ∈ allIx, chkAdd a b c = true := by decide
  constructor
  · intro a ha b hb
    have := h1 a ha b hb
    unfold chkNeg at this
    split at this
    · next p q hp hq => exact ⟨p, hp, by rw [hq, of_decide_eq_true this]⟩
    · cases this
  · intro a ha b hb c hc
    have := h2 a ha b hb c hc
    unfold chkAdd at this
    split at this
    · next p q r hp hq hr => exact ⟨p, q, hp, hq, by rw [hr, of_decide_eq_true this]⟩
    · cases this

/-- **offsets are defined for all 36 ordered pairs**, whatever the EOP record -/
theorem offset_defined (env : Env) (num : Int) (eop : Eop) : ∀ a ∈ allIx, ∀ b ∈ allIx,
    ∃ v, offset cfg env a b num eop = .ok v := by
  intro a ha b hb
  obtain ⟨p, hp, _⟩ := coef_table.1 a ha b hb
  exact ⟨_, offset_eq_eval hp env num eop⟩

/-- **offset there = − offset back** (same `mjd`, same EOP record) -/
theorem offset_antisymm (env : Env) (num : Int) (eop : Eop) : ∀ a ∈ allIx, ∀ b ∈ allIx, ∀ x y,
    offset cfg env a b num eop = .ok x → offset cfg env b a num eop = .ok y → y = -x := by
  intro a ha b hb x y hx hy
  obtain ⟨p, hp, hq⟩ := coef_table.1 a ha b hb
  rw [offset_eq_eval hp] at hx
  rw [offset_eq_eval hq] at hy
  cases hx; cases hy
  exact Coef.eval_neg _ _ _ _

/-- **offsets compose**: a→c = a→b + b→c for every triple of scales -/
theorem offset_compose (env : Env) (num : Int) (eop : Eop) : ∀ a ∈ allIx, ∀ b ∈ allIx, ∀ c ∈ allIx, ∀ x y z,
    offset cfg env a b num eop = .ok x → offset cfg env b c num eop = .ok y → offset cfg env a c num eop = .ok z →
    z = x + y := by
  intro a ha b hb c hc x y z hx hy hz
  obtain ⟨p, q, hp, hq, hr⟩ := coef_table.2 a ha b hb c hc
  rw [offset_eq_eval hp] at hx
  rw [offset_eq_eval hq] at hy
  rw [offset_eq_eval hr] at hz
  cases hx; cases hy; cases hz
  exact Coef.eval_add _ _ _ _ _

example : ix "TAI" ∈ allIx ∧ ix "UT1" ∈ allIx ∧ ix "TDB" ∈ allIx := by decide

/-- **TT − TAI = 32.184 s exactly** (321 840 000 ticks), for every date and EOP record -/
theorem offset_TT_TAI (env : Env) (num : Int) (eop : Eop) :
    offset cfg env (ix "TAI") (ix "TT") num eop = .ok 321840000 := by
  rw [offset_eq_eval (p := ⟨321840000, 0, 0, 0⟩) (by decide)]; simp [Coef.eval]

/-- **TAI − GPS = 19 s exactly** -/
theorem offset_TAI_GPS (env : Env) (num : Int) (eop : Eop) :
    offset cfg env (ix "GPS") (ix "TAI") num eop = .ok 190000000 := by
  rw [offset_eq_eval (p := ⟨190000000, 0, 0, 0⟩) (by decide)]; simp [Coef.eval]

/-- **TAI − UTC is the `tai_utc` column of the date's EOP record** -/
theorem offset_TAI_UTC (env : Env) (num : Int) (eop : Eop) :
    offset cfg env (ix "UTC") (ix "TAI") num eop = .ok eop.taiUtc := by
  rw [offset_eq_eval (p := ⟨0, 1, 0, 0⟩) (by decide)]; simp [Coef.eval]

/-- **UT1 − UTC is the `ut1_utc` column of the date's EOP record** -/
theorem offset_UT1_UTC (env : Env) (num : Int) (eop : Eop) :
    offset cfg env (ix "UTC") (ix "UT1") num eop = .ok eop.ut1Utc := by
  rw [offset_eq_eval (p := ⟨0, 0, 1, 0⟩) (by decide)]; simp [Coef.eval]

/-- **TDB − TT is the periodic term** evaluated at the `mjd` argument -/
theorem offset_TDB_TT (env : Env) (num : Int) (eop : Eop) :
    offset cfg env (ix "TT") (ix "TDB") num eop = .ok (env.tdb num) := by
  rw [offset_eq_eval (p := ⟨0, 0, 0, 1⟩) (by decide)]; simp [Coef.eval]

/-- a composite example: UT1 → TDB passes UTC, TAI, TT -/
example (env : Env) (num : Int) (eop : Eop) :
    offset cfg env (ix "UT1") (ix "TDB") num eop = .ok (321840000 + eop.taiUtc - eop.ut1Utc + env.tdb num) := by
  rw [offset_eq_eval (p := ⟨321840000, 1, -1, 1⟩) (by decide)]; simp [Coef.eval]; ring

/-- **|TDB − TT| < 1.7 ms for every date** — about the formula translated from `Timescale._scale_tdb_minus_tt` -/
theorem tdb_tt_bound (mjd : ℝ) : |R.tdbMinusTt mjd| < 0.0017 := by
  unfold R.tdbMinusTt
  simp only [NumReal.sin]
  set a := Real.sin ((357.5277233 + 35999.05034 * R.julianCentury (mjd + 2400000.5)) * NumReal.pi / 180) with ha
  set b := Real.sin ((246.11 + 0.90251792 * (mjd + 2400000.5 - 2451545.0)) * NumReal.pi / 180) with hb
  have h1 := abs_le.mp (Real.abs_sin_le_one ((357.5277233 + 35999.05034 * R.julianCentury (mjd + 2400000.5)) * NumReal.pi / 180))
  have h2 := abs_le.mp (Real.abs_sin_le_one ((246.11 + 0.90251792 * (mjd + 2400000.5 - 2451545.0)) * NumReal.pi / 180))
  rw [abs_lt]
  constructor <;> nlinarith [h1.1, h1.2, h2.1, h2.2]

/-- facts about the regenerated `tai-utc.dat`: entries in ascending order of date (so the reversed scan returns the
entry in force), whole numbers of microseconds, and from 1972 (MJD 41317) on whole seconds growing by exactly 1 s -/
theorem leap_table_facts :
    (leapTable.map (·.1)).Pairwise (· < ·) ∧ (∀ e ∈ leapTable, e.2 % 10 = 0) ∧
    (∀ e ∈ leapTable, 41317 ≤ e.1 → e.2 % 10000000 = 0) ∧
    ((leapTable.filter (fun e => decide (41317 ≤ e.1))).map (·.2)).IsChain (fun a b => b = a + 10000000) := by
  refine ⟨by decide, by decide, by decide, by decide⟩

/-! ## the constructor and the instant -/

/-- **normalise_spec**: the constructor's `//` and `%` keep the instant and put the seconds of day in range -/
theorem normalise_spec (d s off : Int) :
    0 ≤ (normalise d s off).2 ∧ (normalise d s off).2 < D ∧
    (normalise d s off).1 * D + (normalise d s off).2 = d * D + s + off := by
  simp only [normalise, D]
  omega

example : normalise 57000 863990000000 370000000 = (57001, 360000000) := by decide

/-- `_convert_to_scale` inverts the constructor on clock readings: `Date(d, s)` with `0 ≤ s < 86400 s` shows `(d, s)` again -/
theorem toScale_mk {env : Env} {sc : Nat} {d s : Int} {x : Date} (h : mk cfg env sc d s = .ok x) (h0 : 0 ≤ s) (h1 : s < D) :
    x.toScale = (d, s) := by
  obtain ⟨hw, _, hi, _⟩ := mk_spec h
  have := toScale_spec x hw.s_nonneg hw.s_lt
  have e : x.toScale = (x.toScale.1, x.toScale.2) := rfl
  rw [e]
  simp only [D] at *
  congr 1 <;> omega

/-- the clock reading of a date in its own scale, in ticks -/
def clock (x : Date) : Int := x.inst - x.off

/-- **change_scale, every pair of scales**: the new date carries the requested scale, and its instant differs from the
original one by at most 1.5 µs of rounding (`timedelta` rounds `_s`, `_offset` and the offset separately) plus
`drift`, the disagreement between the offsets of the two dates' own EOP records / TDB terms -/
theorem changeScale_instant {env : Env} {x y : Date} {new : Nat} (_hx : WF cfg env x)
    (h : changeScale cfg env x new = .ok y) :
    ∃ off, offset cfg env x.scale new x.inst x.eop = .ok off ∧ y.scale = new ∧ WF cfg env y ∧
      -15 ≤ y.inst - x.inst - (y.off + off - x.off) ∧ y.inst - x.inst - (y.off + off - x.off) ≤ 15 := by
  unfold changeScale at h
  split at h
  · cases h
  · next off ho =>
    obtain ⟨hw, hs, hi⟩ := ofDatetime_spec h
    refine ⟨off, ho, hs, hw, ?_⟩
    have a := roundUs_bound x.s
    have b := roundUs_bound x.off
    have c := roundUs_bound off
    simp only [Date.datetime, Date.datetimeRef, Date.inst, DUS, D] at *
    omega

/-- sharper: when the source date's clock reading is a whole number of microseconds (it always is when the date was
built from a `datetime`) and its offset is not on a rounding tie, only the rounding of the new offset remains: 0.5 µs -/
theorem changeScale_instant_half {env : Env} {x y : Date} {new : Nat} (_hx : WF cfg env x)
    (hus : (clock x) % 10 = 0) (htie : x.off % 10 ≠ 5)
    (h : changeScale cfg env x new = .ok y) :
    ∃ off, offset cfg env x.scale new x.inst x.eop = .ok off ∧
      -5 ≤ y.inst - x.inst - (y.off + off - x.off) ∧ y.inst - x.inst - (y.off + off - x.off) ≤ 5 := by
  unfold changeScale at h
  split at h
  · cases h
  · next off ho =>
    obtain ⟨hw, hs, hi⟩ := ofDatetime_spec h
    refine ⟨off, ho, ?_⟩
    have c := roundUs_bound off
    have hsh : (x.s - x.off) % 10 = 0 := by
      simp only [clock, Date.inst, D] at hus
      omega
    have e := roundUs_shift hsh htie
    simp only [Date.datetime, Date.datetimeRef, Date.inst, DUS, D] at *
    omega

/-- the offset of a uniform scale to another uniform scale involves neither UT1−UTC nor TDB−TT and its constant is a
whole number of microseconds -/
theorem uniform_coef : ∀ a ∈ uniformIx, ∀ b ∈ uniformIx, ∃ p, coefAB cfg a b = some p ∧ p.ut1 = 0 ∧ p.tdb = 0 ∧ p.c % 10 = 0 := by
  have h : ∀ a ∈ uniformIx, ∀ b ∈ uniformIx, chkUniform a b = true := by decide
  intro a ha b hb
  have := h a ha b hb
  unfold chkUniform at this
  split at this
  · next p hp => exact ⟨p, hp, of_decide_eq_true this⟩
  · cases this

theorem uniform_sub_all : ∀ a ∈ uniformIx, a ∈ allIx := by decide
theorem ref_uniform : cfg.ref ∈ uniformIx := by decide

/-- **same instant, exactly, between UTC, TAI, TT and GPS**: a date whose `_s` is a whole number of microseconds,
converted between uniform scales, is the same instant — provided the new date's EOP record has the same TAI−UTC
(no leap second between the two label days; the property excludes the 2-minute windows) -/
theorem changeScale_same_instant {env : Env} {x y : Date} {new : Nat} (hx : WF cfg env x)
    (hsc : x.scale ∈ uniformIx) (hnew : new ∈ uniformIx)
    (hus : x.s % 10 = 0) (htai : x.eop.taiUtc % 10 = 0)
    (h : changeScale cfg env x new = .ok y) (hleap : y.eop.taiUtc = x.eop.taiUtc) :
    y.inst = x.inst ∧ y.scale = new := by
  obtain ⟨off, ho, hs, hw, _, _⟩ := changeScale_instant hx h
  obtain ⟨n1, hxo⟩ := hx.off_eq
  obtain ⟨n2, hyo⟩ := hw.off_eq
  rw [hs] at hyo
  -- the three offsets as linear forms
  obtain ⟨p, q, hp, hq, hr⟩ := coef_table.2 _ (uniform_sub_all _ hsc) _ (uniform_sub_all _ hnew) _ (uniform_sub_all _ ref_uniform)
  obtain ⟨p', hp', pu, pt, pc⟩ := uniform_coef _ hsc _ hnew
  obtain ⟨q', hq', qu, qt, qc⟩ := uniform_coef _ hnew _ ref_uniform
  rw [hp] at hp'; cases hp'
  rw [hq] at hq'; cases hq'
  rw [offset_eq_eval hp] at ho
  rw [offset_eq_eval hq] at hyo
  rw [offset_eq_eval hr] at hxo
  have ho := Except.ok.inj ho
  have hyo := Except.ok.inj hyo
  have hxo := Except.ok.inj hxo
  -- everything is a whole number of microseconds, so no rounding happens
  unfold changeScale at h
  rw [offset_eq_eval hp] at h
  simp only at h
  obtain ⟨_, _, hi⟩ := ofDatetime_spec h
  obtain ⟨k, hk⟩ : ∃ k, x.eop.taiUtc = 10 * k := ⟨x.eop.taiUtc / 10, by omega⟩
  have hoff10 : (p.eval x.inst x.eop env.tdb) % 10 = 0 := by
    simp only [Coef.eval, pu, pt, hk, zero_mul, add_zero]
    have : p.tai * (10 * k) = 10 * (p.tai * k) := by ring
    rw [this]; omega
  have hxoff10 : x.off % 10 = 0 := by
    rw [← hxo]
    simp only [Coef.eval, Coef.add, pu, pt, qu, qt, hk, zero_mul, add_zero]
    have : (p.tai + q.tai) * (10 * k) = 10 * ((p.tai + q.tai) * k) := by ring
    rw [this]; omega
  have e1 := roundUs_exact hus
  have e2 := roundUs_exact hxoff10
  have e3 := roundUs_exact hoff10
  refine ⟨?_, hs⟩
  have hsum : x.off = p.eval x.inst x.eop env.tdb + y.off := by
    rw [← hxo, ← hyo]
    simp only [Coef.eval, Coef.add, pu, pt, qu, qt, hleap, zero_mul, add_zero]
    ring
  simp only [Date.datetime, Date.datetimeRef, Date.inst, DUS, D] at *
  omega

/-- **there and back gives the same clock reading** (uniform scales, no leap second between the label days) -/
theorem changeScale_roundtrip {env : Env} {x y z : Date} {new : Nat} (hx : WF cfg env x)
    (hsc : x.scale ∈ uniformIx) (hnew : new ∈ uniformIx)
    (hus : x.s % 10 = 0) (htai : x.eop.taiUtc % 10 = 0)
    (h : changeScale cfg env x new = .ok y) (hleap : y.eop.taiUtc = x.eop.taiUtc)
    (h' : changeScale cfg env y x.scale = .ok z) (hleap' : z.eop.taiUtc = x.eop.taiUtc) :
    z.inst = x.inst ∧ z.scale = x.scale ∧ z.off = x.off ∧ z.datetime = x.datetime := by
  obtain ⟨hi, hs⟩ := changeScale_same_instant hx hsc hnew hus htai h hleap
  obtain ⟨_, _, _, hw, _, _⟩ := changeScale_instant hx h
  have hys : y.s % 10 = 0 := by
    have := hw.s_nonneg; have := hw.s_lt; have := hx.s_nonneg; have := hx.s_lt
    simp only [Date.inst, D] at *
    omega
  obtain ⟨hi', hs'⟩ := changeScale_same_instant hw (hs ▸ hnew) hsc hys (hleap ▸ htai) h' (hleap'.trans hleap.symm)
  obtain ⟨_, _, _, hwz, _, _⟩ := changeScale_instant hw h'
  -- z.off = x.off: same scale, same TAI−UTC
  obtain ⟨n1, hxo⟩ := hx.off_eq
  obtain ⟨n3, hzo⟩ := hwz.off_eq
  rw [hs'] at hzo
  obtain ⟨p, hp, pu, pt, _⟩ := uniform_coef _ hsc _ ref_uniform
  rw [offset_eq_eval hp] at hxo hzo
  have hxo := Except.ok.inj hxo
  have hzo := Except.ok.inj hzo
  have hoff : z.off = x.off := by
    rw [← hzo, ← hxo]
    simp only [Coef.eval, pu, pt, hleap', zero_mul, add_zero]
  have hzs : z.s = x.s ∧ z.d = x.d := by
    have := hwz.s_nonneg; have := hwz.s_lt; have := hx.s_nonneg; have := hx.s_lt
    have e := hi'.trans hi
    simp only [Date.inst, D] at *
    omega
  refine ⟨hi'.trans hi, hs', hoff, ?_⟩
  simp only [Date.datetime, Date.datetimeRef, hzs.1, hzs.2, hoff]

/-- every scale but TDB -/
def noTdbIx : List Nat := [ix "UTC", ix "TAI", ix "TT", ix "GPS", ix "UT1"]

theorem noTdb_coef : ∀ a ∈ noTdbIx, ∀ b ∈ noTdbIx, ∃ p, coefAB cfg a b = some p ∧ p.tdb = 0 := by
  have h : ∀ a ∈ noTdbIx, ∀ b ∈ noTdbIx, chkNoTdb a b = true := by decide
  intro a ha b hb
  have := h a ha b hb
  unfold chkNoTdb at this
  split at this
  · next p hp => exact ⟨p, hp, of_decide_eq_true this⟩
  · cases this

theorem noTdb_sub_all : ∀ a ∈ noTdbIx, a ∈ allIx := by decide
theorem ref_noTdb : cfg.ref ∈ noTdbIx := by decide

/-- when the converted date carries the same EOP record as the original one, the three offsets involved cancel exactly
(every pair of scales among UTC, TAI, TT, GPS, UT1) -/
theorem drift_zero {env : Env} {x y : Date} {new : Nat} {off : Int} (hx : WF cfg env x) (hy : WF cfg env y)
    (hys : y.scale = new) (hsc : x.scale ∈ noTdbIx) (hnew : new ∈ noTdbIx)
    (ho : offset cfg env x.scale new x.inst x.eop = .ok off) (hrec : y.eop = x.eop) : y.off + off - x.off = 0 := by
  obtain ⟨n1, hxo⟩ := hx.off_eq
  obtain ⟨n2, hyo⟩ := hy.off_eq
  rw [hys] at hyo
  obtain ⟨p, q, hp, hq, hr⟩ := coef_table.2 _ (noTdb_sub_all _ hsc) _ (noTdb_sub_all _ hnew) _ (noTdb_sub_all _ ref_noTdb)
  obtain ⟨p', hp', pt⟩ := noTdb_coef _ hsc _ hnew
  obtain ⟨q', hq', qt⟩ := noTdb_coef _ hnew _ ref_noTdb
  rw [hp] at hp'; cases hp'
  rw [hq] at hq'; cases hq'
  rw [offset_eq_eval hp] at ho
  rw [offset_eq_eval hq] at hyo
  rw [offset_eq_eval hr] at hxo
  have ho := Except.ok.inj ho
  have hyo := Except.ok.inj hyo
  have hxo := Except.ok.inj hxo
  rw [← ho, ← hyo, ← hxo, hrec]
  simp only [Coef.eval, Coef.add, pt, qt, zero_mul, add_zero]
  ring

/-- **same instant for conversions involving UT1** (and every other pair without TDB): when the converted date carries
the EOP record of the original one — which since fc514f7 is the record of the UTC day, see `mk_record_of_utc_day` and
`records_agree` — the instant moves only by the rounding of `timedelta`: at most 1.5 µs -/
theorem changeScale_instant_bound {env : Env} {x y : Date} {new : Nat} (hx : WF cfg env x)
    (hsc : x.scale ∈ noTdbIx) (hnew : new ∈ noTdbIx)
    (h : changeScale cfg env x new = .ok y) (hrec : y.eop = x.eop) :
    -15 ≤ y.inst - x.inst ∧ y.inst - x.inst ≤ 15 := by
  obtain ⟨off, ho, hs, hw, h1, h2⟩ := changeScale_instant hx h
  have := drift_zero hx hw hs hsc hnew ho hrec
  omega

/-- … and by at most 0.5 µs when the source clock reading is a whole microsecond and its offset is not on a rounding
tie (e.g. every conversion from UTC, TAI, TT, GPS to UT1) -/
theorem changeScale_instant_bound_half {env : Env} {x y : Date} {new : Nat} (hx : WF cfg env x)
    (hsc : x.scale ∈ noTdbIx) (hnew : new ∈ noTdbIx) (hus : (clock x) % 10 = 0) (htie : x.off % 10 ≠ 5)
    (h : changeScale cfg env x new = .ok y) (hrec : y.eop = x.eop) :
    -5 ≤ y.inst - x.inst ∧ y.inst - x.inst ≤ 5 := by
  obtain ⟨off, ho, hs, hw, _, _⟩ := changeScale_instant hx h
  obtain ⟨off', ho', h1, h2⟩ := changeScale_instant_half hx hus htie h
  rw [ho] at ho'
  have : off' = off := (Except.ok.inj ho').symm
  subst this
  have := drift_zero hx hw hs hsc hnew ho hrec
  omega

/-- two lookups on the same day with the same leap-second entry in force give the same record: the hypothesis
`y.eop = x.eop` above holds whenever the UTC readings of the two dates fall on the same UTC day -/
theorem records_agree {env : Env} {n m : Int} {e f : Eop} (hn : eopRaw env n = some e) (hm : eopRaw env m = some f)
    (hd : Int.tdiv n D = Int.tdiv m D) (hl : taiUtcAt env.leap n = taiUtcAt env.leap m) : e = f := by
  have := eopRaw_same_day (env := env) hd hl
  rw [hn, hm] at this
  exact Option.some.inj this

/-
Full statement for UT1 / TDB (property text): "within one microsecond, the resolution of the conversion".
Proved: `changeScale_instant_bound` (1.5 µs, every pair without TDB, when both dates carry the same EOP record),
`changeScale_instant_bound_half` (0.5 µs from a whole-microsecond clock reading), `changeScale_instant` (every pair,
with the TDB term: 1.5 µs + drift).  Missing for the full statement:
(1) on a rounding tie of `_offset` the separate `timedelta` roundings of `_s` and `_offset` can differ by a whole
microsecond, so 1.5 µs — not 1 µs — is the bound the code's arithmetic gives for a date whose clock reading is not a
whole microsecond;
(2) `y.eop = x.eop` fails when the UTC reading lies within one day's change of UT1−UTC of UTC midnight
(`Witness/C03.lean: utc_midnight_band_changes_instant`, known finding ut1-step-at-utc-midnight);
(3) with TDB the drift term `tdb(mjd₁) − tdb(mjd₂)` between the two `mjd` arguments (≈ 1e-10 s) is a parameter here.
-/
/-- conversions involving UT1 / TDB, stated on the offsets: when the offsets agree (`drift = 0`), the instant moves by at most 1.5 µs -/
theorem changeScale_instant_bound_partial {env : Env} {x y : Date} {new : Nat} (hx : WF cfg env x)
    (h : changeScale cfg env x new = .ok y)
    (hdrift : ∀ off, offset cfg env x.scale new x.inst x.eop = .ok off → y.off + off = x.off) :
    -15 ≤ y.inst - x.inst ∧ y.inst - x.inst ≤ 15 := by
  obtain ⟨off, ho, _, _, h1, h2⟩ := changeScale_instant hx h
  have := hdrift off ho
  omega

/-- **the EOP record of a date in TAI, TT or GPS is the one tabulated for its UTC reading** (fix fc514f7): with `e0` the
record of the label day, `offU` the offset to UTC computed with it and `eU` the record found at `num + offU`, the date
carries `eU`, and `num + offU` *is* its UTC clock reading `inst − TAI−UTC` — provided no leap second lies between the
two readings -/
theorem mk_record_of_utc_day {env : Env} {sc : Nat} {d s offU : Int} {x : Date} {e0 eU : Eop}
    (hsc : sc ∈ uniformIx) (hne : sc ≠ cfg.utc) (h : mk cfg env sc d s = .ok x)
    (h0 : eopRaw env (d * D + s) = some e0) (ho : offset cfg env sc cfg.utc (d * D + s) e0 = .ok offU)
    (hU : eopRaw env (d * D + s + offU) = some eU)
    (hl : taiUtcAt env.leap (d * D + s + offU) = taiUtcAt env.leap (d * D + s)) :
    x.eop = eU ∧ x.inst - x.eop.taiUtc = d * D + s + offU := by
  obtain ⟨hw, hs, hi, he⟩ := mk_spec h
  have hrec := eopFor_record he h0 ho hU hl hne
  refine ⟨hrec, ?_⟩
  have htai : eU.taiUtc = e0.taiUtc := by
    unfold eopRaw at h0 hU
    split at h0
    · cases h0
    · split at h0
      · cases h0
      · next t ht =>
        split at hU
        · cases hU
        · split at hU
          · cases hU
          · next t' ht' =>
            cases h0; cases hU
            rw [hl, ht] at ht'
            exact (Option.some.inj ht').symm
  obtain ⟨n1, hxo⟩ := hw.off_eq
  rw [hs] at hxo
  have hutc : cfg.utc ∈ uniformIx := by decide
  obtain ⟨p, q, hp, hq, hr⟩ := coef_table.2 _ (uniform_sub_all _ hsc) _ (uniform_sub_all _ hutc) _ (uniform_sub_all _ ref_uniform)
  obtain ⟨p', hp', pu, pt, _⟩ := uniform_coef _ hsc _ hutc
  rw [hp] at hp'; cases hp'
  have hq' : coefAB cfg cfg.utc cfg.ref = some ⟨0, 1, 0, 0⟩ := by decide
  rw [hq] at hq'; cases hq'
  rw [offset_eq_eval hp] at ho
  rw [offset_eq_eval hr] at hxo
  have ho := Except.ok.inj ho
  have hxo := Except.ok.inj hxo
  rw [hi, ← hxo, ← ho, hrec]
  simp only [Coef.eval, Coef.add, pu, pt, htai, zero_mul, add_zero]
  ring

/-! ## missing-data policy and day lookup -/

/-- **the three documented behaviours** for a date the tables do not cover, and no effect on covered dates -/
theorem eop_policy_spec (env : Env) (num : Int) :
    (∀ e, eopRaw env num = some e → eopGet env num = .found e) ∧
    (eopRaw env num = none → env.policy = .pass → eopGet env num = .zeroSilent) ∧
    (eopRaw env num = none → env.policy = .warn → eopGet env num = .zeroWarned) ∧
    (eopRaw env num = none → env.policy = .error → eopGet env num = .raised) ∧
    (EopRes.zeroSilent.value = some ⟨0, 0⟩ ∧ EopRes.zeroWarned.value = some ⟨0, 0⟩ ∧ EopRes.raised.value = none) := by
  refine ⟨?_, ?_, ?_, ?_, rfl, rfl, rfl⟩
  · intro e h; simp [eopGet, h]
  · intro h hp; simp [eopGet, h, hp]
  · intro h hp; simp [eopGet, h, hp]
  · intro h hp; simp [eopGet, h, hp]

/-- **the record is the one of the day number of `mjd`**: UT1−UTC is the finals entry of `⌊mjd⌋`, TAI−UTC the value of
an entry of `tai-utc.dat` whose date is not after `mjd` -/
theorem eop_lookup_day (env : Env) (num : Int) (e : Eop) (h0 : 0 ≤ num) (h : eopRaw env num = some e) :
    env.finals (num / D) = some e.ut1Utc ∧ ∃ ent ∈ env.leap, ent.2 = e.taiUtc ∧ ent.1 * D ≤ num := by
  unfold eopRaw at h
  rw [Int.tdiv_eq_ediv_of_nonneg h0] at h
  split at h
  · cases h
  · next u hu =>
    split at h
    · cases h
    · next t ht =>
      cases h
      refine ⟨hu, ?_⟩
      unfold taiUtcAt at ht
      simp only [Option.map_eq_some_iff] at ht
      obtain ⟨ent, hf, rfl⟩ := ht
      refine ⟨ent, ?_, rfl, ?_⟩
      · have := List.mem_of_find?_eq_some hf
        simpa using this
      · have := List.find?_some hf
        simpa using this

/-! ### the lookups at the tables' own abscissae

`SimpleEopDatabase.tai_utc` is a step function of `mjd` whose steps sit exactly on the dates of `tai-utc.dat`; the step
belongs to the *new* value (`date <= mjd`).  The theorems below pin that for every table with ascending dates and every
argument; `leap_table_lookup` instantiates them on the regenerated file.  (A binary search with `bisect_left - 1`, or a
scan with `date < mjd`, falsifies `tai_utc_at_entry`; the correspondence ops `d3tai` / `d3fin` / `d3eop` tie the real
methods to `taiUtcAt` / `eopRaw` at every entry date exactly and one microsecond before and after.) -/

/-- **TAI−UTC as tabulated**: on a table with ascending dates the lookup returns `v` iff `v` is the value of the entry
with the greatest date `≤ mjd`; it raises (`none`) iff every entry is later than `mjd` -/
theorem tai_utc_lookup_spec {leap : List (Int × Int)} (hs : Sorted leap) (num : Int) :
    (∀ v, taiUtcAt leap num = some v ↔
      ∃ e ∈ leap, e.2 = v ∧ e.1 * D ≤ num ∧ ∀ e' ∈ leap, e'.1 * D ≤ num → e'.1 ≤ e.1) ∧
    (taiUtcAt leap num = none ↔ ∀ e ∈ leap, num < e.1 * D) :=
  ⟨fun v => taiUtcAt_eq_some_iff hs num v, taiUtcAt_eq_none_iff leap num⟩

/-- **exactly at 00:00:00 of the day an entry takes effect, that entry applies** -/
theorem tai_utc_at_entry {leap : List (Int × Int)} (hs : Sorted leap) {e : Int × Int} (he : e ∈ leap) :
    taiUtcAt leap (e.1 * D) = some e.2 := taiUtcAt_at_entry hs he

/-- **from an entry's date (included) to the last tick before the next entry's date, the earlier entry applies** -/
theorem tai_utc_between {l r : List (Int × Int)} {e1 e2 : Int × Int} (hs : Sorted (l ++ e1 :: e2 :: r)) {num : Int}
    (h1 : e1.1 * D ≤ num) (h2 : num < e2.1 * D) : taiUtcAt (l ++ e1 :: e2 :: r) num = some e1.2 :=
  taiUtcAt_between hs h1 h2

/-- **from the last entry's date on, the last entry applies** -/
theorem tai_utc_after_last {l : List (Int × Int)} {e : Int × Int} {num : Int} (h : e.1 * D ≤ num) :
    taiUtcAt (l ++ [e]) num = some e.2 := taiUtcAt_after_last h

/-- **before the first entry: no value** (the code raises `KeyError`; `EopDb.get` then applies the policy) -/
theorem tai_utc_before_first {e : Int × Int} {l : List (Int × Int)} (hs : Sorted (e :: l)) {num : Int}
    (h : num < e.1 * D) : taiUtcAt (e :: l) num = none := taiUtcAt_before_first hs h

/-- **`TaiUtc.get_last_next`** (the other lookup of the leap-second reader): `past` is the entry the TAI−UTC lookup uses;
with the table split at the last entry whose date is `≤ mjd`, `future` is the entry that follows it (none after the
last); before the first entry there is no `past` and `future` is the first entry -/
theorem last_next_spec (leap : List (Int × Int)) (num : Int) :
    ((lastNext leap num).1.map (·.2) = taiUtcAt leap num) ∧
    (∀ l e r, leap = l ++ e :: r → e.1 * D ≤ num → (∀ b ∈ r, num < b.1 * D) → lastNext leap num = (some e, r.head?)) ∧
    ((∀ b ∈ leap, num < b.1 * D) → lastNext leap num = (none, leap.head?)) :=
  ⟨lastNext_past leap num, fun _ _ _ hl he hr => hl ▸ lastNext_split he hr, fun h => lastNext_before h⟩

example : lastNext [(10, 5), (20, 6), (30, 7)] (20 * D) = (some (20, 6), some (30, 7)) ∧
    lastNext [(10, 5), (20, 6), (30, 7)] (20 * D - 1) = (some (10, 5), some (20, 6)) ∧
    lastNext [(10, 5), (20, 6), (30, 7)] (30 * D) = (some (30, 7), none) ∧
    lastNext [(10, 5), (20, 6), (30, 7)] (10 * D - 1) = (none, some (10, 5)) := by decide

/-- **TAI−UTC "for that day"**: the value is a function of the day number `⌊mjd⌋` alone -/
theorem tai_utc_of_day (leap : List (Int × Int)) (num : Int) : taiUtcAt leap num = taiUtcAt leap (num / D * D) :=
  taiUtcAt_day leap num

/-- **the record "for that day"**: every instant `day·D ≤ num < (day+1)·D` of a day gets the record found at that day's
00:00:00 — nothing changes inside a day, everything changes exactly at the day boundary -/
theorem eop_record_of_day (env : Env) {num day : Int} (h0 : 0 ≤ day) (h1 : day * D ≤ num) (h2 : num < (day + 1) * D) :
    eopRaw env num = eopRaw env (day * D) := by
  have hD : (0 : Int) < D := by decide
  have hn : 0 ≤ num := Int.le_trans (Int.mul_nonneg h0 (Int.le_of_lt hD)) h1
  rw [eopRaw_day env num hn, day_of_mem h1 h2]

/-- **the record is exactly the tabulated one**: for a table with ascending dates, `SimpleEopDatabase.__getitem__(mjd)`
returns `e` iff UT1−UTC is the finals entry of day `⌊mjd⌋` and TAI−UTC the value of the entry of `tai-utc.dat` with the
greatest date `≤ ⌊mjd⌋` (strengthens `eop_lookup_day`, which only says "some entry not after `mjd`") -/
theorem eop_record_spec (env : Env) (hs : Sorted env.leap) (num : Int) (e : Eop) (h0 : 0 ≤ num) :
    eopRaw env num = some e ↔
      env.finals (num / D) = some e.ut1Utc ∧
      ∃ ent ∈ env.leap, ent.2 = e.taiUtc ∧ ent.1 ≤ num / D ∧ ∀ e' ∈ env.leap, e'.1 ≤ num / D → e'.1 ≤ ent.1 := by
  have hD : (0 : Int) < D := by decide
  have hiff : ∀ x : Int, x * D ≤ num ↔ x ≤ num / D := fun x => (Int.le_ediv_iff_mul_le hD).symm
  have hspec := taiUtcAt_eq_some_iff hs num e.taiUtc
  simp only [hiff] at hspec
  unfold eopRaw
  rw [Int.tdiv_eq_ediv_of_nonneg h0]
  constructor
  · intro h
    split at h
    · cases h
    · next u hu =>
      split at h
      · cases h
      · next t ht =>
        cases h
        exact ⟨hu, hspec.mp ht⟩
  · rintro ⟨hu, hent⟩
    rw [hu, hspec.mpr hent]

/-- the regenerated `tai-utc.dat`: dates ascending; **at the date of every entry the entry's own value is returned, one
tick earlier the value of the entry before it** (nothing before the first), and the day before the first entry has none -/
theorem leap_table_lookup :
    Sorted leapTable ∧ (∀ e ∈ leapTable, taiUtcAt leapTable (e.1 * D) = some e.2) ∧
    ((leapTable.zip leapTable.tail).all (fun p => taiUtcAt leapTable (p.2.1 * D - 1) == some p.1.2) = true) ∧
    (∀ e ∈ leapTable.head?, taiUtcAt leapTable (e.1 * D - 1) = none) := by
  have hs : Sorted leapTable := leap_table_facts.1
  refine ⟨hs, fun e he => taiUtcAt_at_entry hs he, by decide, by decide⟩

/-- **the table the theorems are instantiated with is the parse of the file text**: `leapTable` is what the model of the
`TaiUtc` reader (`Model/EopFile.lean`: `line.split()`, `int(float(f[4]) - 2400000.5)`, `float(f[6])`, tied to the real
reader line by line by the correspondence op `d3ptai`) makes of the regenerated text of `tests/data/pole/tai-utc.dat` -/
theorem leap_table_is_parsed_file : EopFile.taiTable taiUtcText = some leapTable := by decide +kernel

/-- the hypotheses are satisfiable and the boundary goes to the new value: a two-entry table -/
example : Sorted [(10, 5), (20, 6)] ∧ taiUtcAt [(10, 5), (20, 6)] (20 * D) = some 6 ∧
    taiUtcAt [(10, 5), (20, 6)] (20 * D - 1) = some 5 ∧ taiUtcAt [(10, 5), (20, 6)] (20 * D + 1) = some 6 ∧
    taiUtcAt [(10, 5), (20, 6)] (10 * D - 1) = none :=
  ⟨by unfold Sorted; decide, by decide, by decide, by decide, by decide⟩
/-- … and the last entry of the regenerated file applies at its own date, the one before it one tick earlier -/
example : ∀ e ∈ leapTable.getLast?, taiUtcAt leapTable (e.1 * D) = some e.2 ∧
    taiUtcAt leapTable (e.1 * D - 1) = (leapTable.dropLast.getLast?.map (·.2)) := by decide

/-! ## date arithmetic -/

/-- **d + t moves the clock reading by exactly t** in every scale (also across leap seconds and EOP changes), keeps the scale -/
theorem add_clock {env : Env} {x y : Date} {t : Int} (hx : WF cfg env x) (h : add cfg env x t = .ok y) :
    clock y = clock x + 10 * t ∧ y.scale = x.scale ∧ WF cfg env y := by
  unfold add at h
  obtain ⟨hw, hs, hi, _⟩ := mk_spec h
  have := toScale_spec x hx.s_nonneg hx.s_lt
  refine ⟨?_, hs, hw⟩
  simp only [clock, D] at *
  omega

/-- **(d + t) − d = t** when the two dates have the same offset to TAI (no leap second intervenes) and `d` is a whole
number of microseconds -/
theorem add_sub {env : Env} {x y : Date} {t : Int} (hx : WF cfg env x) (hus : x.s % 10 = 0)
    (h : add cfg env x t = .ok y) (hoff : y.off = x.off) : subDate y x = t := by
  obtain ⟨hc, _, hw⟩ := add_clock hx h
  have hy : y.s % 10 = 0 := by
    have := hw.s_nonneg; have := hw.s_lt; have := hx.s_nonneg; have := hx.s_lt
    simp only [clock, Date.inst, D] at *
    omega
  have e1 := roundUs_exact hus
  have e2 := roundUs_exact hy
  simp only [subDate, Date.datetimeRef, clock, Date.inst, D, DUS] at *
  omega

/-- in TAI, TT and GPS the offset to the reference scale is the same constant for every date -/
theorem const_scale_offset {env : Env} {x y : Date} (hx : WF cfg env x) (hy : WF cfg env y)
    (hs : y.scale = x.scale) (hc : x.scale ∈ constIx) : y.off = x.off := by
  have h : ∀ a ∈ constIx, chkConst a = true := by decide
  have := h _ hc
  unfold chkConst at this
  split at this
  · next p hp =>
    have hz := of_decide_eq_true this
    obtain ⟨n1, h1⟩ := hx.off_eq
    obtain ⟨n2, h2⟩ := hy.off_eq
    rw [hs] at h2
    rw [offset_eq_eval hp] at h1 h2
    have a := Except.ok.inj h1
    have b := Except.ok.inj h2
    rw [← a, ← b]
    simp [Coef.eval, hz.1, hz.2.1, hz.2.2]
  · cases this

/-- **(d + t) − d = t unconditionally in TAI, TT, GPS** -/
theorem add_sub_const_scales {env : Env} {x y : Date} {t : Int} (hx : WF cfg env x) (hus : x.s % 10 = 0)
    (hc : x.scale ∈ constIx) (h : add cfg env x t = .ok y) : subDate y x = t := by
  obtain ⟨_, hs, hw⟩ := add_clock hx h
  exact add_sub hx hus h (const_scale_offset hx hw hs hc)

/-- **d + (t1 + t2) and (d + t1) + t2 show the same clock reading**, in every scale, unconditionally -/
theorem add_assoc_clock {env : Env} {x u v w : Date} {t1 t2 : Int} (hx : WF cfg env x)
    (hu : add cfg env x (t1 + t2) = .ok u) (hv : add cfg env x t1 = .ok v) (hw : add cfg env v t2 = .ok w) :
    clock w = clock u ∧ w.scale = u.scale := by
  obtain ⟨a1, a2, _⟩ := add_clock hx hu
  obtain ⟨b1, b2, b3⟩ := add_clock hx hv
  obtain ⟨c1, c2, _⟩ := add_clock b3 hw
  refine ⟨by omega, by rw [c2, b2, a2]⟩

/-- **… and are the same instant** in TAI, TT, GPS (and in any scale when the two results have the same offset) -/
theorem add_assoc_instant {env : Env} {x u v w : Date} {t1 t2 : Int} (hx : WF cfg env x)
    (hu : add cfg env x (t1 + t2) = .ok u) (hv : add cfg env x t1 = .ok v) (hw : add cfg env v t2 = .ok w)
    (hc : x.scale ∈ constIx ∨ w.off = u.off) : w.inst = u.inst := by
  obtain ⟨h1, h2⟩ := add_assoc_clock hx hu hv hw
  obtain ⟨_, a2, a3⟩ := add_clock hx hu
  obtain ⟨_, b2, b3⟩ := add_clock hx hv
  obtain ⟨_, c2, c3⟩ := add_clock b3 hw
  have hoff : w.off = u.off := by
    rcases hc with hc | hc
    · exact const_scale_offset a3 c3 (by rw [c2, b2, a2]) (a2 ▸ hc)
    · exact hc
  simp only [clock] at h1
  omega

/-! ## ordering, equality, hash -/

/-- **ordering, equality and hashing are mutually consistent**: trichotomy, `<=` is `<` or `==`, `>`/`>=` are the
converses, equal dates have equal hash keys -/
theorem cmp_consistent (x y : Date) :
    ((x.lt y = true ∧ x.eq y = false ∧ x.gt y = false) ∨ (x.lt y = false ∧ x.eq y = true ∧ x.gt y = false) ∨
      (x.lt y = false ∧ x.eq y = false ∧ x.gt y = true)) ∧
    (x.le y = (x.lt y || x.eq y)) ∧ (x.ge y = (x.gt y || x.eq y)) ∧ (x.gt y = y.lt x) ∧ (x.ge y = y.le x) ∧
    (x.eq y = true → x.hashKey = y.hashKey) ∧ (x.eq y = y.eq x) := by
  rcases lt_trichotomy x.datetimeRef y.datetimeRef with h | h | h
  · have h1 : ¬ y.datetimeRef < x.datetimeRef := by omega
    have h2 : x.datetimeRef ≠ y.datetimeRef := by omega
    have h3 : x.datetimeRef ≤ y.datetimeRef := by omega
    have h4 : ¬ y.datetimeRef ≤ x.datetimeRef := by omega
    have h5 : y.datetimeRef ≠ x.datetimeRef := by omega
    simp [Date.lt, Date.le, Date.eq, Date.gt, Date.ge, h, h1, h2, h3, h4, h5]
  · simp [Date.lt, Date.le, Date.eq, Date.gt, Date.ge, Date.hashKey, h]
  · have h1 : ¬ x.datetimeRef < y.datetimeRef := by omega
    have h2 : x.datetimeRef ≠ y.datetimeRef := by omega
    have h3 : y.datetimeRef ≤ x.datetimeRef := by omega
    have h4 : ¬ x.datetimeRef ≤ y.datetimeRef := by omega
    have h5 : y.datetimeRef ≠ x.datetimeRef := by omega
    simp [Date.lt, Date.le, Date.eq, Date.gt, Date.ge, h, h1, h2, h3, h4, h5]

/-- **comparisons agree with subtraction** (fix d8c716a): `a == b` iff `a - b` is zero, `a < b` iff `a - b` is negative -/
theorem eq_iff_sub_zero (x y : Date) :
    (x.eq y = true ↔ subDate x y = 0) ∧ (x.lt y = true ↔ subDate x y < 0) ∧ (x.gt y = true ↔ subDate x y > 0) := by
  simp only [Date.eq, Date.lt, Date.gt, subDate, decide_eq_true_eq]
  omega

/-- on dates that are whole numbers of microseconds the comparisons are exactly those of the instants -/
theorem cmp_exact_us (x y : Date) (hx : x.s % 10 = 0) (hy : y.s % 10 = 0) :
    (x.eq y = true ↔ x.inst = y.inst) ∧ (x.lt y = true ↔ x.inst < y.inst) ∧ (x.le y = true ↔ x.inst ≤ y.inst) := by
  have e1 := roundUs_exact hx
  have e2 := roundUs_exact hy
  have ex : x.inst = 10 * x.datetimeRef := by simp only [Date.inst, Date.datetimeRef, D, DUS]; omega
  have ey : y.inst = 10 * y.datetimeRef := by simp only [Date.inst, Date.datetimeRef, D, DUS]; omega
  rw [ex, ey]
  refine ⟨?_, ?_, ?_⟩
  · rw [Date.eq, decide_eq_true_iff]; omega
  · rw [Date.lt, decide_eq_true_iff]; omega
  · rw [Date.le, decide_eq_true_iff]; omega

/-- **independent of the scale label**: every comparison and the hash key are functions of the instant alone (of
`(_d, _s)`; neither `scale`, `_offset` nor `eop` enters) -/
theorem label_irrelevant (x y x' y' : Date) (hxs : 0 ≤ x.s ∧ x.s < D) (hxs' : 0 ≤ x'.s ∧ x'.s < D)
    (hys : 0 ≤ y.s ∧ y.s < D) (hys' : 0 ≤ y'.s ∧ y'.s < D) (hx : x.inst = x'.inst) (hy : y.inst = y'.inst) :
    x.lt y = x'.lt y' ∧ x.le y = x'.le y' ∧ x.eq y = x'.eq y' ∧ x.ge y = x'.ge y' ∧ x.gt y = x'.gt y' ∧
    x.hashKey = x'.hashKey := by
  obtain ⟨a1, a2⟩ := hxs; obtain ⟨a3, a4⟩ := hxs'; obtain ⟨b1, b2⟩ := hys; obtain ⟨b3, b4⟩ := hys'
  have a : x.d = x'.d ∧ x.s = x'.s := by simp only [Date.inst, D] at *; omega
  have b : y.d = y'.d ∧ y.s = y'.s := by simp only [Date.inst, D] at *; omega
  have hxr : x.datetimeRef = x'.datetimeRef := by simp only [Date.datetimeRef, a.1, a.2]
  have hyr : y.datetimeRef = y'.datetimeRef := by simp only [Date.datetimeRef, b.1, b.2]
  refine ⟨?_, ?_, ?_, ?_, ?_, ?_⟩ <;> simp only [Date.lt, Date.le, Date.eq, Date.gt, Date.ge, Date.hashKey, hxr, hyr]

/-- hence a date and its conversion to another uniform scale compare equal and hash alike -/
theorem changeScale_eq_hash {env : Env} {x y : Date} {new : Nat} (hx : WF cfg env x)
    (hsc : x.scale ∈ uniformIx) (hnew : new ∈ uniformIx) (hus : x.s % 10 = 0) (htai : x.eop.taiUtc % 10 = 0)
    (h : changeScale cfg env x new = .ok y) (hleap : y.eop.taiUtc = x.eop.taiUtc) :
    y.eq x = true ∧ y.hashKey = x.hashKey ∧ subDate y x = 0 := by
  obtain ⟨hi, _⟩ := changeScale_same_instant hx hsc hnew hus htai h hleap
  obtain ⟨_, _, _, hw, _, _⟩ := changeScale_instant hx h
  have : y.s = x.s ∧ y.d = x.d := by
    have := hw.s_nonneg; have := hw.s_lt; have := hx.s_nonneg; have := hx.s_lt
    simp only [Date.inst, D] at *
    omega
  refine ⟨by simp [Date.eq, Date.datetimeRef, this.1, this.2], by simp [Date.hashKey, Date.datetimeRef, this.1, this.2], ?_⟩
  simp [subDate, Date.datetimeRef, this.1, this.2]

/-! ## date ranges -/

theorem sign_eq_iff (a b : Int) : sign a = sign b ↔ ((0 ≤ a) ↔ (0 ≤ b)) := by
  unfold sign
  by_cases h1 : a ≥ 0 <;> by_cases h2 : b ≥ 0 <;> simp [h1, h2]

/-- **the constructor accepts exactly the coherent, non-null ranges** -/
theorem range_make_spec (start stop step : Int) (incl : Bool) :
    (step = 0 → Range.make start stop step incl = .error .nullStep) ∧
    (step ≠ 0 → ((0 ≤ stop - start) ↔ (0 ≤ step)) → Range.make start stop step incl = .ok ⟨start, stop, step, incl⟩) ∧
    (step ≠ 0 → ¬ ((0 ≤ stop - start) ↔ (0 ≤ step)) → Range.make start stop step incl = .error .incoherent) := by
  refine ⟨?_, ?_, ?_⟩
  · intro h; simp [Range.make, h]
  · intro h hc
    have : sign (stop - start) = sign step := (sign_eq_iff _ _).mpr hc
    simp [Range.make, h, this]
  · intro h hc
    have : sign (stop - start) ≠ sign step := fun h' => hc ((sign_eq_iff _ _).mp h')
    simp [Range.make, h, this]

/-- **iteration is the arithmetic progression** `start + k·step`, `k < len`, for positive and negative steps, inclusive or
not — for every fuel with which the loop returns -/
theorem range_iter_is_progression (r : Range) (hs : r.step ≠ 0) (fuel : Nat) (l : List Int) (h : r.iter fuel = some l) :
    l = (List.range r.len.toNat).map (fun (k : Nat) => r.start + (k : Int) * r.step) := by
  have := iterFrom_progression_any r hs fuel r.start l h
  rwa [lenFrom_start] at this

/-- **len(range) = number of yielded dates** -/
theorem range_len_eq_length_iter (r : Range) (hs : r.step ≠ 0) (fuel : Nat) (l : List Int) (h : r.iter fuel = some l) :
    l.length = r.len.toNat := by
  rw [range_iter_is_progression r hs fuel l h]; simp

/-- **every yielded date is `in` the range, none lies beyond stop** (negative steps included) -/
theorem range_mem_of_iter (r : Range) (hs : r.step ≠ 0) (fuel : Nat) (l : List Int) (h : r.iter fuel = some l) :
    ∀ x ∈ l, r.contains x = true ∧ r.cond x = true := by
  intro x hx
  obtain ⟨hc, hp, hn⟩ := iterFrom_mem r fuel r.start l h x hx
  refine ⟨?_, hc⟩
  rcases lt_or_gt_of_ne hs with hneg | hpos
  · have h1 : ¬ (r.step > 0) := by omega
    have := hn hneg
    simp only [Range.cond, h1, if_false] at hc
    simp only [Range.contains, hneg, if_true]
    cases hi : r.incl <;> simp_all
  · have h1 : ¬ (r.step < 0) := by omega
    have := hp hpos
    simp only [Range.cond, hpos, if_true] at hc
    simp only [Range.contains, h1, if_false]
    cases hi : r.incl <;> simp_all

/-- membership is the interval between start and stop, closed at start, closed at stop iff inclusive -/
theorem range_contains_iff (r : Range) (x : Int) :
    r.contains x = true ↔
      if r.step < 0 then (if r.incl then r.stop ≤ x else r.stop < x) ∧ x ≤ r.start
      else r.start ≤ x ∧ (if r.incl then x ≤ r.stop else x < r.stop) := by
  unfold Range.contains
  by_cases h : r.step < 0 <;> cases hi : r.incl <;> simp [h]

example : (Range.mk 10 0 (-3) false).iter 10 = some [10, 7, 4, 1] ∧ (Range.mk 10 0 (-3) false).len = 4 := by decide
example : (Range.mk 0 9 3 true).iter 10 = some [0, 3, 6, 9] ∧ (Range.mk 0 9 3 true).len = 4 ∧ (Range.mk 0 9 3 false).len = 3 := by decide
example : Range.make 0 10 (-3) false = .error .incoherent := by decide

/-! ## non-vacuity: the hypotheses of the theorems above are met by concrete dates

A small EOP database (eleven days of a UT1−UTC column, two leap-second entries) and 2015-03-04T12:00:00 UTC. -/

def envEx : Env :=
  { finals := fun day => if 57080 ≤ day ∧ day ≤ 57090 then some (-5300000 - (day - 57080) * 10367) else none
    leap := [(41317, 100000000), (56109, 350000000)]
    policy := .pass
    tdb := fun _ => 12345 }

def okOf (r : Except Err Date) : Option Date :=
  match r with
  | .ok x => some x
  | .error _ => none

def x0 : Date := ⟨57085, 432350000000, 350000000, ix "UTC", ⟨350000000, -5351835⟩⟩
def yTT : Date := ⟨57085, 432350000000, -321840000, ix "TT", ⟨350000000, -5351835⟩⟩
def yUT1 : Date := ⟨57085, 432349999995, 355351835, ix "UT1", ⟨350000000, -5351835⟩⟩
def xPlus : Date := ⟨57086, 432350001230, 350000000, ix "UTC", ⟨350000000, -5362202⟩⟩

/-- `x0` is what the constructor builds (so it is `WF` by `ofDatetime_spec`), `yTT`, `yUT1` its conversions, `xPlus` = `x0 + 1 day 123 µs` -/
example : okOf (ofDatetime cfg envEx (ix "UTC") 4932187200000000) = some x0 ∧
    okOf (changeScale cfg envEx x0 (ix "TT")) = some yTT ∧ okOf (changeScale cfg envEx x0 (ix "UT1")) = some yUT1 ∧
    okOf (add cfg envEx x0 86400000123) = some xPlus := by decide

/-- hypotheses of `changeScale_same_instant` / `changeScale_roundtrip` / `changeScale_eq_hash` hold for `x0 → TT`, and the conclusion is visible -/
example : x0.scale ∈ uniformIx ∧ ix "TT" ∈ uniformIx ∧ x0.s % 10 = 0 ∧ x0.eop.taiUtc % 10 = 0 ∧ yTT.eop.taiUtc = x0.eop.taiUtc ∧
    yTT.inst = x0.inst ∧ yTT.datetime = x0.datetime + 67184000 := by decide

/-- `changeScale_instant_half` for `x0 → UT1`: clock reading a whole microsecond, offset not on a tie; the instant moved by 5 ticks of rounding -/
example : clock x0 % 10 = 0 ∧ x0.off % 10 ≠ 5 ∧ yUT1.inst - x0.inst = -5 ∧ yUT1.off + (-5351835 - 0) - x0.off = 0 := by decide

/-- `add_sub` for `x0 + t`: same offset, so `(x0 + t) - x0 = t` -/
example : xPlus.off = x0.off ∧ subDate xPlus x0 = 86400000123 ∧ x0.scale ∉ constIx := by decide

example : WF cfg envEx x0 := (ofDatetime_spec (cfg := cfg) (env := envEx) (sc := ix "UTC") (us := 4932187200000000) (x := x0) (by decide)).1

end BeyondVerif.C03
