import BeyondVerif.Model.PropagR
import BeyondVerif.Lemmas.TwoBody
import BeyondVerif.Lemmas.NewtonKepler
import BeyondVerif.Props.C03
import Mathlib.Analysis.SpecialFunctions.Trigonometric.Bounds
import Mathlib.Analysis.SpecialFunctions.Trigonometric.DerivHyp
import Mathlib.Tactic.Ring
import Mathlib.Tactic.FieldSimp
import Mathlib.Tactic.Linarith
import Mathlib.Tactic.NormNum

/-!
# C05 — analytical two-body (Kepler) and J2 propagation obey Kepler's laws

Theorems over ℝ about `keplerStep` and `j2Step` (Model/PropagR.lean).  These are thin glue around
`meanMotion` (Infos.n), `keplerNewM` (Kepler.propagate), `j2Delta` (J2.propagate), the Earth constants
and `ssoCosI` (leo.sso), all **translated from the Python source on every run**
(Generated/PropagR.lean).  A changed coefficient, sign or exponent in kepler.py / j2.py /
statevector.py (Infos.n) / leo.py changes the regenerated term and these proofs are re-checked
against it.

Both propagators work on the `keplerian_mean` form `[a, e, i, Ω, ω, M]` and convert the result to
cartesian.  The element-level theorems are unconditional; the cartesian-level ones take the form
round trip (property C01) as explicit hypotheses `hRT`, `hPer`.
-/
noncomputable section
set_option linter.unusedVariables false
namespace BeyondVerif.C05
open BeyondVerif.R BeyondVerif.NumReal

/-! ## Kepler — element level -/

/-- the mean motion used by both propagators is `n = √(µ / |a|³)` (Infos.n, regenerated) -/
theorem meanMotion_formula (mu a : ℝ) : meanMotion mu a = Real.sqrt (mu / |a| ^ 3) := rfl

theorem sqrt_four : Real.sqrt 4 = 2 := by
  rw [show (4 : ℝ) = 2 ^ 2 by norm_num]; exact Real.sqrt_sq (by norm_num : (0 : ℝ) ≤ 2)

example : meanMotion 4 1 = 2 := by
  rw [meanMotion_formula]; norm_num [sqrt_four]

theorem meanMotion_pos {mu a : ℝ} (hmu : 0 < mu) (ha : a ≠ 0) : 0 < meanMotion mu a := by
  rw [meanMotion_formula]
  exact Real.sqrt_pos.mpr (div_pos hmu (pow_pos (abs_pos.mpr ha) 3))

/-- **Keplerian propagation leaves a, e, i, node and perigee unchanged** (all inputs, all Δt). -/
theorem kepler_elements_constant (mu : ℝ) (x : Elts) (dt : ℝ) :
    (keplerStep mu x dt).a = x.a ∧ (keplerStep mu x dt).e = x.e ∧ (keplerStep mu x dt).i = x.i ∧
    (keplerStep mu x dt).raan = x.raan ∧ (keplerStep mu x dt).argp = x.argp := by
  simp [keplerStep]

/-- **… and advances the mean anomaly by n·Δt**, `n = √(µ/|a|³)`; elliptic (`a > 0`) and hyperbolic (`a < 0`)
alike (the code does not wrap `M`).  `hmu`, `ha` are not needed by the proof: they are the guards under which the
square root and the division mean what the floating-point code computes. -/
theorem kepler_M_advance (mu : ℝ) (x : Elts) (dt : ℝ) (hmu : 0 < mu) (ha : x.a ≠ 0) :
    (keplerStep mu x dt).M = x.M + Real.sqrt (mu / |x.a| ^ 3) * dt := by
  simp [keplerStep, keplerNewM, meanMotion]

example : (keplerStep 4 ⟨1, 0.5, 1, 2, 3, 0.25⟩ 10).M = 0.25 + 2 * 10 := by
  rw [kepler_M_advance _ _ _ (by norm_num) (by norm_num)]; norm_num [sqrt_four]

theorem keplerStep_eq (mu : ℝ) (x : Elts) (dt : ℝ) :
    keplerStep mu x dt = { x with M := x.M + meanMotion mu x.a * dt } := by
  simp [keplerStep, keplerNewM]

/-- propagation by a zero interval is the identity -/
theorem kepler_zero (mu : ℝ) (x : Elts) : keplerStep mu x 0 = x := by
  simp [keplerStep_eq]

/-- **Composition**: `propagate(t₁)` then `propagate(t₂)` = `propagate(t₁ + t₂)`, for every state, every
`t₁ t₂` of either sign, every conic. -/
theorem kepler_compose (mu : ℝ) (x : Elts) (t₁ t₂ : ℝ) :
    keplerStep mu (keplerStep mu x t₁) t₂ = keplerStep mu x (t₁ + t₂) := by
  simp only [keplerStep_eq]; congr 1; ring

/-- **`propagate(-t)` is the inverse of `propagate(t)`**. -/
theorem kepler_inverse (mu : ℝ) (x : Elts) (t : ℝ) :
    keplerStep mu (keplerStep mu x t) (-t) = x := by
  rw [kepler_compose, add_neg_cancel, kepler_zero]

example : keplerStep 4 (keplerStep 4 ⟨1, 0.5, 1, 2, 3, 0.25⟩ 7) (-7) = ⟨1, 0.5, 1, 2, 3, 0.25⟩ :=
  kepler_inverse _ _ _

/-- the state with the mean anomaly shifted by `k` whole turns -/
def shiftM (x : Elts) (k : ℤ) : Elts := { x with M := x.M + 2 * Real.pi * k }

/-- **Periodicity** (element level): after `Δt = 2π/n` the five constant elements are the same and `M` has
advanced by exactly one turn. -/
theorem kepler_periodic (mu : ℝ) (x : Elts) (hmu : 0 < mu) (ha : x.a ≠ 0) :
    keplerStep mu x (2 * Real.pi / meanMotion mu x.a) = shiftM x 1 := by
  have hn := (meanMotion_pos hmu ha).ne'
  simp only [keplerStep_eq, shiftM]; congr 1; field_simp; simp

/-- the same for `k` periods, `k` of either sign -/
theorem kepler_periodic_k (mu : ℝ) (x : Elts) (hmu : 0 < mu) (ha : x.a ≠ 0) (k : ℤ) :
    keplerStep mu x (k * (2 * Real.pi / meanMotion mu x.a)) = shiftM x k := by
  have hn := (meanMotion_pos hmu ha).ne'
  simp only [keplerStep_eq, shiftM]; congr 1; field_simp

example : (4 : ℝ) > 0 ∧ (⟨1, 0.5, 1, 2, 3, 0.25⟩ : Elts).a ≠ 0 := by norm_num

/-- the propagation commutes with whole-turn shifts of `M` (the rate depends on `a` only) -/
theorem keplerStep_shiftM (mu : ℝ) (x : Elts) (k : ℤ) (t : ℝ) :
    keplerStep mu (shiftM x k) t = shiftM (keplerStep mu x t) k := by
  simp only [keplerStep_eq, shiftM]; congr 1; ring

theorem shiftM_shiftM (x : Elts) (k l : ℤ) : shiftM (shiftM x k) l = shiftM x (k + l) := by
  simp only [shiftM]; congr 1; push_cast; ring

theorem shiftM_zero (x : Elts) : shiftM x 0 = x := by simp [shiftM]

/-! ## Kepler's equation: why a whole turn of `M` is the same point of the orbit

`M ↦ E` is defined by `E − e sin E = M` (elliptic) resp. `e sinh H − H = M` (hyperbolic).  The solution is
unique, hence for `e < 1` the solution for `M + 2πk` is `E + 2πk`: every function of `cos E, sin E`
(the whole mean → cartesian conversion) is 2π-periodic in `M`.  (The Newton iteration of `Form.M2E`
that approximates the solution belongs to C01.) -/

/-- Kepler's equation has at most one solution for `0 ≤ e < 1` -/
theorem kepler_equation_solution_unique (e E₁ E₂ : ℝ) (he0 : 0 ≤ e) (he : e < 1)
    (h : E₁ - e * Real.sin E₁ = E₂ - e * Real.sin E₂) : E₁ = E₂ := by
  have h1 : E₁ - E₂ = e * (Real.sin E₁ - Real.sin E₂) := by linarith
  have h2 := Real.abs_sin_sub_sin_le E₁ E₂
  have h3 : |E₁ - E₂| = e * |Real.sin E₁ - Real.sin E₂| := by rw [h1, abs_mul, abs_of_nonneg he0]
  have h4 : |E₁ - E₂| ≤ e * |E₁ - E₂| := h3.le.trans (mul_le_mul_of_nonneg_left h2 he0)
  have h5 : |E₁ - E₂| ≤ 0 := by nlinarith [abs_nonneg (E₁ - E₂)]
  have := abs_nonpos_iff.mp h5
  linarith

/-- **2π-equivariance of the solution of Kepler's equation**: if `E` solves it for `M`, the solution for
`M + 2πk` is `E + 2πk`. -/
theorem kepler_equation_equivariant (e M E E' : ℝ) (k : ℤ) (he0 : 0 ≤ e) (he : e < 1)
    (hE : E - e * Real.sin E = M) (hE' : E' - e * Real.sin E' = M + 2 * Real.pi * k) :
    E' = E + 2 * Real.pi * k := by
  apply kepler_equation_solution_unique e _ _ he0 he
  have : Real.sin (E + 2 * Real.pi * k) = Real.sin E := by
    rw [mul_comm (2 * Real.pi)]; exact Real.sin_add_int_mul_two_pi E k
  rw [hE', this, ← hE]; ring

example : (0 : ℝ) - 0.5 * Real.sin 0 = 0 := by simp

/-- the hyperbolic Kepler equation `e sinh H − H = M` has at most one solution for `e ≥ 1` -/
theorem hyperbolic_kepler_equation_solution_unique (e H₁ H₂ : ℝ) (he : 1 ≤ e)
    (h : e * Real.sinh H₁ - H₁ = e * Real.sinh H₂ - H₂) : H₁ = H₂ := by
  have key : ∀ a b : ℝ, a < b → e * Real.sinh a - a < e * Real.sinh b - b := by
    intro a b hab
    have h1 : Real.sinh a - a < Real.sinh b - b := Real.sinh_sub_id_strictMono hab
    have h2 : Real.sinh a < Real.sinh b := Real.sinh_lt_sinh.mpr hab
    nlinarith
  rcases lt_trichotomy H₁ H₂ with hlt | heq | hgt
  · exact absurd h (ne_of_lt (key _ _ hlt))
  · exact heq
  · exact absurd h.symm (ne_of_lt (key _ _ hgt))

/-! ## The advanced mean anomaly *is* the two-body motion (bound orbits, orbital plane)

`posX, posY` (Lemmas/TwoBody.lean) are the textbook perifocal coordinates `a (cos E − e)`, `a √(1−e²) sin E`.
The hyperbolic counterpart, the proof that the library's eccentric → true → cartesian conversion computes these coordinates
rotated by the constant matrix fixed by `i, Ω, ω` (which `kepler_elements_constant` shows constant), and the resulting
statement about the CARTESIAN state are in Props/C05Cart.lean (`kepler_solves_two_body_cartesian(_hyperbolic)`). -/

theorem meanMotion_sq_mul (mu a : ℝ) (hmu : 0 < mu) (ha : 0 < a) : meanMotion mu a ^ 2 * a ^ 3 = mu := by
  rw [meanMotion_formula, abs_of_pos ha, Real.sq_sqrt (div_pos hmu (pow_pos ha 3)).le]
  field_simp

/-- **Keplerian propagation solves the two-body problem** (bound orbits; forwards and backwards in time):
let `E t` be the eccentric anomaly of the state propagated by `t` — the (unique, `kepler_equation_solution_unique`)
solution of Kepler's equation for the mean anomaly `(keplerStep µ x t).M` (no regularity assumed: such an `E` is
differentiable, `TwoBody.solution_differentiable`).  Then the perifocal position has the perifocal velocity as derivative, and the velocity has derivative
`−µ r / |r|³` with the same `µ` the mean motion was computed from, at every `t`. -/
theorem kepler_solves_two_body (mu : ℝ) (x : Elts) (hmu : 0 < mu) (ha : 0 < x.a) (he0 : 0 ≤ x.e) (he1 : x.e < 1)
    (E : ℝ → ℝ) (hE : ∀ t, E t - x.e * Real.sin (E t) = (keplerStep mu x t).M) (t : ℝ) :
    HasDerivAt (TwoBody.posX x.a x.e E) (TwoBody.velX x.a x.e (meanMotion mu x.a) E t) t ∧
    HasDerivAt (TwoBody.posY x.a x.e E) (TwoBody.velY x.a x.e (meanMotion mu x.a) E t) t ∧
    HasDerivAt (TwoBody.velX x.a x.e (meanMotion mu x.a) E)
      (-mu * TwoBody.posX x.a x.e E t / Real.sqrt (TwoBody.posX x.a x.e E t ^ 2 + TwoBody.posY x.a x.e E t ^ 2) ^ 3) t ∧
    HasDerivAt (TwoBody.velY x.a x.e (meanMotion mu x.a) E)
      (-mu * TwoBody.posY x.a x.e E t / Real.sqrt (TwoBody.posX x.a x.e E t ^ 2 + TwoBody.posY x.a x.e E t ^ 2) ^ 3) t := by
  have hE' : ∀ t, E t - x.e * Real.sin (E t) = x.M + meanMotion mu x.a * t := by
    intro t; rw [hE t, keplerStep_eq]
  have hmu' := meanMotion_sq_mul mu x.a hmu ha
  have hd := TwoBody.solution_differentiable he0 he1 hE'
  rw [← TwoBody.radius_eq_norm ha he0 he1 t]
  refine ⟨TwoBody.hasDerivAt_posX he0 he1 hE' hd t, TwoBody.hasDerivAt_posY he0 he1 hE' hd t, ?_, ?_⟩
  · have := TwoBody.hasDerivAt_velX ha he0 he1 hE' hd t
    rwa [hmu'] at this
  · have := TwoBody.hasDerivAt_velY ha he0 he1 hE' hd t
    rwa [hmu'] at this

/-- the hypotheses are satisfiable: the circular orbit `e = 0`, where `E t = M₀ + n t` -/
example (mu : ℝ) (hmu : 0 < mu) : ∃ E : ℝ → ℝ,
    ∀ t, E t - (0 : ℝ) * Real.sin (E t) = (keplerStep mu ⟨1, 0, 1, 2, 3, 0.25⟩ t).M :=
  ⟨fun t => 0.25 + meanMotion mu 1 * t, by intro t; simp [keplerStep_eq]⟩


/-! ## Propagation to a date: `delta_t` is the difference of INSTANTS, whatever the two scales

`Orbit.propagate` is handed a `Date` (in any of the six scales) or a `timedelta`; the epoch of the orbit is a `Date` in any
of the six scales.  `keplerDeltaT`, `j2DeltaT`, `keplerTdTarget`, `j2TdTarget` are translated from the head of
`Kepler.propagate` / `J2.propagate` on every run (the extractor refuses any arithmetic on a date's own-scale clock fields);
the dates are those of the C03 model (`Model/Date.lean`: `inst` = ticks of 10⁻⁷ s on the reference scale TAI, `scale` = the
label), so every statement below quantifies over **all pairs of scales** of epoch and target. -/

theorem tdTotalSeconds_eq (us : ℤ) : tdTotalSeconds us = (us : ℝ) / 1000000 := rfl

theorem tdTotalSeconds_add (a b : ℤ) : tdTotalSeconds (a + b) = tdTotalSeconds a + tdTotalSeconds b := by
  simp only [tdTotalSeconds_eq]; push_cast; ring

/-- what both propagators compute as `delta_t` (re-proved against the regenerated definitions on every run): the seconds of
the timedelta `date − epoch`, which `Date.__sub__` takes between the reference-scale (TAI) datetimes -/
theorem deltaT_eq (date epoch : Date.Date) :
    keplerDeltaT date epoch = ((Date.subDate date epoch : ℤ) : ℝ) / 1000000 ∧
    j2DeltaT date epoch = ((Date.subDate date epoch : ℤ) : ℝ) / 1000000 := by
  constructor <;> simp [keplerDeltaT, j2DeltaT, tdTotalSeconds_eq]

/-- the spans of consecutive legs add up exactly, for any three dates in any scales -/
theorem deltaT_telescope (e d₁ d₂ : Date.Date) :
    keplerDeltaT d₁ e + keplerDeltaT d₂ d₁ = keplerDeltaT d₂ e ∧ j2DeltaT d₁ e + j2DeltaT d₂ d₁ = j2DeltaT d₂ e := by
  simp only [(deltaT_eq _ _).1, (deltaT_eq _ _).2, Date.subDate]; push_cast
  constructor <;> ring

theorem deltaT_self (d : Date.Date) : keplerDeltaT d d = 0 ∧ j2DeltaT d d = 0 := by
  simp [(deltaT_eq _ _).1, (deltaT_eq _ _).2, Date.subDate]

/-- ten times the microsecond difference is the difference of the instants (ticks) when both dates are whole microseconds -/
theorem subDate_inst (date epoch : Date.Date) (hd : date.s % 10 = 0) (he : epoch.s % 10 = 0) :
    10 * Date.subDate date epoch = date.inst - epoch.inst := by
  have e1 := Date.roundUs_exact hd
  have e2 := Date.roundUs_exact he
  simp only [Date.subDate, Date.Date.datetimeRef, Date.Date.inst, Date.D, Date.DUS] at *
  omega

/-- … and within one microsecond of it for arbitrary dates (UT1, TDB: offsets that are not whole microseconds) -/
theorem subDate_inst_bound (date epoch : Date.Date) :
    -10 ≤ 10 * Date.subDate date epoch - (date.inst - epoch.inst) ∧ 10 * Date.subDate date epoch - (date.inst - epoch.inst) ≤ 10 := by
  have e1 := Date.roundUs_bound date.s
  have e2 := Date.roundUs_bound epoch.s
  simp only [Date.subDate, Date.Date.datetimeRef, Date.Date.inst, Date.D, Date.DUS] at *
  omega

/-- **`delta_t` is the elapsed time between the two instants** — seconds = ticks / 10⁷ — for an epoch and a target given in
ANY pair of scales (`date.scale`, `epoch.scale` are unconstrained; the offsets `date.off`, `epoch.off` of the two scales do
not occur). -/
theorem deltaT_eq_instant_diff (date epoch : Date.Date) (hd : date.s % 10 = 0) (he : epoch.s % 10 = 0) :
    keplerDeltaT date epoch = ((date.inst - epoch.inst : ℤ) : ℝ) / 10000000 ∧
    j2DeltaT date epoch = ((date.inst - epoch.inst : ℤ) : ℝ) / 10000000 := by
  rw [(deltaT_eq _ _).1, (deltaT_eq _ _).2, ← subDate_inst date epoch hd he]
  push_cast
  constructor <;> ring

/-- **Kepler, target and epoch in any pair of scales: a, e, i, node, perigee unchanged, the mean anomaly advanced by n times
the time elapsed between the two INSTANTS, the result stamped with the requested date.** -/
theorem kepler_M_advance_dates (mu : ℝ) (o : Orb) (date : Date.Date) (hmu : 0 < mu) (ha : o.elts.a ≠ 0)
    (hd : date.s % 10 = 0) (he : o.date.s % 10 = 0) :
    (keplerTo mu o date).elts.M
        = o.elts.M + Real.sqrt (mu / |o.elts.a| ^ 3) * (((date.inst - o.date.inst : ℤ) : ℝ) / 10000000) ∧
    (keplerTo mu o date).elts.a = o.elts.a ∧ (keplerTo mu o date).elts.e = o.elts.e ∧ (keplerTo mu o date).elts.i = o.elts.i ∧
    (keplerTo mu o date).elts.raan = o.elts.raan ∧ (keplerTo mu o date).elts.argp = o.elts.argp ∧
    (keplerTo mu o date).date = date := by
  refine ⟨?_, ?_⟩
  · simp only [keplerTo]
    rw [kepler_M_advance mu o.elts _ hmu ha, (deltaT_eq_instant_diff date o.date hd he).1]
  · simp [keplerTo, keplerStep]

/-- the same for arbitrary dates (no microsecond hypothesis), in microseconds of the `timedelta` -/
theorem kepler_M_advance_dates_us (mu : ℝ) (o : Orb) (date : Date.Date) (hmu : 0 < mu) (ha : o.elts.a ≠ 0) :
    (keplerTo mu o date).elts.M
        = o.elts.M + Real.sqrt (mu / |o.elts.a| ^ 3) * (((Date.subDate date o.date : ℤ) : ℝ) / 1000000) := by
  simp only [keplerTo]
  rw [kepler_M_advance mu o.elts _ hmu ha, (deltaT_eq date o.date).1]

/-- the hypotheses are satisfiable by dates in two DIFFERENT scales: an epoch labelled 2 (UTC) with offset 37 s and a target
labelled 5 (TT) with offset 32.184 s, 10 s of TAI later -/
example : (keplerTo 4 ⟨⟨1, 0.5, 1, 2, 3, 0.25⟩, ⟨58000, 370000000, 370000000, 2, ⟨370000000, 0⟩⟩⟩
    ⟨58000, 470000000, 321840000, 5, ⟨370000000, 0⟩⟩).elts.M = 0.25 + 2 * 10 := by
  rw [(kepler_M_advance_dates _ _ _ (by norm_num) (by norm_num) (by decide) (by decide)).1]
  norm_num [sqrt_four, Date.Date.inst, Date.D]

/-- **The offsets of the two scales enter the span**: for an epoch built as `Date(datetime, scale=E)` and a target built as
`Date(datetime, scale=T)` from the clock readings `usE`, `usT` (µs) — any two scales, any Earth-orientation environment, the
offsets `TAI − E`, `TAI − T` (ticks) being whole microseconds — the mean anomaly advances by
`n · ((usT + (TAI − T)) − (usE + (TAI − E)))`: the difference of the clock READINGS alone (what the own-scale fields
`date.d`, `date.s` give) is off by the difference of the two offsets, e.g. 32.184 s for UTC → TT without Earth-orientation data. -/
theorem kepler_M_advance_readings {env : Date.Env} (mu : ℝ) (x : Elts) (scE scT : Nat) (usE usT : ℤ) (e t : Date.Date)
    (hE : Date.ofDatetime Date.cfg env scE usE = .ok e) (hT : Date.ofDatetime Date.cfg env scT usT = .ok t)
    (hoE : e.off % 10 = 0) (hoT : t.off % 10 = 0) (hmu : 0 < mu) (ha : x.a ≠ 0) :
    e.scale = scE ∧ t.scale = scT ∧
    (keplerTo mu ⟨x, e⟩ t).elts.M
      = x.M + Real.sqrt (mu / |x.a| ^ 3) * ((((10 * usT + t.off) - (10 * usE + e.off) : ℤ) : ℝ) / 10000000) := by
  obtain ⟨hwE, hsE, hiE⟩ := Date.ofDatetime_spec hE
  obtain ⟨hwT, hsT, hiT⟩ := Date.ofDatetime_spec hT
  have h10 : ∀ (y : Date.Date), Date.WF Date.cfg env y → ∀ us : ℤ, y.inst = 10 * us + y.off → y.off % 10 = 0 → y.s % 10 = 0 := by
    intro y hy us hi ho
    have := hy.s_nonneg; have := hy.s_lt
    simp only [Date.Date.inst, Date.D] at *
    omega
  refine ⟨hsE, hsT, ?_⟩
  rw [(kepler_M_advance_dates mu ⟨x, e⟩ t hmu ha (h10 t hwT usT hiT hoT) (h10 e hwE usE hiE hoE)).1]
  simp only [hiT, hiE]

/-- the offset to TAI a TT date carries is −32.184 s, a UTC date carries `TAI − UTC` of its Earth-orientation record
(`C03.offset_TT_TAI`, `C03.offset_TAI_UTC`, `C03.offset_antisymm`, on the scale graph regenerated from the source) -/
theorem off_TT_UTC {env : Date.Env} {x : Date.Date} (hx : Date.WF Date.cfg env x) :
    (x.scale = C03.ix "TT" → x.off = -321840000) ∧ (x.scale = C03.ix "UTC" → x.off = x.eop.taiUtc) := by
  obtain ⟨num, h⟩ := hx.off_eq
  have href : Date.cfg.ref = C03.ix "TAI" := by decide
  rw [href] at h
  constructor
  · intro hs
    rw [hs] at h
    exact C03.offset_antisymm env num x.eop (C03.ix "TAI") (by decide) (C03.ix "TT") (by decide) _ _
      (C03.offset_TT_TAI env num x.eop) h
  · intro hs
    rw [hs] at h
    have := C03.offset_TAI_UTC env num x.eop
    rw [this] at h
    exact (Except.ok.inj h).symm

/-- **Epoch in UTC, target in TT** (the pair of the demonstration of seeded change m4): with clock readings `usE` (UTC) and
`usT` (TT), the mean anomaly advances by `n · (usT − usE − 32.184 s − (TAI − UTC))` — not by `n · (usT − usE)`. -/
theorem kepler_M_advance_UTC_to_TT {env : Date.Env} (mu : ℝ) (x : Elts) (usE usT : ℤ) (e t : Date.Date)
    (hE : Date.ofDatetime Date.cfg env (C03.ix "UTC") usE = .ok e) (hT : Date.ofDatetime Date.cfg env (C03.ix "TT") usT = .ok t)
    (hleap : e.eop.taiUtc % 10 = 0) (hmu : 0 < mu) (ha : x.a ≠ 0) :
    (keplerTo mu ⟨x, e⟩ t).elts.M
      = x.M + Real.sqrt (mu / |x.a| ^ 3) * ((((usT - usE) * 10 - 321840000 - e.eop.taiUtc : ℤ) : ℝ) / 10000000) := by
  obtain ⟨hwE, hsE, _⟩ := Date.ofDatetime_spec hE
  obtain ⟨hwT, hsT, _⟩ := Date.ofDatetime_spec hT
  have hoE := (off_TT_UTC hwE).2 hsE
  have hoT := (off_TT_UTC hwT).1 hsT
  rw [(kepler_M_advance_readings mu x _ _ usE usT e t hE hT (by rw [hoE]; exact hleap) (by rw [hoT]; decide) hmu ha).2.2, hoE, hoT]
  have hint : (10 * usT + -321840000 - (10 * usE + e.eop.taiUtc) : ℤ) = (usT - usE) * 10 - 321840000 - e.eop.taiUtc := by omega
  rw [hint]

/-- a date is determined, as far as `−`, comparisons and the propagators go, by its instant: two dates at the same instant
(however labelled) have the same reference-scale datetime -/
theorem datetimeRef_of_inst (x y : Date.Date) (hx : 0 ≤ x.s ∧ x.s < Date.D) (hy : 0 ≤ y.s ∧ y.s < Date.D)
    (h : x.inst = y.inst) : x.datetimeRef = y.datetimeRef := by
  have : x.d = y.d ∧ x.s = y.s := by
    simp only [Date.Date.inst, Date.D] at *
    omega
  simp only [Date.Date.datetimeRef, this.1, this.2]

/-- **The result depends on the instants only, never on the scale labels**: the same orbit with its epoch relabelled,
propagated to the same instant given in another scale, gets the same elements — Kepler and J2. -/
theorem propagate_label_free (mu : ℝ) (o o' : Orb) (date date' : Date.Date) (helts : o.elts = o'.elts)
    (hs : (0 ≤ o.date.s ∧ o.date.s < Date.D) ∧ (0 ≤ o'.date.s ∧ o'.date.s < Date.D) ∧
          (0 ≤ date.s ∧ date.s < Date.D) ∧ (0 ≤ date'.s ∧ date'.s < Date.D))
    (hE : o.date.inst = o'.date.inst) (hD : date.inst = date'.inst) :
    (keplerTo mu o date).elts = (keplerTo mu o' date').elts ∧ (j2To mu o date).elts = (j2To mu o' date').elts := by
  have h1 := datetimeRef_of_inst _ _ hs.1 hs.2.1 hE
  have h2 := datetimeRef_of_inst _ _ hs.2.2.1 hs.2.2.2 hD
  simp only [keplerTo, j2To, (deltaT_eq _ _).1, (deltaT_eq _ _).2, Date.subDate, h1, h2, helts, and_self]

example : (⟨58000, 370000000, 370000000, 2, ⟨370000000, 0⟩⟩ : Date.Date).inst
    = (⟨58000, 370000000, 321840000, 5, ⟨370000000, 0⟩⟩ : Date.Date).inst := by decide

/-- **Composition through dates**: `propagate(d₁)` then `propagate(d₂)` = `propagate(d₂)`, exactly, for an epoch, an
intermediate date and a final date in any three scales, in any order in time. -/
theorem kepler_compose_dates (mu : ℝ) (o : Orb) (d₁ d₂ : Date.Date) :
    keplerTo mu (keplerTo mu o d₁) d₂ = keplerTo mu o d₂ := by
  simp only [keplerTo, kepler_compose, (deltaT_telescope o.date d₁ d₂).1]

/-- **Inverse through dates**: propagating to any date and back to the epoch returns the orbit. -/
theorem kepler_inverse_dates (mu : ℝ) (o : Orb) (d : Date.Date) : keplerTo mu (keplerTo mu o d) o.date = o := by
  rw [kepler_compose_dates]
  simp only [keplerTo, (deltaT_self o.date).1, kepler_zero]

/-! ### `timedelta` arguments: `date = self.orbit.date + date` first -/

/-- a `timedelta` argument is the propagation to the date `epoch + timedelta` (built in the epoch's own scale) -/
theorem timedelta_is_date {env : Date.Env} (mu : ℝ) (o : Orb) (td : ℤ) (d : Date.Date)
    (h : Date.add Date.cfg env o.date td = .ok d) :
    keplerToTd Date.cfg env mu o td = .ok (keplerTo mu o d) ∧ j2ToTd Date.cfg env mu o td = .ok (j2To mu o d) := by
  simp [keplerToTd, j2ToTd, keplerTdTarget, j2TdTarget, h]

/-- **`propagate(timedelta)` advances `M` by n times the timedelta** when the epoch is in a scale at a constant offset from
TAI (TAI, TT, GPS) — also across leap seconds and for every Earth-orientation environment (`C03.add_sub_const_scales`). -/
theorem kepler_M_advance_timedelta {env : Date.Env} (mu : ℝ) (o r : Orb) (td : ℤ) (hmu : 0 < mu) (ha : o.elts.a ≠ 0)
    (hx : Date.WF Date.cfg env o.date) (hus : o.date.s % 10 = 0) (hc : o.date.scale ∈ C03.constIx)
    (h : keplerToTd Date.cfg env mu o td = .ok r) :
    r.elts.M = o.elts.M + Real.sqrt (mu / |o.elts.a| ^ 3) * ((td : ℝ) / 1000000) := by
  simp only [keplerToTd, keplerTdTarget] at h
  split at h
  · next d hd =>
    have hsub := C03.add_sub_const_scales hx hus hc hd
    rw [← Except.ok.inj h, kepler_M_advance_dates_us mu o d hmu ha, hsub]
  · cases h

/-- … and in every scale (UTC in particular) when the new date has the same offset to TAI as the epoch — **UTC when no leap
second intervenes** (`C03.add_sub`). -/
theorem kepler_M_advance_timedelta_same_offset {env : Date.Env} (mu : ℝ) (o r : Orb) (td : ℤ) (hmu : 0 < mu)
    (ha : o.elts.a ≠ 0) (hx : Date.WF Date.cfg env o.date) (hus : o.date.s % 10 = 0)
    (h : keplerToTd Date.cfg env mu o td = .ok r) (hoff : r.date.off = o.date.off) :
    r.elts.M = o.elts.M + Real.sqrt (mu / |o.elts.a| ^ 3) * ((td : ℝ) / 1000000) := by
  simp only [keplerToTd, keplerTdTarget] at h
  split at h
  · next d hd =>
    have hr := Except.ok.inj h
    have hoff' : d.off = o.date.off := by rw [← hr] at hoff; simpa [keplerTo] using hoff
    have hsub := C03.add_sub hx hus hd hoff'
    rw [← hr, kepler_M_advance_dates_us mu o d hmu ha, hsub]
  · cases h

/-- two timedelta legs compose to the direct propagation to the final date (dates may fail to build; when they do not) -/
theorem kepler_compose_timedelta {env : Date.Env} (mu : ℝ) (o r₁ r₂ : Orb) (t₁ t₂ : ℤ)
    (h₁ : keplerToTd Date.cfg env mu o t₁ = .ok r₁) (h₂ : keplerToTd Date.cfg env mu r₁ t₂ = .ok r₂) :
    r₂ = keplerTo mu o r₂.date := by
  simp only [keplerToTd, keplerTdTarget] at h₁ h₂
  split at h₁
  · next d₁ _ =>
    split at h₂
    · next d₂ _ =>
      rw [← Except.ok.inj h₂, ← Except.ok.inj h₁, kepler_compose_dates]
      simp [keplerTo]
    · cases h₂
  · cases h₁

/-- **History independence with dates**: whatever the propagator object holds from earlier calls (elements or epoch), the
result is the propagation of the caller's orbit as it is now — current elements AND current epoch (in whatever scale it was
relabelled in place). -/
theorem propagateTo_history_independent (toF : Orb → Date.Date → Orb) (p p' : PropObjD) (o : Orb) (date : Date.Date) :
    (orbitPropagateTo toF p o date).2 = some (toF o date) ∧
    (orbitPropagateTo toF p o date).2 = (orbitPropagateTo toF p' o date).2 ∧
    (orbitPropagateTo toF p o date).1.orbit = some o := by
  simp [orbitPropagateTo]

/-! ## The propagator object: every propagation starts from the CURRENT state of the orbit -/

/-- **History independence**: whatever the propagator object holds from earlier calls (`p`, `p'`: any cached elements,
or none), `Orbit.propagate` re-reads the orbit, so the result is the update of the orbit's current elements `x` — an orbit
object that was propagated before and then modified in place propagates like a fresh one.  (`stepf` = `keplerStep µ` or
`j2Step µ`; tied to the code by the history cases of the correspondence run.) -/
theorem propagate_history_independent (stepf : Elts → ℝ → Elts) (p p' : PropObj) (x : Elts) (dt : ℝ) :
    (orbitPropagate stepf p x dt).2 = some (stepf x dt) ∧
    (orbitPropagate stepf p x dt).2 = (orbitPropagate stepf p' x dt).2 := by
  simp [orbitPropagate, PropObj.setOrbit]

/-- after a call the object holds the elements of that call's orbit, not of an earlier one -/
theorem propagate_overwrites_cache (stepf : Elts → ℝ → Elts) (p : PropObj) (x : Elts) (dt : ℝ) :
    (orbitPropagate stepf p x dt).1.orbit = some x := by
  simp [orbitPropagate, PropObj.setOrbit]

example : (orbitPropagate (keplerStep 4) ⟨some ⟨9, 0.1, 0, 0, 0, 0⟩⟩ ⟨1, 0.5, 1, 2, 3, 0.25⟩ 7).2
    = some (keplerStep 4 ⟨1, 0.5, 1, 2, 3, 0.25⟩ 7) :=
  (propagate_history_independent _ _ ⟨none⟩ _ _).1

/-! ## The final conversion: the Newton loop of `Form.M2E` is left on convergence only

`kpM2eStart / kpM2eNext / kpM2eTol / kpM2eContinue` are translated from forms.py on every run; the extractor refuses any
loop other than `X1 = next(X); while abs(X1 - X) >= tol: X = X1; X1 = next(X); return X1` (e.g. an iteration cap). -/

/-- **Exit condition**: for every fuel, both conics, every start value, a returned value is a Newton update `next X` of an
iterate `X` from which it differs by less than `tol`. -/
theorem kpM2eLoop_exit (fuel : Nat) (e M X X1 R : ℝ) (hX : X1 = kpM2eNext X e M) (h : kpM2eLoop fuel e M X X1 = some R) :
    ∃ Xp, R = kpM2eNext Xp e M ∧ |R - Xp| < kpM2eTol := by
  induction fuel generalizing X X1 with
  | zero => simp [kpM2eLoop] at h
  | succ n ih =>
    simp only [kpM2eLoop, kpM2eContinue, absR] at h
    split_ifs at h with hc
    · exact ih X1 (kpM2eNext X1 e M) rfl h
    · refine ⟨X, ?_, ?_⟩
      · rw [← hX]; exact (Option.some.inj h).symm
      · rw [← Option.some.inj h]; exact not_le.mp hc

theorem kpM2eTol_pos : (0 : ℝ) < kpM2eTol := by unfold kpM2eTol; norm_num

/-- residual after the loop, ellipse, any start value `X0`, any anomaly `M` the loop works on -/
theorem m2e_loop_residual_elliptic (fuel : Nat) (e M X0 E : ℝ) (h0 : 0 ≤ e) (h1 : e < 1)
    (h : kpM2eLoop fuel e M X0 (kpM2eNext X0 e M) = some E) :
    |E - e * Real.sin E - M| < 2 * kpM2eTol * (1 + e) := by
  obtain ⟨X, hR, hd⟩ := kpM2eLoop_exit fuel e M _ _ E rfl h
  have hD : 0 < 1 - e * Real.cos X := by nlinarith [Real.neg_one_le_cos X, Real.cos_le_one X]
  have hD2 : 1 - e * Real.cos X ≤ 1 + e := by nlinarith [Real.neg_one_le_cos X, Real.cos_le_one X]
  simp only [kpM2eNext, if_pos h1, cos, sin] at hR
  have hstep : (E - X) * (1 - e * Real.cos X) = M - X + e * Real.sin X := by
    rw [hR]; field_simp; ring
  have hres : |M - X + e * Real.sin X| < kpM2eTol * (1 + e) := by
    rw [← hstep, abs_mul, abs_of_pos hD]
    calc |E - X| * (1 - e * Real.cos X) ≤ |E - X| * (1 + e) := by gcongr
      _ < kpM2eTol * (1 + e) := by gcongr
  have hsin := Real.abs_sin_sub_sin_le E X
  have key : E - e * Real.sin E - M = (E - X) - e * (Real.sin E - Real.sin X) - (M - X + e * Real.sin X) := by ring
  rw [key]
  have h3 : |e * (Real.sin E - Real.sin X)| ≤ e * |E - X| := by
    rw [abs_mul, abs_of_nonneg h0]; gcongr
  have hT := kpM2eTol_pos
  calc |E - X - e * (Real.sin E - Real.sin X) - (M - X + e * Real.sin X)|
      ≤ |E - X - e * (Real.sin E - Real.sin X)| + |M - X + e * Real.sin X| := abs_sub _ _
    _ ≤ |E - X| + |e * (Real.sin E - Real.sin X)| + |M - X + e * Real.sin X| := by gcongr; exact abs_sub _ _
    _ < 2 * kpM2eTol * (1 + e) := by nlinarith

/-- the number of whole revolutions `Form.M2E` sets aside for an ellipse -/
def revsOf (M : ℝ) : ℤ := ⌊(M + Real.pi) / (2 * Real.pi)⌋

theorem reduced_mem (M : ℝ) : -Real.pi ≤ M - 2 * Real.pi * revsOf M ∧ M - 2 * Real.pi * revsOf M < Real.pi := by
  have hp := Real.pi_pos
  have h2 : (0 : ℝ) < 2 * Real.pi := by positivity
  have hl := Int.floor_le ((M + Real.pi) / (2 * Real.pi))
  have hu := Int.lt_floor_add_one ((M + Real.pi) / (2 * Real.pi))
  rw [le_div_iff₀ h2] at hl
  rw [div_lt_iff₀ h2] at hu
  unfold revsOf
  constructor <;> nlinarith

/-- **What `Form.M2E` computes for an ellipse** (the code after fix b41fd8b): the anomaly is reduced to `[-π, π)`, the
Newton loop runs on the reduced anomaly from the start value `M' ∓ e`, and the whole revolutions are added back. -/
theorem kpM2e_elliptic_spec (fuel : Nat) (e M E : ℝ) (h1 : e < 1) (h : kpM2e fuel e M = some E) :
    ∃ X1, kpM2eLoop fuel e (M - 2 * Real.pi * revsOf M) (kpM2eStart e (M - 2 * Real.pi * revsOf M))
        (kpM2eNext (kpM2eStart e (M - 2 * Real.pi * revsOf M)) e (M - 2 * Real.pi * revsOf M)) = some X1 ∧
      E = X1 + 2 * Real.pi * revsOf M := by
  simp only [kpM2e, kpM2eArg, kpM2eOffset, kpM2eResult, if_pos h1, Option.map_eq_some_iff, floorR, pi] at h
  obtain ⟨X1, hl, hE⟩ := h
  exact ⟨X1, hl, hE.symm⟩

/-- **The propagated state's eccentric anomaly solves Kepler's equation for the advanced mean anomaly** (bound orbits; every
fuel; hypothesis: the loop exited — see `kepler_m2e_terminates_partial` for when it does):
`|E − e sin E − (M + n Δt)| < 2·tol·(1 + e)`, `tol` = 1e-8 in the source. -/
theorem kepler_anomaly_residual (fuel : Nat) (mu : ℝ) (x : Elts) (dt E : ℝ) (h0 : 0 ≤ x.e) (h1 : x.e < 1)
    (h : kpM2e fuel x.e (keplerStep mu x dt).M = some E) :
    |E - x.e * Real.sin E - (x.M + meanMotion mu x.a * dt)| < 2 * kpM2eTol * (1 + x.e) := by
  have hM : (keplerStep mu x dt).M = x.M + meanMotion mu x.a * dt := by simp [keplerStep_eq]
  rw [hM] at h
  generalize x.M + meanMotion mu x.a * dt = M at h ⊢
  generalize x.e = e at h h0 h1 ⊢
  obtain ⟨X1, hl, hE⟩ := kpM2e_elliptic_spec fuel e M E h1 h
  have hr := m2e_loop_residual_elliptic fuel e _ _ X1 h0 h1 hl
  have hs : Real.sin (X1 + 2 * Real.pi * revsOf M) = Real.sin X1 := by
    rw [mul_comm (2 * Real.pi)]; exact Real.sin_add_int_mul_two_pi X1 _
  rw [hE, hs]
  have : X1 + 2 * Real.pi * ↑(revsOf M) - e * Real.sin X1 - M = X1 - e * Real.sin X1 - (M - 2 * Real.pi * ↑(revsOf M)) := by ring
  rw [this]; exact hr

/-! ### Termination of the Newton loop (ellipse, reduced anomaly) -/

theorem kpM2eNext_eq_G (e M X : ℝ) (h1 : e < 1) : kpM2eNext X e M = NewtonKepler.G e M X := by
  simp [kpM2eNext, if_pos h1, NewtonKepler.G]

/-- if the first short step of the iterates from `X` occurs at index `n`, the loop returns iterate `n + 1` for every
fuel `> n` -/
theorem loop_returns (e M : ℝ) (h1 : e < 1) : ∀ (n : ℕ) (X : ℝ),
    (∀ j < n, kpM2eTol ≤ |NewtonKepler.iter e M X (j + 1) - NewtonKepler.iter e M X j|) →
    |NewtonKepler.iter e M X (n + 1) - NewtonKepler.iter e M X n| < kpM2eTol →
    ∀ fuel, n + 1 ≤ fuel → kpM2eLoop fuel e M X (kpM2eNext X e M) = some (NewtonKepler.iter e M X (n + 1)) := by
  intro n
  induction n with
  | zero =>
    intro X _ hs fuel hf
    obtain ⟨f, rfl⟩ : ∃ f, fuel = f + 1 := ⟨fuel - 1, by omega⟩
    have hs' : ¬ (|kpM2eNext X e M - X| ≥ kpM2eTol) := by
      rw [kpM2eNext_eq_G e M X h1]; exact not_le.mpr hs
    simp only [kpM2eLoop, kpM2eContinue, absR, if_neg hs']
    rw [kpM2eNext_eq_G e M X h1]; rfl
  | succ n ih =>
    intro X hl hs fuel hf
    obtain ⟨f, rfl⟩ : ∃ f, fuel = f + 1 := ⟨fuel - 1, by omega⟩
    have h0 : |kpM2eNext X e M - X| ≥ kpM2eTol := by
      rw [kpM2eNext_eq_G e M X h1]; exact hl 0 (Nat.succ_pos n)
    simp only [kpM2eLoop, kpM2eContinue, absR, if_pos h0]
    have := ih (NewtonKepler.G e M X)
      (fun j hj => by rw [← NewtonKepler.iter_shift, ← NewtonKepler.iter_shift]; exact hl (j + 1) (Nat.succ_lt_succ hj))
      (by rw [← NewtonKepler.iter_shift, ← NewtonKepler.iter_shift]; exact hs) f (by omega)
    rw [kpM2eNext_eq_G e M X h1, this, ← NewtonKepler.iter_shift]

/-- the loop is symmetric under `(M, X) ↦ (−M, −X)` -/
theorem kpM2eNext_neg (e M X : ℝ) (h1 : e < 1) : kpM2eNext (-X) e (-M) = -kpM2eNext X e M := by
  simp only [kpM2eNext, if_pos h1, sin, cos, Real.sin_neg, Real.cos_neg]; ring

theorem kpM2eLoop_neg (e M : ℝ) (h1 : e < 1) : ∀ (fuel : ℕ) (X X1 : ℝ),
    kpM2eLoop fuel e (-M) (-X) (-X1) = (kpM2eLoop fuel e M X X1).map (fun r => -r) := by
  intro fuel
  induction fuel with
  | zero => intro X X1; simp [kpM2eLoop]
  | succ f ih =>
    intro X X1
    have habs : |(-X1) - (-X)| = |X1 - X| := by rw [← abs_neg]; congr 1; ring
    simp only [kpM2eLoop, kpM2eContinue, absR, habs, kpM2eNext_neg e M X1 h1, ih]
    split_ifs <;> simp

/- Full statement: "for every bound orbit and every Δt, `M2E` returns (and the anomaly solves Kepler's equation)".
   Proved below over ℝ for reduced anomalies `|M'| ≤ π − e` (the start value `M' ± e` lies in `[-π, π]`, where Kepler's
   function is increasing and convex/concave towards the root: monotone Newton descent, at most `e/tol + 1` passes).
   The gap `π − e < |M'| ≤ π` (within `e` of apogee the start value overshoots ±π into the region of the other curvature) is
   closed in Props/C05Term.lean (`kepler_m2e_terminates`, every `M`; hyperbolas: `kepler_m2e_terminates_hyperbolic`); what
   remains is the double-precision iteration itself (ℝ → double; covered by the watchdog families and the correspondence). -/
/-- **Termination of `Form.M2E` for bound orbits (after fix b41fd8b), partial**: for `0 ≤ e < 1` and any mean anomaly `M`
whose reduction `M' = M − 2π⌊(M+π)/2π⌋ ∈ [-π, π)` satisfies `|M'| ≤ π − e`, the loop exits within `e/tol + 2` passes:
`M2E` returns a value — which then solves Kepler's equation within `2·tol·(1+e)` (`kepler_anomaly_residual`).  Before the
fix the loop ran on the unreduced `M`, for which this is false (attracting cycles, e.g. e = 0.82598, M = 25.953). -/
theorem kepler_m2e_terminates_partial (e M : ℝ) (h0 : 0 ≤ e) (h1 : e < 1)
    (hM : |M - 2 * Real.pi * revsOf M| ≤ Real.pi - e) :
    ∃ fuel E, kpM2e fuel e M = some E ∧ |E - e * Real.sin E - M| < 2 * kpM2eTol * (1 + e) := by
  -- it suffices to make the loop on the reduced anomaly return
  suffices hloop : ∃ fuel X1, kpM2eLoop fuel e (M - 2 * Real.pi * revsOf M) (kpM2eStart e (M - 2 * Real.pi * revsOf M))
      (kpM2eNext (kpM2eStart e (M - 2 * Real.pi * revsOf M)) e (M - 2 * Real.pi * revsOf M)) = some X1 by
    obtain ⟨fuel, X1, hl⟩ := hloop
    refine ⟨fuel, X1 + 2 * Real.pi * revsOf M, ?_, ?_⟩
    · simp only [kpM2e, kpM2eArg, kpM2eOffset, kpM2eResult, if_pos h1, floorR, pi]
      have : (⌊(M + Real.pi) / (2 * Real.pi)⌋ : ℤ) = revsOf M := rfl
      rw [this, hl]; rfl
    · have hr := m2e_loop_residual_elliptic fuel e _ _ X1 h0 h1 hl
      have hs : Real.sin (X1 + 2 * Real.pi * revsOf M) = Real.sin X1 := by
        rw [mul_comm (2 * Real.pi)]; exact Real.sin_add_int_mul_two_pi X1 _
      rw [hs]
      have : X1 + 2 * Real.pi * ↑(revsOf M) - e * Real.sin X1 - M = X1 - e * Real.sin X1 - (M - 2 * Real.pi * ↑(revsOf M)) := by ring
      rw [this]; exact hr
  generalize M - 2 * Real.pi * revsOf M = Mr at hM
  have hpi := Real.pi_pos
  -- the case 0 ≤ Mr, start value Mr + e
  have pos : ∀ m : ℝ, 0 ≤ m → m + e ≤ Real.pi → ∃ fuel X1, kpM2eLoop fuel e m (m + e) (kpM2eNext (m + e) e m) = some X1 := by
    intro m hm0 hme
    obtain ⟨n, hl, hs, _⟩ := NewtonKepler.exists_short_step (e := e) (M := m) h0 h1 hm0 hme kpM2eTol_pos
    exact ⟨n + 1, _, loop_returns e m h1 n (m + e) hl hs (n + 1) le_rfl⟩
  rcases le_or_gt 0 Mr with hpos | hneg
  · have hme : Mr + e ≤ Real.pi := by have := le_abs_self Mr; linarith
    have hstart : kpM2eStart e Mr = Mr + e := by
      have hc : ¬ ((-Real.pi < Mr ∧ Mr < 0) ∨ Mr > Real.pi) := by
        rintro (⟨_, h⟩ | h) <;> linarith
      simp only [kpM2eStart, if_pos h1, pi, if_neg hc]
    rw [hstart]; exact pos Mr hpos hme
  · have hme : -Mr + e ≤ Real.pi := by have := neg_abs_le Mr; linarith
    have hstart : kpM2eStart e Mr = -(-Mr + e) := by
      by_cases hc : (-Real.pi < Mr ∧ Mr < 0) ∨ Mr > Real.pi
      · simp only [kpM2eStart, if_pos h1, pi, if_pos hc]; ring
      · -- only `Mr = -π`, which forces `e = 0`: both start values coincide
        have hle : Mr ≤ -Real.pi := by
          by_contra hlt
          exact hc (Or.inl ⟨not_le.mp hlt, hneg⟩)
        have he : e = 0 := le_antisymm (by linarith) h0
        simp only [kpM2eStart, if_pos h1, pi, if_neg hc]; rw [he]; ring
    obtain ⟨fuel, X1, hl⟩ := pos (-Mr) (by linarith) hme
    refine ⟨fuel, -X1, ?_⟩
    rw [hstart]
    have hsym := kpM2eLoop_neg e (-Mr) h1 fuel (-Mr + e) (kpM2eNext (-Mr + e) e (-Mr))
    rw [neg_neg, ← kpM2eNext_neg e (-Mr) (-Mr + e) h1, neg_neg, hl] at hsym
    simpa using hsym

/-- the hypothesis is satisfiable by a non-trivial value: `e = 0.5`, `M = 7` (one revolution on, `M' = 7 − 2π ≈ 0.717`) -/
example : ∃ M' : ℝ, |M'| ≤ Real.pi - 0.5 ∧ 0 < M' := ⟨1, by rw [abs_one]; linarith [Real.two_le_pi], one_pos⟩

/-- the loop does return values: circular orbit, `M = 0`: one test of the exit condition -/
example : kpM2e 1 0 0 = some 0 := by
  have hp := Real.pi_pos
  have hf : ⌊Real.pi / (2 * Real.pi)⌋ = 0 := by
    rw [Int.floor_eq_zero_iff]; constructor
    · positivity
    · rw [div_lt_one (by positivity)]; linarith
  have ha : kpM2eArg 0 0 = 0 := by simp [kpM2eArg, floorR, pi, hf]
  have ho : kpM2eOffset 0 0 = 0 := by simp [kpM2eOffset, floorR, pi, hf]
  simp [kpM2e, ha, ho, kpM2eLoop, kpM2eStart, kpM2eNext, kpM2eContinue, kpM2eTol, kpM2eResult]
  norm_num

/-! ## Kepler — cartesian level, through the form round trip (hypotheses from C01)

`toMean` is the orbit setter of the propagator (`orbit.copy(form="keplerian_mean")`), `toCart` the final
`new.copy(form="cartesian")`.  `D` is the set of mean-element states on which C01's round trip holds
(closed under propagation because the five shape elements do not move); `P k` says which whole-turn
shifts the round trip may introduce: every `k` for ellipses (the conversion returns `M ∈ [0, 2π)`),
only `k = 0` for hyperbolas. -/
section cart
variable {C : Type} (toCart : Elts → C) (toMean : C → Elts) (D : Elts → Prop) (P : ℤ → Prop) (mu : ℝ)

/-- `Orbit.propagate` of the Kepler propagator: cartesian in, cartesian out -/
def cartPropagate (c : C) (t : ℝ) : C := toCart (keplerStep mu (toMean c) t)

/-- **Composition at cartesian level.**  `hRT`: mean → cartesian → mean returns the same elements up to a
whole-turn shift of `M` allowed by `P`; `hPer`: such a shift does not change the cartesian state. -/
theorem kepler_cart_compose
    (hD : ∀ x t, D x → D (keplerStep mu x t))
    (hRT : ∀ x, D x → ∃ k, P k ∧ toMean (toCart x) = shiftM x k)
    (hPer : ∀ x k, D x → P k → toCart (shiftM x k) = toCart x)
    (c : C) (hc : D (toMean c)) (t₁ t₂ : ℝ) :
    cartPropagate toCart toMean mu (cartPropagate toCart toMean mu c t₁) t₂
      = cartPropagate toCart toMean mu c (t₁ + t₂) := by
  unfold cartPropagate
  obtain ⟨k, hk, hrt⟩ := hRT _ (hD _ t₁ hc)
  rw [hrt, keplerStep_shiftM, hPer _ k (hD _ t₂ (hD _ t₁ hc)) hk, kepler_compose]

/-- **Inverse at cartesian level**: for a state `c = toCart x` produced from admissible elements,
`propagate(t)` then `propagate(-t)` returns `c`.  `hDs`: the admissible set does not depend on the turn count of `M`. -/
theorem kepler_cart_inverse
    (hD : ∀ x t, D x → D (keplerStep mu x t))
    (hDs : ∀ x k, D x → P k → D (shiftM x k))
    (hRT : ∀ x, D x → ∃ k, P k ∧ toMean (toCart x) = shiftM x k)
    (hPer : ∀ x k, D x → P k → toCart (shiftM x k) = toCart x)
    (x : Elts) (hx : D x) (t : ℝ) :
    cartPropagate toCart toMean mu (cartPropagate toCart toMean mu (toCart x) t) (-t) = toCart x := by
  unfold cartPropagate
  obtain ⟨k, hk, hrt⟩ := hRT x hx
  rw [hrt, keplerStep_shiftM]
  have hy : D (shiftM (keplerStep mu x t) k) := hDs _ k (hD x t hx) hk
  obtain ⟨k', hk', hrt'⟩ := hRT _ hy
  rw [hrt', keplerStep_shiftM, hPer _ k' (hD _ _ hy) hk', keplerStep_shiftM, kepler_inverse, hPer x k hx hk]

/-- **Periodicity at cartesian level** (bound orbits: the round trip may shift `M` by any number of turns and
the mean → cartesian conversion is 2π-periodic in `M`, cf. `kepler_equation_equivariant`): propagating a state
by `k` periods `2π/n` returns the same cartesian state. -/
theorem kepler_cart_periodic
    (hRT : ∀ x, D x → ∃ k, toMean (toCart x) = shiftM x k)
    (hPer : ∀ x k, D x → toCart (shiftM x k) = toCart x)
    (x : Elts) (hx : D x) (hmu : 0 < mu) (ha : x.a ≠ 0) (k : ℤ) :
    cartPropagate toCart toMean mu (toCart x) (k * (2 * Real.pi / meanMotion mu x.a)) = toCart x := by
  unfold cartPropagate
  obtain ⟨l, hrt⟩ := hRT x hx
  rw [hrt, keplerStep_shiftM, kepler_periodic_k mu x hmu ha, shiftM_shiftM, hPer x _ hx]

/-- the hypotheses are satisfiable: exact conversions (`toCart = toMean = id`, only the shift `k = 0`) on the
set of bound orbits -/
example (mu : ℝ) (x : Elts) (hx : 0 < x.a ∧ x.e < 1) (t₁ t₂ : ℝ) :
    cartPropagate id id mu (cartPropagate id id mu x t₁) t₂ = cartPropagate id id mu x (t₁ + t₂) :=
  kepler_cart_compose id id (fun x => 0 < x.a ∧ x.e < 1) (fun k => k = 0) mu
    (fun x t h => by simpa [keplerStep_eq] using h)
    (fun x _ => ⟨0, rfl, by simp [shiftM_zero]⟩)
    (fun x k _ hk => by subst hk; simp [shiftM_zero]) x hx t₁ t₂

end cart

/-! ## J2 — `new = orbit[:] + delta; new[3:] %= 2π`, `delta` regenerated from j2.py -/

/-- semi-latus rectum `p = a (1 − e²)` -/
def semiLatus (a e : ℝ) : ℝ := a * (1 - e ^ 2)

/-- first-order secular node rate `−(3/2) J₂ (Rₑ/p)² n cos i` -/
def nodeRate (mu a e i : ℝ) : ℝ :=
  -(3 / 2) * earthJ2 * (earthR / semiLatus a e) ^ 2 * meanMotion mu a * Real.cos i
/-- first-order secular perigee rate `(3/4) J₂ (Rₑ/p)² n (5 cos² i − 1)` -/
def perigeeRate (mu a e i : ℝ) : ℝ :=
  3 / 4 * earthJ2 * (earthR / semiLatus a e) ^ 2 * meanMotion mu a * (5 * Real.cos i ^ 2 - 1)
/-- first-order secular mean-anomaly rate `n (1 + (3/4) J₂ (Rₑ/p)² √(1−e²) (3 cos² i − 1))` -/
def meanAnomalyRate (mu a e i : ℝ) : ℝ :=
  meanMotion mu a * (1 + 3 / 4 * earthJ2 * (earthR / semiLatus a e) ^ 2 * Real.sqrt (1 - e ^ 2) * (3 * Real.cos i ^ 2 - 1))

/-- the rate of element `k` as written in j2.py (`delta` for a unit interval) -/
def rawRate (mu a e i : ℝ) (k : Nat) : ℝ := (j2Delta mu a e i 1).getD k 0

/-- **J2: the increments are linear in Δt** (all inputs). -/
theorem j2_linear_in_dt (mu a e i dt : ℝ) :
    j2Delta mu a e i dt = (j2Delta mu a e i 1).map (· * dt) := by
  simp [j2Delta]

/-- **J2: the three secular rates are the first-order expressions** (and the rates of a, e, i are 0), for
every bound orbit (`µ > 0`, `a > 0`, `0 ≤ e < 1`: the guards of the divisions and square roots), every inclination. -/
theorem j2_rates_formula (mu a e i : ℝ) (hmu : 0 < mu) (ha0 : 0 < a) (he0 : 0 ≤ e) (he1 : e < 1) :
    j2Delta mu a e i 1 = [0, 0, 0, nodeRate mu a e i, perigeeRate mu a e i, meanAnomalyRate mu a e i] := by
  have ha : a ≠ 0 := ha0.ne'
  have h1 : (1 - e ^ 2) ≠ 0 := by nlinarith
  simp only [j2Delta, nodeRate, perigeeRate, meanAnomalyRate, semiLatus, powi, List.cons.injEq, and_true]
  refine ⟨by norm_num, by norm_num, by norm_num, ?_, ?_, ?_⟩
  · field_simp
  · rw [Real.sin_sq]; field_simp; ring
  · rw [Real.sin_sq]; field_simp; ring

example : (0 : ℝ) < 398600.0e9 ∧ (0 : ℝ) < 7000000 ∧ (0 : ℝ) ≤ 0.1 ∧ (0.1 : ℝ) < 1 := by norm_num

theorem twoPi_pos : 0 < twoPi := by unfold twoPi; have := Real.pi_pos; positivity

/-- normal form of `j2Step` -/
theorem j2Step_eq (mu : ℝ) (x : Elts) (dt : ℝ) :
    j2Step mu x dt =
      { a := x.a, e := x.e, i := x.i,
        raan := fmod (x.raan + rawRate mu x.a x.e x.i 3 * dt) twoPi,
        argp := fmod (x.argp + rawRate mu x.a x.e x.i 4 * dt) twoPi,
        M := fmod (x.M + rawRate mu x.a x.e x.i 5 * dt) twoPi } := by
  simp [j2Step, j2Delta, rawRate]; norm_num

/-- **J2 propagation keeps a, e, i constant** (all inputs, all Δt). -/
theorem j2_aei_constant (mu : ℝ) (x : Elts) (dt : ℝ) :
    (j2Step mu x dt).a = x.a ∧ (j2Step mu x dt).e = x.e ∧ (j2Step mu x dt).i = x.i := by
  simp [j2Step_eq]

/-! ### Python's `%` on reals -/

theorem fmod_add_int_mul (y m : ℝ) (hm : m ≠ 0) (k : ℤ) : fmod (y + m * k) m = fmod y m := by
  unfold fmod
  have : (y + m * k) / m = y / m + k := by field_simp
  rw [this, Int.floor_add_intCast]; push_cast; ring

theorem fmod_fmod_add (y z m : ℝ) (hm : m ≠ 0) : fmod (fmod y m + z) m = fmod (y + z) m := by
  have : fmod y m + z = (y + z) + m * ((-⌊y / m⌋ : ℤ) : ℝ) := by unfold fmod; push_cast; ring
  rw [this, fmod_add_int_mul _ _ hm]

theorem fmod_nonneg (y m : ℝ) (hm : 0 < m) : 0 ≤ fmod y m := by
  unfold fmod
  have h := Int.floor_le (y / m)
  have : m * (⌊y / m⌋ : ℝ) ≤ y := by
    calc m * (⌊y / m⌋ : ℝ) ≤ m * (y / m) := mul_le_mul_of_nonneg_left h hm.le
      _ = y := by field_simp
  linarith

theorem fmod_lt (y m : ℝ) (hm : 0 < m) : fmod y m < m := by
  unfold fmod
  have h := Int.lt_floor_add_one (y / m)
  have : y < m * ((⌊y / m⌋ : ℝ) + 1) := by
    calc y = m * (y / m) := by field_simp
      _ < m * ((⌊y / m⌋ : ℝ) + 1) := mul_lt_mul_of_pos_left h hm
  linarith

theorem fmod_of_mem (y m : ℝ) (h0 : 0 ≤ y) (h1 : y < m) : fmod y m = y := by
  unfold fmod
  have hm : 0 < m := lt_of_le_of_lt h0 h1
  have : ⌊y / m⌋ = 0 := by
    rw [Int.floor_eq_zero_iff]; exact ⟨div_nonneg h0 hm.le, (div_lt_one hm).mpr h1⟩
  rw [this]; simp

theorem fmod_eq_add_int_mul (y m : ℝ) : ∃ k : ℤ, fmod y m = y + m * k :=
  ⟨-⌊y / m⌋, by unfold fmod; push_cast; ring⟩

/-- **J2: node, perigee and mean anomaly drift linearly in time at the first-order secular rates**, modulo the
wrap to `[0, 2π)` the code applies: each new angle is `old + rate·Δt + 2πk` for an integer `k`. -/
theorem j2_step_mod (mu : ℝ) (x : Elts) (dt : ℝ) (hmu : 0 < mu) (ha : 0 < x.a) (he0 : 0 ≤ x.e) (he1 : x.e < 1) :
    (∃ k : ℤ, (j2Step mu x dt).raan = x.raan + nodeRate mu x.a x.e x.i * dt + 2 * Real.pi * k) ∧
    (∃ k : ℤ, (j2Step mu x dt).argp = x.argp + perigeeRate mu x.a x.e x.i * dt + 2 * Real.pi * k) ∧
    (∃ k : ℤ, (j2Step mu x dt).M = x.M + meanAnomalyRate mu x.a x.e x.i * dt + 2 * Real.pi * k) := by
  simp only [j2Step_eq, rawRate, j2_rates_formula mu x.a x.e x.i hmu ha he0 he1, List.getD_cons_succ, List.getD_cons_zero]
  exact ⟨fmod_eq_add_int_mul _ _, fmod_eq_add_int_mul _ _, fmod_eq_add_int_mul _ _⟩

/-- the three angles are returned in `[0, 2π)` -/
theorem j2_angles_wrapped (mu : ℝ) (x : Elts) (dt : ℝ) :
    (0 ≤ (j2Step mu x dt).raan ∧ (j2Step mu x dt).raan < 2 * Real.pi) ∧
    (0 ≤ (j2Step mu x dt).argp ∧ (j2Step mu x dt).argp < 2 * Real.pi) ∧
    (0 ≤ (j2Step mu x dt).M ∧ (j2Step mu x dt).M < 2 * Real.pi) := by
  simp only [j2Step_eq]
  exact ⟨⟨fmod_nonneg _ _ twoPi_pos, fmod_lt _ _ twoPi_pos⟩, ⟨fmod_nonneg _ _ twoPi_pos, fmod_lt _ _ twoPi_pos⟩,
    ⟨fmod_nonneg _ _ twoPi_pos, fmod_lt _ _ twoPi_pos⟩⟩

/-- **No node drift on a polar orbit** (`cos i = 0`): the node of a state given in `[0, 2π)` is returned
unchanged, for every Δt. -/
theorem j2_polar_no_node_drift (mu : ℝ) (x : Elts) (dt : ℝ) (hi : Real.cos x.i = 0)
    (h0 : 0 ≤ x.raan) (h1 : x.raan < 2 * Real.pi) : (j2Step mu x dt).raan = x.raan := by
  have hr : rawRate mu x.a x.e x.i 3 = 0 := by simp [rawRate, j2Delta, hi]
  simp only [j2Step_eq, hr, zero_mul, add_zero]
  exact fmod_of_mem _ _ h0 h1

theorem nodeRate_polar (mu a e i : ℝ) (hi : Real.cos i = 0) : nodeRate mu a e i = 0 := by
  simp [nodeRate, hi]

example : Real.cos (Real.pi / 2) = 0 := Real.cos_pi_div_two

/-- **No perigee drift at the critical inclination** (`5 cos² i = 1`, i.e. `sin² i = 4/5`). -/
theorem j2_critical_no_perigee_drift (mu : ℝ) (x : Elts) (dt : ℝ) (hi : 5 * Real.cos x.i ^ 2 = 1)
    (h0 : 0 ≤ x.argp) (h1 : x.argp < 2 * Real.pi) : (j2Step mu x dt).argp = x.argp := by
  have hs : (4 : ℝ) - 5 * Real.sin x.i ^ 2 = 0 := by rw [Real.sin_sq]; linarith
  have hr : rawRate mu x.a x.e x.i 4 = 0 := by
    simp only [rawRate, j2Delta, powi, List.getD_cons_succ, List.getD_cons_zero, hs]; ring
  simp only [j2Step_eq, hr, zero_mul, add_zero]
  exact fmod_of_mem _ _ h0 h1

theorem perigeeRate_critical (mu a e i : ℝ) (hi : 5 * Real.cos i ^ 2 = 1) : perigeeRate mu a e i = 0 := by
  simp [perigeeRate, hi]

/-- the hypothesis is satisfiable: `cos i = 1/√5` -/
example : 5 * (Real.sqrt 5)⁻¹ ^ 2 = (1 : ℝ) := by
  rw [inv_pow, Real.sq_sqrt (by norm_num)]; norm_num

/-- **J2 composition**: `propagate(t₁)` then `propagate(t₂)` = `propagate(t₁ + t₂)` — exactly, wrap included
(a, e, i and hence the rates are constant; `(y mod 2π + z) mod 2π = (y + z) mod 2π`). -/
theorem j2_compose (mu : ℝ) (x : Elts) (t₁ t₂ : ℝ) :
    j2Step mu (j2Step mu x t₁) t₂ = j2Step mu x (t₁ + t₂) := by
  have hm := twoPi_pos.ne'
  rw [j2Step_eq mu (j2Step mu x t₁) t₂]
  simp only [j2Step_eq mu x]
  simp only [fmod_fmod_add _ _ _ hm]
  congr 1 <;> ring_nf

/-- **J2 inverse**: forth and back returns a state given with angles in `[0, 2π)`. -/
theorem j2_inverse (mu : ℝ) (x : Elts) (t : ℝ)
    (hΩ : 0 ≤ x.raan ∧ x.raan < 2 * Real.pi) (hω : 0 ≤ x.argp ∧ x.argp < 2 * Real.pi)
    (hM : 0 ≤ x.M ∧ x.M < 2 * Real.pi) :
    j2Step mu (j2Step mu x t) (-t) = x := by
  rw [j2_compose, add_neg_cancel, j2Step_eq]
  simp only [mul_zero, add_zero]
  rw [fmod_of_mem x.raan twoPi hΩ.1 hΩ.2, fmod_of_mem x.argp twoPi hω.1 hω.2, fmod_of_mem x.M twoPi hM.1 hM.2]

example : (0 : ℝ) ≤ 1 ∧ (1 : ℝ) < 2 * Real.pi := by
  have := Real.two_le_pi; constructor <;> linarith

/-! ### J2 to a date, epoch and target in any pair of scales -/

/-- **J2 composition through dates** (wrap included), any three scales. -/
theorem j2_compose_dates (mu : ℝ) (o : Orb) (d₁ d₂ : Date.Date) : j2To mu (j2To mu o d₁) d₂ = j2To mu o d₂ := by
  simp only [j2To, j2_compose, (deltaT_telescope o.date d₁ d₂).2]

/-- **J2 inverse through dates**, for a state given with angles in `[0, 2π)`. -/
theorem j2_inverse_dates (mu : ℝ) (o : Orb) (d : Date.Date)
    (hΩ : 0 ≤ o.elts.raan ∧ o.elts.raan < 2 * Real.pi) (hω : 0 ≤ o.elts.argp ∧ o.elts.argp < 2 * Real.pi)
    (hM : 0 ≤ o.elts.M ∧ o.elts.M < 2 * Real.pi) : j2To mu (j2To mu o d) o.date = o := by
  rw [j2_compose_dates]
  simp only [j2To, (deltaT_self o.date).2]
  have := j2_inverse mu o.elts 0 hΩ hω hM
  rw [neg_zero, j2_compose, add_zero] at this
  rw [this]

/-- **J2, any pair of scales**: a, e, i constant, the three angles drift at the secular rates times the time elapsed between
the two instants (mod 2π). -/
theorem j2_step_mod_dates (mu : ℝ) (o : Orb) (date : Date.Date) (hmu : 0 < mu) (ha : 0 < o.elts.a) (he0 : 0 ≤ o.elts.e)
    (he1 : o.elts.e < 1) (hd : date.s % 10 = 0) (he : o.date.s % 10 = 0) :
    let dt : ℝ := ((date.inst - o.date.inst : ℤ) : ℝ) / 10000000
    (j2To mu o date).elts.a = o.elts.a ∧ (j2To mu o date).elts.e = o.elts.e ∧ (j2To mu o date).elts.i = o.elts.i ∧
    (∃ k : ℤ, (j2To mu o date).elts.raan = o.elts.raan + nodeRate mu o.elts.a o.elts.e o.elts.i * dt + 2 * Real.pi * k) ∧
    (∃ k : ℤ, (j2To mu o date).elts.argp = o.elts.argp + perigeeRate mu o.elts.a o.elts.e o.elts.i * dt + 2 * Real.pi * k) ∧
    (∃ k : ℤ, (j2To mu o date).elts.M = o.elts.M + meanAnomalyRate mu o.elts.a o.elts.e o.elts.i * dt + 2 * Real.pi * k) := by
  intro dt
  have h := j2_step_mod mu o.elts (j2DeltaT date o.date) hmu ha he0 he1
  have hc := j2_aei_constant mu o.elts (j2DeltaT date o.date)
  have hdt : j2DeltaT date o.date = dt := (deltaT_eq_instant_diff date o.date hd he).2
  rw [hdt] at h hc
  simp only [j2To, hdt]
  exact ⟨hc.1, hc.2.1, hc.2.2, h.1, h.2.1, h.2.2⟩

/-! ## Sun-synchronous inclination (shared with C19): `leo.sso(a=a, e=e)` returns `arccos (ssoCosI a e)` -/

theorem earthMu_pos : 0 < earthMu := by unfold earthMu bodyMu earthMass gravG; norm_num
theorem earthR_pos : 0 < earthR := by unfold earthR; norm_num
theorem earthJ2_pos : 0 < earthJ2 := by unfold earthJ2; norm_num

/-- **The J2 node rate of the propagator is the sun-synchronous condition used by `leo.sso`**: for the
inclination whose cosine `leo.sso` computes from `a` and `e`, the secular node rate of `J2.propagate`
(Earth's µ) is exactly `ω_e = 2π / (365.256363004 · 86400)`, the mean motion of the Sun. -/
theorem j2_node_rate_eq_sso (a e i : ℝ) (ha : 0 < a) (he0 : 0 ≤ e) (he1 : e < 1) (hi : Real.cos i = ssoCosI a e) :
    nodeRate earthMu a e i = ssoOmegaE := by
  have h1 : (1 - e ^ 2) ≠ 0 := by nlinarith
  obtain ⟨s, hs, hsa⟩ : ∃ s : ℝ, 0 < s ∧ a = s ^ 2 := ⟨Real.sqrt a, Real.sqrt_pos.mpr ha, (Real.sq_sqrt ha.le).symm⟩
  obtain ⟨m, hm, hmu⟩ : ∃ m : ℝ, 0 < m ∧ Real.sqrt earthMu = m := ⟨_, Real.sqrt_pos.mpr earthMu_pos, rfl⟩
  have hn : meanMotion earthMu a = m / s ^ 3 := by
    rw [meanMotion_formula, abs_of_pos ha, Real.sqrt_div earthMu_pos.le, hmu, hsa]
    congr 1
    rw [show (s ^ 2) ^ 3 = (s ^ 3) ^ 2 by ring]; exact Real.sqrt_sq (by positivity)
  have hp : Real.rpow a (7 / 2) = s ^ 7 := by
    rw [Real.rpow_eq_pow, hsa, ← Real.rpow_natCast s 2, ← Real.rpow_mul hs.le, ← Real.rpow_natCast s 7]
    norm_num
  have hr := earthR_pos.ne'
  have hj := earthJ2_pos.ne'
  rw [nodeRate, hi, ssoCosI, ssoCst, hn, semiLatus]
  simp only [NumReal.sqrt, rpow, powi]
  rw [hmu, hp, hsa]
  field_simp

example : (0 : ℝ) < 7000000 ∧ (0 : ℝ) ≤ 0.001 ∧ (0.001 : ℝ) < 1 := by norm_num

end BeyondVerif.C05
