import BeyondVerif.Model.CWR
import Mathlib.Analysis.SpecialFunctions.Trigonometric.Deriv
import Mathlib.Tactic.Ring
import Mathlib.Tactic.FieldSimp
import Mathlib.Tactic.IntervalCases

/-!
# C16 — Clohessy–Wiltshire propagation solves Hill's equations

Theorems over ℝ about `cwStepQSW / cwStepTNW / cwPropagate` (Model/CWR.lean), which are built on
`cwMats` — the evolution and acceleration matrices *translated from beyond/propagators/cw.py on
every run* (Generated/CWMatR.lean).  A changed matrix entry makes these proofs fail.
-/
namespace BeyondVerif.C16
open BeyondVerif.R BeyondVerif.NumReal

section deriv
variable (n : ℝ)

theorem deriv_cos_nt (t : ℝ) : deriv (fun y => Real.cos (n * y)) t = -(n * Real.sin (n * t)) := by
  have h : HasDerivAt (fun y => Real.cos (n * y)) (-Real.sin (n * t) * n) t :=
    (Real.hasDerivAt_cos (n * t)).comp t (by simpa using (hasDerivAt_id t).const_mul n)
  rw [h.deriv]; ring

theorem deriv_sin_nt (t : ℝ) : deriv (fun y => Real.sin (n * y)) t = n * Real.cos (n * t) := by
  have h : HasDerivAt (fun y => Real.sin (n * y)) (Real.cos (n * t) * n) t :=
    (Real.hasDerivAt_sin (n * t)).comp t (by simpa using (hasDerivAt_id t).const_mul n)
  rw [h.deriv]; ring

theorem deriv_nt (t : ℝ) : deriv (fun y => n * y) t = n := by
  simpa using ((hasDerivAt_id t).const_mul n).deriv

end deriv

/-- close `HasDerivAt f f' t` for `f` built from `cos (n*t)`, `sin (n*t)`, `n*t` by field operations -/
macro "hill_deriv" n:term : tactic => `(tactic| (
  refine HasDerivAt.congr_deriv (DifferentiableAt.hasDerivAt (by fun_prop)) ?_
  simp (disch := fun_prop) only [deriv_fun_add, deriv_fun_sub, deriv_fun_mul, deriv_div_const, deriv_const,
    deriv_fun_pow, deriv.fun_neg, deriv_cos_nt $n, deriv_sin_nt $n, deriv_nt $n]
  field_simp
  ring))

/-- Φ(0) x + Γ(0) a = x -/
theorem cw_zero (n : ℝ) (hn : n ≠ 0) (x y z vx vy vz ax ay az : ℝ) :
    cwStepQSW n 0 [x, y, z, vx, vy, vz] [ax, ay, az] = [x, y, z, vx, vy, vz] := by
  simp [cwStepQSW, cwMats, matVec, dot, vadd]; norm_num

/-- **The propagated state satisfies Hill's equations with constant thrust**: each of the six
components of `t ↦ Φ(t) x + Γ(t) a` has, at every `t₀`, the derivative prescribed by Hill's
linearised equations evaluated on the propagated state itself. -/
theorem cw_solves_hill (n : ℝ) (hn : n ≠ 0) (x y z vx vy vz ax ay az t₀ : ℝ) (i : Nat) (hi : i < 6) :
    HasDerivAt (fun t => (cwStepQSW n t [x, y, z, vx, vy, vz] [ax, ay, az]).getD i 0)
      ((hillRhs n (cwStepQSW n t₀ [x, y, z, vx, vy, vz] [ax, ay, az]) [ax, ay, az]).getD i 0) t₀ := by
  interval_cases i <;>
  simp only [cwStepQSW, cwMats, matVec, dot, vadd, hillRhs, List.map, List.getD_cons_zero, List.getD_cons_succ, powi] <;>
  hill_deriv n


/-- **Composition** (constant thrust on both legs; zero thrust is the case `a = 0`):
propagating by `t₁` then by `t₂` equals propagating by `t₁ + t₂`. -/
theorem cw_compose (n : ℝ) (hn : n ≠ 0) (x y z vx vy vz ax ay az t₁ t₂ : ℝ) :
    cwStepQSW n t₂ (cwStepQSW n t₁ [x, y, z, vx, vy, vz] [ax, ay, az]) [ax, ay, az]
      = cwStepQSW n (t₁ + t₂) [x, y, z, vx, vy, vz] [ax, ay, az] := by
  simp only [cwStepQSW, cwMats, matVec, dot, vadd, List.map, powi, mul_add, Real.cos_add, Real.sin_add,
    List.cons.injEq, and_true]
  have hs1 := Real.sin_sq_add_cos_sq (n * t₁)
  have hs2 := Real.sin_sq_add_cos_sq (n * t₂)
  refine ⟨?_, ?_, ?_, ?_, ?_, ?_⟩ <;> field_simp <;> ring

/-- backwards propagation is the inverse -/
theorem cw_inverse (n : ℝ) (hn : n ≠ 0) (x y z vx vy vz ax ay az t : ℝ) :
    cwStepQSW n (-t) (cwStepQSW n t [x, y, z, vx, vy, vz] [ax, ay, az]) [ax, ay, az]
      = [x, y, z, vx, vy, vz] := by
  rw [cw_compose n hn, add_neg_cancel, cw_zero n hn]

/-- the axis permutation QSW → TNW applied to a state `[x,y,z,vx,vy,vz]` -/
def perm6 : List ℝ → List ℝ
  | [x, y, z, vx, vy, vz] => [y, -x, z, vy, -vx, vz]
  | l => l
def perm3 : List ℝ → List ℝ
  | [x, y, z] => [y, -x, z]
  | l => l

/-- **Results in TNW orientation are the fixed axis permutation of those in QSW** -/
theorem tnw_is_permuted_qsw (n : ℝ) (x y z vx vy vz ax ay az t : ℝ) :
    cwStepTNW n t (perm6 [x, y, z, vx, vy, vz]) (perm3 [ax, ay, az])
      = perm6 (cwStepQSW n t [x, y, z, vx, vy, vz] [ax, ay, az]) := by
  simp only [cwStepTNW, cwStepQSW, cwMats, matVec, matMul, transpose6, transpose3, qsw2tnw, qsw2tnw6, dot, vadd,
    perm6, perm3, List.map, List.take, List.drop, List.getD_cons_zero, List.getD_cons_succ, List.cons_append, List.nil_append,
    List.cons.injEq, and_true]
  refine ⟨?_, ?_, ?_, ?_, ?_, ?_⟩ <;> ring

/-! ## Maneuver sequencing (`propagate`) -/

theorem propagate_no_maneuver (tnw : Bool) (n t t0 : ℝ) (x : List ℝ) :
    cwPropagate tnw n [] t t0 x = cwStep tnw n (t - t0) x zero3 := by
  simp [cwPropagate, cwPropagate.go]

/-- an impulse dated after the requested date has no effect -/
theorem impulse_not_yet (tnw : Bool) (n t t0 tm : ℝ) (dv x : List ℝ) (rest : List Man) (h : t < tm) :
    cwPropagate tnw n (Man.imp tm dv :: rest) t t0 x = cwPropagate tnw n rest t t0 x := by
  simp [cwPropagate, cwPropagate.go, not_le.mpr h]

/-- an impulse dated at or before the initial orbit is part of that orbit's state already:
it is not applied again (this is what makes re-propagation of a propagated orbit compose) -/
theorem impulse_already_passed (tnw : Bool) (n t t0 tm : ℝ) (dv x : List ℝ) (rest : List Man) (h : tm ≤ t0) :
    cwPropagate tnw n (Man.imp tm dv :: rest) t t0 x = cwPropagate tnw n rest t t0 x := by
  simp [cwPropagate, cwPropagate.go, not_lt.mpr h]

/-- all maneuvers of a list are impulses dated strictly after `t` -/
def allLater (t : ℝ) : List Man → Prop
  | [] => True
  | Man.imp tm _ :: rest => t < tm ∧ allLater t rest
  | Man.cont ts _ _ :: rest => t < ts ∧ allLater t rest

/-- an impulse dated at or before the requested date: coast to its date, add Δv, continue from there -/
theorem impulse_applied (tnw : Bool) (n t t0 tm : ℝ) (dv x : List ℝ) (rest : List Man) (h0 : t0 < tm) (h : tm ≤ t)
    (hrest : allLater t rest) :
    cwPropagate tnw n (Man.imp tm dv :: rest) t t0 x
      = cwStep tnw n (t - tm) (addDv (cwStep tnw n (tm - t0) x zero3) dv) zero3 := by
  have hgo : ∀ (l : List Man) (tc : ℝ) (y : List ℝ), allLater t l →
      cwPropagate.go tnw n t t0 l tc y = cwStep tnw n (t - tc) y zero3 := by
    intro l
    induction l with
    | nil => intro tc y _; simp [cwPropagate.go]
    | cons m rest ih =>
      intro tc y hl
      cases m with
      | imp tm' dv' =>
        obtain ⟨h1, h2⟩ := hl
        simp [cwPropagate.go, not_le.mpr h1, ih tc y h2]
      | cont ts te a =>
        obtain ⟨h1, h2⟩ := hl
        simp [cwPropagate.go, not_le.mpr h1, ih tc y h2]
  simp [cwPropagate, cwPropagate.go, h0, h, hgo rest tm _ hrest]

/-- maneuvers that start after the requested date contribute nothing -/
theorem later_maneuvers_ignored (tnw : Bool) (n t t0 : ℝ) (x : List ℝ) (mans : List Man) (h : allLater t mans) :
    cwPropagate tnw n mans t t0 x = cwStep tnw n (t - t0) x zero3 := by
  induction mans with
  | nil => exact propagate_no_maneuver tnw n t t0 x
  | cons m rest ih =>
    cases m with
    | imp tm dv =>
      obtain ⟨h1, h2⟩ := h
      rw [impulse_not_yet tnw n t t0 tm dv x rest h1]; exact ih h2
    | cont ts te a =>
      obtain ⟨h1, h2⟩ := h
      have : cwPropagate tnw n (Man.cont ts te a :: rest) t t0 x = cwPropagate tnw n rest t t0 x := by
        simp [cwPropagate, cwPropagate.go, not_le.mpr h1]
      rw [this]; exact ih h2

/-- **An impulsive maneuver changes the velocity by exactly its Δv, exactly once, at its date**:
with any later maneuvers in the list, the state at the maneuver date is the coasted state plus
`(0, Δv)`; before the date it is the coasted state; after it, the coast of that sum. -/
theorem impulse_once (n : ℝ) (hn : n ≠ 0) (x y z vx vy vz dx dy dz t0 tm t : ℝ) (later : List Man)
    (hl : allLater t later) (h0 : t0 < tm) (ht : tm ≤ t) :
    cwPropagate false n (Man.imp tm [dx, dy, dz] :: later) t t0 [x, y, z, vx, vy, vz]
      = cwStepQSW n (t - tm) (addDv (cwStepQSW n (tm - t0) [x, y, z, vx, vy, vz] zero3) [dx, dy, dz]) zero3 := by
  rw [impulse_applied false n t t0 tm _ _ later h0 ht hl]
  simp [cwStep]

theorem cwStepQSW_components (n t x y z vx vy vz ax ay az : ℝ) :
    ∃ X Y Z VX VY VZ, cwStepQSW n t [x, y, z, vx, vy, vz] [ax, ay, az] = [X, Y, Z, VX, VY, VZ] :=
  ⟨_, _, _, _, _, _, rfl⟩

/-- at the maneuver date itself the state is the coasted state with `Δv` added to the velocity -/
theorem impulse_jump (n : ℝ) (hn : n ≠ 0) (x y z vx vy vz dx dy dz t0 tm : ℝ) (h0 : t0 < tm) :
    ∃ X Y Z VX VY VZ, cwStepQSW n (tm - t0) [x, y, z, vx, vy, vz] zero3 = [X, Y, Z, VX, VY, VZ] ∧
      cwPropagate false n [Man.imp tm [dx, dy, dz]] tm t0 [x, y, z, vx, vy, vz]
        = [X, Y, Z, VX + dx, VY + dy, VZ + dz] := by
  obtain ⟨X, Y, Z, VX, VY, VZ, hX⟩ := cwStepQSW_components n (tm - t0) x y z vx vy vz 0 0 0
  refine ⟨X, Y, Z, VX, VY, VZ, hX, ?_⟩
  rw [impulse_once n hn _ _ _ _ _ _ _ _ _ t0 tm tm [] trivial h0 le_rfl, sub_self]
  have : zero3 = [0, 0, 0] := rfl
  rw [this]
  rw [hX]
  simp only [addDv, List.take, List.drop, vadd, List.cons_append, List.nil_append]
  exact cw_zero n hn _ _ _ _ _ _ 0 0 0

/-- **Composition across a maneuver**: propagating to `t₁` (past the impulse) and re-propagating the
returned orbit — which still carries the maneuver in its list — to `t₂` gives the state of a direct
propagation to `t₂`: the impulse is applied exactly once. -/
theorem repropagate_composes (n : ℝ) (hn : n ≠ 0) (x y z vx vy vz dx dy dz t0 tm t1 t2 : ℝ)
    (h0 : t0 < tm) (h1 : tm ≤ t1) (h2 : tm ≤ t2) :
    cwPropagate false n [Man.imp tm [dx, dy, dz]] t2 t1
        (cwPropagate false n [Man.imp tm [dx, dy, dz]] t1 t0 [x, y, z, vx, vy, vz])
      = cwPropagate false n [Man.imp tm [dx, dy, dz]] t2 t0 [x, y, z, vx, vy, vz] := by
  rw [impulse_already_passed false n t2 t1 tm _ _ [] h1, propagate_no_maneuver]
  rw [impulse_once n hn _ _ _ _ _ _ _ _ _ t0 tm t1 [] trivial h0 h1,
    impulse_once n hn _ _ _ _ _ _ _ _ _ t0 tm t2 [] trivial h0 h2]
  obtain ⟨X, Y, Z, VX, VY, VZ, hX⟩ := cwStepQSW_components n (tm - t0) x y z vx vy vz 0 0 0
  have hz : zero3 = [0, 0, 0] := rfl
  rw [hz, hX]
  simp only [addDv, List.take, List.drop, vadd, List.cons_append, List.nil_append, cwStep, Bool.false_eq_true, if_false]
  rw [cw_compose n hn]
  congr 1; ring

/-- during a continuous maneuver the state is the thrust-propagated one from its start -/
theorem continuous_during (tnw : Bool) (n t t0 ts te : ℝ) (a x : List ℝ) (rest : List Man)
    (h0 : t0 ≤ ts) (h1 : ts ≤ t) (h2 : t < te) :
    cwPropagate tnw n (Man.cont ts te a :: rest) t t0 x
      = cwStep tnw n (t - ts) (cwStep tnw n (ts - t0) x zero3) a := by
  have : t0 < te := lt_of_le_of_lt (le_trans h0 h1) h2
  simp [cwPropagate, cwPropagate.go, h0, h1, h2, this]

/-- a propagated orbit whose date lies inside the burn resumes the thrust from its own date -/
theorem continuous_resumed (tnw : Bool) (n t t0 ts te : ℝ) (a x : List ℝ) (rest : List Man)
    (h0 : ts < t0) (h1 : t0 ≤ t) (h2 : t < te) :
    cwPropagate tnw n (Man.cont ts te a :: rest) t t0 x
      = cwStep tnw n (t - t0) (cwStep tnw n (t0 - t0) x zero3) a := by
  have h3 : t0 < te := lt_of_le_of_lt h1 h2
  have h4 : ts ≤ t := le_trans (le_of_lt h0) h1
  simp [cwPropagate, cwPropagate.go, not_le.mpr h0, h2, h3, h4]

/-- a continuous maneuver that ended at or before the initial orbit's date is not applied again -/
theorem continuous_already_passed (tnw : Bool) (n t t0 ts te : ℝ) (a x : List ℝ) (rest : List Man) (h : te ≤ t0) :
    cwPropagate tnw n (Man.cont ts te a :: rest) t t0 x = cwPropagate tnw n rest t t0 x := by
  simp [cwPropagate, cwPropagate.go, not_lt.mpr h]

/-- after a continuous maneuver: coast to start, thrust for the whole duration, continue -/
theorem continuous_after (tnw : Bool) (n t t0 ts te : ℝ) (a x : List ℝ)
    (h0 : t0 ≤ ts) (h3 : ts < te) (h2 : te ≤ t) :
    cwPropagate tnw n [Man.cont ts te a] t t0 x
      = cwStep tnw n (t - te) (cwStep tnw n (te - ts) (cwStep tnw n (ts - t0) x zero3) a) zero3 := by
  have h1 : ts ≤ t := le_trans (le_of_lt h3) h2
  have h4 : t0 < te := lt_of_le_of_lt h0 h3
  simp [cwPropagate, cwPropagate.go, h0, h1, h4, not_lt.mpr h2]

/-- non-vacuity: the hypotheses of `impulse_once` are met by a concrete scenario -/
example : allLater (10 : ℝ) [Man.imp 20 [0, 0, 0], Man.cont 30 40 [0, 0, 0]] ∧ (5 : ℝ) ≤ 10 ∧ (0.001 : ℝ) ≠ 0 := by
  simp [allLater]; norm_num

end BeyondVerif.C16
