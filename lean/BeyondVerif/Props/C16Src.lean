import BeyondVerif.Generated.CWSeqSrcR
import BeyondVerif.Props.C16Seq

/-!
# C16 — the sequencing model against the source of `ClohessyWiltshire.propagate` and `ContinuousMan`

`impActiveSrc`, `contActiveSrc`, `contCoastSrc`, `contCheckSrc`, `manStartSrc`, `manStopSrc` (Generated/CWSeqSrcR.lean) are
translated on every run from the AST of the maneuver loop of `propagate` (guards `if …: continue` included) and of
`ContinuousMan.__init__` / `check`.  These theorems show that they are the conditions the hand-written model `cwPropagate` uses
(`activeFwd`, the coast to `max ts t0`, `ts ≤ t < te`) and that the burn window the model is given is the one the constructor
computes from (date, duration, date_pos) — in particular that the tests compare the requested date with the START of the burn,
never with `man.date` (the reference date, which is the start only for `date_pos="start"`).
-/
namespace BeyondVerif.C16
open BeyondVerif.R BeyondVerif.NumReal

/-- the impulsive branch is taken iff `t0 < tm ≤ t` -/
theorem imp_test_from_source (tm t0 t : ℝ) : impActiveSrc tm t0 t ↔ activeFwd t t0 (Man.imp tm []) := by
  simp only [impActiveSrc, activeFwd]

/-- the continuous branch is taken iff the burn stops after the orbit's date and STARTS at or before the requested date — whatever
the reference date `md` of the maneuver -/
theorem cont_test_from_source (ts te md t0 t : ℝ) : contActiveSrc ts te md t0 t ↔ activeFwd t t0 (Man.cont ts te []) := by
  simp only [contActiveSrc, activeFwd, ge_iff_le, gt_iff_lt]

/-- the coast leg goes to `max(start, date of the INITIAL orbit)` — not to the reference date, not to the running date -/
theorem cont_coast_from_source (ts te md t0 tc : ℝ) : contCoastSrc ts te md t0 tc = if ts ≥ t0 then ts else t0 := by
  simp only [contCoastSrc, maxSrc]

/-- `ContinuousMan.check`: the half-open window -/
theorem cont_check_from_source (ts te t : ℝ) : contCheckSrc ts te t ↔ (ts ≤ t ∧ t < te) := by
  simp only [contCheckSrc]

/-- the window of a burn from (date, duration, date_pos): it lasts `duration`; the reference date is its start, its median or
its stop -/
theorem man_window_from_source (date duration : ℝ) :
    (∀ pos, manStopSrc pos date duration - manStartSrc pos date duration = duration) ∧
    manStartSrc 0 date duration = date ∧
    manStartSrc 1 date duration + duration / 2 = date ∧
    manStopSrc 2 date duration = date := by
  refine ⟨fun pos => ?_, ?_, ?_, ?_⟩
  · simp only [manStopSrc]; ring
  · simp [manStartSrc]
  · simp [manStartSrc]
  · simp [manStopSrc, manStartSrc]

/-- a burn declared by its median or its stop is, for the model, the burn with the same window declared by its start -/
theorem window_independent_of_date_pos (ts dur : ℝ) :
    (manStartSrc 1 (ts + dur / 2) dur, manStopSrc 1 (ts + dur / 2) dur) = (manStartSrc 0 ts dur, manStopSrc 0 ts dur) ∧
    (manStartSrc 2 (ts + dur) dur, manStopSrc 2 (ts + dur) dur) = (manStartSrc 0 ts dur, manStopSrc 0 ts dur) := by
  constructor <;> simp [manStartSrc, manStopSrc]

end BeyondVerif.C16
