import BeyondVerif.Props.C11

/-!
# C11 — "range, elevation and azimuth of ANY target": the target given in the frame of another station

The theorems of Props/C11.lean speak about a target whose state is given in the Earth-fixed parent frame of the
station.  The property quantifies over every target, and a state may reach a station in any frame — typically the
frame of ANOTHER station (the points yielded by `stationA.visibility()` are in A's frame; `point.copy(frame=stationB)`
hands them over).  `stationToStation` (Model/StationR.lean) is `Frame.transform` for that case: the orientation and
centre graphs are walked A → parent → B.  Here: whatever station a state was expressed in before, and through however
many stations it was handed on, its coordinates in the frame of the last station are the (north, west, up) components
of target − station there — so range, azimuth, elevation and range-rate are the ENU quantities of Props/C11.lean.
-/
noncomputable section
namespace BeyondVerif.C11
open BeyondVerif.R BeyondVerif.NumReal

/-- `M (Mᵀ v) = v` for the topocentric matrix (the other half of orthonormality, next to `topo_round_trip`) -/
theorem topo_mul_mulT (lat lon a b c : ℝ) :
    mulVec3 (topoM lat lon) (mulVecT3 (topoM lat lon) [a, b, c]) = [a, b, c] := by
  have h1 := Real.sin_sq_add_cos_sq lat
  have h2 := Real.sin_sq_add_cos_sq lon
  simp only [topoM_eq, mulVecT3, mulVec3, mAt, List.map, List.getD_cons_zero, List.getD_cons_succ, List.cons.injEq, and_true]
  refine ⟨?_, ?_, ?_⟩
  · linear_combination (a * Real.cos lon ^ 2 + b * Real.cos lon * Real.sin lon) * h1 + a * h2
  · linear_combination (a * Real.sin lon * Real.cos lon + b * Real.sin lon ^ 2) * h1 + b * h2
  · linear_combination c * h1

/-- **Parent frame → station frame → parent frame is the identity**: a state expressed in the frame of a station and
taken back to the Earth-fixed frame is the state one started from (position and velocity), for every station. -/
theorem station_from_to (lat lon alt x y z vx vy vz : ℝ) :
    fromStation lat lon alt (toStation lat lon alt [x, y, z, vx, vy, vz]) = [x, y, z, vx, vy, vz] := by
  obtain ⟨sx, sy, sz, hs⟩ := stationPos_shape lat lon alt
  have hp := topo_mul_mulT lat lon (x - sx) (y - sy) (z - sz)
  have hv := topo_mul_mulT lat lon vx vy vz
  simp only [topoM_eq, mulVecT3, mulVec3, mAt, List.map, List.getD_cons_zero, List.getD_cons_succ, List.cons.injEq, and_true] at hp hv
  simp only [toStation, fromStation, hs, topoM_eq, mulVecT3, mulVec3, mAt, sub3, add3, List.map, List.take, List.drop,
    List.getD_cons_zero, List.getD_cons_succ, List.cons_append, List.nil_append, List.cons.injEq, and_true]
  obtain ⟨hp0, hp1, hp2⟩ := hp
  obtain ⟨hv0, hv1, hv2⟩ := hv
  refine ⟨?_, ?_, ?_, ?_, ?_, ?_⟩
  · linear_combination hp0
  · linear_combination hp1
  · linear_combination hp2
  · linear_combination hv0
  · linear_combination hv1
  · linear_combination hv2

/-- **The direct change from station A to station B is the change through the common parent frame**: the product of the two
rotations and the difference of the two centre offsets, as `Frame.transform` combines them, give `toStation B ∘ fromStation A`
— for all coordinates of the two stations and every state. -/
theorem handover_through_parent (latA lonA altA latB lonB altB x y z vx vy vz : ℝ) :
    stationToStation latA lonA altA latB lonB altB [x, y, z, vx, vy, vz]
      = toStation latB lonB altB (fromStation latA lonA altA [x, y, z, vx, vy, vz]) := by
  obtain ⟨ax, ay, az, ha⟩ := stationPos_shape latA lonA altA
  obtain ⟨bx, by', bz, hb⟩ := stationPos_shape latB lonB altB
  simp only [stationToStation, toStation, fromStation, ha, hb, topoM_eq, mulVecT3, mulVec3, mAt, sub3, add3, List.map, List.take, List.drop,
    List.getD_cons_zero, List.getD_cons_succ, List.cons_append, List.nil_append, List.cons.injEq, and_true]
  refine ⟨?_, ?_, ?_⟩ <;> ring

/-- **A target handed over from another station's frame** (clause "range, elevation and azimuth of ANY target"): the state
`[x,y,z,vx,vy,vz]` of the Earth-fixed frame, first expressed in the frame of station A and from there changed directly to the frame
of station B, has in B's frame the coordinates it has when changed there from the Earth-fixed frame — the (north, west, up)
components at B of target − station B (`topo_is_enu_components`), whatever station A is. -/
theorem handover_is_enu_components (latA lonA altA latB lonB altB x y z vx vy vz : ℝ) :
    stationToStation latA lonA altA latB lonB altB (toStation latA lonA altA [x, y, z, vx, vy, vz])
      = [dot3 (northV latB lonB) (los latB lonB altB x y z), dot3 (westV lonB) (los latB lonB altB x y z),
         dot3 (upV latB lonB) (los latB lonB altB x y z),
         dot3 (northV latB lonB) [vx, vy, vz], dot3 (westV lonB) [vx, vy, vz], dot3 (upV latB lonB) [vx, vy, vz]] := by
  have h := topo_is_enu_components latA lonA altA x y z vx vy vz
  rw [h, handover_through_parent, ← h, station_from_to, topo_is_enu_components]

/-- … hence **range, θ (= −azimuth), elevation, range-rate** of the handed-over state are those of `stationSpherical` at B, i.e. the
ENU quantities of `range_is_enu_range`, `azimuth_is_minus_theta`, `elevation_is_enu_elevation`, `range_rate_is_enu_range_rate`. -/
theorem handover_spherical (latA lonA altA latB lonB altB x y z vx vy vz : ℝ) :
    toSpherical (stationToStation latA lonA altA latB lonB altB (toStation latA lonA altA [x, y, z, vx, vy, vz]))
      = stationSpherical latB lonB altB [x, y, z, vx, vy, vz] := by
  rw [handover_is_enu_components, stationSpherical, topo_is_enu_components]

/-- a station handing a state over to itself changes nothing -/
theorem handover_to_itself (lat lon alt x y z vx vy vz : ℝ) :
    stationToStation lat lon alt lat lon alt [x, y, z, vx, vy, vz] = [x, y, z, vx, vy, vz] := by
  rw [handover_through_parent, topo_round_trip]

/-- a state handed on from station to station: `(lat, lon, alt)` of each next station, in order -/
def handoverChain : (ℝ × ℝ × ℝ) → List (ℝ × ℝ × ℝ) → List ℝ → List ℝ
  | _, [], st => st
  | a, b :: rest, st => handoverChain b rest (stationToStation a.1 a.2.1 a.2.2 b.1 b.2.1 b.2.2 st)

/-- the station a chain ends at -/
def chainEnd : (ℝ × ℝ × ℝ) → List (ℝ × ℝ × ℝ) → (ℝ × ℝ × ℝ)
  | a, [] => a
  | _, b :: rest => chainEnd b rest

/-- **… through any number of stations**: a state of the Earth-fixed frame expressed in the frame of a first station and
handed on through any list of further stations ends, in the frame of the last one, as what the direct change from the
Earth-fixed frame gives there (no trace of the route). -/
theorem handover_chain (a : ℝ × ℝ × ℝ) (l : List (ℝ × ℝ × ℝ)) (x y z vx vy vz : ℝ) :
    handoverChain a l (toStation a.1 a.2.1 a.2.2 [x, y, z, vx, vy, vz])
      = toStation (chainEnd a l).1 (chainEnd a l).2.1 (chainEnd a l).2.2 [x, y, z, vx, vy, vz] := by
  induction l generalizing a with
  | nil => rfl
  | cons b rest ih =>
    simp only [handoverChain, chainEnd]
    rw [handover_is_enu_components, ← topo_is_enu_components]
    exact ih b

example : handoverChain (0.1, 0.2, 30) [(0.7, -1.2, 400), (-0.5, 2.9, 0)] (toStation 0.1 0.2 30 [7000000, 100, -200, 1, 2, 3])
    = toStation (-0.5) 2.9 0 [7000000, 100, -200, 1, 2, 3] := handover_chain _ _ _ _ _ _ _ _

end BeyondVerif.C11
