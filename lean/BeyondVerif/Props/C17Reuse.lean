import BeyondVerif.Model.ManObj
import BeyondVerif.Model.ManR
/-!
# C17 — a maneuver object has no memory of the states it was evaluated on

What a maneuver contributes is a function of its definition and of the state it is evaluated on.  The statement lists of
`KeplerianContinuousMan.accel` and `KeplerianImpulsiveMan.dv` are regenerated from the source; run as a state machine
(`Model/ManObj.lean`) over ANY history of states and from ANY stored vector, the k-th call returns what a new object returns
on the k-th state.  (A method that computed its level at the first call only and held it — `if not self._accel.any(): …` —
is not expressible in the statement language: the extraction stops, and the oracle family `man-reuse-*` searches the input.)
-/
namespace BeyondVerif.C17
open BeyondVerif.ManObj BeyondVerif.Generated.FrameNames

section generic
variable {σ α β : Type}

/-- a method body `store; return` (the level is recomputed at every call): the calls are history-free -/
theorem storeRet_history_free (level : σ → α) (proj : σ → α → β) :
    ∀ (os : List σ) (s0 : α), runCalls [CallStmt.store, CallStmt.ret] level proj s0 os = os.map (fun o => some (proj o (level o)))
  | [], _ => rfl
  | o :: os, s0 => by
    simp [runCalls, call, runStmts, storeRet_history_free level proj os]

theorem ret_history_free (level : σ → α) (proj : σ → α → β) :
    ∀ (os : List σ) (s0 : α), runCalls [CallStmt.ret] level proj s0 os = os.map (fun o => some (proj o s0))
  | [], _ => rfl
  | o :: os, s0 => by
    simp [runCalls, call, runStmts, ret_history_free level proj os]

/-- a method body `return` (nothing written): every call projects the vector given to the constructor -/
theorem plain_history_free (level : σ → α) (proj : σ → α → β) (os : List σ) (s0 : α) :
    runCalls plainProg level proj s0 os = os.map (fun o => some (proj o s0)) :=
  ret_history_free level proj os s0

/-- **`KeplerianContinuousMan.accel` as the source has it**: whatever the object holds and whatever states it was called on
before, a call returns the projection, on the current state, of the level computed from the current state -/
theorem kepCont_history_free (level : σ → α) (proj : σ → α → β) (os : List σ) (s0 : α) :
    runCalls kepContAccelProg level proj s0 os = os.map (fun o => some (proj o (level o))) :=
  storeRet_history_free level proj os s0

/-- **`KeplerianImpulsiveMan.dv` as the source has it**: the same -/
theorem kepImp_history_free (level : σ → α) (proj : σ → α → β) (os : List σ) (s0 : α) :
    runCalls kepImpDvProg level proj s0 os = os.map (fun o => some (proj o (level o))) :=
  storeRet_history_free level proj os s0

/-- two objects with the same definition, whatever each was used for before, agree on every later state -/
theorem kepCont_shared_eq_new (level : σ → α) (proj : σ → α → β) (before os : List σ) (s0 s1 : α) :
    (runCalls kepContAccelProg level proj s0 (before ++ os)).drop before.length = runCalls kepContAccelProg level proj s1 os := by
  rw [kepCont_history_free, kepCont_history_free, List.map_append, List.drop_left' (by simp)]

end generic

section real
open BeyondVerif.R BeyondVerif.NumReal

/-- the state a Keplerian maneuver reads: position, velocity and `(µ, a, i, v)` of the orbit -/
structure KepSt where
  pos : V3
  vel : V3
  mu : ℝ
  a : ℝ
  i : ℝ
  v : ℝ

/-- the ℝ model `kepContAccel` (templates/Man.tpl) is what the state machine of the source returns at every call of any history -/
theorem kepContAccel_history_free (da di dOmega duration : ℝ) (os : List KepSt) (s0 : V3) :
    runCalls kepContAccelProg
        (fun o : KepSt => accelOfDv ⟨dkepDvT o.mu o.a o.i o.v da di dOmega, 0, dkepDvW o.mu o.a o.i o.v da di dOmega⟩ duration)
        (fun o acc => manProject Tag.tnw o.pos o.vel acc) s0 os
      = os.map (fun o => some (kepContAccel o.pos o.vel o.mu o.a o.i o.v da di dOmega duration)) := by
  rw [kepCont_history_free]; rfl

end real
end BeyondVerif.C17
