import BeyondVerif.Props.C18Series
import BeyondVerif.Generated.SolarRoutes
/-!
# C18 — part 1b: tabulations of the analytical Sun and Moon

The property's velocity clause — "with velocities equal to the time derivative of the positions" — holds for a Sun / Moon
state however it is obtained: `Body.propagate`, `Orbit.propagate`, or as a point of a tabulation (`Orbit.iter`,
`Orbit.ephemeris`, `Orbit.ephem`, `propagator.iter`, with `start/stop/step` or `dates=`).  `Solar.table` models
`AnalyticalPropagator._iter` as the two propagators inherit it: the list of the single propagations.

Proved here, for every table (any number of points, any spacing, any order of the dates):
* a point of a tabulation is the single propagation at its date (`table_point`), one state per requested date
  (`table_length`);
* hence it is a function of its own date only — not of the step of the table, of the neighbouring points, of its place
  (first, interior, last) or of the number of points (`table_point_function_of_date`);
* its position entries are the series at the date and its velocity entries the symmetric difference quotient of the
  position series over the step *of the class* (`sun_table_entries`, `moon_table_entries`), to which the error bound
  `velocity_error_at_steps` (h²/6 · sup|f‴|, h = 5 days / 1 day) applies — at every point of every table;
* `tabulation_is_modelled`: the classes of /repo, as regenerated on this run (Generated/SolarRoutes: method resolution of
  the live classes and the AST of the `_iter` they resolve to), tabulate this way: `_iter` yields `self.propagate(date)`
  for each date and nothing else, `propagate` is `_DiffPropagator`'s.  An `_iter` of another shape breaks this theorem.
-/
namespace BeyondVerif.C18
open BeyondVerif.R BeyondVerif.NumReal

/-- **One state per requested date.** -/
theorem table_length (state : ℝ → ℝ → ℝ → List ℝ) (args : List (ℝ × ℝ × ℝ)) :
    (Solar.table state args).length = args.length := by
  simp [Solar.table]

/-- **A point of a tabulation is the single propagation at its date.** -/
theorem table_point (state : ℝ → ℝ → ℝ → List ℝ) (args : List (ℝ × ℝ × ℝ)) (k : ℕ) (hk : k < args.length) :
    (Solar.table state args)[k]? = some (state args[k].1 args[k].2.1 args[k].2.2) := by
  simp [Solar.table, List.getElem?_map, List.getElem?_eq_getElem hk]

/-- **A tabulated state is a function of its own date only**: two tables — different steps, different numbers of
points, different neighbours, the date at different places — return the same state for the same date. -/
theorem table_point_function_of_date (state : ℝ → ℝ → ℝ → List ℝ) (args args' : List (ℝ × ℝ × ℝ)) (k k' : ℕ)
    (hk : k < args.length) (hk' : k' < args'.length) (hsame : args[k] = args'[k']) :
    (Solar.table state args)[k]? = (Solar.table state args')[k']? := by
  rw [table_point state args k hk, table_point state args' k' hk', hsame]

/-- **Sun, every point of every tabulation**: position = the series at the date, velocity = the symmetric difference
quotient of the position series over the step of the class (not the step of the table). -/
theorem sun_table_entries (args : List (ℝ × ℝ × ℝ)) (k : ℕ) (hk : k < args.length) :
    ∃ st, (Solar.sunTable args)[k]? = some st ∧ ∀ i < 3,
      st.getD i 0 = (sunSeries args[k].2.1).getD i 0 ∧
      st.getD (i + 3) 0 = ((sunSeries args[k].2.2).getD i 0 - (sunSeries args[k].1).getD i 0) / (2 * sunStep) :=
  ⟨_, table_point Solar.sunState args k hk, sun_state_entries _ _ _⟩

/-- **Moon, every point of every tabulation.** -/
theorem moon_table_entries (args : List (ℝ × ℝ × ℝ)) (k : ℕ) (hk : k < args.length) :
    ∃ st, (Solar.moonTable args)[k]? = some st ∧ ∀ i < 3,
      st.getD i 0 = (moonSeries args[k].2.1).getD i 0 ∧
      st.getD (i + 3) 0 = ((moonSeries args[k].2.2).getD i 0 - (moonSeries args[k].1).getD i 0) / (2 * moonStep) :=
  ⟨_, table_point Solar.moonState args k hk, moon_state_entries _ _ _⟩

/-- the class whose body defines the method `m` that the propagator class `c` resolves to -/
def ownerOf (c m : String) : Option String :=
  (Generated.solarMethodOwner.find? fun r => r.1 == c && r.2.1 == m).map fun r => r.2.2

/-- **The code tabulates the way the model does** (regenerated from /repo on every run): for the Sun and the Moon the
`_iter` reached through the method resolution order yields `self.propagate(date)` for each date and nothing else, and
`propagate` is the difference-quotient one of `_DiffPropagator` (`Solar.diffState`). -/
theorem tabulation_is_modelled :
    ∀ c ∈ ["SunPropagator", "MoonPropagator"],
      Generated.solarIterPropagatesEachDate.lookup c = some true ∧ ownerOf c "propagate" = some "_DiffPropagator" := by
  decide

/-- non-vacuity: a table of three dates has three states, the middle one being the single propagation -/
example : (Solar.sunTable [(0, 1, 2), (1, 2, 3), (2, 3, 4)])[1]? = some (Solar.sunState 1 2 3) :=
  table_point Solar.sunState _ 1 (by simp)

end BeyondVerif.C18
