import BeyondVerif.Props.C13Wf
/-!
C13, `load_dump_id` for a whole message type: **TDM in XML**.  For every well-formed measurement set
(`TdmWf`: non-empty; every observation of one of the four classes with non-empty epoch and value; every
path non-empty, made of non-empty names, with at most nine distinct participants) `loadTdmXml (tdmXml m)`
is the list of the per-path sets of `m`, in order of first appearance of the paths
(`tdm_xml_load_dump_id`); when all observations share one path the set comes back as itself and can be
dumped again (`tdm_xml_single_path`).

Assembly (same style as `opm_xml_load_dump_id`):
* `tdmMetaG` / `tdmMeta_eq`: `collect_metadata` as an explicit association list; its tags are pairwise
  distinct (`metaG_nodup`), its texts non-empty (`metaG_vals`), so `xml2dict` turns the `metadata`
  element into the list itself (`recurseKids_leaves`) and the reader's `mapM … .text` gives it back
  (`mapM_metaText`);
* participant numbering: `tdmPath_meta` (`PARTICIPANT_i` = i-th distinct name of the path, `PATH` =
  indices, the reader takes `participants[i-1]`);
* `ANGLE_TYPE`: `obsWf_of_set` (a set with an azimuth or an elevation carries `AZEL` in its own
  metadata; otherwise the incoming local `angle_type` is kept and not needed);
* one segment for an arbitrary incoming `angle`: `seg_xml_roundtrip`; all segments: `segs_xml_roundtrip`;
* the split by path: `tdmSets_wf`, `tdmSets_ne`, `tdmSets_single`.
-/
namespace BeyondVerif.C13
open BeyondVerif.Ccsds BeyondVerif.Generated

theorem mem_dedup {α : Type} [BEq α] [LawfulBEq α] (l : List α) (a : α) : a ∈ dedup l ↔ a ∈ l := by
  induction l with
  | nil => simp [dedup]
  | cons x xs ih =>
    simp only [dedup, List.mem_cons, List.mem_filter, ih]
    by_cases h : a = x <;> simp [h]

theorem getElem?_idxOf' {α : Type} [BEq α] [LawfulBEq α] (l : List α) (a : α) (h : a ∈ l) : l[l.idxOf a]? = some a := by
  induction l with
  | nil => simp at h
  | cons x xs ih =>
    rw [List.idxOf_cons]
    by_cases hx : x = a
    · subst hx; simp
    · have : a ∈ xs := by
        simp only [List.mem_cons] at h
        rcases h with h | h
        · exact absurd h.symm hx
        · exact h
      have hb : (x == a) = false := by simpa using hx
      rw [hb, cond_false, List.getElem?_cons_succ]
      exact ih this
def tdmMetaG (scale : String) (st sp : Txt) (parts : List String) (idx : List Nat) (r a : Bool) : List (String × Txt) :=
  [("TIME_SYSTEM", Txt.s scale), ("START_TIME", st), ("STOP_TIME", sp)] ++
  (participantKeys.zip parts).map (fun (k, p) => (k, Txt.s p)) ++
  [("MODE", .s "SEQUENTIAL"), ("PATH", .l idx)] ++
  (if r then [("RANGE_UNITS", Txt.s "km")] else []) ++
  (if a then [("ANGLE_TYPE", Txt.s "AZEL")] else [])

theorem tdmMeta_eq (scale : String) (path : List String) (set : List Obs) :
    tdmMeta scale path set = tdmMetaG scale ((set.head?.map (·.epoch)).getD (.s "?")) ((set.getLast?.map (·.epoch)).getD (.s "?"))
      (dedup path) (path.map fun p => (dedup path).idxOf p + 1)
      (tdmRangeTrig.any (dedup (set.map (·.kind))).contains) (tdmAngleTrig.any (dedup (set.map (·.kind))).contains) := by
  simp only [tdmMeta, tdmMetaG]

def partKV (kp : String × String) : String × Txt := (kp.1, Txt.s kp.2)

theorem partKV_eq : (fun (x : String × String) => match x with | (k, p) => (k, Txt.s p)) = partKV := by
  funext ⟨k, p⟩; rfl

theorem lookup_zipmap_none (ks vs : List String) (k : String) (h : k ∉ ks) :
    ((ks.zip vs).map partKV).lookup k = none := by
  induction ks generalizing vs with
  | nil => simp
  | cons k' ks ih =>
    cases vs with
    | nil => simp
    | cons v vs =>
      simp only [List.mem_cons, not_or] at h
      have hb : (k == k') = false := by simpa using h.1
      simp [partKV, List.lookup, hb, ih vs h.2]

theorem keys_zipmap (ks vs : List String) : ((ks.zip vs).map partKV).map (·.1) = ks.take vs.length := by
  induction ks generalizing vs with
  | nil => simp
  | cons k' ks ih =>
    cases vs with
    | nil => simp
    | cons v vs => simp [partKV, ih vs]

/-- the tags of a metadata block -/
def metaKeys (n : Nat) (r a : Bool) : List String :=
  ["TIME_SYSTEM", "START_TIME", "STOP_TIME"] ++ participantKeys.take n ++ ["MODE", "PATH"] ++
  (if r then ["RANGE_UNITS"] else []) ++ (if a then ["ANGLE_TYPE"] else [])

theorem metaKeys_nodup : ∀ n : Fin 10, ∀ r a : Bool, (metaKeys n.1 r a).Nodup := by decide

theorem metaG_keys (scale : String) (st sp : Txt) (parts : List String) (idx : List Nat) (r a : Bool) :
    (tdmMetaG scale st sp parts idx r a).map (·.1) = metaKeys parts.length r a := by
  simp only [tdmMetaG, partKV_eq, metaKeys, List.map_append, keys_zipmap]
  cases r <;> cases a <;> simp

theorem metaG_nodup (scale : String) (st sp : Txt) (parts : List String) (idx : List Nat) (r a : Bool) (h : parts.length ≤ 9) :
    ((tdmMetaG scale st sp parts idx r a).map (·.1)).Nodup := by
  rw [metaG_keys]
  exact metaKeys_nodup ⟨parts.length, by omega⟩ r a

theorem metaG_path (scale : String) (st sp : Txt) (parts : List String) (idx : List Nat) (r a : Bool) :
    (tdmMetaG scale st sp parts idx r a).lookup "PATH" = some (.l idx) := by
  simp [tdmMetaG, partKV_eq, List.lookup_append, lookup_zipmap_none participantKeys parts "PATH" (by decide), List.lookup]

theorem metaG_scale (scale : String) (st sp : Txt) (parts : List String) (idx : List Nat) (r a : Bool) :
    (tdmMetaG scale st sp parts idx r a).lookup "TIME_SYSTEM" = some (.s scale) := by
  simp [tdmMetaG]

theorem metaG_angle (scale : String) (st sp : Txt) (parts : List String) (idx : List Nat) (r a : Bool) :
    (tdmMetaG scale st sp parts idx r a).lookup "ANGLE_TYPE" = (if a then some (.s "AZEL") else none) := by
  cases r <;> cases a <;>
  simp [tdmMetaG, partKV_eq, List.lookup_append, lookup_zipmap_none participantKeys parts "ANGLE_TYPE" (by decide), List.lookup]

theorem metaG_parts (scale : String) (st sp : Txt) (parts : List String) (idx : List Nat) (r a : Bool) (h : parts.length ≤ 9) :
    participantKeys.filterMap (fun k => (tdmMetaG scale st sp parts idx r a).lookup k) = parts.map Txt.s := by
  have hT : ∀ T : List (String × Txt), (∀ k ∈ participantKeys, T.lookup k = none) →
      participantKeys.filterMap (fun k => ([("TIME_SYSTEM", Txt.s scale), ("START_TIME", st), ("STOP_TIME", sp)] ++
        ((participantKeys.zip parts).map partKV ++ T)).lookup k) = parts.map Txt.s := by
    intro T hT
    simp only [participantKeys, List.mem_cons, List.not_mem_nil, or_false, forall_eq_or_imp, forall_eq] at hT
    obtain ⟨h1, h2, h3, h4, h5, h6, h7, h8, h9⟩ := hT
    rcases parts with _ | ⟨p1, _ | ⟨p2, _ | ⟨p3, _ | ⟨p4, _ | ⟨p5, _ | ⟨p6, _ | ⟨p7, _ | ⟨p8, _ | ⟨p9, _ | ⟨p10, r⟩⟩⟩⟩⟩⟩⟩⟩⟩⟩
    all_goals first
      | (exfalso; simp only [List.length_cons] at h; omega)
      | simp [participantKeys, partKV, List.lookup, h1, h2, h3, h4, h5, h6, h7, h8, h9]
  have := hT ([("MODE", .s "SEQUENTIAL"), ("PATH", .l idx)] ++ ((if r then [("RANGE_UNITS", Txt.s "km")] else []) ++
      (if a then [("ANGLE_TYPE", Txt.s "AZEL")] else []))) (by cases r <;> cases a <;> simp [participantKeys, List.lookup])
  simpa only [tdmMetaG, partKV_eq, List.append_assoc] using this

theorem metaG_vals (scale : String) (st sp : Txt) (parts : List String) (idx : List Nat) (r a : Bool)
    (h1 : scale ≠ "") (h2 : st ≠ .s "") (h3 : sp ≠ .s "") (h4 : ∀ p ∈ parts, p ≠ "") :
    ∀ kv ∈ tdmMetaG scale st sp parts idx r a, kv.2 ≠ .s "" := by
  intro kv hkv
  simp only [tdmMetaG, partKV_eq, List.mem_append, List.mem_map, List.mem_cons, List.not_mem_nil, or_false] at hkv
  rcases hkv with (((hkv | hkv) | hkv) | hkv) | hkv
  · rcases hkv with rfl | rfl | rfl <;> simp [h1, h2, h3]
  · obtain ⟨⟨k, p⟩, hz, rfl⟩ := hkv
    have := h4 p (List.of_mem_zip hz).2
    simp [partKV, this]
  · rcases hkv with rfl | rfl <;> simp
  · cases r <;> simp at hkv
    subst hkv; simp
  · cases a <;> simp at hkv
    subst hkv; simp

/-! ### leaves with distinct tags convert to the association list itself -/

def metaLeaf (kv : String × Txt) : Elem := .leaf kv.1 [] kv.2
def metaField (kv : String × Txt) : String × Val := (kv.1, .field kv.2 [])

theorem metaLeaf_eq : (fun (x : String × Txt) => match x with | (k, v) => Elem.leaf k [] v) = metaLeaf := by
  funext ⟨k, p⟩; rfl

theorem recurseKids_leaves (kvs : List (String × Txt)) (d : Dict)
    (hv : ∀ kv ∈ kvs, kv.2 ≠ .s "") (hnd : (kvs.map (·.1)).Nodup) (hd : ∀ kv ∈ kvs, d.lookup kv.1 = none) :
    recurseKids (kvs.map metaLeaf) d = some (d ++ kvs.map metaField) := by
  induction kvs generalizing d with
  | nil => simp [recurseKids]
  | cons kv r ih =>
    obtain ⟨k, v⟩ := kv
    have hv0 : v ≠ .s "" := hv (k, v) (by simp)
    have hd0 : d.lookup k = none := hd (k, v) (by simp)
    simp only [List.map_cons, List.nodup_cons, List.mem_map, not_exists, not_and] at hnd
    have hstep : recurseKids (metaLeaf (k, v) :: r.map metaLeaf) d = recurseKids (r.map metaLeaf) (d ++ [(k, Val.field v [])]) := by
      simp [recurseKids, recurse, metaLeaf, hv0, addChild, Elem.tag, hd0]
    rw [List.map_cons, hstep, ih _ (fun x hx => hv x (by simp [hx])) hnd.2]
    · simp [metaField]
    · intro x hx
      have hne : x.1 ≠ k := fun e => hnd.1 x hx e
      rw [lookup_append_other d k x.1 _ hne]
      exact hd x (by simp [hx])

theorem mapM_metaText (f : String × Val → R (String × Txt)) (hf : ∀ k t, f (k, .field t []) = .ok (k, t)) (kvs : List (String × Txt)) :
    (kvs.map metaField).mapM f = .ok kvs := by
  induction kvs with
  | nil => rfl
  | cons kv r ih =>
    obtain ⟨k, v⟩ := kv
    simp only [List.map_cons, List.mapM_cons, metaField, hf, ih, bind, Except.bind, pure, Except.pure]

theorem mapM_map_ok {α β : Type} (f : α → β) (g : β → R α) (l : List α) (h : ∀ a ∈ l, g (f a) = .ok a) :
    (l.map f).mapM g = .ok l := by
  induction l with
  | nil => rfl
  | cons a r ih =>
    simp only [List.map_cons, List.mapM_cons, h a (by simp), ih (fun x hx => h x (by simp [hx])), bind, Except.bind, pure, Except.pure]

/-- **participant numbering**: the path is recovered from `PARTICIPANT_1..k` and `PATH` -/
theorem tdmPath_meta (scale : String) (path : List String) (set : List Obs) (hlen : (dedup path).length ≤ 9) :
    tdmPath (tdmMeta scale path set) = .ok path := by
  unfold tdmPath
  rw [tdmMeta_eq, metaG_parts _ _ _ _ _ _ _ hlen, metaG_path]
  dsimp only
  apply mapM_map_ok
  intro p hp
  have hm : p ∈ dedup path := (mem_dedup path p).2 hp
  have hg := getElem?_idxOf' (dedup path) p hm
  simp [List.getElem?_map, hg, pure, Except.pure]


/-! ### one segment -/

/-- what the writer and the reader need of one (path, set) pair -/
structure TdmSetWf (path : List String) (set : List Obs) : Prop where
  ne : set ≠ []
  obs : ∀ o ∈ set, o.path = path ∧ o.epoch ≠ .s "" ∧ o.value ≠ .s "" ∧ o.kind ∈ obsKinds
  parts : ∀ p ∈ path, p ≠ ""
  len : (dedup path).length ≤ 9

/-- the body of the segment loop of `tdm._dumps_xml` -/
def tdmSegW (scale : String) (ps : List String × List Obs) : R Elem := do
  let obs ← ps.2.mapM obsXml
  pure <| Elem.node "segment" [.node "metadata" ((tdmMeta scale ps.1 ps.2).map metaLeaf), .node "data" obs]

theorem angle_trig (set : List Obs) (o : Obs) (ho : o ∈ set) (hk : o.kind = "Azimut" ∨ o.kind = "Elevation") :
    tdmAngleTrig.any (dedup (set.map (·.kind))).contains = true := by
  rw [List.any_eq_true]
  refine ⟨o.kind, ?_, ?_⟩
  · rcases hk with h | h <;> rw [h] <;> decide
  · rw [List.contains_iff_mem]
    exact (mem_dedup _ _).2 (List.mem_map_of_mem ho)

theorem obsWf_of_set (path : List String) (set : List Obs) (h : TdmSetWf path set) (angle : Option String) :
    ∀ o ∈ set, ObsWf (if tdmAngleTrig.any (dedup (set.map (·.kind))).contains then some "AZEL" else angle) path o := by
  intro o ho
  obtain ⟨h1, h2, h3, h4⟩ := h.obs o ho
  refine ⟨h1, h2, h3, ?_⟩
  simp only [obsKinds, List.mem_cons, List.not_mem_nil, or_false] at h4
  rcases h4 with h4 | h4 | h4 | h4
  · exact Or.inl h4
  · exact Or.inr (Or.inl h4)
  · exact Or.inr (Or.inr ⟨Or.inl h4, by rw [angle_trig set o ho (Or.inl h4)]; rfl⟩)
  · exact Or.inr (Or.inr ⟨Or.inr h4, by rw [angle_trig set o ho (Or.inr h4)]; rfl⟩)

theorem seg_xml_roundtrip (scale : String) (hs : scale ≠ "") (path : List String) (set : List Obs) (h : TdmSetWf path set) :
    ∃ e V, tdmSegW scale (path, set) = .ok e ∧ e.tag = "segment" ∧ recurse e = some (.dict V) ∧
      ∀ angle, ∃ angle', loadTdmSegXml angle V = .ok (angle', scale, set) := by
  obtain ⟨es, D, x, g1, g2, g3, _⟩ := observations_xml_roundtrip (some "AZEL") path set
    (by
      have := obsWf_of_set path set h (some "AZEL")
      intro o ho
      have := this o ho
      split at this <;> exact this) h.ne
  have hes : es.isEmpty = false := by
    cases es with
    | nil => simp [recurseKids] at g2; subst g2; simp at g3
    | cons _ _ => rfl
  obtain ⟨o0, r0, hset⟩ := List.exists_cons_of_ne_nil h.ne
  have hmd : recurseKids ((tdmMeta scale path set).map metaLeaf) [] = some ((tdmMeta scale path set).map metaField) := by
    have := recurseKids_leaves (tdmMeta scale path set) []
      (by
        rw [tdmMeta_eq]
        apply metaG_vals _ _ _ _ _ _ _ hs
        · rw [hset]; exact (h.obs o0 (by rw [hset]; simp)).2.1
        · have hl : set.getLast? = some (set.getLast h.ne) := List.getLast?_eq_some_getLast h.ne
          rw [hl]
          exact (h.obs _ (List.getLast_mem h.ne)).2.1
        · intro p hp
          exact h.parts p ((mem_dedup path p).1 hp))
      (by rw [tdmMeta_eq]; exact metaG_nodup _ _ _ _ _ _ _ h.len)
      (by intros; rfl)
    simpa using this
  have hmne : ((tdmMeta scale path set).map metaLeaf).isEmpty = false := by
    rw [tdmMeta_eq]; simp [tdmMetaG]
  refine ⟨Elem.node "segment" [.node "metadata" ((tdmMeta scale path set).map metaLeaf), .node "data" es],
    [("metadata", .dict ((tdmMeta scale path set).map metaField)), ("data", .dict D)], ?_, rfl, ?_, ?_⟩
  · simp only [tdmSegW, g1, bind, Except.bind, pure, Except.pure]
  · have htn : ∀ t cs, (Elem.node t cs).tag = t := fun _ _ => rfl
    simp [recurse, recurseKids, hmd, hmne, hes, g2, addChild, htn, List.lookup]
  · intro angle
    refine ⟨if tdmAngleTrig.any (dedup (set.map (·.kind))).contains then some "AZEL" else angle, ?_⟩
    obtain ⟨es', D', x', k1, k2, k3, k4⟩ := observations_xml_roundtrip _ path set (obsWf_of_set path set h angle) h.ne
    rw [g1] at k1
    cases k1
    rw [g2] at k2
    cases k2
    rw [g3] at k3
    cases k3
    have hmt : ((tdmMeta scale path set).map metaField).mapM (fun (k, v) => do pure (k, ← v.text) : String × Val → R (String × Txt))
        = .ok (tdmMeta scale path set) := mapM_metaText _ (fun _ _ => rfl) _
    have hgm : getItem [("metadata", Val.dict ((tdmMeta scale path set).map metaField)), ("data", Val.dict D)] "metadata"
        = .ok (Val.dict ((tdmMeta scale path set).map metaField)) := by simp [getItem, List.lookup]
    have hgd : getItem [("metadata", Val.dict ((tdmMeta scale path set).map metaField)), ("data", Val.dict D)] "data"
        = .ok (Val.dict D) := by simp [getItem, List.lookup]
    have hgo : getItem D "observation" = .ok x := by simp [getItem, g3]
    have hscale : metaStr (tdmMeta scale path set) "TIME_SYSTEM" = .ok scale := by
      simp [metaStr, tdmMeta_eq, metaG_scale]
    have hang : List.lookup "ANGLE_TYPE" (tdmMeta scale path set) =
        if tdmAngleTrig.any (dedup (set.map (·.kind))).contains then some (.s "AZEL") else none := by
      rw [tdmMeta_eq, metaG_angle]
    unfold loadTdmSegXml
    simp only [hgm, hgd, hgo, asDict, bind, Except.bind, pure, Except.pure] at k4 hmt ⊢
    simp only [hmt, tdmPath_meta scale path set h.len, hscale]
    rw [hang]
    cases htrig : tdmAngleTrig.any (dedup (set.map (·.kind))).contains
    · rw [htrig] at k4
      simp only [Bool.false_eq_true, if_false] at k4 ⊢
      cases hi : iterGroup wrapTdmObservation Err.attrError x with
      | error e => rw [hi] at k4; cases k4
      | ok v => rw [hi] at k4; simp only at k4 ⊢; rw [k4]
    · rw [htrig] at k4
      simp only [if_true] at k4 ⊢
      cases hi : iterGroup wrapTdmObservation Err.attrError x with
      | error e => rw [hi] at k4; cases k4
      | ok v => rw [hi] at k4; simp only at k4 ⊢; rw [k4]


/-! ### all segments -/

theorem segs_xml_roundtrip (scale : String) (hs : scale ≠ "") (sets : List (List String × List Obs))
    (h : ∀ ps ∈ sets, TdmSetWf ps.1 ps.2) :
    ∃ es vs, sets.mapM (tdmSegW scale) = .ok es ∧ (∀ e ∈ es, e.tag = "segment") ∧ es.map recurse = vs.map some ∧
      (∀ v ∈ vs, v.isList = false) ∧ es.length = sets.length ∧
      ∀ angle, tdmSegsXml vs angle = .ok (sets.map fun ps => (scale, ps.2)) := by
  induction sets with
  | nil => exact ⟨[], [], rfl, by simp, rfl, by simp, rfl, fun _ => rfl⟩
  | cons ps r ih =>
    obtain ⟨es, vs, h1, h2, h3, h4, h5, h6⟩ := ih (fun x hx => h x (by simp [hx]))
    obtain ⟨e, V, g1, g2, g3, g4⟩ := seg_xml_roundtrip scale hs ps.1 ps.2 (h ps (by simp))
    refine ⟨e :: es, .dict V :: vs, ?_, ?_, ?_, ?_, by simp [h5], ?_⟩
    · simp only [List.mapM_cons, g1, h1, bind, Except.bind, pure, Except.pure]
    · intro x hx
      simp only [List.mem_cons] at hx
      rcases hx with rfl | hx
      · exact g2
      · exact h2 x hx
    · simp only [List.map_cons, g3, h3]
    · intro v hv
      simp only [List.mem_cons] at hv
      rcases hv with rfl | hv
      · rfl
      · exact h4 v hv
    · intro angle
      obtain ⟨angle', ha⟩ := g4 angle
      simp only [tdmSegsXml, asDict, bind, Except.bind, ha, h6 angle', pure, Except.pure, List.map_cons]

/-! ### the split by path -/

theorem dedup_ne_nil {α : Type} [BEq α] (l : List α) (h : l ≠ []) : dedup l ≠ [] := by
  cases l with
  | nil => exact absurd rfl h
  | cons x xs => simp [dedup]

theorem tdmSets_wf (m : Tdm) (h : TdmWf m) : ∀ ps ∈ tdmSets m, TdmSetWf ps.1 ps.2 := by
  intro ps hps
  simp only [tdmSets, List.mem_map] at hps
  obtain ⟨p, hp, rfl⟩ := hps
  rw [mem_dedup] at hp
  simp only [List.mem_map] at hp
  obtain ⟨o0, ho0, rfl⟩ := hp
  refine ⟨?_, ?_, ?_, ?_⟩
  · intro hnil
    have : o0 ∈ m.obs.filter (·.path == o0.path) := by simp [ho0]
    simp only at hnil
    rw [hnil] at this
    simp at this
  · intro o ho
    simp only [List.mem_filter, beq_iff_eq] at ho
    obtain ⟨h1, h2, h3⟩ := h.obs o ho.1
    exact ⟨ho.2, h1, h2, h3⟩
  · exact (h.path o0 ho0).2.1
  · exact (h.path o0 ho0).2.2

theorem tdmSets_ne (m : Tdm) (h : TdmWf m) : tdmSets m ≠ [] := by
  have h1 : m.obs.map (·.path) ≠ [] := by simpa using h.obs_ne
  have h2 := dedup_ne_nil _ h1
  simpa [tdmSets] using h2

theorem tdmXml_eq (m : Tdm) (h : TdmWf m) :
    tdmXml m = ((tdmSets m).mapM (tdmSegW m.scale) >>= fun segs => pure (.node "tdm" [headerXml, .node "body" segs])) := by
  have hany : (tdmSets m).any (fun ps => decide ((dedup ps.1).length > 9)) = false := by
    rw [List.any_eq_false]
    intro ps hps
    have := (tdmSets_wf m h ps hps).len
    simp only [decide_eq_true_eq]
    omega
  have hf : (fun (x : List String × List Obs) => match x with
      | (path, set) => do
        let obs ← set.mapM obsXml
        pure <| Elem.node "segment" [.node "metadata" ((tdmMeta m.scale path set).map fun (k, v) => Elem.leaf k [] v), .node "data" obs])
      = tdmSegW m.scale := by
    funext ⟨path, set⟩
    simp only [tdmSegW, metaLeaf_eq]
  unfold tdmXml
  rw [hany, hf]
  rfl

theorem headerXml_dict : recurse headerXml = some headerDict := by
  simp [headerXml, headerDict, leafS, recurse, recurseKids, addChild, Elem.tag, List.lookup]

/-- **`load_dump_id`, TDM, XML**: every well-formed measurement set (any number of paths, each written as one segment with its
participants numbered in order of first appearance and PATH = their indices; 1..n observations per path of the four classes) is
read back from what the XML writer produced as the list of its per-path sets, in order of first appearance of the paths. -/
theorem tdm_xml_load_dump_id (m : Tdm) (h : TdmWf m) : (tdmXml m >>= loadTdmXml) = .ok (m.scale, (tdmSets m).map (·.2)) := by
  obtain ⟨es, vs, h1, h2, h3, h4, h5, h6⟩ := segs_xml_roundtrip m.scale h.scale (tdmSets m) (tdmSets_wf m h)
  have hne : es ≠ [] := by
    intro hnil
    rw [hnil] at h5
    exact tdmSets_ne m h (List.eq_nil_of_length_eq_zero h5.symm)
  obtain ⟨D, x, k1, k2, k3, _⟩ := xml_group_roundtrip "segment" [] rfl es vs wrapTdmSegment .typeError hne h2 h3 h4 (Or.inl (by decide))
  have hemp : es.isEmpty = false := by
    cases es with
    | nil => exact absurd rfl hne
    | cons _ _ => rfl
  have hx : xml2dict (.node "tdm" [headerXml, .node "body" es]) = .ok [("header", headerDict), ("body", .dict D)] := by
    have hht : headerXml.tag = "header" := rfl
    have htn : ∀ t cs, (Elem.node t cs).tag = t := fun _ _ => rfl
    simp [xml2dict, recurseKids, recurse, headerXml_dict, hht, htn, k1, hemp, addChild, List.lookup]
  have hlast : (((tdmSets m).map fun ps => (m.scale, ps.2)).getLast?.map (·.1)).getD "" = m.scale := by
    rw [List.getLast?_map, List.getLast?_eq_some_getLast (tdmSets_ne m h)]
    rfl
  have hmap : ((tdmSets m).map fun ps => (m.scale, ps.2)).map (·.2) = (tdmSets m).map (·.2) := by
    rw [List.map_map]; rfl
  rw [tdmXml_eq m h]
  simp only [h1, bind, Except.bind, pure, Except.pure, loadTdmXml, hx]
  have hb : getItem [("header", headerDict), ("body", Val.dict D)] "body" = .ok (Val.dict D) := by
    simp [getItem, List.lookup]
  have hs : (Val.dict D).item "segment" = .ok x := by simp [Val.item, getItem, k2]
  simp only [tdmFromXmlDict, hb, hs, k3, h6 none, bind, Except.bind, pure, Except.pure, hlast, hmap]

/-! ### a single path -/

theorem dedup_const {α : Type} [BEq α] [LawfulBEq α] (l : List α) (a : α) (hne : l ≠ []) (h : ∀ x ∈ l, x = a) : dedup l = [a] := by
  cases l with
  | nil => exact absurd rfl hne
  | cons x xs =>
    have hx : x = a := h x (by simp)
    subst hx
    simp only [dedup, List.cons.injEq, true_and, List.filter_eq_nil_iff]
    intro y hy
    have : y = x := h y (by simp [(mem_dedup xs y).1 hy])
    simp [this]

theorem tdmSets_single (m : Tdm) (h : TdmWf m) (hp : ∀ o ∈ m.obs, ∀ o' ∈ m.obs, o.path = o'.path) :
    (tdmSets m).map (·.2) = [m.obs] := by
  obtain ⟨o0, r0, hobs⟩ := List.exists_cons_of_ne_nil h.obs_ne
  have ho0 : o0 ∈ m.obs := by rw [hobs]; simp
  have hd : dedup (m.obs.map (·.path)) = [o0.path] :=
    dedup_const _ _ (by simpa using h.obs_ne) (by
      intro p hp'
      simp only [List.mem_map] at hp'
      obtain ⟨o, ho, rfl⟩ := hp'
      exact hp o ho o0 ho0)
  simp only [tdmSets, hd, List.map_cons, List.map_nil, List.cons.injEq, and_true]
  rw [List.filter_eq_self]
  intro o ho
  simp [hp o ho o0 ho0]

/-- **`load_dump_id`, TDM, XML, single path**: a measurement set whose observations all share one path is written as one segment,
read back as one set, which `dumps` accepts again: it comes back as itself. -/
theorem tdm_xml_single_path (m : Tdm) (h : TdmWf m) (hp : ∀ o ∈ m.obs, ∀ o' ∈ m.obs, o.path = o'.path) :
    (tdmXml m >>= loadTdmXml >>= tdmOfSets) = .ok m := by
  rw [tdm_xml_load_dump_id m h, tdmSets_single m h hp]
  rfl


/-! ### the hypotheses are satisfiable -/

def tdmObA (k e : String) : Obs := { kind := k, path := ["STA", "SAT", "STA"], epoch := .s e, value := .s "1234.500000" }
def tdmObB (k e : String) : Obs := { kind := k, path := ["STB", "SAT"], epoch := .s e, value := .s "99.000000" }

/-- two interleaved paths (a two-way path with a repeated participant, a one-way path), all four classes -/
def tdmEx2 : Tdm := ⟨"UTC", [tdmObA "Azimut" "t0", tdmObB "Range" "t0", tdmObA "Elevation" "t1", tdmObB "Doppler" "t1", tdmObA "Range" "t2"]⟩

theorem tdmEx2_wf : TdmWf tdmEx2 :=
  { scale := by decide, obs_ne := by simp [tdmEx2],
    obs := by
      intro o ho
      simp only [tdmEx2, List.mem_cons, List.not_mem_nil, or_false] at ho
      rcases ho with rfl | rfl | rfl | rfl | rfl <;> exact ⟨by decide, by decide, by decide⟩
    path := by
      intro o ho
      simp only [tdmEx2, List.mem_cons, List.not_mem_nil, or_false] at ho
      rcases ho with rfl | rfl | rfl | rfl | rfl <;> exact ⟨by decide, by decide, by decide⟩ }

example : (tdmXml tdmEx2 >>= loadTdmXml) =
    .ok ("UTC", [[tdmObA "Azimut" "t0", tdmObA "Elevation" "t1", tdmObA "Range" "t2"], [tdmObB "Range" "t0", tdmObB "Doppler" "t1"]]) :=
  tdm_xml_load_dump_id tdmEx2 tdmEx2_wf

/-- a single two-way path, angles and range -/
def tdmEx1 : Tdm := ⟨"UTC", [tdmObA "Azimut" "t0", tdmObA "Elevation" "t0", tdmObA "Range" "t1"]⟩

theorem tdmEx1_wf : TdmWf tdmEx1 :=
  { scale := by decide, obs_ne := by simp [tdmEx1],
    obs := by
      intro o ho
      simp only [tdmEx1, List.mem_cons, List.not_mem_nil, or_false] at ho
      rcases ho with rfl | rfl | rfl <;> exact ⟨by decide, by decide, by decide⟩
    path := by
      intro o ho
      simp only [tdmEx1, List.mem_cons, List.not_mem_nil, or_false] at ho
      rcases ho with rfl | rfl | rfl <;> exact ⟨by decide, by decide, by decide⟩ }

example : (tdmXml tdmEx1 >>= loadTdmXml >>= tdmOfSets) = .ok tdmEx1 :=
  tdm_xml_single_path tdmEx1 tdmEx1_wf (by
    intro o ho o' ho'
    simp only [tdmEx1, List.mem_cons, List.not_mem_nil, or_false] at ho ho'
    rcases ho with rfl | rfl | rfl <;> rcases ho' with rfl | rfl | rfl <;> rfl)

end BeyondVerif.C13
