import BeyondVerif.Model.MissionR
import Mathlib.Tactic.Ring
import Mathlib.Tactic.FieldSimp
import Mathlib.Tactic.Linarith
import Mathlib.Tactic.Positivity
import Mathlib.Tactic.NormNum

/-!
# C19 — mission-design helpers are consistent with the dynamics they target (part 1)

LTAN ↔ RAAN, Walker constellations, the sun-synchronous solver and the J2 node rate, the Lambert
solver.  All formulas (`raan2ltan`, `ltan2raan`, `starRaan`, `starNu`, `deltaRaan`, `deltaNu`, `ssoI`,
`ssoA`, `ssoE`, `j2NodeRate`, `j2Rates`, `meanMotion`, `lamC`, `lamS`, `lamY`, `lamF`, `lamDF`, `lamA`, `lamFG`, `lamDthetaSrc`,
`betaSrc`, and the text of the `J2.orbit` accessors `j2OrbitGetter`, `j2OrbitSetter`) are
*translated from the Python source on every run* (Generated/*.lean); the loops, the vector
algebra and the state machine of the J2 propagator object are in lean/templates/Mission.tpl.
Part 2 (beta angle, B-plane): Props/C19Geom.lean.  Part 3 (direction / way selection of `_lambert`, Kepler's
equation): Props/C19Kepler.lean.  Witnesses: Witness/C19.lean.
-/
namespace BeyondVerif.C19
open BeyondVerif.R BeyondVerif.NumReal

/-! ## Python's float `%` -/

theorem fmod_sub_int_mul (x m : ℝ) (k : ℤ) (hm : m ≠ 0) : fmod (x - m * k) m = fmod x m := by
  unfold fmod
  have h : (x - m * k) / m = x / m - k := by field_simp
  rw [h, Int.floor_sub_intCast]; push_cast; ring

theorem fmod_of_range (x m : ℝ) (hm : 0 < m) (h0 : 0 ≤ x) (h1 : x < m) : fmod x m = x := by
  unfold fmod
  have h : ⌊x / m⌋ = 0 := by
    rw [Int.floor_eq_zero_iff]
    exact ⟨by positivity, by rw [div_lt_one hm]; exact h1⟩
  rw [h]; simp

theorem fmod_range (x m : ℝ) (hm : 0 < m) : 0 ≤ fmod x m ∧ fmod x m < m := by
  unfold fmod
  have h1 := Int.floor_le (x / m)
  have h2 := Int.lt_floor_add_one (x / m)
  rw [le_div_iff₀ hm] at h1
  rw [div_lt_iff₀ hm] at h2
  constructor <;> nlinarith

/-! ## Local time of the ascending node ↔ right ascension of the node -/

/-- **LTAN → RAAN → LTAN is the identity modulo one day**, for an arbitrary right ascension `sun` of
the (mean or true) Sun. -/
theorem ltan_raan_inverse (ltan sun : ℝ) : raan2ltan (ltan2raan ltan sun) sun = fmod ltan 86400 := by
  have hpi := Real.pi_ne_zero
  unfold raan2ltan ltan2raan
  simp only
  have h1 : fmod ((ltan - 43200) * pi / 43200 + sun) (2 * pi)
      = (ltan - 43200) * pi / 43200 + sun - 2 * pi * (⌊((ltan - 43200) * pi / 43200 + sun) / (2 * pi)⌋ : ℤ) := rfl
  rw [h1]
  have h2 : 43200 + ((ltan - 43200) * pi / 43200 + sun - 2 * pi * (⌊((ltan - 43200) * pi / 43200 + sun) / (2 * pi)⌋ : ℤ) - sun) * 43200 / pi
      = ltan - 86400 * (⌊((ltan - 43200) * pi / 43200 + sun) / (2 * pi)⌋ : ℤ) := by
    field_simp; ring
  rw [h2, fmod_sub_int_mul _ _ _ (by norm_num)]

/-- for a local time inside the day the round trip is exact -/
theorem ltan_raan_inverse_in_day (ltan sun : ℝ) (h0 : 0 ≤ ltan) (h1 : ltan < 86400) :
    raan2ltan (ltan2raan ltan sun) sun = ltan := by
  rw [ltan_raan_inverse, fmod_of_range _ _ (by norm_num) h0 h1]

example : raan2ltan (ltan2raan 37000 5.1) 5.1 = 37000 := ltan_raan_inverse_in_day _ _ (by norm_num) (by norm_num)

/-- **RAAN → LTAN → RAAN is the identity modulo 2π** -/
theorem raan_ltan_inverse (raan sun : ℝ) : ltan2raan (raan2ltan raan sun) sun = fmod raan (2 * pi) := by
  have hpi := Real.pi_ne_zero
  unfold raan2ltan ltan2raan
  simp only
  have h1 : fmod (43200 + (raan - sun) * 43200 / pi) 86400
      = 43200 + (raan - sun) * 43200 / pi - 86400 * (⌊(43200 + (raan - sun) * 43200 / pi) / 86400⌋ : ℤ) := rfl
  rw [h1]
  have h2 : (43200 + (raan - sun) * 43200 / pi - 86400 * (⌊(43200 + (raan - sun) * 43200 / pi) / 86400⌋ : ℤ) - 43200) * pi / 43200 + sun
      = raan - (2 * pi) * (⌊(43200 + (raan - sun) * 43200 / pi) / 86400⌋ : ℤ) := by
    field_simp; ring
  rw [h2, fmod_sub_int_mul _ _ _ (by positivity)]

theorem raan_ltan_inverse_in_turn (raan sun : ℝ) (h0 : 0 ≤ raan) (h1 : raan < 2 * pi) :
    ltan2raan (raan2ltan raan sun) sun = raan := by
  rw [raan_ltan_inverse, fmod_of_range _ _ (by positivity) h0 h1]

/-- both results are normalised: LTAN in [0, 86400), RAAN in [0, 2π) -/
theorem ltan_raan_ranges (x sun : ℝ) :
    (0 ≤ raan2ltan x sun ∧ raan2ltan x sun < 86400) ∧ (0 ≤ ltan2raan x sun ∧ ltan2raan x sun < 2 * pi) :=
  ⟨fmod_range _ _ (by norm_num), fmod_range _ _ (by positivity)⟩

/-! ### `orb2ltan`: the orbit-level entry point, and what the `type` argument selects -/

/-- the two conversions with DIFFERENT sun angles: the right ascension comes back shifted by the difference of the two -/
theorem ltan_raan_mismatch (raan s1 s2 : ℝ) :
    ltan2raan (raan2ltan raan s1) s2 = fmod (raan + (s2 - s1)) (2 * pi) := by
  have hpi := Real.pi_ne_zero
  unfold raan2ltan ltan2raan
  simp only
  have h1 : fmod (43200 + (raan - s1) * 43200 / pi) 86400
      = 43200 + (raan - s1) * 43200 / pi - 86400 * (⌊(43200 + (raan - s1) * 43200 / pi) / 86400⌋ : ℤ) := rfl
  rw [h1]
  have h2 : (43200 + (raan - s1) * 43200 / pi - 86400 * (⌊(43200 + (raan - s1) * 43200 / pi) / 86400⌋ : ℤ) - 43200) * pi / 43200 + s2
      = (raan + (s2 - s1)) - (2 * pi) * (⌊(43200 + (raan - s1) * 43200 / pi) / 86400⌋ : ℤ) := by
    field_simp; ring
  rw [h2, fmod_sub_int_mul _ _ _ (by positivity)]

/-- the `type` argument of the LTAN helpers -/
inductive LtanType | mean | true
  deriving DecidableEq

/-- the sun angle a `type` selects (`m` = `_mean_sun_raan(date)`, `t` = `_true_sun_raan(date)`): the dispatch of
`raan2ltan` / `ltan2raan`, pinned to the source by `ltan_type_dispatch_source` -/
def sunOf (m t : ℝ) : LtanType → ℝ
  | .mean => m
  | .true => t

/-- `orb2ltan(orb, type)` as its source reads (`orb2ltan_source`): `raan2ltan` of the orbit's own date, of its right
ascension in EME2000, with the SAME `type` -/
noncomputable def orb2ltanModel (raanEME m t : ℝ) (ty : LtanType) : ℝ := raan2ltan raanEME (sunOf m t ty)

/-- **what `orb2ltan` hands on**, regenerated from the AST of ltan.py on every run: the orbit's date, the right ascension of
its EME2000 keplerian copy, and the caller's `type` -/
theorem orb2ltan_source :
    orb2ltanBody = ["def orb2ltan(orb, type='mean')",
      "return raan2ltan(orb.date, orb.copy(frame='EME2000', form='keplerian').raan, type)"] := by
  decide

/-- **how both directions choose the sun angle**: the same two tests, the same two providers, an error otherwise -/
theorem ltan_type_dispatch_source :
    ltanTypeDispatch = ["raan2ltan: type == 'mean' -> sun_raan = _mean_sun_raan(date)",
      "raan2ltan: type == 'true' -> sun_raan = _true_sun_raan(date)",
      "raan2ltan: else -> raise ValueError(f'Unknwon Local Time type : {type}')",
      "ltan2raan: type == 'mean' -> sun_raan = _mean_sun_raan(date)",
      "ltan2raan: type == 'true' -> sun_raan = _true_sun_raan(date)",
      "ltan2raan: else -> raise ValueError(f'Unknwon Local Time type : {type}')"] := by
  decide

/-- **orbit → LTAN → RAAN gives back the orbit's node** (modulo 2π), for either type, whatever the two sun angles are -/
theorem orb2ltan_inverse (raanEME m t : ℝ) (ty : LtanType) :
    ltan2raan (orb2ltanModel raanEME m t ty) (sunOf m t ty) = fmod raanEME (2 * pi) :=
  raan_ltan_inverse _ _

/-- what a `type` lost on the way costs: the node comes back shifted by (true − mean) sun angle, the equation of time
(up to 16 min = 4°) -/
theorem orb2ltan_type_dropped_defect (raanEME m t : ℝ) :
    ltan2raan (orb2ltanModel raanEME m t .mean) (sunOf m t .true) = fmod (raanEME + (t - m)) (2 * pi) :=
  ltan_raan_mismatch _ _ _

/-! ## Walker constellations -/

/-- **A Walker t/p/f constellation whose number of planes divides the total contains t satellites** -/
theorem walker_count (delta : Bool) (t p f : Nat) (raan0 : ℝ) (h : p ∣ t) :
    (walkerFleet delta t p f raan0).length = t := by
  simp [walkerFleet, List.length_flatMap, Nat.mul_div_cancel' h]

/-- in general the generator yields `planes * (total // planes)` satellites -/
theorem walker_count_general (delta : Bool) (t p f : Nat) (raan0 : ℝ) :
    (walkerFleet delta t p f raan0).length = p * (t / p) := by
  simp [walkerFleet, List.length_flatMap]

example : (walkerFleet true 24 3 1 0).length = 24 := walker_count _ _ _ _ _ (by decide)

/-- the fleet is exactly the set of (plane, slot) pairs -/
theorem walker_fleet_mem (delta : Bool) (t p f : Nat) (raan0 : ℝ) (x : ℝ × ℝ) :
    x ∈ walkerFleet delta t p f raan0 ↔
      ∃ i < p, ∃ j < t / p, x = (walkerRaan delta p raan0 i, walkerNu delta t p f raan0 i j) := by
  simp only [walkerFleet, List.mem_flatMap, List.mem_map, List.mem_range]
  constructor
  · rintro ⟨i, hi, j, hj, rfl⟩; exact ⟨i, hi, j, hj, rfl⟩
  · rintro ⟨i, hi, j, hj, rfl⟩; exact ⟨i, hi, j, hj, rfl⟩

/-- **The planes are evenly spaced**: consecutive planes differ by 2π/p (delta) or π/p (star) in right
ascension, the first one being at `raan0`. -/
theorem walker_planes_even (delta : Bool) (p : Nat) (raan0 : ℝ) (i : Nat) (hp : p ≠ 0) :
    walkerRaan delta p raan0 0 = raan0 ∧
    walkerRaan delta p raan0 (i + 1) - walkerRaan delta p raan0 i = (if delta then 2 * pi else pi) / p := by
  have hp' : (p : ℝ) ≠ 0 := Nat.cast_ne_zero.mpr hp
  cases delta <;> simp [walkerRaan, starRaan, deltaRaan, ofNat] <;> field_simp <;> ring

/-- a delta pattern closes on itself: plane `p` would coincide with plane 0 after a full turn -/
theorem walker_delta_closes (p : Nat) (raan0 : ℝ) (hp : p ≠ 0) :
    walkerRaan true p raan0 p = raan0 + 2 * pi := by
  have hp' : (p : ℝ) ≠ 0 := Nat.cast_ne_zero.mpr hp
  simp [walkerRaan, deltaRaan, ofNat]; field_simp; ring

/-- **Inter-plane phasing**: satellites in the same slot of adjacent planes differ by 2π f / t in
true anomaly, for both patterns. -/
theorem walker_phasing (delta : Bool) (t p f : Nat) (raan0 : ℝ) (i j : Nat) (hp : p ≠ 0) (ht : t ≠ 0) (h : p ∣ t) :
    walkerNu delta t p f raan0 (i + 1) j - walkerNu delta t p f raan0 i j = 2 * pi * f / t := by
  have hp' : (p : ℝ) ≠ 0 := Nat.cast_ne_zero.mpr hp
  have ht' : (t : ℝ) ≠ 0 := Nat.cast_ne_zero.mpr ht
  have hs : ((t / p : ℕ) : ℝ) = (t : ℝ) / p := Nat.cast_div h hp'
  cases delta <;> simp only [walkerNu, starNu, deltaNu, starRaan, deltaRaan, ofNat, hs] <;> push_cast <;> field_simp <;> ring

/-- **In-plane spacing**: consecutive satellites of one plane are 2π / (t/p) apart -/
theorem walker_inplane (delta : Bool) (t p f : Nat) (raan0 : ℝ) (i j : Nat) (hp : p ≠ 0) (ht : t ≠ 0) (h : p ∣ t) :
    walkerNu delta t p f raan0 i (j + 1) - walkerNu delta t p f raan0 i j = 2 * pi / ((t : ℝ) / p) := by
  have hp' : (p : ℝ) ≠ 0 := Nat.cast_ne_zero.mpr hp
  have ht' : (t : ℝ) ≠ 0 := Nat.cast_ne_zero.mpr ht
  have hs : ((t / p : ℕ) : ℝ) = (t : ℝ) / p := Nat.cast_div h hp'
  cases delta <;> simp only [walkerNu, starNu, deltaNu, starRaan, deltaRaan, ofNat, hs] <;> push_cast <;> field_simp <;> ring

/-! ## Sun-synchronous orbits -/

/-- the mean motion of the Sun used by `sso` (rad/s): 2π / sidereal year -/
noncomputable def sunRate : ℝ := 2 * pi / 365.256363004 / 86400

theorem rpow_seven_half (a : ℝ) (ha : 0 < a) : Real.rpow a (7 / 2) = a ^ 3 * Real.sqrt a := by
  have h : (7 / 2 : ℝ) = (3 : ℕ) + 1 / 2 := by norm_num
  rw [Real.rpow_eq_pow, h, Real.rpow_add ha, Real.rpow_natCast, Real.sqrt_eq_rpow]

/-- the quantity whose arccosine `sso(a=, e=)` returns; a sun-synchronous inclination exists iff it is in [-1, 1] -/
noncomputable def ssoCos (a e mu re j2 : ℝ) : ℝ :=
  -2 / 3 * sunRate * (Real.rpow a (7 / 2) * ((1 - e ^ 2) ^ 2)) / (Real.sqrt mu * re ^ 2 * j2)

theorem ssoI_eq (a e mu re j2 : ℝ) : ssoI a e mu re j2 = Real.arccos (ssoCos a e mu re j2) := by
  simp [ssoI, ssoCos, sunRate]

/-- **sso is self-inverse (semi-major axis)**: the inclination computed from (a, e) gives back `a`
in the mode (e, i) ↦ a, wherever a sun-synchronous inclination exists. -/
theorem sso_self_inverse_a (a e mu re j2 : ℝ) (ha : 0 < a) (he : e ^ 2 ≠ 1) (hmu : 0 < mu) (hre : re ≠ 0) (hj : j2 ≠ 0)
    (hlo : -1 ≤ ssoCos a e mu re j2) (hhi : ssoCos a e mu re j2 ≤ 1) :
    ssoA e (ssoI a e mu re j2) mu re j2 = a := by
  have hpi := Real.pi_pos
  have hs : Real.sqrt mu ≠ 0 := (Real.sqrt_pos.mpr hmu).ne'
  have he' : (1 - e ^ 2) ≠ 0 := fun h => he (by linarith)
  have hc : Real.cos (ssoI a e mu re j2) = ssoCos a e mu re j2 := by
    rw [ssoI_eq, Real.cos_arccos hlo hhi]
  have hbase : -3 / 2 * (Real.sqrt mu * re ^ 2 * j2) * ssoCos a e mu re j2 / (sunRate * (1 - e ^ 2) ^ 2) = Real.rpow a (7 / 2) := by
    unfold ssoCos sunRate
    field_simp
  have h : ssoA e (ssoI a e mu re j2) mu re j2 = Real.rpow (Real.rpow a (7 / 2)) (2 / 7) := by
    rw [← hbase, ← hc]; simp [ssoA, sunRate]
  rw [h, Real.rpow_eq_pow, Real.rpow_eq_pow, ← Real.rpow_mul ha.le]
  norm_num

/-- **sso is self-inverse (eccentricity)**: the inclination computed from (a, e) gives back `e`
in the mode (a, i) ↦ e. -/
theorem sso_self_inverse_e (a e mu re j2 : ℝ) (ha : 0 < a) (he0 : 0 ≤ e) (he1 : e < 1) (hmu : 0 < mu) (hre : re ≠ 0) (hj : j2 ≠ 0)
    (hlo : -1 ≤ ssoCos a e mu re j2) (hhi : ssoCos a e mu re j2 ≤ 1) :
    ssoE a (ssoI a e mu re j2) mu re j2 = e := by
  have hpi := Real.pi_pos
  have hs : Real.sqrt mu ≠ 0 := (Real.sqrt_pos.mpr hmu).ne'
  have hp : Real.rpow a (7 / 2) ≠ 0 := (Real.rpow_pos_of_pos ha _).ne'
  have hc : Real.cos (ssoI a e mu re j2) = ssoCos a e mu re j2 := by
    rw [ssoI_eq, Real.cos_arccos hlo hhi]
  have hbase : -3 / 2 * (Real.sqrt mu * re ^ 2 * j2) * ssoCos a e mu re j2 / (sunRate * Real.rpow a (7 / 2)) = (1 - e ^ 2) ^ 2 := by
    unfold ssoCos sunRate
    field_simp
  have h : ssoE a (ssoI a e mu re j2) mu re j2 = Real.sqrt (1 - Real.sqrt ((1 - e ^ 2) ^ 2)) := by
    rw [← hbase, ← hc]; simp [ssoE, sunRate]
  have h1 : 0 ≤ 1 - e ^ 2 := by nlinarith
  rw [h, Real.sqrt_sq h1]
  have : 1 - (1 - e ^ 2) = e ^ 2 := by ring
  rw [this, Real.sqrt_sq he0]

/-- **The J2 node drift of the sun-synchronous orbit equals the mean solar rate**: the secular
RAAN rate of beyond/propagators/j2.py (with the mean motion of `Infos.n`), evaluated at the
inclination returned by `sso(a=, e=)`, is exactly `sunRate`. -/
theorem sso_node_rate (a e mu re j2 : ℝ) (ha : 0 < a) (he : e ^ 2 ≠ 1) (hmu : 0 < mu) (hre : re ≠ 0) (hj : j2 ≠ 0)
    (hlo : -1 ≤ ssoCos a e mu re j2) (hhi : ssoCos a e mu re j2 ≤ 1) :
    j2NodeRate (meanMotion mu a) re a e (ssoI a e mu re j2) j2 = sunRate := by
  have hs : Real.sqrt mu ≠ 0 := (Real.sqrt_pos.mpr hmu).ne'
  have he' : (1 - e ^ 2) ≠ 0 := fun h => he (by linarith)
  have hsa : 0 < Real.sqrt a := Real.sqrt_pos.mpr ha
  have hsq : Real.sqrt a ^ 2 = a := Real.sq_sqrt ha.le
  have hc : Real.cos (ssoI a e mu re j2) = ssoCos a e mu re j2 := by
    rw [ssoI_eq, Real.cos_arccos hlo hhi]
  have hn : meanMotion mu a = Real.sqrt mu / (a * Real.sqrt a) := by
    have h3 : |a| ^ 3 = (a * Real.sqrt a) ^ 2 := by rw [abs_of_pos ha, mul_pow, hsq]; ring
    simp only [meanMotion, powi, absR, sqrt]
    rw [h3, Real.sqrt_div hmu.le, Real.sqrt_sq (by positivity)]
  simp only [j2NodeRate, powi, cos]
  rw [hc, hn]
  unfold ssoCos
  rw [rpow_seven_half a ha]
  field_simp

example : -1 ≤ ssoCos 0 0 1 1 1 ∧ ssoCos 0 0 1 1 1 ≤ 1 := by
  have : ssoCos 0 0 1 1 1 = 0 := by simp [ssoCos, Real.zero_rpow]
  rw [this]; norm_num

/-! ## Modes starting from an inclination -/

/-- the quantity `sso(e=, i=)` raises to the power 2/7 (it IS a^(7/2) of the orbit returned) -/
noncomputable def ssoBaseA (e i mu re j2 : ℝ) : ℝ :=
  -3 / 2 * (Real.sqrt mu * re ^ 2 * j2) * Real.cos i / (sunRate * (1 - e ^ 2) ^ 2)

theorem ssoA_eq (e i mu re j2 : ℝ) : ssoA e i mu re j2 = Real.rpow (ssoBaseA e i mu re j2) (2 / 7) := by
  simp [ssoA, ssoBaseA, sunRate]

/-- **sso i → a → i**: for an inclination in [0, π] on the side where a sun-synchronous orbit exists (the base of the
power is positive: retrograde for J2 > 0), the semi-major axis `sso(e=, i=)` returns gives back `i` in the mode
(a, e) ↦ i. -/
theorem sso_self_inverse_i_via_a (e i mu re j2 : ℝ) (he : e ^ 2 ≠ 1) (hmu : 0 < mu) (hre : re ≠ 0) (hj : j2 ≠ 0)
    (hi0 : 0 ≤ i) (hi1 : i ≤ Real.pi) (hpos : 0 < ssoBaseA e i mu re j2) :
    ssoI (ssoA e i mu re j2) e mu re j2 = i := by
  have hpi := Real.pi_pos
  have hs : Real.sqrt mu ≠ 0 := (Real.sqrt_pos.mpr hmu).ne'
  have he' : (1 - e ^ 2) ≠ 0 := fun h => he (by linarith)
  have hpow : Real.rpow (ssoA e i mu re j2) (7 / 2) = ssoBaseA e i mu re j2 := by
    rw [ssoA_eq, Real.rpow_eq_pow, Real.rpow_eq_pow, ← Real.rpow_mul hpos.le]
    norm_num
  have hcos : ssoCos (ssoA e i mu re j2) e mu re j2 = Real.cos i := by
    unfold ssoCos
    rw [hpow]
    unfold ssoBaseA sunRate
    field_simp
  rw [ssoI_eq, hcos, Real.arccos_cos hi0 hi1]

/-- the quantity whose square root `sso(a=, i=)` subtracts from one (it IS (1 - e²)² of the orbit returned) -/
noncomputable def ssoBaseE (a i mu re j2 : ℝ) : ℝ :=
  -3 / 2 * (Real.sqrt mu * re ^ 2 * j2) * Real.cos i / (sunRate * Real.rpow a (7 / 2))

theorem ssoE_eq (a i mu re j2 : ℝ) : ssoE a i mu re j2 = Real.sqrt (1 - Real.sqrt (ssoBaseE a i mu re j2)) := by
  simp [ssoE, ssoBaseE, sunRate]

/-- **sso i → e → i**: where an eccentricity exists (0 ≤ base ≤ 1), the eccentricity `sso(a=, i=)` returns gives back `i`. -/
theorem sso_self_inverse_i_via_e (a i mu re j2 : ℝ) (ha : 0 < a) (hmu : 0 < mu) (hre : re ≠ 0) (hj : j2 ≠ 0)
    (hi0 : 0 ≤ i) (hi1 : i ≤ Real.pi) (hb0 : 0 ≤ ssoBaseE a i mu re j2) (hb1 : ssoBaseE a i mu re j2 ≤ 1) :
    ssoI a (ssoE a i mu re j2) mu re j2 = i := by
  have hpi := Real.pi_pos
  have hs : Real.sqrt mu ≠ 0 := (Real.sqrt_pos.mpr hmu).ne'
  have hp : Real.rpow a (7 / 2) ≠ 0 := (Real.rpow_pos_of_pos ha _).ne'
  have hsq1 : Real.sqrt (ssoBaseE a i mu re j2) ≤ 1 := by
    calc Real.sqrt (ssoBaseE a i mu re j2) ≤ Real.sqrt 1 := Real.sqrt_le_sqrt hb1
      _ = 1 := Real.sqrt_one
  have h1 : (1 - (ssoE a i mu re j2) ^ 2) ^ 2 = ssoBaseE a i mu re j2 := by
    rw [ssoE_eq, Real.sq_sqrt (by linarith)]
    have : 1 - (1 - Real.sqrt (ssoBaseE a i mu re j2)) = Real.sqrt (ssoBaseE a i mu re j2) := by ring
    rw [this, Real.sq_sqrt hb0]
  have hcos : ssoCos a (ssoE a i mu re j2) mu re j2 = Real.cos i := by
    unfold ssoCos
    rw [h1]
    unfold ssoBaseE sunRate
    field_simp
  rw [ssoI_eq, hcos, Real.arccos_cos hi0 hi1]

/-- the hypotheses are satisfiable: i = π (cos i = -1) with unit constants gives a positive base -/
example : 0 < ssoBaseA 0 Real.pi 1 1 1 := by
  have hpi := Real.pi_pos
  unfold ssoBaseA sunRate
  simp only [Real.cos_pi, Real.sqrt_one]
  positivity

/-! ## The J2 propagator object: histories on ONE orbit object

`sso_node_rate` is about the formulas; what a user observes is `orb.propagate(…)` on an `Orbit` object that carries
a `J2` propagator, possibly after earlier propagations and in-place changes of its elements (`orb[2] = sso(a=a, e=e)`).
`Model/Mission`: `J2Obj` (the user's orbit + the propagator's private copy), `J2Op`, `J2Obj.run`. -/

/-- the setter of `J2.orbit` in the source today is one unconditional assignment (regenerated from the AST on every
run): what the model's `j2Setter` does.  A setter that keeps its previous copy under some condition has another text. -/
theorem j2_setter_unconditional : j2OrbitSetter = ["self._orbit = orbit.copy(form='keplerian_mean')"] := by decide

/-- … and the getter hands out that private copy (never the user's orbit, so `Orbit.propagate` runs the setter at every call) -/
theorem j2_getter_private_copy : j2OrbitGetter = ["return self._orbit if hasattr(self, '_orbit') else None"] := by decide

theorem j2Rates_node (n re a e i j2 : ℝ) : (j2Rates n re a e i j2).1 = j2NodeRate n re a e i j2 := by
  simp [j2Rates, j2NodeRate]

/-- what the propagator object held before is irrelevant: the values returned along any history depend on the user's
orbit only -/
theorem j2_run_priv_irrelevant (mu re j2 : ℝ) (ops : List J2Op) : ∀ (u : MeanEl) (p q : Option MeanEl),
    J2Obj.run mu re j2 ⟨u, p⟩ ops = J2Obj.run mu re j2 ⟨u, q⟩ ops := by
  induction ops with
  | nil => intro u p q; rfl
  | cons op ops ih =>
    intro u p q
    cases op with
    | setEl k v => simp only [J2Obj.run, J2Obj.step]; exact ih _ p q
    | setDate t => simp only [J2Obj.run, J2Obj.step]; exact ih _ p q
    | prop dt => simp only [J2Obj.run, J2Obj.step, j2Setter, Option.map_some]

/-- **a read after in-place writes returns what a fresh object returns**: after ANY history of propagations, element
writes and date writes on one orbit object, a propagation returns `j2Advance` of the *current* values of the user's
orbit — a function of the current values only, nothing of the history survives in the propagator. -/
theorem j2_history_fresh (mu re j2 : ℝ) (ops : List J2Op) : ∀ (s : J2Obj) (dt : ℝ),
    J2Obj.run mu re j2 s (ops ++ [J2Op.prop dt])
      = J2Obj.run mu re j2 s ops ++ [j2Advance mu re j2 (J2Obj.userAfter s.user ops) dt] := by
  induction ops with
  | nil => intro s dt; simp [J2Obj.run, J2Obj.step, j2Setter, J2Obj.userAfter]
  | cons op ops ih =>
    intro s dt
    cases op with
    | setEl k v => simp only [List.cons_append, J2Obj.run, J2Obj.step, J2Obj.userAfter]; exact ih _ dt
    | setDate t => simp only [List.cons_append, J2Obj.run, J2Obj.step, J2Obj.userAfter]; exact ih _ dt
    | prop d =>
      simp only [List.cons_append, J2Obj.run, J2Obj.step, j2Setter, Option.map_some, J2Obj.userAfter]
      rw [ih]

/-- … in particular the result equals the one of a fresh object built from the current values -/
theorem j2_history_eq_fresh_object (mu re j2 : ℝ) (ops : List J2Op) (s : J2Obj) (dt : ℝ) :
    (J2Obj.run mu re j2 s (ops ++ [J2Op.prop dt])).getLast?
      = (J2Obj.run mu re j2 ⟨J2Obj.userAfter s.user ops, none⟩ [J2Op.prop dt]).getLast? := by
  rw [j2_history_fresh]
  simp [J2Obj.run, J2Obj.step, j2Setter]

/-- **sso → Orbit → propagate → tune in place → propagate**: whatever was done to the orbit object before (propagated
with another inclination, elements rewritten in place), once its inclination is the one `sso(a=, e=)` gives for its
current `a`, `e`, the next propagation over `dt` moves the node by `sunRate · dt` (mod 2π). -/
theorem sso_tuned_in_place_node_rate (mu re j2 : ℝ) (ops : List J2Op) (s : J2Obj) (dt : ℝ)
    (ha : 0 < (J2Obj.userAfter s.user ops).a) (he : (J2Obj.userAfter s.user ops).e ^ 2 ≠ 1)
    (hmu : 0 < mu) (hre : re ≠ 0) (hj : j2 ≠ 0)
    (hlo : -1 ≤ ssoCos (J2Obj.userAfter s.user ops).a (J2Obj.userAfter s.user ops).e mu re j2)
    (hhi : ssoCos (J2Obj.userAfter s.user ops).a (J2Obj.userAfter s.user ops).e mu re j2 ≤ 1)
    (hi : (J2Obj.userAfter s.user ops).i = ssoI (J2Obj.userAfter s.user ops).a (J2Obj.userAfter s.user ops).e mu re j2) :
    ∃ out, (J2Obj.run mu re j2 s (ops ++ [J2Op.prop dt])).getLast? = some out ∧
      out.raan = fmod ((J2Obj.userAfter s.user ops).raan + sunRate * dt) (2 * pi) := by
  refine ⟨j2Advance mu re j2 (J2Obj.userAfter s.user ops) dt, by rw [j2_history_fresh]; simp, ?_⟩
  simp only [j2Advance]
  rw [j2Rates_node, hi, sso_node_rate _ _ mu re j2 ha he hmu hre hj hlo hhi]

example : J2Obj.userAfter ⟨7e6, 0.01, 1, 2, 3, 4, 0⟩ [J2Op.prop 60, J2Op.setEl 2 1.7, J2Op.prop 60]
    = ⟨7e6, 0.01, 1.7, 2, 3, 4, 0⟩ := by simp [J2Obj.userAfter, MeanEl.set]

/-! ## Durations: which number of seconds the helpers read from a `timedelta` -/

/-- **every duration is read through `total_seconds()`**: the list of all reads of a duration as a number in the anchored
files, regenerated from the AST on every run, is exactly the `total_seconds` of `_F` (the transfer time of the Lambert
equation, the `duration` argument of `lamF`) and of `J2.propagate` (the propagation span) — no `.seconds`, `.days`,
`.microseconds` anywhere. -/
theorem timedelta_reads_total_seconds :
    timedeltaReads = ["j2.py:J2.propagate: (date - self.orbit.date).total_seconds", "lambert.py:_F: duration.total_seconds"] := by
  decide

/-- what a read of `.seconds` instead would lose: the whole days and the microseconds -/
theorem td_total_sub_seconds (d s us : ℝ) : tdTotal d s us - s = d * 86400 + us / 1000000 := by
  unfold tdTotal; ring

/-- … at least a day as soon as the duration reaches one day -/
theorem td_seconds_ne_total (d s us : ℝ) (hd : 1 ≤ d) (hus : 0 ≤ us) : 86400 ≤ tdTotal d s us - s := by
  rw [td_total_sub_seconds]
  have : 0 ≤ us / 1000000 := by positivity
  nlinarith

example : tdTotal 3 43200 500000 = 302400.5 := by unfold tdTotal; norm_num

/-! ## Lambert's problem -/

theorem rpow_three_half (x : ℝ) (hx : 0 ≤ x) : Real.rpow x 1.5 = Real.sqrt x ^ 3 := by
  have h : (1.5 : ℝ) = 1 + 1 / 2 := by norm_num
  rw [Real.rpow_eq_pow, h, Real.rpow_add' hx (by norm_num), Real.rpow_one, ← Real.sqrt_eq_rpow]
  nth_rewrite 1 [← Real.sq_sqrt hx]
  ring

/-- **Arrival at the target (algebraic heart)**: with the Lagrange coefficients `f, g, ġ` of the
returned solution and `ḟ := (f ġ − 1) / g`, the returned velocities satisfy
`r₁ = f r₀ + g v₀` and `v₁ = ḟ r₀ + ġ v₀`, and `f ġ − ḟ g = 1` (the f-g map is a two-body
transition: it conserves angular momentum). -/
theorem lambert_fg (nr0 nr1 A z mu : ℝ) (r0 r1 : V3) (hg : (lamFG nr0 nr1 A z mu).2.1 ≠ 0) :
    let f := (lamFG nr0 nr1 A z mu).1
    let g := (lamFG nr0 nr1 A z mu).2.1
    let gd := (lamFG nr0 nr1 A z mu).2.2
    let fd := (f * gd - 1) / g
    let v0 := (lamVel nr0 nr1 A z mu r0 r1).1
    let v1 := (lamVel nr0 nr1 A z mu r0 r1).2
    r1 = V3.add (V3.smul f r0) (V3.smul g v0) ∧ v1 = V3.add (V3.smul fd r0) (V3.smul gd v0) ∧ f * gd - fd * g = 1 := by
  intro f g gd fd v0 v1
  have hg' : g ≠ 0 := hg
  refine ⟨?_, ?_, ?_⟩
  · show r1 = V3.add (V3.smul f r0) (V3.smul g (V3.smul (1 / g) (V3.sub r1 (V3.smul f r0))))
    cases r0; cases r1
    simp only [V3.add, V3.smul, V3.sub, V3.mk.injEq]
    refine ⟨?_, ?_, ?_⟩ <;> field_simp <;> ring
  · show V3.smul (1 / g) (V3.sub (V3.smul gd r1) r0) = V3.add (V3.smul fd r0) (V3.smul gd (V3.smul (1 / g) (V3.sub r1 (V3.smul f r0))))
    cases r0; cases r1
    simp only [V3.add, V3.smul, V3.sub, V3.mk.injEq, fd]
    refine ⟨?_, ?_, ?_⟩ <;> field_simp <;> ring
  · simp only [fd]; field_simp; ring

/-- **The Lagrange coefficients of the solution are those of Kepler's problem in universal
variables** (Curtis eq. 3.69 with χ = √(y/C), α χ² = z): if `F(z) = 0` then
`f = 1 − χ² C / r₀`, `g = Δt − χ³ S / √μ`, `ġ = 1 − χ² C / r₁`.  Only `g` needs `F(z) = 0`: this is
where the requested transfer time enters. -/
theorem lambert_fg_universal (nr0 nr1 A z dt mu : ℝ) (hmu : 0 < mu) (hC : 0 < lamC z) (hy : 0 ≤ lamY nr0 nr1 A z)
    (hF : lamF nr0 nr1 A z dt mu = 0) :
    let χ := Real.sqrt (lamY nr0 nr1 A z / lamC z)
    (lamFG nr0 nr1 A z mu).1 = 1 - χ ^ 2 * lamC z / nr0 ∧
    (lamFG nr0 nr1 A z mu).2.1 = dt - χ ^ 3 * lamS z / Real.sqrt mu ∧
    (lamFG nr0 nr1 A z mu).2.2 = 1 - χ ^ 2 * lamC z / nr1 := by
  intro χ
  have hq : 0 ≤ lamY nr0 nr1 A z / lamC z := div_nonneg hy hC.le
  have hχ : χ ^ 2 * lamC z = lamY nr0 nr1 A z := by
    simp only [χ]; rw [Real.sq_sqrt hq]; field_simp
  have hs : Real.sqrt mu ≠ 0 := (Real.sqrt_pos.mpr hmu).ne'
  refine ⟨?_, ?_, ?_⟩
  · simp only [lamFG]; rw [hχ]
  · have h1 : Real.rpow (lamY nr0 nr1 A z / lamC z) 1.5 = χ ^ 3 := rpow_three_half _ hq
    have hF' : χ ^ 3 * lamS z + A * Real.sqrt (lamY nr0 nr1 A z) - Real.sqrt mu * dt = 0 := by
      rw [← h1]; simpa [lamF] using hF
    simp only [lamFG, absR, sqrt]
    rw [abs_of_nonneg hy, Real.sqrt_div hy]
    field_simp
    linarith
  · simp only [lamFG]; rw [hχ]

/-- the bracketing scan returns the first `z = 0 + 0.05 k` at which `F(z) < 0` fails, together with
the last point where it still held (`z_low`, 0.05 below) — or `z_low` unchanged (−∞) if it did not move -/
theorem lambert_scan_exit (nr0 nr1 A dt mu : ℝ) (fuel : Nat) (lo0 lo : Option ℝ) (z0 z : ℝ)
    (h : lamScan nr0 nr1 A dt mu fuel lo0 z0 = some (lo, z)) :
    ¬ lamF nr0 nr1 A z dt mu < 0 ∧
      ((lo = lo0 ∧ z = z0) ∨ ∃ l, lo = some l ∧ lamF nr0 nr1 A l dt mu < 0 ∧ z = l + 0.05) := by
  induction fuel generalizing lo0 z0 with
  | zero => simp [lamScan] at h
  | succ n ih =>
    simp only [lamScan] at h
    split_ifs at h with hlt
    · obtain ⟨h1, h2⟩ := ih _ _ h
      refine ⟨h1, Or.inr ?_⟩
      rcases h2 with ⟨h2, h3⟩ | h2
      · exact ⟨z0, h2, hlt, h3⟩
      · exact h2
    · simp only [Option.some.injEq, Prod.mk.injEq] at h
      exact ⟨h.2 ▸ hlt, Or.inl ⟨h.1.symm, h.2.symm⟩⟩

/-- one pass of the loop body: the updated bracket and the step actually taken (Newton, or bisection
when the Newton step would leave the bracket) -/
noncomputable def lamStep (nr0 nr1 A dt mu : ℝ) (lo hi : Option ℝ) (z : ℝ) : Option ℝ × Option ℝ × ℝ :=
  let Fz := lamF nr0 nr1 A z dt mu
  let lo' := if Fz < 0 then some z else lo
  let hi' := if Fz < 0 then hi else some z
  let newton := Fz / lamDF nr0 nr1 A z
  (lo', hi', if lamInBracket lo' hi' (z - newton) then newton else z - lamMid lo' hi')

/-- the step is the Newton correction `F/F'` or the distance to the midpoint of the current bracket -/
theorem lamStep_cases (nr0 nr1 A dt mu : ℝ) (lo hi : Option ℝ) (z : ℝ) :
    let s := lamStep nr0 nr1 A dt mu lo hi z
    (s.2.2 = lamF nr0 nr1 A z dt mu / lamDF nr0 nr1 A z ∧ lamInBracket s.1 s.2.1 (z - s.2.2)) ∨
    s.2.2 = z - lamMid s.1 s.2.1 := by
  simp only [lamStep]
  split_ifs with h1 h2 h2 <;> first | exact Or.inl ⟨rfl, h2⟩ | exact Or.inr rfl

/-- unfolding of one iteration in terms of `lamStep` -/
theorem lamNewton_succ (nr0 nr1 A dt mu tol : ℝ) (n : Nat) (lo hi : Option ℝ) (z : ℝ) :
    lamNewton nr0 nr1 A dt mu tol (n + 1) lo hi z =
      if |(lamStep nr0 nr1 A dt mu lo hi z).2.2| < tol then (z - (lamStep nr0 nr1 A dt mu lo hi z).2.2, true)
      else lamNewton nr0 nr1 A dt mu tol n (lamStep nr0 nr1 A dt mu lo hi z).1 (lamStep nr0 nr1 A dt mu lo hi z).2.1
        (z - (lamStep nr0 nr1 A dt mu lo hi z).2.2) := rfl

/-- **The loop is left through `break` only on convergence**: if the loop reports convergence, the
last step applied — a Newton correction `F(z')/F'(z')`, or a bisection step `z' − (z_low + z_high)/2`
when that correction would have left the bracket (`lamStep_cases`) — was smaller than the tolerance in
absolute value (all iteration counts, any starting point and bracket, any tolerance). -/
theorem lambert_newton_exit (nr0 nr1 A dt mu tol : ℝ) (n : Nat) (lo hi : Option ℝ) (z0 z : ℝ)
    (h : lamNewton nr0 nr1 A dt mu tol n lo hi z0 = (z, true)) :
    ∃ (zp : ℝ) (lo' hi' : Option ℝ),
      z = zp - (lamStep nr0 nr1 A dt mu lo' hi' zp).2.2 ∧ |(lamStep nr0 nr1 A dt mu lo' hi' zp).2.2| < tol := by
  induction n generalizing lo hi z0 with
  | zero => simp [lamNewton] at h
  | succ k ih =>
    rw [lamNewton_succ] at h
    split_ifs at h with hlt
    · simp only [Prod.mk.injEq, and_true] at h
      exact ⟨z0, lo, hi, h.symm, hlt⟩
    · exact ih _ _ _ h

/-- conversely, without `break` all `nmax` steps were at least the tolerance: the code then
only logs "Max iteration exceeded" and continues with the last iterate -/
theorem lambert_newton_no_break (nr0 nr1 A dt mu tol : ℝ) (n : Nat) (lo hi : Option ℝ) (z0 z : ℝ)
    (h : lamNewton nr0 nr1 A dt mu tol n lo hi z0 = (z, false)) (hn : n ≠ 0) :
    ¬ |(lamStep nr0 nr1 A dt mu lo hi z0).2.2| < tol := by
  cases n with
  | zero => exact absurd rfl hn
  | succ k =>
    rw [lamNewton_succ] at h
    split_ifs at h with hlt
    · simp at h
    · exact hlt

/-- the step keeps the next iterate inside the updated bracket, which is inside the old one -/
theorem lamStep_in_bracket (nr0 nr1 A dt mu : ℝ) (l h z : ℝ) (hl : l ≤ z) (hh : z ≤ h) :
    ∃ l' h', (lamStep nr0 nr1 A dt mu (some l) (some h) z).1 = some l' ∧
      (lamStep nr0 nr1 A dt mu (some l) (some h) z).2.1 = some h' ∧ l ≤ l' ∧ h' ≤ h ∧
      l' ≤ z - (lamStep nr0 nr1 A dt mu (some l) (some h) z).2.2 ∧
      z - (lamStep nr0 nr1 A dt mu (some l) (some h) z).2.2 ≤ h' := by
  by_cases hF : lamF nr0 nr1 A z dt mu < 0
  · refine ⟨z, h, by simp [lamStep, hF], by simp [lamStep, hF], hl, le_rfl, ?_⟩
    simp only [lamStep, hF, if_true]
    split_ifs with hb
    · exact hb
    · simp only [lamMid]; constructor <;> linarith
  · refine ⟨l, z, by simp [lamStep, hF], by simp [lamStep, hF], le_rfl, hh, ?_⟩
    simp only [lamStep, hF, if_false]
    split_ifs with hb
    · exact hb
    · simp only [lamMid]; constructor <;> linarith

/-- **The iterates never leave the bracket found by the scan** (the point of fix 5cfb34d: inside the
bracket `y(z) > 0`, so no square root of a negative number, no NaN): started inside a finite bracket
`[l, h]`, the loop returns a `z` inside `[l, h]`, whatever `F`, `F'` and the tolerance are, with or
without convergence. -/
theorem lambert_newton_stays_in_bracket (nr0 nr1 A dt mu tol : ℝ) (n : Nat) (l h z0 z : ℝ) (b : Bool)
    (hl : l ≤ z0) (hh : z0 ≤ h)
    (hN : lamNewton nr0 nr1 A dt mu tol n (some l) (some h) z0 = (z, b)) :
    l ≤ z ∧ z ≤ h := by
  induction n generalizing l h z0 with
  | zero =>
    simp only [lamNewton, Prod.mk.injEq] at hN
    rw [← hN.1]; exact ⟨hl, hh⟩
  | succ k ih =>
    rw [lamNewton_succ] at hN
    obtain ⟨l', h', e1, e2, hll, hhh, hc1, hc2⟩ := lamStep_in_bracket nr0 nr1 A dt mu l h z0 hl hh
    split_ifs at hN with hlt
    · simp only [Prod.mk.injEq] at hN
      rw [← hN.1]; constructor <;> linarith
    · rw [e1, e2] at hN
      have := ih l' h' _ hc1 hc2 hN
      constructor <;> linarith [this.1, this.2]

/-- **End to end**: whenever `_lambert` (model) returns with the convergence flag set, the velocities
are built from a `z` reached by a last step (Newton or bisection) below 1e-8, they satisfy the f-g
arrival relation, and — when the scan moved, i.e. for every elliptic transfer — `z` lies in the
0.05-wide bracket `[z_low, z_low + 0.05]` with `F(z_low) < 0 ≤ F(z_low + 0.05)`. -/
theorem lambert_returns (r0 r1 : V3) (dt mu : ℝ) (pro : Bool) (fuel : Nat) (v0 v1 : V3) (z : ℝ) (b : Bool)
    (h : lambert r0 r1 dt mu pro fuel = some (v0, v1, z, b)) :
    let nr0 := V3.norm r0
    let nr1 := V3.norm r1
    let A := lamA nr0 nr1 (lamDtheta r0 r1 pro)
    (b = true → ∃ (zp : ℝ) (lo' hi' : Option ℝ),
      z = zp - (lamStep nr0 nr1 A dt mu lo' hi' zp).2.2 ∧ |(lamStep nr0 nr1 A dt mu lo' hi' zp).2.2| < 1e-8) ∧
    ((lamFG nr0 nr1 A z mu).2.1 ≠ 0 →
      r1 = V3.add (V3.smul (lamFG nr0 nr1 A z mu).1 r0) (V3.smul (lamFG nr0 nr1 A z mu).2.1 v0)) ∧
    (lamF nr0 nr1 A 0 dt mu < 0 →
      ∃ l, lamF nr0 nr1 A l dt mu < 0 ∧ ¬ lamF nr0 nr1 A (l + 0.05) dt mu < 0 ∧ l ≤ z ∧ z ≤ l + 0.05) := by
  intro nr0 nr1 A
  simp only [lambert] at h
  split at h
  · simp at h
  · rename_i lo z0 hz0
    simp only [Option.some.injEq, Prod.mk.injEq] at h
    obtain ⟨h0, h1, h2, h3⟩ := h
    obtain ⟨hs1, hs2⟩ := lambert_scan_exit _ _ _ _ _ _ _ _ _ _ hz0
    refine ⟨fun hb => ?_, fun hg => ?_, fun hneg => ?_⟩
    · subst hb
      exact lambert_newton_exit _ _ _ _ _ _ _ _ _ _ _ (Prod.ext h2 h3)
    · have := (lambert_fg nr0 nr1 A z mu r0 r1 hg).1
      rw [← h0, h2]
      exact this
    · rcases hs2 with ⟨_, hz⟩ | ⟨l, hl, hFl, hz⟩
      · rw [hz] at hs1; exact absurd hneg hs1
      · subst hl
        refine ⟨l, hFl, hz ▸ hs1, ?_⟩
        have hN : lamNewton nr0 nr1 A dt mu 1e-8 5000 (some l) (some z0) z0 = (z, b) := Prod.ext h2 h3
        have := lambert_newton_stays_in_bracket _ _ _ _ _ _ _ l z0 z0 z b (by rw [hz]; norm_num) le_rfl hN
        rw [hz] at this; exact this

end BeyondVerif.C19
