import BeyondVerif.Model.CWFramesR
import Mathlib.Tactic.FieldSimp
import Mathlib.Tactic.Ring

/-!
# C16 — the mean motion a Clohessy-Wiltshire propagator works with is the one of ITS target

`World` (templates/CWFrames.tpl) is the object model of the Hill frames and propagators of one process; `meanMotionSrc` is translated
from `ClohessyWiltshire.n` on every run.  Theorems: the mean motion satisfies Kepler's third law for the centre and semi major axis the
propagator was built with (`meanMotion_kepler3`); it — and with it the orientation and every propagated state — is a function of the
propagator's own frame and semi major axis only: no later creation of frames or propagators, copy or read changes it (`n_stable_run`,
`tnw_stable_run`, `propagate_stable_run`); a copy has the mean motion of its original (`n_copy`); a propagator built on frame `f` has
`meanMotionSrc f.mu sma` (`n_newProp`).  The tie to the real objects is the correspondence run `world` (random histories of
HillFrame / ClohessyWiltshire / copy / n / propagate on the real classes against `World.run`).
-/
namespace BeyondVerif.C16
open BeyondVerif.R BeyondVerif.NumReal

/-- Kepler's third law: `n² a³ = mu`, `n > 0` -/
theorem meanMotion_kepler3 (mu sma : ℝ) (hmu : 0 < mu) (ha : 0 < sma) :
    meanMotionSrc mu sma ^ 2 * sma ^ 3 = mu ∧ 0 < meanMotionSrc mu sma := by
  have h3 : 0 < sma ^ 3 := pow_pos ha 3
  have hq : 0 < mu / sma ^ 3 := div_pos hmu h3
  unfold meanMotionSrc
  simp only [powi, sqrt]
  refine ⟨?_, Real.sqrt_pos.mpr hq⟩
  rw [Real.sq_sqrt hq.le]
  field_simp

theorem getElem?_append_some {α : Type} {l : List α} {i : Nat} {a : α} (h : l[i]? = some a) (l' : List α) :
    (l ++ l')[i]? = some a := by
  have hi : i < l.length := by
    by_contra hc
    rw [List.getElem?_eq_none (Nat.le_of_not_lt hc)] at h
    cases h
  rw [List.getElem?_append_left hi]
  exact h

theorem step_props (w : World) (op : Op) (p : Nat) (pr : CWP) (h : w.props[p]? = some pr) : (w.step op).props[p]? = some pr := by
  cases op with
  | newFrame tnw mu => simpa [World.step] using h
  | newProp f sma => simpa [World.step] using getElem?_append_some h _
  | newPropHill sma => simpa [World.step] using getElem?_append_some h _
  | copyProp q =>
    simp only [World.step]
    cases hq : w.props[q]? with
    | none => simpa using h
    | some pq => simpa using getElem?_append_some h _
  | read q => simpa [World.step] using h

theorem step_frames (w : World) (op : Op) (i : Nat) (f : HillF) (h : w.frames[i]? = some f) : (w.step op).frames[i]? = some f := by
  cases op with
  | newFrame tnw mu => simpa [World.step] using getElem?_append_some h _
  | newProp f sma => simpa [World.step] using h
  | newPropHill sma => simpa [World.step] using h
  | copyProp q =>
    simp only [World.step]
    cases hq : w.props[q]? with
    | none => simpa using h
    | some pq => simpa using h
  | read q => simpa [World.step] using h

/-- whatever happens next in the process, a propagator keeps its mean motion -/
theorem n_stable_step (w : World) (op : Op) (p : Nat) (v : ℝ) (h : w.n p = some v) : (w.step op).n p = some v := by
  unfold World.n at h ⊢
  cases hp : w.props[p]? with
  | none => simp [hp] at h
  | some pr =>
    cases hf : w.frames[pr.frame]? with
    | none => simp [hp, hf] at h
    | some f =>
      rw [step_props w op p pr hp]
      simp only [step_frames w op pr.frame f hf]
      simpa [hp, hf] using h

theorem tnw_stable_step (w : World) (op : Op) (p : Nat) (v : Bool) (h : w.tnw p = some v) : (w.step op).tnw p = some v := by
  unfold World.tnw at h ⊢
  cases hp : w.props[p]? with
  | none => simp [hp] at h
  | some pr =>
    cases hf : w.frames[pr.frame]? with
    | none => simp [hp, hf] at h
    | some f =>
      rw [step_props w op p pr hp]
      simp only [step_frames w op pr.frame f hf]
      simpa [hp, hf] using h

theorem n_stable_run (ops : List Op) (w : World) (p : Nat) (v : ℝ) (h : w.n p = some v) : (w.run ops).n p = some v := by
  induction ops generalizing w with
  | nil => simpa [World.run] using h
  | cons op rest ih => simpa [World.run] using ih (w.step op) (n_stable_step w op p v h)

theorem tnw_stable_run (ops : List Op) (w : World) (p : Nat) (v : Bool) (h : w.tnw p = some v) : (w.run ops).tnw p = some v := by
  induction ops generalizing w with
  | nil => simpa [World.run] using h
  | cons op rest ih => simpa [World.run] using ih (w.step op) (tnw_stable_step w op p v h)

/-- every propagated state is a function of the propagator's own frame and semi major axis: no history of frame / propagator
creations, copies and reads in between changes it -/
theorem propagate_stable_run (ops : List Op) (w : World) (p : Nat) (mans : List Man) (t t0 : ℝ) (x r : List ℝ)
    (h : w.propagate p mans t t0 x = some r) : (w.run ops).propagate p mans t t0 x = some r := by
  unfold World.propagate at h ⊢
  cases hn : w.n p with
  | none => simp [hn] at h
  | some n =>
    cases ht : w.tnw p with
    | none => simp [hn, ht] at h
    | some tnw =>
      rw [n_stable_run ops w p n hn, tnw_stable_run ops w p tnw ht]
      simpa [hn, ht] using h

/-- a propagator built on the frame object `f` works with the mean motion of `f`'s centre and its own semi major axis -/
theorem n_newProp (w : World) (i : Nat) (f : HillF) (sma : ℝ) (h : w.frames[i]? = some f) :
    (w.step (.newProp i sma)).n w.props.length = some (meanMotionSrc f.mu sma) := by
  simp [World.n, World.step, h]

/-- a copy works with the mean motion of its original -/
theorem n_copy (w : World) (p : Nat) (v : ℝ) (h : w.n p = some v) : (w.step (.copyProp p)).n w.props.length = some v := by
  unfold World.n at h
  cases hp : w.props[p]? with
  | none => simp [hp] at h
  | some pr =>
    cases hf : w.frames[pr.frame]? with
    | none => simp [hp, hf] at h
    | some f =>
      simp [hp, hf] at h
      simp [World.n, World.step, hp, hf, h]

/-- current code: the memoised read is the mean motion of the CURRENT target when the memo is empty or was filled with the current
values — not after a write of `sma` / `frame` that follows a read (Witness/C16.lean `memo_stale_after_write`) -/
theorem readMemo_eq_current_partial (m : Memo) (h : m.memo = none ∨ m.memo = some (meanMotionSrc m.mu m.sma)) :
    m.read.1 = meanMotionSrc m.mu m.sma := by
  unfold Memo.read
  split
  · rcases h with h | h <;> simp [h]
  · rfl

/-- reading twice returns the same value -/
theorem readMemo_idempotent (m : Memo) : m.read.2.read.1 = m.read.1 := by
  unfold Memo.read
  split
  · cases hm : m.memo <;> simp [hm]
  · simp [*]

/-- a copy reads the current mean motion -/
theorem copy_read_current (m : Memo) : m.copy.read.1 = meanMotionSrc m.mu m.sma := by
  apply readMemo_eq_current_partial m.copy
  left; rfl

/-- the read of the proposed fix follows every write -/
theorem readFixed_after_write (m : Memo) (mu sma : ℝ) : (m.write mu sma).readFixed = meanMotionSrc mu sma := rfl

end BeyondVerif.C16
