import BeyondVerif.Lemmas.DateDbl
import BeyondVerif.Lemmas.EopLookup
import BeyondVerif.Model.DateCfg

/-!
# C03, fourth part — the day number of a date comes from a double: where the code and the exact-day model can differ

`Date.__init__` decides which EOP record a date carries by `int(mjd)` and `int(mjd_utc)`, two doubles.  `Model/DateDbl.lean` is
that computation in exact binary64 arithmetic (tied to the real constructor by the correspondence op `d3dbl` on the 0.1-µs grid
within 2 µs of UTC midnight and on the neighbouring doubles of midnight itself).  Here:

* `day_of_double_own`, `day_of_double_utc` — **`int(mjd)` is the exact day number whenever the own clock reading is 0.4 µs or
  more away from its midnight, `int(mjd_utc)` whenever the UTC reading is 0.7 µs or more away from UTC midnight** (MJD
  0 … 65533: until 2038; seconds within ±2 days; offset below 128 s).  The unit in the last place of an MJD is 2⁻³⁷ day = 0.63 µs.
* `eopGetR_of_day`, `eopRawR_eq_exact` — the record looked up with a double is a function of `int(·)` of that double alone, and is
  the record the exact-day model finds on that day.
* `eopForF_record_of_utc_day` — hence, outside those two sub-microsecond bands, the code carries **the record tabulated for
  the UTC day of the date**, the one `Model/Date.lean` (`eopFor`, `mk_record_of_utc_day`) picks; inside them it may pick the
  neighbouring day's (that is the whole set: for clock readings in whole microseconds, only a UTC reading of exactly
  00:00:00.000000 — none was found to differ; at 0.3 µs before midnight they do: `Witness/C03.lean sub_microsecond_band_differs`).
-/
namespace BeyondVerif.C03
open BeyondVerif.Date

/-- ticks per day, as a rational -/
abbrev DQ : ℚ := 864000000000

/-- **`int(mjd)` is the exact own-scale day number 0.4 µs away from own midnight** -/
theorem day_of_double_own (d : Int) (s : ℚ) (day : Int) (hd : 0 ≤ d ∧ d ≤ 65533) (hs : |s| < 172800) (h0 : 0 ≤ day)
    (h1 : (day : ℚ) + 4 / DQ ≤ (d : ℚ) + s / 86400) (h2 : (d : ℚ) + s / 86400 < (day : ℚ) + 1 - 4 / DQ) :
    truncR (mjdF d s) = day := by
  refine truncR_stable _ _ day (1 / 2 ^ 38 + 1 / 2 ^ 53) h0 (mjdF_err d s hd hs) ?_ ?_
  · have : (1 : ℚ) / 2 ^ 38 + 1 / 2 ^ 53 ≤ 4 / DQ := by norm_num [DQ]
    linarith
  · have : (1 : ℚ) / 2 ^ 38 + 1 / 2 ^ 53 ≤ 4 / DQ := by norm_num [DQ]
    linarith

/-- **`int(mjd_utc)` is the exact UTC day number 0.7 µs away from UTC midnight** (`o` = the double `scale.offset(mjd, "UTC", eop)`) -/
theorem day_of_double_utc (d : Int) (s o : ℚ) (day : Int) (hd : 0 ≤ d ∧ d ≤ 65533) (hs : |s| < 172800) (ho : |o| < 128)
    (h0 : 0 ≤ day) (h1 : (day : ℚ) + 7 / DQ ≤ (d : ℚ) + s / 86400 + o / 86400)
    (h2 : (d : ℚ) + s / 86400 + o / 86400 < (day : ℚ) + 1 - 7 / DQ) :
    truncR (fl (mjdF d s + fl (o / 86400))) = day := by
  refine truncR_stable _ _ day (1 / 2 ^ 37 + 1 / 2 ^ 52) h0 (mjdU_err d s o hd hs ho) ?_ ?_
  · have : (1 : ℚ) / 2 ^ 37 + 1 / 2 ^ 52 ≤ 7 / DQ := by norm_num [DQ]
    linarith
  · have : (1 : ℚ) / 2 ^ 37 + 1 / 2 ^ 52 ≤ 7 / DQ := by norm_num [DQ]
    linarith

/-- the hypotheses are met by 2015-03-04T00:00:35.000001 TAI (`Date(57085, 35.000001, scale="TAI")`, s the nearest double):
1 µs after UTC midnight of MJD 57085 — and the conclusion can be computed -/
example : truncR (fl (mjdF 57085 (fl (35000001 / 1000000)) + fl (-35 / 86400))) = 57085 ∧
    truncR (fl (mjdF 57085 (fl (34999999 / 1000000)) + fl (-35 / 86400))) = 57084 := by decide +kernel

theorem truncR_intCast (k : Int) : truncR (k : ℚ) = k := by
  unfold truncR; simp

theorem taiUtcAtR_of_day (leap : List (Int × Int)) (m : ℚ) (h : 0 ≤ m) :
    taiUtcAtR leap m = taiUtcAtR leap ((truncR m : Int) : ℚ) := by
  unfold taiUtcAtR
  congr 2
  funext e
  rw [truncR_eq_floor m h]
  congr 1
  apply propext
  constructor
  · intro he
    have : e.1 ≤ ⌊m⌋ := Int.le_floor.mpr he
    exact_mod_cast this
  · intro he
    have : e.1 ≤ ⌊m⌋ := by exact_mod_cast he
    exact Int.le_floor.mp this

/-- **the record looked up with a double depends on `int(·)` of that double alone** -/
theorem eopGetR_of_day (env : Env) (m : ℚ) (h : 0 ≤ m) : eopGetR env m = eopGetR env ((truncR m : Int) : ℚ) := by
  unfold eopGetR eopRawR
  rw [truncR_intCast, ← taiUtcAtR_of_day env.leap m h]

/-- … and on a whole day number it is the record the exact-day model of `Model/Date.lean` finds at 00:00:00 of that day -/
theorem eopRawR_eq_exact (env : Env) (k : Int) : eopRawR env (k : ℚ) = eopRaw env (k * D) := by
  unfold eopRawR eopRaw taiUtcAtR taiUtcAt
  rw [truncR_intCast, Int.mul_tdiv_cancel _ (by decide : D ≠ 0)]
  have : (fun e : Int × Int => decide ((e.1 : ℚ) ≤ (k : ℚ))) = (fun e : Int × Int => decide (e.1 * D ≤ k * D)) := by
    funext e
    congr 1
    apply propext
    constructor
    · intro he
      have : e.1 ≤ k := by exact_mod_cast he
      exact Int.mul_le_mul_of_nonneg_right this (by decide)
    · intro he
      have : e.1 ≤ k := Int.le_of_mul_le_mul_right he (by decide)
      exact_mod_cast this
  rw [this]
  rfl

/-- what `eopForF` returns for a scale other than UTC, spelled out -/
theorem eopForF_unfold (env : Env) (sc : Nat) (d : Int) (s o : ℚ) (l : List (Int × OpKind)) (eop0 : Eop) (hsc : sc ≠ cfg.utc)
    (hl : signedSteps cfg sc cfg.utc = .ok l) (h0 : eopGetR env (mjdF d s) = some eop0) (ho : sumStepsF l eop0 0 = some o) :
    eopForF cfg env sc d s =
      if truncR (fl (mjdF d s + fl (o / 86400))) ≠ truncR (mjdF d s) then
        (match eopGetR env (fl (mjdF d s + fl (o / 86400))) with
          | none => .raised
          | some eop => .ok eop (truncR (mjdF d s)) (some (truncR (fl (mjdF d s + fl (o / 86400))))))
      else .ok eop0 (truncR (mjdF d s)) (some (truncR (fl (mjdF d s + fl (o / 86400))))) := by
  unfold eopForF
  simp only [h0, hsc, if_false, hl, ho]
  rfl

/-- **the code carries the record tabulated for the UTC day of the date** — `Date(d, s, scale=sc)` for a scale other than UTC
and TDB, `o` the double offset to UTC computed with the record of the own-scale day: whenever the own reading is 0.4 µs and the
UTC reading 0.7 µs or more away from their midnights, the binary64 computation returns the record of `⌊d + s/86400 + o/86400⌋`,
the UTC day (`dayU`), looked up as the exact-day model does -/
theorem eopForF_record_of_utc_day (env : Env) (sc : Nat) (d : Int) (s o : ℚ) (l : List (Int × OpKind)) (eop0 : Eop)
    (day0 dayU : Int) (hsc : sc ≠ cfg.utc) (hl : signedSteps cfg sc cfg.utc = .ok l)
    (h0 : eopGetR env (mjdF d s) = some eop0) (ho : sumStepsF l eop0 0 = some o)
    (hd : 0 ≤ d ∧ d ≤ 65533) (hs : |s| < 172800) (hoff : |o| < 128) (hd0 : 0 ≤ day0) (hdU : 0 ≤ dayU)
    (a1 : (day0 : ℚ) + 4 / DQ ≤ (d : ℚ) + s / 86400) (a2 : (d : ℚ) + s / 86400 < (day0 : ℚ) + 1 - 4 / DQ)
    (b1 : (dayU : ℚ) + 7 / DQ ≤ (d : ℚ) + s / 86400 + o / 86400) (b2 : (d : ℚ) + s / 86400 + o / 86400 < (dayU : ℚ) + 1 - 7 / DQ) :
    eopGetR env (day0 : ℚ) = some eop0 ∧
    eopForF cfg env sc d s =
      (match eopGetR env (dayU : ℚ) with
        | none => .raised
        | some eop => .ok eop day0 (some dayU)) := by
  have e0 := day_of_double_own d s day0 hd hs hd0 a1 a2
  have eU := day_of_double_utc d s o dayU hd hs hoff hdU b1 b2
  have hm0 : 0 ≤ mjdF d s := by
    have := abs_le.mp (mjdF_err d s hd hs)
    have : (0 : ℚ) ≤ day0 := by exact_mod_cast hd0
    have : (0 : ℚ) < 4 / DQ - (1 / 2 ^ 38 + 1 / 2 ^ 53) := by norm_num [DQ]
    linarith
  have hmU : 0 ≤ fl (mjdF d s + fl (o / 86400)) := by
    have := abs_le.mp (mjdU_err d s o hd hs hoff)
    have : (0 : ℚ) ≤ dayU := by exact_mod_cast hdU
    have : (0 : ℚ) < 7 / DQ - (1 / 2 ^ 37 + 1 / 2 ^ 52) := by norm_num [DQ]
    linarith
  have r0 : eopGetR env (day0 : ℚ) = some eop0 := by rw [← e0, ← eopGetR_of_day env _ hm0]; exact h0
  refine ⟨r0, ?_⟩
  rw [eopForF_unfold env sc d s o l eop0 hsc hl h0 ho, e0, eU, eopGetR_of_day env _ hmU, eU]
  by_cases hday : dayU = day0
  · subst hday
    simp [r0]
  · simp [hday]

end BeyondVerif.C03
