import BeyondVerif.Model.KNObjR
import BeyondVerif.Model.KNIter
import Mathlib.Tactic.NormNum
import Mathlib.Tactic.Linarith

/-!
# C06 — (continued) object re-use and the padding rule of `_iter`

* `KN.Cfg / Op / runOps` (Model/KNObjR.lean): one `KeplerNum` object through a history of attribute assignments, `copy()` and
  calls.  Theorems: the reply to a call is a function of the CURRENT attribute values only (so: equal to the reply of a fresh
  object carrying those values), the step is that of the tableau selected by the CURRENT method, `copy()` keeps every setting.
  Tied to the real class by the sequence correspondence (`c06seq`).
* `KNIter` (Model/KNIter.lean on Generated/KNIterSrc.lean, translated from `KeplerNum._iter` on every run): which integration
  points are tabulated and which interpolation order is handed to `Ephem`.  Theorems: whenever an output is interpolated the
  tabulation holds at least `DEFAULT_ORDER` points, reaches the requested stop, and is interpolated at order `DEFAULT_ORDER`
  (never a lower one on short spans); the same for the positioning phase of `propagate`.  Tied to the real `_iter` by the
  tabulation correspondence (`c06iter`: the `Ephem` objects it builds are observed).
-/
namespace BeyondVerif.C06
open BeyondVerif.R BeyondVerif.R.KN BeyondVerif.NumReal BeyondVerif.KNIter BeyondVerif.Generated.KNIterSrc

/-! ## One object, many calls -/

/-- the field an object integrates depends on its `bodies` only -/
theorem field_def (c : Cfg) : c.field = fun t y => accel (c.bodies.map (bodyAt t)) y := rfl

theorem runOps_length (c : Cfg) (ops : List Op) : (runOps c ops).length = ops.length := by
  induction ops generalizing c with
  | nil => rfl
  | cons op ops ih => simp [runOps, ih]

/-- the `k`-th reply of a history is what the object, with the attribute values it has at that moment, replies -/
theorem runOps_get (c : Cfg) (ops : List Op) (k : Nat) (hk : k < ops.length) :
    (runOps c ops)[k]? = some ((c.after (ops.take k)).out ops[k]) := by
  induction ops generalizing c k with
  | nil => simp at hk
  | cons op ops ih =>
    cases k with
    | zero => simp [runOps, Cfg.after]
    | succ k =>
      have hk' : k < ops.length := by simpa using hk
      simpa [runOps, Cfg.after] using ih (c.next op) k hk'

theorem after_append (c : Cfg) (ops ops' : List Op) : c.after (ops ++ ops') = (c.after ops).after ops' := by
  simp [Cfg.after, List.foldl_append]

theorem runOps_append (c : Cfg) (ops ops' : List Op) : runOps c (ops ++ ops') = runOps c ops ++ runOps (c.after ops) ops' := by
  induction ops generalizing c with
  | nil => simp [runOps, Cfg.after]
  | cons op ops ih => simp [runOps, Cfg.after, ih]

/-- **re-use = fresh**: after ANY history, the reply to a call is the reply of an object that carries the current attribute
values and has no history at all -/
theorem reuse_eq_fresh (c : Cfg) (ops : List Op) (op : Op) :
    (runOps c (ops ++ [op])).getLast? = (runOps (c.after ops) [op]).getLast? := by
  rw [runOps_append]
  simp [runOps]

/-- **a call's result is a function of the current configuration only**: two objects with different pasts but the same
attribute values now give the same reply -/
theorem result_depends_on_current_values_only (c c' : Cfg) (ops ops' : List Op) (op : Op)
    (h : c.after ops = c'.after ops') :
    (runOps c (ops ++ [op])).getLast? = (runOps c' (ops' ++ [op])).getLast? := by
  rw [reuse_eq_fresh, reuse_eq_fresh, h]

/-- **the step is made with the tableau of the CURRENT method**: whatever was integrated before (with whatever method),
after `prop.method = m` the next `_make_step` is the model step of `BUTCHER[m]`, with the current step bound, tolerance and
bodies -/
theorem current_method_selects_step (c : Cfg) (ops : List Op) (m : String) (tb : Tableau) (hm : butcher m = some tb)
    (y : List ℝ) (h : ℝ) :
    (runOps c (ops ++ [.setMethod m, .makeStep y h])).getLast? =
      some (.stepped (makeStep (c.after ops).field tb (c.after ops).step (c.after ops).tol 0 y maxIter h)) := by
  rw [runOps_append]
  simp [runOps, Cfg.out, Cfg.next, hm, field_def]

/-- … and for a fixed-step method it is exactly one Runge–Kutta step of that tableau (Euler then RK4 on one object: the second
call is an RK4 step) -/
theorem current_method_selects_fixed_step (c : Cfg) (ops : List Op) (m : String) (tb : Tableau) (hm : butcher m = some tb)
    (hb : tb.bstar = none) (y : List ℝ) (h : ℝ) :
    (runOps c (ops ++ [.setMethod m, .makeStep y h])).getLast? =
      some (.stepped (some (h, rkOnce (c.after ops).field tb 0 y h))) := by
  rw [current_method_selects_step c ops m tb hm]
  simp [maxIter, makeStep, hb, rkOnce]

private theorem accepts_within_tol' (f : ℝ → List ℝ → List ℝ) (tb : Tableau) (bs : List ℝ) (hb : tb.bstar = some bs)
    (maxStep tol t : ℝ) (y : List ℝ) :
    ∀ (fuel : Nat) (h h' : ℝ) (y' : List ℝ), makeStep f tb maxStep tol t y fuel h = some (h', y') →
      errEst tb bs h' (rkKs f tb t y h') ≤ tol := by
  intro fuel
  induction fuel with
  | zero => intro h h' y' hh; simp [makeStep] at hh
  | succ n ih =>
    intro h h' y' hh
    simp only [makeStep, hb] at hh
    split_ifs at hh with hc
    · simp only [Option.some.injEq, Prod.mk.injEq] at hh
      obtain ⟨rfl, rfl⟩ := hh
      exact hc
    · exact ih _ _ _ hh

/-- the current tolerance is the one an adaptive step is accepted against: after `prop.tol = t` an accepted step has its
embedded error estimate within `t`, whatever the tolerance was when the object was built -/
theorem current_tol_bounds_accepted_step (c : Cfg) (ops : List Op) (t : ℝ) (tb : Tableau) (bs : List ℝ)
    (hm : butcher (c.after ops).method = some tb) (hb : tb.bstar = some bs) (y : List ℝ) (h h' : ℝ) (y' : List ℝ)
    (hr : (runOps c (ops ++ [.setTol t, .makeStep y h])).getLast? = some (.stepped (some (h', y')))) :
    errEst tb bs h' (rkKs (c.after ops).field tb 0 y h') ≤ t := by
  rw [runOps_append] at hr
  simp [runOps, Cfg.out, Cfg.next, hm] at hr
  exact accepts_within_tol' _ tb bs hb _ t 0 y maxIter h h' y' hr

/-- **`copy()` keeps every setting** (method, step bound, tolerance, bodies, frame) of an object whose method is one of the
class's integrators, and starts UNBOUND (`copy().orbit is None`): the propagator attached to each returned orbit integrates exactly
like the one it was copied from, from whatever orbit it is bound to next -/
theorem copy_keeps_settings (c : Cfg) (hm : c.method ∈ butcherNames) : c.next .copy = { c with bound := none } := by
  have : lowerAscii c.method = c.method := by
    simp only [butcherNames, List.mem_cons, List.not_mem_nil, or_false] at hm
    rcases hm with h | h | h | h <;> rw [h] <;> decide
  cases c
  simp_all [Cfg.next, Cfg.init]

/-- every name in `butcherNames` selects a tableau and nothing else does -/
theorem butcher_names (m : String) : (butcher m).isSome ↔ m ∈ butcherNames := by
  unfold butcher butcherNames
  constructor
  · intro h
    split at h <;> simp_all
  · intro h
    simp only [List.mem_cons, List.not_mem_nil, or_false] at h
    rcases h with h | h | h | h <;> subst h <;> rfl

/-- operations whose reply reads the bound orbit -/
def readsBinding : Op → Bool
  | .stepBound _ => true
  | .readOrbit => true
  | _ => false

/-- every other reply is independent of what is bound -/
theorem out_independent_of_binding (c : Cfg) (b : Option (String × List ℝ)) (op : Op) (h : readsBinding op = false) :
    ({ c with bound := b } : Cfg).out op = c.out op := by
  cases op <;> simp_all [Cfg.out, readsBinding, field_def]

/-- a continuation from a returned orbit (`orb.propagate(T1).propagate(T2)`, a point of `iter()` propagated again) makes the
same steps as the original propagator: method, step bound, tolerance, bodies and frame all survive `copy()` -/
theorem copy_then_call (c : Cfg) (hm : c.method ∈ butcherNames) (op : Op) (h : readsBinding op = false) :
    (runOps c [.copy, op]).getLast? = (runOps c [op]).getLast? := by
  simp [runOps, copy_keeps_settings c hm, out_independent_of_binding c none op h]

/-! ### the `frame` attribute and the bound orbit -/

/-- **binding stores the view of the caller's orbit in the CURRENT frame**, under that frame's name — whatever the frame was when
the object was built or last used -/
theorem bind_uses_current_frame (c : Cfg) (ops : List Op) (views : List (String × List ℝ)) (y : List ℝ)
    (hv : viewIn (c.after ops).frame views = some y) :
    (c.after (ops ++ [.bind views])).bound = some ((c.after ops).frame, y) := by
  rw [after_append]
  show ((c.after ops).next (.bind views)).bound = _
  simp [Cfg.next, hv]

/-- **a call through the `Orbit` API (`Orbit.propagate` / `Orbit.iter`: bind, then integrate from the bound orbit) steps from the
caller's orbit as seen in the CURRENT frame, with the CURRENT method, step bound, tolerance and bodies** — after any history, and
whatever orbit (of whatever satellite, in whatever frame) the object was bound to before: nothing of an earlier binding survives -/
theorem orbit_call_steps_from_current_view (c : Cfg) (ops : List Op) (views : List (String × List ℝ)) (y : List ℝ)
    (hv : viewIn (c.after ops).frame views = some y) (tb : Tableau) (hm : butcher (c.after ops).method = some tb) (h : ℝ) :
    (runOps c (ops ++ [.bind views, .stepBound h])).getLast? =
      some (.stepped (makeStep (c.after ops).field tb (c.after ops).step (c.after ops).tol 0 y maxIter h)) := by
  rw [runOps_append]
  simp [runOps, Cfg.out, Cfg.next, hv, hm, field_def]

/-- … hence two objects with different pasts (other satellites bound before, other frames) but the same attribute values now
answer an `Orbit`-level call alike -/
theorem orbit_call_independent_of_previous_binding (c : Cfg) (b b' : Option (String × List ℝ))
    (views : List (String × List ℝ)) (hv : (viewIn c.frame views).isSome) (h : ℝ) :
    (runOps { c with bound := b } [.bind views, .stepBound h]).getLast?
      = (runOps { c with bound := b' } [.bind views, .stepBound h]).getLast? := by
  obtain ⟨y, hy⟩ := Option.isSome_iff_exists.1 hv
  simp [runOps, Cfg.out, Cfg.next, hy]

/-- `copy()` drops the binding and keeps the frame (no hypothesis on the method) -/
theorem copy_drops_binding (c : Cfg) : (c.next .copy).bound = none ∧ (c.next .copy).frame = c.frame := by
  simp [Cfg.next, Cfg.init]

/-- faithful to the code, and the reason why `Orbit.propagate` re-binds at every call: a frame assigned AFTER a binding does not
touch the stored orbit — a direct `prop._make_step(prop.orbit, …)` still integrates the state converted to the former frame -/
theorem frame_change_does_not_rebind (c : Cfg) (views : List (String × List ℝ)) (y : List ℝ) (g : String)
    (hv : viewIn c.frame views = some y) :
    (runOps c [.bind views, .setFrame g, .readOrbit]).getLast? = some (.orbit (some (c.frame, y))) := by
  simp [runOps, Cfg.out, Cfg.next, hv]

/-- an unknown frame name is refused at binding (`UnknownFrameError`), and the object keeps its former binding -/
theorem bind_unknown_frame (c : Cfg) (views : List (String × List ℝ)) (hv : viewIn c.frame views = none) :
    c.out (.bind views) = .unknownFrame ∧ c.next (.bind views) = c := by
  simp [Cfg.out, Cfg.next, hv]

/-! ## The padding rule of `_iter` -/

/-- last date of a tabulation that starts at `d` -/
def lastD : Int → List Int → Int
  | d, [] => d
  | _, x :: xs => lastD x xs

/-- strictly increasing from `d` on -/
def Incr : Int → List Int → Prop
  | _, [] => True
  | d, x :: xs => d < x ∧ Incr x xs

/-- when the march ends normally its loop condition is false at the last tabulated date, with the final length -/
theorem marchWith_exit (cond : Nat → Int → Bool) :
    ∀ (rs : List Int) (len : Nat) (date : Int) (ds rest : List Int),
      marchWith cond rs len date = some (ds, rest) → cond (len + ds.length) (lastD date ds) = false := by
  intro rs
  induction rs with
  | nil =>
    intro len date ds rest h
    simp only [marchWith] at h
    split_ifs at h with hc
    simp only [Option.some.injEq, Prod.mk.injEq] at h
    obtain ⟨rfl, _⟩ := h
    simpa [lastD] using hc
  | cons r rs ih =>
    intro len date ds rest h
    simp only [marchWith] at h
    split_ifs at h with hc
    · cases hm : marchWith cond rs (len + 1) (date + r) with
      | none => simp [hm] at h
      | some p =>
        simp only [hm, Option.map_some, Option.some.injEq, Prod.mk.injEq] at h
        obtain ⟨rfl, _⟩ := h
        have := ih (len + 1) (date + r) p.1 p.2 (by simp [hm])
        simpa [lastD, Nat.add_assoc, Nat.add_comm 1] using this
    · simp only [Option.some.injEq, Prod.mk.injEq] at h
      obtain ⟨rfl, _⟩ := h
      simpa [lastD] using hc

/-- the march consumes one reported step size per tabulated point -/
theorem marchWith_consumes (cond : Nat → Int → Bool) :
    ∀ (rs : List Int) (len : Nat) (date : Int) (ds rest : List Int),
      marchWith cond rs len date = some (ds, rest) → rs.length = ds.length + rest.length := by
  intro rs
  induction rs with
  | nil =>
    intro len date ds rest h
    simp only [marchWith] at h
    split_ifs at h
    simp only [Option.some.injEq, Prod.mk.injEq] at h
    obtain ⟨rfl, rfl⟩ := h
    rfl
  | cons r rs ih =>
    intro len date ds rest h
    simp only [marchWith] at h
    split_ifs at h
    · cases hm : marchWith cond rs (len + 1) (date + r) with
      | none => simp [hm] at h
      | some p =>
        simp only [hm, Option.map_some, Option.some.injEq, Prod.mk.injEq] at h
        obtain ⟨rfl, rfl⟩ := h
        have := ih (len + 1) (date + r) p.1 p.2 (by simp [hm])
        simp [this]; omega
    · simp only [Option.some.injEq, Prod.mk.injEq] at h
      obtain ⟨rfl, rfl⟩ := h
      simp

/-- with steps of one sign the tabulated dates are strictly monotone: `Ephem`'s sorting keeps (forward) or reverses (backward)
the integration order, and the first point is the start -/
theorem marchWith_incr (cond : Nat → Int → Bool) :
    ∀ (rs : List Int) (len : Nat) (date : Int) (ds rest : List Int), (∀ r ∈ rs, 0 < r) →
      marchWith cond rs len date = some (ds, rest) → Incr date ds := by
  intro rs
  induction rs with
  | nil =>
    intro len date ds rest _ h
    simp only [marchWith] at h
    split_ifs at h
    simp only [Option.some.injEq, Prod.mk.injEq] at h
    obtain ⟨rfl, _⟩ := h
    trivial
  | cons r rs ih =>
    intro len date ds rest hpos h
    simp only [marchWith] at h
    split_ifs at h
    · cases hm : marchWith cond rs (len + 1) (date + r) with
      | none => simp [hm] at h
      | some p =>
        simp only [hm, Option.map_some, Option.some.injEq, Prod.mk.injEq] at h
        obtain ⟨rfl, _⟩ := h
        have hr : 0 < r := hpos r (by simp)
        exact ⟨by omega, ih (len + 1) (date + r) p.1 p.2 (fun x hx => hpos x (by simp [hx])) (by simp [hm])⟩
    · simp only [Option.some.injEq, Prod.mk.injEq] at h
      obtain ⟨rfl, _⟩ := h
      trivial

/-- the source's `interp` flag is exactly "some output is not an integration point": `Ephem.iter` interpolates when it is
given dates or an explicit step, and the events of listeners are interpolated dates -/
theorem interpFlag_spec (datesGiven stepGiven listening : Bool) :
    interpFlag datesGiven stepGiven listening = (datesGiven || stepGiven || listening) := by
  cases datesGiven <;> cases stepGiven <;> cases listening <;> simp [interpFlag]

/-- **the march reaches the requested stop, and pads**: when it ends, the last tabulated date is at or beyond `stop` in the
direction of integration, and — whenever outputs are interpolated — the tabulation holds at least `DEFAULT_ORDER` points,
however short the span -/
theorem march_reaches_stop_and_pads (backward interp : Bool) (stop : Int) (rs : List Int) (len : Nat) (date : Int)
    (ds rest : List Int) (h : march backward interp stop rs len date = some (ds, rest)) :
    (backward = false → stop ≤ lastD date ds) ∧ (backward = true → lastD date ds ≤ stop) ∧
    (interp = true → defaultOrder ≤ len + ds.length) := by
  have := marchWith_exit _ rs len date ds rest h
  simp only [marchCond] at this
  cases backward <;> cases interp <;> simp at this ⊢ <;> omega

/-- the padding loop of the positioning phase appends exactly its count -/
theorem pad_length : ∀ (k : Nat) (rs : List Int) (last : Int) (more rest : List Int),
    pad k rs last = some (more, rest) → more.length = k := by
  intro k
  induction k with
  | zero => intro rs last more rest h; simp only [pad, Option.some.injEq, Prod.mk.injEq] at h; obtain ⟨rfl, _⟩ := h; rfl
  | succ k ih =>
    intro rs last more rest h
    cases rs with
    | nil => simp [pad] at h
    | cons r rs =>
      simp only [pad] at h
      cases hp : pad k rs (last + r) with
      | none => simp [hp] at h
      | some p =>
        simp only [hp, Option.map_some, Option.some.injEq, Prod.mk.injEq] at h
        obtain ⟨rfl, _⟩ := h
        simp [ih rs (last + r) p.1 p.2 (by simp [hp])]

/-- **positioning (`propagate(date)`, an offset `start`)**: the tabulation that is interpolated at `start` holds at least
`DEFAULT_ORDER` points, contains the epoch and a point at or beyond `start`, and is interpolated at order `DEFAULT_ORDER` -/
theorem position_full_order (epoch start : Int) (rs : List Int) (tab rest : List Int)
    (h : position epoch start rs = some (tab, rest)) :
    defaultOrder ≤ tab.length ∧ posOrder tab.length = defaultOrder ∧ epoch ∈ tab ∧
    (epoch < start → ∃ d ∈ tab, start ≤ d) ∧ (start < epoch → ∃ d ∈ tab, d ≤ start) := by
  simp only [position] at h
  split at h
  · simp at h
  · rename_i ds rs1 hm
    split at h
    · simp at h
    · rename_i more rs2 hp
      simp only [Option.some.injEq, Prod.mk.injEq] at h
      obtain ⟨rfl, _⟩ := h
      have hl := pad_length _ _ _ _ _ hp
      have hx := marchWith_exit _ rs 1 epoch ds rs1 hm
      have hmem : lastD epoch ds ∈ epoch :: ds := by
        clear hm hp hl hx
        induction ds generalizing epoch with
        | nil => simp [lastD]
        | cons x xs ih => simp only [lastD]; exact List.mem_cons_of_mem _ (ih x)
      refine ⟨?_, ?_, by simp, ?_, ?_⟩
      · simp only [List.length_append, hl, padCount, List.length_cons]; omega
      · simp [posOrder, ephemOrder, ephemOrderArgPos]
      · intro hlt
        refine ⟨lastD epoch ds, List.mem_append_left _ hmem, ?_⟩
        have : decide (start < epoch) = false := by simp; omega
        simp only [posCond, this, decide_eq_false_iff_not] at hx
        simp at hx; omega
      · intro hlt
        refine ⟨lastD epoch ds, List.mem_append_left _ hmem, ?_⟩
        have : decide (start < epoch) = true := by simp; omega
        simp only [posCond, this] at hx
        simp at hx; omega

/-- **the padding rule**: whenever `_iter` hands out interpolated outputs (dates given, an explicit output step, listeners),
the `Ephem` over the requested span holds at least `DEFAULT_ORDER` points and is interpolated at order `DEFAULT_ORDER` — the
interpolation order never drops on a short span; the tabulation starts at `start` and reaches `stop`; and the `Ephem` of the
positioning phase (when there is one) is as complete -/
theorem iter_interpolates_at_full_order (epoch start stop : Int) (datesGiven stepGiven listening : Bool) (rs : List Int)
    (t : Tab) (h : iterTab epoch start stop datesGiven stepGiven listening rs = some t) :
    ((datesGiven || stepGiven || listening) = true →
        ephemOrder t.orderArg = defaultOrder ∧ defaultOrder ≤ t.main.length) ∧
    t.main.head? = some start ∧
    (start ≤ stop → stop ≤ lastD start t.main.tail) ∧ (stop < start → lastD start t.main.tail ≤ stop) ∧
    (∀ p, t.pos = some p → ephemOrder t.posOrderArg = defaultOrder ∧ defaultOrder ≤ p.length) := by
  simp only [iterTab] at h
  split at h
  · simp at h
  · rename_i pos rs1 hpos
    cases hm : march (decide (stop < start)) (interpFlag datesGiven stepGiven listening) stop rs1 1 start with
    | none => simp [hm] at h
    | some p =>
      obtain ⟨ds, rs2⟩ := p
      simp only [hm, Option.some.injEq] at h
      subst h
      obtain ⟨hf, hb, hi⟩ := march_reaches_stop_and_pads _ _ _ _ _ _ _ _ hm
      refine ⟨?_, by simp, ?_, ?_, ?_⟩
      · intro hint
        rw [← interpFlag_spec] at hint
        refine ⟨by simp [ephemOrder, ephemOrderArg], ?_⟩
        have := hi hint
        simp only [List.length_cons]; omega
      · intro hle; simp only [List.tail_cons]; exact hf (by simp; omega)
      · intro hlt; simp only [List.tail_cons]; exact hb (by simp; omega)
      · intro p hp
        simp only at hp
        split_ifs at hpos with hne
        · cases hq : position epoch start rs with
          | none => simp [hq] at hpos
          | some q =>
            simp only [hq, Option.map_some, Option.some.injEq, Prod.mk.injEq] at hpos
            obtain ⟨rfl, _⟩ := hpos
            simp only [Option.some.injEq] at hp
            subst hp
            obtain ⟨h1, h2, _⟩ := position_full_order epoch start rs q.1 q.2 (by simp [hq])
            exact ⟨by simpa [posOrder] using h2, h1⟩
        · simp only [Option.some.injEq, Prod.mk.injEq] at hpos
          obtain ⟨rfl, _⟩ := hpos
          simp at hp

/-- forward, with positive accepted steps, every requested output date lies inside the tabulated span (so `Ephem.propagate`
finds its `DEFAULT_ORDER`-point window) -/
theorem outputs_inside_tabulation (interp : Bool) (start stop : Int) (rs ds rest : List Int) (hpos : ∀ r ∈ rs, 0 < r)
    (h : march false interp stop rs 1 start = some (ds, rest)) (d : Int) (h1 : start ≤ d) (h2 : d ≤ stop) :
    start ≤ d ∧ d ≤ lastD start ds ∧ Incr start ds :=
  ⟨h1, le_trans h2 ((march_reaches_stop_and_pads _ _ _ _ _ _ _ _ h).1 rfl), marchWith_incr _ rs 1 start ds rest hpos h⟩

/-! ## The object graph of an output: every point carries its own propagator -/

/-- **every point yielded by `_iter` (hence every orbit returned by `iter()`, `ephem()`, `propagate()`) carries its OWN
propagator object**: the propagators of one output are pairwise distinct and none is the receiver's -/
theorem output_props_distinct (recv next n : Nat) (h : recv < next) :
    (outputProps recv next n).Nodup ∧ recv ∉ outputProps recv next n := by
  unfold outputProps pointPropId
  constructor
  · apply List.Nodup.map_on _ List.nodup_range
    intro a _ b _ hab; omega
  · simp only [List.mem_map, List.mem_range, not_exists, not_and]
    intro k _; omega

/-- the `k`-th point's propagator lies in the block of identities allocated for that output -/
theorem output_props_range (recv next n : Nat) : ∀ p ∈ outputProps recv next n, next ≤ p ∧ p < next + propsAllocated n := by
  unfold outputProps pointPropId propsAllocated
  simp only [List.mem_map, List.mem_range]
  rintro p ⟨k, hk, rfl⟩; omega

/-- **across outputs**: the propagators of all points of successive outputs of one receiver are pairwise distinct (a point of
one `iter()` call never shares its propagator with a point of another call, nor with a `propagate()` result) -/
theorem outputs_props_distinct (recv : Nat) : ∀ (ns : List Nat) (next : Nat), recv < next →
    (outputsProps recv next ns).flatten.Nodup ∧ recv ∉ (outputsProps recv next ns).flatten ∧
    ∀ p ∈ (outputsProps recv next ns).flatten, next ≤ p := by
  intro ns
  induction ns with
  | nil => intro next _; simp [outputsProps]
  | cons n ns ih =>
    intro next h
    obtain ⟨h1, h2, h3⟩ := ih (next + propsAllocated n) (by omega)
    obtain ⟨g1, g2⟩ := output_props_distinct recv next n h
    have g3 := output_props_range recv next n
    simp only [outputsProps, List.flatten_cons]
    refine ⟨?_, ?_, ?_⟩
    · rw [List.nodup_append]
      refine ⟨g1, h1, ?_⟩
      intro a ha b hb hab
      have := (g3 a ha).2
      have := h3 b hb
      omega
    · simp only [List.mem_append, not_or]; exact ⟨g2, h2⟩
    · intro p hp
      rcases List.mem_append.mp hp with hp | hp
      · exact (g3 p hp).1
      · have := h3 p hp; omega

/-- invariant of `runReqs` when the orbits' propagators are distinct objects: an orbit whose iterator exists is still the one
its propagator is bound to -/
theorem runReqs_own (pOf : Nat → Nat) (hinj : ∀ i j, pOf i = pOf j → i = j) :
    ∀ (rs : List Req) (made : List Nat) (b : Nat → Option Nat), (∀ i ∈ made, b (pOf i) = some i) →
      wellFormed made rs = true → runReqs pOf b rs = ownReplies rs := by
  intro rs
  induction rs with
  | nil => intros; rfl
  | cons r rs ih =>
    intro made b hb hw
    cases r with
    | create i =>
      simp only [runReqs, ownReplies, wellFormed] at hw ⊢
      apply ih (i :: made) _ _ hw
      intro j hj
      by_cases hji : pOf j = pOf i
      · have := hinj j i hji; subst this; simp
      · rcases List.mem_cons.mp hj with rfl | hj
        · exact absurd rfl hji
        · simp [hji, hb j hj]
    | consume i =>
      simp only [runReqs, ownReplies, wellFormed, Bool.and_eq_true, List.contains_iff_mem] at hw ⊢
      rw [hb i hw.1, ih made b hb hw.2]
    | propagate i =>
      simp only [runReqs, ownReplies, wellFormed] at hw ⊢
      congr 1
      apply ih made _ _ hw
      intro j hj
      by_cases hji : pOf j = pOf i
      · have := hinj j i hji; subst this; simp
      · simp [hji, hb j hj]

/-- **interleaved requests on the points of one output do not interfere**: with the propagators handed out by `_iter`
(`pointPropId`), whatever the order in which iterators of sibling points are created and consumed and `propagate()` calls are
made in between, every request returns the trajectory of its own orbit — the state returned for a date does not depend on how
requests on different orbits are interleaved -/
theorem sibling_requests_independent (recv next : Nat) (rs : List Req) (hw : wellFormed [] rs = true) :
    runReqs (pointPropId recv next) (fun _ => none) rs = ownReplies rs := by
  apply runReqs_own _ _ rs [] _ (by simp) hw
  intro i j h
  unfold pointPropId at h
  omega

/-! ## The request as the caller writes it (`NumericalPropagator.iter` / `propagate`, translated from base.py) -/

/-- **a relative `stop` (a timedelta) is counted from the START of the request**, not from the epoch of the orbit: a request
`iter(start=s, stop=Δ)` covers `[s, s + Δ]` -/
theorem relative_stop_counts_from_start (epoch start delta : Int) : relStop epoch start delta = start + delta := by
  simp [relStop]

/-- **a relative target of `propagate` is counted from the epoch of the orbit** -/
theorem relative_target_counts_from_epoch (epoch delta : Int) : relTarget epoch delta = epoch + delta := by
  simp [relTarget]

example : relStop 0 120000000 300000000 = 420000000 := by decide

/-! ## Non-vacuity -/

/-- three points, their propagators are objects 5, 6, 7, the receiver is object 2 -/
example : outputProps 2 5 3 = [5, 6, 7] := by decide
/-- `zip(A.iter(), B.iter())`, and an iterator of A created before a `propagate()` of B and consumed after -/
example : wellFormed [] [.create 0, .create 1, .consume 0, .consume 1] = true ∧
    wellFormed [] [.create 0, .propagate 1, .consume 0] = true := by decide
/-- with ONE propagator shared by the siblings the second history returns B's trajectory for A: the hypothesis of
`runReqs_own` is what excludes it -/
example : runReqs (fun _ => 7) (fun _ => none) [.create 0, .propagate 1, .consume 0] = [some 1, some 1] := by decide


/-- Euler, then `prop.method = "rk4"`, then a step: an RK4 step -/
example (c : Cfg) (y : List ℝ) (h : ℝ) :
    (runOps c [.makeStep y h, .setMethod "rk4", .makeStep y h]).getLast? =
      some (.stepped (some (h, rkOnce c.field butcher_rk4 0 y h))) := by
  have := current_method_selects_fixed_step c [.makeStep y h] "rk4" butcher_rk4 rfl rfl y h
  simpa [Cfg.after, Cfg.next] using this
example : (Cfg.init 60 [] "RK4" 0.001).method = "rk4" := by decide
/-- an orbit given in EME2000 and TOD coordinates, an object whose frame was switched to TOD after it had been bound to ANOTHER
satellite in EME2000: the `Orbit`-level call integrates the TOD view of the caller's orbit (hypotheses of
`orbit_call_steps_from_current_view` with `ops = [bind other, setFrame "TOD"]`) -/
example (y yt other : List ℝ) (h : ℝ) :
    (runOps (Cfg.init 60 [] "rk4" 0.001) ([.bind [("EME2000", other)], .setFrame "TOD"]
        ++ [.bind [("EME2000", y), ("TOD", yt)], .stepBound h])).getLast? =
      some (.stepped (makeStep (Cfg.init 60 [] "rk4" 0.001).field butcher_rk4 60 0.001 0 yt maxIter h)) := by
  have := orbit_call_steps_from_current_view (Cfg.init 60 [] "rk4" 0.001) [.bind [("EME2000", other)], .setFrame "TOD"]
    [("EME2000", y), ("TOD", yt)] yt (by simp [Cfg.after, Cfg.next, Cfg.init, viewIn]) butcher_rk4
    (by simp [Cfg.after, Cfg.next, Cfg.init, viewIn]; rfl) h
  simpa [Cfg.after, Cfg.next, Cfg.init, viewIn, field_def] using this
/-- the stale stored orbit of a direct use: bound in EME2000, frame set to TOD, `prop.orbit` still the EME2000 state -/
example (y : List ℝ) : (runOps (Cfg.init 60 [] "rk4" 0.001) [.bind [("EME2000", y)], .setFrame "TOD", .readOrbit]).getLast?
    = some (.orbit (some ("EME2000", y))) :=
  frame_change_does_not_rebind _ _ y "TOD" (by simp [Cfg.init, viewIn])
example (y : List ℝ) : (Cfg.init 60 [] "rk4" 0.001 "NOPE").out (.bind [("EME2000", y)]) = .unknownFrame :=
  (bind_unknown_frame _ _ (by simp [Cfg.init, viewIn])).1
example : readsBinding (.makeStep [] 0) = false ∧ readsBinding .readButcher = false := by decide
example : "rkf54" ∈ butcherNames := by decide
/-- `iter(stop=90 s, step=15 s)` with a 60 s propagator: 8 points are tabulated (7 steps), not 3 -/
example : iterTab 0 0 90000000 false true false (List.replicate 9 60000000) =
    some { pos := none, main := [0, 60000000, 120000000, 180000000, 240000000, 300000000, 360000000, 420000000],
           interp := true, posOrderArg := none, orderArg := none, calls := 7 } := by decide
/-- the same span at the native step: no interpolation, 3 points -/
example : iterTab 0 0 90000000 false false false (List.replicate 9 60000000) =
    some { pos := none, main := [0, 60000000, 120000000], interp := false, posOrderArg := none, orderArg := none, calls := 2 } := by decide
/-- `propagate(+25 s)`: positioning over one step, padded to 8 points; the span itself is the single point -/
example : iterTab 0 25000000 25000000 false false false (List.replicate 9 60000000) =
    some { pos := some [0, 60000000, 120000000, 180000000, 240000000, 300000000, 360000000, 420000000], main := [25000000],
           interp := false, posOrderArg := none, orderArg := none, calls := 7 } := by decide
/-- a short backward range with shrinking (adaptive) steps -/
example : (iterTab 0 0 (-100000000) false true false [-60000000, -30000000, -45000000, -60000000, -60000000, -60000000, -60000000, -60000000]).map (·.main.length) = some 8 := by decide

end BeyondVerif.C06
