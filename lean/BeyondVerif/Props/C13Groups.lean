import BeyondVerif.Props.C13Opm
/-!
C13, the remaining XML groups for every list length: the ephemeris points and the covariance blocks
of an OEM segment, the observations of a TDM segment.
-/
namespace BeyondVerif.C13
open BeyondVerif.Ccsds BeyondVerif.Generated

/-! ### OEM: state vectors of a segment -/

def PointWf (p : Point) : Prop :=
  p.epoch ≠ .s "" ∧ ∃ x y z vx vy vz, p.state = [x, y, z, vx, vy, vz] ∧ x ≠ .s "" ∧ y ≠ .s "" ∧ z ≠ .s "" ∧ vx ≠ .s "" ∧ vy ≠ .s "" ∧ vz ≠ .s ""

theorem point_xml_roundtrip (md : Dict) (hmd : ∃ a b c, strOf md "TIME_SYSTEM" = .ok a ∧ strOf md "OBJECT_NAME" = .ok b ∧ strOf md "OBJECT_ID" = .ok c)
    (p : Point) (h : PointWf p) :
    recurse (svXml p.epoch p.state) = some (.dict (svDict p.epoch p.state)) ∧
    loadPointXml md (.dict (svDict p.epoch p.state)) = .ok { p with cov := none } := by
  obtain ⟨he, x, y, z, vx, vy, vz, hs, h1, h2, h3, h4, h5, h6⟩ := h
  obtain ⟨a, b, c, ha, hb, hc⟩ := hmd
  obtain ⟨epoch, state, cov⟩ := p
  simp only at hs he
  subst hs
  refine ⟨(sv_xml_roundtrip epoch x y z vx vy vz he h1 h2 h3 h4 h5 h6).1, ?_⟩
  simp [loadPointXml, asDict, svDict, svKeys, svUnit, textOf, getItem, Val.text, decodeUnit, unitNames, List.lookup, bind, Except.bind,
    pure, Except.pure, ha, hb, hc]

theorem mapM_loadPoint (md : Dict) (hmd : ∃ a b c, strOf md "TIME_SYSTEM" = .ok a ∧ strOf md "OBJECT_NAME" = .ok b ∧ strOf md "OBJECT_ID" = .ok c)
    (ps : List Point) (hwf : ∀ p ∈ ps, PointWf p) :
    ((ps.map fun p => svDict p.epoch p.state).map Val.dict).mapM (loadPointXml md) = (.ok (ps.map fun p => { p with cov := none }) : R (List Point)) := by
  induction ps with
  | nil => rfl
  | cons p r ih =>
    have h1 := (point_xml_roundtrip md hmd p (hwf p (by simp))).2
    have h2 := ih (fun x hx => hwf x (by simp [hx]))
    simp only [List.map_cons, List.mapM_cons, h1, h2, bind, Except.bind, pure, Except.pure]

/-- **Ephemeris points, XML, every number n ≥ 1 of them** (clause "1..N ephemeris points"): the `stateVector` elements
written for the points of a segment, put after the children already converted into `d`, are read back by the point loop
of `oem._loads_xml` as the same epochs and coordinates in the same order — for one point as for many, the reader now
wrapping a lone dict (`wrapOemStateVector`, regenerated). -/
theorem points_xml_roundtrip (md : Dict) (hmd : ∃ a b c, strOf md "TIME_SYSTEM" = .ok a ∧ strOf md "OBJECT_NAME" = .ok b ∧ strOf md "OBJECT_ID" = .ok c)
    (ps : List Point) (hwf : ∀ p ∈ ps, PointWf p) (hne : ps ≠ []) (d : Dict) (hd : d.lookup "stateVector" = none) :
    ∃ D x, recurseKids (ps.map fun p => svXml p.epoch p.state) d = some D ∧ D.lookup "stateVector" = some x ∧
      (iterGroup wrapOemStateVector .typeError x >>= fun svs => svs.mapM (loadPointXml md)) = .ok (ps.map fun p => { p with cov := none }) := by
  obtain ⟨D, x, h1, h2, h3, _⟩ := xml_group_roundtrip "stateVector" d hd (ps.map fun p => svXml p.epoch p.state)
    ((ps.map fun p => svDict p.epoch p.state).map Val.dict) wrapOemStateVector .typeError (by simpa using hne)
    (by intro e he; simp only [List.mem_map] at he; obtain ⟨p, _, rfl⟩ := he; rfl)
    (by
      simp only [List.map_map]
      apply List.map_congr_left
      intro p hp
      simp [(point_xml_roundtrip md hmd p (hwf p hp)).1])
    (by intro v hv; simp only [List.mem_map] at hv; obtain ⟨_, _, rfl⟩ := hv; rfl) (Or.inl (by decide))
  refine ⟨D, x, h1, h2, ?_⟩
  rw [h3]
  exact mapM_loadPoint md hmd ps hwf

/-! ### OEM: covariance blocks of a segment (each carries its EPOCH) -/

/-- **Covariance blocks of an OEM segment, XML, every number k ≥ 1**: the `covarianceMatrix` elements (EPOCH, optional
COV_REF_FRAME, 21 values) come back from `xml2dict` + the readers' iteration as one dict per block, in order, each of
which `load_cov` turns into the covariance written (`cov_xml_roundtrip` with an epoch).  The attachment of each block
to the point with the same epoch is not part of this statement. -/
theorem oem_covs_xml_group (cs : List (Txt × CovM)) (hwf : ∀ ec ∈ cs, ec.1 ≠ .s "" ∧ CovWf ec.2) (hne : cs ≠ [])
    (d : Dict) (hd : d.lookup "covarianceMatrix" = none) :
    ∃ D x, recurseKids (cs.map fun ec => covXml (some ec.1) ec.2) d = some D ∧ D.lookup "covarianceMatrix" = some x ∧
      (iterGroup wrapOemCov .typeError x >>= fun xs => xs.mapM asDict) = .ok (cs.map fun ec => covDict (some ec.1) ec.2) := by
  obtain ⟨D, x, h1, h2, h3, _⟩ := xml_group_roundtrip "covarianceMatrix" d hd (cs.map fun ec => covXml (some ec.1) ec.2)
    ((cs.map fun ec => covDict (some ec.1) ec.2).map Val.dict) wrapOemCov .typeError (by simpa using hne)
    (by intro e he; simp only [List.mem_map] at he; obtain ⟨p, _, rfl⟩ := he; rfl)
    (by
      simp only [List.map_map]
      apply List.map_congr_left
      intro ec hec
      obtain ⟨he, ⟨a0, a1, a2, a3, a4, a5, a6, a7, a8, a9, a10, a11, a12, a13, a14, a15, a16, a17, a18, a19, a20, htri, hnb⟩, hfr⟩ := hwf ec hec
      obtain ⟨e, ⟨frame, tri⟩⟩ := ec
      simp only at htri hfr he
      subst htri
      have := (cov_xml_roundtrip "EME2000" (some e) frame a0 a1 a2 a3 a4 a5 a6 a7 a8 a9 a10 a11 a12 a13 a14 a15 a16 a17 a18 a19 a20 hnb
        (by simpa using he) (covFrameOut_ne _ hfr)).1
      simp [this])
    (by intro v hv; simp only [List.mem_map] at hv; obtain ⟨_, _, rfl⟩ := hv; rfl) (Or.inl (by decide))
  refine ⟨D, x, h1, h2, ?_⟩
  rw [h3]
  exact mapM_asDict _

/-! ### TDM: observations of a segment -/

/-- an observation the writer can emit and the readers accept: one of the four classes; angles need `ANGLE_TYPE = AZEL`
in force (the writer puts it in the metadata whenever an azimuth or elevation is present: `tdmAngleTrig`) -/
def ObsWf (angle : Option String) (path : List String) (o : Obs) : Prop :=
  o.path = path ∧ o.epoch ≠ .s "" ∧ o.value ≠ .s "" ∧
  (o.kind = "Range" ∨ o.kind = "Doppler" ∨ ((o.kind = "Azimut" ∨ o.kind = "Elevation") ∧ angle = some "AZEL"))

def obsDict (name : String) (o : Obs) : Dict := [("EPOCH", .field o.epoch []), (name, .field o.value [])]

theorem obs_xml_roundtrip (angle : Option String) (path : List String) (o : Obs) (h : ObsWf angle path o) :
    ∃ e D, obsXml o = .ok e ∧ e.tag = "observation" ∧ recurse e = some (.dict D) ∧ loadObsXml angle path (.dict D) = .ok o := by
  obtain ⟨kind, opath, epoch, value⟩ := o
  obtain ⟨hp, he, hv, hk⟩ := h
  simp only at hp he hv hk
  subst hp
  rcases hk with hk | hk | ⟨hk | hk, ha⟩ <;> subst hk
  · refine ⟨_, obsDict "RANGE" ⟨"Range", opath, epoch, value⟩, rfl, rfl, ?_, ?_⟩
    · simp [obsDict, recurse, recurseKids, addChild, Elem.tag, List.lookup, he, hv]
    · simp [loadObsXml, obsDict, asDict, textOf, getItem, Val.text, tdmKind, tdmReadKinds, List.lookup, List.filter, bind, Except.bind, pure, Except.pure]
  · refine ⟨_, obsDict "DOPPLER_INSTANTANEOUS" ⟨"Doppler", opath, epoch, value⟩, rfl, rfl, ?_, ?_⟩
    · simp [obsDict, recurse, recurseKids, addChild, Elem.tag, List.lookup, he, hv]
    · simp [loadObsXml, obsDict, asDict, textOf, getItem, Val.text, tdmKind, tdmReadKinds, List.lookup, List.filter, bind, Except.bind, pure, Except.pure]
  · subst ha
    refine ⟨_, obsDict "ANGLE_1" ⟨"Azimut", opath, epoch, value⟩, rfl, rfl, ?_, ?_⟩
    · simp [obsDict, recurse, recurseKids, addChild, Elem.tag, List.lookup, he, hv]
    · simp [loadObsXml, obsDict, asDict, textOf, getItem, Val.text, tdmKind, tdmReadKinds, List.lookup, List.filter, bind, Except.bind, pure, Except.pure]
  · subst ha
    refine ⟨_, obsDict "ANGLE_2" ⟨"Elevation", opath, epoch, value⟩, rfl, rfl, ?_, ?_⟩
    · simp [obsDict, recurse, recurseKids, addChild, Elem.tag, List.lookup, he, hv]
    · simp [loadObsXml, obsDict, asDict, textOf, getItem, Val.text, tdmKind, tdmReadKinds, List.lookup, List.filter, bind, Except.bind, pure, Except.pure]

/-- **Observations of a TDM segment, XML, every number n ≥ 1 of them, all four measurement classes** (clause
"measurement set"): the writer produces one `observation` element per measurement, and `xml2dict` followed by the
observation loop of `tdm._loads_xml` gives the same measurements back in the same order (class, path, epoch, value) —
for one observation as for many (`wrapTdmObservation`, regenerated), Doppler included (`tdmReadKinds`, regenerated). -/
theorem observations_xml_roundtrip (angle : Option String) (path : List String) (set : List Obs) (hwf : ∀ o ∈ set, ObsWf angle path o)
    (hne : set ≠ []) :
    ∃ es D x, set.mapM obsXml = .ok es ∧ recurseKids es [] = some D ∧ D.lookup "observation" = some x ∧
      (iterGroup wrapTdmObservation .attrError x >>= fun xs => xs.mapM (loadObsXml angle path)) = .ok set := by
  -- per-observation elements and dicts
  have hall : ∃ eds : List (Elem × Dict), set.mapM obsXml = .ok (eds.map (·.1)) ∧ (∀ ed ∈ eds, ed.1.tag = "observation") ∧
      (eds.map (·.1)).map recurse = ((eds.map (·.2)).map Val.dict).map some ∧
      ((eds.map (·.2)).map Val.dict).mapM (loadObsXml angle path) = .ok set ∧ eds.length = set.length := by
    clear hne
    induction set with
    | nil => exact ⟨[], rfl, by simp, rfl, rfl, rfl⟩
    | cons o r ih =>
      obtain ⟨eds, h1, h2, h3, h4, h5⟩ := ih (fun x hx => hwf x (by simp [hx]))
      obtain ⟨e, D, g1, g2, g3, g4⟩ := obs_xml_roundtrip angle path o (hwf o (by simp))
      refine ⟨(e, D) :: eds, ?_, ?_, ?_, ?_, by simp [h5]⟩
      · simp only [List.mapM_cons, g1, h1, bind, Except.bind, pure, Except.pure, List.map_cons]
      · intro ed hed
        simp only [List.mem_cons] at hed
        rcases hed with rfl | hed
        · exact g2
        · exact h2 ed hed
      · simp only [List.map_cons, g3, h3]
      · simp only [List.map_cons, List.mapM_cons, g4, h4, bind, Except.bind, pure, Except.pure]
  obtain ⟨eds, h1, h2, h3, h4, h5⟩ := hall
  have hne' : eds.map (·.1) ≠ [] := by
    intro hnil
    have : eds.length = 0 := by simpa using congrArg List.length hnil
    rw [h5] at this
    exact hne (List.eq_nil_of_length_eq_zero this)
  obtain ⟨D, x, k1, k2, k3, _⟩ := xml_group_roundtrip "observation" [] rfl (eds.map (·.1)) ((eds.map (·.2)).map Val.dict)
    wrapTdmObservation .attrError hne'
    (by intro e he; simp only [List.mem_map] at he; obtain ⟨ed, hed, rfl⟩ := he; exact h2 ed hed) h3
    (by intro v hv; simp only [List.mem_map] at hv; obtain ⟨_, _, rfl⟩ := hv; rfl) (Or.inl (by decide))
  refine ⟨_, D, x, h1, k1, k2, ?_⟩
  rw [k3]
  exact h4

end BeyondVerif.C13
