import BeyondVerif.Lemmas.Jpl
import BeyondVerif.Lemmas.CentralDiff
import BeyondVerif.Generated.JplKernel
/-!
# C18 — Solar-system body positions (part 2: frames and orbits created from JPL SPK files)

The model (`Model/JplR.lean`, instantiated from `lean/templates/Jpl.tpl`) follows `create_frames`,
`JplPropagator.propagate`, `Center.convert_to`, `Frame.transform`; routing between centres is the `Node`
model of C20.  Segment values (jplephem) are a parameter.

* `spk_chain` — ∀ kernels (any list of (center, target) pairs in which no body is the target of two
  centres), ∀ segment values that derive from one position per body (every tree of segments does, see
  `growth_consistent`), ∀ ordered pairs of bodies, ∀ fuel: whatever `get_orbit(a).copy(frame=b)` returns is the
  position and velocity of `a` relative to `b`, in metres and metres/second.
* `spk_offset` — the same for the pure frame offset (a zero state vector re-framed).
* `spk_path_sum` — that vector is the signed sum of the file's segment vectors along a chain of kernel links
  from `a` to `b` (the literal "chaining the segments directly").
* `spk_antisymm` — a → b is minus b → a.
* `growth_consistent`, `growth_uniqueCenter` — every kernel whose segments each hang a new body below an
  existing (or new) one satisfies the two hypotheses, for arbitrary segment values.
* `de403_spk_chain` — for the kernel of the repository's test data, regenerated on every run: all 256
  ordered pairs are routed (kernel `decide`), every one of them yields exactly the chained vector.
* `pck_independent` — the vectors do not depend on the physical constants read from PCK files.

Part 1 (analytical Sun / Moon series) is in `Props/C18Series.lean`.
-/
namespace BeyondVerif.C18
open BeyondVerif.Node BeyondVerif.R.Jpl BeyondVerif.NumReal BeyondVerif.JplLemmas

/-- **Frame offsets chain the segments.** For every kernel without doubly-centred targets, every
consistent set of segment values, every ordered pair of bodies and every fuel: if re-framing the zero state
vector of the frame of `a` into the frame of `b` returns a vector, it is `a` relative to `b` in m, m/s. -/
theorem spk_offset (ps : Pairs) (seg : Nat → Nat → V6) (P : Nat → V6) (hP : Consistent ps seg P)
    (hu : UniqueCenter ps) (fuel a b : Nat) (v : V6) (h : offsetIn fuel ps seg a b = .ok v) :
    v = si (P a - P b) := by
  unfold offsetIn reframe at h
  split at h
  · cases h
  · split at h
    · next hab => subst hab; cases h; simp [vzero_eq, si_zero]
    · cases hc : centerTo fuel ps seg a b with
      | ok off =>
        rw [hc] at h; cases h
        rw [centerTo_ok hP hu hc, vadd_eq, vzero_eq, zero_add]
      | unknownBody => rw [hc] at h; cases h
      | unknownFrame => rw [hc] at h; cases h
      | noRoute => rw [hc] at h; cases h
      | keyError => rw [hc] at h; cases h
      | noProvider => rw [hc] at h; cases h
      | fuel => rw [hc] at h; cases h

/-- **Orbits from SPK files chain the segments** (`jpl.get_orbit(a, date).copy(frame=b)`): position and
velocity of `a` relative to `b`, metres and metres/second, for every ordered pair, in either direction. -/
theorem spk_chain (ps : Pairs) (seg : Nat → Nat → V6) (P : Nat → V6) (hP : Consistent ps seg P)
    (hu : UniqueCenter ps) (fuel a b : Nat) (v : V6) (h : orbitIn fuel ps seg a b = .ok v) :
    v = si (P a - P b) := by
  unfold orbitIn at h
  cases hpc : propCenter ps a with
  | none => rw [hpc] at h; cases h
  | some c =>
    rw [hpc] at h
    simp only at h
    have hm := propCenter_mem hpc
    rw [propagate_eq hP hm] at h
    simp only at h
    unfold reframe at h
    split at h
    · cases h
    · split at h
      · next hcb => subst hcb; cases h; rfl
      · cases hc : centerTo fuel ps seg c b with
        | ok off =>
          rw [hc] at h; cases h
          rw [centerTo_ok hP hu hc, vadd_eq, ← si_add]; congr 1; abel
        | unknownBody => rw [hc] at h; cases h
        | unknownFrame => rw [hc] at h; cases h
        | noRoute => rw [hc] at h; cases h
        | keyError => rw [hc] at h; cases h
        | noProvider => rw [hc] at h; cases h
        | fuel => rw [hc] at h; cases h

/-- the file's segments chained directly along a list of bodies (first body relative to the last one): a
segment walked from its target towards its centre counts +, the other way round −; SI units -/
noncomputable def chainSum (ps : Pairs) (seg : Nat → Nat → V6) : List Nat → V6
  | a :: b :: rest => (if (b, a) ∈ ps then si (seg b a) else - si (seg a b)) + chainSum ps seg (b :: rest)
  | _ => 0

theorem chainSum_eq {ps : Pairs} {seg : Nat → Nat → V6} {P : Nat → V6} (hP : Consistent ps seg P) :
    ∀ (rest : List Nat) (x : Nat), (x :: rest).IsChain (Linked ps) →
      chainSum ps seg (x :: rest) = si (P x - P ((x :: rest).getLast (by simp))) := by
  intro rest
  induction rest with
  | nil => intro x _; simp [chainSum, si_zero]
  | cons y r ih =>
    intro x hc
    have hxy : Linked ps x y := by cases hc with | cons_cons h _ => exact h
    have hr : (y :: r).IsChain (Linked ps) := by cases hc with | cons_cons _ h => exact h
    unfold chainSum
    rw [ih y hr, List.getLast_cons (by simp : y :: r ≠ [])]
    by_cases h1 : (y, x) ∈ ps
    · rw [if_pos h1, hP y x h1, ← si_add]; congr 1; abel
    · rw [if_neg h1, hP x y (hxy.resolve_left h1), ← si_neg, ← si_add]; congr 1; abel

/-- **The literal statement**: the offset between two centres is the signed sum of the file's segment vectors
along a chain of kernel links leading from `a` to `b`. -/
theorem spk_path_sum (ps : Pairs) (seg : Nat → Nat → V6) (P : Nat → V6) (hP : Consistent ps seg P)
    (hu : UniqueCenter ps) (fuel a b : Nat) (v : V6) (h : centerTo fuel ps seg a b = .ok v) :
    ∃ p : List Nat, p.head? = some a ∧ p.getLast? = some b ∧ p.IsChain (Linked ps) ∧ v = chainSum ps seg p := by
  have hv := centerTo_ok hP hu h
  unfold centerTo at h
  cases hb : build fuel (linkHist ps) with
  | none => rw [hb] at h; cases h
  | some g =>
    cases hp : path fuel g a b with
    | ok p =>
      obtain ⟨hh, hl, hc⟩ := C20.path_valid_chain fuel fuel (linkHist ps) g hb a b p hp
      have hc' : p.IsChain (Linked ps) := List.IsChain.imp (fun u v h => (linked_linkHist ps u v).mp h) hc
      refine ⟨p, hh, hl, hc', ?_⟩
      cases p with
      | nil => simp at hh
      | cons x rest =>
        simp only [List.head?_cons, Option.some.injEq] at hh
        subst hh
        rw [chainSum_eq hP rest x hc', hv]
        have : (x :: rest).getLast (by simp) = b := by
          have := List.getLast?_eq_some_getLast (l := x :: rest) (by simp)
          rw [hl] at this
          exact (Option.some.inj this).symm
        rw [this]
    | unknown => rw [hb] at h; simp only [hp] at h; cases h
    | keyError => rw [hb] at h; simp only [hp] at h; cases h
    | loop => rw [hb] at h; simp only [hp] at h; cases h

/-- **Either direction**: `a` seen from `b` is minus `b` seen from `a` (orbits and frame offsets). -/
theorem spk_antisymm (ps : Pairs) (seg : Nat → Nat → V6) (P : Nat → V6) (hP : Consistent ps seg P)
    (hu : UniqueCenter ps) (fuel fuel' a b : Nat) (v w : V6) :
    (orbitIn fuel ps seg a b = .ok v → orbitIn fuel' ps seg b a = .ok w → v = -w) ∧
    (offsetIn fuel ps seg a b = .ok v → offsetIn fuel' ps seg b a = .ok w → v = -w) ∧
    (orbitIn fuel ps seg a b = .ok v → offsetIn fuel' ps seg b a = .ok w → v = -w) := by
  have key : si (P a - P b) = -si (P b - P a) := by rw [← si_neg]; congr 1; abel
  refine ⟨fun h1 h2 => ?_, fun h1 h2 => ?_, fun h1 h2 => ?_⟩
  · rw [spk_chain ps seg P hP hu _ _ _ _ h1, spk_chain ps seg P hP hu _ _ _ _ h2, key]
  · rw [spk_offset ps seg P hP hu _ _ _ _ h1, spk_offset ps seg P hP hu _ _ _ _ h2, key]
  · rw [spk_chain ps seg P hP hu _ _ _ _ h1, spk_offset ps seg P hP hu _ _ _ _ h2, key]

/-! ## Which kernels satisfy the hypotheses: every kernel grown segment by segment -/

/-- every segment hangs a body not seen before (`t`) below some body `c` -/
def growthB : List Nat → Pairs → Bool
  | _, [] => true
  | seen, (c, t) :: rest => (t != c) && !(seen.contains t) && growthB (t :: c :: seen) rest

theorem growth_fresh : ∀ (ps : Pairs) (seen : List Nat), growthB seen ps = true →
    ∀ c t, (c, t) ∈ ps → t ∉ seen := by
  intro ps
  induction ps with
  | nil => intro _ _ c t h; cases h
  | cons p rest ih =>
    obtain ⟨c0, t0⟩ := p
    intro seen hg c t hm
    simp only [growthB, Bool.and_eq_true, bne_iff_ne, ne_eq, Bool.not_eq_true', List.contains_eq_mem,
      decide_eq_false_iff_not] at hg
    rcases List.mem_cons.mp hm with h | h
    · cases h; exact hg.1.2
    · intro hs
      exact ih _ hg.2 c t h (List.mem_cons_of_mem _ (List.mem_cons_of_mem _ hs))

/-- a grown kernel never gives a body two centres -/
theorem growth_uniqueCenter : ∀ (ps : Pairs) (seen : List Nat), growthB seen ps = true → UniqueCenter ps := by
  intro ps
  induction ps with
  | nil => intro _ _ c c' t h; cases h
  | cons p rest ih =>
    obtain ⟨c0, t0⟩ := p
    intro seen hg c c' t h1 h2
    have hg' := hg
    simp only [growthB, Bool.and_eq_true] at hg'
    have hfresh := growth_fresh rest _ hg'.2
    rcases List.mem_cons.mp h1 with e1 | e1 <;> rcases List.mem_cons.mp h2 with e2 | e2
    · cases e1; cases e2; rfl
    · cases e1; exact absurd (List.mem_cons_self) (hfresh c' _ e2)
    · cases e2; exact absurd (List.mem_cons_self) (hfresh c _ e1)
    · exact ih _ hg'.2 c c' t e1 e2

/-- for a grown kernel ANY segment values derive from one position per body (chain them from the roots) -/
theorem growth_consistent (seg : Nat → Nat → V6) : ∀ (ps : Pairs) (seen : List Nat) (P0 : Nat → V6),
    growthB seen ps = true → ∃ P : Nat → V6, (∀ x ∈ seen, P x = P0 x) ∧ Consistent ps seg P := by
  intro ps
  induction ps with
  | nil => intro _ P0 _; exact ⟨P0, fun _ _ => rfl, fun c t h => by cases h⟩
  | cons p rest ih =>
    obtain ⟨c0, t0⟩ := p
    intro seen P0 hg
    simp only [growthB, Bool.and_eq_true, bne_iff_ne, ne_eq, Bool.not_eq_true', List.contains_eq_mem,
      decide_eq_false_iff_not] at hg
    obtain ⟨⟨hne, hns⟩, hrest⟩ := hg
    obtain ⟨P, hPs, hPc⟩ := ih (t0 :: c0 :: seen) (Function.update P0 t0 (P0 c0 + seg c0 t0)) hrest
    refine ⟨P, ?_, ?_⟩
    · intro x hx
      rw [hPs x (List.mem_cons_of_mem _ (List.mem_cons_of_mem _ hx))]
      exact Function.update_of_ne (fun h : x = t0 => hns (h ▸ hx)) _ _
    · intro c t hm
      rcases List.mem_cons.mp hm with e | e
      · cases e
        rw [hPs t0 List.mem_cons_self, hPs c0 (List.mem_cons_of_mem _ List.mem_cons_self),
          Function.update_self, Function.update_of_ne (fun h : c0 = t0 => hne h.symm)]
        abel
      · exact hPc c t e

/-- **Segments in any order.** The two hypotheses only look at which segments the kernel has, not at their order in
the file: every kernel that can be REORDERED into a grown one (every forest of segments in which each body is the target
of at most one segment — list the segments from the roots outwards) satisfies them, for arbitrary segment values. -/
theorem perm_growth_consistent (seg : Nat → Nat → V6) (ps ps' : Pairs) (hperm : ps.Perm ps')
    (hg : growthB [] ps' = true) : (∃ P : Nat → V6, Consistent ps seg P) ∧ UniqueCenter ps := by
  obtain ⟨P, _, hP⟩ := growth_consistent seg ps' [] (fun _ => 0) hg
  have hu := growth_uniqueCenter ps' [] hg
  exact ⟨⟨P, fun c t h => hP c t (hperm.mem_iff.mp h)⟩,
    fun c c' t h1 h2 => hu c c' t (hperm.mem_iff.mp h1) (hperm.mem_iff.mp h2)⟩

/-- so `spk_chain` applies to the kernel as the file lists it: the satellite before its planet's barycentre -/
example : ([(3, 301), (0, 3), (3, 399)] : Pairs).Perm [(0, 3), (3, 301), (3, 399)] ∧
    growthB [] [(0, 3), (3, 301), (3, 399)] = true ∧ growthB [] [(3, 301), (0, 3), (3, 399)] = false := by
  refine ⟨?_, by decide, by decide⟩
  exact List.Perm.swap _ _ _

/-! ## The kernel of the repository (regenerated from the file on every run) -/

open BeyondVerif.Generated

/-- all routes between the listed bodies are found by the routing tables -/
def allRoutes (fuel : Nat) (ps : Pairs) (bodies : List Nat) : Bool :=
  match build fuel (linkHist ps) with
  | none => false
  | some g => bodies.all (fun a => bodies.all (fun b =>
      match path fuel g a b with
      | .ok _ => true
      | _ => false))

theorem de403_growth : growthB [] dePairs = true := by decide

theorem de403_bodies :
    (dePairs.all (fun p => deBodies.contains p.1 && deBodies.contains p.2) &&
      deBodies.all (fun x => hasFrame dePairs x)) = true := by decide

theorem de403_routes : allRoutes 34 dePairs deBodies = true := by decide +kernel

theorem hasFrame_of_bodies {a : Nat} (ha : a ∈ deBodies) : hasFrame dePairs a = true := by
  have := de403_bodies
  simp only [Bool.and_eq_true, List.all_eq_true] at this
  exact this.2 a ha

theorem route_of_bodies {a b : Nat} (ha : a ∈ deBodies) (hb : b ∈ deBodies) :
    ∃ g p, build 34 (linkHist dePairs) = some g ∧ path 34 g a b = .ok p := by
  have h := de403_routes
  unfold allRoutes at h
  cases hbuild : build 34 (linkHist dePairs) with
  | none => rw [hbuild] at h; cases h
  | some g =>
    rw [hbuild] at h
    simp only [List.all_eq_true] at h
    have := h a ha b hb
    cases hp : path 34 g a b with
    | ok p => exact ⟨g, p, rfl, hp⟩
    | unknown => rw [hp] at this; cases this
    | keyError => rw [hp] at this; cases this
    | loop => rw [hp] at this; cases this

/-- **DE403 test kernel, all 256 ordered pairs, any segment values**: positions `P` chained from the
barycentre exist, every frame offset is returned and equals `P a − P b` in SI units, and every body that has
a propagator yields exactly that vector through `get_orbit(a).copy(frame=b)`. -/
theorem de403_spk_chain (seg : Nat → Nat → V6) :
    ∃ P : Nat → V6, Consistent dePairs seg P ∧
      ∀ a ∈ deBodies, ∀ b ∈ deBodies,
        offsetIn 34 dePairs seg a b = .ok (si (P a - P b)) ∧
        (∀ c, (c, a) ∈ dePairs → orbitIn 34 dePairs seg a b = .ok (si (P a - P b))) := by
  obtain ⟨P, _, hP⟩ := growth_consistent seg dePairs [] (fun _ => 0) de403_growth
  have hu := growth_uniqueCenter dePairs [] de403_growth
  refine ⟨P, hP, ?_⟩
  have center : ∀ a ∈ deBodies, ∀ b ∈ deBodies, centerTo 34 dePairs seg a b = .ok (si (P a - P b)) := by
    intro a ha b hb
    obtain ⟨g, p, hg, hp⟩ := route_of_bodies ha hb
    exact centerTo_of_path hP hu hg hp
  have reframeEq : ∀ a ∈ deBodies, ∀ b ∈ deBodies, ∀ x : V6,
      reframe 34 dePairs seg a b x = .ok (x + si (P a - P b)) := by
    intro a ha b hb x
    unfold reframe
    rw [hasFrame_of_bodies ha, hasFrame_of_bodies hb]
    simp only [Bool.not_true, Bool.or_self, Bool.false_eq_true, if_false]
    split
    · next hab => subst hab; simp [si_zero]
    · rw [center a ha b hb]; rfl
  intro a ha b hb
  refine ⟨?_, ?_⟩
  · unfold offsetIn; rw [reframeEq a ha b hb, vzero_eq, zero_add]
  · intro c hc
    have hcb : c ∈ deBodies := by
      have := de403_bodies
      simp only [Bool.and_eq_true, List.all_eq_true, List.contains_eq_mem, decide_eq_true_eq] at this
      exact (this.1 (c, a) hc).1
    unfold orbitIn
    rw [propCenter_eq hu hc]
    simp only
    rw [propagate_eq hP hc]
    simp only
    rw [reframeEq c hcb b hb, ← si_add]; congr 2; abel

/-- **PCK independence**: the frames created with two different sets of physical constants give the same
vectors (in the code the constants only reach `JplCenter.body`, which neither `propagate`, `convert_to` nor
`transform` read; that this is all they do is what the correspondence run with and without PCK files checks). -/
theorem pck_independent (ps : Pairs) (pck pck' : Nat → BodyConst) (fuel : Nat) (seg : Nat → Nat → V6) (a b : Nat) :
    (createFrames ps pck).orbitIn fuel seg a b = (createFrames ps pck').orbitIn fuel seg a b ∧
    (createFrames ps pck).offsetIn fuel seg a b = (createFrames ps pck').offsetIn fuel seg a b :=
  ⟨rfl, rfl⟩

/-! ## Non-vacuity -/

/-- a three-segment kernel with a reversed-direction request: the Moon seen from the Earth through the
Earth-Moon barycentre, concrete numbers; hypotheses of `spk_chain` hold and the model returns a value -/
example : growthB [] [(0, 3), (3, 399), (3, 301)] = true := by decide

example : ∃ g p, build 10 (linkHist [(0, 3), (3, 399), (3, 301)]) = some g ∧ path 10 g 301 399 = .ok p ∧ p = [301, 3, 399] := by
  refine ⟨_, _, rfl, ?_, rfl⟩; decide

end BeyondVerif.C18
