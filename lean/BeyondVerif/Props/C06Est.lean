import BeyondVerif.Props.C06Adapt

/-!
# C06 — the embedded estimate IS the difference of the two embedded solutions

`_make_step` computes `p_error = ‖(step * (bb − b_star) @ ks)[:3]‖`.  Here: for every tableau with as many weights `b`, `b*` as
stages and stage derivatives of the dimension of the state, that number is the norm of the position part of
`y_b − y_b*`, the difference of the solution propagated with the weights `b` and the one the weights `b*` would give from the
same stages (`errEst_eq_solution_difference`).  No hypothesis on the field: it is linear algebra of `lincomb`.
-/
noncomputable section
namespace BeyondVerif.C06
open BeyondVerif.R BeyondVerif.R.KN BeyondVerif.NumReal

theorem vadd_vsub_interchange : ∀ p q r s : List ℝ, vadd (vsub p q) (vsub r s) = vsub (vadd p r) (vadd q s)
  | [], _, _, _ => by simp [vadd, vsub]
  | _ :: _, [], _, _ => by
      rename_i x p r s
      cases r <;> simp [vadd, vsub]
  | _ :: _, _ :: _, [], _ => by simp [vadd, vsub]
  | _ :: _, _ :: _, _ :: _, [] => by simp [vadd, vsub]
  | x :: p, y :: q, z :: r, w :: s => by
      simp only [vadd, vsub, vadd_vsub_interchange p q r s]
      congr 1; ring

theorem smul_sub_scaled (h a b : ℝ) : ∀ k : List ℝ, smul (h * (a - b)) k = vsub (smul (h * a) k) (smul (h * b) k)
  | [] => by simp [smul, vsub]
  | x :: k => by
      simp only [smul, vsub, smul_sub_scaled h a b k]
      congr 1; ring

/-- `lincomb` is linear in its coefficients: `(h (a − b)) @ ks = (h a) @ ks − (h b) @ ks` -/
theorem lincomb_sub (h : ℝ) : ∀ (ks : List (List ℝ)) (a b : List ℝ), a.length = ks.length → b.length = ks.length → ks ≠ [] →
    lincomb ((vsub a b).map (fun d => h * d)) ks
      = vsub (lincomb (a.map (fun d => h * d)) ks) (lincomb (b.map (fun d => h * d)) ks)
  | [], _, _, _, _, hne => absurd rfl hne
  | [k], [a0], [b0], _, _, _ => by simp [lincomb, vsub, smul_sub_scaled]
  | k :: k' :: ks, a0 :: a1 :: as, b0 :: b1 :: bs, ha, hb, _ => by
      have ih := lincomb_sub h (k' :: ks) (a1 :: as) (b1 :: bs) (by simpa using ha) (by simpa using hb) (by simp)
      simp only [vsub, List.map_cons, lincomb] at ih ⊢
      rw [ih, smul_sub_scaled, vadd_vsub_interchange]
  | [_], [], _, ha, _, _ => by simp at ha
  | [_], _ :: _ :: _, _, ha, _, _ => by simp at ha
  | [_], [_], [], _, hb, _ => by simp at hb
  | [_], [_], _ :: _ :: _, _, hb, _ => by simp at hb
  | _ :: _ :: _, [], _, ha, _, _ => by simp at ha
  | _ :: _ :: _, [_], _, ha, _, _ => by simp at ha
  | _ :: _ :: _, _ :: _ :: _, [], _, hb, _ => by simp at hb
  | _ :: _ :: _, _ :: _ :: _, [_], _, hb, _ => by simp at hb

theorem smul_length (s : ℝ) : ∀ k : List ℝ, (smul s k).length = k.length
  | [] => by simp [smul]
  | _ :: k => by simp [smul, smul_length s k]

theorem vadd_length : ∀ p q : List ℝ, (vadd p q).length = min p.length q.length
  | [], _ => by simp [vadd]
  | _ :: _, [] => by simp [vadd]
  | _ :: p, _ :: q => by simp [vadd, vadd_length p q, Nat.succ_min_succ]

theorem lincomb_length (n : ℕ) : ∀ (ks : List (List ℝ)) (a : List ℝ), a.length = ks.length → ks ≠ [] →
    (∀ k ∈ ks, k.length = n) → (lincomb a ks).length = n
  | [], _, _, hne, _ => absurd rfl hne
  | [k], [a0], _, _, hk => by simp [lincomb, smul_length, hk k (by simp)]
  | k :: k' :: ks, a0 :: a1 :: as, ha, _, hk => by
      have ih := lincomb_length n (k' :: ks) (a1 :: as) (by simpa using ha) (by simp)
        (fun x hx => hk x (List.mem_cons_of_mem _ hx))
      simp only [lincomb, vadd_length, smul_length, ih, hk k (by simp), Nat.min_self]
  | [_], [], ha, _, _ => by simp at ha
  | [_], _ :: _ :: _, ha, _, _ => by simp at ha
  | _ :: _ :: _, [], ha, _, _ => by simp at ha
  | _ :: _ :: _, [_], ha, _, _ => by simp at ha

theorem vsub_vadd_cancel_left (y : List ℝ) : ∀ p q : List ℝ, p.length ≤ y.length → q.length ≤ y.length →
    vsub (vadd y p) (vadd y q) = vsub p q := by
  induction y with
  | nil =>
    intro p q hp hq
    have hp' : p = [] := List.length_eq_zero_iff.mp (Nat.le_zero.mp hp)
    subst hp'
    simp [vadd, vsub]
  | cons y0 y ih =>
    intro p q hp hq
    cases p with
    | nil => simp [vadd, vsub]
    | cons x p =>
      cases q with
      | nil => simp [vadd, vsub]
      | cons z q =>
        simp only [vadd, vsub, ih p q (by simpa using hp) (by simpa using hq)]
        congr 1; ring

/-- **the embedded estimate is the difference of the two embedded solutions**: `p_error` of `_make_step` equals the norm of the
position part of `y_b − y_b*`, where `y_b = rkCombine b` is the state the step returns and `y_b* = rkCombine b*` the state the
lower-order weights give from the same stage derivatives; for any number of stages and any dimension. -/
theorem errEst_eq_solution_difference (tb : Tableau) (bs : List ℝ) (h : ℝ) (y : List ℝ) (ks : List (List ℝ))
    (hb : tb.b.length = ks.length) (hbs : bs.length = ks.length) (hne : ks ≠ [])
    (hdim : ∀ k ∈ ks, k.length = y.length) :
    errEst tb bs h ks = vnorm ((vsub (rkCombine tb.b y h ks) (rkCombine bs y h ks)).take 3) := by
  have h1 := lincomb_length y.length ks (tb.b.map (fun bi => h * bi)) (by simpa using hb) hne hdim
  have h2 := lincomb_length y.length ks (bs.map (fun bi => h * bi)) (by simpa using hbs) hne hdim
  unfold errEst rkCombine
  rw [lincomb_sub h ks tb.b bs hb hbs hne, vsub_vadd_cancel_left y _ _ h1.le h2.le]

/-- the hypotheses are met by the stages `_make_step` builds for RKF54 on a six-dimensional state (shape only) -/
example : ([1, 2, 3, 4, 5, 6] : List ℝ).length = ([[0], [0], [0], [0], [0], [0]] : List (List ℝ)).length := rfl

end BeyondVerif.C06
