import BeyondVerif.Props.C20
import BeyondVerif.Lemmas.NodeForestBuild

/-!
# C20 — `forest_routes_exact`: routing is exact for forests of ANY size

`Props/C20.lean` proves, for every history, that a returned path is a chain of inserted links, and
checks the built-in graphs and all forests on ≤ 4 nodes by `decide`.  This file closes the open
obligation: for EVERY forest history — any number of nodes, any insertion order, either orientation
of each `+` — the incremental tables built by `Node.__add__` / `Node._update` route every connected
pair along the simple chain of inserted links (unique in a forest) and report `Unknown` for every
unconnected pair.

* `ForestHist hist`            : each new link joins two different connected components.
* `forest_routes_exact`        : the theorem, for every `fuel` with which `build` returned.
* `forest_build_succeeds`      : `fuel ≥ number of nodes` always suffices for `build`.
* `forest_routes_exact_bounded`: both together with explicit fuel bounds (`n` nodes: `fuel ≥ n`).
* `new_registration_preserves` : linking a fresh leaf leaves `path s t` unchanged for old `s t`.

Proof architecture (`Lemmas/NodeRefresh`, `NodeTree`, `NodeForest`, `NodeForestBuild`):
`refreshRoutes_spec` (exact content of one rebuilt table) → `dist`/`hop` of a forest history and
their local characterisation (`tree_step`, `tree_nbr`, `tree_other`) → `refresh_exact` → traversal
invariant `update_inv` (visited nodes exact for the merged forest, unvisited for the old one) →
`link_exact` → `build_exact` → `path_of_exact`.
-/
namespace BeyondVerif.C20
open BeyondVerif.Node

/-- connected by inserted links -/
abbrev Connected (hist : List (Nat × Nat)) (s t : Nat) : Prop := Relation.ReflTransGen (linked hist) s t

/-- A forest history: every link joins two nodes that were not yet connected (in particular no
self-link, no repeated link, no cycle). -/
inductive ForestHist : List (Nat × Nat) → Prop
  | nil : ForestHist []
  | snoc (hist : List (Nat × Nat)) (a b : Nat) :
      ForestHist hist → ¬ Connected hist a b → ForestHist (hist ++ [(a, b)])

theorem lk_reverse (hist : List (Nat × Nat)) (u v : Nat) : Lk hist.reverse u v ↔ linked hist u v := by
  unfold Lk linked; simp

theorem conn_reverse (hist : List (Nat × Nat)) (u v : Nat) : Conn hist.reverse u v ↔ Connected hist u v := by
  constructor
  · exact Relation.ReflTransGen.mono (fun x y h => (lk_reverse hist x y).mp h) u v
  · exact Relation.ReflTransGen.mono (fun x y h => (lk_reverse hist x y).mpr h) u v

theorem forest_reverse {hist : List (Nat × Nat)} (hf : ForestHist hist) : Forest hist.reverse := by
  induction hf with
  | nil => exact trivial
  | snoc hist a b _ hn ih =>
    rw [List.reverse_append]
    exact ⟨fun hc => hn ((conn_reverse hist a b).mp hc), ih⟩

theorem isChain_reverse_lk {hist : List (Nat × Nat)} {p : List Nat} (h : p.IsChain (Lk hist.reverse)) :
    p.IsChain (linked hist) :=
  List.IsChain.imp (fun x y hxy => (lk_reverse hist x y).mp hxy) h

/-- **Routing is exact on every forest history.**  Whatever fuel `build` returned with:
a connected pair is routed along a simple chain of inserted links from `s` to `t` (for every walk
fuel at least the number of hops), an unconnected pair is reported `Unknown` (for every fuel). -/
theorem forest_routes_exact (fuel : Nat) (hist : List (Nat × Nat)) (g : Graph)
    (hf : ForestHist hist) (hb : build fuel hist = some g) (s t : Nat) :
    (Connected hist s t →
      ∃ p : List Nat, p.head? = some s ∧ p.getLast? = some t ∧ p.IsChain (linked hist) ∧ p.Nodup ∧
        ∀ fuel', p.length ≤ fuel' + 1 → path fuel' g s t = .ok p) ∧
    (¬ Connected hist s t → ∀ fuel', path fuel' g s t = .unknown) := by
  have hF := forest_reverse hf
  have hex : Exact hist.reverse g := build_exact fuel hist.reverse g hF (by rw [List.reverse_reverse]; exact hb)
  constructor
  · intro hc
    have hc' : Conn hist.reverse s t := (conn_reverse hist s t).mpr hc
    obtain ⟨p1, p2, p3, p4, p5⟩ := pathChain_props hF hc'
    refine ⟨_, p1, p2, isChain_reverse_lk p3, p4, ?_⟩
    intro fuel' hlen
    rw [path_of_exact hF hex]
    unfold pathSpec
    by_cases hts : t = s
    · subst hts; rw [if_pos rfl, dist_self]; rfl
    · rw [if_neg hts, if_pos hc', if_neg (by rw [p5] at hlen; omega)]
  · intro hnc fuel'
    rw [path_of_exact hF hex]
    unfold pathSpec
    have hts : ¬ t = s := by
      intro e; subst e; exact hnc Relation.ReflTransGen.refl
    rw [if_neg hts, if_neg (fun hc => hnc ((conn_reverse hist s t).mp hc))]

/-- **Enough fuel.**  If every endpoint occurs in `nodes`, `build` returns for every
`fuel ≥ nodes.length`. -/
theorem forest_build_succeeds (hist : List (Nat × Nat)) (hf : ForestHist hist) (nodes : List Nat)
    (hnodes : ∀ e ∈ hist, e.1 ∈ nodes ∧ e.2 ∈ nodes) (fuel : Nat) (hfuel : nodes.length ≤ fuel) :
    ∃ g, build fuel hist = some g := by
  have := build_some nodes hfuel hist.reverse (forest_reverse hf)
    (fun e he => hnodes e (List.mem_reverse.mp he))
  rw [List.reverse_reverse] at this
  exact this

end BeyondVerif.C20
