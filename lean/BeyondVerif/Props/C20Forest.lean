import BeyondVerif.Props.C20
import BeyondVerif.Lemmas.NodeComponents

/-!
# C20 — `forest_routes_exact`: routing is exact for forests of ANY size

`Props/C20.lean` proves, for every history, that a returned path is a chain of inserted links, and
checks the built-in graphs and all forests on ≤ 4 nodes by `decide`.  This file closes the open
obligation: for EVERY forest history — any number of nodes, any insertion order, either orientation
of each `+` — the incremental tables built by `Node.__add__` / `Node._update` route every connected
pair along the simple chain of inserted links (unique in a forest) and report `Unknown` for every
unconnected pair.

* `ForestHist hist`            : each new link joins two different connected components.
* `forest_routes_exact`        : the theorem, for every `fuel` with which `build` returned.
* `forest_build_succeeds`      : `fuel ≥ number of nodes` always suffices for `build`.
* `forest_routes_exact_bounded`: both together with explicit fuel bounds (`n` nodes: `fuel ≥ n`).
* `forest_path_unique`         : the returned chain is the ONLY simple chain of links from `s` to `t`.
* `forest_tables_exact`        : the invariant itself — every table is the exact next-hop table:
  `(t, d, k)` is an entry of `u` iff the simple chain from `u` to `t` starts with `d` and has `k` hops.
* `forest_routingExact`        : the executable check `routingExact n hist` of `Model/NodeSpec.lean`
  (the one `small_forests_exact` decides for n ≤ 4) holds for every `n` and every history accepted
  by the executable forest test `isForestHist n`.
* `new_registration_preserves` : linking a fresh leaf leaves `path s t` unchanged for old `s t`.

Proof architecture (`Lemmas/NodeRefresh`, `NodeTree`, `NodeForest`, `NodeForestBuild`):
`refreshRoutes_spec` (exact content of one rebuilt table) → `dist`/`hop` of a forest history and
their local characterisation (`tree_step`, `tree_nbr`, `tree_other`) → `refresh_exact` → traversal
invariant `update_inv` (visited nodes exact for the merged forest, unvisited for the old one) →
`link_exact` → `build_exact` → `path_of_exact`.
-/
namespace BeyondVerif.C20
open BeyondVerif.Node

/-- connected by inserted links -/
abbrev Connected (hist : List (Nat × Nat)) (s t : Nat) : Prop := Relation.ReflTransGen (linked hist) s t

/-- A forest history: every link joins two nodes that were not yet connected (in particular no
self-link, no repeated link, no cycle). -/
inductive ForestHist : List (Nat × Nat) → Prop
  | nil : ForestHist []
  | snoc (hist : List (Nat × Nat)) (a b : Nat) :
      ForestHist hist → ¬ Connected hist a b → ForestHist (hist ++ [(a, b)])

theorem lk_reverse (hist : List (Nat × Nat)) (u v : Nat) : Lk hist.reverse u v ↔ linked hist u v := by
  unfold Lk linked; simp

theorem conn_reverse (hist : List (Nat × Nat)) (u v : Nat) : Conn hist.reverse u v ↔ Connected hist u v := by
  constructor
  · exact Relation.ReflTransGen.mono (fun x y h => (lk_reverse hist x y).mp h) u v
  · exact Relation.ReflTransGen.mono (fun x y h => (lk_reverse hist x y).mpr h) u v

theorem forest_reverse {hist : List (Nat × Nat)} (hf : ForestHist hist) : Forest hist.reverse := by
  induction hf with
  | nil => exact trivial
  | snoc hist a b _ hn ih =>
    rw [List.reverse_append]
    exact ⟨fun hc => hn ((conn_reverse hist a b).mp hc), ih⟩

theorem isChain_reverse_lk {hist : List (Nat × Nat)} {p : List Nat} (h : p.IsChain (Lk hist.reverse)) :
    p.IsChain (linked hist) :=
  List.IsChain.imp (fun x y hxy => (lk_reverse hist x y).mp hxy) h

/-- **Routing is exact on every forest history.**  Whatever fuel `build` returned with:
a connected pair is routed along a simple chain of inserted links from `s` to `t` (for every walk
fuel at least the number of hops), an unconnected pair is reported `Unknown` (for every fuel). -/
theorem forest_routes_exact (fuel : Nat) (hist : List (Nat × Nat)) (g : Graph)
    (hf : ForestHist hist) (hb : build fuel hist = some g) (s t : Nat) :
    (Connected hist s t →
      ∃ p : List Nat, p.head? = some s ∧ p.getLast? = some t ∧ p.IsChain (linked hist) ∧ p.Nodup ∧
        ∀ fuel', p.length ≤ fuel' + 1 → path fuel' g s t = .ok p) ∧
    (¬ Connected hist s t → ∀ fuel', path fuel' g s t = .unknown) := by
  have hF := forest_reverse hf
  have hex : Exact hist.reverse g := build_exact fuel hist.reverse g hF (by rw [List.reverse_reverse]; exact hb)
  constructor
  · intro hc
    have hc' : Conn hist.reverse s t := (conn_reverse hist s t).mpr hc
    obtain ⟨p1, p2, p3, p4, p5⟩ := pathChain_props hF hc'
    refine ⟨_, p1, p2, isChain_reverse_lk p3, p4, ?_⟩
    intro fuel' hlen
    rw [path_of_exact hF hex]
    unfold pathSpec
    by_cases hts : t = s
    · subst hts; rw [if_pos rfl, dist_self]; rfl
    · rw [if_neg hts, if_pos hc', if_neg (by rw [p5] at hlen; omega)]
  · intro hnc fuel'
    rw [path_of_exact hF hex]
    unfold pathSpec
    have hts : ¬ t = s := by
      intro e; subst e; exact hnc Relation.ReflTransGen.refl
    rw [if_neg hts, if_neg (fun hc => hnc ((conn_reverse hist s t).mp hc))]

/-- **Enough fuel.**  If every endpoint occurs in `nodes`, `build` returns for every
`fuel ≥ nodes.length`. -/
theorem forest_build_succeeds (hist : List (Nat × Nat)) (hf : ForestHist hist) (nodes : List Nat)
    (hnodes : ∀ e ∈ hist, e.1 ∈ nodes ∧ e.2 ∈ nodes) (fuel : Nat) (hfuel : nodes.length ≤ fuel) :
    ∃ g, build fuel hist = some g := by
  have := build_some nodes hfuel hist.reverse (forest_reverse hf)
    (fun e he => hnodes e (List.mem_reverse.mp he))
  rw [List.reverse_reverse] at this
  exact this

/-- the core: on a forest history `path` is the specification function `pathSpec` -/
theorem forest_path_eq_spec (fuel : Nat) (hist : List (Nat × Nat)) (g : Graph)
    (hf : ForestHist hist) (hb : build fuel hist = some g) (fuel' s t : Nat) :
    path fuel' g s t = pathSpec hist.reverse fuel' s t := by
  have hF := forest_reverse hf
  exact path_of_exact hF (build_exact fuel hist.reverse g hF (by rw [List.reverse_reverse]; exact hb)) _ _ _

/-- **Explicit fuel bounds.**  For a forest history on nodes `0..n-1`: `build` returns for every
`fuel ≥ n`, and with walk fuel `fuel' ≥ n - 1` every connected pair gets its simple chain, every
unconnected pair `Unknown`. -/
theorem forest_routes_exact_bounded (n : Nat) (hist : List (Nat × Nat)) (hf : ForestHist hist)
    (hn : ∀ e ∈ hist, e.1 < n ∧ e.2 < n) (fuel fuel' : Nat) (hfuel : n ≤ fuel) (hfuel' : n ≤ fuel' + 1) :
    ∃ g, build fuel hist = some g ∧ ∀ s t, s < n →
      (Connected hist s t →
        ∃ p : List Nat, p.head? = some s ∧ p.getLast? = some t ∧ p.IsChain (linked hist) ∧ p.Nodup ∧
          path fuel' g s t = .ok p) ∧
      (¬ Connected hist s t → path fuel' g s t = .unknown) := by
  obtain ⟨g, hb⟩ := forest_build_succeeds hist hf (List.range n)
    (fun e he => ⟨List.mem_range.mpr (hn e he).1, List.mem_range.mpr (hn e he).2⟩) fuel (by simpa using hfuel)
  refine ⟨g, hb, ?_⟩
  intro s t hs
  obtain ⟨h1, h2⟩ := forest_routes_exact fuel hist g hf hb s t
  refine ⟨?_, fun hnc => h2 hnc fuel'⟩
  intro hc
  have hF := forest_reverse hf
  have hc' : Conn hist.reverse s t := (conn_reverse hist s t).mpr hc
  have hd := dist_lt hF (fun e he => hn e (List.mem_reverse.mp he)) hs hc'
  obtain ⟨p1, p2, p3, p4, p5⟩ := pathChain_props hF hc'
  refine ⟨_, p1, p2, isChain_reverse_lk p3, p4, ?_⟩
  rw [forest_path_eq_spec fuel hist g hf hb]
  unfold pathSpec
  by_cases hts : t = s
  · subst hts; rw [if_pos rfl, dist_self]; rfl
  · rw [if_neg hts, if_pos hc', if_neg (by omega)]

/-- **Uniqueness.**  Any simple chain of inserted links from `s` to `t` is the path that is returned. -/
theorem forest_path_unique (fuel : Nat) (hist : List (Nat × Nat)) (g : Graph)
    (hf : ForestHist hist) (hb : build fuel hist = some g) (s t : Nat) (q : List Nat)
    (hhead : q.head? = some s) (hlast : q.getLast? = some t) (hchain : q.IsChain (linked hist))
    (hnd : q.Nodup) (fuel' : Nat) (hfuel' : q.length ≤ fuel' + 1) : path fuel' g s t = .ok q := by
  have hF := forest_reverse hf
  cases q with
  | nil => simp at hhead
  | cons s' l =>
    simp only [List.head?_cons, Option.some.injEq] at hhead
    subst hhead
    have hchain' : (s' :: l).IsChain (Lk hist.reverse) :=
      List.IsChain.imp (fun x y hxy => (lk_reverse hist x y).mpr hxy) hchain
    have hc' : Conn hist.reverse s' t := conn_of_chain l s' t hchain' hlast
    have huniq := forest_chain_unique hF t l s' hchain' hnd hlast
    obtain ⟨_, _, _, _, p5⟩ := pathChain_props hF hc'
    rw [forest_path_eq_spec fuel hist g hf hb, huniq]
    rw [huniq, p5] at hfuel'
    unfold pathSpec
    by_cases hts : t = s'
    · subst hts; rw [if_pos rfl, dist_self]; rfl
    · rw [if_neg hts, if_pos hc', if_neg (by omega)]

/-- **Every table is the exact next-hop table of the forest.**  `r = (target, dir, steps)` is an entry
of the table of `u` iff there is a simple chain of inserted links `u, dir, …, target` with `steps`
hops (that chain is unique by `forest_path_unique`); in particular no entry for unconnected targets
or for `u` itself. -/
theorem forest_tables_exact (fuel : Nat) (hist : List (Nat × Nat)) (g : Graph)
    (hf : ForestHist hist) (hb : build fuel hist = some g) (u : Nat) (r : Route) :
    r ∈ (get g u).routes ↔
      ∃ l : List Nat, (u :: r.dir :: l).IsChain (linked hist) ∧ (u :: r.dir :: l).Nodup ∧
        (u :: r.dir :: l).getLast? = some r.target ∧ r.steps = l.length + 1 := by
  have hF := forest_reverse hf
  have hex : Exact hist.reverse g :=
    build_exact fuel hist.reverse g hF (by rw [List.reverse_reverse]; exact hb)
  rw [hex.2 u r]
  constructor
  · rintro ⟨h1, h2, h3, h4⟩
    obtain ⟨_, p2, p3, p4, p5⟩ := pathChain_props hF h1
    obtain ⟨k, hk⟩ : ∃ k, dist hist.reverse u r.target = k + 1 :=
      ⟨dist hist.reverse u r.target - 1, by have := dist_pos hF h1 h2; omega⟩
    rw [hk] at p2 p3 p4 p5
    simp only [chainTo] at p2 p3 p4 p5
    rw [← h3] at p2 p3 p4 p5
    refine ⟨_, isChain_reverse_lk p3, p4, p2, ?_⟩
    simp only [List.length_cons] at p5
    omega
  · rintro ⟨l, hc, hnd, hl, hs⟩
    have hc' : (u :: r.dir :: l).IsChain (Lk hist.reverse) :=
      List.IsChain.imp (fun x y hxy => (lk_reverse hist x y).mpr hxy) hc
    have hconn : Conn hist.reverse u r.target := conn_of_chain _ u _ hc' hl
    have hne : u ≠ r.target := by
      intro e
      have hm : r.target ∈ r.dir :: l := by
        rw [List.getLast?_cons_cons] at hl; exact List.mem_of_getLast? hl
      rw [List.nodup_cons] at hnd
      exact hnd.1 (e ▸ hm)
    have huniq := forest_chain_unique hF r.target _ u hc' hnd hl
    obtain ⟨k, hk⟩ : ∃ k, dist hist.reverse u r.target = k + 1 :=
      ⟨dist hist.reverse u r.target - 1, by have := dist_pos hF hconn hne; omega⟩
    rw [hk] at huniq
    simp only [chainTo, List.cons.injEq, true_and] at huniq
    have hlen := (chainTo_props hF r.target k _ (tree_hop_conn hF hconn hne)
      (by have := (tree_step hF hconn hne).2; omega)).2.2.2.2
    refine ⟨hconn, hne, huniq.1, ?_⟩
    rw [hk, hs, huniq.2, hlen]

theorem forestHist_of_forest : ∀ (rh : List (Nat × Nat)), Forest rh → ForestHist rh.reverse := by
  intro rh
  induction rh with
  | nil => intro _; exact ForestHist.nil
  | cons e rest ih =>
    obtain ⟨a, b⟩ := e
    intro hF
    rw [List.reverse_cons]
    refine ForestHist.snoc _ a b (ih hF.2) ?_
    intro hc
    have := (conn_reverse rest.reverse a b).mpr hc
    rw [List.reverse_reverse] at this
    exact hF.1 this

/-- the executable forest test of `Model/NodeSpec.lean` implies `ForestHist` -/
theorem forestHist_of_isForestHist {n : Nat} {hist : List (Nat × Nat)} (h : isForestHist n hist = true) :
    ForestHist hist ∧ ∀ e ∈ hist, e.1 < n ∧ e.2 < n := by
  obtain ⟨hF, hn⟩ := isForestHist_sound n hist.reverse (by rw [List.reverse_reverse]; exact h)
  have := forestHist_of_forest hist.reverse hF
  rw [List.reverse_reverse] at this
  exact ⟨this, fun e he => hn e (List.mem_reverse.mpr he)⟩

/-- **The executable exactness check holds for every size.**  `small_forests_exact` decides
`routingExact n hist` for all forest histories with `n ≤ 4`; this is the same statement for every `n`
and every history accepted by `isForestHist n` (fuel `n + 2` for `build` and `path`, connectivity
computed by `components`, path validity by `goodPath`). -/
theorem forest_routingExact (n : Nat) (hist : List (Nat × Nat)) (h : isForestHist n hist = true) :
    routingExact n hist = true := by
  obtain ⟨hF, hn⟩ := isForestHist_sound n hist.reverse (by rw [List.reverse_reverse]; exact h)
  obtain ⟨g, hb⟩ := build_some (List.range n) (fuel := n + 2) (by simp) hist.reverse hF
    (fun e he => ⟨List.mem_range.mpr (hn e he).1, List.mem_range.mpr (hn e he).2⟩)
  have hinv := compInv_components n hist.reverse hn
  have hex := build_exact (n + 2) hist.reverse g hF hb
  rw [List.reverse_reverse] at hb hinv
  unfold routingExact
  rw [hb]
  simp only [List.all_eq_true, List.mem_range]
  intro s hs t ht
  rw [path_of_exact hF hex]
  split
  · next hcomp =>
    have hc : Conn hist.reverse s t := (hinv.2 s t hs ht).mp hcomp
    unfold pathSpec
    by_cases hts : t = s
    · subst hts
      rw [if_pos rfl]
      simp [goodPath, chainB]
    · have hd := dist_lt hF hn hs hc
      rw [if_neg hts, if_pos hc, if_neg (by omega)]
      obtain ⟨p1, p2, p3, p4, _⟩ := pathChain_props hF hc
      simp only [goodPath, Bool.and_eq_true, beq_iff_eq, decide_eq_true_eq]
      exact ⟨⟨⟨p1, p2⟩, (chainB_iff hist _).mpr p3⟩, p4⟩
  · next hcomp =>
    have hnc : ¬ Conn hist.reverse s t := fun hc => hcomp ((hinv.2 s t hs ht).mpr hc)
    have hts : ¬ t = s := by
      intro e; subst e; exact hnc (Conn.refl _ _)
    unfold pathSpec
    rw [if_neg hts, if_neg hnc]
    rfl

/-- **A new registration preserves existing routes.**  Linking a fresh node `f` (never mentioned
in the history; either operand of the `+`) to the graph built by a forest history leaves
`path s t` unchanged — same result for every walk fuel — for all pre-existing `s`, `t`. -/
theorem new_registration_preserves (fuel : Nat) (hist : List (Nat × Nat)) (g g' : Graph)
    (hf : ForestHist hist) (hb : build fuel hist = some g) (a b f : Nat)
    (hfresh : ∀ e ∈ hist, e.1 ≠ f ∧ e.2 ≠ f) (hfab : f = a ∨ f = b) (hab : a ≠ b)
    (hl : link fuel g a b = some g') (s t : Nat) (hs : s ≠ f) (ht : t ≠ f) (fuel' : Nat) :
    path fuel' g' s t = path fuel' g s t := by
  have hF := forest_reverse hf
  have hex : Exact hist.reverse g :=
    build_exact fuel hist.reverse g hF (by rw [List.reverse_reverse]; exact hb)
  have hfresh' : ∀ e ∈ hist.reverse, e.1 ≠ f ∧ e.2 ≠ f := fun e he => hfresh e (List.mem_reverse.mp he)
  have hF' := forest_fresh hF hfresh' hfab hab
  have hex' := link_exact hF' hex hl
  rw [path_of_exact hF' hex', path_of_exact hF hex, pathSpec_fresh hF hfresh' hfab fuel' s t hs ht]

/-! ### non-vacuity -/

/-- a concrete forest history (two trees, both orientations, a late bridge) meets the hypotheses -/
example : ForestHist [(0, 1), (3, 2), (2, 1), (5, 4)] :=
  (forestHist_of_isForestHist (n := 6) (by decide)).1

example : ∃ g, build 6 [(0, 1), (3, 2), (2, 1), (5, 4)] = some g ∧
    path 5 g 0 3 = .ok [0, 1, 2, 3] ∧ path 5 g 0 4 = .unknown := by
  refine ⟨_, rfl, ?_, ?_⟩ <;> decide

/-- a fresh leaf `6` linked (as left operand) to node `2`: hypotheses of `new_registration_preserves` -/
example : ∃ g g', build 7 [(0, 1), (3, 2), (2, 1), (5, 4)] = some g ∧ link 7 g 6 2 = some g' ∧
    (∀ e ∈ [(0, 1), (3, 2), (2, 1), (5, 4)], e.1 ≠ 6 ∧ e.2 ≠ 6) := by
  refine ⟨_, _, rfl, rfl, ?_⟩; decide

end BeyondVerif.C20
